import PySMT.Proofs.SimpBVBase
/-!
# Bit-vector rule family: the arithmetic facts (no terms)

`spec_X` : the core `BitVec` operation of the reference semantics as a function on numbers `< 2^w`;
then the identities on `Nat` / `Int` that the rules of `walk_bv_X` rely on.
-/
namespace PySMT.Simp.BVRules
open PySMT

theorem ofNat_toNat_lt {w x : Nat} (hx : x < 2 ^ w) : (BitVec.ofNat w x).toNat = x := by
  rw [BitVec.toNat_ofNat, Nat.mod_eq_of_lt hx]

theorem spec_and {w x y : Nat} (hx : x < 2 ^ w) (hy : y < 2 ^ w) : spec2 (fun _ a b => a &&& b) w x y = x &&& y := by
  simp only [spec2, BitVec.toNat_and, ofNat_toNat_lt hx, ofNat_toNat_lt hy]
theorem spec_or {w x y : Nat} (hx : x < 2 ^ w) (hy : y < 2 ^ w) : spec2 (fun _ a b => a ||| b) w x y = x ||| y := by
  simp only [spec2, BitVec.toNat_or, ofNat_toNat_lt hx, ofNat_toNat_lt hy]
theorem spec_xor {w x y : Nat} (hx : x < 2 ^ w) (hy : y < 2 ^ w) : spec2 (fun _ a b => a ^^^ b) w x y = x ^^^ y := by
  simp only [spec2, BitVec.toNat_xor, ofNat_toNat_lt hx, ofNat_toNat_lt hy]
theorem spec_add {w x y : Nat} (hx : x < 2 ^ w) (hy : y < 2 ^ w) : spec2 (fun _ a b => a + b) w x y = (x + y) % 2 ^ w := by
  simp only [spec2, BitVec.toNat_add, ofNat_toNat_lt hx, ofNat_toNat_lt hy]
theorem spec_mul {w x y : Nat} (hx : x < 2 ^ w) (hy : y < 2 ^ w) : spec2 (fun _ a b => a * b) w x y = (x * y) % 2 ^ w := by
  simp only [spec2, BitVec.toNat_mul, ofNat_toNat_lt hx, ofNat_toNat_lt hy]
theorem spec_sub {w x y : Nat} (hx : x < 2 ^ w) (hy : y < 2 ^ w) : spec2 (fun _ a b => a - b) w x y = (2 ^ w - y + x) % 2 ^ w := by
  simp only [spec2, BitVec.toNat_sub, ofNat_toNat_lt hx, ofNat_toNat_lt hy]
theorem spec_not {w x : Nat} (hx : x < 2 ^ w) : spec1 (fun _ a => ~~~a) w x = 2 ^ w - 1 - x := by
  simp only [spec1, BitVec.toNat_not, ofNat_toNat_lt hx]
theorem spec_neg {w x : Nat} (hx : x < 2 ^ w) : spec1 (fun _ a => -a) w x = (2 ^ w - x) % 2 ^ w := by
  simp only [spec1, BitVec.toNat_neg, ofNat_toNat_lt hx]

theorem ones_and {w y : Nat} (hy : y < 2 ^ w) : (2 ^ w - 1) &&& y = y := by
  rw [Nat.and_comm, Nat.and_two_pow_sub_one_eq_mod, Nat.mod_eq_of_lt hy]

theorem testBit_of_lt {w y i : Nat} (hy : y < 2 ^ w) (hi : w ≤ i) : y.testBit i = false :=
  Nat.testBit_lt_two_pow (Nat.lt_of_lt_of_le hy (Nat.pow_le_pow_right (by decide) hi))

theorem ones_or {w y : Nat} (hy : y < 2 ^ w) : (2 ^ w - 1) ||| y = 2 ^ w - 1 := by
  apply Nat.eq_of_testBit_eq
  intro i
  rw [Nat.testBit_or, Nat.testBit_two_pow_sub_one]
  by_cases h : i < w
  · simp [h]
  · simp [h, testBit_of_lt hy (Nat.le_of_not_lt h)]

theorem notAnd_ones {w x : Nat} (hx : x < 2 ^ w) : notAnd x (2 ^ w - 1) = 2 ^ w - 1 - x := by
  apply Nat.eq_of_testBit_eq
  intro i
  rw [notAnd, Nat.testBit_bitwise rfl, Nat.testBit_two_pow_sub_one]
  have : 2 ^ w - 1 - x = 2 ^ w - (x + 1) := by omega
  rw [this, Nat.testBit_two_pow_sub_succ hx, Bool.and_comm]

theorem int_emod_toNat {a : Int} {m n : Nat} (h : a = (m : Int)) : (a % (n : Int)).toNat = m % n := by
  subst h
  rw [Int.ofNat_mod_ofNat, Int.toNat_natCast]

theorem two_pow_cast (w : Nat) : ((2 : Int) ^ w) = ((2 ^ w : Nat) : Int) := by
  simp

theorem neg_int {w x : Nat} (hx : x < 2 ^ w) : (((2 : Int) ^ w - x) % 2 ^ w).toNat = (2 ^ w - x) % 2 ^ w := by
  rw [two_pow_cast]
  apply int_emod_toNat
  omega

theorem sub_int {w x y : Nat} (hy : y < 2 ^ w) : (((x : Int) - y) % 2 ^ w).toNat = (2 ^ w - y + x) % 2 ^ w := by
  rw [two_pow_cast]
  have : ((x : Int) - y) % ((2 ^ w : Nat) : Int) = (((2 ^ w - y + x : Nat) : Int)) % ((2 ^ w : Nat) : Int) := by
    have e : (((2 ^ w - y + x : Nat) : Int)) = (x : Int) - y + ((2 ^ w : Nat) : Int) := by omega
    rw [e, Int.add_emod_right]
  rw [this]
  exact int_emod_toNat rfl

/-! ## comparisons, signed values -/

theorem spec_ult {w x y : Nat} (hx : x < 2 ^ w) (hy : y < 2 ^ w) :
    specRel (fun _ a b => a.ult b) w x y = decide (x < y) := by
  simp only [specRel, BitVec.ult, BitVec.toNat_ofNat, Nat.mod_eq_of_lt hx, Nat.mod_eq_of_lt hy]

theorem spec_ule {w x y : Nat} (hx : x < 2 ^ w) (hy : y < 2 ^ w) :
    specRel (fun _ a b => a.ule b) w x y = decide (x ≤ y) := by
  simp only [specRel, BitVec.ule, BitVec.toNat_ofNat, Nat.mod_eq_of_lt hx, Nat.mod_eq_of_lt hy]

theorem and_two_pow_eq_zero {x k : Nat} : x &&& 2 ^ k = 0 ↔ x.testBit k = false := by
  constructor
  · intro h
    have := congrArg (fun n => Nat.testBit n k) h
    simpa [Nat.testBit_and, Nat.testBit_two_pow] using this
  · intro h
    apply Nat.eq_of_testBit_eq
    intro i
    rw [Nat.testBit_and, Nat.testBit_two_pow, Nat.zero_testBit]
    by_cases e : k = i
    · subst e; simp [h]
    · simp [e]

/-- the most significant bit of a number `< 2^w` -/
theorem testBit_msb {w x : Nat} (hx : x < 2 ^ w) : x.testBit (w - 1) = decide (2 ^ w ≤ 2 * x) := by
  cases w with
  | zero =>
    have : x = 0 := by simpa using hx
    subst this; simp
  | succ k =>
    rw [Nat.add_sub_cancel, Nat.testBit_eq_decide_div_mod_eq]
    have h2 : 2 ^ (k + 1) = 2 * 2 ^ k := by rw [Nat.pow_succ]; omega
    have hq : x / 2 ^ k < 2 := Nat.div_lt_of_lt_mul (by omega)
    have hle : 1 ≤ x / 2 ^ k ↔ 2 ^ k ≤ x := by
      rw [Nat.le_div_iff_mul_le (Nat.two_pow_pos k)]; omega
    rw [h2]
    generalize x / 2 ^ k = q at hq hle ⊢
    generalize 2 ^ k = n at hle ⊢
    by_cases h1 : 1 ≤ q
    · have := hle.mp h1
      have hq1 : q = 1 := by omega
      subst hq1
      simp; omega
    · have : ¬ n ≤ x := fun h => h1 (hle.mpr h)
      have hq0 : q = 0 := by omega
      subst hq0
      simp; omega

theorem twosComplement_eq {w x : Nat} (hx : x < 2 ^ w) : twosComplement x w = (BitVec.ofNat w x).toInt := by
  rw [BitVec.toInt_eq_toNat_cond, ofNat_toNat_lt hx, twosComplement, Nat.one_shiftLeft, two_pow_cast]
  have hb := testBit_msb hx
  by_cases h : x &&& 2 ^ (w - 1) = 0
  · have := and_two_pow_eq_zero.mp h
    rw [this] at hb
    have : ¬ 2 ^ w ≤ 2 * x := by simpa using hb.symm
    simp only [h, ne_eq, not_true_eq_false, if_false]
    rw [if_pos (by omega)]
  · have : x.testBit (w - 1) = true := by
      cases ht : x.testBit (w - 1) with
      | true => rfl
      | false => exact absurd (and_two_pow_eq_zero.mpr ht) h
    rw [this] at hb
    have : 2 ^ w ≤ 2 * x := by simpa using hb.symm
    simp only [h, ne_eq, not_false_eq_true, if_true]
    rw [if_neg (by omega)]

theorem spec_slt {w x y : Nat} (hx : x < 2 ^ w) (hy : y < 2 ^ w) :
    specRel (fun _ a b => a.slt b) w x y = decide (twosComplement x w < twosComplement y w) := by
  simp only [specRel, BitVec.slt_eq_decide, twosComplement_eq hx, twosComplement_eq hy]

theorem spec_sle {w x y : Nat} (hx : x < 2 ^ w) (hy : y < 2 ^ w) :
    specRel (fun _ a b => a.sle b) w x y = decide (twosComplement x w ≤ twosComplement y w) := by
  simp only [specRel, BitVec.sle_eq_decide, twosComplement_eq hx, twosComplement_eq hy]

theorem specRel_self_slt (w x : Nat) : specRel (fun _ a b => a.slt b) w x x = false := by
  simp [specRel, BitVec.slt_eq_decide]
theorem specRel_self_sle (w x : Nat) : specRel (fun _ a b => a.sle b) w x x = true := by
  simp [specRel, BitVec.sle_eq_decide]
theorem specRel_self_ult (w x : Nat) : specRel (fun _ a b => a.ult b) w x x = false := by
  simp [specRel, BitVec.ult]
theorem specRel_self_ule (w x : Nat) : specRel (fun _ a b => a.ule b) w x x = true := by
  simp [specRel, BitVec.ule]

/-- `x.bv_signed_value() < 0` is the sign bit -/
theorem signedNeg_eq {w x : Nat} (hx : x < 2 ^ w) : signedNeg x w = (BitVec.ofNat w x).msb := by
  rw [signedNeg, twosComplement_eq hx, BitVec.toInt_eq_toNat_cond, BitVec.msb_eq_decide, ofNat_toNat_lt hx]
  congr 1
  apply propext
  cases w with
  | zero =>
    have : x = 0 := by simpa using hx
    subst this; simp
  | succ k =>
    have h2 : 2 ^ (k + 1) = 2 * 2 ^ k := by rw [Nat.pow_succ]; omega
    rw [Nat.add_sub_cancel]
    split <;> omega

/-! ## rotations, concatenation, sign extension -/

theorem pow_split {w r : Nat} (hr : r ≤ w) : 2 ^ w = 2 ^ (w - r) * 2 ^ r := by
  rw [← Nat.pow_add, Nat.sub_add_cancel hr]

theorem shr_lt {v w r : Nat} (hv : v < 2 ^ w) (hr : r ≤ w) : v >>> r < 2 ^ (w - r) := by
  rw [Nat.shiftRight_eq_div_pow, Nat.div_lt_iff_lt_mul (Nat.two_pow_pos r), ← pow_split hr]
  exact hv

theorem shl_mod {v w r : Nat} (hr : r ≤ w) : (v <<< r) % 2 ^ w = (v % 2 ^ (w - r)) * 2 ^ r := by
  rw [Nat.shiftLeft_eq, pow_split hr, Nat.mul_mod_mul_right]

theorem add_mul_eq_or {a b s : Nat} (ha : a < 2 ^ s) : b * 2 ^ s ||| a = a + b * 2 ^ s := by
  rw [← Nat.shiftLeft_eq, ← Nat.shiftLeft_add_eq_or_of_lt ha, Nat.add_comm]

theorem shr_self {v w : Nat} (hv : v < 2 ^ w) : v >>> w = 0 := by
  rw [Nat.shiftRight_eq_div_pow]; exact Nat.div_eq_of_lt hv

theorem ror_arith {w v r : Nat} (hv : v < 2 ^ w) (hr : r ≤ w) :
    v >>> (r % w) ||| (v <<< (w - r % w)) % 2 ^ w =
      (v >>> min r w) + (v % 2 ^ (min r w)) * 2 ^ (w - min r w) := by
  rw [Nat.min_eq_left hr]
  by_cases h : r = w
  · subst h
    have h0 : r % r = 0 := Nat.mod_self r
    rw [h0, Nat.sub_zero, Nat.sub_self, Nat.shiftRight_zero, shr_self hv, Nat.shiftLeft_eq, Nat.mul_mod_left,
      Nat.or_zero, Nat.mod_eq_of_lt hv]
    simp
  · have hlt : r < w := by omega
    rw [Nat.mod_eq_of_lt hlt, shl_mod (Nat.sub_le w r), Nat.sub_sub_self hr, Nat.or_comm,
      add_mul_eq_or (shr_lt hv hr)]

theorem rol_arith {w v r : Nat} (hv : v < 2 ^ w) (hr : r ≤ w) :
    (v <<< (r % w)) % 2 ^ w ||| v >>> (w - r % w) =
      (v >>> (if r = 0 then 0 else w - r)) + (v % 2 ^ (if r = 0 then 0 else w - r)) *
        2 ^ (w - (if r = 0 then 0 else w - r)) := by
  by_cases h : r = 0 ∨ r = w
  · have h0 : r % w = 0 := by
      rcases h with rfl | rfl
      · exact Nat.zero_mod w
      · exact Nat.mod_self r
    have hn : (if r = 0 then 0 else w - r) = 0 := by
      rcases h with rfl | rfl
      · simp
      · simp
    rw [h0, hn, Nat.sub_zero, Nat.shiftLeft_zero, Nat.shiftRight_zero, shr_self hv, Nat.mod_eq_of_lt hv]
    simp [Nat.mod_one]
  · have hlt : r < w := by omega
    have hne : r ≠ 0 := by omega
    rw [if_neg hne, Nat.mod_eq_of_lt hlt, shl_mod hr, Nat.sub_sub_self hr,
      add_mul_eq_or (by simpa [Nat.sub_sub_self hr] using shr_lt hv (Nat.sub_le w r))]

theorem concat_arith {v0 v1 w1 : Nat} (h1 : v1 < 2 ^ w1) : v0 <<< w1 ||| v1 = 2 ^ w1 * v0 + v1 := by
  rw [← Nat.shiftLeft_add_eq_or_of_lt h1, Nat.shiftLeft_eq, Nat.mul_comm]

theorem msb_ofNat {w x : Nat} (hx : x < 2 ^ w) : (BitVec.ofNat w x).msb = x.testBit (w - 1) := by
  rw [testBit_msb hx, BitVec.msb_eq_decide, ofNat_toNat_lt hx]
  congr 1
  apply propext
  cases w with
  | zero =>
    have : x = 0 := by simpa using hx
    subst this; simp
  | succ k =>
    have h2 : 2 ^ (k + 1) = 2 * 2 ^ k := by rw [Nat.pow_succ]; omega
    rw [Nat.add_sub_cancel]
    omega

theorem sext_arith {wa k v : Nat} (hv : v < 2 ^ wa) :
    (BitVec.signExtend (wa + k) (BitVec.ofNat wa v)).toNat =
      (if v.testBit (wa - 1) then (2 ^ k - 1) * 2 ^ wa else 0) + v := by
  rw [BitVec.toNat_signExtend, BitVec.toNat_setWidth, ofNat_toNat_lt hv, msb_ofNat hv]
  have hle : 2 ^ wa ≤ 2 ^ (wa + k) := Nat.pow_le_pow_right (by decide) (Nat.le_add_right wa k)
  rw [Nat.mod_eq_of_lt (Nat.lt_of_lt_of_le hv hle), Nat.add_comm]
  congr 1
  split
  · rw [Nat.sub_mul, Nat.one_mul, Nat.pow_add, Nat.mul_comm]
  · rfl

/-! ## division, remainder, shifts -/

theorem ofNat_eq_zero_iff {w y : Nat} (hy : y < 2 ^ w) : BitVec.ofNat w y = 0 ↔ y = 0 := by
  constructor
  · intro h
    have := congrArg BitVec.toNat h
    rw [ofNat_toNat_lt hy] at this
    simpa using this
  · rintro rfl; rfl

theorem spec_udiv {w x y : Nat} (hx : x < 2 ^ w) (hy : y < 2 ^ w) :
    spec2 (fun _ a b => BitVec.smtUDiv a b) w x y = if y = 0 then 2 ^ w - 1 else x / y := by
  simp only [spec2, BitVec.smtUDiv]
  by_cases h : y = 0
  · rw [if_pos h, if_pos ((ofNat_eq_zero_iff hy).mpr h), BitVec.toNat_allOnes]
  · rw [if_neg h, if_neg (fun e => h ((ofNat_eq_zero_iff hy).mp e)), BitVec.udiv_eq, BitVec.toNat_udiv,
      ofNat_toNat_lt hx, ofNat_toNat_lt hy]

theorem spec_urem {w x y : Nat} (hx : x < 2 ^ w) (hy : y < 2 ^ w) :
    spec2 (fun _ a b => BitVec.umod a b) w x y = x % y := by
  simp only [spec2, BitVec.umod_eq, BitVec.toNat_umod, ofNat_toNat_lt hx, ofNat_toNat_lt hy]

theorem spec_shl {w x y : Nat} (hx : x < 2 ^ w) (hy : y < 2 ^ w) :
    spec2 (fun _ a b => a <<< b.toNat) w x y = (x <<< y) % 2 ^ w := by
  simp only [spec2, BitVec.toNat_shiftLeft, ofNat_toNat_lt hx, ofNat_toNat_lt hy]

theorem spec_shr {w x y : Nat} (hx : x < 2 ^ w) (hy : y < 2 ^ w) :
    spec2 (fun _ a b => a >>> b.toNat) w x y = x >>> y := by
  simp only [spec2, BitVec.toNat_ushiftRight, ofNat_toNat_lt hx, ofNat_toNat_lt hy]

theorem div_mod_lt {w x y : Nat} (hx : x < 2 ^ w) : (x / y) % 2 ^ w = x / y :=
  Nat.mod_eq_of_lt (Nat.lt_of_le_of_lt (Nat.div_le_self x y) hx)

theorem shl_big {w x y : Nat} (h : w ≤ y) : (x <<< y) % 2 ^ w = 0 := by
  rw [Nat.shiftLeft_eq]
  exact Nat.mod_eq_zero_of_dvd (Nat.dvd_mul_left_of_dvd (Nat.pow_dvd_pow 2 h) x)

theorem shr_big {w x y : Nat} (hx : x < 2 ^ w) (h : w ≤ y) : x >>> y = 0 := by
  rw [Nat.shiftRight_eq_div_pow]
  exact Nat.div_eq_of_lt (Nat.lt_of_lt_of_le hx (Nat.pow_le_pow_right (by decide) h))

theorem shr_mod_lt {w x y : Nat} (hx : x < 2 ^ w) : (x >>> y) % 2 ^ w = x >>> y :=
  Nat.mod_eq_of_lt (Nat.lt_of_le_of_lt (Nat.shiftRight_le x y) hx)

/-! ## the numbers `walk_bv_neg/udiv/urem/lshr` compute on constants -/
def negN (w v : Nat) : Nat := (((2 : Int) ^ w - v) % 2 ^ w).toNat
def udivN (w x y : Nat) : Nat := if y = 0 then 2 ^ w - 1 else if y = 1 then x else (x / y) % 2 ^ w
def uremN (x y : Nat) : Nat := if y = 0 then x else if y = 1 then 0 else x % y
def lshrN (w x y : Nat) : Nat := if y = 0 then x else if y ≥ w then 0 else (x >>> y) % 2 ^ w

theorem ofNat_toNat_self {w : Nat} (Z : BitVec w) : BitVec.ofNat w Z.toNat = Z := by
  apply BitVec.eq_of_toNat_eq
  rw [BitVec.toNat_ofNat, Nat.mod_eq_of_lt Z.isLt]

theorem spec2_bv (f : (w : Nat) → BitVec w → BitVec w → BitVec w) {w : Nat} (X Y : BitVec w) :
    spec2 f w X.toNat Y.toNat = (f w X Y).toNat := by
  rw [spec2, ofNat_toNat_self, ofNat_toNat_self]

theorem negN_bv {w : Nat} (Z : BitVec w) : negN w Z.toNat = (-Z).toNat := by
  rw [negN, neg_int Z.isLt, BitVec.toNat_neg]

theorem udivN_bv {w : Nat} (X Y : BitVec w) : udivN w X.toNat Y.toNat = (BitVec.smtUDiv X Y).toNat := by
  rw [← spec2_bv (fun _ a b => BitVec.smtUDiv a b), spec_udiv X.isLt Y.isLt, udivN]
  by_cases h0 : Y.toNat = 0
  · rw [if_pos h0, if_pos h0]
  · rw [if_neg h0, if_neg h0]
    by_cases h1 : Y.toNat = 1
    · rw [if_pos h1, h1, Nat.div_one]
    · rw [if_neg h1, div_mod_lt X.isLt]

theorem uremN_bv {w : Nat} (X Y : BitVec w) : uremN X.toNat Y.toNat = (BitVec.umod X Y).toNat := by
  rw [← spec2_bv (fun _ a b => BitVec.umod a b), spec_urem X.isLt Y.isLt, uremN]
  by_cases h0 : Y.toNat = 0
  · rw [if_pos h0, h0, Nat.mod_zero]
  · rw [if_neg h0]
    by_cases h1 : Y.toNat = 1
    · rw [if_pos h1, h1, Nat.mod_one]
    · rw [if_neg h1]

theorem lshrN_eq {w x : Nat} (hx : x < 2 ^ w) (y : Nat) : lshrN w x y = x >>> y := by
  rw [lshrN]
  by_cases h0 : y = 0
  · rw [if_pos h0, h0, Nat.shiftRight_zero]
  · rw [if_neg h0]
    by_cases h1 : y ≥ w
    · rw [if_pos h1, shr_big hx h1]
    · rw [if_neg h1, shr_mod_lt hx]

theorem signedNeg_bv {w : Nat} (Z : BitVec w) : signedNeg Z.toNat w = Z.msb := by
  rw [signedNeg_eq Z.isLt, ofNat_toNat_self]

/-! ## `walk_bv_sdiv`, `walk_bv_srem` on numbers -/

def sdivN (w x y : Nat) : Nat :=
  if (!signedNeg x w && !signedNeg y w) = true then udivN w x y
  else if (signedNeg x w && !signedNeg y w) = true then negN w (udivN w (negN w x) y)
  else if (!signedNeg x w && signedNeg y w) = true then negN w (udivN w x (negN w y))
  else udivN w (negN w x) (negN w y)

theorem sdivN_bv {w : Nat} (X Y : BitVec w) : sdivN w X.toNat Y.toNat = (BitVec.smtSDiv X Y).toNat := by
  rw [sdivN, signedNeg_bv, signedNeg_bv, BitVec.smtSDiv]
  cases hx : X.msb <;> cases hy : Y.msb <;> simp only [Bool.not_true, Bool.not_false, Bool.and_self,
    Bool.and_true, Bool.and_false, Bool.false_eq_true, if_true, if_false, BitVec.neg_eq]
  · rw [udivN_bv]
  · rw [negN_bv Y, udivN_bv, negN_bv]
  · rw [negN_bv X, udivN_bv, negN_bv]
  · rw [negN_bv X, negN_bv Y, udivN_bv]

theorem spec_sdiv {w x y : Nat} (hx : x < 2 ^ w) (hy : y < 2 ^ w) :
    spec2 (fun _ a b => BitVec.smtSDiv a b) w x y = sdivN w x y := by
  have := sdivN_bv (BitVec.ofNat w x) (BitVec.ofNat w y)
  rw [ofNat_toNat_lt hx, ofNat_toNat_lt hy] at this
  rw [this]; rfl

def sremN (w x y : Nat) : Nat :=
  let l := if signedNeg x w = true then negN w x else x
  let r := if signedNeg y w = true then negN w y else y
  let res := uremN l r
  if signedNeg x w = true then negN w res else res

theorem sremN_bv {w : Nat} (X Y : BitVec w) : sremN w X.toNat Y.toNat = (BitVec.srem X Y).toNat := by
  simp only [sremN]
  rw [signedNeg_bv, signedNeg_bv, BitVec.srem]
  cases hx : X.msb <;> cases hy : Y.msb <;> simp only [Bool.false_eq_true, if_true, if_false, BitVec.neg_eq]
  · rw [uremN_bv]
  · rw [negN_bv Y, uremN_bv]
  · rw [negN_bv X, uremN_bv, negN_bv]
  · rw [negN_bv X, negN_bv Y, uremN_bv, negN_bv]

theorem spec_srem {w x y : Nat} (hx : x < 2 ^ w) (hy : y < 2 ^ w) :
    spec2 (fun _ a b => BitVec.srem a b) w x y = sremN w x y := by
  have := sremN_bv (BitVec.ofNat w x) (BitVec.ofNat w y)
  rw [ofNat_toNat_lt hx, ofNat_toNat_lt hy] at this
  rw [this]; rfl

/-! ## `walk_bv_ashr`: the `set_bit` loop -/

theorem testBit_setBit (n j i : Nat) : (setBit n j).testBit i = (n.testBit i || decide (j = i)) := by
  rw [setBit, Nat.testBit_or, Nat.one_shiftLeft, Nat.testBit_two_pow]

theorem testBit_foldl_setBit : ∀ (len s n i : Nat),
    ((List.range' s len).foldl setBit n).testBit i = (n.testBit i || decide (s ≤ i ∧ i < s + len))
  | 0, s, n, i => by
    have : decide (s ≤ i ∧ i < s + 0) = false := decide_eq_false (by omega)
    rw [this, Bool.or_false]; rfl
  | len + 1, s, n, i => by
    rw [List.range'_succ, List.foldl_cons, testBit_foldl_setBit len (s + 1) (setBit n s) i, testBit_setBit,
      Bool.or_assoc]
    congr 1
    by_cases h1 : s = i <;> by_cases h2 : s + 1 ≤ i ∧ i < s + 1 + len <;> simp [h1, h2] <;> omega

theorem testBit_padOnes (n w pl i : Nat) (h : pl ≤ w) :
    (padOnes n w pl).testBit i = (n.testBit i || decide (w - pl ≤ i ∧ i < w)) := by
  rw [padOnes, testBit_foldl_setBit]
  congr 2
  apply propext
  omega

def ashrN (w x y : Nat) : Nat :=
  if signedNeg x w = true then padOnes (lshrN w x y) w (if w > y then y else w) else lshrN w x y

theorem ashrN_bv {w : Nat} (X : BitVec w) (y : Nat) : ashrN w X.toNat y = (X.sshiftRight y).toNat := by
  rw [ashrN, signedNeg_bv, lshrN_eq X.isLt]
  cases hm : X.msb
  · simp only [Bool.false_eq_true, if_false]
    rw [BitVec.sshiftRight_eq_of_msb_false hm, BitVec.toNat_ushiftRight]
  · simp only [if_true]
    apply Nat.eq_of_testBit_eq
    intro i
    have hpl : (if w > y then y else w) ≤ w := by split <;> omega
    rw [testBit_padOnes _ _ _ _ hpl, Nat.testBit_shiftRight, BitVec.testBit_toNat (X.sshiftRight y),
      BitVec.getLsbD_sshiftRight, hm, ← BitVec.testBit_toNat]
    by_cases hi : w ≤ i
    · have h1 : X.toNat.testBit (y + i) = false := testBit_of_lt X.isLt (by omega)
      have h2 : decide (w - (if w > y then y else w) ≤ i ∧ i < w) = false := decide_eq_false (by omega)
      rw [h1, h2, decide_eq_true hi]; rfl
    · rw [decide_eq_false hi]
      by_cases hyi : y + i < w
      · have h2 : decide (w - (if w > y then y else w) ≤ i ∧ i < w) = false :=
          decide_eq_false (by split <;> omega)
        rw [h2, if_pos hyi]; simp
      · have h1 : X.toNat.testBit (y + i) = false := testBit_of_lt X.isLt (by omega)
        have h2 : decide (w - (if w > y then y else w) ≤ i ∧ i < w) = true :=
          decide_eq_true (by split <;> omega)
        rw [h1, h2, if_neg hyi]; rfl

theorem spec_ashr {w x y : Nat} (hx : x < 2 ^ w) (hy : y < 2 ^ w) :
    spec2 (fun _ a b => a.sshiftRight b.toNat) w x y = ashrN w x y := by
  have := ashrN_bv (BitVec.ofNat w x) y
  rw [ofNat_toNat_lt hx] at this
  rw [this, spec2, ofNat_toNat_lt hy]

end PySMT.Simp.BVRules
