import PySMT.Proofs.C08AgreeHead2
import PySMT.Proofs.C08AgreeRot
/-!
# C08/C09 agreement: the induction steps, one per syntactic form
-/
namespace PySMT.Parser.Agree
open PySMT PySMT.Parser PySMT.Std PySMT.Sexp

/-- the agreement statement for one text: whatever the standard reads in a corresponding environment, the parser reads
the same term (normalised), keeps the manager within `ρ`, and the value satisfies the invariant -/
def AgreeAt (env : SEnv) (ρ : List (String × Sym)) (s : Sexp) : Prop :=
  ∀ (sc : List Binding) (Γ : PEnv) (lone : Bool), Corr env sc Γ → MgrLe Γ.mgr ρ → RotOK env sc s = true →
    ∀ u τ, rd env sc s = .ok (u, τ) →
      ∃ σ', rdVal Γ lone s = .ok (.term (mkNorm u), σ') ∧ MgrLe σ' ρ ∧ TOK (mkNorm u) τ

def AgreeListAt (env : SEnv) (ρ : List (String × Sym)) (l : List Sexp) : Prop :=
  ∀ (sc : List Binding) (Γ : PEnv), Corr env sc Γ → MgrLe Γ.mgr ρ → RotOKL env sc l = true →
    ∀ as, rdList env sc l = .ok as →
      ∃ σ', rdArgs Γ l = .ok ((nargs as).map .term, σ') ∧ MgrLe σ' ρ ∧ ∀ a ∈ as, TOK (mkNorm a.1) a.2

/-! ## argument lists -/

theorem agreeL_nil (env : SEnv) (ρ : List (String × Sym)) : AgreeListAt env ρ [] := by
  intro sc Γ _ hm _ as h
  simp only [rdList, Except.ok.injEq] at h
  subst h
  exact ⟨Γ.mgr, by rw [rdArgs_nil]; rfl, hm, by simp⟩

theorem agreeL_cons (env : SEnv) (ρ : List (String × Sym)) (s : Sexp) (r : List Sexp)
    (h1 : AgreeAt env ρ s) (h2 : AgreeListAt env ρ r) : AgreeListAt env ρ (s :: r) := by
  intro sc Γ hc hm hro as h
  rw [RotOKL_cons, Bool.and_eq_true] at hro
  simp only [rdList] at h
  cases hs : rd env sc s with
  | error e => simp [hs] at h
  | ok t =>
    cases hr : rdList env sc r with
    | error e => simp [hs, hr] at h
    | ok ts =>
      simp only [hs, hr, Except.ok.injEq] at h
      subst h
      obtain ⟨u, τ⟩ := t
      obtain ⟨σ1, hv, hm1, htok⟩ := h1 sc Γ false hc hm hro.1 u τ hs
      obtain ⟨σ2, hvs, hm2, htoks⟩ := h2 sc { Γ with mgr := σ1 } (corr_mgr hc σ1) hm1 hro.2 ts hr
      refine ⟨σ2, ?_, hm2, ?_⟩
      · rw [rdArgs]
        simp only [hv, hvs]
        rfl
      · intro a ha
        simp only [List.mem_cons] at ha
        rcases ha with rfl | ha
        · exact htok
        · exact htoks a ha

/-! ## applications -/

theorem rdList_one {env : SEnv} {sc : List Binding} {x : Sexp} {a : TT} (h : rdList env sc [x] = .ok [a]) :
    rd env sc x = .ok a := by
  simp only [rdList] at h
  cases hx : rd env sc x with
  | error e => simp [hx] at h
  | ok t => simp only [hx, Except.ok.injEq, List.cons.injEq, and_true] at h; rw [h]

theorem rdList_length {env : SEnv} {sc : List Binding} : ∀ {l : List Sexp} {as : List TT},
    rdList env sc l = .ok as → as.length = l.length
  | [], as, h => by simp only [rdList, Except.ok.injEq] at h; subst h; rfl
  | s :: r, as, h => by
    simp only [rdList] at h
    cases hs : rd env sc s with
    | error e => simp [hs] at h
    | ok t =>
      cases hr : rdList env sc r with
      | error e => simp [hs, hr] at h
      | ok ts =>
        simp only [hs, hr, Except.ok.injEq] at h
        subst h
        simp [rdList_length hr]

/-- from the side condition `rotHeadOK` to the fact the rotation lemmas need -/
theorem rot_of_headOK (env : SEnv) (sc : List Binding) (hd args : List Sexp) (as : List TT)
    (hro : rotHeadOK env sc hd args = true) (hl : rdList env sc args = .ok as) (u : Term) (τ : Ty)
    (hap : applyHead env hd as = .ok (u, τ)) :
    ∀ f k kk, hd = [.atom "_", .atom f, .atom k] → (f = "rotate_left" ∨ f = "rotate_right") →
      numeral? k = some kk → ∀ a ∈ as, ∀ m, a.2 = .bv m → kk ≤ m := by
  intro f k kk hhd hf' hk a ha m hm2
  subst hhd
  have hlen := rdList_length hl
  have hir : isRot f = true := by rcases hf' with rfl | rfl <;> decide
  match args, as, hlen, hl, ha with
  | [x], [a'], _, hl, ha =>
    have hx := rdList_one hl
    have hro1 := hro
    simp only [List.mem_singleton] at ha
    subst ha
    obtain ⟨a1, a2⟩ := a
    simp only at hm2
    subst hm2
    simp only [rotHeadOK, beq_self_eq_true, hir, Bool.and_self, if_true, hx, hk, decide_eq_true_eq] at hro1
    exact hro1
  | [], [], _, _, ha => simp at ha
  | _ :: _ :: _, _ :: _ :: _, _, hl, ha =>
    -- a rotation takes one argument: the standard rejects other numbers
    exfalso
    simp only [applyHead, (by rcases hf' with rfl | rfl <;> first | exact pyTok_rot.2.2.1 | exact pyTok_rot.2.2.2 :
      symName? f = some f)] at hap
    cases hidx : indices [Sexp.atom k] with
    | none => simp [hidx] at hap
    | some ns =>
      obtain ⟨nk, _, rfl⟩ := indices_one hidx
      simp only [hidx, List.isEmpty_cons, Bool.false_eq_true, if_false] at hap
      rcases hf' with rfl | rfl <;> simp [applyIndexed] at hap


/-- `(f args…)` for a theory symbol of the fragment -/
theorem agree_app (env : SEnv) (ρ : List (String × Sym)) (f : String) (args : List Sexp) (hf : f ∈ fragOps)
    (har : arityOK f args.length = true) (hmin : minusOK f args = true) (hL : AgreeListAt env ρ args) :
    AgreeAt env ρ (.list (.atom f :: args)) := by
  intro sc Γ lone hc hm hro u τ h
  have hfacts := fragOps_facts f hf
  obtain ⟨_, _, _, e1, e2, e3, _⟩ := opTok_unpack hfacts
  rw [RotOK_app env sc f args e1 (by simp [e2, e3])] at hro
  obtain ⟨as, hl, hne, hap⟩ := rd_app_inv env sc f hfacts args u τ h
  obtain ⟨σ', hargs, hm', htoks⟩ := hL sc Γ hc hm hro as hl
  have hlen := rdList_length hl
  have hminus : f = "-" → ∀ a, as = [a] → (isNumConst a.1).isSome = true := by
    intro hfm a haa
    subst hfm; subst haa
    match args, hlen, hmin, hl with
    | [x], _, hmin, hl =>
      have hx : minusArgOK x = true := by simpa [minusOK] using hmin
      exact minusArg_const env sc x hx a.1 a.2 (rdList_one hl)
  obtain ⟨fn, hfn, hag⟩ := apply_agree f hf as (by rw [hlen]; exact har) hminus u τ htoks hap
  refine ⟨σ', ?_, hm', hag.2⟩
  rw [rdVal_app Γ lone f hfacts fn hfn args, hargs]
  simp only [hag.1]
  rfl

/-- `(f args…)` for a declared function -/
theorem agree_user (env : SEnv) (ρ : List (String × Sym)) (hd : String) (args : List Sexp) (hu : userHead hd = true)
    (hL : AgreeListAt env ρ args) : AgreeAt env ρ (.list (.atom hd :: args)) := by
  intro sc Γ lone hc hm hro u τ h
  unfold userHead at hu
  cases hsn : symName? hd with
  | none => simp [hsn] at hu
  | some n =>
    simp only [hsn, Bool.not_eq_true'] at hu
    obtain ⟨e1, e2, e3, _⟩ := sym_not_special hsn
    rw [RotOK_app env sc hd args e1 (by simp [e2, e3])] at hro
    obtain ⟨as, hl, hne, hls, hap⟩ := rd_user_inv env sc hd n hsn hu args u τ h
    obtain ⟨σ', hargs, hm', htoks⟩ := hL sc Γ hc hm hro as hl
    obtain ⟨s, hlf, hps, hag⟩ := ag_user env hc.nodefs n as u τ hne htoks hap
    have hnt : n ≠ "true" := by intro e; subst e; revert hu; decide
    have hnf : n ≠ "false" := by intro e; subst e; revert hu; decide
    have hb := hc.funs n s hls hnt hnf hlf
    simp only [hps, Bool.false_eq_true, if_false] at hb
    refine ⟨σ', ?_, hm', hag.2⟩
    rw [rdVal_user Γ lone hd n hsn (hc.funTok n s hlf hps) s hb args, hargs]
    simp only [hag.1]
    rfl

/-- `((_ f i…) args…)`, `((as const σ) arg)` -/
theorem agree_headapp (env : SEnv) (ρ : List (String × Sym)) (hd args : List Sexp) (hf : fragHead hd = true)
    (hL : AgreeListAt env ρ args) : AgreeAt env ρ (.list (.list hd :: args)) := by
  intro sc Γ lone hc hm hro u τ h
  rw [RotOK_head, Bool.and_eq_true] at hro
  obtain ⟨as, hl, hap⟩ := rd_head_inv env sc hd args u τ h
  obtain ⟨σ', hargs, hm', htoks⟩ := hL sc { Γ with mgr := Γ.mgr } (corr_mgr hc _) hm hro.2 as hl
  have hrot := rot_of_headOK env sc hd args as hro.1 hl u τ hap
  obtain ⟨fn, hnb, hrd, hag⟩ := head_agree env sc Γ hc hd hf as u τ htoks hrot hap
  refine ⟨σ', ?_, hm', hag.2⟩
  rw [rdVal_head Γ lone hd args fn Γ.mgr hnb hrd, hargs]
  simp only [hag.1]
  rfl

end PySMT.Parser.Agree
