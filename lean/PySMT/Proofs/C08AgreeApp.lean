import PySMT.Proofs.C08AgreeFrag
/-!
# C08/C09 agreement: how the two readers take an application apart
-/
namespace PySMT.Parser.Agree
open PySMT PySMT.Parser PySMT.Std PySMT.Sexp

/-! ## the standard reader -/

theorem opTok_unpack {f : String} (h : opTokFacts f = true) :
    symName? f = some f ∧ pyTok f = f ∧ theorySymbols.contains f = true ∧
    (f == "let") = false ∧ (f == "forall") = false ∧ (f == "exists") = false ∧ (f == "!") = false ∧
    (f == "_") = false ∧ (f == "as") = false ∧ (f == "match") = false ∧ (f == "par") = false ∧
    (opFn f).isSome = true := by
  simp only [opTokFacts, Bool.and_eq_true, bne_iff_ne, ne_eq, beq_iff_eq] at h
  obtain ⟨⟨⟨⟨⟨⟨⟨⟨⟨⟨⟨⟨h1, h2⟩, h3⟩, h4⟩, h5⟩, h6⟩, h7⟩, h8⟩, h9⟩, h10⟩, h11⟩, h12⟩, _⟩ := h
  refine ⟨h1, h2, h3, ?_, ?_, ?_, ?_, ?_, ?_, ?_, ?_, h12⟩ <;> simpa using ‹_›

/-- a plain application of a theory symbol, read by the standard -/
theorem rd_app_inv (env : SEnv) (sc : List Binding) (f : String) (hf : opTokFacts f = true) (args : List Sexp)
    (u : Term) (τ : Ty) (h : rd env sc (.list (.atom f :: args)) = .ok (u, τ)) :
    ∃ as, rdList env sc args = .ok as ∧ as ≠ [] ∧ applyTheory f as = .ok (u, τ) := by
  obtain ⟨hsn, _, hth, e1, e2, e3, e4, e5, e6, e7, e8, _⟩ := opTok_unpack hf
  rw [rd] at h
  simp only [e1, e2, e3, e4, e5, e6, e7, e8, Bool.false_eq_true, if_false, Bool.or_self, hsn] at h
  cases hl : rdList env sc args with
  | error e => simp [hl] at h
  | ok as =>
    simp only [hl, applySym] at h
    split at h
    · cases h
    · rename_i hemp
      split at h
      · cases h
      · try simp only [hth, if_true] at h
        exact ⟨as, rfl, by intro e; subst e; simp at hemp, h⟩

/-- special words are not symbols -/
theorem sym_not_special {hd n : String} (h : symName? hd = some n) :
    (hd == "let") = false ∧ (hd == "forall") = false ∧ (hd == "exists") = false ∧ (hd == "!") = false ∧
    (hd == "_") = false ∧ (hd == "as") = false ∧ (hd == "match") = false ∧ (hd == "par") = false := by
  have hl := Printer.symName_lits
  refine ⟨?_, ?_, ?_, ?_, ?_, ?_, ?_, ?_⟩ <;>
  · apply beq_eq_false_iff_ne.2
    intro e
    subst e
    simp_all

/-- an application of a symbol that is not a theory symbol, read by the standard -/
theorem rd_user_inv (env : SEnv) (sc : List Binding) (hd n : String) (hsn : symName? hd = some n)
    (hth : theorySymbols.contains n = false) (args : List Sexp)
    (u : Term) (τ : Ty) (h : rd env sc (.list (.atom hd :: args)) = .ok (u, τ)) :
    ∃ as, rdList env sc args = .ok as ∧ as ≠ [] ∧ lookupScope n sc [] = none ∧ applyUser env n as = .ok (u, τ) := by
  obtain ⟨e1, e2, e3, e4, e5, e6, e7, e8⟩ := sym_not_special hsn
  rw [rd] at h
  simp only [e1, e2, e3, e4, e5, e6, e7, e8, Bool.false_eq_true, if_false, Bool.or_self, hsn] at h
  cases hl : rdList env sc args with
  | error e => simp [hl] at h
  | ok as =>
    simp only [hl, applySym] at h
    split at h
    · cases h
    · rename_i hemp
      split at h
      · cases h
      · rename_i hls
        try simp only [hth, Bool.false_eq_true, if_false] at h
        refine ⟨as, rfl, by intro e; subst e; simp at hemp, ?_, h⟩
        cases hq : lookupScope n sc [] with
        | none => rfl
        | some r => simp [hq] at hls

/-- an application whose head is a list, read by the standard -/
theorem rd_head_inv (env : SEnv) (sc : List Binding) (hd args : List Sexp)
    (u : Term) (τ : Ty) (h : rd env sc (.list (.list hd :: args)) = .ok (u, τ)) :
    ∃ as, rdList env sc args = .ok as ∧ applyHead env hd as = .ok (u, τ) := by
  rw [rd] at h
  cases hl : rdList env sc args with
  | error e => simp [hl] at h
  | ok as => simp only [hl] at h; exact ⟨as, rfl, h⟩

/-! ## the parser -/

/-- a plain application of a token of the table -/
theorem rdVal_app (Γ : PEnv) (lone : Bool) (f : String) (hf : opTokFacts f = true) (fn : Fn) (hfn : opFn f = some fn)
    (args : List Sexp) :
    rdVal Γ lone (.list (.atom f :: args)) =
      (match rdArgs Γ args with
       | .ok (vals, σ) => (applyFn fn vals).map (fun v => (v, σ))
       | .error e => .error e) := by
  obtain ⟨_, hpt, _, _, _, _, _, _, _, _, _, _⟩ := opTok_unpack hf
  have hh : (match tableLookup f with | some (.handler _) => false | some _ => true | none => false) = true := by
    simp only [opTokFacts, Bool.and_eq_true] at hf; exact hf.2
  rw [rdVal]
  simp only [hpt]
  unfold opFn at hfn
  cases ht : tableLookup f with
  | none => simp [ht] at hfn
  | some e =>
    rw [ht] at hh hfn
    simp only [Option.bind] at hfn
    cases e with
    | handler x => simp at hh
    | mgr m => simp only [hfn]; cases rdArgs Γ args <;> rfl
    | fixReal m => simp only [hfn]; cases rdArgs Γ args <;> rfl
    | special m => simp only [hfn]; cases rdArgs Γ args <;> rfl

/-- an application of a declared function -/
theorem rdVal_user (Γ : PEnv) (lone : Bool) (hd n : String) (hsn : symName? hd = some n) (htab : tableLookup n = none)
    (s : Sym) (hb : lookup n Γ.binds = some (.fn (.uf s))) (args : List Sexp) :
    rdVal Γ lone (.list (.atom hd :: args)) =
      (match rdArgs Γ args with
       | .ok (vals, σ) => (applyFn (.uf s) vals).map (fun v => (v, σ))
       | .error e => .error e) := by
  have hpt : pyTok hd = n := pyTok_sym hsn
  rw [rdVal]
  simp only [hpt, htab, atomVal, hb]
  cases rdArgs Γ args <;> rfl

end PySMT.Parser.Agree
