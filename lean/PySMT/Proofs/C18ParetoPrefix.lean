import PySMT.Proofs.C18Pareto
/-!
# C18, part 8: a Pareto generator that is abandoned after `k` solutions

`paretoTake` models `pareto_optimize` (as repaired: `try/finally`) consumed for `k` solutions and
then closed.  What has been yielded is Pareto-optimal, pairwise distinct, a prefix of what the
complete run yields, and the solver is restored.
-/
namespace PySMT.Opt
open PySMT.OptSpec

section
variable {M : Type} {A : M → Prop} {val : Nat → M → Val} {obj : Nat → M → Int} {o : Oracle M}

def TakePost (A : M → Prop) (val : Nat → M → Val) (obj : Nat → M → Int) (goals : List (Nat × Goal))
    (base : List Constraint) (marks0 : List Nat) (bad0 : Bool) (found : List M) (k : Nat)
    (r : Outcome (List (M × List Int)) × Solver M) : Prop :=
  r.1 = .fuel ∨
  ∃ ext, r.1 = .done (accOf obj goals (found ++ ext)) ∧ r.2.stack = base ∧ r.2.marks = marks0 ∧ r.2.bad = bad0 ∧
    (∀ p ∈ found ++ ext, ParetoOptimal (specGoals obj goals) (Feas A val base []) p) ∧
    (found ++ ext).Pairwise (fun a b => costs (specGoals obj goals) a ≠ costs (specGoals obj goals) b) ∧
    ext.length ≤ max k 1

theorem paretoTake_spec (hO : OracleSpec A val o) (mx : Mixin) (goals : List (Nat × Goal))
    (hG : ∀ q ∈ goals, GoalReadsAll val obj q.2 q.1) (fuel : Nat)
    (base : List Constraint) (marks0 : List Nat) (bad0 : Bool) :
    ∀ (n k : Nat) (found : List M) (cd : List Constraint) (s : Solver M),
      OuterSt obj goals mx base marks0 bad0 found cd s →
      (∀ p ∈ found, ParetoOptimal (specGoals obj goals) (Feas A val base []) p) →
      found.Pairwise (fun a b => costs (specGoals obj goals) a ≠ costs (specGoals obj goals) b) →
      TakePost A val obj goals base marks0 bad0 found k
        (paretoTake o obj mx goals fuel k n cd (accOf obj goals found) s) := by
  intro n
  induction n with
  | zero => intro k found cd s _ _ _; exact Or.inl rfl
  | succ n ih =>
    intro k found cd s hst hpo hpw
    have hinner := paretoInner_spec hO mx goals hG cd s.stack (s.stack.length :: s.marks) s.bad fuel none s.push
      ⟨rfl, rfl, [], by simp [Solver.push], by simp⟩ (fun p h => by cases h)
    unfold paretoTake
    cases hr : paretoInner o obj mx goals cd fuel none s.push with
    | mk out s2 =>
    rw [hr] at hinner
    rcases hinner with hfu | ⟨fin, hfin, hsome, hnone, e1, e2, added, e3⟩
    · left; simp only at hfu; subst hfu; rfl
    · simp only at hfin e1 e2 e3
      subst hfin
      obtain ⟨p1, p2, p3⟩ := pop_of_marks s2 s.stack.length s.marks e1
      rw [e3, take_length_append] at p1
      rw [e2] at p3
      obtain ⟨m1, m2, m3⟩ := hst
      obtain ⟨q1, q2, q3⟩ := pop_of_marks s2.pop base.length marks0 (by rw [p2, m1])
      have hq1 : s2.pop.pop.stack = base := by
        rw [q1, p1]
        cases mx with
        | sua => simp only at m3; rw [m3.2]; simp
        | incr => simp only at m3; rw [m3]; exact take_length_append _ _
      cases fin with
      | none =>
        right
        exact ⟨[], by simp, hq1, q2, by rw [q3, p3, m2], by simpa using hpo, by simpa using hpw, by simp⟩
      | some p =>
        obtain ⟨hfp, hnd⟩ := hsome p rfl
        have hfpB : FeasB A val obj goals base found p := (feasB_iff hG ⟨m1, m2, m3⟩ p).1 hfp
        have hpar : ParetoOptimal (specGoals obj goals) (Feas A val base []) p :=
          pareto_of_inner hfpB (fun m hm => hnd m ((feasB_iff hG ⟨m1, m2, m3⟩ m).2 hm))
        have hpo' : ∀ q ∈ found ++ [p], ParetoOptimal (specGoals obj goals) (Feas A val base []) q := by
          intro q hq
          rcases List.mem_append.1 hq with hq | hq
          · exact hpo q hq
          · have : q = p := by simpa using hq
            subst this; exact hpar
        have hpw' : (found ++ [p]).Pairwise
            (fun a b => costs (specGoals obj goals) a ≠ costs (specGoals obj goals) b) := by
          rw [List.pairwise_append]
          refine ⟨hpw, by simp, ?_⟩
          intro a ha b hb
          have : b = p := by simpa using hb
          subst this
          obtain ⟨g, hg, hlt⟩ := hfpB.2 a ha
          intro heq
          exact Sense.lt_ne g.1 hlt ((costs_eq_of _ _ _ heq g hg).symm)
        have hacc : accOf obj goals found ++ [(p, goals.map (fun (gi, _) => obj gi p))] =
            accOf obj goals (found ++ [p]) := by simp [accOf]
        have hblk : blocks obj goals (found ++ [p]) =
            blocks obj goals found ++ [Constraint.disj (paretoAtoms obj true goals p)] := by simp [blocks]
        simp only
        rw [hacc]
        by_cases hk : k ≤ 1
        · simp only [hk, if_true]
          right
          exact ⟨[p], rfl, hq1, q2, by rw [q3, p3, m2], hpo', hpw', by simp; omega⟩
        · simp only [hk, if_false]
          have lift : ∀ r, TakePost A val obj goals base marks0 bad0 (found ++ [p]) (k - 1) r →
              TakePost A val obj goals base marks0 bad0 found k r := by
            intro r hr
            rcases hr with hf | ⟨ext, h1, h2, h3, h4, h5, h6, h7⟩
            · exact Or.inl hf
            · right
              refine ⟨p :: ext, by rw [h1]; simp, h2, h3, h4, by simpa using h5, by simpa using h6, ?_⟩
              simp only [List.length_cons]; omega
          cases mx with
          | sua =>
            simp only at m3
            exact lift _ (ih (k - 1) (found ++ [p]) _ s2.pop
              ⟨by rw [p2, m1], by rw [p3, m2], by rw [hblk, m3.1], by rw [p1, m3.2]⟩ hpo' hpw')
          | incr =>
            simp only at m3
            exact lift _ (ih (k - 1) (found ++ [p]) _ (s2.pop.add _) ⟨by simp only [Solver.add]; rw [p2, m1],
              by simp only [Solver.add]; rw [p3, m2], by simp only [Solver.add]; rw [p1, m3, hblk, List.append_assoc]⟩
              hpo' hpw')

/-- what a run yields only grows -/
theorem paretoOuter_acc_prefix (mx : Mixin) (goals : List (Nat × Goal)) (fuel : Nat) :
    ∀ (n : Nat) (cd : List Constraint) (acc : List (M × List Int)) (s : Solver M) (res : List (M × List Int))
      (s' : Solver M), paretoOuter o obj mx goals fuel n cd acc s = (.done res, s') → acc <+: res := by
  intro n
  induction n with
  | zero => intro cd acc s res s' h; simp [paretoOuter] at h
  | succ n ih =>
    intro cd acc s res s' h
    unfold paretoOuter at h
    cases hr : paretoInner o obj mx goals cd fuel none s.push with
    | mk out s2 =>
    rw [hr] at h
    cases out with
    | done last =>
      cases last with
      | none =>
        simp only [Prod.mk.injEq, Outcome.done.injEq] at h
        rw [← h.1]; exact List.prefix_refl _
      | some m =>
        simp only at h
        cases mx with
        | sua => exact List.IsPrefix.trans (List.prefix_append _ _) (ih _ _ _ _ _ h)
        | incr => exact List.IsPrefix.trans (List.prefix_append _ _) (ih _ _ _ _ _ h)
    | fuel => simp [Outcome.cast] at h
    | castErr d v => simp [Outcome.cast] at h
    | keyErr => simp [Outcome.cast] at h
    | emptyGoals => simp [Outcome.cast] at h

/-- the solutions delivered before the generator is abandoned are a prefix of those of the complete run -/
theorem paretoTake_prefix (mx : Mixin) (goals : List (Nat × Goal)) (fuel : Nat) :
    ∀ (n k : Nat) (cd : List Constraint) (acc : List (M × List Int)) (s : Solver M) (res : List (M × List Int))
      (s' : Solver M), paretoOuter o obj mx goals fuel n cd acc s = (.done res, s') →
      ∃ rk sk, paretoTake o obj mx goals fuel k n cd acc s = (.done rk, sk) ∧ rk <+: res := by
  intro n
  induction n with
  | zero => intro k cd acc s res s' h; simp [paretoOuter] at h
  | succ n ih =>
    intro k cd acc s res s' h
    unfold paretoOuter at h
    unfold paretoTake
    cases hr : paretoInner o obj mx goals cd fuel none s.push with
    | mk out s2 =>
    rw [hr] at h
    cases out with
    | done last =>
      cases last with
      | none =>
        simp only [Prod.mk.injEq, Outcome.done.injEq] at h
        exact ⟨acc, _, rfl, by rw [← h.1]; exact List.prefix_refl _⟩
      | some m =>
        simp only at h ⊢
        by_cases hk : k ≤ 1
        · simp only [hk, if_true]
          refine ⟨_, _, rfl, ?_⟩
          cases mx with
          | sua => exact paretoOuter_acc_prefix .sua goals fuel _ _ _ _ _ _ h
          | incr => exact paretoOuter_acc_prefix .incr goals fuel _ _ _ _ _ _ h
        · simp only [hk, if_false]
          cases mx with
          | sua => exact ih _ _ _ _ _ _ h
          | incr => exact ih _ _ _ _ _ _ h
    | fuel => simp [Outcome.cast] at h
    | castErr d v => simp [Outcome.cast] at h
    | keyErr => simp [Outcome.cast] at h
    | emptyGoals => simp [Outcome.cast] at h

theorem paretoPrefix_spec (hO : OracleSpec A val o) (mx : Mixin) (goals : List (Nat × Goal))
    (hG : ∀ q ∈ goals, GoalReadsAll val obj q.2 q.1) (fuel k : Nat)
    (hsup : ∀ p ∈ goals, p.2.supported = true) (hne : goals ≠ []) (s : Solver M) :
    TakePost A val obj goals s.stack s.marks s.bad [] k (paretoPrefix o obj mx goals fuel k s) := by
  unfold paretoPrefix
  have h1 : goals.any (fun (x : Nat × Goal) => !x.2.supported) = false := by
    rw [List.any_eq_false]
    intro p hp
    simp [hsup p hp]
  have h2 : goals.isEmpty = false := by
    cases goals with
    | nil => exact absurd rfl hne
    | cons _ _ => rfl
  simp only [h1, h2, Bool.false_eq_true, if_false]
  have := paretoTake_spec hO mx goals hG fuel s.stack s.marks s.bad fuel k [] [] s.push
    ⟨rfl, rfl, by cases mx <;> simp [blocks, Solver.push]⟩ (by simp) List.Pairwise.nil
  simpa [accOf] using this

theorem paretoPrefix_prefix (mx : Mixin) (goals : List (Nat × Goal)) (fuel k : Nat) (s s' : Solver M)
    (res : List (M × List Int)) (h : pareto o obj mx goals fuel s = (.done res, s')) :
    ∃ rk sk, paretoPrefix o obj mx goals fuel k s = (.done rk, sk) ∧ rk <+: res := by
  unfold pareto at h
  unfold paretoPrefix
  split at h
  · simp at h
  · split at h
    · simp at h
    · rename_i h1 h2
      simp only [h1, h2, if_false]
      exact paretoTake_prefix mx goals fuel fuel k [] [] s.push res s' h

end
end PySMT.Opt
