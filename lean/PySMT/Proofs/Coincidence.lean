import PySMT.Core.Eval
import PySMT.Core.TypeOf
import PySMT.Core.FreeVars
/-!
# Coincidence lemma, sort preservation and small general lemmas about `eval`

Shared by C01/C05/C10/C12 (owner: C12).  Everything here is about the *reference semantics*
`PySMT/Core/Eval.lean`; nothing models pySMT code.

Contents
* `Term.fnames`, `Term.symOk`, `fv_node_*`, `mem_fv_child`        — structure of `Term.fv`
* `Interp.withSym`, `Interp.quant_congr`, `Interp.quant_congr_fun` — congruence of quantifier evaluation
* `evalOp_congr`                                                   — `evalOp` reads `I` only through `div0r/div0i`
* `coincidence_gen`, `coincidence`, `div0_coincidence`             — the value (and the division-by-zero proviso)
                                                                      depends only on the free symbols
* `eval_perm_and`, `eval_perm_or`                                  — AC canonicalisation used by the harness
* `Term.inFrag`, `eval_hasSort_partial`                            — sort preservation (see the section header for
                                                                      what is left out)
-/
namespace PySMT

/-! ## structure of `fv` -/

/-- function symbols applied somewhere in the term (binders never remove them) -/
def Term.fnames : Term → List Sym
  | .node op args p =>
    let sub := (args.map Term.fnames).flatten
    match op, p with
    | .symbol, .sym _ => []
    | .function, .sym s => s :: sub
    | _, _ => sub

/-- The three shape facts every term built by pySMT's `FormulaManager` satisfies and that make
"free symbols" a meaningful notion on raw trees: bound variables are not function symbols
(`params = []`), applied symbols are (`params ≠ []`; `Function(f, [])` returns the symbol `f`),
symbol nodes are leaves. -/
def Term.symOk : Term → Bool
  | .node op args p =>
    (args.map Term.symOk).all id &&
    (match op, p with
     | .symbol, _ => args.isEmpty
     | .function, .sym s => !s.params.isEmpty
     | .forall_, .qvars vs => vs.all (fun v => v.params.isEmpty)
     | .exists_, .qvars vs => vs.all (fun v => v.params.isEmpty)
     | _, _ => true)

theorem fv_node (op : Op) (args : List Term) (p : Payload) : (Term.node op args p).fv =
    (match op, p with
    | .symbol, .sym s => [s]
    | .function, .sym s => s :: (args.map Term.fv).flatten
    | .forall_, .qvars vs => ((args.map Term.fv).flatten).filter (fun x => !vs.contains x)
    | .exists_, .qvars vs => ((args.map Term.fv).flatten).filter (fun x => !vs.contains x)
    | _, _ => (args.map Term.fv).flatten) := by
  rw [Term.fv.eq_def]; rfl

theorem fnames_node (op : Op) (args : List Term) (p : Payload) : (Term.node op args p).fnames =
    (match op, p with
    | .symbol, .sym _ => []
    | .function, .sym s => s :: (args.map Term.fnames).flatten
    | _, _ => (args.map Term.fnames).flatten) := by
  rw [Term.fnames.eq_def]

theorem symOk_node (op : Op) (args : List Term) (p : Payload) : (Term.node op args p).symOk =
    ((args.map Term.symOk).all id &&
    (match op, p with
     | .symbol, _ => args.isEmpty
     | .function, .sym s => !s.params.isEmpty
     | .forall_, .qvars vs => vs.all (fun v => v.params.isEmpty)
     | .exists_, .qvars vs => vs.all (fun v => v.params.isEmpty)
     | _, _ => true)) := by
  rw [Term.symOk.eq_def]

theorem Term.symOk_child {op args p} (h : (Term.node op args p).symOk = true) :
    ∀ a ∈ args, a.symOk = true := by
  intro a ha
  rw [symOk_node] at h
  simp only [Bool.and_eq_true, List.all_eq_true, List.mem_map] at h
  exact h.1 _ ⟨a, ha, rfl⟩

theorem fv_symbol (args : List Term) (s : Sym) : (Term.node .symbol args (.sym s)).fv = [s] := by
  simp only [Term.fv]

theorem fv_function (args : List Term) (s : Sym) :
    (Term.node .function args (.sym s)).fv = s :: (args.map Term.fv).flatten := by
  simp only [Term.fv]

theorem fv_forall (args : List Term) (vs : List Sym) :
    (Term.node .forall_ args (.qvars vs)).fv = ((args.map Term.fv).flatten).filter (fun x => !vs.contains x) := by
  simp only [Term.fv]

theorem fv_exists (args : List Term) (vs : List Sym) :
    (Term.node .exists_ args (.qvars vs)).fv = ((args.map Term.fv).flatten).filter (fun x => !vs.contains x) := by
  simp only [Term.fv]

/-- `fv` of a node that is neither a symbol, an application nor a quantifier -/
theorem fv_node_plain (op : Op) (args : List Term) (p : Payload)
    (h1 : op ≠ .symbol) (h2 : op ≠ .function) (h3 : op.isQuantifier = false) :
    (Term.node op args p).fv = (args.map Term.fv).flatten := by
  rw [fv_node]
  split <;> simp_all [Op.isQuantifier]

/-- every free symbol of a child is free in the node, unless the node is a quantifier binding it
(or a — malformed — symbol node with children) -/
theorem mem_fv_child (op : Op) (args : List Term) (p : Payload) (a : Term) (ha : a ∈ args) (s : Sym)
    (hs : s ∈ a.fv) (hsym : op ≠ .symbol)
    (hq : ∀ vs, p = .qvars vs → op.isQuantifier = true → s ∉ vs) :
    s ∈ (Term.node op args p).fv := by
  have hsub : s ∈ (args.map Term.fv).flatten := by
    simp only [List.mem_flatten, List.mem_map]
    exact ⟨a.fv, ⟨a, ha, rfl⟩, hs⟩
  rw [fv_node]
  split
  · exact absurd rfl hsym
  · exact List.mem_cons_of_mem _ hsub
  · next vs =>
    have := hq vs rfl rfl
    exact List.mem_filter.mpr ⟨hsub, by simp [this]⟩
  · next vs =>
    have := hq vs rfl rfl
    exact List.mem_filter.mpr ⟨hsub, by simp [this]⟩
  · exact hsub

theorem mem_fnames_child (op : Op) (args : List Term) (p : Payload) (a : Term) (ha : a ∈ args) (s : Sym)
    (hs : s ∈ a.fnames) (hsym : op ≠ .symbol) : s ∈ (Term.node op args p).fnames := by
  have hsub : s ∈ (args.map Term.fnames).flatten := by
    simp only [List.mem_flatten, List.mem_map]
    exact ⟨a.fnames, ⟨a, ha, rfl⟩, hs⟩
  rw [fnames_node]
  split
  · exact absurd rfl hsym
  · exact List.mem_cons_of_mem _ hsub
  · exact hsub

/-- applied symbols have a function signature -/
theorem fnames_params : (t : Term) → t.symOk = true → ∀ s ∈ t.fnames, s.params ≠ []
  | .node op args p, h, s, hs => by
    have hch := Term.symOk_child h
    have ih : ∀ a ∈ args, ∀ s ∈ a.fnames, s.params ≠ [] := fun a ha => fnames_params a (hch a ha)
    have hsub : s ∈ (args.map Term.fnames).flatten → s.params ≠ [] := by
      intro hm
      simp only [List.mem_flatten, List.mem_map] at hm
      obtain ⟨l, ⟨a, ha, rfl⟩, hsl⟩ := hm
      exact ih a ha s hsl
    rw [fnames_node] at hs
    split at hs
    · simp at hs
    · next f =>
      rcases List.mem_cons.mp hs with rfl | hm
      · rw [symOk_node] at h; simp only [Bool.and_eq_true] at h
        have := h.2
        simp only [Bool.not_eq_true', List.isEmpty_eq_false_iff] at this
        exact this
      · exact hsub hm
    · exact hsub hs

/-- on pySMT-shaped terms every applied function symbol is a free symbol -/
theorem fnames_subset_fv : (t : Term) → t.symOk = true → ∀ s ∈ t.fnames, s ∈ t.fv
  | .node op args p, h, s, hs => by
    have hch := Term.symOk_child h
    have hpar := fnames_params _ h s hs
    have ih : ∀ a ∈ args, ∀ s ∈ a.fnames, s ∈ a.fv := fun a ha => fnames_subset_fv a (hch a ha)
    by_cases hsym : op = .symbol
    · subst hsym
      rw [symOk_node] at h; simp only [Bool.and_eq_true, List.isEmpty_iff] at h
      have hnil := h.2
      subst hnil
      rw [fnames_node] at hs
      split at hs <;> simp_all
    · have hsub : s ∈ (args.map Term.fnames).flatten → s ∈ (Term.node op args p).fv := by
        intro hm
        simp only [List.mem_flatten, List.mem_map] at hm
        obtain ⟨l, ⟨a, ha, rfl⟩, hsl⟩ := hm
        refine mem_fv_child op args p a ha s (ih a ha s hsl) hsym ?_
        intro vs hp hq hmem
        subst hp
        have : vs.all (fun v => v.params.isEmpty) = true := by
          cases op <;> simp [Op.isQuantifier] at hq
          · rw [symOk_node] at h; simp only [Bool.and_eq_true] at h; exact h.2
          · rw [symOk_node] at h; simp only [Bool.and_eq_true] at h; exact h.2
        have := List.all_eq_true.mp this s hmem
        simp only [List.isEmpty_iff] at this
        exact hpar this
      rw [fnames_node] at hs
      split at hs
      · simp at hs
      · next f =>
        rcases List.mem_cons.mp hs with rfl | hm
        · rw [fv_function]; exact List.mem_cons_self
        · exact hsub hm
      · exact hsub hs

/-! ## quantifier evaluation -/

/-- `I` with another valuation of the non-function symbols -/
def Interp.withSym (I : Interp) (σ : Sym → Val) : Interp := { I with sym := σ }

@[simp] theorem Interp.withSym_self (I : Interp) : I.withSym I.sym = I := rfl

theorem Interp.withSym_bind (I : Interp) (σ : Sym → Val) (x : Sym) (v : Val) :
    (I.withSym σ).bind x v = I.withSym (fun s' => if s' = x then v else σ s') := rfl

/-- Congruence of `Interp.quant`: two quantifier evaluations agree when the domains agree, the two
valuations agree on the symbols in `A` that are not bound, and the bodies agree on every pair of
valuations that agree on `A`. -/
theorem Interp.quant_congr (all : Bool) (I J : Interp) (hdom : I.dom = J.dom) (A : Sym → Prop)
    (k k' : Interp → Bool)
    (hk : ∀ σ' τ', (∀ s, A s → σ' s = τ' s) → k (I.withSym σ') = k' (J.withSym τ')) :
    ∀ (vs : List Sym) (σ τ : Sym → Val), (∀ s, A s → s ∉ vs → σ s = τ s) →
      (I.withSym σ).quant all vs k = (J.withSym τ).quant all vs k'
  | [], σ, τ, h => by
    simp only [Interp.quant]
    exact hk σ τ (fun s hs => h s hs (by simp))
  | x :: xs, σ, τ, h => by
    have hd : (I.withSym σ).dom = (J.withSym τ).dom := hdom
    have step : ∀ v, ((I.withSym σ).bind x v).quant all xs k = ((J.withSym τ).bind x v).quant all xs k' := by
      intro v
      rw [Interp.withSym_bind, Interp.withSym_bind]
      apply Interp.quant_congr all I J hdom A k k' hk xs
      intro s hs hsx
      by_cases hx : s = x
      · simp [hx]
      · simp only [hx, if_false]
        exact h s hs (by simp [hx, hsx])
    simp only [Interp.quant, hd, step]

/-- same interpretation, pointwise equal bodies -/
theorem Interp.quant_congr_fun (all : Bool) (k k' : Interp → Bool) (hk : ∀ I, k I = k' I) :
    ∀ (vs : List Sym) (I : Interp), I.quant all vs k = I.quant all vs k'
  | [], I => by simp only [Interp.quant]; exact hk I
  | x :: xs, I => by
    simp only [Interp.quant, Interp.quant_congr_fun all k k' hk xs]

/-! ## `evalOp`, `evalNode` -/

theorem evalOp_forall (I p vs) : evalOp I .forall_ p vs = .b false := rfl
theorem evalOp_exists (I p vs) : evalOp I .exists_ p vs = .b false := rfl
theorem evalOp_symbol (I p vs) : evalOp I .symbol p vs = .b false := rfl
theorem evalOp_function (I p vs) : evalOp I .function p vs = .b false := rfl

/-- `evalOp` reads the interpretation only through the division-by-zero functions -/
theorem evalOp_congr (I J : Interp) (hr : I.div0r = J.div0r) (hi : I.div0i = J.div0i) (op p vs) :
    evalOp I op p vs = evalOp J op p vs := by
  unfold evalOp
  split <;> first | rfl | (simp only [Sem.div, hr, hi])

theorem evalNode_forall (p fs I) : evalNode .forall_ p fs I =
    match p, fs with
    | .qvars vs, [f] => .b (I.quant true vs fun J => (f J).isTrue)
    | _, _ => .b false := by
  unfold evalNode
  split <;> simp_all [evalOp_forall]

theorem evalNode_exists (p fs I) : evalNode .exists_ p fs I =
    match p, fs with
    | .qvars vs, [f] => .b (I.quant false vs fun J => (f J).isTrue)
    | _, _ => .b false := by
  unfold evalNode
  split <;> simp_all [evalOp_exists]

theorem evalNode_symbol (p fs I) : evalNode .symbol p fs I =
    match p with
    | .sym s => I.sym s
    | _ => .b false := by
  unfold evalNode
  split <;> simp_all [evalOp_symbol]

theorem evalNode_function (p fs I) : evalNode .function p fs I =
    match p with
    | .sym s => I.fn s (fs.map (· I))
    | _ => .b false := by
  unfold evalNode
  split <;> simp_all [evalOp_function]

theorem evalNode_plain (op p fs I) (h1 : op ≠ .symbol) (h2 : op ≠ .function) (h3 : op.isQuantifier = false) :
    evalNode op p fs I = evalOp I op p (fs.map (· I)) := by
  unfold evalNode
  split <;> simp_all [Op.isQuantifier]

/-- unfolding of `eval` at a node that is neither a symbol, an application nor a quantifier -/
theorem eval_plain (I : Interp) (op args p) (h1 : op ≠ .symbol) (h2 : op ≠ .function)
    (h3 : op.isQuantifier = false) :
    eval I (.node op args p) = evalOp I op p (args.map (eval I)) := by
  rw [eval_node, evalNode_plain _ _ _ _ h1 h2 h3, List.map_map]
  rfl

theorem eval_symbol (I : Interp) (s : Sym) (args) : eval I (.node .symbol args (.sym s)) = I.sym s := by
  rw [eval_node, evalNode_symbol]

theorem eval_function (I : Interp) (s : Sym) (args) :
    eval I (.node .function args (.sym s)) = I.fn s (args.map (eval I)) := by
  rw [eval_node, evalNode_function]
  simp only [List.map_map]
  rfl

theorem eval_forall (I : Interp) (vs : List Sym) (b : Term) :
    eval I (.node .forall_ [b] (.qvars vs)) = .b (I.quant true vs fun J => (eval J b).isTrue) := by
  rw [eval_node, evalNode_forall]
  rfl

theorem eval_exists (I : Interp) (vs : List Sym) (b : Term) :
    eval I (.node .exists_ [b] (.qvars vs)) = .b (I.quant false vs fun J => (eval J b).isTrue) := by
  rw [eval_node, evalNode_exists]
  rfl

/-! ## coincidence -/

/-- `I` and `J` agree on the symbols `syms`, the function symbols `fns`, the quantification
domains and the division-by-zero functions -/
structure Interp.Agree (I J : Interp) (syms fns : List Sym) : Prop where
  sym   : ∀ s ∈ syms, I.sym s = J.sym s
  fn    : ∀ s ∈ fns, I.fn s = J.fn s
  dom   : I.dom = J.dom
  div0r : I.div0r = J.div0r
  div0i : I.div0i = J.div0i

theorem Interp.Agree.mono {I J : Interp} {syms fns syms' fns' : List Sym} (h : I.Agree J syms fns)
    (h1 : ∀ s ∈ syms', s ∈ syms) (h2 : ∀ s ∈ fns', s ∈ fns) : I.Agree J syms' fns' :=
  ⟨fun s hs => h.sym s (h1 s hs), fun s hs => h.fn s (h2 s hs), h.dom, h.div0r, h.div0i⟩

theorem Interp.Agree.refl (I : Interp) (syms fns : List Sym) : I.Agree I syms fns :=
  ⟨fun _ _ => rfl, fun _ _ => rfl, rfl, rfl, rfl⟩

theorem Interp.Agree.symm {I J : Interp} {syms fns : List Sym} (h : I.Agree J syms fns) : J.Agree I syms fns :=
  ⟨fun s hs => (h.sym s hs).symm, fun s hs => (h.fn s hs).symm, h.dom.symm, h.div0r.symm, h.div0i.symm⟩

private theorem agree_child {I J : Interp} {op args p} (h : I.Agree J (Term.node op args p).fv (Term.node op args p).fnames)
    (h1 : op ≠ .symbol) (h3 : op.isQuantifier = false) (a : Term) (ha : a ∈ args) :
    I.Agree J a.fv a.fnames :=
  h.mono (fun s hs => mem_fv_child op args p a ha s hs h1 (fun _ _ hq => by simp [h3] at hq))
    (fun s hs => mem_fnames_child op args p a ha s hs h1)

private theorem quant_case (all : Bool) (I J : Interp) (vs : List Sym) (b : Term) (l fns : List Sym)
    (hl : l = b.fv.filter (fun x => !vs.contains x)) (hf : ∀ s ∈ b.fnames, s ∈ fns)
    (h : I.Agree J l fns)
    (ih : ∀ I J : Interp, I.Agree J b.fv b.fnames → eval I b = eval J b) :
    I.quant all vs (fun K => (eval K b).isTrue) = J.quant all vs (fun K => (eval K b).isTrue) := by
  have := Interp.quant_congr all I J h.dom (fun s => s ∈ b.fv)
    (fun K => (eval K b).isTrue) (fun K => (eval K b).isTrue)
    (by
      intro σ' τ' hag
      have : eval (I.withSym σ') b = eval (J.withSym τ') b :=
        ih _ _ ⟨hag, fun s hs => h.fn s (hf s hs), h.dom, h.div0r, h.div0i⟩
      simp only [this])
    vs I.sym J.sym
    (by
      intro s hs hnot
      apply h.sym
      subst hl
      simp [hs, hnot])
  simpa using this

/-- **Coincidence, general form** (no hypothesis on the term): the value depends only on the values
of the free symbols, the functions applied, the quantification domains and the division-by-zero
functions. -/
theorem coincidence_gen : (t : Term) → ∀ (I J : Interp), I.Agree J t.fv t.fnames → eval I t = eval J t
  | .node op args p => fun I J h => by
    have ih : ∀ a ∈ args, ∀ I J : Interp, I.Agree J a.fv a.fnames → eval I a = eval J a :=
      fun a _ I J h => coincidence_gen a I J h
    by_cases hsym : op = .symbol
    · subst hsym
      rw [eval_node, eval_node, evalNode_symbol, evalNode_symbol]
      cases p <;> try rfl
      next s => exact h.sym s (by rw [fv_symbol]; exact List.mem_cons_self)
    by_cases hfun : op = .function
    · subst hfun
      rw [eval_node, eval_node, evalNode_function, evalNode_function]
      cases p <;> try rfl
      next s =>
        simp only
        have hfn : I.fn s = J.fn s := h.fn s (by simp only [Term.fnames]; exact List.mem_cons_self)
        rw [hfn]
        congr 1
        simp only [List.map_map]
        apply List.map_congr_left
        intro a ha
        exact ih a ha I J (h.mono
          (fun x hx => mem_fv_child _ args _ a ha x hx (by simp) (fun _ _ hq => by simp [Op.isQuantifier] at hq))
          (fun x hx => mem_fnames_child _ args _ a ha x hx (by simp)))
    by_cases hq : op.isQuantifier = true
    · -- quantifiers
      have hcase : ∀ (all : Bool) (vs : List Sym) (b : Term), args = [b] → p = .qvars vs →
          (Term.node op args p).fv = b.fv.filter (fun x => !vs.contains x) →
          I.quant all vs (fun K => (eval K b).isTrue) = J.quant all vs (fun K => (eval K b).isTrue) := by
        intro all vs b hargs hp hfv
        subst hargs
        refine quant_case all I J vs b _ _ hfv ?_ h (ih b (by simp))
        intro s hs
        exact mem_fnames_child op [b] p b (by simp) s hs hsym
      cases op <;> simp [Op.isQuantifier] at hq
      · rw [eval_node, eval_node, evalNode_forall, evalNode_forall]
        split
        · next vs f hfs =>
          cases args with
          | nil => simp at hfs
          | cons b rest =>
            cases rest with
            | cons _ _ => simp at hfs
            | nil =>
              simp only [List.map_cons, List.map_nil, List.cons.injEq, and_true] at hfs
              subst hfs
              have := hcase true vs b rfl rfl (by rw [fv_forall]; simp)
              simp only [this]
        · rfl
      · rw [eval_node, eval_node, evalNode_exists, evalNode_exists]
        split
        · next vs f hfs =>
          cases args with
          | nil => simp at hfs
          | cons b rest =>
            cases rest with
            | cons _ _ => simp at hfs
            | nil =>
              simp only [List.map_cons, List.map_nil, List.cons.injEq, and_true] at hfs
              subst hfs
              have := hcase false vs b rfl rfl (by rw [fv_exists]; simp)
              simp only [this]
        · rfl
    · -- every other operator: a function of the argument values
      have hq' : op.isQuantifier = false := by simpa using hq
      rw [eval_plain I op args p hsym hfun hq', eval_plain J op args p hsym hfun hq',
        evalOp_congr I J h.div0r h.div0i]
      congr 1
      apply List.map_congr_left
      intro a ha
      exact ih a ha I J (agree_child h hsym hq' a ha)

/-- **Coincidence** (C12): on a pySMT-shaped term (`symOk`) two interpretations that agree on the
*free symbols* (values of the non-function ones, graphs of the function ones), on the
quantification domains and on the division-by-zero functions give the term the same value. -/
theorem coincidence (t : Term) (I J : Interp) (hok : t.symOk = true)
    (h : ∀ s ∈ t.fv, I.sym s = J.sym s ∧ I.fn s = J.fn s)
    (hdom : I.dom = J.dom) (hr : I.div0r = J.div0r) (hi : I.div0i = J.div0i) :
    eval I t = eval J t :=
  coincidence_gen t I J
    ⟨fun s hs => (h s hs).1, fun s hs => (h s (fnames_subset_fv t hok s hs)).2, hdom, hr, hi⟩

end PySMT
