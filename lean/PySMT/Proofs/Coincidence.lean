import PySMT.Core.Eval
import PySMT.Core.TypeOf
import PySMT.Core.FreeVars
import PySMT.Spec.Analyses
/-!
# Coincidence lemma, sort preservation and small general lemmas about `eval`

Shared by C01/C05/C10/C12 (owner: C12).  Everything here is about the *reference semantics*
`PySMT/Core/Eval.lean`; nothing models pySMT code.

Contents
* `fv_node_*`, `mem_fv_child`, `fnames_subset_fv`                  — structure of `Term.fv` (`Term.fnames`,
                                                                      `Term.symOk` are defined in `Spec/Analyses.lean`)
* `Interp.withSym`, `Interp.quant_congr`, `Interp.quant_congr_fun` — congruence of quantifier evaluation
* `evalOp_congr`                                                   — `evalOp` reads `I` only through `div0r/div0i`
* `coincidence_gen`, `coincidence`, `div0_coincidence`             — the value (and the division-by-zero proviso)
                                                                      depends only on the free symbols
* `eval_perm_and`, `eval_perm_or`                                  — AC canonicalisation used by the harness
* `Term.inFrag`, `nodeFrag`, `eval_hasSort_partial`, `eval_bool_partial`
                                                                   — sort preservation; left out: `pow`,
                                                                      `algebraicConst`
* `typeOfNode_*`                                                   — closed forms / inversions of the type rules
-/
namespace PySMT

/-! ## structure of `fv` -/

theorem fv_node (op : Op) (args : List Term) (p : Payload) : (Term.node op args p).fv =
    (match op, p with
    | .symbol, .sym s => [s]
    | .function, .sym s => s :: (args.map Term.fv).flatten
    | .forall_, .qvars vs => ((args.map Term.fv).flatten).filter (fun x => !vs.contains x)
    | .exists_, .qvars vs => ((args.map Term.fv).flatten).filter (fun x => !vs.contains x)
    | _, _ => (args.map Term.fv).flatten) := by
  rw [Term.fv.eq_def]; rfl

theorem fnames_node (op : Op) (args : List Term) (p : Payload) : (Term.node op args p).fnames =
    (match op, p with
    | .symbol, .sym _ => []
    | .function, .sym s => s :: (args.map Term.fnames).flatten
    | _, _ => (args.map Term.fnames).flatten) := by
  rw [Term.fnames.eq_def]; try rfl

theorem symOk_node (op : Op) (args : List Term) (p : Payload) : (Term.node op args p).symOk =
    ((args.map Term.symOk).all id &&
    (match op, p with
     | .symbol, _ => args.isEmpty
     | .function, .sym s => !s.params.isEmpty
     | .forall_, .qvars vs => vs.all (fun v => v.params.isEmpty)
     | .exists_, .qvars vs => vs.all (fun v => v.params.isEmpty)
     | _, _ => true)) := by
  rw [Term.symOk.eq_def]; try rfl

theorem Term.symOk_child {op args p} (h : (Term.node op args p).symOk = true) :
    ∀ a ∈ args, a.symOk = true := by
  intro a ha
  rw [symOk_node] at h
  simp only [Bool.and_eq_true, List.all_eq_true, List.mem_map] at h
  exact h.1 _ ⟨a, ha, rfl⟩

theorem fv_symbol (args : List Term) (s : Sym) : (Term.node .symbol args (.sym s)).fv = [s] := by
  simp only [Term.fv]

theorem fv_function (args : List Term) (s : Sym) :
    (Term.node .function args (.sym s)).fv = s :: (args.map Term.fv).flatten := by
  simp only [Term.fv]

theorem fv_forall (args : List Term) (vs : List Sym) :
    (Term.node .forall_ args (.qvars vs)).fv = ((args.map Term.fv).flatten).filter (fun x => !vs.contains x) := by
  simp only [Term.fv]

theorem fv_exists (args : List Term) (vs : List Sym) :
    (Term.node .exists_ args (.qvars vs)).fv = ((args.map Term.fv).flatten).filter (fun x => !vs.contains x) := by
  simp only [Term.fv]

/-- `fv` of a node that is neither a symbol, an application nor a quantifier -/
theorem fv_node_plain (op : Op) (args : List Term) (p : Payload)
    (h1 : op ≠ .symbol) (h2 : op ≠ .function) (h3 : op.isQuantifier = false) :
    (Term.node op args p).fv = (args.map Term.fv).flatten := by
  rw [fv_node]
  split <;> simp_all [Op.isQuantifier]

/-- every free symbol of a child is free in the node, unless the node is a quantifier binding it
(or a — malformed — symbol node with children) -/
theorem mem_fv_child (op : Op) (args : List Term) (p : Payload) (a : Term) (ha : a ∈ args) (s : Sym)
    (hs : s ∈ a.fv) (hsym : op ≠ .symbol)
    (hq : ∀ vs, p = .qvars vs → op.isQuantifier = true → s ∉ vs) :
    s ∈ (Term.node op args p).fv := by
  have hsub : s ∈ (args.map Term.fv).flatten := by
    simp only [List.mem_flatten, List.mem_map]
    exact ⟨a.fv, ⟨a, ha, rfl⟩, hs⟩
  rw [fv_node]
  split
  · exact absurd rfl hsym
  · exact List.mem_cons_of_mem _ hsub
  · next vs =>
    have := hq vs rfl rfl
    exact List.mem_filter.mpr ⟨hsub, by simp [this]⟩
  · next vs =>
    have := hq vs rfl rfl
    exact List.mem_filter.mpr ⟨hsub, by simp [this]⟩
  · exact hsub

theorem mem_fnames_child (op : Op) (args : List Term) (p : Payload) (a : Term) (ha : a ∈ args) (s : Sym)
    (hs : s ∈ a.fnames) (hsym : op ≠ .symbol) : s ∈ (Term.node op args p).fnames := by
  have hsub : s ∈ (args.map Term.fnames).flatten := by
    simp only [List.mem_flatten, List.mem_map]
    exact ⟨a.fnames, ⟨a, ha, rfl⟩, hs⟩
  rw [fnames_node]
  split
  · exact absurd rfl hsym
  · exact List.mem_cons_of_mem _ hsub
  · exact hsub

/-- applied symbols have a function signature -/
theorem fnames_params : (t : Term) → t.symOk = true → ∀ s ∈ t.fnames, s.params ≠ []
  | .node op args p, h, s, hs => by
    have hch := Term.symOk_child h
    have ih : ∀ a ∈ args, ∀ s ∈ a.fnames, s.params ≠ [] := fun a ha => fnames_params a (hch a ha)
    have hsub : s ∈ (args.map Term.fnames).flatten → s.params ≠ [] := by
      intro hm
      simp only [List.mem_flatten, List.mem_map] at hm
      obtain ⟨l, ⟨a, ha, rfl⟩, hsl⟩ := hm
      exact ih a ha s hsl
    rw [fnames_node] at hs
    split at hs
    · simp at hs
    · next f =>
      rcases List.mem_cons.mp hs with rfl | hm
      · rw [symOk_node] at h; simp only [Bool.and_eq_true] at h
        have := h.2
        simp only [Bool.not_eq_true', List.isEmpty_eq_false_iff] at this
        exact this
      · exact hsub hm
    · exact hsub hs

/-- on pySMT-shaped terms every applied function symbol is a free symbol -/
theorem fnames_subset_fv : (t : Term) → t.symOk = true → ∀ s ∈ t.fnames, s ∈ t.fv
  | .node op args p, h, s, hs => by
    have hch := Term.symOk_child h
    have hpar := fnames_params _ h s hs
    have ih : ∀ a ∈ args, ∀ s ∈ a.fnames, s ∈ a.fv := fun a ha => fnames_subset_fv a (hch a ha)
    by_cases hsym : op = .symbol
    · subst hsym
      rw [symOk_node] at h; simp only [Bool.and_eq_true, List.isEmpty_iff] at h
      have hnil := h.2
      subst hnil
      rw [fnames_node] at hs
      split at hs <;> simp_all
    · have hsub : s ∈ (args.map Term.fnames).flatten → s ∈ (Term.node op args p).fv := by
        intro hm
        simp only [List.mem_flatten, List.mem_map] at hm
        obtain ⟨l, ⟨a, ha, rfl⟩, hsl⟩ := hm
        refine mem_fv_child op args p a ha s (ih a ha s hsl) hsym ?_
        intro vs hp hq hmem
        subst hp
        have : vs.all (fun v => v.params.isEmpty) = true := by
          cases op <;> simp [Op.isQuantifier] at hq
          · rw [symOk_node] at h; simp only [Bool.and_eq_true] at h; exact h.2
          · rw [symOk_node] at h; simp only [Bool.and_eq_true] at h; exact h.2
        have := List.all_eq_true.mp this s hmem
        simp only [List.isEmpty_iff] at this
        exact hpar this
      rw [fnames_node] at hs
      split at hs
      · simp at hs
      · next f =>
        rcases List.mem_cons.mp hs with rfl | hm
        · rw [fv_function]; exact List.mem_cons_self
        · exact hsub hm
      · exact hsub hs

/-! ## quantifier evaluation -/

/-- `I` with another valuation of the non-function symbols -/
def Interp.withSym (I : Interp) (σ : Sym → Val) : Interp := { I with sym := σ }

@[simp] theorem Interp.withSym_self (I : Interp) : I.withSym I.sym = I := rfl

theorem Interp.withSym_bind (I : Interp) (σ : Sym → Val) (x : Sym) (v : Val) :
    (I.withSym σ).bind x v = I.withSym (fun s' => if s' = x then v else σ s') := rfl

/-- Congruence of `Interp.quant`: two quantifier evaluations agree when the domains agree, the two
valuations agree on the symbols in `A` that are not bound, and the bodies agree on every pair of
valuations that agree on `A`. -/
theorem Interp.quant_congr (all : Bool) (I J : Interp) (hdom : I.dom = J.dom) (A : Sym → Prop)
    (k k' : Interp → Bool)
    (hk : ∀ σ' τ', (∀ s, A s → σ' s = τ' s) → k (I.withSym σ') = k' (J.withSym τ')) :
    ∀ (vs : List Sym) (σ τ : Sym → Val), (∀ s, A s → s ∉ vs → σ s = τ s) →
      (I.withSym σ).quant all vs k = (J.withSym τ).quant all vs k'
  | [], σ, τ, h => by
    simp only [Interp.quant]
    exact hk σ τ (fun s hs => h s hs (by simp))
  | x :: xs, σ, τ, h => by
    have hd : (I.withSym σ).dom = (J.withSym τ).dom := hdom
    have step : ∀ v, ((I.withSym σ).bind x v).quant all xs k = ((J.withSym τ).bind x v).quant all xs k' := by
      intro v
      rw [Interp.withSym_bind, Interp.withSym_bind]
      apply Interp.quant_congr all I J hdom A k k' hk xs
      intro s hs hsx
      by_cases hx : s = x
      · simp [hx]
      · simp only [hx, if_false]
        exact h s hs (by simp [hx, hsx])
    simp only [Interp.quant, hd, step]

/-- same interpretation, pointwise equal bodies -/
theorem Interp.quant_congr_fun (all : Bool) (k k' : Interp → Bool) (hk : ∀ I, k I = k' I) :
    ∀ (vs : List Sym) (I : Interp), I.quant all vs k = I.quant all vs k'
  | [], I => by simp only [Interp.quant]; exact hk I
  | x :: xs, I => by
    simp only [Interp.quant, Interp.quant_congr_fun all k k' hk xs]

/-! ## `evalOp`, `evalNode` -/

theorem evalOp_forall (I p vs) : evalOp I .forall_ p vs = .b false := rfl
theorem evalOp_exists (I p vs) : evalOp I .exists_ p vs = .b false := rfl
theorem evalOp_symbol (I p vs) : evalOp I .symbol p vs = .b false := rfl
theorem evalOp_function (I p vs) : evalOp I .function p vs = .b false := rfl

/-- `evalOp` reads the interpretation only through the division-by-zero functions -/
theorem evalOp_congr (I J : Interp) (hr : I.div0r = J.div0r) (hi : I.div0i = J.div0i) (op p vs) :
    evalOp I op p vs = evalOp J op p vs := by
  unfold evalOp
  split <;> first | rfl | (simp only [Sem.div, hr, hi])

theorem evalNode_forall (p fs I) : evalNode .forall_ p fs I =
    match p, fs with
    | .qvars vs, [f] => .b (I.quant true vs fun J => (f J).isTrue)
    | _, _ => .b false := by
  unfold evalNode
  split <;> simp_all [evalOp_forall]

theorem evalNode_exists (p fs I) : evalNode .exists_ p fs I =
    match p, fs with
    | .qvars vs, [f] => .b (I.quant false vs fun J => (f J).isTrue)
    | _, _ => .b false := by
  unfold evalNode
  split <;> simp_all [evalOp_exists]

theorem evalNode_symbol (p fs I) : evalNode .symbol p fs I =
    match p with
    | .sym s => I.sym s
    | _ => .b false := by
  unfold evalNode
  split <;> simp_all [evalOp_symbol]

theorem evalNode_function (p fs I) : evalNode .function p fs I =
    match p with
    | .sym s => I.fn s (fs.map (· I))
    | _ => .b false := by
  unfold evalNode
  split <;> simp_all [evalOp_function]

theorem evalNode_plain (op p fs I) (h1 : op ≠ .symbol) (h2 : op ≠ .function) (h3 : op.isQuantifier = false) :
    evalNode op p fs I = evalOp I op p (fs.map (· I)) := by
  unfold evalNode
  split <;> simp_all [Op.isQuantifier]

/-- unfolding of `eval` at a node that is neither a symbol, an application nor a quantifier -/
theorem eval_plain (I : Interp) (op args p) (h1 : op ≠ .symbol) (h2 : op ≠ .function)
    (h3 : op.isQuantifier = false) :
    eval I (.node op args p) = evalOp I op p (args.map (eval I)) := by
  rw [eval_node, evalNode_plain _ _ _ _ h1 h2 h3, List.map_map]
  rfl

theorem eval_symbol (I : Interp) (s : Sym) (args) : eval I (.node .symbol args (.sym s)) = I.sym s := by
  rw [eval_node, evalNode_symbol]

theorem eval_function (I : Interp) (s : Sym) (args) :
    eval I (.node .function args (.sym s)) = I.fn s (args.map (eval I)) := by
  rw [eval_node, evalNode_function]
  simp only [List.map_map]
  rfl

theorem eval_forall (I : Interp) (vs : List Sym) (b : Term) :
    eval I (.node .forall_ [b] (.qvars vs)) = .b (I.quant true vs fun J => (eval J b).isTrue) := by
  rw [eval_node, evalNode_forall]
  rfl

theorem eval_exists (I : Interp) (vs : List Sym) (b : Term) :
    eval I (.node .exists_ [b] (.qvars vs)) = .b (I.quant false vs fun J => (eval J b).isTrue) := by
  rw [eval_node, evalNode_exists]
  rfl

/-! ## coincidence -/

/-- `I` and `J` agree on the symbols `syms`, the function symbols `fns`, the quantification
domains and the division-by-zero functions -/
structure Interp.Agree (I J : Interp) (syms fns : List Sym) : Prop where
  sym   : ∀ s ∈ syms, I.sym s = J.sym s
  fn    : ∀ s ∈ fns, I.fn s = J.fn s
  dom   : I.dom = J.dom
  div0r : I.div0r = J.div0r
  div0i : I.div0i = J.div0i

theorem Interp.Agree.mono {I J : Interp} {syms fns syms' fns' : List Sym} (h : I.Agree J syms fns)
    (h1 : ∀ s ∈ syms', s ∈ syms) (h2 : ∀ s ∈ fns', s ∈ fns) : I.Agree J syms' fns' :=
  ⟨fun s hs => h.sym s (h1 s hs), fun s hs => h.fn s (h2 s hs), h.dom, h.div0r, h.div0i⟩

theorem Interp.Agree.refl (I : Interp) (syms fns : List Sym) : I.Agree I syms fns :=
  ⟨fun _ _ => rfl, fun _ _ => rfl, rfl, rfl, rfl⟩

theorem Interp.Agree.symm {I J : Interp} {syms fns : List Sym} (h : I.Agree J syms fns) : J.Agree I syms fns :=
  ⟨fun s hs => (h.sym s hs).symm, fun s hs => (h.fn s hs).symm, h.dom.symm, h.div0r.symm, h.div0i.symm⟩

private theorem agree_child {I J : Interp} {op args p} (h : I.Agree J (Term.node op args p).fv (Term.node op args p).fnames)
    (h1 : op ≠ .symbol) (h3 : op.isQuantifier = false) (a : Term) (ha : a ∈ args) :
    I.Agree J a.fv a.fnames :=
  h.mono (fun s hs => mem_fv_child op args p a ha s hs h1 (fun _ _ hq => by simp [h3] at hq))
    (fun s hs => mem_fnames_child op args p a ha s hs h1)

private theorem quant_case (all : Bool) (I J : Interp) (vs : List Sym) (b : Term) (l fns : List Sym)
    (k : Interp → Bool)
    (hl : l = b.fv.filter (fun x => !vs.contains x)) (hf : ∀ s ∈ b.fnames, s ∈ fns)
    (h : I.Agree J l fns)
    (ih : ∀ I J : Interp, I.Agree J b.fv b.fnames → k I = k J) :
    I.quant all vs k = J.quant all vs k := by
  have := Interp.quant_congr all I J h.dom (fun s => s ∈ b.fv) k k
    (by
      intro σ' τ' hag
      exact ih _ _ ⟨hag, fun s hs => h.fn s (hf s hs), h.dom, h.div0r, h.div0i⟩)
    vs I.sym J.sym
    (by
      intro s hs hnot
      apply h.sym
      subst hl
      simp [hs, hnot])
  simpa using this

/-- **Coincidence, general form** (no hypothesis on the term): the value depends only on the values
of the free symbols, the functions applied, the quantification domains and the division-by-zero
functions. -/
theorem coincidence_gen : (t : Term) → ∀ (I J : Interp), I.Agree J t.fv t.fnames → eval I t = eval J t
  | .node op args p => fun I J h => by
    have ih : ∀ a ∈ args, ∀ I J : Interp, I.Agree J a.fv a.fnames → eval I a = eval J a :=
      fun a _ I J h => coincidence_gen a I J h
    by_cases hsym : op = .symbol
    · subst hsym
      rw [eval_node, eval_node, evalNode_symbol, evalNode_symbol]
      cases p <;> try rfl
      next s => exact h.sym s (by rw [fv_symbol]; exact List.mem_cons_self)
    by_cases hfun : op = .function
    · subst hfun
      rw [eval_node, eval_node, evalNode_function, evalNode_function]
      cases p <;> try rfl
      next s =>
        simp only
        have hfn : I.fn s = J.fn s := h.fn s (by simp only [Term.fnames]; exact List.mem_cons_self)
        rw [hfn]
        congr 1
        simp only [List.map_map]
        apply List.map_congr_left
        intro a ha
        exact ih a ha I J (h.mono
          (fun x hx => mem_fv_child _ args _ a ha x hx (by simp) (fun _ _ hq => by simp [Op.isQuantifier] at hq))
          (fun x hx => mem_fnames_child _ args _ a ha x hx (by simp)))
    by_cases hq : op.isQuantifier = true
    · -- quantifiers
      have hcase : ∀ (all : Bool) (vs : List Sym) (b : Term), args = [b] → p = .qvars vs →
          (Term.node op args p).fv = b.fv.filter (fun x => !vs.contains x) →
          I.quant all vs (fun K => (eval K b).isTrue) = J.quant all vs (fun K => (eval K b).isTrue) := by
        intro all vs b hargs hp hfv
        subst hargs
        refine quant_case all I J vs b _ _ _ hfv ?_ h ?_
        · intro s hs
          exact mem_fnames_child op [b] p b (by simp) s hs hsym
        · intro I' J' h'
          simp only [ih b (by simp) I' J' h']
      cases op <;> simp [Op.isQuantifier] at hq
      · rw [eval_node, eval_node, evalNode_forall, evalNode_forall]
        split
        · next vs f hfs =>
          cases args with
          | nil => simp at hfs
          | cons b rest =>
            cases rest with
            | cons _ _ => simp at hfs
            | nil =>
              simp only [List.map_cons, List.map_nil, List.cons.injEq, and_true] at hfs
              subst hfs
              have := hcase true vs b rfl rfl (by rw [fv_forall]; simp)
              simp only [this]
        · rfl
      · rw [eval_node, eval_node, evalNode_exists, evalNode_exists]
        split
        · next vs f hfs =>
          cases args with
          | nil => simp at hfs
          | cons b rest =>
            cases rest with
            | cons _ _ => simp at hfs
            | nil =>
              simp only [List.map_cons, List.map_nil, List.cons.injEq, and_true] at hfs
              subst hfs
              have := hcase false vs b rfl rfl (by rw [fv_exists]; simp)
              simp only [this]
        · rfl
    · -- every other operator: a function of the argument values
      have hq' : op.isQuantifier = false := by simpa using hq
      rw [eval_plain I op args p hsym hfun hq', eval_plain J op args p hsym hfun hq',
        evalOp_congr I J h.div0r h.div0i]
      congr 1
      apply List.map_congr_left
      intro a ha
      exact ih a ha I J (agree_child h hsym hq' a ha)

/-- **Coincidence** (C12): on a pySMT-shaped term (`symOk`) two interpretations that agree on the
*free symbols* (values of the non-function ones, graphs of the function ones), on the
quantification domains and on the division-by-zero functions give the term the same value. -/
theorem coincidence (t : Term) (I J : Interp) (hok : t.symOk = true)
    (h : ∀ s ∈ t.fv, I.sym s = J.sym s ∧ I.fn s = J.fn s)
    (hdom : I.dom = J.dom) (hr : I.div0r = J.div0r) (hi : I.div0i = J.div0i) :
    eval I t = eval J t :=
  coincidence_gen t I J
    ⟨fun s hs => (h s hs).1, fun s hs => (h s (fnames_subset_fv t hok s hs)).2, hdom, hr, hi⟩

/-! ## the division-by-zero proviso depends only on the free symbols -/

theorem div0_node (I : Interp) (op : Op) (args : List Term) (p : Payload) :
    div0 I (.node op args p) = div0Node op p (args.map (fun a => (fun J => eval J a, fun J => div0 J a))) I := by
  simp only [div0, Term.div0F]
  rfl

theorem wt_node (op : Op) (args : List Term) (p : Payload) : (Term.node op args p).wt =
    ((args.map Term.wt).all id && (typeOfNode op p (args.map Term.typeOf)).isSome) := by
  rw [Term.wt.eq_def]

theorem typeOf_node (op : Op) (args : List Term) (p : Payload) :
    (Term.node op args p).typeOf = typeOfNode op p (args.map Term.typeOf) := by
  rw [Term.typeOf.eq_def]

theorem Term.wt_child {op args p} (h : (Term.node op args p).wt = true) : ∀ a ∈ args, a.wt = true := by
  intro a ha
  rw [wt_node] at h
  simp only [Bool.and_eq_true, List.all_eq_true, List.mem_map] at h
  exact h.1 _ ⟨a, ha, rfl⟩

theorem Term.wt_typeOf {op args p} (h : (Term.node op args p).wt = true) :
    (typeOfNode op p (args.map Term.typeOf)).isSome = true := by
  rw [wt_node] at h
  simp only [Bool.and_eq_true] at h
  exact h.2

theorem typeOfNode_forall_eq (p ts) : typeOfNode .forall_ p ts =
    match ts with | [some .bool] => some .bool | _ => none := by
  cases ts with
  | nil => rfl
  | cons t rest => cases t with
    | none => rfl
    | some τ => cases τ <;> cases rest <;> rfl

theorem typeOfNode_exists_eq (p ts) : typeOfNode .exists_ p ts =
    match ts with | [some .bool] => some .bool | _ => none := by
  cases ts with
  | nil => rfl
  | cons t rest => cases t with
    | none => rfl
    | some τ => cases τ <;> cases rest <;> rfl

theorem typeOfNode_symbol_eq (p ts) : typeOfNode .symbol p ts =
    match p, ts with
    | .sym s, [] => (if s.params.isEmpty then some s.ret else none)
    | _, _ => none := by
  cases p <;> cases ts <;> rfl

theorem typeOfNode_function_eq (p ts) : typeOfNode .function p ts =
    match p with
    | .sym f => (if ts.length = f.params.length ∧ ts = f.params.map some then some f.ret else none)
    | _ => none := by
  cases p <;> rfl

theorem typeOfNode_forall {p ts} (h : (typeOfNode .forall_ p ts).isSome = true) : ts = [some .bool] := by
  rw [typeOfNode_forall_eq] at h
  split at h
  · rfl
  · simp at h

theorem typeOfNode_exists {p ts} (h : (typeOfNode .exists_ p ts).isSome = true) : ts = [some .bool] := by
  rw [typeOfNode_exists_eq] at h
  split at h
  · rfl
  · simp at h

theorem typeOfNode_symbol {p ts} (h : (typeOfNode .symbol p ts).isSome = true) :
    ts = [] ∧ ∃ s, p = .sym s ∧ s.params = [] := by
  rw [typeOfNode_symbol_eq] at h
  split at h
  · next s =>
    refine ⟨rfl, s, rfl, ?_⟩
    split at h
    · next hp => simpa using hp
    · simp at h
  · simp at h

/-- a well-typed quantifier node has exactly one (Boolean) argument -/
theorem Term.wt_quant_args {op args p} (h : (Term.node op args p).wt = true) (hq : op.isQuantifier = true) :
    ∃ b, args = [b] := by
  have h2 := Term.wt_typeOf h
  have : args.map Term.typeOf = [some .bool] := by
    cases op <;> simp [Op.isQuantifier] at hq
    · exact typeOfNode_forall h2
    · exact typeOfNode_exists h2
  cases args with
  | nil => simp at this
  | cons b rest =>
    cases rest with
    | nil => exact ⟨b, rfl⟩
    | cons _ _ => simp at this

/-- a well-typed symbol node is a leaf -/
theorem Term.wt_symbol_args {args p} (h : (Term.node .symbol args p).wt = true) : args = [] := by
  have := (typeOfNode_symbol (Term.wt_typeOf h)).1
  simpa using this

theorem div0_coincidence_gen : (t : Term) → t.wt = true → ∀ (I J : Interp), I.Agree J t.fv t.fnames →
    div0 I t = div0 J t
  | .node op args p => fun hwt I J h => by
    have ih : ∀ a ∈ args, ∀ I J : Interp, I.Agree J a.fv a.fnames → div0 I a = div0 J a :=
      fun a ha I J h => div0_coincidence_gen a (Term.wt_child hwt a ha) I J h
    rw [div0_node, div0_node]
    by_cases hsym : op = .symbol
    · subst hsym
      have := Term.wt_symbol_args hwt
      subst this
      rfl
    by_cases hq : op.isQuantifier = true
    · obtain ⟨b, rfl⟩ := Term.wt_quant_args hwt hq
      have hcase : ∀ (all : Bool) (vs : List Sym), p = .qvars vs →
          (Term.node op [b] p).fv = b.fv.filter (fun x => !vs.contains x) →
          I.quant all vs (fun K => div0 K b) = J.quant all vs (fun K => div0 K b) := by
        intro all vs hp hfv
        refine quant_case all I J vs b _ _ _ hfv ?_ h (ih b (by simp))
        intro s hs
        exact mem_fnames_child op [b] p b (by simp) s hs hsym
      have hplain : (∀ vs, p ≠ .qvars vs) → div0 I b = div0 J b := by
        intro hp
        apply ih b (by simp) I J
        exact h.mono (fun s hs => mem_fv_child op [b] p b (by simp) s hs hsym (fun vs hpv _ => absurd hpv (hp vs)))
          (fun s hs => mem_fnames_child op [b] p b (by simp) s hs hsym)
      cases op <;> simp [Op.isQuantifier] at hq
      · cases p
        case qvars vs =>
          have := hcase false vs rfl (by rw [fv_forall]; simp)
          simpa [div0Node] using this
        all_goals (have := hplain (by intro vs; simp); simpa [div0Node] using this)
      · cases p
        case qvars vs =>
          have := hcase false vs rfl (by rw [fv_exists]; simp)
          simpa [div0Node] using this
        all_goals (have := hplain (by intro vs; simp); simpa [div0Node] using this)
    · have hq' : op.isQuantifier = false := by simpa using hq
      have hch : ∀ a ∈ args, I.Agree J a.fv a.fnames := fun a ha => agree_child h hsym hq' a ha
      have hd : ∀ a ∈ args, div0 I a = div0 J a := fun a ha => ih a ha I J (hch a ha)
      have he : ∀ a ∈ args, eval I a = eval J a := fun a ha => coincidence_gen a I J (hch a ha)
      have hany : (args.map (fun a => ((fun J => eval J a : Interp → Val), (fun J => div0 J a : Interp → Bool)))).any
            (fun f => f.2 I) =
          (args.map (fun a => ((fun J => eval J a : Interp → Val), (fun J => div0 J a : Interp → Bool)))).any
            (fun f => f.2 J) := by
        rw [Bool.eq_iff_iff]
        simp only [List.any_map, List.any_eq_true, Function.comp]
        constructor
        · rintro ⟨a, ha, H⟩; exact ⟨a, ha, by rw [← hd a ha]; exact H⟩
        · rintro ⟨a, ha, H⟩; exact ⟨a, ha, by rw [hd a ha]; exact H⟩
      unfold div0Node
      split
      · simp [Op.isQuantifier] at hq'
      · simp [Op.isQuantifier] at hq'
      · next a b hfs =>
        match args, hfs, hd, he with
        | [a', b'], hfs, hd, he =>
          simp only [List.map_cons, List.map_nil, List.cons.injEq, and_true] at hfs
          obtain ⟨rfl, rfl⟩ := hfs
          simp only [hd a' (by simp), hd b' (by simp), he b' (by simp)]
      · exact hany

/-- The proviso "a division by zero is evaluated" depends only on the free symbols (C01/C02 use it
to know that skipping such interpretations is a condition on the free symbols' values only). -/
theorem div0_coincidence (t : Term) (I J : Interp) (hwt : t.wt = true) (hok : t.symOk = true)
    (h : ∀ s ∈ t.fv, I.sym s = J.sym s ∧ I.fn s = J.fn s)
    (hdom : I.dom = J.dom) (hr : I.div0r = J.div0r) (hi : I.div0i = J.div0i) :
    div0 I t = div0 J t :=
  div0_coincidence_gen t hwt I J
    ⟨fun s hs => (h s hs).1, fun s hs => (h s (fnames_subset_fv t hok s hs)).2, hdom, hr, hi⟩

/-! ## n-ary conjunction / disjunction do not depend on the order of the arguments -/

theorem eval_and (I : Interp) (args : List Term) (p : Payload) :
    eval I (.node .and args p) = .b (args.all (fun a => (eval I a).isTrue)) := by
  rw [eval_plain I .and args p (by simp) (by simp) rfl]
  simp only [evalOp, List.all_map]
  rfl

theorem eval_or (I : Interp) (args : List Term) (p : Payload) :
    eval I (.node .or args p) = .b (args.any (fun a => (eval I a).isTrue)) := by
  rw [eval_plain I .or args p (by simp) (by simp) rfl]
  simp only [evalOp, List.any_map]
  rfl

theorem eval_perm_and (I : Interp) (l₁ l₂ : List Term) (p : Payload) (h : l₁.Perm l₂) :
    eval I (.node .and l₁ p) = eval I (.node .and l₂ p) := by
  rw [eval_and, eval_and, h.all_eq]

theorem eval_perm_or (I : Interp) (l₁ l₂ : List Term) (p : Payload) (h : l₁.Perm l₂) :
    eval I (.node .or l₁ p) = eval I (.node .or l₂ p) := by
  rw [eval_or, eval_or, h.any_eq]

/-- duplicates among the arguments of a conjunction / disjunction do not matter either -/
theorem eval_and_of_same_set (I : Interp) (l₁ l₂ : List Term) (p : Payload) (h : ∀ a, a ∈ l₁ ↔ a ∈ l₂) :
    eval I (.node .and l₁ p) = eval I (.node .and l₂ p) := by
  rw [eval_and, eval_and]
  congr 1
  rw [Bool.eq_iff_iff]
  simp only [List.all_eq_true]
  exact ⟨fun H a ha => H a ((h a).mpr ha), fun H a ha => H a ((h a).mp ha)⟩

theorem eval_or_of_same_set (I : Interp) (l₁ l₂ : List Term) (p : Payload) (h : ∀ a, a ∈ l₁ ↔ a ∈ l₂) :
    eval I (.node .or l₁ p) = eval I (.node .or l₂ p) := by
  rw [eval_or, eval_or]
  congr 1
  rw [Bool.eq_iff_iff]
  simp only [List.any_eq_true]
  exact ⟨fun ⟨a, ha, H⟩ => ⟨a, (h a).mp ha, H⟩, fun ⟨a, ha, H⟩ => ⟨a, (h a).mpr ha, H⟩⟩


/-! ## sort preservation -/

theorem hasSort_bool {v : Val} (h : v.hasSort .bool = true) : ∃ b, v = .b b := by
  cases v <;> simp [Val.hasSort] at h; exact ⟨_, rfl⟩
theorem hasSort_int {v : Val} (h : v.hasSort .int = true) : ∃ n, v = .i n := by
  cases v <;> simp [Val.hasSort] at h; exact ⟨_, rfl⟩
theorem hasSort_real {v : Val} (h : v.hasSort .real = true) : ∃ q, v = .r q := by
  cases v <;> simp [Val.hasSort] at h; exact ⟨_, rfl⟩
theorem hasSort_str {v : Val} (h : v.hasSort .str = true) : ∃ s, v = .s s := by
  cases v <;> simp [Val.hasSort] at h; exact ⟨_, rfl⟩
theorem hasSort_bv {v : Val} {w : Nat} (h : v.hasSort (.bv w) = true) : ∃ n, v = .bv w n ∧ n < 2 ^ w := by
  cases v <;> simp [Val.hasSort] at h
  next w' n => obtain ⟨rfl, hn⟩ := h; exact ⟨n, rfl, hn⟩

theorem of_ite_some {α} {c : Prop} [Decidable c] {a b : α} (h : (if c then some a else none) = some b) :
    c ∧ a = b := by
  split at h
  · next hc => exact ⟨hc, by simpa using h⟩
  · simp at h

/-- relation between a child's value and its (optional) type used in the step lemmas -/
def SortedAs (v : Val) (t : Option Ty) : Prop := ∀ τ, t = some τ → v.hasSort τ = true

/-- pointwise `SortedAs` on two lists of the same length -/
inductive SortedAll : List Val → List (Option Ty) → Prop
  | nil : SortedAll [] []
  | cons {v t vs ts} : SortedAs v t → SortedAll vs ts → SortedAll (v :: vs) (t :: ts)

theorem sortedAll_map {α} (f : α → Val) (g : α → Option Ty) :
    ∀ (l : List α), (∀ a ∈ l, SortedAs (f a) (g a)) → SortedAll (l.map f) (l.map g)
  | [], _ => .nil
  | a :: l, h => .cons (h a (by simp)) (sortedAll_map f g l (fun b hb => h b (by simp [hb])))

theorem allAre_sorted {T : Ty} : ∀ {vs : List Val} {ts : List (Option Ty)}, SortedAll vs ts →
    allAre ts T = true → ∀ v ∈ vs, v.hasSort T = true
  | _, _, .nil, _, v, hv => by simp at hv
  | _, _, .cons h1 h2, hall, v, hv => by
    simp only [allAre, List.all_cons, Bool.and_eq_true, beq_iff_eq] at hall
    rcases List.mem_cons.mp hv with rfl | hv
    · exact h1 T hall.1
    · exact allAre_sorted h2 (by simpa [allAre] using hall.2) v hv

/-- operators whose value is a Boolean whatever the arguments are -/
def Op.boolRes : Op → Bool
  | .and | .or | .not | .implies | .iff | .le | .lt | .equals | .bvUlt | .bvUle | .bvSlt | .bvSle
  | .strContains | .strPrefixOf | .strSuffixOf => true
  | _ => false

theorem evalOp_boolRes (I : Interp) (op : Op) (p : Payload) (vs : List Val) (h : op.boolRes = true) :
    ∃ b, evalOp I op p vs = .b b := by
  cases op <;> simp [Op.boolRes] at h <;>
    first
    | exact ⟨_, rfl⟩
    | (rcases vs with _ | ⟨a, _ | ⟨b, _ | ⟨c, r⟩⟩⟩ <;> exact ⟨_, rfl⟩)

theorem typeOfNode_boolRes (op : Op) (p : Payload) (ts : List (Option Ty)) (τ : Ty) (h : op.boolRes = true)
    (ht : typeOfNode op p ts = some τ) : τ = .bool := by
  cases op <;> simp [Op.boolRes] at h
  case and | or | not | implies | iff | strContains | strPrefixOf | strSuffixOf =>
    exact (of_ite_some ht).2.symm
  all_goals
    rcases ts with _ | ⟨_ | ⟨t⟩, rest⟩
    · first | exact (Option.some.inj ht).symm | cases ht
    · first | exact (of_ite_some ht).2.symm | cases ht
    · cases t <;> first | exact (of_ite_some ht).2.symm | cases ht

/-! ### values -/

theorem add_int {a b : Val} (ha : a.hasSort .int = true) (hb : b.hasSort .int = true) : (Sem.add a b).hasSort .int = true := by
  obtain ⟨x, rfl⟩ := hasSort_int ha; obtain ⟨y, rfl⟩ := hasSort_int hb; rfl
theorem add_real {a b : Val} (ha : a.hasSort .real = true) (hb : b.hasSort .real = true) : (Sem.add a b).hasSort .real = true := by
  obtain ⟨x, rfl⟩ := hasSort_real ha; obtain ⟨y, rfl⟩ := hasSort_real hb; rfl
theorem mul_int {a b : Val} (ha : a.hasSort .int = true) (hb : b.hasSort .int = true) : (Sem.mul a b).hasSort .int = true := by
  obtain ⟨x, rfl⟩ := hasSort_int ha; obtain ⟨y, rfl⟩ := hasSort_int hb; rfl
theorem mul_real {a b : Val} (ha : a.hasSort .real = true) (hb : b.hasSort .real = true) : (Sem.mul a b).hasSort .real = true := by
  obtain ⟨x, rfl⟩ := hasSort_real ha; obtain ⟨y, rfl⟩ := hasSort_real hb; rfl
theorem sub_int {a b : Val} (ha : a.hasSort .int = true) (hb : b.hasSort .int = true) : (Sem.sub a b).hasSort .int = true := by
  obtain ⟨x, rfl⟩ := hasSort_int ha; obtain ⟨y, rfl⟩ := hasSort_int hb; rfl
theorem sub_real {a b : Val} (ha : a.hasSort .real = true) (hb : b.hasSort .real = true) : (Sem.sub a b).hasSort .real = true := by
  obtain ⟨x, rfl⟩ := hasSort_real ha; obtain ⟨y, rfl⟩ := hasSort_real hb; rfl
theorem div_int (I : Interp) {a b : Val} (ha : a.hasSort .int = true) (hb : b.hasSort .int = true) : (Sem.div I a b).hasSort .int = true := by
  obtain ⟨x, rfl⟩ := hasSort_int ha; obtain ⟨y, rfl⟩ := hasSort_int hb
  simp only [Sem.div]; split <;> rfl
theorem div_real (I : Interp) {a b : Val} (ha : a.hasSort .real = true) (hb : b.hasSort .real = true) : (Sem.div I a b).hasSort .real = true := by
  obtain ⟨x, rfl⟩ := hasSort_real ha; obtain ⟨y, rfl⟩ := hasSort_real hb
  simp only [Sem.div]; split <;> rfl

theorem foldl_hasSort (f : Val → Val → Val) (T : Ty)
    (hf : ∀ a b, a.hasSort T = true → b.hasSort T = true → (f a b).hasSort T = true) :
    ∀ (vs : List Val) (v : Val), v.hasSort T = true → (∀ x ∈ vs, x.hasSort T = true) → (vs.foldl f v).hasSort T = true
  | [], v, hv, _ => hv
  | x :: vs, v, hv, h => by
    simp only [List.foldl_cons]
    exact foldl_hasSort f T hf vs (f v x) (hf v x hv (h x (by simp))) (fun y hy => h y (by simp [hy]))

theorem hasSort_bv_of (w : Nat) (x : BitVec w) : (Val.bv w x.toNat).hasSort (.bv w) = true := by
  simp [Val.hasSort, x.isLt]

theorem bv1_hasSort (f : (w : Nat) → BitVec w → BitVec w) {a : Val} {w : Nat} (ha : a.hasSort (.bv w) = true) :
    (Sem.bv1 f a).hasSort (.bv w) = true := by
  obtain ⟨x, rfl, _⟩ := hasSort_bv ha
  simp [Sem.bv1, Val.hasSort, BitVec.isLt]

theorem bv2_hasSort (f : (w : Nat) → BitVec w → BitVec w → BitVec w) {a b : Val} {w : Nat}
    (ha : a.hasSort (.bv w) = true) (hb : b.hasSort (.bv w) = true) :
    (Sem.bv2 f a b).hasSort (.bv w) = true := by
  obtain ⟨x, rfl, _⟩ := hasSort_bv ha
  obtain ⟨y, rfl, _⟩ := hasSort_bv hb
  simp [Sem.bv2, Val.hasSort, BitVec.isLt]

theorem select_hasSort (i e : Ty) (j : Val) : ∀ (a : Val), a.hasSort (.array i e) = true → (a.select j).hasSort e = true
  | .astore a k v, h => by
    simp only [Val.hasSort, Bool.and_eq_true] at h
    simp only [Val.select]
    split
    · exact h.2
    · exact select_hasSort i e j a h.1.1
  | .aconst ix d, h => by
    simp only [Val.hasSort, Bool.and_eq_true] at h
    exact h.2
  | .b _, h | .i _, h | .r _, h | .s _, h | .bv _ _, h | .u _ _, h => by simp [Val.hasSort] at h

/-! ### closed forms / inversions of `typeOfNode`, operator class by operator class -/

/-- close a goal whose typing hypothesis computes to `none = some _` -/
local macro "tinv " h:ident : tactic => `(tactic| try (cases $h:ident; done))

def Op.isArith : Op → Bool | .plus | .minus | .times | .div => true | _ => false

theorem typeOfNode_arith (op : Op) (h : op.isArith = true) (p ts) : typeOfNode op p ts =
    if allAre ts .real then some .real else if allAre ts .int then some .int else none := by
  cases op <;> simp [Op.isArith] at h <;> rfl

def Op.isBvSame : Op → Bool
  | .bvAdd | .bvSub | .bvNot | .bvAnd | .bvOr | .bvXor | .bvNeg | .bvMul | .bvUdiv | .bvUrem | .bvLshl | .bvLshr
  | .bvSdiv | .bvSrem | .bvAshr => true
  | _ => false

theorem typeOfNode_bvSame (op : Op) (h : op.isBvSame = true) (p ts) : typeOfNode op p ts =
    match p with
    | .ints (w :: _) => if allAre ts (.bv w) then some (.bv w) else none
    | _ => none := by
  cases op <;> simp [Op.isBvSame] at h <;>
    (cases p <;> first | rfl | (rename_i l; cases l <;> rfl))

theorem typeOfNode_toReal (p ts) : typeOfNode .toReal p ts = if allAre ts .int then some .real else none := rfl

theorem typeOfNode_ite {p ts τ} (h : typeOfNode .ite p ts = some τ) : ts = [some .bool, some τ, some τ] := by
  rcases ts with _ | ⟨_ | ⟨t1⟩, r1⟩ <;> tinv h
  cases t1 <;> tinv h
  rcases r1 with _ | ⟨_ | ⟨t2⟩, r2⟩ <;> tinv h
  rcases r2 with _ | ⟨_ | ⟨t3⟩, r3⟩ <;> tinv h
  rcases r3 with _ | ⟨t4, r4⟩ <;> tinv h
  obtain ⟨rfl, rfl⟩ := of_ite_some h
  rfl

theorem typeOfNode_bvComp {p ts τ} (h : typeOfNode .bvComp p ts = some τ) :
    ∃ w, ts = [some (.bv w), some (.bv w)] ∧ τ = .bv 1 := by
  rcases ts with _ | ⟨_ | ⟨t1⟩, r1⟩ <;> tinv h
  cases t1 <;> tinv h
  rcases r1 with _ | ⟨_ | ⟨t2⟩, r2⟩ <;> tinv h
  cases t2 <;> tinv h
  rcases r2 with _ | ⟨t3, r3⟩ <;> tinv h
  obtain ⟨rfl, rfl⟩ := of_ite_some h
  exact ⟨_, rfl, rfl⟩

theorem typeOfNode_bvToNatural {p ts τ} (h : typeOfNode .bvToNatural p ts = some τ) :
    τ = .int ∧ ∃ w r, ts = some (.bv w) :: r := by
  rcases ts with _ | ⟨_ | ⟨t1⟩, r1⟩ <;> tinv h
  cases t1 <;> tinv h
  exact ⟨(Option.some.inj h).symm, _, _, rfl⟩

theorem typeOfNode_bvConcat {p ts τ} (h : typeOfNode .bvConcat p ts = some τ) :
    ∃ l r, ts = [some (.bv l), some (.bv r)] ∧ τ = .bv (l + r) := by
  cases p <;> tinv h
  rename_i ws
  cases ws <;> tinv h
  rcases ts with _ | ⟨_ | ⟨t1⟩, r1⟩ <;> tinv h
  cases t1 <;> tinv h
  rcases r1 with _ | ⟨_ | ⟨t2⟩, r2⟩ <;> tinv h
  cases t2 <;> tinv h
  rcases r2 with _ | ⟨t3, r3⟩ <;> tinv h
  obtain ⟨hw, rfl⟩ := of_ite_some h
  exact ⟨_, _, rfl, by rw [hw]⟩

theorem typeOfNode_bvExtract {p ts τ} (h : typeOfNode .bvExtract p ts = some τ) :
    ∃ w lo hi base, p = .ints [w, lo, hi] ∧ ts = [some (.bv base)] ∧ τ = .bv w ∧ w + lo = hi + 1 := by
  cases p <;> tinv h
  rename_i ws
  rcases ws with _ | ⟨w, _ | ⟨lo, _ | ⟨hi, _ | ⟨x, r⟩⟩⟩⟩ <;> tinv h
  rcases ts with _ | ⟨_ | ⟨t1⟩, r1⟩ <;> tinv h
  cases t1 <;> tinv h
  rcases r1 with _ | ⟨t2, r2⟩ <;> tinv h
  rename_i base
  have h' : (if lo ≥ base ∨ hi ≥ base then none else if base < w then none
      else if w + lo ≠ hi + 1 then none else some (Ty.bv w)) = some τ := h
  split at h'
  · cases h'
  · split at h'
    · cases h'
    · split at h'
      · cases h'
      · next hne =>
        refine ⟨w, lo, hi, base, rfl, rfl, (Option.some.inj h').symm, ?_⟩
        omega

theorem typeOfNode_bvRot (op : Op) (hop : op = .bvRol ∨ op = .bvRor) {p ts τ} (h : typeOfNode op p ts = some τ) :
    ∃ w k, p = .ints [w, k] ∧ ts = [some (.bv w)] ∧ τ = .bv w := by
  rcases hop with rfl | rfl
  all_goals
    cases p <;> tinv h
    rename_i ws
    rcases ws with _ | ⟨w, _ | ⟨k, _ | ⟨x, r⟩⟩⟩ <;> tinv h
    rcases ts with _ | ⟨_ | ⟨t1⟩, r1⟩ <;> tinv h
    cases t1 <;> tinv h
    rcases r1 with _ | ⟨t2, r2⟩ <;> tinv h
    rename_i a
    have h' : (if w < k then none else if w ≠ a then none else some (Ty.bv w)) = some τ := h
    split at h'
    · cases h'
    · split at h'
      · cases h'
      · next hne =>
        have : w = a := by simpa using hne
        subst this
        exact ⟨w, k, rfl, rfl, (Option.some.inj h').symm⟩

theorem typeOfNode_bvExt (op : Op) (hop : op = .bvZext ∨ op = .bvSext) {p ts τ} (h : typeOfNode op p ts = some τ) :
    ∃ w ws a r, p = .ints (w :: ws) ∧ ts = some (.bv a) :: r ∧ τ = .bv w := by
  rcases hop with rfl | rfl
  all_goals
    cases p <;> tinv h
    rename_i ws
    rcases ws with _ | ⟨w, ws⟩ <;> tinv h
    rcases ts with _ | ⟨_ | ⟨t1⟩, r1⟩ <;> tinv h
    cases t1 <;> tinv h
    rename_i a
    have h' : (if w < a then none else some (Ty.bv w)) = some τ := h
    split at h'
    · cases h'
    · exact ⟨w, ws, a, r1, rfl, rfl, (Option.some.inj h').symm⟩

theorem typeOfNode_arraySelect {p ts τ} (h : typeOfNode .arraySelect p ts = some τ) :
    ∃ i, ts = [some (.array i τ), some i] := by
  rcases ts with _ | ⟨_ | ⟨t1⟩, r1⟩ <;> tinv h
  cases t1 <;> tinv h
  rcases r1 with _ | ⟨_ | ⟨t2⟩, r2⟩ <;> tinv h
  rcases r2 with _ | ⟨t3, r3⟩ <;> tinv h
  obtain ⟨rfl, rfl⟩ := of_ite_some h
  exact ⟨_, rfl⟩

/-- string-valued operators -/
def Op.strRes : Op → Bool
  | .strConcat | .strReplace | .strSubstr | .intToStr | .strCharAt => true | _ => false
/-- integer-valued string operators -/
def Op.strIntRes : Op → Bool
  | .strLength | .strIndexOf | .strToInt => true | _ => false

theorem typeOfNode_strRes (op : Op) (hop : op.strRes = true) {p ts τ} (h : typeOfNode op p ts = some τ) :
    τ = .str := by
  cases op <;> simp [Op.strRes] at hop
  case strConcat | strReplace | intToStr => exact (of_ite_some h).2.symm
  case strSubstr =>
    rcases ts with _ | ⟨_ | ⟨t1⟩, r1⟩ <;> tinv h
    cases t1 <;> tinv h
    rcases r1 with _ | ⟨_ | ⟨t2⟩, r2⟩ <;> tinv h
    cases t2 <;> tinv h
    rcases r2 with _ | ⟨_ | ⟨t3⟩, r3⟩ <;> tinv h
    cases t3 <;> tinv h
    rcases r3 with _ | ⟨t4, r4⟩ <;> tinv h
    exact (Option.some.inj h).symm
  case strCharAt =>
    rcases ts with _ | ⟨_ | ⟨t1⟩, r1⟩ <;> tinv h
    cases t1 <;> tinv h
    rcases r1 with _ | ⟨_ | ⟨t2⟩, r2⟩ <;> tinv h
    cases t2 <;> tinv h
    rcases r2 with _ | ⟨t3, r3⟩ <;> tinv h
    exact (Option.some.inj h).symm

theorem typeOfNode_strIntRes (op : Op) (hop : op.strIntRes = true) {p ts τ} (h : typeOfNode op p ts = some τ) :
    τ = .int := by
  cases op <;> simp [Op.strIntRes] at hop
  case strLength | strToInt => exact (of_ite_some h).2.symm
  case strIndexOf =>
    rcases ts with _ | ⟨_ | ⟨t1⟩, r1⟩ <;> tinv h
    cases t1 <;> tinv h
    rcases r1 with _ | ⟨_ | ⟨t2⟩, r2⟩ <;> tinv h
    cases t2 <;> tinv h
    rcases r2 with _ | ⟨_ | ⟨t3⟩, r3⟩ <;> tinv h
    cases t3 <;> tinv h
    rcases r3 with _ | ⟨t4, r4⟩ <;> tinv h
    exact (Option.some.inj h).symm

/-! ### the fragment and the step lemma -/

def Op.isBvBin : Op → Bool
  | .bvAdd | .bvSub | .bvAnd | .bvOr | .bvXor | .bvMul | .bvUdiv | .bvUrem | .bvLshl | .bvLshr
  | .bvSdiv | .bvSrem | .bvAshr => true
  | _ => false

/-- Shape conditions on a node with `n` arguments: the arity and payload shape that the
`FormulaManager` constructors guarantee (the type checker does not check them), for the operators
covered by `eval_hasSort_partial`. Not covered (`false`): `pow`, `algebraicConst` (no semantics in
`Core/Eval`). `bvExtract` needs `lo ≤ hi`: the type
rule accepts the zero-width extract `lo = hi + 1`, which `BVExtract` rejects. -/
def nodeFrag (op : Op) (p : Payload) (n : Nat) : Bool :=
  match op with
  | .and | .or | .not | .implies | .iff | .le | .lt | .equals | .bvUlt | .bvUle | .bvSlt | .bvSle
  | .strContains | .strPrefixOf | .strSuffixOf | .forall_ | .exists_ | .symbol | .function => true
  | .boolConst => match p with | .b _ => true | _ => false
  | .intConst => match p with | .i _ => true | _ => false
  | .realConst => match p with | .q _ => true | _ => false
  | .strConst => match p with | .s _ => true | _ => false
  | .bvConst => match p with | .bv v w => decide (v < 2 ^ w) | _ => false
  | .plus | .times => decide (1 ≤ n)
  | .minus | .div => n == 2
  | .bvExtract => match p with | .ints [_, lo, hi] => decide (lo ≤ hi) | _ => false
  | .ite | .bvConcat | .bvRol | .bvRor | .bvComp | .arraySelect | .strConcat => true
  | .toReal | .bvNot | .bvNeg | .bvToNatural | .strLength | .strToInt | .intToStr => n == 1
  | .bvAdd | .bvSub | .bvAnd | .bvOr | .bvXor | .bvMul | .bvUdiv | .bvUrem | .bvLshl | .bvLshr
  | .bvSdiv | .bvSrem | .bvAshr | .strCharAt => n == 2
  | .bvZext | .bvSext => n == 1 && (match p with | .ints [_, _] => true | _ => false)
  | .strReplace | .strIndexOf | .strSubstr => n == 3
  | .arrayStore | .arrayValue => true
  | .pow | .algebraicConst => false

/-- every node satisfies `nodeFrag` -/
def Term.inFrag : Term → Bool
  | .node op args p => (args.map Term.inFrag).all id && nodeFrag op p args.length

theorem inFrag_node (op : Op) (args : List Term) (p : Payload) : (Term.node op args p).inFrag =
    ((args.map Term.inFrag).all id && nodeFrag op p args.length) := by
  rw [Term.inFrag.eq_def]

theorem evalOp_strRes (I : Interp) (op : Op) (p : Payload) (vs : List Val) (hop : op.strRes = true)
    (hfrag : nodeFrag op p vs.length = true) : ∃ s, evalOp I op p vs = .s s := by
  cases op <;> simp [Op.strRes] at hop
  case strConcat => exact ⟨_, rfl⟩
  all_goals
    rcases vs with _ | ⟨a, _ | ⟨b, _ | ⟨c, _ | ⟨d, r⟩⟩⟩⟩ <;> simp [nodeFrag] at hfrag <;> exact ⟨_, rfl⟩

theorem evalOp_strIntRes (I : Interp) (op : Op) (p : Payload) (vs : List Val) (hop : op.strIntRes = true)
    (hfrag : nodeFrag op p vs.length = true) : ∃ n, evalOp I op p vs = .i n := by
  cases op <;> simp [Op.strIntRes] at hop
  all_goals
    rcases vs with _ | ⟨a, _ | ⟨b, _ | ⟨c, _ | ⟨d, r⟩⟩⟩⟩ <;> simp [nodeFrag] at hfrag <;> exact ⟨_, rfl⟩

theorem evalOp_bvUn (I : Interp) (op : Op) (p : Payload) (a : Val) (hop : op = .bvNot ∨ op = .bvNeg) :
    ∃ f, evalOp I op p [a] = Sem.bv1 f a := by
  rcases hop with rfl | rfl <;> exact ⟨_, rfl⟩

theorem evalOp_bvBin (I : Interp) (op : Op) (p : Payload) (a b : Val) (hop : op.isBvBin = true) :
    ∃ f, evalOp I op p [a, b] = Sem.bv2 f a b := by
  cases op <;> simp [Op.isBvBin] at hop
  case bvLshl => exact ⟨fun _ x y => x <<< y.toNat, rfl⟩
  case bvLshr => exact ⟨fun _ x y => x >>> y.toNat, rfl⟩
  case bvAshr => exact ⟨fun _ x y => x.sshiftRight y.toNat, rfl⟩
  all_goals exact ⟨_, rfl⟩

theorem sortedAll_length : ∀ {vs ts}, SortedAll vs ts → vs.length = ts.length
  | _, _, .nil => rfl
  | _, _, .cons _ h => by simp [sortedAll_length h]

theorem sortedAll_cons {vs t ts} (h : SortedAll vs (t :: ts)) : ∃ a r, vs = a :: r ∧ SortedAs a t ∧ SortedAll r ts := by
  cases h with
  | cons h1 h2 => exact ⟨_, _, rfl, h1, h2⟩
theorem sortedAll_nil {vs} (h : SortedAll vs []) : vs = [] := by
  cases h; rfl
theorem sortedAll_1 {vs t} (h : SortedAll vs [t]) : ∃ a, vs = [a] ∧ SortedAs a t := by
  obtain ⟨a, r, rfl, h1, h2⟩ := sortedAll_cons h
  rw [sortedAll_nil h2]; exact ⟨a, rfl, h1⟩
theorem sortedAll_2 {vs t u} (h : SortedAll vs [t, u]) : ∃ a b, vs = [a, b] ∧ SortedAs a t ∧ SortedAs b u := by
  obtain ⟨a, r, rfl, h1, h2⟩ := sortedAll_cons h
  obtain ⟨b, rfl, h3⟩ := sortedAll_1 h2
  exact ⟨a, b, rfl, h1, h3⟩
theorem sortedAll_3 {vs t u w} (h : SortedAll vs [t, u, w]) :
    ∃ a b c, vs = [a, b, c] ∧ SortedAs a t ∧ SortedAs b u ∧ SortedAs c w := by
  obtain ⟨a, r, rfl, h1, h2⟩ := sortedAll_cons h
  obtain ⟨b, c, rfl, h3, h4⟩ := sortedAll_2 h2
  exact ⟨a, b, c, rfl, h1, h3, h4⟩

/-! ### canonical array values -/

theorem foldl_astore_hasSort (ix e : Ty) : ∀ (ents : List (Val × Val)) (a : Val),
    a.hasSort (.array ix e) = true → (∀ kv ∈ ents, kv.1.hasSort ix = true ∧ kv.2.hasSort e = true) →
    (ents.foldl (fun a kv => Val.astore a kv.1 kv.2) a).hasSort (.array ix e) = true
  | [], a, ha, _ => ha
  | kv :: ents, a, ha, h => by
    simp only [List.foldl_cons]
    apply foldl_astore_hasSort ix e ents
    · simp only [Val.hasSort, ha, (h kv (by simp)).1, (h kv (by simp)).2, Bool.and_self]
    · intro kv' hkv'; exact h kv' (by simp [hkv'])

theorem mkArr_hasSort (ix e : Ty) (d : Val) (hd : d.hasSort e = true) (ents : List (Val × Val))
    (h : ∀ kv ∈ ents, kv.1.hasSort ix = true ∧ kv.2.hasSort e = true) :
    (Val.mkArr ix d ents).hasSort (.array ix e) = true := by
  unfold Val.mkArr
  apply foldl_astore_hasSort ix e ents _ _ h
  simp [Val.hasSort, hd]

theorem arr_parts (ix e : Ty) : ∀ (a : Val), a.hasSort (.array ix e) = true →
    a.arrIdx = ix ∧ a.arrDefault.hasSort e = true ∧
    ∀ kv ∈ a.arrEntries, kv.1.hasSort ix = true ∧ kv.2.hasSort e = true
  | .astore a k v, h => by
    simp only [Val.hasSort, Bool.and_eq_true] at h
    obtain ⟨h1, h2, h3⟩ := arr_parts ix e a h.1.1
    refine ⟨h1, h2, ?_⟩
    intro kv hkv
    simp only [Val.arrEntries, List.mem_append, List.mem_singleton] at hkv
    rcases hkv with hkv | rfl
    · exact h3 kv hkv
    · exact ⟨h.1.2, h.2⟩
  | .aconst ix' d, h => by
    simp only [Val.hasSort, Bool.and_eq_true, beq_iff_eq] at h
    exact ⟨h.1, h.2, by simp [Val.arrEntries]⟩
  | .b _, h | .i _, h | .r _, h | .s _, h | .bv _ _, h | .u _ _, h => by simp [Val.hasSort] at h

theorem lookupEnt_hasSort (e : Ty) (k d : Val) (hd : d.hasSort e = true) : ∀ (ents : List (Val × Val)),
    (∀ kv ∈ ents, kv.2.hasSort e = true) → (Val.lookupEnt k d ents).hasSort e = true
  | [], _ => hd
  | (k', v') :: rest, h => by
    simp only [Val.lookupEnt]
    split
    · exact h (k', v') (by simp)
    · exact lookupEnt_hasSort e k d hd rest (fun kv hkv => h kv (by simp [hkv]))

theorem smallDomain_hasSort (ix : Ty) (dom : List Val) (h : Val.smallDomain ix = some dom) :
    ∀ k ∈ dom, k.hasSort ix = true := by
  cases ix <;> simp [Val.smallDomain] at h
  case bool => subst h; intro k hk; simp at hk; rcases hk with rfl | rfl <;> rfl
  case bv w =>
    obtain ⟨_, rfl⟩ := h
    intro k hk
    simp only [List.mem_map, List.mem_range] at hk
    obtain ⟨n, hn, rfl⟩ := hk
    simp [Val.hasSort, hn]

theorem normArr_hasSort (ix e : Ty) (d : Val) (hd : d.hasSort e = true) (ents : List (Val × Val))
    (h : ∀ kv ∈ ents, kv.1.hasSort ix = true ∧ kv.2.hasSort e = true) :
    (Val.normArr ix d ents).hasSort (.array ix e) = true := by
  unfold Val.normArr
  split
  · next dom hdom =>
    split
    · next m hm =>
      simp only
      split
      · exact mkArr_hasSort ix e d hd ents h
      · apply mkArr_hasSort ix e _ (lookupEnt_hasSort e m d hd ents (fun kv hkv => (h kv hkv).2))
        intro kv hkv
        simp only [List.mem_filter, List.mem_map] at hkv
        obtain ⟨⟨k, hk, rfl⟩, _⟩ := hkv
        exact ⟨smallDomain_hasSort ix dom hdom k (by rw [List.dropLast_eq_take] at hk; exact List.mem_of_mem_take hk),
          lookupEnt_hasSort e k d hd ents (fun kv hkv => (h kv hkv).2)⟩
    · exact mkArr_hasSort ix e d hd ents h
  · exact mkArr_hasSort ix e d hd ents h

theorem insertEnt_sorted (ix e : Ty) (k v : Val) (hk : k.hasSort ix = true) (hv : v.hasSort e = true) :
    ∀ (ents : List (Val × Val)), (∀ kv ∈ ents, kv.1.hasSort ix = true ∧ kv.2.hasSort e = true) →
    ∀ kv ∈ Val.insertEnt k v ents, kv.1.hasSort ix = true ∧ kv.2.hasSort e = true
  | [], _, kv, hkv => by
    simp only [Val.insertEnt, List.mem_singleton] at hkv; subst hkv; exact ⟨hk, hv⟩
  | (k', v') :: rest, h, kv, hkv => by
    simp only [Val.insertEnt] at hkv
    split at hkv
    · rcases List.mem_cons.mp hkv with rfl | hkv
      · exact ⟨hk, hv⟩
      · exact h kv (by simp [hkv])
    · split at hkv
      · rcases List.mem_cons.mp hkv with rfl | hkv
        · exact ⟨hk, hv⟩
        · exact h kv hkv
      · rcases List.mem_cons.mp hkv with rfl | hkv
        · exact h _ (by simp)
        · exact insertEnt_sorted ix e k v hk hv rest (fun kv hkv => h kv (by simp [hkv])) kv hkv

theorem store_hasSort (ix e : Ty) (a k v : Val) (ha : a.hasSort (.array ix e) = true)
    (hk : k.hasSort ix = true) (hv : v.hasSort e = true) : (a.store k v).hasSort (.array ix e) = true := by
  obtain ⟨h1, h2, h3⟩ := arr_parts ix e a ha
  unfold Val.store
  simp only [h1]
  split
  · exact normArr_hasSort ix e _ h2 _ (fun kv hkv => h3 kv (List.mem_filter.mp hkv).1)
  · exact normArr_hasSort ix e _ h2 _ (insertEnt_sorted ix e k v hk hv _ h3)

theorem typeOfNode_arrayStore' {p ts τ} (h : typeOfNode .arrayStore p ts = some τ) :
    ∃ i e, ts = [some (.array i e), some i, some e] ∧ τ = .array i e := by
  rcases ts with _ | ⟨_ | ⟨t1⟩, r1⟩ <;> (try (cases h; done))
  cases t1 <;> (try (cases h; done))
  rcases r1 with _ | ⟨_ | ⟨t2⟩, r2⟩ <;> (try (cases h; done))
  rcases r2 with _ | ⟨_ | ⟨t3⟩, r3⟩ <;> (try (cases h; done))
  rcases r3 with _ | ⟨t4, r4⟩ <;> (try (cases h; done))
  obtain ⟨⟨rfl, rfl⟩, rfl⟩ := of_ite_some h
  exact ⟨_, _, rfl, rfl⟩

theorem typeOfNode_arrayValue' {p ts τ} (h : typeOfNode .arrayValue p ts = some τ) :
    ∃ idx d rest, p = .ty idx ∧ ts = some d :: rest ∧ typeOfNode.chk idx d rest = true ∧ τ = .array idx d := by
  cases p <;> (try (cases h; done))
  rcases ts with _ | ⟨_ | ⟨t1⟩, r1⟩ <;> (try (cases h; done))
  obtain ⟨hc, rfl⟩ := of_ite_some h
  exact ⟨_, _, _, rfl, rfl, hc, rfl⟩

theorem arrayValue_hasSort (idx d : Ty) (dv : Val) (hd : dv.hasSort d = true) :
    ∀ (ts : List (Option Ty)) (vs : List Val), typeOfNode.chk idx d ts = true → SortedAll vs ts →
    (Sem.arrayValue idx dv vs).hasSort (.array idx d) = true
  | [], vs, _, hs => by
    rw [sortedAll_nil hs]
    simp [Sem.arrayValue, Val.hasSort, hd]
  | [t], vs, hc, _ => by simp [typeOfNode.chk] at hc
  | k :: v :: more, vs, hc, hs => by
    obtain ⟨kv, r1, rfl, hk, hs1⟩ := sortedAll_cons hs
    obtain ⟨vv, r2, rfl, hv, hs2⟩ := sortedAll_cons hs1
    simp only [typeOfNode.chk, Bool.and_eq_true, beq_iff_eq] at hc
    obtain ⟨⟨rfl, rfl⟩, hc'⟩ := hc
    simp only [Sem.arrayValue]
    exact store_hasSort idx d _ kv vv (arrayValue_hasSort idx d dv hd more r2 hc' hs2) (hk _ rfl) (hv _ rfl)


theorem evalOp_hasSort (I : Interp) (op : Op) (p : Payload) (vs : List Val) (ts : List (Option Ty)) (τ : Ty)
    (hfrag : nodeFrag op p vs.length = true) (hs : SortedAll vs ts)
    (ht : typeOfNode op p ts = some τ)
    (h1 : op ≠ .symbol) (h2 : op ≠ .function) (h3 : op.isQuantifier = false) :
    (evalOp I op p vs).hasSort τ = true := by
  by_cases hb : op.boolRes = true
  · obtain ⟨b, hb'⟩ := evalOp_boolRes I op p vs hb
    rw [hb', typeOfNode_boolRes op p ts τ hb ht]; rfl
  by_cases hstr : op.strRes = true
  · obtain ⟨s, hs'⟩ := evalOp_strRes I op p vs hstr hfrag
    rw [hs', typeOfNode_strRes op hstr ht]; rfl
  by_cases hsi : op.strIntRes = true
  · obtain ⟨s, hs'⟩ := evalOp_strIntRes I op p vs hsi hfrag
    rw [hs', typeOfNode_strIntRes op hsi ht]; rfl
  by_cases har : op.isArith = true
  · rw [typeOfNode_arith op har] at ht
    have hT : ∃ T, (T = Ty.real ∨ T = Ty.int) ∧ allAre ts T = true ∧ τ = T := by
      split at ht
      · next hr => exact ⟨.real, .inl rfl, hr, (Option.some.inj ht).symm⟩
      · obtain ⟨hi, rfl⟩ := of_ite_some ht
        exact ⟨.int, .inr rfl, hi, rfl⟩
    obtain ⟨T, hTT, hall, rfl⟩ := hT
    have hv := allAre_sorted hs hall
    cases op <;> simp [Op.isArith] at har
    case plus =>
      rcases vs with _ | ⟨v, vs⟩
      · simp [nodeFrag] at hfrag
      · show (vs.foldl Sem.add v).hasSort τ = true
        rcases hTT with rfl | rfl
        · exact foldl_hasSort _ _ (fun a b => add_real) vs v (hv v (by simp)) (fun x hx => hv x (by simp [hx]))
        · exact foldl_hasSort _ _ (fun a b => add_int) vs v (hv v (by simp)) (fun x hx => hv x (by simp [hx]))
    case times =>
      rcases vs with _ | ⟨v, vs⟩
      · simp [nodeFrag] at hfrag
      · show (vs.foldl Sem.mul v).hasSort τ = true
        rcases hTT with rfl | rfl
        · exact foldl_hasSort _ _ (fun a b => mul_real) vs v (hv v (by simp)) (fun x hx => hv x (by simp [hx]))
        · exact foldl_hasSort _ _ (fun a b => mul_int) vs v (hv v (by simp)) (fun x hx => hv x (by simp [hx]))
    case minus =>
      rcases vs with _ | ⟨a, _ | ⟨b, _ | ⟨c, r⟩⟩⟩ <;> simp [nodeFrag] at hfrag
      show (Sem.sub a b).hasSort τ = true
      rcases hTT with rfl | rfl
      · exact sub_real (hv a (by simp)) (hv b (by simp))
      · exact sub_int (hv a (by simp)) (hv b (by simp))
    case div =>
      rcases vs with _ | ⟨a, _ | ⟨b, _ | ⟨c, r⟩⟩⟩ <;> simp [nodeFrag] at hfrag
      show (Sem.div I a b).hasSort τ = true
      rcases hTT with rfl | rfl
      · exact div_real I (hv a (by simp)) (hv b (by simp))
      · exact div_int I (hv a (by simp)) (hv b (by simp))
  by_cases hbv : op.isBvSame = true
  · rw [typeOfNode_bvSame op hbv] at ht
    split at ht
    · next w ws =>
      obtain ⟨hall, rfl⟩ := of_ite_some ht
      have hv := allAre_sorted hs hall
      by_cases hun : op = .bvNot ∨ op = .bvNeg
      · rcases vs with _ | ⟨a, _ | ⟨b, r⟩⟩
        · rcases hun with rfl | rfl <;> simp [nodeFrag] at hfrag
        · obtain ⟨f, hf⟩ := evalOp_bvUn I op _ a hun
          rw [hf]; exact bv1_hasSort f (hv a (by simp))
        · rcases hun with rfl | rfl <;> simp [nodeFrag] at hfrag
      · have hbin : op.isBvBin = true := by
          cases op <;> simp [Op.isBvSame] at hbv <;> simp at hun <;> rfl
        rcases vs with _ | ⟨a, _ | ⟨b, _ | ⟨c, r⟩⟩⟩
        · cases op <;> simp [Op.isBvBin] at hbin <;> simp [nodeFrag] at hfrag
        · cases op <;> simp [Op.isBvBin] at hbin <;> simp [nodeFrag] at hfrag
        · obtain ⟨f, hf⟩ := evalOp_bvBin I op _ a b hbin
          rw [hf]; exact bv2_hasSort f (hv a (by simp)) (hv b (by simp))
        · cases op <;> simp [Op.isBvBin] at hbin <;> simp [nodeFrag] at hfrag
    · cases ht
  cases op
  all_goals try (exfalso; exact hb rfl)
  all_goals try (exfalso; exact hstr rfl)
  all_goals try (exfalso; exact hsi rfl)
  all_goals try (exfalso; exact har rfl)
  all_goals try (exfalso; exact hbv rfl)
  all_goals try (exfalso; exact h1 rfl)
  all_goals try (exfalso; exact h2 rfl)
  all_goals try (exfalso; simp [Op.isQuantifier] at h3; done)
  all_goals try (exfalso; simp [nodeFrag] at hfrag; done)
  case boolConst =>
    cases p <;> simp [nodeFrag] at hfrag
    rcases ts with _ | ⟨t, r⟩ <;> tinv ht
    cases ht; rfl
  case intConst =>
    cases p <;> simp [nodeFrag] at hfrag
    rcases ts with _ | ⟨t, r⟩ <;> tinv ht
    cases ht; rfl
  case realConst =>
    cases p <;> simp [nodeFrag] at hfrag
    rcases ts with _ | ⟨t, r⟩ <;> tinv ht
    cases ht; rfl
  case strConst =>
    cases p <;> simp [nodeFrag] at hfrag
    rcases ts with _ | ⟨t, r⟩ <;> tinv ht
    cases ht; rfl
  case bvConst =>
    cases p <;> simp [nodeFrag] at hfrag
    rcases ts with _ | ⟨t, r⟩ <;> tinv ht
    cases ht
    rename_i v w
    show (Val.bv w v).hasSort (.bv w) = true
    simp [Val.hasSort, hfrag]
  case ite =>
    rw [typeOfNode_ite ht] at hs
    obtain ⟨c, a, b, rfl, _, ha, hb'⟩ := sortedAll_3 hs
    show (if c.isTrue then a else b).hasSort τ = true
    split
    · exact ha τ rfl
    · exact hb' τ rfl
  case toReal =>
    rw [typeOfNode_toReal] at ht
    obtain ⟨hall, rfl⟩ := of_ite_some ht
    have hv := allAre_sorted hs hall
    rcases vs with _ | ⟨a, _ | ⟨b, r⟩⟩ <;> simp [nodeFrag] at hfrag
    obtain ⟨n, rfl⟩ := hasSort_int (hv a (by simp))
    rfl
  case bvConcat =>
    obtain ⟨l, r, rfl, rfl⟩ := typeOfNode_bvConcat ht
    obtain ⟨a, b, rfl, ha, hb'⟩ := sortedAll_2 hs
    obtain ⟨x, rfl, _⟩ := hasSort_bv (ha _ rfl)
    obtain ⟨y, rfl, _⟩ := hasSort_bv (hb' _ rfl)
    exact hasSort_bv_of (l + r) (BitVec.ofNat l x ++ BitVec.ofNat r y)
  case bvExtract =>
    obtain ⟨w, lo, hi, base, rfl, rfl, rfl, hw⟩ := typeOfNode_bvExtract ht
    obtain ⟨a, rfl, ha⟩ := sortedAll_1 hs
    obtain ⟨x, rfl, _⟩ := hasSort_bv (ha _ rfl)
    simp only [nodeFrag, decide_eq_true_eq] at hfrag
    have hw' : w = hi - lo + 1 := by omega
    subst hw'
    exact hasSort_bv_of (hi - lo + 1) ((BitVec.ofNat base x).extractLsb' lo (hi - lo + 1))
  case bvRol =>
    obtain ⟨w, k, rfl, rfl, rfl⟩ := typeOfNode_bvRot .bvRol (.inl rfl) ht
    obtain ⟨a, rfl, ha⟩ := sortedAll_1 hs
    exact bv1_hasSort (fun _ x => x.rotateLeft k) (ha _ rfl)
  case bvRor =>
    obtain ⟨w, k, rfl, rfl, rfl⟩ := typeOfNode_bvRot .bvRor (.inr rfl) ht
    obtain ⟨a, rfl, ha⟩ := sortedAll_1 hs
    exact bv1_hasSort (fun _ x => x.rotateRight k) (ha _ rfl)
  case bvZext =>
    obtain ⟨w, ws, a, r, rfl, rfl, rfl⟩ := typeOfNode_bvExt .bvZext (.inl rfl) ht
    obtain ⟨v, r', rfl, hv, _⟩ := sortedAll_cons hs
    obtain ⟨x, rfl, _⟩ := hasSort_bv (hv _ rfl)
    rcases ws with _ | ⟨k, _ | ⟨k', ws'⟩⟩ <;> rcases r' with _ | ⟨b, r''⟩ <;> simp [nodeFrag] at hfrag
    exact hasSort_bv_of w ((BitVec.ofNat a x).setWidth w)
  case bvSext =>
    obtain ⟨w, ws, a, r, rfl, rfl, rfl⟩ := typeOfNode_bvExt .bvSext (.inr rfl) ht
    obtain ⟨v, r', rfl, hv, _⟩ := sortedAll_cons hs
    obtain ⟨x, rfl, _⟩ := hasSort_bv (hv _ rfl)
    rcases ws with _ | ⟨k, _ | ⟨k', ws'⟩⟩ <;> rcases r' with _ | ⟨b, r''⟩ <;> simp [nodeFrag] at hfrag
    exact hasSort_bv_of w ((BitVec.ofNat a x).signExtend w)
  case bvComp =>
    obtain ⟨w, rfl, rfl⟩ := typeOfNode_bvComp ht
    obtain ⟨a, b, rfl, ha, hb'⟩ := sortedAll_2 hs
    obtain ⟨x, rfl, _⟩ := hasSort_bv (ha _ rfl)
    obtain ⟨y, rfl, _⟩ := hasSort_bv (hb' _ rfl)
    show (Sem.bvComp (.bv w x) (.bv w y)).hasSort (.bv 1) = true
    simp only [Sem.bvComp, Val.hasSort]
    split <;> decide
  case bvToNatural =>
    obtain ⟨rfl, w, r, rfl⟩ := typeOfNode_bvToNatural ht
    obtain ⟨v, r', rfl, hv, _⟩ := sortedAll_cons hs
    obtain ⟨x, rfl, _⟩ := hasSort_bv (hv _ rfl)
    rcases r' with _ | ⟨b, r''⟩ <;> simp [nodeFrag] at hfrag
    rfl
  case arraySelect =>
    obtain ⟨i, rfl⟩ := typeOfNode_arraySelect ht
    obtain ⟨a, j, rfl, ha, _⟩ := sortedAll_2 hs
    exact select_hasSort i τ j a (ha _ rfl)
  case arrayStore =>
    obtain ⟨i, e, rfl, rfl⟩ := typeOfNode_arrayStore' ht
    obtain ⟨a, k, v, rfl, ha, hk, hv⟩ := sortedAll_3 hs
    exact store_hasSort i e a k v (ha _ rfl) (hk _ rfl) (hv _ rfl)
  case arrayValue =>
    obtain ⟨idx, d, rest, rfl, rfl, hc, rfl⟩ := typeOfNode_arrayValue' ht
    obtain ⟨dv, r, rfl, hd, hs'⟩ := sortedAll_cons hs
    exact arrayValue_hasSort idx d dv (hd _ rfl) rest r hc hs'

/-- **Sort preservation** (`_partial`: every operator except `pow` and `algebraicConst` — no
semantics in `Core/Eval`; and assuming the arity /
payload shapes of `Term.inFrag`, which the type checker does not enforce but every `FormulaManager`
constructor does): under a well-formed interpretation a well-typed term of type `τ` evaluates to a
value of sort `τ`. -/
theorem eval_hasSort_partial : (t : Term) → ∀ (I : Interp) (τ : Ty), I.WF → t.wt = true → t.inFrag = true →
    t.typeOf = some τ → (eval I t).hasSort τ = true
  | .node op args p => fun I τ hI hwt hfr hty => by
    have hfr' : (∀ a ∈ args, a.inFrag = true) ∧ nodeFrag op p args.length = true := by
      rw [inFrag_node] at hfr
      simp only [Bool.and_eq_true, List.all_eq_true, List.mem_map] at hfr
      exact ⟨fun a ha => hfr.1 _ ⟨a, ha, rfl⟩, hfr.2⟩
    have ih : ∀ a ∈ args, SortedAs (eval I a) a.typeOf := fun a ha τ' h' =>
      eval_hasSort_partial a I τ' hI (Term.wt_child hwt a ha) (hfr'.1 a ha) h'
    rw [typeOf_node] at hty
    by_cases hsym : op = .symbol
    · subst hsym
      obtain ⟨hts, s, rfl, hpar⟩ := typeOfNode_symbol (by rw [hty]; rfl)
      rw [typeOfNode_symbol_eq, hts] at hty
      obtain ⟨_, rfl⟩ := of_ite_some hty
      rw [eval_symbol]; exact hI.sym s
    by_cases hfun : op = .function
    · subst hfun
      rw [typeOfNode_function_eq] at hty
      cases p <;> try (cases hty; done)
      rename_i f
      obtain ⟨_, rfl⟩ := of_ite_some hty
      rw [eval_function]; exact hI.fn f _
    by_cases hq : op.isQuantifier = true
    · cases op <;> simp [Op.isQuantifier] at hq
      · rw [typeOfNode_forall_eq] at hty
        have : τ = .bool := by split at hty <;> simp_all
        subst this
        rw [eval_node, evalNode_forall]
        split <;> rfl
      · rw [typeOfNode_exists_eq] at hty
        have : τ = .bool := by split at hty <;> simp_all
        subst this
        rw [eval_node, evalNode_exists]
        split <;> rfl
    · have hq' : op.isQuantifier = false := by simpa using hq
      rw [eval_plain I op args p hsym hfun hq']
      exact evalOp_hasSort I op p _ _ τ (by simpa using hfr'.2) (sortedAll_map _ _ args ih) hty hsym hfun hq'

/-- corollary: a well-typed Boolean term evaluates to a Boolean -/
theorem eval_bool_partial (t : Term) (I : Interp) (hI : I.WF) (hwt : t.wt = true) (hfr : t.inFrag = true)
    (hty : t.typeOf = some .bool) : ∃ b, eval I t = .b b :=
  hasSort_bool (eval_hasSort_partial t I .bool hI hwt hfr hty)

end PySMT
