import PySMT.Proofs.C17Sem
/-!
# C17, part 6: legality of a call sequence in the user's own terms

`UserLegal` only talks about what the caller of the API knows: the assertion stack he built (`userStep`), the
formula of a preceding `is_sat`, and the results he has seen.  It implies `LegalRun` (which is phrased over the
state of the strict solver), so every theorem that assumes `LegalRun` holds for all user-legal call sequences.
-/
namespace PySMT.SmtSolver
open PySMT.StrictSolver

/-- what the user of the API knows -/
structure UState where
  /-- his assertion stack, innermost level first -/
  stack : List (List Expr)
  /-- the formula of a preceding `is_sat` / `is_valid` / `is_unsat`, still asserted until the next stack command -/
  pending : Option Expr
  /-- the previous call was a check that reported satisfiability (or a value query after one) -/
  sat : Bool
  exited : Bool

def UState.init : UState := ⟨[[]], none, false, false⟩

/-- the assertions a value query is about -/
def UState.live (u : UState) : List Expr := u.pending.toList ++ u.stack.flatten

/-- preconditions of one call, in the user's terms -/
def userLegalCall (U : Universe) (u : UState) : Api → Prop
  | .addAssertion e => ExprOk U e
  | .pop n => n < u.stack.length
  | .getValue e => u.sat = true ∧ (∀ s ∈ e.syms, ∃ f ∈ u.live, s ∈ f.syms) ∧ (∀ d ∈ e.sorts, ∃ f ∈ u.live, d ∈ f.sorts)
  | .getModel => u.sat = true
  | .isSat e => ExprOk U e
  | .isValid e => ExprOk U e
  | .isUnsat e => ExprOk U e
  | _ => True

/-- the user's knowledge after a call that returned `o` -/
def userNext (u : UState) (a : Api) (o : Out) : UState :=
  if u.exited then u else
  match a with
  | .exit => { u with exited := true }
  | .getValue _ => u
  | .getModel => u
  | .solve => { u with pending := none, sat := (o == .bool true) }
  | .isSat e => { u with pending := some e, sat := (o == .bool true) }
  | .isValid e => { u with pending := some e, sat := (o == .bool false) }
  | .isUnsat e => { u with pending := some e, sat := (o == .bool false) }
  | a => { u with stack := userStep u.stack a, pending := none, sat := false }

/-- every call is legal given what the user knew when he made it; `outs` are the results he saw -/
def UserLegal (U : Universe) : UState → List Api → List Out → Prop
  | _, [], _ => True
  | u, a :: as, o :: os => (u.exited = false → userLegalCall U u a) ∧ UserLegal U (userNext u a o) as os
  | _, _ :: _, [] => False

variable {O : Oracle}

theorem live_exprInScope : ∀ (ls : List Level), Scoped ls → ∀ e ∈ live ls, exprInScope ls e = true
  | [], _, e, he => by simp [live] at he
  | l :: r, h, e, he => by
    simp only [live, List.flatMap_cons, List.mem_append] at he
    rcases he with he | he
    · exact h.1 e he
    · have := live_exprInScope r h.2 e (by simpa [live] using he)
      refine exprInScope_mono r (l :: r) e ?_ ?_ this
      · intro s hs; simp only [scopeSyms, List.flatMap_cons, List.mem_append]; exact Or.inr hs
      · intro d hd; simp only [scopeSorts, List.flatMap_cons, List.mem_append]; exact Or.inr hd

/-- the user's knowledge is right about the object -/
structure Link (U : Universe) (w : W O) (u : UState) : Prop where
  exited : u.exited = w.dead
  inv : w.dead = false → Inv U w
  stack : w.dead = false → (clearedLevels w).map (·.asserts) = u.stack
  live : w.dead = false → live (levelsOf w) = u.live
  sat : w.dead = false → u.sat = true → w.chan.solver.1.satMode = true

theorem legalCall_of_user {U : Universe} {w : W O} {u : UState} (hL : Link U w u) (ha : w.dead = false) (a : Api)
    (h : userLegalCall U u a) : LegalCall U w a := by
  have hI := hL.inv ha
  cases a with
  | pop n =>
    show n < (clearedLevels w).length
    have := congrArg List.length (hL.stack ha)
    rw [List.length_map] at this
    rw [this]; exact h
  | getValue e =>
    obtain ⟨hs, hsy, hso⟩ := h
    refine ⟨hL.sat ha hs, ?_⟩
    have hsc := live_exprInScope _ hI.final.scoped
    simp only [exprInScope, Bool.and_eq_true, List.all_eq_true]
    constructor
    · intro s hs'
      obtain ⟨f, hf, hsf⟩ := hsy s hs'
      have := hsc f (by rw [hL.live ha]; exact hf)
      simp only [exprInScope, Bool.and_eq_true, List.all_eq_true] at this
      exact this.1 s hsf
    · intro d hd
      obtain ⟨f, hf, hdf⟩ := hso d hd
      have := hsc f (by rw [hL.live ha]; exact hf)
      simp only [exprInScope, Bool.and_eq_true, List.all_eq_true] at this
      exact this.2 d hdf
  | getModel => exact hL.sat ha h
  | addAssertion e => exact h
  | isSat e => exact h
  | isValid e => exact h
  | isUnsat e => exact h
  | push n => trivial
  | resetAssertions => trivial
  | solve => trivial
  | exit => trivial

theorem live_of_not_pending {w : W O} (h : w.pendingPop = false) :
    live (levelsOf w) = ((clearedLevels w).map (·.asserts)).flatten := by
  rw [clearedLevels_of_not_pending h, live_eq_flatten]

theorem verdictOut_true (v : Verdict) : (verdictOut v == Out.bool true) = (v == Verdict.sat) := by
  cases v <;> rfl

/-- the four stack commands: afterwards nothing is pending, and the user's stack moved with the solver's -/
theorem link_stack_cmd {U : Universe} {w : W O} {u : UState} (hL : Link U w u) (ha : w.dead = false) (a : Api)
    (hl : LegalCall U w a) (hx : a ≠ .exit) (hp : (call a w).1.pendingPop = false) (o : Out)
    (hu : userNext u a o = { u with stack := userStep u.stack a, pending := none, sat := false }) :
    Link U (call a w).1 (userNext u a o) := by
  have hI := hL.inv ha
  have hI' := call_alive hI a hl hx
  have hst := call_user hI a hl hx
  rw [hL.stack ha] at hst
  rw [hu]
  exact {
    exited := by rw [hI'.alive]; show u.exited = false; rw [hL.exited]; exact ha
    inv := fun _ => hI'
    stack := fun _ => hst
    live := fun _ => by rw [live_of_not_pending hp, hst]; rfl
    sat := fun _ h => by cases h }

/-- `is_sat` and its two negated forms -/
theorem link_isSat {U : Universe} {w : W O} {u : UState} (hL : Link U w u) (ha : w.dead = false) (e : Expr)
    (he : ExprOk U e) (a : Api) (hk : a = .isSat e ∨ a = .isValid e ∨ a = .isUnsat e) :
    Link U (call a w).1 (userNext u a (call a w).2) := by
  have hI := hL.inv ha
  have hue : u.exited = false := by rw [hL.exited]; exact ha
  obtain ⟨w3, _, _, a3, _, h, i⟩ := isSat_ok hI e he
  have hlive : live (levelsOf w3) = e :: u.stack.flatten := by
    rw [live_eq_flatten, a3, ← hL.stack ha]; simp [addAssert]
  have hstack : ((levelsOf w3).drop 1).map (·.asserts) = u.stack := by
    rw [List.map_drop, a3, ← hL.stack ha]; rfl
  have hfin : ∀ (b : Bool) (o : Out),
      (b = true → (O.verdict w3.chan.solver.2 w3.chan.solver.1).1 = .sat) →
      Link U ({ checkedState w3 with pendingPop := true } : W O) ⟨u.stack, some e, b, false⟩ := by
    intro b o hb
    exact {
      exited := by rw [i.alive]
      inv := fun _ => i
      stack := fun _ => hstack
      live := fun _ => by show live (levelsOf w3) = _; rw [hlive]; rfl
      sat := fun _ hs => by
        show (next w3.chan.solver.1 _ .checkSat).satMode = true
        simp [next, hb hs] }
  rcases hk with rfl | rfl | rfl
  · simp only [call, h, outOf_fst, userNext, hue, Bool.false_eq_true, if_false]
    refine hfin _ .unit ?_
    intro hb
    cases hv : (O.verdict w3.chan.solver.2 w3.chan.solver.1).1 <;> simp [outOf, verdictResult, hv] at hb ⊢
  · simp only [call, h, outOf_fst, userNext, hue, Bool.false_eq_true, if_false]
    refine hfin _ .unit ?_
    intro hb
    cases hv : (O.verdict w3.chan.solver.2 w3.chan.solver.1).1 <;> simp [outOf, verdictResult, hv] at hb ⊢
  · simp only [call, h, outOf_fst, userNext, hue, Bool.false_eq_true, if_false]
    refine hfin _ .unit ?_
    intro hb
    cases hv : (O.verdict w3.chan.solver.2 w3.chan.solver.1).1 <;> simp [outOf, verdictResult, hv] at hb ⊢

theorem link_call {U : Universe} {w : W O} {u : UState} (hL : Link U w u) (ha : w.dead = false) (a : Api)
    (hl : LegalCall U w a) : Link U (call a w).1 (userNext u a (call a w).2) := by
  have hI := hL.inv ha
  have hue : u.exited = false := by rw [hL.exited]; exact ha
  cases a with
  | addAssertion e =>
    obtain ⟨w', h, _, p, _⟩ := addAssertion_ok hI e hl
    exact link_stack_cmd hL ha _ hl (by simp) (by simp only [call, outOf_fst, h]; exact p) _ (by simp [userNext, hue])
  | push n =>
    obtain ⟨w', h, _, p, _⟩ := push_ok hI n
    exact link_stack_cmd hL ha _ hl (by simp) (by simp only [call, outOf_fst, h]; exact p) _ (by simp [userNext, hue])
  | pop n =>
    obtain ⟨w', h, _, p, _⟩ := pop_ok hI n hl
    exact link_stack_cmd hL ha _ hl (by simp) (by simp only [call, outOf_fst, h]; exact p) _ (by simp [userNext, hue])
  | resetAssertions =>
    obtain ⟨w', h, _, p, _⟩ := resetAssertions_ok hI
    exact link_stack_cmd hL ha _ hl (by simp) (by simp only [call, outOf_fst, h]; exact p) _ (by simp [userNext, hue])
  | solve =>
    obtain ⟨w1, _, _, p1, l1, _, h, i⟩ := solve_ok hI
    have hst := call_user hI .solve hl (by simp)
    rw [hL.stack ha] at hst
    have hcall : (call .solve w) = (checkedState w1, verdictOut (O.verdict w1.chan.solver.2 w1.chan.solver.1).1) := by
      simp only [call, h]
      cases (O.verdict w1.chan.solver.2 w1.chan.solver.1).1 <;> rfl
    rw [hcall] at hst ⊢
    have hpp : (checkedState w1).pendingPop = false := p1
    simp only [userNext, hue, Bool.false_eq_true, if_false]
    exact {
      exited := by rw [i.alive]
      inv := fun _ => i
      stack := fun _ => hst
      live := fun _ => by rw [live_of_not_pending hpp, hst]; rfl
      sat := fun _ hs => by
        simp only [verdictOut_true, beq_iff_eq] at hs
        show (next w1.chan.solver.1 _ .checkSat).satMode = true
        simp [next, hs] }
  | getValue e =>
    obtain ⟨h, i⟩ := getValue_ok hI hl.1 e hl.2
    simp only [call, h, outOf, userNext, hue, Bool.false_eq_true, if_false]
    exact {
      exited := by rw [i.alive]; exact hue
      inv := fun _ => i
      stack := fun _ => hL.stack ha
      live := fun _ => hL.live ha
      sat := fun _ hs => hL.sat ha hs }
  | getModel =>
    obtain ⟨w', h, i, hs, hp, _⟩ := getModel_ok hI hl
    simp only [call, h, outOf, userNext, hue, Bool.false_eq_true, if_false]
    have hlv : levelsOf w' = levelsOf w := by simp only [levelsOf, hs]
    exact {
      exited := by rw [i.alive]; exact hue
      inv := fun _ => i
      stack := fun _ => by rw [← hL.stack ha]; simp only [clearedLevels, hlv, hp]
      live := fun _ => by rw [hlv]; exact hL.live ha
      sat := fun _ hs' => by rw [hs]; exact hL.sat ha hs' }
  | isSat e => exact link_isSat hL ha e hl (.isSat e) (Or.inl rfl)
  | isValid e => exact link_isSat hL ha e hl (.isValid e) (Or.inr (Or.inl rfl))
  | isUnsat e => exact link_isSat hL ha e hl (.isUnsat e) (Or.inr (Or.inr rfl))
  | exit =>
    have hd : (call .exit w).1.dead = true := (exit_ok hI).1
    simp only [userNext, hue, Bool.false_eq_true, if_false]
    exact {
      exited := by rw [hd]
      inv := fun h => by rw [hd] at h; cases h
      stack := fun h => by rw [hd] at h; cases h
      live := fun h => by rw [hd] at h; cases h
      sat := fun h => by rw [hd] at h; cases h }

theorem link_created (U : Universe) (O : Oracle) (logic : String) : Link U (createdState O logic) UState.init where
  exited := rfl
  inv := fun _ => inv_created U O logic
  stack := fun _ => rfl
  live := fun _ => rfl
  sat := fun _ h => by cases h

theorem legalRun_of_userLegal {U : Universe} : ∀ (ops : List Api) (w : W O) (u : UState), Link U w u →
    UserLegal U u ops (runFrom w ops).2 → LegalRun U w ops
  | [], _, _, _, _ => trivial
  | a :: as, w, u, hL, h => by
    have h' : (u.exited = false → userLegalCall U u a) ∧
        UserLegal U (userNext u a (step w a).2) as (runFrom (step w a).1 as).2 := h
    cases hd : w.dead with
    | true =>
      have hue : u.exited = true := by rw [hL.exited]; exact hd
      have hstep : (step w a).1 = w := by simp [step, hd]
      refine ⟨fun hf => (by rw [hd] at hf; cases hf), ?_⟩
      rw [hstep]
      have hu : userNext u a (step w a).2 = u := by simp [userNext, hue]
      rw [hu, hstep] at h'
      exact legalRun_of_userLegal as w u hL h'.2
    | false =>
      have hue : u.exited = false := by rw [hL.exited]; exact hd
      have hstep : step w a = call a w := by simp [step, hd]
      have hl := legalCall_of_user hL hd a (h'.1 hue)
      refine ⟨fun _ => hl, ?_⟩
      rw [hstep] at h' ⊢
      exact legalRun_of_userLegal as _ _ (link_call hL hd a hl) h'.2

/-- a call sequence that is legal in the user's terms (given the results the model returns) is a legal run -/
theorem legalRun_of_userLegal_run (U : Universe) (O : Oracle) (logic : String) (ops : List Api)
    (h : UserLegal U UState.init ops (run (Solver.strict O) logic ops).2) :
    LegalRun U (create (Solver.strict O) logic) ops := by
  unfold run at h
  rw [create_strict] at h ⊢
  exact legalRun_of_userLegal ops _ _ (link_created U O logic) h

end PySMT.SmtSolver
