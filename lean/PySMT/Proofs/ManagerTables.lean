import PySMT.Impl.ManagerTables

namespace PySMT.ManagerTables
set_option linter.unusedSimpArgs false

section
variable {A K : Type} [DecidableEq K]

/-- every cached entry is the node of its own key -/
def CacheOK (c : List (K × K)) : Prop := ∀ k n, c.lookup k = some n → n = k

theorem cacheOK_nil : CacheOK ([] : List (K × K)) := by intro k n h; simp [List.lookup] at h

/-- the result of a constant constructor -- node or type error -- is a function of its argument alone -/
theorem mkConst_indep (validate : A → Option K) (v : A) (c : List (K × K)) (hc : CacheOK c) :
    (mkConst validate v c).1 = (mkConst validate v []).1 ∧ CacheOK (mkConst validate v c).2 := by
  unfold mkConst
  cases hv : validate v with
  | none => exact ⟨rfl, hc⟩
  | some k =>
    simp only []
    cases hl : c.lookup k with
    | some n =>
      have := hc _ _ hl
      subst this
      exact ⟨by simp [List.lookup], hc⟩
    | none =>
      refine ⟨by simp [List.lookup], ?_⟩
      intro k' n h
      simp only [List.lookup] at h
      by_cases hk : k' = k
      · subst hk; simp at h; exact h.symm
      · have : (k' == k) = false := by simp [hk]
        simp [this] at h
        exact hc k' n h

end

section
variable {T : Type} [DecidableEq T]

theorem lookup_runSyms (h : List (String × T)) : ∀ (s : SymTab T) (n : String),
    (runSyms h s).lookup n = match s.lookup n with | some τ => some τ | none => firstType h n := by
  induction h with
  | nil => intro s n; simp only [runSyms, firstType, List.lookup]; cases s.lookup n <;> rfl
  | cons p h ih =>
    obtain ⟨m, τ⟩ := p
    intro s n
    simp only [runSyms]
    rw [ih]
    unfold getOrCreate
    cases hm : s.lookup m with
    | some τ' =>
      have hs : (if τ' = τ then ((Except.ok (m, τ) : Except Unit (String × T)), s) else (Except.error (), s)).2 = s := by
        split <;> rfl
      simp only [hs]
      cases hn : s.lookup n with
      | some t => rfl
      | none =>
        simp only [firstType, List.lookup]
        have : (n == m) = false := by
          cases hnm : (n == m) with
          | false => rfl
          | true => have := eq_of_beq hnm; subst this; rw [hm] at hn; cases hn
        simp [this]
    | none =>
      simp only [List.lookup]
      cases hnm : (n == m) with
      | true =>
        have := eq_of_beq hnm; subst this
        simp only [hm, firstType, List.lookup, beq_self_eq_true]
      | false =>
        simp only [firstType, List.lookup, hnm]

/-- **symbol_after_history**: the outcome of `Symbol(n, τ)` after an arbitrary history of symbol requests: the symbol
    when `n` was never requested or was first requested with type `τ`; `PysmtTypeError` when it was first requested
    with another type.  In a fresh manager it is always the symbol. -/
theorem symbol_after_history (h : List (String × T)) (n : String) (τ : T) :
    (getOrCreate n τ (runSyms h [])).1 =
      (match firstType h n with
       | none => .ok (n, τ)
       | some τ' => if τ' = τ then .ok (n, τ) else .error ()) ∧
    (getOrCreate n τ ([] : SymTab T)).1 = .ok (n, τ) := by
  refine ⟨?_, rfl⟩
  unfold getOrCreate
  rw [lookup_runSyms h [] n]
  simp only [List.lookup]
  cases firstType h n with
  | none => rfl
  | some τ' => simp only []; split <;> rfl

/-- **symbol_history_iff**: ... hence the call is independent of the history exactly when no earlier call bound the
    name to another type. -/
theorem symbol_history_iff (h : List (String × T)) (n : String) (τ : T) :
    (getOrCreate n τ (runSyms h [])).1 = (getOrCreate n τ ([] : SymTab T)).1 ↔
      (firstType h n = none ∨ firstType h n = some τ) := by
  rw [(symbol_after_history h n τ).1, (symbol_after_history h n τ).2]
  cases hf : firstType h n with
  | none => simp
  | some τ' =>
    simp only []
    by_cases ht : τ' = τ
    · simp [ht]
    · simp [ht]

end
end PySMT.ManagerTables
