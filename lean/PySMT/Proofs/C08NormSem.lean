import PySMT.Proofs.C08Agree3
import PySMT.Proofs.SimpSorts
/-!
# C08: the manager's normalisations do not change the meaning

`mkNorm_sem`: for a well-formed term `u`, `mkNorm u` (the term pySMT's constructors build for it: `Not(Not x) = x`,
`ToReal(c) = c`, `Div` by a constant) is well-formed, has the sort of `u` and the value of `u` under every well-formed
interpretation.
-/
namespace PySMT.Parser.Agree
open PySMT PySMT.Parser PySMT.Std

theorem all_congr' {α} {l : List α} {f g : α → Bool} (h : ∀ a ∈ l, f a = g a) : l.all f = l.all g := by
  induction l with
  | nil => rfl
  | cons a l ih => simp only [List.all_cons, h a (by simp), ih (fun x hx => h x (List.mem_cons_of_mem _ hx))]

theorem any_congr' {α} {l : List α} {f g : α → Bool} (h : ∀ a ∈ l, f a = g a) : l.any f = l.any g := by
  induction l with
  | nil => rfl
  | cons a l ih => simp only [List.any_cons, h a (by simp), ih (fun x hx => h x (List.mem_cons_of_mem _ hx))]

theorem quant_congr_wf' (all : Bool) (k k' : Interp → Bool) (hk : ∀ J : Interp, J.WF → k J = k' J) :
    ∀ (vs : List Sym) (I : Interp), I.WF → I.quant all vs k = I.quant all vs k'
  | [], I, hI => hk I hI
  | x :: xs, I, hI => by
    have step : ∀ v ∈ I.dom x.ret, (I.bind x v).quant all xs k = (I.bind x v).quant all xs k' :=
      fun v hv => quant_congr_wf' all k k' hk xs _ (hI.bind x v (hI.dom_sort _ v hv))
    simp only [Interp.quant]
    rw [all_congr' step, any_congr' step]

/-- the invariant of the induction: well-formed, same sort, same value -/
def Same (t' t : Term) : Prop :=
  t'.wf = true ∧ t'.typeOf = t.typeOf ∧ ∀ I : Interp, I.WF → eval I t' = eval I t

theorem Same.refl {t : Term} (h : t.wf = true) : Same t t := ⟨h, rfl, fun _ _ => rfl⟩

theorem Same.trans {a b c : Term} (h1 : Same a b) (h2 : Same b c) : Same a c :=
  ⟨h1.1, h1.2.1.trans h2.2.1, fun I hI => (h1.2.2 I hI).trans (h2.2.2 I hI)⟩

/-- replacing the arguments of a well-formed node by equivalent ones -/
theorem node_same (op : Op) (args : List Term) (p : Payload) (f : Term → Term)
    (hwf : (Term.node op args p).wf = true) (h : ∀ a ∈ args, Same (f a) a) :
    Same (.node op (args.map f) p) (.node op args p) := by
  obtain ⟨hch, hsh, hty⟩ := Term.wf_node.mp hwf
  have htys : (args.map f).map Term.typeOf = args.map Term.typeOf := by
    rw [List.map_map]
    exact List.map_congr_left (fun a ha => (h a ha).2.1)
  have hvals : ∀ I : Interp, I.WF → (args.map f).map (eval I) = args.map (eval I) := by
    intro I hI
    rw [List.map_map]
    exact List.map_congr_left (fun a ha => (h a ha).2.2 I hI)
  refine ⟨?_, ?_, ?_⟩
  · refine Term.wf_node.mpr ⟨?_, by rw [List.length_map]; exact hsh, by rw [htys]; exact hty⟩
    intro t ht
    simp only [List.mem_map] at ht
    obtain ⟨a, ha, rfl⟩ := ht
    exact (h a ha).1
  · rw [typeOf_node, typeOf_node, htys]
  · intro I hI
    by_cases hq : op.isQuantifier = true
    · have hshape : ∃ vs b, p = .qvars vs ∧ args = [b] := by
        cases op <;> simp [Op.isQuantifier] at hq <;>
          (cases p <;> simp [Op.shapeOK] at hsh
           match args, hsh with
           | [b], _ => exact ⟨_, b, rfl, rfl⟩)
      obtain ⟨vs, b, rfl, rfl⟩ := hshape
      have hb := (h b (by simp)).2.2
      cases op <;> simp [Op.isQuantifier] at hq
      · simp only [List.map_cons, List.map_nil, eval_forall]
        congr 1
        exact quant_congr_wf' true _ _ (fun J hJ => by rw [hb J hJ]) vs I hI
      · simp only [List.map_cons, List.map_nil, eval_exists]
        congr 1
        exact quant_congr_wf' false _ _ (fun J hJ => by rw [hb J hJ]) vs I hI
    · have hq' : op.isQuantifier = false := by simpa using hq
      by_cases hs : op = .symbol
      · subst hs
        have : args = [] := by
          cases p <;> simp [Op.shapeOK] at hsh <;> exact hsh
        subst this
        rfl
      · by_cases hf : op = .function
        · subst hf
          cases p with
          | sym s => rw [eval_function, eval_function, hvals I hI]
          | _ => cases hty
        · rw [eval_plain I op _ p hs hf hq', eval_plain I op _ p hs hf hq', hvals I hI]

/-! ## the three normalisations -/

theorem not_arg {a : Term} {p : Payload} (h : (Term.node .not [a] p).wf = true) : a.wf = true ∧ a.typeOf = some .bool := by
  obtain ⟨hch, _, hty⟩ := Term.wf_node.mp h
  refine ⟨hch a (by simp), ?_⟩
  simp only [List.map_cons, List.map_nil] at hty
  cases hat : a.typeOf with
  | none => rw [hat] at hty; cases hty
  | some σ =>
    rw [hat] at hty
    have h2 : (typeOfNode .not p ([σ].map some)).isSome = true := hty
    rw [C03.typeOfNode_eq_tyNode] at h2
    simp only [C03.tyNode, allAre, List.map_cons, List.map_nil, List.all_cons, List.all_nil, Bool.and_true] at h2
    split at h2
    · rename_i h3; simpa using h3
    · cases h2

theorem notNorm_same (a : Term) (hwf : (Term.node .not [a] .none).wf = true) :
    Same (notNorm a) (.node .not [a] .none) := by
  obtain ⟨haw, hat⟩ := not_arg hwf
  by_cases h : ∃ x p, a = .node .not [x] p
  · obtain ⟨x, p, rfl⟩ := h
    obtain ⟨hxw, hxt⟩ := not_arg haw
    have hn : notNorm (.node .not [x] p) = x := by simp [notNorm]
    rw [hn]
    refine ⟨hxw, ?_, ?_⟩
    · rw [hxt, typeOf_node]
      simp only [List.map_cons, List.map_nil, hat]; rfl
    · intro I hI
      obtain ⟨b, hb⟩ := eval_bool_of_wf hxw hxt hI
      rw [eval_plain I .not _ _ (by decide) (by decide) rfl]
      simp only [List.map_cons, List.map_nil]
      rw [eval_plain I .not _ _ (by decide) (by decide) rfl]
      simp only [List.map_cons, List.map_nil, hb]
      cases b <;> rfl
  · have hn : notNorm a = .node .not [a] .none := by
      unfold notNorm
      split
      · exact absurd ⟨_, _, rfl⟩ h
      · rfl
    rw [hn]
    exact Same.refl hwf

theorem toReal_arg {a : Term} {p : Payload} (h : (Term.node .toReal [a] p).wf = true) :
    a.wf = true ∧ a.typeOf = some .int := by
  obtain ⟨hch, _, hty⟩ := Term.wf_node.mp h
  refine ⟨hch a (by simp), ?_⟩
  simp only [List.map_cons, List.map_nil] at hty
  cases hat : a.typeOf with
  | none => rw [hat] at hty; cases hty
  | some σ =>
    rw [hat] at hty
    have h2 : (typeOfNode .toReal p ([σ].map some)).isSome = true := hty
    rw [C03.typeOfNode_eq_tyNode] at h2
    simp only [C03.tyNode, allAre, List.map_cons, List.map_nil, List.all_cons, List.all_nil, Bool.and_true] at h2
    split at h2
    · rename_i h3; simpa using h3
    · cases h2

theorem toRealNorm_same (a : Term) (hwf : (Term.node .toReal [a] .none).wf = true) :
    Same (toRealNorm a) (.node .toReal [a] .none) := by
  obtain ⟨haw, hat⟩ := toReal_arg hwf
  have htr : (Term.node .toReal [a] .none).typeOf = some .real := by
    rw [typeOf_node]; simp only [List.map_cons, List.map_nil, hat]; rfl
  by_cases h : ∃ n, a = .node .intConst [] (.i n)
  · obtain ⟨n, rfl⟩ := h
    have hn : toRealNorm (.node .intConst [] (.i n)) = Term.real n := by simp [toRealNorm]
    rw [hn]
    refine ⟨wf_real _, by rw [typeOf_real, htr], ?_⟩
    intro I _
    rw [eval_plain I .toReal _ _ (by decide) (by decide) rfl, Term.real,
      eval_plain I .realConst _ _ (by decide) (by decide) rfl]
    simp only [List.map_cons, List.map_nil]
    rw [eval_plain I .intConst _ _ (by decide) (by decide) rfl]
    rfl
  · have hn : toRealNorm a = .node .toReal [a] .none := by
      unfold toRealNorm
      split
      · exact absurd ⟨_, rfl⟩ h
      · rfl
    rw [hn]
    exact Same.refl hwf

theorem div_args {a b : Term} {p : Payload} (h : (Term.node .div [a, b] p).wf = true)
    (hr : (Term.node .div [a, b] p).typeOf = some .real) :
    a.wf = true ∧ b.wf = true ∧ a.typeOf = some .real ∧ b.typeOf = some .real := by
  obtain ⟨hch, _, _⟩ := Term.wf_node.mp h
  refine ⟨hch a (by simp), hch b (by simp), ?_⟩
  rw [typeOf_node] at hr
  simp only [List.map_cons, List.map_nil] at hr
  cases hat : a.typeOf with
  | none => rw [hat] at hr; cases hbt : b.typeOf <;> rw [hbt] at hr <;> cases hr
  | some σ =>
    cases hbt : b.typeOf with
    | none => rw [hat, hbt] at hr; cases σ <;> cases hr
    | some σ' =>
      rw [hat, hbt] at hr
      have h2 : typeOfNode .div p ([σ, σ'].map some) = some .real := hr
      rw [C03.typeOfNode_eq_tyNode] at h2
      simp only [C03.tyNode, allAre, List.map_cons, List.map_nil, List.all_cons, List.all_nil, Bool.and_true] at h2
      split at h2
      · rename_i h3
        simp only [Bool.and_eq_true, beq_iff_eq, Option.some.injEq] at h3
        exact ⟨by rw [h3.1], by rw [h3.2]⟩
      · split at h2 <;> cases h2

theorem rat_mul_inv (q c : Rat) : q * (1 / c) = q / c := by
  rw [Rat.div_def, Rat.div_def, Rat.one_mul]

theorem eval_realc (I : Interp) (q : Rat) : eval I (Term.real q) = .r q := by
  rw [Term.real, eval_plain I .realConst _ _ (by decide) (by decide) rfl]; rfl

theorem mkDivNorm_same (a b : Term) (hwf : (Term.node .div [a, b] .none).wf = true)
    (hr : (Term.node .div [a, b] .none).typeOf = some .real) :
    Same (mkDivNorm a b) (.node .div [a, b] .none) := by
  obtain ⟨haw, hbw, hat, hbt⟩ := div_args hwf hr
  by_cases h : ∃ c, b = .node .realConst [] (.q c) ∧ c ≠ 0
  · obtain ⟨c, rfl, hc⟩ := h
    have hn : mkDivNorm a (.node .realConst [] (.q c)) = .node .times [a, Term.real (1 / c)] .none := by
      simp [mkDivNorm, hc]
    rw [hn]
    have hty : typeOfNode .times .none ([a, Term.real (1 / c)].map Term.typeOf) = some .real := by
      simp only [List.map_cons, List.map_nil, hat, typeOf_real]; rfl
    refine ⟨Term.wf_node.mpr ⟨wf2 haw (wf_real _), rfl, by rw [hty]; rfl⟩, by rw [typeOf_node, hty, hr], ?_⟩
    intro I hI
    obtain ⟨q, hq⟩ := eval_real_of_wf haw hat hI
    rw [eval_plain I .times _ _ (by decide) (by decide) rfl, eval_plain I .div _ _ (by decide) (by decide) rfl]
    simp only [List.map_cons, List.map_nil, hq, eval_realc]
    have : eval I (.node .realConst [] (.q c)) = .r c := eval_realc I c
    rw [this]
    show Sem.prod [Val.r q, Val.r (1 / c)] = Sem.div I (Val.r q) (Val.r c)
    simp only [Sem.prod, List.foldl_cons, List.foldl_nil, Sem.mul, Sem.div, hc, if_false, rat_mul_inv]
  · have hn : mkDivNorm a b = .node .div [a, b] .none := by
      unfold mkDivNorm
      split
      · rename_i c
        split
        · rfl
        · rename_i hc; exact absurd ⟨c, rfl, hc⟩ h
      · rfl
    rw [hn]
    exact Same.refl hwf

theorem divNorm_same (a b : Term) (hwf : (Term.node .div [a, b] .none).wf = true)
    (hr : (Term.node .div [a, b] .none).typeOf = some .real) :
    Same (divNorm a b) (.node .div [a, b] .none) := by
  obtain ⟨haw, hbw, hat, hbt⟩ := div_args hwf hr
  unfold divNorm
  by_cases hc : (Mk.isConstant a && Mk.isConstant b) = true
  · simp only [hc, if_true]
    simp only [Bool.and_eq_true] at hc
    obtain ⟨x, rfl⟩ := const_real a ⟨hat, haw, nobw_real⟩ hc.1
    obtain ⟨y, rfl⟩ := const_real b ⟨hbt, hbw, nobw_real⟩ hc.2
    simp only [constNum]
    by_cases hy : y = 0
    · simp only [hy, ne_eq, not_true_eq_false, if_false]
      rw [← hy]; exact mkDivNorm_same _ _ hwf hr
    · simp only [ne_eq, hy, not_false_eq_true, if_true]
      refine ⟨wf_real _, by rw [typeOf_real, hr], ?_⟩
      intro I _
      rw [eval_realc, eval_plain I .div _ _ (by decide) (by decide) rfl]
      simp only [List.map_cons, List.map_nil]
      have h1 : eval I (.node .realConst [] (.q x)) = .r x := eval_realc I x
      have h2 : eval I (.node .realConst [] (.q y)) = .r y := eval_realc I y
      rw [h1, h2]
      show Val.r (x / y) = Sem.div I (Val.r x) (Val.r y)
      simp only [Sem.div, hy, if_false]
  · have hc' : (Mk.isConstant a && Mk.isConstant b) = false := by simpa using hc
    simp only [hc', Bool.false_eq_true, if_false]
    exact mkDivNorm_same _ _ hwf hr

theorem rootNorm_same (op : Op) (args : List Term) (p : Payload) (hwf : (Term.node op args p).wf = true) :
    Same (rootNorm op args p) (.node op args p) := by
  unfold rootNorm
  split
  · exact notNorm_same _ hwf
  · exact toRealNorm_same _ hwf
  · rename_i a b
    split
    · rename_i hat
      have hat' : a.typeOf = some .real := by simpa using hat
      have hr : (Term.node .div [a, b] .none).typeOf = some .real := by
        have hsome := (Term.wf_node.mp hwf).2.2
        rw [typeOf_node]
        simp only [List.map_cons, List.map_nil, hat'] at hsome ⊢
        cases hbt : b.typeOf with
        | none => rw [hbt] at hsome; cases hsome
        | some σ =>
          rw [hbt] at hsome
          have h2 : (typeOfNode .div .none ([Ty.real, σ].map some)).isSome = true := hsome
          show typeOfNode .div .none ([Ty.real, σ].map some) = some .real
          rw [C03.typeOfNode_eq_tyNode] at h2 ⊢
          simp only [C03.tyNode, allAre, List.map_cons, List.map_nil, List.all_cons, List.all_nil, Bool.and_true] at h2 ⊢
          split at h2
          · rename_i h3; simp only [h3, if_true]
          · split at h2
            · rename_i h4; simp at h4
            · cases h2
      exact divNorm_same a b hwf hr
    · exact Same.refl hwf
  · exact Same.refl hwf

/-- **the manager's normal form has the meaning of the term** -/
theorem mkNorm_same : (u : Term) → u.wf = true → Same (mkNorm u) u
  | .node op args p, hwf => by
    have hch := (Term.wf_node.mp hwf).1
    have h1 : Same (.node op (args.map mkNorm) p) (.node op args p) :=
      node_same op args p mkNorm hwf (fun a ha => mkNorm_same a (hch a ha))
    rw [mkNorm_node]
    exact (rootNorm_same op (args.map mkNorm) p h1.1).trans h1

theorem mkNorm_sem (u : Term) (hwf : u.wf = true) :
    (mkNorm u).wf = true ∧ (mkNorm u).typeOf = u.typeOf ∧ ∀ I : Interp, I.WF → eval I (mkNorm u) = eval I u :=
  mkNorm_same u hwf

end PySMT.Parser.Agree
