import PySMT.Proofs.C09Frag2
/-!
# C09: the printed form of a node lies in the fragment, given that the printed arguments do — node kinds one by one
-/
namespace PySMT.Parser.Agree
open PySMT PySMT.Parser PySMT.Std PySMT.Sexp PySMT.Printer

theorem minusOK_len2 (f : String) : ∀ (as : List Sexp), as.length = 2 → minusOK f as = true
  | [_, _], _ => rfl

theorem FragS_quoteAtom (env : SEnv) (ρ : List (String × Sym)) (n : String) : FragS env ρ (quoteAtom n) = true := by
  unfold quoteAtom atomOfText
  split <;> exact FragS_atom env ρ _

theorem FragS_natAtom (env : SEnv) (ρ : List (String × Sym)) (k : Nat) : FragS env ρ (natAtom k) = true :=
  FragS_atom env ρ _

theorem FragS_decAtom (env : SEnv) (ρ : List (String × Sym)) (k : Nat) : FragS env ρ (decAtom k) = true :=
  FragS_atom env ρ _

section
variable (sp : Spell) (hsp : SpellStd sp) (env : SEnv) (ρ : List (String × Sym)) (srt : Bool) (toS : Term → Sexp)
include hsp

/-- the operators printed `(f args…)` -/
theorem fragS_plain (op : Op) (f : String) (h : plainName op = some f) (args : List Term) (p : Payload) (τ : Ty)
    (hargs : ∀ a ∈ args, FragS env ρ (toS a) = true) (hS : stdTy op p (args.map tyD) = some τ) :
    FragS env ρ (nodeSexp sp srt op p args (args.map toS)) = true := by
  obtain ⟨hspell, hf⟩ := plain_spell op f h
  obtain ⟨har, hm⟩ := plain_arity op f h p _ τ hS
  rw [plain_nodeSexp sp srt op f h, spell sp hsp _ _ hspell]
  simp only [List.length_map] at har hm
  apply FragS_op env ρ f hf _ (by simpa using har) _ (FragL_map env ρ toS args hargs)
  rcases hm with hm | hm
  · exact minusOK_ne f hm _
  · exact minusOK_len2 f _ (by simpa using hm)

/-- Int constants: a numeral, or `(- numeral)` -/
theorem fragS_intSexp (n : Int) : FragS env ρ (intSexp sp n) = true := by
  unfold intSexp
  split
  · rw [spell sp hsp "walk_int_constant" "-" (by decide)]
    apply FragS_op env ρ "-" (by decide)
    · show arityOK "-" 1 = true
      decide
    · simp only [minusOK, bne_self_eq_false, Bool.false_or]
      simp only [natAtom, minusArgOK]
      exact isNumLit_natAtom _
    · rw [FragL_cons_eq, FragS_natAtom, FragL_nil]; rfl
  · exact FragS_natAtom env ρ _

/-- Real constants: a decimal, a quotient of decimals, or the negation of one of these -/
theorem fragS_realSexp (q : Rat) : FragS env ρ (realSexp sp q) = true := by
  have hdiv : FragS env ρ (.list [.atom "/", decAtom q.num.natAbs, decAtom q.den]) = true := by
    apply FragS_op env ρ "/" (by decide)
    · show arityOK "/" 2 = true
      decide
    · rfl
    rw [FragL_cons_eq, FragL_cons_eq, FragS_decAtom, FragS_decAtom, FragL_nil]; rfl
  have hbody : ∀ body : Sexp, body = (if q.den != 1 then Sexp.list [.atom (sp "walk_real_constant:1"),
      decAtom q.num.natAbs, decAtom q.den] else decAtom q.num.natAbs) →
      FragS env ρ body = true ∧ minusArgOK body = true := by
    intro body hb
    subst hb
    split
    · rw [spell sp hsp "walk_real_constant:1" "/" (by decide)]
      refine ⟨hdiv, ?_⟩
      simp only [minusArgOK, beq_self_eq_true, Bool.true_and, Bool.and_eq_true]
      exact ⟨isNumLit_decAtom _, isNonzeroLit_decAtom _ q.den_nz⟩
    · refine ⟨FragS_decAtom env ρ _, ?_⟩
      simp only [decAtom, minusArgOK]
      exact isNumLit_decAtom _
  simp only [realSexp]
  generalize hB : (if q.den != 1 then Sexp.list [.atom (sp "walk_real_constant:1"),
      decAtom q.num.natAbs, decAtom q.den] else decAtom q.num.natAbs) = body
  obtain ⟨h1, h2⟩ := hbody body hB.symm
  split
  · rw [spell sp hsp "walk_real_constant:0" "-" (by decide)]
    apply FragS_op env ρ "-" (by decide)
    · show arityOK "-" 1 = true
      decide
    · simp only [minusOK, bne_self_eq_false, Bool.false_or]
      exact h2
    · rw [FragL_cons_eq, h1, FragL_nil]; rfl
  · exact h1

omit hsp in
/-- `((_ extract i j) t)`, `((_ zero_extend k) t)`, `((_ sign_extend k) t)` -/
theorem fragS_indexed2 (i j : Nat) (as : List Sexp) (hl : FragL env ρ as = true) :
    FragS env ρ (indexed "extract" [i, j] as) = true := by
  simp only [indexed, List.map_cons, List.map_nil, natAtom]
  exact FragS_head env ρ _ _ (by simp [fragHead]) hl

omit hsp in
theorem fragS_indexed1 (f : String) (hf : f = "zero_extend" ∨ f = "sign_extend") (k : Nat) (as : List Sexp)
    (hl : FragL env ρ as = true) : FragS env ρ (indexed f [k] as) = true := by
  simp only [indexed, List.map_cons, List.map_nil, natAtom]
  apply FragS_head env ρ _ _ _ hl
  rcases hf with rfl | rfl <;> simp [fragHead]

omit hsp in
theorem fragS_indexedRot (f : String) (hf : f = "rotate_left" ∨ f = "rotate_right") (k : Nat) (as : List Sexp)
    (hl : FragL env ρ as = true) : FragS env ρ (indexed f [k] as) = true := by
  simp only [indexed, List.map_cons, List.map_nil, natAtom]
  apply FragS_head env ρ _ _ _ hl
  rcases hf with rfl | rfl <;> simp [fragHead]

omit hsp in
/-- an application of a declared function -/
theorem fragS_function (f : Sym) (hfine : nameFine f.name = true) (as : List Sexp) (hl : FragL env ρ as = true) :
    FragS env ρ (.list (quoteAtom f.name :: as)) = true := by
  simp only [nameFine, Bool.and_eq_true, Bool.not_eq_true'] at hfine
  obtain ⟨⟨hch, hr⟩, hth⟩ := hfine
  obtain ⟨tok, htok, hsn⟩ := symTok f.name hch hr
  rw [htok]
  exact FragS_user env ρ tok f.name hsn hth as hl

end

end PySMT.Parser.Agree
