import PySMT.Impl.Model
import PySMT.Proofs.SimpMain
/-!
# What C01 gives for C02: soundness of `getValue` (Impl/Model.lean)

For quantifier-free formulas of the simplifier's fragment and assignments of scalar
constants to symbols: if `getValue` returns a term, that term has the value of the formula
under **every** well-formed interpretation that extends the (completed) assignment and
evaluates no division by zero.
-/
namespace PySMT.Model
open PySMT PySMT.Simp PySMT.Simplifier

/-- quantifier-free -/
def qf : Term → Bool
  | .node op args _ => !op.isQuantifier && (args.map qf).all id

theorem qf_node {op args p} (h : qf (.node op args p) = true) :
    op.isQuantifier = false ∧ ∀ a ∈ args, qf a = true := by
  rw [qf] at h
  simp only [Bool.and_eq_true, Bool.not_eq_true', List.all_eq_true, List.mem_map, id] at h
  exact ⟨h.1, fun a ha => h.2 _ ⟨a, ha, rfl⟩⟩

/-- every assigned term is a well-formed scalar constant of the symbol's sort -/
def AsgOK (σ : Asg) : Prop :=
  ∀ s c, σ.get s = some c → c.wf = true ∧ c.typeOf = some s.ret ∧ c.op.isConstant = true

/-- `I` gives every assigned symbol the value of its constant -/
def Extends (I : Interp) (σ : Asg) : Prop := ∀ s c, σ.get s = some c → eval I c = I.sym s

/-- facts about a well-formed scalar constant -/
theorem const_facts (c : Term) (hwf : c.wf = true) (hc : c.op.isConstant = true) :
    inFrag c = true ∧ qf c = true ∧ ∀ I : Interp, div0 I c = false := by
  cases c with
  | node op args p =>
    simp only [Term.op] at hc
    have hs := wf_shape hwf
    have hargs : args = [] := by
      cases op <;> simp [Op.isConstant] at hc <;> cases p <;>
        first
        | cases hs
        | (cases args with
           | nil => rfl
           | cons a r => cases hs)
    subst hargs
    refine ⟨?_, ?_, fun I => ?_⟩
    · rw [inFrag, inFragWith]
      cases op <;> simp [Op.isConstant] at hc <;> first | rfl | (exfalso; cases p <;> cases hs)
    · rw [qf]; cases op <;> simp [Op.isConstant] at hc <;> rfl
    · rw [div0_node]
      cases op <;> simp [Op.isConstant] at hc <;> rfl

/-- congruence in the arguments of a non-binding node, at one interpretation -/
theorem node_congr_plain (op : Op) (args : List Term) (p : Payload) (f : Term → Term)
    (hwf : (Term.node op args p).wf = true) (hq : op.isQuantifier = false)
    (I : Interp) (hd : div0 I (.node op args p) = false)
    (h : ∀ a ∈ args, div0 I a = false → eval I (f a) = eval I a ∧ div0 I (f a) = false) :
    eval I (.node op (args.map f) p) = eval I (.node op args p) ∧
      div0 I (.node op (args.map f) p) = false := by
  have hargs := div0_args_false I op args p hq hd
  have hev : (args.map f).map (eval I) = args.map (eval I) := by
    rw [List.map_map]
    exact List.map_congr_left (fun a ha => (h a ha (hargs a ha)).1)
  have hdv : (args.map f).map (div0 I) = args.map (div0 I) := by
    rw [List.map_map]
    apply List.map_congr_left
    intro a ha
    simp only [Function.comp]
    rw [(h a ha (hargs a ha)).2, hargs a ha]
  constructor
  · by_cases hsym : op = .symbol
    · subst hsym
      rw [eval_node, eval_node, evalNode_symbol, evalNode_symbol]
    · by_cases hfn : op = .function
      · subst hfn
        rw [eval_node, eval_node, evalNode_function, evalNode_function]
        cases p <;> try rfl
        simp only [List.map_map]
        congr 1
        simpa [List.map_map] using hev
      · rw [eval_plain I op _ p hsym hfn hq, eval_plain I op _ p hsym hfn hq, hev]
  · by_cases hdiv : op = .div
    · subst hdiv
      have hs := wf_shape hwf
      simp only [Op.shapeOK, beq_iff_eq] at hs
      match args, hs, hd, hev, hdv with
      | [a, b], _, hd, hev, hdv =>
        simp only [List.map_cons, List.map_nil, List.cons.injEq, and_true] at hev hdv
        rw [div0_div] at hd
        simp only [List.map_cons, List.map_nil]
        rw [div0_div, hev.2, hdv.1, hdv.2]
        exact hd
    · rw [div0_plain I op _ p hq hdiv]
      rw [div0_plain I op _ p hq hdiv] at hd
      have e : ∀ l : List Term, l.any (fun a => div0 I a) = (l.map (div0 I)).any id := by
        intro l; simp [List.any_map]
      rw [e, hdv, ← e]; exact hd

theorem substConst_symbol (σ : Asg) (s : Sym) (args : List Term) :
    substConst σ (.node .symbol args (.sym s)) = (σ.get s).getD (.node .symbol args (.sym s)) := by
  rw [substConst]

theorem substConst_other (σ : Asg) (op : Op) (args : List Term) (p : Payload)
    (h : op ≠ .symbol) : substConst σ (.node op args p) = .node op (args.map (substConst σ)) p := by
  rw [substConst]
  · intro s hs _; exact h hs

/-- substitution of constants: type, well-formedness, fragment, and — under every interpretation
that extends the assignment — value and proviso are preserved -/
theorem substConst_spec (σ : Asg) (hσ : AsgOK σ) : (t : Term) → t.wf = true → qf t = true → inFrag t = true →
    ∀ τ, t.typeOf = some τ →
      ((substConst σ t).wf = true ∧ (substConst σ t).typeOf = some τ ∧ inFrag (substConst σ t) = true) ∧
      ∀ I : Interp, Extends I σ → div0 I t = false →
        eval I (substConst σ t) = eval I t ∧ div0 I (substConst σ t) = false
  | .node op args p => fun hwf hqf hfr τ hty => by
    obtain ⟨hq, hqa⟩ := qf_node hqf
    obtain ⟨⟨e, he, hg⟩, hfa⟩ := inFragWith_node hfr
    by_cases hsym : op = .symbol
    · subst hsym
      -- a well-formed symbol node: payload `.sym s`, no arguments
      have hp : ∃ s, p = .sym s := by
        have := wf_tyNode hwf
        cases p <;> first | exact ⟨_, rfl⟩ | (exfalso; revert this; rw [typeOfNode_symbol_eq]; simp)
      obtain ⟨s, rfl⟩ := hp
      have hargs : args = [] := by
        have hs := wf_shape hwf
        cases args with
        | nil => rfl
        | cons a r => cases hs
      subst hargs
      rw [substConst_symbol]
      cases hget : σ.get s with
      | none => exact ⟨⟨hwf, hty, hfr⟩, fun I _ hd => ⟨rfl, hd⟩⟩
      | some c =>
        obtain ⟨cw, cty, cc⟩ := hσ s c hget
        obtain ⟨cfr, _, cd⟩ := const_facts c cw cc
        have hτ : s.ret = τ := by
          rw [typeOf_node] at hty
          change (if s.params.isEmpty then some s.ret else none) = some τ at hty
          split at hty
          · exact Option.some.inj hty
          · cases hty
        simp only [Option.getD_some]
        refine ⟨⟨cw, by rw [cty, hτ], cfr⟩, fun I hext _ => ⟨?_, cd I⟩⟩
        rw [hext s c hget, eval_symbol]
    · rw [substConst_other σ op args p hsym]
      have ih : ∀ a ∈ args, ((substConst σ a).wf = true ∧ (substConst σ a).typeOf = a.typeOf ∧
          inFrag (substConst σ a) = true) ∧
          ∀ I : Interp, Extends I σ → div0 I a = false →
            eval I (substConst σ a) = eval I a ∧ div0 I (substConst σ a) = false := by
        intro a ha
        obtain ⟨σa, hσa⟩ := wf_typeOf a (wf_args hwf a ha)
        have := substConst_spec σ hσ a (wf_args hwf a ha) (hqa a ha) (hfa a ha) σa hσa
        rw [hσa]; exact this
      have htys : (args.map (substConst σ)).map Term.typeOf = args.map Term.typeOf := by
        rw [List.map_map]
        exact List.map_congr_left (fun a ha => (ih a ha).1.2.1)
      have hty' : (Term.node op (args.map (substConst σ)) p).typeOf = some τ := by
        rw [typeOf_node, htys, ← typeOf_node]; exact hty
      have hwf' : (Term.node op (args.map (substConst σ)) p).wf = true := by
        refine wf_mk' ?_ ?_ hty'
        · intro a' ha'
          obtain ⟨a, ha, rfl⟩ := List.mem_map.mp ha'
          exact (ih a ha).1.1
        · rw [List.length_map]; exact wf_shape hwf
      refine ⟨⟨hwf', hty', ?_⟩, fun I hext hd => ?_⟩
      · rw [inFrag, inFragWith, he, htys]
        simp only [hg, Bool.true_and, List.all_eq_true, List.mem_map, id]
        rintro _ ⟨a', ⟨a, ha, rfl⟩, rfl⟩
        exact (ih a ha).1.2.2
      · exact node_congr_plain op args p (substConst σ) hwf hq I hd (fun a ha hda => (ih a ha).2 I hext hda)

/-- **`get_value` without completion is sound**: if it returns `c`, then `c` is a constant and
under every well-formed interpretation extending the assignment (and evaluating no division by
zero in `f`) the value of `f` is the value of `c` -/
theorem getValue_sound_aux (σ : Asg) (hσ : AsgOK σ) (f : Term) (τ : Ty) (hwf : f.wf = true) (hqf : qf f = true)
    (hfr : inFrag f = true) (hty : f.typeOf = some τ) (c : Term)
    (h : (let r := simp (substConst σ f); if Build.isConstant r then some r else none) = some c) :
    Build.isConstant c = true ∧ c.typeOf = some τ ∧
      ∀ I : Interp, I.WF → Extends I σ → div0 I f = false → eval I f = eval I c := by
  simp only at h
  split at h
  · next hc =>
    cases h
    obtain ⟨⟨sw, sty, sfr⟩, hs⟩ := substConst_spec σ hσ f hwf hqf hfr τ hty
    have hsp := simp_spec _ sw sfr τ sty
    refine ⟨hc, hsp.1.1, fun I hI hext hd => ?_⟩
    obtain ⟨e1, d1⟩ := hs I hext hd
    rw [(hsp.2.1 I hI d1).1, e1]
  · cases h

end PySMT.Model

namespace PySMT.Model
open PySMT PySMT.Simp PySMT.Simplifier

theorem get_append (σ : Asg) (s : Sym) (d : Term) (x : Sym) :
    Asg.get (σ ++ [(s, d)]) x = match Asg.get σ x with
      | some c => some c
      | none => if s = x then some d else none := by
  induction σ with
  | nil => simp [Asg.get]
  | cons kv rest ih =>
    obtain ⟨k, v⟩ := kv
    simp only [List.cons_append, Asg.get]
    split
    · rfl
    · exact ih

theorem defaultOf_ok {τ : Ty} {d : Term} (h : defaultOf τ = some d) :
    d.wf = true ∧ d.typeOf = some τ ∧ d.op.isConstant = true := by
  cases τ <;> simp [defaultOf] at h <;> subst h
  · exact ⟨wf_bool _, typeOf_bool _, rfl⟩
  · exact ⟨wf_int _, typeOf_int _, rfl⟩
  · exact ⟨wf_real _, typeOf_real _, rfl⟩
  · next w =>
    have hty : (Term.bvc 0 w).typeOf = some (.bv w) := by rw [Term.bvc, typeOf_node]; rfl
    refine ⟨wf_mk' (by simp) ?_ hty, hty, rfl⟩
    show (([] : List Term).length == 0 && decide (0 < 2 ^ w)) = true
    simp

/-- completion keeps the given values and adds well-formed default constants -/
theorem complete_ok : ∀ (syms : List Sym) (σ σ' : Asg), AsgOK σ → complete σ syms = some σ' →
    AsgOK σ' ∧ ∀ s c, σ.get s = some c → σ'.get s = some c
  | [], σ, σ', h, hc => by
    simp only [complete, Option.some.injEq] at hc
    subst hc
    exact ⟨h, fun _ _ hg => hg⟩
  | s :: rest, σ, σ', h, hc => by
    rw [complete] at hc
    cases hg : σ.get s with
    | some c =>
      rw [hg] at hc
      exact complete_ok rest σ σ' h hc
    | none =>
      rw [hg] at hc
      simp only at hc
      split at hc
      · next hp =>
        cases hd : defaultOf s.ret with
        | none => rw [hd] at hc; cases hc
        | some d =>
          rw [hd] at hc
          simp only at hc
          have hok : AsgOK (σ ++ [(s, d)]) := by
            intro x c hx
            rw [get_append] at hx
            cases hσx : σ.get x with
            | some c' => rw [hσx] at hx; simp only [Option.some.injEq] at hx; subst hx; exact h x c' hσx
            | none =>
              rw [hσx] at hx
              simp only at hx
              split at hx
              · next hsx => subst hsx; cases hx; exact defaultOf_ok hd
              · cases hx
          obtain ⟨h1, h2⟩ := complete_ok rest (σ ++ [(s, d)]) σ' hok hc
          refine ⟨h1, fun x c hx => h2 x c ?_⟩
          rw [get_append, hx]
      · cases hc

end PySMT.Model
