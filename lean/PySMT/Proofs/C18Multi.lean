import PySMT.Proofs.C18Optimize
import PySMT.Spec.Opt
/-!
# C18, part 4: `boxed_optimize` and `lexicographic_optimize`
-/
namespace PySMT.Opt
open PySMT.OptSpec

def sense : Dir → Sense
  | .min => .min
  | .max => .max

theorem sense_le (g : Goal) (a b : Int) : (sense g.dir).le a b ↔ sg g a ≤ sg g b := by
  unfold sense Sense.le sg; cases g.dir <;> simp <;> omega

theorem sense_lt (g : Goal) (a b : Int) : (sense g.dir).lt a b ↔ sg g a < sg g b := by
  unfold sense Sense.lt sg; cases g.dir <;> simp <;> omega

/-- the objectives of a goal list in the vocabulary of the specification -/
def specGoals {M : Type} (obj : Nat → M → Int) (goals : List (Nat × Goal)) : List (Sense × (M → Int)) :=
  goals.map (fun p => (sense p.2.dir, obj p.1))

/-- pointwise relation between two lists of the same length -/
inductive All2 {α β : Type} (R : α → β → Prop) : List α → List β → Prop
  | nil : All2 R [] []
  | cons {a : α} {b : β} {as : List α} {bs : List β} : R a b → All2 R as bs → All2 R (a :: as) (b :: bs)

theorem effExtra_nil (mx : Mixin) : effExtra mx [] = [] := by cases mx <;> rfl

section
variable {M : Type} {A : M → Prop} {val : Nat → M → Val} {obj : Nat → M → Int} {o : Oracle M}

/-- hypotheses on a goal list: every goal is in the comparison table and its values are
    representable in its sort -/
def GoalsOk (A : M → Prop) (val : Nat → M → Val) (obj : Nat → M → Int) (goals : List (Nat × Goal)) : Prop :=
  ∀ p ∈ goals, p.2.supported = true ∧ GoalReads A val obj p.2 p.1

/-! ## boxed -/

def BoxedPost (A : M → Prop) (val : Nat → M → Val) (obj : Nat → M → Int) (goals : List (Nat × Goal)) (s : Solver M)
    (r : Outcome (Option (List (Nat × M × Int))) × Solver M) : Prop :=
  r.1 = .fuel ∨
  ∃ res, r.1 = .done res ∧ r.2.stack = s.stack ∧ r.2.marks = s.marks ∧ r.2.bad = s.bad ∧
    (res = none ↔ goals ≠ [] ∧ ¬ ∃ m, Feas A val s.stack [] m) ∧
    ∀ l, res = some l →
      All2 (fun (p : Nat × Goal) (q : Nat × M × Int) =>
        q.1 = p.1 ∧ Feas A val s.stack [] q.2.1 ∧ q.2.2 = obj p.1 q.2.1 ∧
        IsOptimum (sense p.2.dir) (Feas A val s.stack []) (obj p.1) q.2.2) goals l

theorem boxed_spec (hO : OracleSpec A val o) (mx : Mixin) (strat : Strat) (fuel : Nat) :
    ∀ (goals : List (Nat × Goal)) (s : Solver M), GoalsOk A val obj goals →
      BoxedPost A val obj goals s (boxed o obj mx strat fuel goals s) := by
  intro goals
  induction goals with
  | nil =>
    intro s _
    right
    exact ⟨some [], rfl, rfl, rfl, rfl, by simp, fun l h => by cases h; exact All2.nil⟩
  | cons p rest ih =>
    intro s hok
    obtain ⟨gi, g⟩ := p
    have hp := hok (gi, g) (by simp)
    have hspec := optimize_spec (gi := gi) hO hp.1 hp.2 mx strat [] fuel s
    rw [effExtra_nil] at hspec
    unfold boxed
    cases hr : optimize o obj mx strat g gi [] fuel s with
    | mk out s1 =>
    rw [hr] at hspec
    rcases hspec with hfu | ⟨res, hres, e1, e2, e3, hnone, hsome⟩
    · left; simp only at hfu; subst hfu; rfl
    · simp only at hres e1 e2 e3
      subst hres
      cases res with
      | none =>
        right
        refine ⟨none, rfl, e1, e2, e3, ?_, fun l h => by cases h⟩
        simp only [true_iff]
        exact ⟨by simp, hnone.1 rfl⟩
      | some mc =>
        obtain ⟨m, c⟩ := mc
        obtain ⟨hfm, hc, hopt⟩ := hsome m c rfl
        have ih' := ih s1 (fun q hq => hok q (by simp [hq]))
        simp only
        cases hr2 : boxed o obj mx strat fuel rest s1 with
        | mk out2 s2 =>
        rw [hr2] at ih'
        rcases ih' with hfu | ⟨res2, hres2, f1, f2, f3, hnone2, hsome2⟩
        · left; simp only at hfu; subst hfu; rfl
        · simp only at hres2 f1 f2 f3
          subst hres2
          right
          rw [e1] at hnone2 hsome2
          cases res2 with
          | none =>
            exact absurd ⟨m, hfm⟩ (hnone2.1 rfl).2
          | some l =>
            refine ⟨some ((gi, m, c) :: l), rfl, by rw [f1, e1], by rw [f2, e2], by rw [f3, e3], ?_, ?_⟩
            · constructor
              · intro h; cases h
              · intro h; exact absurd ⟨m, hfm⟩ h.2
            · intro l' h
              cases h
              refine All2.cons ⟨rfl, hfm, hc, ⟨m, hfm, hc.symm⟩, ?_⟩ (hsome2 l rfl)
              intro m' hm'
              exact (sense_le g _ _).2 (hopt m' hm')

/-! ## lexicographic -/

theorem addAll_props (s : Solver M) (cs : List Constraint) :
    (s.addAll cs).stack = s.stack ++ cs ∧ (s.addAll cs).marks = s.marks ∧ (s.addAll cs).bad = s.bad := by
  unfold Solver.addAll
  induction cs generalizing s with
  | nil => simp
  | cons c cs ih =>
    simp only [List.foldl]
    obtain ⟨h1, h2, h3⟩ := ih (s.add c)
    refine ⟨by rw [h1]; simp [Solver.add], by rw [h2]; rfl, by rw [h3]; rfl⟩

theorem Feas_append (base cd : List Constraint) (m : M) :
    Feas A val (base ++ cd) [] m ↔ Feas A val base cd m := by
  unfold Feas
  constructor
  · rintro ⟨h1, h2, _⟩
    exact ⟨h1, fun c hc => h2 c (by simp [hc]), fun c hc => h2 c (by simp [hc])⟩
  · rintro ⟨h1, h2, h3⟩
    refine ⟨h1, ?_, by simp⟩
    intro c hc
    rcases List.mem_append.1 hc with hc | hc
    · exact h2 c hc
    · exact h3 c hc

/-- `_lexicographic_opt` of either mix-in optimises the goal over the models that keep the earlier
    optima (`cd`) and leaves the solver as it was -/
theorem lexStep_spec (hO : OracleSpec A val o) {g : Goal} {gi : Nat} (hsup : g.supported = true)
    (hG : GoalReads A val obj g gi)
    (mx : Mixin) (strat : Strat) (cd : List Constraint) (fuel : Nat) (s : Solver M) :
    OptPost A val obj g gi cd s (lexStep o obj mx strat g gi cd fuel s) := by
  cases mx with
  | sua => exact optimize_spec hO hsup hG .sua strat cd fuel s
  | incr =>
    obtain ⟨a1, a2, a3⟩ := addAll_props s.push cd
    have hspec := optimize_spec (gi := gi) hO hsup hG .incr strat [] fuel (s.push.addAll cd)
    unfold lexStep
    simp only
    cases hr : optimize o obj .incr strat g gi [] fuel (s.push.addAll cd) with
    | mk out s1 =>
    rw [hr] at hspec
    rcases hspec with hfu | ⟨res, hres, e1, e2, e3, hnone, hsome⟩
    · left; exact hfu
    · right
      simp only at hres e1 e2 e3
      simp only [effExtra] at hnone hsome
      have hst : (s.push.addAll cd).stack = s.stack ++ cd := by rw [a1]; rfl
      have hmk : s1.marks = s.stack.length :: s.marks := by rw [e2, a2]; rfl
      have hbd : s1.bad = s.bad := by rw [e3, a3]; rfl
      rw [hst] at hnone hsome e1
      refine ⟨res, hres, ?_, ?_, ?_, ?_, ?_⟩
      · simp only [Solver.pop, hmk, e1]; exact take_length_append _ _
      · simp only [Solver.pop, hmk]
      · simp only [Solver.pop, hmk]; exact hbd
      · rw [hnone]
        constructor
        · rintro h ⟨m, hm⟩; exact h ⟨m, (Feas_append _ _ m).2 hm⟩
        · rintro h ⟨m, hm⟩; exact h ⟨m, (Feas_append _ _ m).1 hm⟩
      · intro m c h
        obtain ⟨h1, h2, h3⟩ := hsome m c h
        exact ⟨(Feas_append _ _ m).1 h1, h2, fun m' hm' => h3 m' ((Feas_append _ _ m').2 hm')⟩

theorem IsOptimum_congr {d : Sense} {S S' : M → Prop} (h : ∀ m, S m ↔ S' m) (f : M → Int) (c : Int) :
    IsOptimum d S f c ↔ IsOptimum d S' f c := by
  unfold IsOptimum
  constructor
  · rintro ⟨⟨m, h1, h2⟩, h3⟩
    exact ⟨⟨m, (h m).1 h1, h2⟩, fun m' hm' => h3 m' ((h m').2 hm')⟩
  · rintro ⟨⟨m, h1, h2⟩, h3⟩
    exact ⟨⟨m, (h m).2 h1, h2⟩, fun m' hm' => h3 m' ((h m').1 hm')⟩

theorem IsLexOptimum_congr (gs : List (Sense × (M → Int))) :
    ∀ (S S' : M → Prop) (_ : ∀ m, S m ↔ S' m) (cs : List Int), IsLexOptimum gs S cs ↔ IsLexOptimum gs S' cs := by
  induction gs with
  | nil => intro S S' _ cs; simp [IsLexOptimum]
  | cons p gs ih =>
    intro S S' h cs
    obtain ⟨d, f⟩ := p
    cases cs with
    | nil => simp [IsLexOptimum]
    | cons c cs =>
      simp only [IsLexOptimum]
      rw [IsOptimum_congr h f c]
      rw [ih (fun m => S m ∧ f m = c) (fun m => S' m ∧ f m = c) (fun m => by rw [h m]) cs]

theorem Feas_snoc_eq {g : Goal} {gi : Nat} (hG : GoalReads A val obj g gi) (base cd : List Constraint)
    (v : Int) (m : M) :
    Feas A val base (cd ++ [.eq gi g.dom v]) m ↔ (Feas A val base cd m ∧ obj gi m = v) := by
  unfold Feas
  constructor
  · rintro ⟨h1, h2, h3⟩
    refine ⟨⟨h1, h2, fun c hc => h3 c (by simp [hc])⟩, ?_⟩
    have := h3 (.eq gi g.dom v) (by simp)
    rw [(hG m h1).2]
    simpa [Constraint.holds] using this
  · rintro ⟨⟨h1, h2, h3⟩, h4⟩
    refine ⟨h1, h2, ?_⟩
    intro c hc
    rcases List.mem_append.1 hc with hc | hc
    · exact h3 c hc
    · have : c = .eq gi g.dom v := by simpa using hc
      subst this
      rw [(hG m h1).2] at h4
      simp [Constraint.holds, h4]

def LexPost (A : M → Prop) (val : Nat → M → Val) (obj : Nat → M → Int) (goals : List (Nat × Goal)) (base cd : List Constraint)
    (marks0 : List Nat) (bad0 : Bool) (vals : List Int)
    (r : Outcome (Option (M × List Int)) × Solver M) : Prop :=
  r.1 = .fuel ∨
  ∃ res, r.1 = .done res ∧ r.2.stack = base ∧ r.2.marks = marks0 ∧ r.2.bad = bad0 ∧
    (res = none ↔ ¬ ∃ m, Feas A val base cd m) ∧
    ∀ m vs, res = some (m, vs) →
      Feas A val base cd m ∧ ∃ vs', vs = vals ++ vs' ∧ vs' = goals.map (fun p => obj p.1 m) ∧
        IsLexOptimum (specGoals obj goals) (Feas A val base cd) vs'

theorem lexLoop_spec (hO : OracleSpec A val o) (mx : Mixin) (strat : Strat) (fuel : Nat)
    (base : List Constraint) (marks0 : List Nat) (bad0 : Bool) :
    ∀ (goals : List (Nat × Goal)) (cd : List Constraint) (last : Option M) (vals : List Int) (s : Solver M),
      GoalsOk A val obj goals → s.stack = base → s.marks = base.length :: marks0 → s.bad = bad0 →
      (∀ ml, last = some ml → Feas A val base cd ml) → (goals = [] → last ≠ none) →
      LexPost A val obj goals base cd marks0 bad0 vals (lexLoop o obj mx strat fuel goals cd last vals s) := by
  intro goals
  induction goals with
  | nil =>
    intro cd last vals s _ h1 h2 h3 hl hne
    cases last with
    | none => exact absurd rfl (hne rfl)
    | some ml =>
      right
      refine ⟨some (ml, vals), rfl, ?_, ?_, ?_, ?_, ?_⟩
      · simp only [lexLoop, Solver.pop, h2, h1]; simp
      · simp only [lexLoop, Solver.pop, h2]
      · simp only [lexLoop, Solver.pop, h2]; exact h3
      · constructor
        · intro h; cases h
        · intro h; exact absurd ⟨ml, hl ml rfl⟩ h
      · intro m vs h
        cases h
        exact ⟨hl ml rfl, [], by simp, rfl, rfl⟩
  | cons p rest ih =>
    intro cd last vals s hok h1 h2 h3 hl _
    obtain ⟨gi, g⟩ := p
    have hp := hok (gi, g) (by simp)
    have hstep := lexStep_spec (gi := gi) hO hp.1 hp.2 mx strat cd fuel s
    unfold lexLoop
    cases hr : lexStep o obj mx strat g gi cd fuel s with
    | mk out s1 =>
    rw [hr] at hstep
    rcases hstep with hfu | ⟨res, hres, e1, e2, e3, hnone, hsome⟩
    · left; simp only at hfu; subst hfu; rfl
    · simp only at hres e1 e2 e3
      subst hres
      rw [h1] at hnone hsome e1
      cases res with
      | none =>
        right
        refine ⟨none, rfl, ?_, ?_, ?_, ?_, fun m vs h => by cases h⟩
        · simp only [Solver.pop, e2, h2, e1]; simp
        · simp only [Solver.pop, e2, h2]
        · simp only [Solver.pop, e2, h2]; rw [e3, h3]
        · simp only [true_iff]; exact hnone.1 rfl
      | some mc =>
        obtain ⟨m, v⟩ := mc
        obtain ⟨hfm, hv, hopt⟩ := hsome m v rfl
        have hfm' : Feas A val base (cd ++ [.eq gi g.dom v]) m := (Feas_snoc_eq hp.2 base cd v m).2 ⟨hfm, hv.symm⟩
        have ih' := ih (cd ++ [.eq gi g.dom v]) (some m) (vals ++ [v]) s1 (fun q hq => hok q (by simp [hq]))
          e1 (by rw [e2, h2]) (by rw [e3, h3]) (fun ml h => by cases h; exact hfm') (fun _ h => by cases h)
        simp only
        rcases ih' with hfu | ⟨res2, hres2, f1, f2, f3, hnone2, hsome2⟩
        · left; exact hfu
        · right
          refine ⟨res2, hres2, f1, f2, f3, ?_, ?_⟩
          · constructor
            · intro h; exact absurd ⟨m, hfm'⟩ (hnone2.1 h)
            · intro h; exact absurd ⟨m, hfm⟩ h
          · intro m2 vs h
            obtain ⟨g1, vs', g2, g3, g4⟩ := hsome2 m2 vs h
            obtain ⟨g1a, g1b⟩ := (Feas_snoc_eq hp.2 base cd v m2).1 g1
            refine ⟨g1a, v :: vs', by rw [g2]; simp, by rw [g3]; simp [g1b], ?_⟩
            simp only [specGoals, List.map, IsLexOptimum]
            refine ⟨⟨⟨m, hfm, hv.symm⟩, fun m' hm' => (sense_le g _ _).2 (hopt m' hm')⟩, ?_⟩
            exact (IsLexOptimum_congr _ _ _ (fun m' => Feas_snoc_eq hp.2 base cd v m') vs').1 g4

/-- `lexicographic_optimize`, either mix-in, either strategy -/
theorem lexi_spec (hO : OracleSpec A val o) (mx : Mixin) (strat : Strat) (fuel : Nat)
    (goals : List (Nat × Goal)) (hne : goals ≠ []) (hok : GoalsOk A val obj goals) (s : Solver M) :
    LexPost A val obj goals s.stack [] s.marks s.bad [] (lexicographic o obj mx strat fuel goals s) := by
  unfold lexicographic
  exact lexLoop_spec hO mx strat fuel s.stack s.marks s.bad goals [] none [] s.push hok rfl rfl rfl
    (fun ml h => by cases h) (fun h => absurd h hne)

end
end PySMT.Opt
