import PySMT.Proofs.C06Basic
/-!
# C06 — Boolean derived constructors: `Not/And/Or/Implies/Iff`, `Xor`, `NotEquals`,
`EqualsOrIff`, `AtMostOne`, `ExactlyOne`, `AllDifferent`.

Statements are about the *truth value* `truth I t = (eval I t).isTrue`; they hold without
any typing hypothesis because every Boolean connective of the reference semantics reads its
arguments through `isTrue`.
-/
namespace PySMT.C06
open PySMT.Mk

theorem evalOp_not (I : Interp) (p : Payload) (a : Val) : evalOp I .not p [a] = .b (!a.isTrue) := rfl

theorem truth_node_not (I : Interp) (a : Term) (p : Payload) :
    truth I (.node .not [a] p) = !truth I a := by
  unfold truth
  rw [eval_op I .not [a] p (by decide) (by decide) (by decide) (by decide)]
  simp only [List.map_cons, List.map_nil, evalOp_not, isTrue_b]

theorem not_truth (I : Interp) {a t : Term} (h : Mk.Not a = .ok t) : truth I t = !truth I a := by
  unfold Mk.Not at h
  split at h
  · cases h; rw [truth_node_not]; simp
  · cases h
  · rw [create_ok h, truth_node_not]

theorem eval_boolConst (I : Interp) (v : Bool) : eval I (Term.bool v) = .b v := by
  unfold Term.bool
  rw [eval_op I .boolConst _ _ (by decide) (by decide) (by decide) (by decide)]
  rfl

theorem evalOp_and (I : Interp) (p : Payload) (vs : List Val) : evalOp I .and p vs = .b (vs.all Val.isTrue) := rfl
theorem evalOp_or (I : Interp) (p : Payload) (vs : List Val) : evalOp I .or p vs = .b (vs.any Val.isTrue) := rfl

theorem and_truth (I : Interp) {as : List Term} {t : Term} (h : Mk.And as = .ok t) :
    truth I t = as.all (truth I) := by
  unfold Mk.And at h
  split at h
  · cases h; have := eval_boolConst I true; simp [truth, Mk.TRUE, Term.tt, Term.bool] at this ⊢; simp [this]
  · cases h; simp
  · rw [create_ok h]; unfold truth
    rw [eval_op I .and _ _ (by decide) (by decide) (by decide) (by decide), evalOp_and]
    simp [isTrue_b, List.all_map, Function.comp_def]

theorem or_truth (I : Interp) {as : List Term} {t : Term} (h : Mk.Or as = .ok t) :
    truth I t = as.any (truth I) := by
  unfold Mk.Or at h
  split at h
  · cases h; have := eval_boolConst I false; simp [truth, Mk.FALSE, Term.ff, Term.bool] at this ⊢; simp [this]
  · cases h; simp
  · rw [create_ok h]; unfold truth
    rw [eval_op I .or _ _ (by decide) (by decide) (by decide) (by decide), evalOp_or]
    simp [isTrue_b, List.any_map, Function.comp_def]

theorem evalOp_implies (I : Interp) (p : Payload) (a b : Val) :
    evalOp I .implies p [a, b] = .b (!a.isTrue || b.isTrue) := rfl

theorem evalOp_iff (I : Interp) (p : Payload) (a b : Val) :
    evalOp I .iff p [a, b] = .b (a.isTrue == b.isTrue) := rfl

theorem implies_truth (I : Interp) {a b t : Term} (h : Mk.Implies a b = .ok t) :
    truth I t = (!truth I a || truth I b) := by
  rw [create_ok h]; unfold truth
  rw [eval_op I .implies _ _ (by decide) (by decide) (by decide) (by decide)]
  simp only [List.map_cons, List.map_nil, evalOp_implies, isTrue_b]

theorem iff_truth (I : Interp) {a b t : Term} (h : Mk.Iff a b = .ok t) :
    truth I t = (truth I a == truth I b) := by
  rw [create_ok h]; unfold truth
  rw [eval_op I .iff _ _ (by decide) (by decide) (by decide) (by decide)]
  simp only [List.map_cons, List.map_nil, evalOp_iff, isTrue_b]

theorem xor_truth (I : Interp) {a b t : Term} (h : Mk.Xor a b = .ok t) :
    truth I t = (truth I a != truth I b) := by
  obtain ⟨e, he, hn⟩ := bind_ok h
  rw [not_truth I hn, iff_truth I he]
  cases truth I a <;> cases truth I b <;> rfl

theorem evalOp_equals (I : Interp) (p : Payload) (a b : Val) :
    evalOp I .equals p [a, b] = .b (decide (a = b)) := rfl

theorem equals_eval (I : Interp) {a b t : Term} (h : Mk.Equals a b = .ok t) :
    eval I t = .b (decide (eval I a = eval I b)) := by
  rw [create_ok h, eval_op I .equals _ _ (by decide) (by decide) (by decide) (by decide)]
  simp only [List.map_cons, List.map_nil, evalOp_equals]

theorem notEquals_truth (I : Interp) {a b t : Term} (h : Mk.NotEquals a b = .ok t) :
    truth I t = decide (eval I a ≠ eval I b) := by
  obtain ⟨e, he, hn⟩ := bind_ok h
  rw [not_truth I hn]
  simp [truth, equals_eval I he, isTrue_b]

/-- `EqualsOrIff` : `Iff` on Boolean operands, `Equals` otherwise (decided by the type of the
left operand, as in the code) -/
theorem equalsOrIff_truth (I : Interp) {a b t : Term} (h : Mk.EqualsOrIff a b = .ok t) :
    (a.typeOf = some .bool → truth I t = (truth I a == truth I b)) ∧
    (a.typeOf ≠ some .bool → truth I t = decide (eval I a = eval I b)) := by
  unfold Mk.EqualsOrIff at h
  split at h
  · cases h
  · next hb => exact ⟨fun _ => iff_truth I h, fun hn => absurd hb hn⟩
  · next τ hnb hτ =>
    refine ⟨fun hb => ?_, fun _ => ?_⟩
    · rw [hb] at hτ; cases hτ; exact absurd rfl hnb
    · simp [truth, equals_eval I h, isTrue_b]

/-! ## AtMostOne / ExactlyOne -/

/-- number of arguments that are true under `I` -/
def countTrue (I : Interp) (as : List Term) : Nat := (as.filter (truth I)).length

theorem any_eq_countTrue (I : Interp) (as : List Term) :
    as.any (truth I) = decide (0 < countTrue I as) := by
  induction as with
  | nil => simp [countTrue]
  | cons a as ih =>
    simp only [List.any_cons, ih, countTrue, List.filter_cons]
    cases truth I a <;> simp

theorem amo_constraints (I : Interp) : ∀ (as cs : List Term), amoConstraints as = .ok cs →
    cs.all (truth I) = decide (countTrue I as ≤ 1)
  | [], cs, h => by cases h; simp [countTrue]
  | [a], cs, h => by
    cases h; simp only [countTrue, List.filter_cons, List.filter_nil]
    cases truth I a <;> simp
  | a :: b :: rest, cs, h => by
    unfold amoConstraints at h
    obtain ⟨o, ho, h⟩ := bind_ok h
    obtain ⟨n, hn, h⟩ := bind_ok h
    obtain ⟨c, hc, h⟩ := bind_ok h
    obtain ⟨cs', hcs, h⟩ := bind_ok h
    cases h
    have ih := amo_constraints I (b :: rest) cs' hcs
    simp only [List.all_cons, ih, implies_truth I hc, not_truth I hn, or_truth I ho,
      any_eq_countTrue]
    have hc' : countTrue I (a :: b :: rest) = (if truth I a then 1 else 0) + countTrue I (b :: rest) := by
      unfold countTrue
      rw [List.filter_cons]
      cases truth I a <;> simp <;> omega
    rw [hc']
    generalize countTrue I (b :: rest) = k
    cases truth I a
    · simp
    · by_cases hk : k = 0
      · subst hk; simp
      · have h1 : 0 < k := Nat.pos_of_ne_zero hk
        have h2 : ¬ (1 + k ≤ 1) := by omega
        simp [h1, h2]

/-- **AtMostOne**: the formula is true iff at most one argument is true (every arity) -/
theorem atMostOne_truth (I : Interp) {as : List Term} {t : Term} (h : Mk.AtMostOne as = .ok t) :
    truth I t = decide (countTrue I as ≤ 1) := by
  obtain ⟨cs, hcs, h⟩ := bind_ok h
  rw [and_truth I h, amo_constraints I as cs hcs]

/-- **ExactlyOne**: the formula is true iff exactly one argument is true (every arity) -/
theorem exactlyOne_truth (I : Interp) {as : List Term} {t : Term} (h : Mk.ExactlyOne as = .ok t) :
    truth I t = decide (countTrue I as = 1) := by
  obtain ⟨o, ho, h⟩ := bind_ok h
  obtain ⟨a, ha, h⟩ := bind_ok h
  rw [and_truth I h]
  simp only [List.all_cons, List.all_nil, Bool.and_true, or_truth I ho, atMostOne_truth I ha,
    any_eq_countTrue]
  by_cases h1 : countTrue I as = 1
  · simp [h1]
  · simp only [h1, decide_false]
    by_cases h0 : 0 < countTrue I as
    · have : ¬ countTrue I as ≤ 1 := by omega
      simp [this]
    · simp [h0]

/-! ## AllDifferent -/

/-- the "different" relation `AllDifferent` encodes: on Boolean operands different truth
values, otherwise different values -/
def differ (I : Interp) (a b : Term) : Prop :=
  if a.typeOf = some .bool then truth I a ≠ truth I b else eval I a ≠ eval I b

instance (I : Interp) (a b : Term) : Decidable (differ I a b) := by
  unfold differ; exact inferInstance

theorem neqAll_truth (I : Interp) (a : Term) : ∀ (bs ns : List Term), neqAll a bs = .ok ns →
    ns.all (truth I) = decide (∀ b ∈ bs, differ I a b)
  | [], ns, h => by cases h; simp
  | b :: bs, ns, h => by
    unfold neqAll at h
    obtain ⟨e, he, h⟩ := bind_ok h
    obtain ⟨n, hn, h⟩ := bind_ok h
    obtain ⟨rest, hrest, h⟩ := bind_ok h
    cases h
    have ih := neqAll_truth I a bs rest hrest
    have hd : truth I n = decide (differ I a b) := by
      rw [not_truth I hn]
      have := equalsOrIff_truth I he
      unfold differ
      by_cases hb : a.typeOf = some .bool
      · rw [this.1 hb]; simp only [hb, if_true]
        cases truth I a <;> cases truth I b <;> simp
      · rw [this.2 hb]; simp [hb]
    simp only [List.all_cons, hd, ih, List.forall_mem_cons]
    by_cases h1 : differ I a b <;> simp [h1]

theorem adPairs_truth (I : Interp) : ∀ (as cs : List Term), adPairs as = .ok cs →
    cs.all (truth I) = decide (as.Pairwise (differ I))
  | [], cs, h => by cases h; simp
  | a :: rest, cs, h => by
    unfold adPairs at h
    obtain ⟨xs, hxs, h⟩ := bind_ok h
    obtain ⟨ys, hys, h⟩ := bind_ok h
    cases h
    simp only [List.all_append, neqAll_truth I a rest xs hxs, adPairs_truth I rest ys hys,
      List.pairwise_cons]
    by_cases h1 : ∀ b ∈ rest, differ I a b <;> by_cases h2 : rest.Pairwise (differ I) <;> simp [h1, h2]

/-- **AllDifferent**: true iff the arguments are pairwise different (every arity) -/
theorem allDifferent_truth (I : Interp) {as : List Term} {t : Term} (h : Mk.AllDifferent as = .ok t) :
    truth I t = decide (as.Pairwise (differ I)) := by
  obtain ⟨cs, hcs, h⟩ := bind_ok h
  rw [and_truth I h, adPairs_truth I as cs hcs]

end PySMT.C06
