import PySMT.Impl.Parser
import PySMT.Impl.WF
import PySMT.Spec.SmtlibText
import PySMT.Proofs.C08Sound
/-!
# C08/C09: the parser model against the standard reader — definitions and basic lemmas

The agreement theorem (`Proofs/C08AgreeMain.lean`) says: on the fragment `Frag`, in corresponding environments, whenever the
standard reader `Std.rd` elaborates a text to `(u, τ)`, the parser model `rdVal` returns the term `mkNorm u` — the
standard's term after the three normalisations that `FormulaManager`'s constructors perform (`Not(Not x) = x`,
`ToReal(c) = c` for an integer constant, `Div` by a constant). `mkNorm` does not change the meaning
(`Proofs/C08NormSem.lean`) and is the identity on terms that are in the manager's normal form (`mgrNormal`), which is what
the print → parse round trip (C09) needs.

This file: `mkNorm`, the invariant `TOK` that every value of the reading satisfies (pySMT's checker types it with the
standard's sort, it is well-formed, and its *syntactic* `bv_width()` is the width of its sort), `Corr` (corresponding
environments), and the lemmas about `Mk.create`, `Mk.bvWidth`, `callMgr` that all operator families use.
-/
namespace PySMT.Parser.Agree
open PySMT PySMT.Parser PySMT.Std PySMT.Sexp

/-! ## the manager's normalisations, on the standard's terms -/

/-- `Mk.Not` -/
def notNorm (a : Term) : Term :=
  match a with
  | .node .not [x] _ => x
  | _ => .node .not [a] .none

/-- `Mk.ToReal` on an Int-sorted argument -/
def toRealNorm (a : Term) : Term :=
  match a with
  | .node .intConst [] (.i n) => Term.real n
  | _ => .node .toReal [a] .none

/-- `Mk.Div` -/
def mkDivNorm (a b : Term) : Term :=
  match b with
  | .node .realConst [] (.q c) => if c = 0 then .node .div [a, b] .none else .node .times [a, Term.real (1 / c)] .none
  | _ => .node .div [a, b] .none

/-- `SmtLibParser._division` -/
def divNorm (a b : Term) : Term :=
  if Mk.isConstant a && Mk.isConstant b then
    match constNum a, constNum b with
    | some x, some y => if y ≠ 0 then Term.real (x / y) else mkDivNorm a b
    | _, _ => mkDivNorm a b
  else mkDivNorm a b

/-- what the manager's constructor makes of a node of the standard reading whose arguments are already normal
(`/` on Reals; the integer division `div` has no pySMT spelling and is left alone) -/
def rootNorm (op : Op) (args : List Term) (p : Payload) : Term :=
  match op, args, p with
  | .not, [a], .none => notNorm a
  | .toReal, [a], .none => toRealNorm a
  | .div, [a, b], .none => if a.typeOf == some .real then divNorm a b else .node .div [a, b] .none
  | _, _, _ => .node op args p

/-- the manager's normal form of a term, bottom-up -/
def mkNorm : Term → Term
  | .node op args p => rootNorm op (args.map mkNorm) p

theorem mkNorm_node (op : Op) (args : List Term) (p : Payload) :
    mkNorm (.node op args p) = rootNorm op (args.map mkNorm) p := by rw [mkNorm]

/-- `rootNorm` is the identity on every operator but `not`, `to_real`, `/` -/
theorem rootNorm_plain (op : Op) (args : List Term) (p : Payload) (h1 : op ≠ .not) (h2 : op ≠ .toReal) (h3 : op ≠ .div) :
    rootNorm op args p = .node op args p := by
  unfold rootNorm
  split
  · exact absurd rfl h1
  · exact absurd rfl h2
  · exact absurd rfl h3
  · rfl

theorem mkNorm_plain (op : Op) (args : List Term) (p : Payload) (h1 : op ≠ .not) (h2 : op ≠ .toReal) (h3 : op ≠ .div) :
    mkNorm (.node op args p) = .node op (args.map mkNorm) p := by
  rw [mkNorm_node, rootNorm_plain op _ p h1 h2 h3]

/-- terms in the manager's normal form (hereditarily): what `FormulaManager` returns -/
def mgrNormal : Term → Bool
  | .node op args p => (args.map mgrNormal).all id && decide (rootNorm op args p = .node op args p)

theorem mgrNormal_node (op : Op) (args : List Term) (p : Payload) :
    mgrNormal (.node op args p) = ((args.map mgrNormal).all id && decide (rootNorm op args p = .node op args p)) := by
  rw [mgrNormal]

theorem mkNorm_of_normal : (t : Term) → mgrNormal t = true → mkNorm t = t
  | .node op args p, h => by
    rw [mgrNormal_node] at h
    simp only [Bool.and_eq_true, List.all_map, List.all_eq_true, Function.comp, id, decide_eq_true_eq] at h
    have hargs : args.map mkNorm = args := by
      conv => rhs; rw [← List.map_id args]
      exact List.map_congr_left (fun a ha => mkNorm_of_normal a (h.1 a ha))
    rw [mkNorm_node, hargs, h.2]

/-! ## the invariant of every value -/

/-- pySMT types `t` with the sort `τ`, `t` is well-formed, and `t.bv_width()` is the width of `τ` -/
structure TOK (t : Term) (τ : Ty) : Prop where
  ty : t.typeOf = some τ
  wf : t.wf = true
  bw : ∀ w, τ = .bv w → Mk.bvWidth t = .ok w

theorem typeOf_node (op : Op) (args : List Term) (p : Payload) :
    (Term.node op args p).typeOf = typeOfNode op p (args.map Term.typeOf) := by
  simp [Term.typeOf]

/-- the arguments the parser passes to a constructor: the normalised readings -/
def nargs (as : List TT) : List Term := as.map (fun a => mkNorm a.1)

theorem nargs_typeOf {as : List TT} (h : ∀ a ∈ as, TOK (mkNorm a.1) a.2) :
    (nargs as).map Term.typeOf = (as.map (·.2)).map some := by
  simp only [nargs, List.map_map]
  exact List.map_congr_left (fun a ha => by simp [Function.comp, (h a ha).ty])

theorem nargs_wf {as : List TT} (h : ∀ a ∈ as, TOK (mkNorm a.1) a.2) : ∀ t ∈ nargs as, t.wf = true := by
  intro t ht
  simp only [nargs, List.mem_map] at ht
  obtain ⟨a, ha, rfl⟩ := ht
  exact (h a ha).wf

theorem nargs_cons (a : TT) (as : List TT) : nargs (a :: as) = mkNorm a.1 :: nargs as := rfl
theorem nargs_nil : nargs [] = [] := rfl
theorem nargs_length (as : List TT) : (nargs as).length = as.length := by simp [nargs]

/-! ## `create_node` -/

theorem create_ok {op : Op} {args : List Term} {p : Payload} {τ : Ty}
    (h : typeOfNode op p (args.map Term.typeOf) = some τ) : Mk.create op args p = .ok (.node op args p) := by
  simp [Mk.create, h]

theorem liftMk_okk (t : Term) : liftMk (.ok t) = .ok t := rfl

/-- a freshly created node satisfies the invariant, given its arguments do (not for `ite`, whose width is its branch's) -/
theorem tok_node {op : Op} {args : List Term} {p : Payload} {τ : Ty}
    (hty : typeOfNode op p (args.map Term.typeOf) = some τ) (hargs : ∀ a ∈ args, a.wf = true)
    (hshape : op.shapeOK p args.length = true)
    (hbw : ∀ w, τ = .bv w → Mk.bvWidth (.node op args p) = .ok w) : TOK (.node op args p) τ :=
  ⟨by rw [typeOf_node, hty], Term.wf_node.mpr ⟨hargs, hshape, by rw [hty]; rfl⟩, hbw⟩

/-! ## `bv_width()` -/

theorem size_node (op : Op) (args : List Term) (p : Payload) :
    (Term.node op args p).size = 1 + (args.map Term.size).sum := by rw [Term.size]

theorem iteLeaf_nonite (n : Nat) (op : Op) (args : List Term) (p : Payload) (h : op ≠ .ite) :
    Mk.iteLeaf n (.node op args p) = .node op args p := by
  cases n with
  | zero => rfl
  | succ n =>
    unfold Mk.iteLeaf
    split
    · rfl
    · next heq => cases heq; exact absurd rfl h
    · rfl

theorem iteLeaf_ite (n : Nat) (c a b : Term) (p : Payload) :
    Mk.iteLeaf (n + 1) (.node .ite [c, a, b] p) = Mk.iteLeaf n a := by
  rw [Mk.iteLeaf]

theorem iteLeaf_fuel : ∀ (n m : Nat) (t : Term), t.size ≤ n → t.size ≤ m → Mk.iteLeaf n t = Mk.iteLeaf m t
  | 0, _, .node op args p, h, _ => by rw [size_node] at h; omega
  | _, 0, .node op args p, _, h => by rw [size_node] at h; omega
  | n + 1, m + 1, .node op args p, hn, hm => by
    by_cases hop : op = .ite
    · subst hop
      match args with
      | [c, a, b] =>
        rw [iteLeaf_ite, iteLeaf_ite]
        rw [size_node] at hn hm
        simp only [List.map_cons, List.map_nil, List.sum_cons, List.sum_nil] at hn hm
        exact iteLeaf_fuel n m a (by omega) (by omega)
      | [] => rw [Mk.iteLeaf, Mk.iteLeaf] <;> (intros; simp_all)
      | [_] => rw [Mk.iteLeaf, Mk.iteLeaf] <;> (intros; simp_all)
      | [_, _] => rw [Mk.iteLeaf, Mk.iteLeaf] <;> (intros; simp_all)
      | _ :: _ :: _ :: _ :: _ => rw [Mk.iteLeaf, Mk.iteLeaf] <;> (intros; simp_all)
    · rw [iteLeaf_nonite _ _ _ _ hop, iteLeaf_nonite _ _ _ _ hop]

/-- `bv_width()` of an if-then-else is that of its then-branch -/
theorem bvWidth_ite (c a b : Term) (p : Payload) : Mk.bvWidth (.node .ite [c, a, b] p) = Mk.bvWidth a := by
  have hs : (Term.node .ite [c, a, b] p).size = (c.size + a.size + b.size) + 1 := by
    rw [size_node]; simp only [List.map_cons, List.map_nil, List.sum_cons, List.sum_nil]; omega
  unfold Mk.bvWidth
  rw [hs, iteLeaf_ite, iteLeaf_fuel (c.size + a.size + b.size) a.size a (by omega) (Nat.le_refl _)]

/-- `bv_width()` of a node that is not an if-then-else looks at the node itself -/
theorem bvWidth_nonite (op : Op) (args : List Term) (p : Payload) (h : op ≠ .ite) :
    Mk.bvWidth (.node op args p) = Mk.leafWidth (.node op args p) := by
  unfold Mk.bvWidth
  rw [iteLeaf_nonite _ _ _ _ h]

/-- a bit-vector operator node carries its width in the payload -/
theorem bvWidth_bvop (op : Op) (args : List Term) (w : Nat) (rest : List Nat) (h : Mk.isBvOp op = true) :
    Mk.bvWidth (.node op args (.ints (w :: rest))) = .ok w := by
  have hne : op ≠ .ite := by intro e; subst e; cases h
  rw [bvWidth_nonite _ _ _ hne]
  cases op <;> first | (cases h; done) | rfl

theorem bvWidth_bvc (v w : Nat) : Mk.bvWidth (Term.bvc v w) = .ok w := by
  rw [Term.bvc, bvWidth_nonite _ _ _ (by decide)]; rfl

theorem bvWidth_sym (s : Sym) (w : Nat) (hp : s.params.isEmpty = true) (hr : s.ret = .bv w) :
    Mk.bvWidth (Term.sym s) = .ok w := by
  rw [Term.sym, bvWidth_nonite _ _ _ (by decide)]
  simp [Mk.leafWidth, hp, hr]

theorem bvWidth_app (f : Sym) (args : List Term) (w : Nat) (hr : f.ret = .bv w) :
    Mk.bvWidth (.node .function args (.sym f)) = .ok w := by
  rw [bvWidth_nonite _ _ _ (by decide)]
  simp [Mk.leafWidth, hr]

theorem bvWidth_select (a i : Term) (p : Payload) (it : Ty) (w : Nat) (h : a.typeOf = some (.array it (.bv w))) :
    Mk.bvWidth (.node .arraySelect [a, i] p) = .ok w := by
  rw [bvWidth_nonite _ _ _ (by decide)]
  simp [Mk.leafWidth, h]

/-! ## calling the manager -/

theorem termsOf_nargs (as : List Term) : termsOf (as.map Parser.Val.term) = some as := Sound.termsOf_map as

theorem ofMk_type : ofMk .type = .type := rfl

/-! ## corresponding environments -/

/-- a name the parser cannot take for a literal (F16/F16b: pySMT drops the bars of `|12|`): non-empty, and it starts
neither like a number nor like `#b…`/`#x…` -/
def pnameOK0 (n : String) : Bool :=
  match n.toList with
  | [] => false
  | c :: _ => !isDigit c && c != '#'

/-- … and it is not a parenthesis: pySMT's tokenizer hands on the contents of `|(|` and `|)|` as parenthesis tokens
(known finding P03: such a symbol cannot be declared or read back) -/
def pnameOK (n : String) : Bool := pnameOK0 n && n != "(" && n != ")"

theorem pnameOK_base {n : String} (h : pnameOK n = true) : pnameOK0 n = true := by
  unfold pnameOK at h
  simp only [Bool.and_eq_true] at h
  exact h.1.1

theorem pnameOK_of_base {n : String} (h : pnameOK0 n = true) (h1 : n ≠ "(") (h2 : n ≠ ")") : pnameOK n = true := by
  simp [pnameOK, h, h1, h2]

/-- the formula manager knows only symbols of the name ↦ symbol assignment `ρ` (so that `Symbol(name, type)` never
clashes: one name, one sort — what `FormulaManager` guarantees for every formula it holds) -/
def MgrLe (σ : MgrSt) (ρ : List (String × Sym)) : Prop := ∀ e ∈ σ.symbols, ρ.lookup e.1 = some e.2

/-- The parser's environment `Γ` corresponds to the standard environment `env` under the scope `sc`: every name the
standard resolves, the parser resolves to the same thing. (One direction only: the parser may know more names.) -/
structure Corr (env : SEnv) (sc : List Binding) (Γ : PEnv) : Prop where
  /-- let-bound names and bound variables -/
  scope : ∀ n t ty, lookupScope n sc [] = some (.ok (t, ty)) →
    lookup n Γ.binds = some (.term (mkNorm t)) ∧ TOK (mkNorm t) ty
  tt : lookupScope "true" sc [] = none → lookup "true" Γ.binds = some (.term Term.tt)
  ff : lookupScope "false" sc [] = none → lookup "false" Γ.binds = some (.term Term.ff)
  /-- declared constants and functions -/
  funs : ∀ n s, lookupScope n sc [] = none → n ≠ "true" → n ≠ "false" → env.lookupFun n = some s →
    lookup n Γ.binds = some (if s.params.isEmpty then .term (Term.sym s) else .fn (.uf s))
  /-- a declared function is not spelled like one of the parser's own tokens (`pow`, `<->`, `str.to.int`, `int.to.str`
  are not SMT-LIB: an application of a user function of that name is misread) -/
  funTok : ∀ n s, env.lookupFun n = some s → s.params.isEmpty = false → tableLookup n = none
  /-- F17: no `define-fun` (the application of a definition substitutes without renaming) -/
  nodefs : env.defs = []
  /-- F16b: no bound name is spelled like a literal -/
  names : ∀ n v, lookup n Γ.binds = some v → pnameOK n = true
  /-- declared sorts of arity 0 and sort abbreviations (bound in the same cache) -/
  sorts : ∀ n, env.lookupSort n = some 0 → lookup n Γ.binds = some (.sortTy (.custom n))
  aliases : ∀ n ty, env.lookupSort n = none → env.lookupAlias n = some ty → lookup n Γ.binds = some (.sortTy ty)
  /-- numerals are read by the logic -/
  logic : Γ.intArith.getD true = !env.realsOnly

end PySMT.Parser.Agree
