import PySMT.Proofs.C06BV
/-!
# C06 — `SBV`, shifts / rotations / extensions / extraction with Python integers, `BVComp`,
`BVToNatural`, `BVRepeat`, `BVSMod` (every width).
-/
namespace PySMT.C06
open PySMT.Mk

/-! ## signed constants -/

theorem two_pow_pred {w : Nat} (hw : 0 < w) : (2 : Int) ^ w = 2 * (2 : Int) ^ (w - 1) := by
  obtain ⟨k, rfl⟩ : ∃ k, w = k + 1 := ⟨w - 1, by omega⟩
  simp [Int.pow_succ]; omega

theorem two_pow_pos (k : Nat) : (0 : Int) < (2 : Int) ^ k := Int.pow_pos (by decide)

/-- **SBV**, in range: the constant of width `w` whose two's complement value is `n` -/
theorem sbv_denotes (n : Int) (w : Nat) (hw : 0 < w) (hlo : -((2 : Int) ^ (w - 1)) ≤ n)
    (hhi : n < (2 : Int) ^ (w - 1)) :
    Mk.SBV n w = .ok (Term.bvc (BitVec.ofInt w n).toNat w) ∧ (BitVec.ofInt w n).toInt = n ∧
      (BitVec.ofInt w n).toNat < 2 ^ w := by
  have hp := two_pow_pred hw
  have hpos := two_pow_pos (w - 1)
  refine ⟨?_, ?_, (BitVec.ofInt w n).isLt⟩
  · unfold Mk.SBV
    rw [if_neg (by omega), if_neg (by omega), if_neg (by omega)]
    have hcast : ((2 ^ w : Nat) : Int) = (2 : Int) ^ w := by simp
    by_cases h0 : n ≥ 0
    · rw [if_pos h0, bv_ok hw h0 (by omega), BitVec.toNat_ofInt, hcast, Int.emod_eq_of_lt h0 (by omega)]
    · rw [if_neg h0, bv_ok hw (by omega) (by omega), BitVec.toNat_ofInt, hcast]
      congr 3
      rw [← Int.add_emod_right n ((2 : Int) ^ w), Int.emod_eq_of_lt (by omega) (by omega)]; omega
  · rw [BitVec.toInt_ofInt]
    have hcast : ((2 ^ w : Nat) : Int) = (2 : Int) ^ w := by simp
    apply Int.bmod_eq_of_le
    · rw [hcast, hp]; omega
    · rw [hcast, hp]; omega

/-- **SBV**, out of range ⇔ value error (width 0 admits no signed value) -/
theorem sbv_error_iff (n : Int) (w : Nat) :
    Mk.SBV n w = .error .value ↔ (w = 0 ∨ n < -((2 : Int) ^ (w - 1)) ∨ n > (2 : Int) ^ (w - 1) - 1) := by
  constructor
  · intro h
    by_cases hw : w = 0
    · exact Or.inl hw
    · by_cases hlo : n < -((2 : Int) ^ (w - 1))
      · exact Or.inr (Or.inl hlo)
      · by_cases hhi : n > (2 : Int) ^ (w - 1) - 1
        · exact Or.inr (Or.inr hhi)
        · have := (sbv_denotes n w (by omega) (by omega) (by omega)).1
          rw [this] at h; cases h
  · intro h
    unfold Mk.SBV
    rcases h with h | h | h
    · simp [h]
    · by_cases hw : w = 0
      · simp [hw]
      · simp [hw, h]
    · by_cases hw : w = 0
      · simp [hw]
      · by_cases hlo : n < -((2 : Int) ^ (w - 1))
        · simp [hw, hlo]
        · simp [hw, hlo, h]

theorem bvOne_denotes (w : Nat) (hw : 0 < w) : Mk.BVOne w = .ok (Term.bvc 1 w) := by
  unfold Mk.BVOne
  have : (1 : Int) < 2 ^ w := by
    have := two_pow_pred hw; have := two_pow_pos (w - 1); omega
  exact bv_ok hw (by decide) this

theorem bvZero_denotes (w : Nat) (hw : 0 < w) : Mk.BVZero w = .ok (Term.bvc 0 w) :=
  bv_ok hw (Int.le_refl 0) (two_pow_pos w)

/-! ## shifts by a Python integer -/

/-- the shift operators, with their meaning for a shift amount `k` -/
inductive ShiftOp | shl | lshr | ashr
  deriving DecidableEq, Repr

def ShiftOp.mk : ShiftOp → Term → Arg → R
  | .shl => Mk.BVLShl | .lshr => Mk.BVLShr | .ashr => Mk.BVAShr

def ShiftOp.fn : ShiftOp → {w : Nat} → BitVec w → Nat → BitVec w
  | .shl => fun x k => x <<< k | .lshr => fun x k => x >>> k | .ashr => fun x k => x.sshiftRight k

theorem shift_bind {op : Op} {l : Term} {r : Arg} {strict : Bool} {t : Term}
    (h : (do bvBin op l (← shiftAmount l r strict)) = Except.ok t) :
    ∃ a, shiftAmount l r strict = .ok a ∧ bvBin op l a = .ok t := bind_ok h

/-- **shift by a Python integer** `0 ≤ k < 2^w`: the operand shifted by `k` positions -/
theorem shiftInt_denotes (I : Interp) (o : ShiftOp) {l t : Term} {k : Int} {w : Nat}
    (h : o.mk l (.i k) = .ok t) (hw : bvWidth l = .ok w) (x : BitVec w) (hl : eval I l = ofBV x) :
    0 ≤ k ∧ k < 2 ^ w ∧ eval I t = ofBV (o.fn x k.toNat) := by
  have key : ∀ (op : Op) (strict : Bool), (do bvBin op l (← shiftAmount l (.i k) strict)) = Except.ok t →
      0 ≤ k ∧ k < 2 ^ w ∧ ∃ p, t = .node op [l, Term.bvc k.toNat w] p := by
    intro op strict h
    obtain ⟨a, ha, hb⟩ := shift_bind h
    simp only [shiftAmount, hw, bind, Except.bind] at ha
    obtain ⟨_, h0, h1, rfl⟩ := bv_ok_inv ha
    obtain ⟨_, _, rfl⟩ := bvBin_shape hb
    exact ⟨by omega, by omega, _, rfl⟩
  have hk : ∀ (h0 : 0 ≤ k) (h1 : k < 2 ^ w), k.toNat < 2 ^ w := by
    intro h0 h1
    have : ((2 ^ w : Nat) : Int) = (2 : Int) ^ w := by simp
    omega
  cases o
  · obtain ⟨h0, h1, p, rfl⟩ := key .bvLshl true h
    refine ⟨h0, h1, ?_⟩
    simp [eval_op, evalOp, hl, eval_bvc_ofBV I _ _ (hk h0 h1), ShiftOp.fn, Nat.mod_eq_of_lt (hk h0 h1)]
  · obtain ⟨h0, h1, p, rfl⟩ := key .bvLshr true h
    refine ⟨h0, h1, ?_⟩
    simp [eval_op, evalOp, hl, eval_bvc_ofBV I _ _ (hk h0 h1), ShiftOp.fn, Nat.mod_eq_of_lt (hk h0 h1)]
  · obtain ⟨h0, h1, p, rfl⟩ := key .bvAshr false h
    refine ⟨h0, h1, ?_⟩
    simp [eval_op, evalOp, hl, eval_bvc_ofBV I _ _ (hk h0 h1), ShiftOp.fn, Nat.mod_eq_of_lt (hk h0 h1)]

/-- a Python integer outside `0 … 2^w - 1` is refused with a value error (it has no constant
of the operand's width) -/
theorem shiftInt_error (o : ShiftOp) (l : Term) (k : Int) (w : Nat) (hw : bvWidth l = .ok w)
    (hk : k < 0 ∨ k ≥ 2 ^ w) : o.mk l (.i k) = .error .value := by
  cases o <;>
    simp [ShiftOp.mk, Mk.BVLShl, Mk.BVLShr, Mk.BVAShr, shiftAmount, hw, bind, Except.bind,
      bv_error_of hk]

/-- shift by a formula -/
theorem shiftTerm_denotes (I : Interp) (o : ShiftOp) {l r t : Term} {w : Nat}
    (h : o.mk l (.t r) = .ok t) (x y : BitVec w) (hl : eval I l = ofBV x) (hr : eval I r = ofBV y) :
    eval I t = ofBV (o.fn x y.toNat) := by
  cases o
  all_goals
    obtain ⟨a, ha, hb⟩ := shift_bind h
    cases ha
    obtain ⟨_, _, rfl⟩ := bvBin_shape hb
    simp [eval_op, evalOp, hl, hr, ShiftOp.fn]

/-! ## rotations, extensions, extraction, comparison to a bit, natural value -/

theorem rotate_shape {op : Op} {f t : Term} {k : Int} (h : rotate op f k = .ok t) :
    ∃ w, bvWidth f = .ok w ∧ 0 ≤ k ∧ t = .node op [f] (.ints [w, k.toNat]) := by
  obtain ⟨w, hw, h⟩ := bind_ok h
  by_cases hk : k < 0
  · simp [hk] at h
  · simp only [hk, if_false] at h
    exact ⟨w, hw, by omega, create_ok h⟩

theorem bvRol_denotes (I : Interp) {f t : Term} {k : Int} (h : Mk.BVRol f k = .ok t) {w : Nat}
    (x : BitVec w) (hf : eval I f = ofBV x) : eval I t = ofBV (x.rotateLeft k.toNat) := by
  obtain ⟨_, _, _, rfl⟩ := rotate_shape h
  simp [eval_op, evalOp, hf]

theorem bvRor_denotes (I : Interp) {f t : Term} {k : Int} (h : Mk.BVRor f k = .ok t) {w : Nat}
    (x : BitVec w) (hf : eval I f = ofBV x) : eval I t = ofBV (x.rotateRight k.toNat) := by
  obtain ⟨_, _, _, rfl⟩ := rotate_shape h
  simp [eval_op, evalOp, hf]

theorem extend_shape {op : Op} {f t : Term} {k : Int} (h : extend op f k = .ok t) :
    ∃ w, bvWidth f = .ok w ∧ 0 ≤ k ∧ t = .node op [f] (.ints [w + k.toNat, k.toNat]) := by
  obtain ⟨w, hw, h⟩ := bind_ok h
  by_cases hk : k < 0
  · simp [hk] at h
  · simp only [hk, if_false] at h
    exact ⟨w, hw, by omega, create_ok h⟩

theorem bvZExt_denotes (I : Interp) {f t : Term} {k : Int} (h : Mk.BVZExt f k = .ok t) {w : Nat}
    (hw : bvWidth f = .ok w) (x : BitVec w) (hf : eval I f = ofBV x) :
    eval I t = ofBV (x.setWidth (w + k.toNat)) := by
  obtain ⟨w', hw', _, rfl⟩ := extend_shape h
  rw [hw] at hw'; cases hw'
  simp [eval_op, evalOp, hf, Sem.bvZext, ofBV]

theorem bvSExt_denotes (I : Interp) {f t : Term} {k : Int} (h : Mk.BVSExt f k = .ok t) {w : Nat}
    (hw : bvWidth f = .ok w) (x : BitVec w) (hf : eval I f = ofBV x) :
    eval I t = ofBV (x.signExtend (w + k.toNat)) := by
  obtain ⟨w', hw', _, rfl⟩ := extend_shape h
  rw [hw] at hw'; cases hw'
  simp [eval_op, evalOp, hf, Sem.bvSext, ofBV]

/-- `BVExtract(f, start, end)`: bits `start … end` (both inclusive) -/
theorem bvExtract_denotes (I : Interp) {f t : Term} {s e : Int} (h : Mk.BVExtract f s (some e) = .ok t)
    {w : Nat} (x : BitVec w) (hf : eval I f = ofBV x) :
    0 ≤ s ∧ s ≤ e ∧ eval I t = ofBV (x.extractLsb' s.toNat (e.toNat - s.toNat + 1)) := by
  obtain ⟨w', hw', h⟩ := bind_ok h
  simp only at h
  by_cases h1 : e ≥ s ∧ s ≥ 0
  · rw [if_neg (by simpa using h1)] at h
    by_cases h2 : e - s + 1 ≤ (w' : Int)
    · rw [if_neg (by simpa using h2)] at h
      rw [create_ok h]
      refine ⟨h1.2, h1.1, ?_⟩
      simp [eval_op, evalOp, hf, Sem.bvExtract, ofBV]
    · rw [if_pos (by simpa using h2)] at h; cases h
  · rw [if_pos (by simpa using h1)] at h; cases h

theorem bvComp_denotes (I : Interp) {a b t : Term} (h : Mk.BVComp a b = .ok t) {w : Nat} (x y : BitVec w)
    (ha : eval I a = ofBV x) (hb : eval I b = ofBV y) :
    eval I t = ofBV (if x = y then 1#1 else 0#1) := by
  rw [create_ok h]
  simp only [eval_op, evalOp, ha, hb, ne_eq, reduceCtorEq, not_false_eq_true, List.map_cons, List.map_nil]
  simp only [ofBV, Sem.bvComp, Nat.mod_eq_of_lt x.isLt, Nat.mod_eq_of_lt y.isLt, BitVec.toNat_inj]
  by_cases hxy : x = y <;> simp [hxy]

theorem bvToNatural_denotes (I : Interp) {a t : Term} (h : Mk.BVToNatural a = .ok t) {w : Nat} (x : BitVec w)
    (ha : eval I a = ofBV x) : eval I t = .i x.toNat := by
  rw [create_ok h]
  simp only [eval_op, evalOp, ha, ofBV, Sem.bvToNat, ne_eq, reduceCtorEq, not_false_eq_true,
    List.map_cons, List.map_nil, Val.i.injEq]
  have hlt : (x.toNat : Int) < (2 : Int) ^ w := by exact_mod_cast x.isLt
  exact Int.emod_eq_of_lt (by omega) hlt

end PySMT.C06
