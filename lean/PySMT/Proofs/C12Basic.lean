import PySMT.Proofs.Coincidence
import PySMT.Impl.Oracles
import PySMT.Spec.Analyses
/-!
# C12, part 1: free symbols, quantifier-freeness, size measures

The oracle models of `Impl/Oracles.lean` (bottom-up per-node functions with the class tests of
`operators.py`) against the definitions on the formula's structure (`Core/FreeVars.lean`:
`Term.fv`, `Term.subterms`, `Term.isQF`; `Core/Term.lean`: `Term.size`).
-/
namespace PySMT.Oracles
open PySMT.Gen.Operators PySMT.Analyses

/-! ## the regenerated class tables as predicates -/

theorem quantifiers_contains (op : Op) : quantifiers.contains op = op.isQuantifier := by
  cases op <;> rfl

theorem constants_contains (op : Op) : constants.contains op = op.isConstant := by
  cases op <;> rfl

/-! ## node-level unfoldings -/

theorem fvO_node (op args p) : fvO (.node op args p) = fvNode op p (args.map fvO) := by
  rw [fvO.eq_def]
theorem isQFO_node (op args p) : isQFO (.node op args p) = qfNode op (args.map isQFO) := by
  rw [isQFO.eq_def]
theorem treeO_node (op args p) : treeO (.node op args p) = 1 + (args.map treeO).sum := by
  rw [treeO.eq_def]
theorem dagO_node (op args p) : dagO (.node op args p) = .node op args p :: (args.map dagO).flatten := by
  rw [dagO.eq_def]
theorem leavesO_node (op args p) :
    leavesO (.node op args p) = (if args.isEmpty then 1 else 0) + (args.map leavesO).sum := by
  rw [leavesO.eq_def]
theorem depthO_node (op args p) :
    depthO (.node op args p) = 1 + (if args.isEmpty then 0 else maxList (args.map depthO)) := by
  rw [depthO.eq_def]
theorem symbolsO_node (op args p) : symbolsO (.node op args p) =
    (if op == .symbol then [.node op args p] else []) ++ (args.map symbolsO).flatten := by
  rw [symbolsO.eq_def]
theorem boolDagO_node (op args p) : boolDagO (.node op args p) =
    if boolDagStop op (Term.node op args p).typeOf then [.node op args p]
    else .node op args p :: (args.map boolDagO).flatten := by
  rw [boolDagO.eq_def]
theorem subterms_node (op args p) :
    (Term.node op args p).subterms = .node op args p :: (args.map Term.subterms).flatten := by
  rw [Term.subterms.eq_def]
theorem size_node (op args p) : (Term.node op args p).size = 1 + (args.map Term.size).sum := by
  rw [Term.size.eq_def]

/-! ## free symbols -/

theorem typeOfNode_const_args {op : Op} (hc : op.isConstant = true) {p ts}
    (h : (typeOfNode op p ts).isSome = true) : ts = [] := by
  cases op <;> simp [Op.isConstant] at hc
  all_goals
    rcases ts with _ | ⟨t, r⟩
    · rfl
    · first | (cases h; done) | (cases p <;> cases h)

theorem typeOfNode_function_payload {p ts} (h : (typeOfNode .function p ts).isSome = true) :
    ∃ f, p = .sym f := by
  rw [typeOfNode_function_eq] at h
  cases p <;> first | exact ⟨_, rfl⟩ | (cases h; done)

/-- **`fv_eq_def`**: on well-typed terms the FreeVarsOracle computes exactly the free symbols of the
definition (same list, in particular the same set). -/
theorem fvO_eq_fv : (t : Term) → t.wt = true → fvO t = t.fv
  | .node op args p, hwt => by
    have ih : args.map fvO = args.map Term.fv :=
      List.map_congr_left (fun a ha => fvO_eq_fv a (Term.wt_child hwt a ha))
    have hty := Term.wt_typeOf hwt
    rw [fvO_node, ih]
    by_cases hsym : op = .symbol
    · subst hsym
      obtain ⟨_, s, rfl, _⟩ := typeOfNode_symbol hty
      rw [fv_symbol]; rfl
    by_cases hfun : op = .function
    · subst hfun
      obtain ⟨f, rfl⟩ := typeOfNode_function_payload hty
      rw [fv_function]; rfl
    by_cases hq : op.isQuantifier = true
    · obtain ⟨b, rfl⟩ := Term.wt_quant_args hwt hq
      have hop : (op == .symbol) = false := by simpa using hsym
      have hop2 : (op == .function) = false := by simpa using hfun
      simp only [fvNode, hop, hop2, quantifiers_contains, hq, if_true, List.map_cons, List.map_nil,
        List.headD_cons, Bool.false_eq_true, if_false]
      cases op <;> simp [Op.isQuantifier] at hq
      · cases p <;> simp [fv_node]
      · cases p <;> simp [fv_node]
    have hq' : op.isQuantifier = false := by simpa using hq
    have hop : (op == .symbol) = false := by simpa using hsym
    have hop2 : (op == .function) = false := by simpa using hfun
    rw [fv_node_plain op args p hsym hfun hq']
    simp only [fvNode, hop, hop2, quantifiers_contains, hq', constants_contains, Bool.false_eq_true, if_false]
    split
    · next hc =>
      have : args.map Term.typeOf = [] := typeOfNode_const_args hc hty
      have : args = [] := by simpa using this
      subst this
      rfl
    · rfl

/-! ## quantifier-freeness -/

theorem all_flatten_map {α β} (f : α → List β) (q : β → Bool) (l : List α) :
    (l.map f).flatten.all q = l.all (fun a => (f a).all q) := by
  induction l with
  | nil => rfl
  | cons a l ih => simp [List.all_append, ih]

theorem all_congr_mem {α} (f g : α → Bool) : ∀ (l : List α), (∀ a ∈ l, f a = g a) → l.all f = l.all g
  | [], _ => rfl
  | a :: l, h => by
    simp only [List.all_cons, h a (by simp), all_congr_mem f g l (fun b hb => h b (by simp [hb]))]

/-- **`qf_iff`**: the QuantifierOracle answers `true` exactly when no sub-term is a quantifier. -/
theorem isQFO_eq_isQF : (t : Term) → isQFO t = t.isQF
  | .node op args p => by
    have ih : ∀ a ∈ args, isQFO a = a.isQF := fun a _ => isQFO_eq_isQF a
    rw [isQFO_node]
    show qfNode op (args.map isQFO) = (Term.node op args p).subterms.all (fun s => !s.op.isQuantifier)
    rw [subterms_node, List.all_cons, all_flatten_map]
    have h1 : (Term.node op args p).op = op := rfl
    rw [h1]
    have : (args.map isQFO).all id = args.all (fun a => a.subterms.all (fun s => !s.op.isQuantifier)) := by
      rw [List.all_map]
      exact all_congr_mem _ _ args (fun a ha => ih a ha)
    simp only [qfNode, quantifiers_contains, this]
    cases hq : op.isQuantifier <;> simp

theorem isQFO_iff (t : Term) : isQFO t = true ↔ ∀ s ∈ t.subterms, s.op.isQuantifier = false := by
  rw [isQFO_eq_isQF]
  simp [Term.isQF, List.all_eq_true]

/-! ## size measures -/

theorem treeO_eq_size : (t : Term) → treeO t = t.size
  | .node op args p => by
    rw [treeO_node, size_node, List.map_congr_left (fun a _ => treeO_eq_size a)]

theorem dagO_eq_subterms : (t : Term) → dagO t = t.subterms
  | .node op args p => by
    rw [dagO_node, subterms_node, List.map_congr_left (fun a _ => dagO_eq_subterms a)]

theorem length_filter_flatten {α} (q : α → Bool) (l : List (List α)) :
    (l.flatten.filter q).length = (l.map (fun x => (x.filter q).length)).sum := by
  induction l with
  | nil => rfl
  | cons a l ih =>
    simp only [List.flatten_cons, List.filter_append, List.length_append, List.map_cons, List.sum_cons, ih]

/-- a leaf is a sub-term (occurrence) without arguments -/
theorem leavesO_eq : (t : Term) → leavesO t = (t.subterms.filter (fun s => s.args.isEmpty)).length
  | .node op args p => by
    have ih : args.map leavesO = args.map (fun a => (a.subterms.filter (fun s => s.args.isEmpty)).length) :=
      List.map_congr_left (fun a _ => leavesO_eq a)
    have hself : (Term.node op args p).args = args := rfl
    rw [leavesO_node, subterms_node, ih, List.filter_cons, hself]
    cases h : args.isEmpty
    · simp only [Bool.false_eq_true, if_false, length_filter_flatten, List.map_map, Function.comp_def]
      omega
    · simp only [if_true, List.length_cons, length_filter_flatten, List.map_map, Function.comp_def]
      omega

theorem filter_flatten_map {α β} (f : α → List β) (q : β → Bool) (l : List α) :
    (l.map f).flatten.filter q = (l.map (fun a => (f a).filter q)).flatten := by
  induction l with
  | nil => rfl
  | cons a l ih => simp [List.filter_append, ih]

/-- the symbols counted are the sub-terms that are symbol nodes -/
theorem symbolsO_eq : (t : Term) → symbolsO t = t.subterms.filter (fun s => s.op == .symbol)
  | .node op args p => by
    have ih : args.map symbolsO = args.map (fun a => a.subterms.filter (fun s => s.op == .symbol)) :=
      List.map_congr_left (fun a _ => symbolsO_eq a)
    have hself : (Term.node op args p).op = op := rfl
    rw [symbolsO_node, subterms_node, ih, List.filter_cons, hself, filter_flatten_map]
    cases h : (op == .symbol) <;> simp

theorem le_maxList {l : List Nat} {x : Nat} (h : x ∈ l) : x ≤ maxList l := by
  cases l with
  | nil => simp at h
  | cons y ys =>
    simp only [maxList]
    have key : ∀ (ys : List Nat) (acc : Nat), acc ≤ ys.foldl max acc ∧ ∀ z ∈ ys, z ≤ ys.foldl max acc := by
      intro ys
      induction ys with
      | nil => intro acc; exact ⟨Nat.le_refl _, by simp⟩
      | cons z zs ih =>
        intro acc
        have := ih (max acc z)
        refine ⟨Nat.le_trans (Nat.le_max_left _ _) this.1, ?_⟩
        intro w hw
        rcases List.mem_cons.mp hw with rfl | hw
        · exact Nat.le_trans (Nat.le_max_right _ _) this.1
        · exact this.2 w hw
    rcases List.mem_cons.mp h with rfl | h
    · exact (key ys x).1
    · exact (key ys y).2 x h

theorem maxList_mem {l : List Nat} (h : l ≠ []) : maxList l ∈ l := by
  cases l with
  | nil => exact absurd rfl h
  | cons y ys =>
    simp only [maxList]
    have key : ∀ (ys : List Nat) (acc : Nat), ys.foldl max acc = acc ∨ ys.foldl max acc ∈ ys := by
      intro ys
      induction ys with
      | nil => intro acc; exact .inl rfl
      | cons z zs ih =>
        intro acc
        rcases ih (max acc z) with h | h
        · rw [List.foldl_cons, h]
          rcases Nat.le_total acc z with hle | hle
          · right; rw [Nat.max_eq_right hle]; exact List.mem_cons_self
          · left; exact Nat.max_eq_left hle
        · right; exact List.mem_cons_of_mem _ h
    rcases key ys y with h | h
    · rw [h]; exact List.mem_cons_self
    · exact List.mem_cons_of_mem _ h

/-- the depth is the number of nodes on a longest descending chain: such a chain exists … -/
theorem depthO_hasPath : (t : Term) → HasPath t (depthO t)
  | .node op args p => by
    rw [depthO_node]
    cases hargs : args with
    | nil => simpa using HasPath.here _
    | cons a rest =>
      subst hargs
      have hne : (a :: rest).map depthO ≠ [] := by simp
      have hm := maxList_mem hne
      obtain ⟨b, hb, hbe⟩ := List.mem_map.mp hm
      have := HasPath.step (op := op) (p := p) hb (depthO_hasPath b)
      simp only [List.isEmpty_cons, Bool.false_eq_true, if_false]
      rw [Nat.add_comm, ← hbe]
      exact this

/-- … and no chain is longer -/
theorem depthO_max : (t : Term) → ∀ n, HasPath t n → n ≤ depthO t
  | .node op args p, n, h => by
    rw [depthO_node]
    cases h with
    | here => omega
    | step ha hp =>
      rename_i a m
      have h1 := depthO_max a m hp
      have h2 : depthO a ≤ maxList (args.map depthO) := le_maxList (List.mem_map.mpr ⟨a, ha, rfl⟩)
      have hne : args.isEmpty = false := by
        cases args with
        | nil => simp at ha
        | cons _ _ => rfl
      simp only [hne, Bool.false_eq_true, if_false]
      omega

/-- `s` is reached from `t` without passing below a leaf of the Boolean DAG (theory atom) -/
inductive Reach : Term → Term → Prop
  | refl (t : Term) : Reach t t
  | step {op args p a s} : boolDagStop op (Term.node op args p).typeOf = false → a ∈ args → Reach a s →
      Reach (.node op args p) s

theorem mem_boolDagO : (t : Term) → ∀ s, s ∈ boolDagO t ↔ Reach t s
  | .node op args p, s => by
    have ih : ∀ a ∈ args, ∀ s, s ∈ boolDagO a ↔ Reach a s := fun a _ => mem_boolDagO a
    rw [boolDagO_node]
    cases hstop : boolDagStop op (Term.node op args p).typeOf
    · simp only [Bool.false_eq_true, if_false, List.mem_cons, List.mem_flatten, List.mem_map]
      constructor
      · rintro (rfl | ⟨l, ⟨a, ha, rfl⟩, hs⟩)
        · exact .refl _
        · exact .step hstop ha ((ih a ha s).mp hs)
      · intro h
        cases h with
        | refl => exact .inl rfl
        | step _ ha hr => exact .inr ⟨_, ⟨_, ha, rfl⟩, (ih _ ha s).mpr hr⟩
    · simp only [if_true, List.mem_singleton]
      constructor
      · rintro rfl; exact .refl _
      · intro h
        cases h with
        | refl => rfl
        | step h' _ _ => rw [hstop] at h'; cases h'

/-! ## cardinalities (`len(frozenset(…))`) -/

theorem nodup_eraseDups {α} [BEq α] [LawfulBEq α] : (l : List α) → l.eraseDups.Nodup
  | [] => by simp
  | a :: as => by
    rw [List.eraseDups_cons, List.nodup_cons]
    refine ⟨?_, nodup_eraseDups _⟩
    rw [List.mem_eraseDups, List.mem_filter]
    simp
termination_by l => l.length
decreasing_by
  simp only [List.length_cons]
  exact Nat.lt_succ_of_le (List.length_filter_le _ _)

theorem isCard_eraseDups (l : List Term) (P : Term → Prop) (h : ∀ s, s ∈ l ↔ P s) :
    IsCard P l.eraseDups.length :=
  ⟨l.eraseDups, nodup_eraseDups l, fun s => by rw [List.mem_eraseDups]; exact h s, rfl⟩

end PySMT.Oracles
