import PySMT.Proofs.C07Perm
/-!
# C07: general command lists — `runStd (scriptOfCmds dag cmds)` is accepted when every command is legal where it stands
-/
namespace PySMT.Printer
open PySMT.Std PySMT.Sexp

theorem cmdNames : ("declare-sort" == "set-logic") = false ∧ ("declare-fun" == "set-logic") = false
    ∧ ("declare-fun" == "declare-sort") = false ∧ ("declare-const" == "set-logic") = false
    ∧ ("declare-const" == "declare-sort") = false ∧ ("declare-const" == "declare-fun") = false := by decide

theorem step_cmd (dag : Bool) (st : StdState) (c : Cmd) (h : cmdOK dag st c = true) :
    stepStd st (cmdSexp dag c) = .ok (cmdNext dag st c) := by
  cases c with
  | setLogic l =>
    simp only [cmdOK, Bool.and_eq_true, Bool.not_eq_true'] at h
    obtain ⟨⟨hls, hs⟩, hr⟩ := h
    have ha : atomOfText l = .atom l := by simp [atomOfText, lexChars_simple _ hs, String.ofList_toList]
    simp only [cmdSexp, ha, stepStd, beq_self_eq_true, if_true, stepSetLogic, hls, Bool.false_eq_true, if_false,
      symName?_simple l hs hr, cmdNext]
  | declareSort n k =>
    simp only [cmdOK, Bool.and_eq_true, Bool.not_eq_true', Option.isNone_iff_eq_none] at h
    obtain ⟨⟨⟨⟨hch, hr⟩, hpre⟩, hls⟩, hla⟩ := h
    obtain ⟨tok, htok, hsn⟩ := symTok n hch hr
    simp only [cmdSexp, declareSort, sortAtom, htok, natAtom, stepStd, cmdNames.1, beq_self_eq_true, if_true,
      Bool.false_eq_true, if_false, stepDeclareSort, hsn, numeral?_natStr, declareSortIn, hpre, hls, hla,
      Option.isSome_none, Bool.or_self, cmdNext]
  | declareFun s =>
    simp only [cmdOK, Bool.and_eq_true, Bool.not_eq_true', List.all_eq_true] at h
    obtain ⟨⟨⟨hfine, hnt⟩, hret⟩, hpar⟩ := h
    have hf := hfine
    simp only [nameFine, Bool.and_eq_true, Bool.not_eq_true'] at hf
    obtain ⟨tok, htok, hsn⟩ := symTok s.name hf.1.1 hf.1.2
    have h1 := sortStd_tySexp _ s.ret hret
    have h2 := sortStdList_tySexp _ s.params hpar
    simp only [cmdSexp, declareFun, htok, stepStd, cmdNames.2.1, cmdNames.2.2.1, beq_self_eq_true, if_true,
      Bool.false_eq_true, if_false, stepDeclareFun, hsn, declareSymIn, hnt, h1, h2, cmdNext]
  | declareConst s =>
    simp only [cmdOK, Bool.and_eq_true, Bool.not_eq_true', List.isEmpty_iff] at h
    obtain ⟨⟨⟨hpar, hfine⟩, hnt⟩, hret⟩ := h
    have hf := hfine
    simp only [nameFine, Bool.and_eq_true, Bool.not_eq_true'] at hf
    obtain ⟨tok, htok, hsn⟩ := symTok s.name hf.1.1 hf.1.2
    have h1 := sortStd_tySexp _ s.ret hret
    have hs : s = ⟨s.name, [], s.ret⟩ := by cases s; simp_all
    simp only [cmdSexp, htok, stepStd, cmdNames.2.2.2.1, cmdNames.2.2.2.2.1, cmdNames.2.2.2.2.2, beq_self_eq_true, if_true,
      Bool.false_eq_true, if_false, stepDeclareConst, hsn, declareSymIn, hnt, h1, sortStdList, cmdNext]
    rw [← hs]
  | assert t =>
    simp only [cmdOK, Bool.and_eq_true, beq_iff_eq, Bool.or_eq_true, Bool.not_eq_true'] at h
    obtain ⟨⟨hbool, hP⟩, hq⟩ := h
    have hrd : readStdTy st.env [] (if dag then toSexpDag t else toSexp t) = .ok (unfoldAVw (!dag) t, .bool) := by
      cases dag with
      | false =>
        obtain ⟨τ, hty, hr⟩ := read_toSexp_sort st.env t hP
        have : τ = .bool := by rw [hbool] at hty; exact (Option.some.inj hty).symm
        subst this
        simpa [unfoldAV_eq] using hr
      | true =>
        have hnq : noQuant t = true := by simpa using hq
        have hr := readStd_toSexpDag st.env t (dagOK_of_printable' _ t hP hnq)
        have : tyD t = .bool := by simp [tyD, hbool]
        rw [this] at hr
        simpa using hr
    simp only [cmdSexp, stepStd, show ("assert" == "set-logic") = false by decide,
      show ("assert" == "declare-sort") = false by decide, show ("assert" == "declare-fun") = false by decide,
      show ("assert" == "declare-const") = false by decide, show ("assert" == "define-fun") = false by decide,
      show ("assert" == "define-sort") = false by decide, beq_self_eq_true, if_true, Bool.false_eq_true, if_false,
      stepAssert, hrd, cmdNext, addAssert]
    cases st.asserts <;> rfl
  | push n =>
    simp only [cmdSexp, stepStd, show ("push" == "set-logic") = false by decide,
      show ("push" == "declare-sort") = false by decide, show ("push" == "declare-fun") = false by decide,
      show ("push" == "declare-const") = false by decide, show ("push" == "define-fun") = false by decide,
      show ("push" == "define-sort") = false by decide, show ("push" == "assert") = false by decide,
      show ("push" == "check-sat") = false by decide, show ("push" == "get-value") = false by decide,
      show ("push" == "check-sat-assuming") = false by decide, beq_self_eq_true, if_true, Bool.false_eq_true, if_false,
      levels?, natAtom, numeral?_natStr, cmdNext]
  | pop n =>
    simp only [cmdOK] at h
    simp only [cmdSexp, stepStd, show ("pop" == "set-logic") = false by decide,
      show ("pop" == "declare-sort") = false by decide, show ("pop" == "declare-fun") = false by decide,
      show ("pop" == "declare-const") = false by decide, show ("pop" == "define-fun") = false by decide,
      show ("pop" == "define-sort") = false by decide, show ("pop" == "assert") = false by decide,
      show ("pop" == "check-sat") = false by decide, show ("pop" == "get-value") = false by decide,
      show ("pop" == "check-sat-assuming") = false by decide, show ("pop" == "push") = false by decide,
      beq_self_eq_true, if_true, Bool.false_eq_true, if_false, levels?, natAtom, numeral?_natStr, cmdNext]
    cases hp : popN st n with
    | ok st' => rfl
    | error e => rw [hp] at h; simp at h
  | checkSat =>
    simp only [cmdSexp, stepStd, show ("check-sat" == "set-logic") = false by decide,
      show ("check-sat" == "declare-sort") = false by decide, show ("check-sat" == "declare-fun") = false by decide,
      show ("check-sat" == "declare-const") = false by decide, show ("check-sat" == "define-fun") = false by decide,
      show ("check-sat" == "define-sort") = false by decide,
      show ("check-sat" == "assert") = false by decide, beq_self_eq_true, if_true, Bool.false_eq_true, if_false,
      List.isEmpty_nil, cmdNext]

theorem runStdFrom_cmds (dag : Bool) : ∀ (cmds : List Cmd) (st : StdState) (k : Nat), cmdsOK dag st cmds = true →
    runStdFrom st k (scriptOfCmds dag cmds) = .ok (cmdsRun dag st cmds)
  | [], st, k, _ => rfl
  | c :: cs, st, k, h => by
    simp only [cmdsOK, Bool.and_eq_true] at h
    simp only [scriptOfCmds, List.map_cons, runStdFrom, step_cmd dag st c h.1, cmdsRun]
    exact runStdFrom_cmds dag cs _ (k + 1) h.2

/-- **General scripts are accepted**: a list of set-logic / declare-sort / declare-fun / declare-const / assert / push /
pop / check-sat commands, serialised by `SmtLibScript.serialize(daggify)`, is accepted by the strict interpreter `runStd`
whenever every command is legal where it stands (`cmdsOK`: names speakable and not yet taken, sorts declared, every
asserted formula `Printable` — in particular all its symbols declared and in scope — in the environment built by the
commands before it, `pop` not below the first level); the final state is `cmdsRun`, whose live assertions are the
asserted formulas that were not popped (array values as store chains). Conversely a use before declaration or after the
`pop` of its declaration makes `Printable` (hence `cmdsOK`) false. -/
theorem cmds_accepted (dag : Bool) (cmds : List Cmd) (h : cmdsOK dag StdState.init cmds = true) :
    runStd (scriptOfCmds dag cmds) = .ok (cmdsRun dag StdState.init cmds) :=
  runStdFrom_cmds dag cmds StdState.init 0 h

end PySMT.Printer
