import PySMT.Proofs.C15ParserRefine
/-!
# C15, parser objects — the commands of the session model compute the functional model's (`lc = false`)

`cmdS_ref`: one command; `getCommands_ref`: a sequence of commands read by one parser object is `Parser.script` from the
object's current environment; `getScript_ref`: `get_script` is `Parser.script` from `PEnv.init` on the environment's
formula manager.
-/
namespace PySMT.ParserSession
open PySMT.Parser PySMT.Gen.ParserOps

/-- the other side's `match` in a fall-through case: the same fall-through, or a pattern the hypothesis excludes -/
macro "fall" : tactic =>
  `(tactic| (split <;> first | rfl | (exfalso; simp_all; done) | (rename_i h; exact (h _ _ _ _ rfl).elim)))

theorem readTermS_ref (st : St) (s : Sexp) :
    readTermSt st.env s = img (readTermS false st s) (fun t s' => (t, s'.mgr)) := by
  unfold readTermSt readTermS
  rw [rdValS_ref s st true]
  rcases hr : rdValS false st true s with ⟨_ | v, st1⟩
  · rfl
  · cases v <;> rfl

theorem readTermsS_ref : ∀ (l : List Sexp) (st : St),
    readTerms st.env l = img (readTermsS false st l) (fun ts s' => (ts, s'.mgr)) := by
  intro l
  induction l with
  | nil => intro st; rfl
  | cons s rest ih =>
    intro st
    simp only [readTerms, readTermsS]
    rw [readTermS_ref st s]
    have hp := readTermS_post false st s
    rcases hr : readTermS false st s with ⟨_ | t, st1⟩
    · rfl
    · rw [hr] at hp
      simp only [img_ok]
      rw [← env_eq_of_post hp, ih st1]
      rcases hr2 : readTermsS false st1 rest with ⟨_ | ts, st2⟩ <;> rfl

theorem bindFormalsS_ref : ∀ (fts : List (String × Ty)) (st : St) (acc : List Sym),
    bindFormalsT st.env fts acc = img (bindFormalsS st fts acc) (fun fs s' => (s'.env, fs)) := by
  intro fts
  induction fts with
  | nil => intro st acc; rfl
  | cons ft fts ih =>
    intro st acc
    obtain ⟨x, t⟩ := ft
    simp only [bindFormalsT, bindFormalsS]
    rw [show st.env.mgr = st.mgr from rfl]
    cases hm : mkFresh st.mgr ("__" ++ x) [] t with
    | error e => rfl
    | ok r =>
      obtain ⟨s, σ⟩ := r
      exact ih ((st.setMgr σ).bind x (.term (Term.sym s))) (s :: acc)

theorem softOptsS_ref (l : List Sexp) (st : St) (w : Option Term) (i : Option String) :
    softOpts st.env l w i = img (softOptsS false st l w i) (fun p s' => (p.1, p.2, s'.mgr)) := by
  match l with
  | [] => simp only [softOpts, softOptsS]; rfl
  | [_] => simp only [softOpts, softOptsS]; rfl
  | k :: v :: rest =>
    simp only [softOpts, softOptsS]
    cases k with
    | atom kt =>
      dsimp only
      split
      · rw [readTermS_ref st v]
        have hp := readTermS_post false st v
        rcases hr : readTermS false st v with ⟨_ | t, st1⟩
        · rfl
        · rw [hr] at hp
          simp only [img_ok]
          rw [← env_eq_of_post hp]
          exact softOptsS_ref rest st1 _ _
      · split
        · cases tokOf v with
          | none => rfl
          | some x => exact softOptsS_ref rest st _ _
        · rfl
    | _ => rfl
termination_by l.length

/-- the functional handlers return the environment with the new manager state: so does the session -/
theorem env_img {α : Type} {st st1 : St} {x : α} (hp : Post false st (.ok x : Except Err α) st1) :
    ({ st.env with mgr := st1.mgr } : PEnv) = st1.env := (env_eq_of_post hp).symm

theorem cmdAssertS_ref (st : St) (args : List Sexp) :
    cmdAssert st.env args = img (cmdAssertS false st args) (fun k s' => (s'.env, k)) := by
  unfold cmdAssert cmdAssertS
  split
  · next t =>
    dsimp only
    rw [readTermS_ref st t]
    have hp := readTermS_post false st t
    rcases hr : readTermS false st t with ⟨_ | t', st1⟩
    · rfl
    · rw [hr] at hp
      simp only [img_ok]
      rw [env_img hp]
      split <;> rfl
  · fall

theorem cmdTermsS_ref (st : St) (nm : String) (args : List Sexp) :
    cmdTerms st.env nm args = img (cmdTermsS false st nm args) (fun k s' => (s'.env, k)) := by
  unfold cmdTerms cmdTermsS
  split
  · next ts =>
    dsimp only
    rw [readTermsS_ref ts st]
    have hp := readTermsS_post false ts st
    rcases hr : readTermsS false st ts with ⟨_ | ts', st1⟩
    · rfl
    · rw [hr] at hp
      simp only [img_ok]
      rw [env_img hp]
  · fall

theorem softOptsS_post (l : List Sexp) (st : St) (w : Option Term) (i : Option String) :
    Post false st (softOptsS false st l w i).1 (softOptsS false st l w i).2 := by
  match l with
  | [] => simp only [softOptsS]; exact Post.refl _ _ _
  | [_] => simp only [softOptsS]; exact Post.refl _ _ _
  | k :: v :: rest =>
    simp only [softOptsS]
    split
    · split
      · have h := readTermS_post false st v
        split
        · next t st1 hh =>
          obtain ⟨h1, h2⟩ := res_eq hh; rw [h1, h2] at h
          exact h.trans (softOptsS_post rest st1 _ _)
        · next hh => obtain ⟨h1, h2⟩ := res_eq hh; rw [h1, h2] at h; exact h.err _
      · split
        · split
          · exact softOptsS_post rest st _ _
          · exact Post.refl _ _ _
        · exact Post.refl _ _ _
    · exact Post.refl _ _ _
termination_by l.length

theorem cmdAssertSoftS_ref (st : St) (args : List Sexp) :
    cmdAssertSoft st.env args = img (cmdAssertSoftS false st args) (fun k s' => (s'.env, k)) := by
  unfold cmdAssertSoft cmdAssertSoftS
  split
  · next e opts =>
    dsimp only
    rw [readTermS_ref st e]
    have hp := readTermS_post false st e
    rcases hr : readTermS false st e with ⟨_ | t, st1⟩
    · rfl
    · rw [hr] at hp
      simp only [img_ok]
      rw [env_img hp, softOptsS_ref opts st1 none none]
      have hp2 := softOptsS_post opts st1 none none
      rcases hr2 : softOptsS false st1 opts none none with ⟨_ | ⟨w, i⟩, st2⟩
      · rfl
      · rw [hr2] at hp2
        simp only [img_ok]
        rw [env_img (hp.trans hp2)]
  · fall

theorem cmdObjectiveS_ref (st : St) (nm : String) (args : List Sexp) :
    cmdObjective st.env nm args = img (cmdObjectiveS false st nm args) (fun k s' => (s'.env, k)) := by
  unfold cmdObjective cmdObjectiveS
  split
  · next e opts =>
    dsimp only
    rw [readTermS_ref st e]
    have hp := readTermS_post false st e
    rcases hr : readTermS false st e with ⟨_ | t, st1⟩
    · rfl
    · rw [hr] at hp
      simp only [img_ok]
      cases objOpts opts [] with
      | error e' => rfl
      | ok os => simp only [img_ok]; rw [env_img hp]
  · fall

theorem cmdMinmaxS_ref (st : St) (nm : String) (args : List Sexp) :
    cmdMinmax st.env nm args = img (cmdMinmaxS false st nm args) (fun k s' => (s'.env, k)) := by
  unfold cmdMinmax cmdMinmaxS
  dsimp only
  rw [readTermsS_ref _ st]
  have hp := readTermsS_post false (args.takeWhile (fun x => !isOptTok x)) st
  rcases hr : readTermsS false st (args.takeWhile (fun x => !isOptTok x)) with ⟨_ | ts, st1⟩
  · rfl
  · rw [hr] at hp
    simp only [img_ok]
    cases objOpts (args.dropWhile (fun x => !isOptTok x)) [] with
    | error e' => rfl
    | ok os => simp only [img_ok]; rw [env_img hp]

theorem cmdDefineFunS_ref (st : St) (args : List Sexp) :
    cmdDefineFun st.env args = img (cmdDefineFunS false st args) (fun k s' => (s'.env, k)) := by
  unfold cmdDefineFun cmdDefineFunS
  split
  · next n ps r body =>
    dsimp only
    rw [show st.env.binds = st.keys from rfl]
    cases hft : formalTypes st.env ps with
    | error e => cases readTy st.keys [] r <;> rfl
    | ok fts =>
      cases hrt : readTy st.keys [] r with
      | error e => rfl
      | ok rt =>
        dsimp only
        rw [bindFormalsS_ref fts st []]
        obtain ⟨P1, hr1, hc1⟩ := bindFormalsS_rel st fts st [] [] (Rel.refl st)
        rcases hbf : bindFormalsS st fts [] with ⟨_ | formals, st1⟩
        · rfl
        · rw [hbf] at hr1 hc1
          have hc := hc1 ⟨formals, rfl⟩
          simp only [img_ok]
          rw [readTermS_ref st1 body]
          have hp := readTermS_post false st1 body
          rcases hrb : readTermS false st1 body with ⟨_ | b, st2⟩
          · rfl
          · rw [hrb] at hp
            simp only [img_ok]
            generalize (if (b.typeOf == some Ty.int && rt == Ty.real && b.fv.isEmpty) = true then liftMk (Mk.ToReal b)
              else Except.ok b) = rb
            generalize (if (b.typeOf == some Ty.int && rt == Ty.real && b.fv.isEmpty) = true then some Ty.real
              else b.typeOf) = bt
            cases rb with
            | error e => rfl
            | ok b' =>
              dsimp only
              by_cases hne : bt ≠ some rt
              · simp only [if_pos hne]; rfl
              · have hrest : Post false st (.ok () : Except Err Unit) (unbindAllS (fts.map (·.1)) st2) :=
                  unbindAll_post hr1 (fun m => by rw [hc m]; simp) (fun _ m => by rw [hc m]; simp) hp _
                obtain ⟨hk, hia⟩ := env_of_post hrest
                have hia' : st2.intArith = st.intArith := by simpa using hia
                simp only [if_neg hne, img_ok]
                congr 2
                simp [St.env, St.bind, hk, hia']
  · fall

theorem cmdNamedS_ref (st : St) (nm : String) (args : List Sexp) :
    cmdNamed st.env nm args = img (cmdNamedS false st nm args) (fun k s' => (s'.env, k)) := by
  unfold cmdNamedS
  split
  · next h => rw [← cmdAssertS_ref]; simp [cmdNamed, h]
  · next h1 =>
    split
    · next h =>
      rw [← cmdDefineFunS_ref]
      have : nm = "define-fun" := by simpa using h
      subst this
      simp +decide [cmdNamed]
    · next h2 =>
      split
      · next h =>
        rw [← cmdTermsS_ref]
        simp only [Bool.or_eq_true, beq_iff_eq] at h
        rcases h with (rfl | rfl) | rfl <;> simp +decide [cmdNamed]
      · next h3 =>
        split
        · next h =>
          rw [← cmdAssertSoftS_ref]
          have : nm = "assert-soft" := by simpa using h
          subst this
          simp +decide [cmdNamed]
        · next h4 =>
          split
          · next h =>
            rw [← cmdObjectiveS_ref]
            simp only [Bool.or_eq_true, beq_iff_eq] at h
            rcases h with rfl | rfl <;> simp +decide [cmdNamed]
          · next h5 =>
            split
            · next h =>
              rw [← cmdMinmaxS_ref]
              simp only [Bool.or_eq_true, beq_iff_eq] at h
              rcases h with rfl | rfl <;> simp +decide [cmdNamed]
            · unfold liftPure
              cases cmdNamed st.env nm args with
              | error e => rfl
              | ok r => obtain ⟨Γ', k⟩ := r; rfl

/-- **one command**: `cmdS false` is `Parser.cmd` (same command and same environment afterwards, or same exception) -/
theorem cmdS_ref (st : St) (c : Sexp) : cmd st.env c = img (cmdS false st c) (fun k s' => (s'.env, k)) := by
  unfold cmd cmdS
  split
  · next name args =>
    dsimp only
    split
    · have h := cmdNamedS_ref st.checkpoint (pyTok name) args
      rw [show st.checkpoint.env = st.env from rfl] at h
      rw [h]
      rcases hr : cmdNamedS false st.checkpoint (pyTok name) args with ⟨_ | k, st1⟩ <;> rfl
    · rfl
  · fall

/-- **a sequence of commands on one parser object** is `Parser.script` from the object's current environment -/
theorem getCommands_ref : ∀ (cs : List Sexp) (st : St),
    script st.env cs = (match (getCommands false st cs).1.err with
      | none => .ok (getCommands false st cs).1.cmds
      | some e => .error e) := by
  intro cs
  induction cs with
  | nil => intro st; rfl
  | cons c rest ih =>
    intro st
    simp only [script, getCommands]
    rw [cmdS_ref st c]
    rcases hr : cmdS false st c with ⟨_ | k, st1⟩
    · rfl
    · simp only [img_ok]
      rw [ih st1]
      cases (getCommands false st1 rest).1.err <;> rfl

/-- **`get_script`** is `Parser.script` from the initial environment on the environment's formula manager -/
theorem getScript_ref (st : St) (cs : List Sexp) :
    script { PEnv.init with mgr := st.mgr } cs = (getScript false st cs).1.map (·.1) := by
  have h := getCommands_ref cs st.reset
  rw [show st.reset.env = { PEnv.init with mgr := st.mgr } from rfl] at h
  rw [h]
  unfold getScript scriptResult
  dsimp only
  cases (getCommands false st.reset cs).1.err <;> rfl

end PySMT.ParserSession
