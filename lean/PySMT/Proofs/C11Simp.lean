import PySMT.Proofs.SimpMain
import PySMT.Proofs.C11Main
/-!
# C11 — the CNF theorems for the real simplifier model `PySMT.Simplifier.simp` (C01)

The CNFizers call `simplify` only to negate literals (`Not(a).simplify()`).  `simpArgs key t` lists the
terms on which `simp` is applied during `convert` (the literal, or what is left of it after `Not`
stripped a leading negation).  Under the side condition `SimpSide` — each of them is a definition
symbol, or a well-formed Boolean term of C01's fragment `inFrag` over the input's symbols in which the
given interpretation evaluates no division by zero — `C01.simp_sound_partial` discharges the
abstract hypotheses `SimpSound`/`SimpSym` of `Proofs/C11Main.lean`.

Technique: `convert` depends on the simplifier only through its values on `simpArgs`
(`enc_congr`, `encP_congr`), so the real simplifier can be replaced by one that is the identity off
that list, for which soundness at *every* term follows from the side condition.
-/
namespace PySMT.C11.Proofs
open PySMT.CNF PySMT.PolCNF PySMT.Simplifier

/-! ## where the simplifier is applied -/

/-- `Not(a).simplify()` applies `simplify` to this term -/
def negArg : Term → Term
  | .node .not [x] _ => x
  | a => a

/-- the literals that `enc` negates (a superset: the `not` rule is listed also when it answers a constant) -/
def negCalls (E : Env) : Term → List Term
  | .node op args p =>
    match op, args with
    | .and, [a] => negCalls E a
    | .and, as => as.map (fun a => (enc E a).1) ++ (as.map (negCalls E)).flatten
    | .or, [a] => negCalls E a
    | .or, as => as.map (fun a => (enc E a).1) ++ (as.map (negCalls E)).flatten
    | .not, [a] => (enc E a).1 :: negCalls E a
    | .implies, [a, b] => (enc E a).1 :: (enc E b).1 :: (negCalls E a ++ negCalls E b)
    | .iff, [a, b] => (enc E a).1 :: (enc E b).1 :: (negCalls E a ++ negCalls E b)
    | .ite, [i, th, el] =>
      if ph (.node .ite [i, th, el] p) then []
      else (enc E i).1 :: (enc E th).1 :: (enc E el).1 :: (negCalls E i ++ negCalls E th ++ negCalls E el)
    | _, _ => []

/-- every term on which the simplifier is applied by `CNF.convert` / `PolCNF.convert` on `t` -/
def simpArgs (key : Term → Sym) (t : Term) : List Term :=
  (((enc ⟨key, simp⟩ t).1) :: negCalls ⟨key, simp⟩ t).map negArg

theorem negLit_congr {E₁ E₂ : Env} {a : Term} (h : E₁.simp (negArg a) = E₂.simp (negArg a)) :
    negLit E₁ a = negLit E₂ a := by
  unfold negLit
  split
  · next x p => simpa [negArg] using h
  · next hne =>
    have : negArg a = a := by
      unfold negArg
      split
      · next x p => exact absurd rfl (hne x p)
      · rfl
    rw [this] at h
    rw [h]

/-- the two environments negate the literals in `ls` alike -/
def Agree (E₁ E₂ : Env) (ls : List Term) : Prop := ∀ l ∈ ls, E₁.simp (negArg l) = E₂.simp (negArg l)

theorem Agree.negLit {E₁ E₂ : Env} {ls : List Term} (h : Agree E₁ E₂ ls) {l : Term} (hl : l ∈ ls) :
    CNF.negLit E₁ l = CNF.negLit E₂ l := negLit_congr (h l hl)

theorem Agree.mono {E₁ E₂ : Env} {ls ls' : List Term} (h : Agree E₁ E₂ ls) (hs : ∀ l ∈ ls', l ∈ ls) :
    Agree E₁ E₂ ls' := fun l hl => h l (hs l hl)

theorem negCalls_and_many (E : Env) (args : List Term) (p : Payload) (h : ∀ a, args = [a] → False) :
    negCalls E (.node .and args p) = args.map (fun a => (enc E a).1) ++ (args.map (negCalls E)).flatten := by
  rw [negCalls.eq_def]; simp only

theorem negCalls_or_many (E : Env) (args : List Term) (p : Payload) (h : ∀ a, args = [a] → False) :
    negCalls E (.node .or args p) = args.map (fun a => (enc E a).1) ++ (args.map (negCalls E)).flatten := by
  rw [negCalls.eq_def]; simp only

theorem mem_flatten_map {α β} {f : α → List β} {l : List α} {a : α} {x : β} (ha : a ∈ l) (hx : x ∈ f a) :
    x ∈ (l.map f).flatten := by
  simp only [List.mem_flatten, List.mem_map]
  exact ⟨f a, ⟨a, ha, rfl⟩, hx⟩

/-! ## `enc` depends on the simplifier only through the negated literals -/

theorem enc_congr (E₁ E₂ : Env) (hkey : E₁.key = E₂.key) :
    (g : Term) → Agree E₁ E₂ (negCalls E₁ g) → enc E₁ g = enc E₂ g
  | .node op args p => by
    have ih : ∀ a ∈ args, Agree E₁ E₂ (negCalls E₁ a) → enc E₁ a = enc E₂ a :=
      fun a _ => enc_congr E₁ E₂ hkey a
    revert ih
    rw [enc.eq_def]; simp only
    split <;> intro ih hag
    · next a =>
      rw [enc_and_one]
      exact ih a (by simp) (by rw [negCalls.eq_def] at hag; exact hag)
    · next hne =>
      rw [enc_and_many E₂ _ _ hne, hkey]
      rw [negCalls_and_many E₁ _ _ hne] at hag
      have hch : ∀ a ∈ args, enc E₁ a = enc E₂ a := fun a ha =>
        ih a ha (hag.mono (fun l hl => List.mem_append_right _ (mem_flatten_map ha hl)))
      have hm : args.map (enc E₁) = args.map (enc E₂) := List.map_congr_left hch
      have hn : (args.map (enc E₁)).map (fun r => negLit E₁ r.1) = (args.map (enc E₂)).map (fun r => negLit E₂ r.1) := by
        rw [← hm, List.map_map, List.map_map]
        apply List.map_congr_left
        intro a ha
        exact hag.negLit (List.mem_append_left _ (List.mem_map.mpr ⟨a, ha, rfl⟩))
      rw [hn, hm]
    · next a =>
      rw [enc_or_one]
      exact ih a (by simp) (by rw [negCalls.eq_def] at hag; exact hag)
    · next hne =>
      rw [enc_or_many E₂ _ _ hne, hkey]
      rw [negCalls_or_many E₁ _ _ hne] at hag
      have hch : ∀ a ∈ args, enc E₁ a = enc E₂ a := fun a ha =>
        ih a ha (hag.mono (fun l hl => List.mem_append_right _ (mem_flatten_map ha hl)))
      have hm : args.map (enc E₁) = args.map (enc E₂) := List.map_congr_left hch
      have hn : (args.map (enc E₁)).map (fun r => [Term.sym (E₂.key (.node .or args p)), negLit E₁ r.1]) =
          (args.map (enc E₂)).map (fun r => [Term.sym (E₂.key (.node .or args p)), negLit E₂ r.1]) := by
        rw [← hm, List.map_map, List.map_map]
        apply List.map_congr_left
        intro a ha
        simp only [Function.comp]
        rw [hag.negLit (List.mem_append_left _ (List.mem_map.mpr ⟨a, ha, rfl⟩))]
      rw [hn, hm]
    · next a =>
      rw [negCalls.eq_def] at hag
      have ha := ih a (by simp) (hag.mono (fun l hl => List.mem_cons_of_mem _ hl))
      rw [enc_not, ← ha, hag.negLit List.mem_cons_self]
    · next a b =>
      rw [negCalls.eq_def] at hag
      simp only at hag
      have ha := ih a (by simp) (hag.mono (fun l hl => by simp [hl]))
      have hb := ih b (by simp) (hag.mono (fun l hl => by simp [hl]))
      have na := hag.negLit (l := (enc E₁ a).1) (by simp)
      have nb := hag.negLit (l := (enc E₁ b).1) (by simp)
      rw [enc_implies, ← ha, ← hb, na, nb, hkey]
    · next a b =>
      rw [negCalls.eq_def] at hag
      simp only at hag
      have ha := ih a (by simp) (hag.mono (fun l hl => by simp [hl]))
      have hb := ih b (by simp) (hag.mono (fun l hl => by simp [hl]))
      have na := hag.negLit (l := (enc E₁ a).1) (by simp)
      have nb := hag.negLit (l := (enc E₁ b).1) (by simp)
      rw [enc_iff, ← ha, ← hb, na, nb, hkey]
    · next i th el =>
      rw [negCalls.eq_def] at hag
      simp only at hag
      by_cases hph : ph (Term.node .ite [i, th, el] p) = true
      · rw [enc_ite]; simp only [hph, if_true]
      simp only [hph, if_false] at hag
      have hi := ih i (by simp) (hag.mono (fun l hl => by simp [hl]))
      have ht := ih th (by simp) (hag.mono (fun l hl => by simp [hl]))
      have he := ih el (by simp) (hag.mono (fun l hl => by simp [hl]))
      have ni := hag.negLit (l := (enc E₁ i).1) (by simp)
      have nt := hag.negLit (l := (enc E₁ th).1) (by simp)
      have ne := hag.negLit (l := (enc E₁ el).1) (by simp)
      rw [enc_ite, ← hi, ← ht, ← he, ni, nt, ne, hkey]
    · next h1 h2 _ _ h5 h6 h7 h8 => rw [enc_default E₂ _ _ _ h1 h2 h5 h6 h7 h8]

/-! ## the same for the polarity encoding -/

theorem encP_congr (E₁ E₂ : Env) (hkey : E₁.key = E₂.key) :
    (g : Term) → Agree E₁ E₂ (negCalls E₁ g) → ∀ pol, encP E₁ g pol = encP E₂ g pol
  | .node op args p => by
    intro hag pol
    have ih : ∀ a ∈ args, Agree E₁ E₂ (negCalls E₁ a) → ∀ pol, encP E₁ a pol = encP E₂ a pol :=
      fun a _ => encP_congr E₁ E₂ hkey a
    have hl : ∀ a : Term, ∀ pol, (encP E₁ a pol).1 = (enc E₁ a).1 := fun a => encP_lit E₁ a
    revert ih hag
    rw [encP.eq_def, encP.eq_def]; simp only
    split <;> intro hag ih
    · next a =>
      exact ih a (by simp) (by rw [negCalls.eq_def] at hag; exact hag) pol
    · next hne =>
      rw [negCalls_and_many E₁ _ _ hne] at hag
      have hch : ∀ a ∈ args, ∀ pol, encP E₁ a pol = encP E₂ a pol := fun a ha =>
        ih a ha (hag.mono (fun l hl => List.mem_append_right _ (mem_flatten_map ha hl)))
      have hm : args.map (fun a => encP E₁ a pol) = args.map (fun a => encP E₂ a pol) :=
        List.map_congr_left (fun a ha => hch a ha pol)
      have hn : (args.map (fun a => encP E₁ a pol)).map (fun r => negLit E₁ r.1) =
          (args.map (fun a => encP E₂ a pol)).map (fun r => negLit E₂ r.1) := by
        rw [← hm, List.map_map, List.map_map]
        apply List.map_congr_left
        intro a ha
        simp only [Function.comp, hl]
        exact hag.negLit (List.mem_append_left _ (List.mem_map.mpr ⟨a, ha, rfl⟩))
      rw [hn, hm, hkey]
    · next a =>
      exact ih a (by simp) (by rw [negCalls.eq_def] at hag; exact hag) pol
    · next hne =>
      rw [negCalls_or_many E₁ _ _ hne] at hag
      have hch : ∀ a ∈ args, ∀ pol, encP E₁ a pol = encP E₂ a pol := fun a ha =>
        ih a ha (hag.mono (fun l hl => List.mem_append_right _ (mem_flatten_map ha hl)))
      have hm : args.map (fun a => encP E₁ a pol) = args.map (fun a => encP E₂ a pol) :=
        List.map_congr_left (fun a ha => hch a ha pol)
      have hn : (args.map (fun a => encP E₁ a pol)).map (fun r => [Term.sym (E₂.key (.node .or args p)), negLit E₁ r.1]) =
          (args.map (fun a => encP E₂ a pol)).map (fun r => [Term.sym (E₂.key (.node .or args p)), negLit E₂ r.1]) := by
        rw [← hm, List.map_map, List.map_map]
        apply List.map_congr_left
        intro a ha
        simp only [Function.comp, hl]
        rw [hag.negLit (List.mem_append_left _ (List.mem_map.mpr ⟨a, ha, rfl⟩))]
      rw [hkey, hn, hm]
    · next a =>
      rw [negCalls.eq_def] at hag
      have ha := ih a (by simp) (hag.mono (fun l hl => List.mem_cons_of_mem _ hl)) (!pol)
      have na := hag.negLit (l := (enc E₁ a).1) List.mem_cons_self
      rw [← hl a (!pol)] at na
      rw [← ha, na]
    · next a b =>
      rw [negCalls.eq_def] at hag
      simp only at hag
      have ha := ih a (by simp) (hag.mono (fun l hl => by simp [hl]))
      have hb := ih b (by simp) (hag.mono (fun l hl => by simp [hl]))
      have na := hag.negLit (l := (enc E₁ a).1) (by simp)
      have nb := hag.negLit (l := (enc E₁ b).1) (by simp)
      rw [← hl a (!pol)] at na
      rw [← hl b pol] at nb
      rw [← ha, ← hb, na, nb, hkey]
    · next a b =>
      rw [negCalls.eq_def] at hag
      simp only at hag
      have ha := ih a (by simp) (hag.mono (fun l hl => by simp [hl]))
      have hb := ih b (by simp) (hag.mono (fun l hl => by simp [hl]))
      have na := hag.negLit (l := (enc E₁ a).1) (by simp)
      have nb := hag.negLit (l := (enc E₁ b).1) (by simp)
      rw [← hl a pol] at na
      rw [← hl b pol] at nb
      rw [← ha pol, ← hb pol, ← ha (!pol), ← hb (!pol), na, nb, hkey]
    · next i th el =>
      rw [negCalls.eq_def] at hag
      simp only at hag
      by_cases hph : ph (Term.node .ite [i, th, el] p) = true
      · simp only [hph, if_true]
      simp only [hph, if_false] at hag
      have hi := ih i (by simp) (hag.mono (fun l hl => by simp [hl]))
      have ht := ih th (by simp) (hag.mono (fun l hl => by simp [hl]))
      have he := ih el (by simp) (hag.mono (fun l hl => by simp [hl]))
      have ni := hag.negLit (l := (enc E₁ i).1) (by simp)
      have nt := hag.negLit (l := (enc E₁ th).1) (by simp)
      have ne := hag.negLit (l := (enc E₁ el).1) (by simp)
      rw [← hl i pol] at ni
      rw [← hl th pol] at nt
      rw [← hl el pol] at ne
      rw [← hi pol, ← hi (!pol), ← ht pol, ← he pol, ni, nt, ne, hkey]
    · rfl

theorem finish_congr (E₁ E₂ : Env) (tl : Term) (cs : List Clause) (h : negLit E₁ tl = negLit E₂ tl) :
    finish E₁ tl cs = finish E₂ tl cs := by
  have hc : cleanClause E₁ tl = cleanClause E₂ tl := by
    funext c
    simp only [cleanClause, h]
  simp only [finish, hc]

/-! ## the restricted simplifier -/

/-- `simp` on the terms of `S`, the identity elsewhere -/
def simpOn (S : List Term) (x : Term) : Term := if S.contains x then simp x else x

theorem simp_sym (s : Sym) : simp (Term.sym s) = Term.sym s := by
  simp [simp, simpWith, Term.sym, ruleOf, Simp.keep]

theorem simpSym_simpOn (S : List Term) : SimpSym (simpOn S) := by
  intro s
  unfold simpOn
  split
  · exact simp_sym s
  · rfl

/-- The exact side condition of the `*_simp` theorems: every term the CNFizer hands to the simplifier is
a definition symbol, or a well-formed (`wf`) Boolean term of C01's fragment (`inFrag`) over the symbols
of the input, in which `I` evaluates no division by zero. -/
def SimpSide (key : Term → Sym) (t : Term) (I : Interp) : Prop :=
  ∀ x ∈ simpArgs key t, (∃ s, x = Term.sym s) ∨
    (x.wf = true ∧ inFrag x = true ∧ x.typeOf = some .bool ∧ (∀ s ∈ x.fv, s ∈ t.fv) ∧ div0 I x = false)

theorem sameOn_restrict {t x : Term} {I I' : Interp} (h : SameOn t I I') (hx : ∀ s ∈ x.fv, s ∈ t.fv) :
    SameOn x I I' := ⟨fun s hs => h.sym s (hx s hs), h.fn, h.dom, h.div0r, h.div0i⟩

theorem simpSound_simpOn (key : Term → Sym) (t : Term) (I : Interp) (hI : I.WF) (hside : SimpSide key t I) :
    SimpSound (simpOn (simpArgs key t)) t I := by
  intro I' hsame x
  unfold simpOn
  split
  · next hmem =>
    rcases hside x (List.contains_iff_mem.mp hmem) with ⟨s, rfl⟩ | ⟨hwf, hfr, hty, hfv, hd⟩
    · rw [simp_sym]
    · have hfv' : ∀ s ∈ (simp x).fv, s ∈ t.fv := fun s hs =>
        hfv s ((simp_spec x hwf hfr .bool hty).2.2 s hs)
      rw [← (sameOn_restrict hsame hfv').tv, ← (sameOn_restrict hsame hfv).tv]
      simp only [tv, ((simp_spec x hwf hfr .bool hty).2.1 I hI hd).1]
  · rfl

theorem agree_simpOn (key : Term → Sym) (t : Term) (ls : List Term)
    (h : ∀ l ∈ ls, negArg l ∈ simpArgs key t) : Agree ⟨key, simp⟩ ⟨key, simpOn (simpArgs key t)⟩ ls := by
  intro l hl
  simp only [simpOn, List.contains_iff_mem.mpr (h l hl), if_true]

theorem cnf_convert_simpOn (key : Term → Sym) (t : Term) :
    CNF.convert ⟨key, simpOn (simpArgs key t)⟩ t = CNF.convert ⟨key, simp⟩ t := by
  have hag : Agree ⟨key, simp⟩ ⟨key, simpOn (simpArgs key t)⟩ ((enc ⟨key, simp⟩ t).1 :: negCalls ⟨key, simp⟩ t) :=
    agree_simpOn key t _ (fun l hl => List.mem_map.mpr ⟨l, hl, rfl⟩)
  have henc := enc_congr ⟨key, simp⟩ ⟨key, simpOn (simpArgs key t)⟩ rfl t
    (hag.mono (fun l hl => List.mem_cons_of_mem _ hl))
  unfold CNF.convert
  rw [← henc, finish_congr _ ⟨key, simp⟩ _ _ (hag.negLit List.mem_cons_self).symm]

theorem pol_convert_simpOn (key : Term → Sym) (t : Term) :
    PolCNF.convert ⟨key, simpOn (simpArgs key t)⟩ t = PolCNF.convert ⟨key, simp⟩ t := by
  have hag : Agree ⟨key, simp⟩ ⟨key, simpOn (simpArgs key t)⟩ ((enc ⟨key, simp⟩ t).1 :: negCalls ⟨key, simp⟩ t) :=
    agree_simpOn key t _ (fun l hl => List.mem_map.mpr ⟨l, hl, rfl⟩)
  have henc := encP_congr ⟨key, simp⟩ ⟨key, simpOn (simpArgs key t)⟩ rfl t
    (hag.mono (fun l hl => List.mem_cons_of_mem _ hl)) true
  have hneg := hag.negLit (l := (enc ⟨key, simp⟩ t).1) List.mem_cons_self
  rw [← encP_lit ⟨key, simp⟩ t true] at hneg
  unfold PolCNF.convert
  rw [← henc, finish_congr _ ⟨key, simp⟩ _ _ hneg.symm]

theorem keysFresh_simpOn {key : Term → Sym} {u : Sym → Option Term} {t : Term} {σ : Term → Term}
    (h : KeysFresh ⟨key, simp⟩ u t) : KeysFresh ⟨key, σ⟩ u t := ⟨h.inv, h.fresh, h.bool⟩

/-! ## the theorems for the real simplifier -/

theorem cnf_sound_simp (key : Term → Sym) (u : Sym → Option Term) (t : Term) (J : Interp) (R : List Clause)
    (hkeys : KeysFresh ⟨key, simp⟩ u t) (hJ : J.WF) (hside : SimpSide key t J)
    (hR : CNF.convert ⟨key, simp⟩ t = some R) (h : eval J (formulaOf R) = .b true) : eval J t = .b true :=
  cnf_sound ⟨key, simpOn (simpArgs key t)⟩ u t J R (keysFresh_simpOn hkeys) (simpSym_simpOn _)
    (simpSound_simpOn key t J hJ hside) (by rw [cnf_convert_simpOn]; exact hR) h

theorem cnf_complete_simp (key : Term → Sym) (u : Sym → Option Term) (t : Term) (I : Interp) (R : List Clause)
    (hkeys : KeysFresh ⟨key, simp⟩ u t) (hI : I.WF) (hside : SimpSide key t I)
    (hR : CNF.convert ⟨key, simp⟩ t = some R) (ht : eval I t = .b true) :
    eval (ext u I) (formulaOf R) = .b true ∧ SameOn t I (ext u I) ∧ (ext u I).WF :=
  have h := cnf_complete ⟨key, simpOn (simpArgs key t)⟩ u t I R (keysFresh_simpOn hkeys)
    (simpSound_simpOn key t I hI hside) (by rw [cnf_convert_simpOn]; exact hR) ht
  ⟨h.1, h.2.1, h.2.2 hI⟩

theorem polCnf_sound_simp (key : Term → Sym) (u : Sym → Option Term) (t : Term) (J : Interp) (R : List Clause)
    (hkeys : KeysFresh ⟨key, simp⟩ u t) (hJ : J.WF) (hside : SimpSide key t J)
    (hR : PolCNF.convert ⟨key, simp⟩ t = some R) (h : eval J (formulaOf R) = .b true) : eval J t = .b true :=
  polCnf_sound ⟨key, simpOn (simpArgs key t)⟩ u t J R (keysFresh_simpOn hkeys) (simpSym_simpOn _)
    (simpSound_simpOn key t J hJ hside) (by rw [pol_convert_simpOn]; exact hR) h

theorem polCnf_complete_simp (key : Term → Sym) (u : Sym → Option Term) (t : Term) (I : Interp) (R : List Clause)
    (hkeys : KeysFresh ⟨key, simp⟩ u t) (hI : I.WF) (hside : SimpSide key t I)
    (hR : PolCNF.convert ⟨key, simp⟩ t = some R) (ht : eval I t = .b true) :
    eval (ext u I) (formulaOf R) = .b true ∧ SameOn t I (ext u I) ∧ (ext u I).WF :=
  have h := polCnf_complete ⟨key, simpOn (simpArgs key t)⟩ u t I R (keysFresh_simpOn hkeys)
    (simpSound_simpOn key t I hI hside) (by rw [pol_convert_simpOn]; exact hR) ht
  ⟨h.1, h.2.1, h.2.2 hI⟩

/-- shape: follows when, in addition, every atom (or constant) handed to the simplifier simplifies to a
literal or a constant — which fails exactly in the situation of the known finding F51 -/
def ShapeSide (key : Term → Sym) (t : Term) : Prop :=
  ∀ x ∈ simpArgs key t, (isAtomS x = true ∨ IsConst x) → LitOrConst (simp x)

theorem simpShape_simpOn (key : Term → Sym) (t : Term) (h : ShapeSide key t) : SimpShape (simpOn (simpArgs key t)) := by
  intro x hx
  unfold simpOn
  split
  · next hmem => exact h x (List.contains_iff_mem.mp hmem) hx
  · rcases hx with hx | hx
    · exact Or.inl (isLitS_of_atom hx)
    · exact Or.inr hx

theorem cnf_shape_simp (key : Term → Sym) (hkb : ∀ h, (key h).params = [] ∧ (key h).ret = .bool) (t : Term)
    (hwf : t.wf = true) (hty : t.typeOf = some .bool) (hside : ShapeSide key t)
    (R : List Clause) (hR : CNF.convert ⟨key, simp⟩ t = some R) :
    shapeClauses R = true ∧ shapeFormula (formulaOf R) = true :=
  cnf_shape ⟨key, simpOn (simpArgs key t)⟩ (simpShape_simpOn key t hside) hkb t hwf hty R
    (by rw [cnf_convert_simpOn]; exact hR)

theorem polCnf_shape_simp (key : Term → Sym) (hkb : ∀ h, (key h).params = [] ∧ (key h).ret = .bool) (t : Term)
    (hwf : t.wf = true) (hqf : t.isQF = true) (hty : t.typeOf = some .bool)
    (hside : ShapeSide key t) (R : List Clause) (hR : PolCNF.convert ⟨key, simp⟩ t = some R) :
    shapeClauses R = true ∧ shapeFormula (formulaOf R) = true :=
  polCnf_shape ⟨key, simpOn (simpArgs key t)⟩ (simpShape_simpOn key t hside) hkb t hwf hqf hty R
    (by rw [pol_convert_simpOn]; exact hR)

end PySMT.C11.Proofs
