/-
C13, totality of detection: for which (theory, quantifier flag) pairs some pySMT logic lies above, i.e. for which
formulas `get_logic` returns a logic rather than raising `NoLogicAvailableError`.
-/
import PySMT.Proofs.C13Detect
namespace PySMT.Logics

/-- the ≤-maximal members of `PYSMT_LOGICS` (computed once from the table; checked below) -/
def MAXIMAL_PYSMT : List Logic := [«QF_AUFBVLIRA*», QF_AUFBVLIRAt, QF_NIRAt, QF_SLIAt, UFBVt, UFLIRAt]

theorem maximal_subset : ∀ k ∈ MAXIMAL_PYSMT, k ∈ PYSMT_LOGICS := by decide +kernel

theorem below_maximal : ∀ l ∈ PYSMT_LOGICS, ∃ k ∈ MAXIMAL_PYSMT, Logic.le l k = true := by decide +kernel

/-- some pySMT logic is above the target iff one of the six maximal ones is -/
theorem exists_above_iff (tgt : Logic) :
    (∃ k ∈ PYSMT_LOGICS, Logic.le tgt k = true) ↔ (∃ k ∈ MAXIMAL_PYSMT, Logic.le tgt k = true) := by
  constructor
  · rintro ⟨l, hl, hle⟩
    obtain ⟨k, hk, hlk⟩ := below_maximal l hl
    exact ⟨k, hk, Logic.le_trans _ _ _ hle hlk⟩
  · rintro ⟨k, hk, hle⟩
    exact ⟨k, maximal_subset k hk, hle⟩

/-- the same as a condition on the flags: no floating point, and one of six combinations -/
def detectable (qf : Bool) (T : Theory) : Bool :=
  !T.floating_point &&
  ( -- QF_AUFBVLIRA*: quantifier-free linear, arrays (also constant), bit-vectors, Int/Real, UF
    (qf && T.linear && !T.custom_type && !T.strings)
    -- QF_AUFBVLIRAt: the same with custom sorts, without constant arrays
    || (qf && T.linear && !T.arrays_const && !T.strings)
    -- QF_NIRAt: quantifier-free non-linear Int/Real with custom sorts
    || (qf && !T.arrays && !T.arrays_const && !T.bit_vectors && !T.uninterpreted && !T.strings)
    -- QF_SLIAt: quantifier-free strings with linear integers, UF, custom sorts
    || (qf && T.linear && !T.arrays && !T.arrays_const && !T.bit_vectors && !T.real_arithmetic &&
        !T.real_difference)
    -- UFBVt: quantified bit-vectors with UF and custom sorts
    || (T.linear && !T.arrays && !T.arrays_const && !T.integer_arithmetic && !T.real_arithmetic &&
        !T.integer_difference && !T.real_difference && !T.strings)
    -- UFLIRAt: quantified linear Int/Real with UF and custom sorts
    || (T.linear && !T.arrays && !T.arrays_const && !T.bit_vectors && !T.strings) )

theorem detectable_iff_aux : ∀ (qf a1 a2 a3 a4 a5 a6 a7 a8 a9 a10 a11 a12 : Bool),
    MAXIMAL_PYSMT.any (fun k => Logic.le ⟨"", qf, ⟨a1, a2, a3, a4, a5, a6, a7, a8, a9, a10, a11, a12⟩⟩ k) =
      detectable qf ⟨a1, a2, a3, a4, a5, a6, a7, a8, a9, a10, a11, a12⟩ := by decide +kernel

theorem le_name_irrel (a : Logic) (n : String) (k : Logic) :
    Logic.le a k = Logic.le ⟨n, a.quantifier_free, a.theory⟩ k := rfl

theorem exists_above_iff_detectable (tgt : Logic) :
    (∃ k ∈ PYSMT_LOGICS, Logic.le tgt k = true) ↔ detectable tgt.quantifier_free tgt.theory = true := by
  rw [exists_above_iff]
  obtain ⟨n, qf, ⟨a1, a2, a3, a4, a5, a6, a7, a8, a9, a10, a11, a12⟩⟩ := tgt
  rw [← detectable_iff_aux]
  simp only [List.any_eq_true]
  constructor
  · rintro ⟨k, hk, h⟩; exact ⟨k, hk, h⟩
  · rintro ⟨k, hk, h⟩; exact ⟨k, hk, h⟩

/-- `get_closer_pysmt_logic` succeeds exactly on the detectable targets and raises `NoLogicAvailableError`
on all others (never `IndexError`) -/
theorem get_closer_pysmt_logic_total_iff (tgt : Logic) :
    ((∃ r, get_closer_pysmt_logic tgt = .ok r) ↔ detectable tgt.quantifier_free tgt.theory = true) ∧
    (detectable tgt.quantifier_free tgt.theory = false →
      get_closer_pysmt_logic tgt = .error .NoLogicAvailableError) := by
  constructor
  · constructor
    · rintro ⟨r, hr⟩
      have hs := get_closer_pysmt_logic_spec tgt r hr
      exact (exists_above_iff_detectable tgt).1 ⟨r, hs.1, hs.2.1⟩
    · intro h
      exact get_closer_pysmt_logic_total tgt ((exists_above_iff_detectable tgt).2 h)
  · intro h
    apply (get_closer_logic_none PYSMT_LOGICS tgt).2
    intro k hk
    cases hle : Logic.le tgt k with
    | false => rfl
    | true =>
      have := (exists_above_iff_detectable tgt).1 ⟨k, hk, hle⟩
      rw [h] at this
      cases this

end PySMT.Logics
