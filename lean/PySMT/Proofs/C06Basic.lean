import PySMT.Impl.Mk
import PySMT.Core.Eval
/-!
# C06 — basic lemmas: evaluation of raw nodes, `create`, the value embeddings used by the
`_denotes` theorems (`Val.ofBV`), and the "named functions" the theorems compare with.
-/
namespace PySMT.C06
open PySMT.Mk

/-- a bit-vector value of width `w` as a `Val` -/
def ofBV {w : Nat} (x : BitVec w) : Val := .bv w x.toNat

theorem create_ok {op : Op} {args : List Term} {p : Payload} {t : Term}
    (h : create op args p = .ok t) : t = .node op args p := by
  unfold create at h
  split at h
  · exact (Except.ok.inj h).symm
  · cases h

/-- evaluation of a node whose operator is not a binder, a symbol or an application -/
theorem eval_op (I : Interp) (op : Op) (args : List Term) (p : Payload)
    (h1 : op ≠ .forall_) (h2 : op ≠ .exists_) (h3 : op ≠ .symbol) (h4 : op ≠ .function) :
    eval I (.node op args p) = evalOp I op p (args.map (eval I)) := by
  rw [eval_node]
  unfold evalNode
  split <;> simp_all [List.map_map, Function.comp_def]

@[simp] theorem bv2_ofBV (f : (w : Nat) → BitVec w → BitVec w → BitVec w) {w : Nat} (x y : BitVec w) :
    Sem.bv2 f (ofBV x) (ofBV y) = ofBV (f w x y) := by
  simp [Sem.bv2, ofBV]

@[simp] theorem bv1_ofBV (f : (w : Nat) → BitVec w → BitVec w) {w : Nat} (x : BitVec w) :
    Sem.bv1 f (ofBV x) = ofBV (f w x) := by
  simp [Sem.bv1, ofBV]

@[simp] theorem bvRel_ofBV (f : (w : Nat) → BitVec w → BitVec w → Bool) {w : Nat} (x y : BitVec w) :
    Sem.bvRel f (ofBV x) (ofBV y) = f w x y := by
  simp [Sem.bvRel, ofBV]

theorem ofBV_inj {w : Nat} {x y : BitVec w} : ofBV x = ofBV y ↔ x = y := by
  simp [ofBV, BitVec.toNat_inj]

theorem bind_ok {α β : Type} {x : Except Err α} {f : α → Except Err β} {b : β}
    (h : x >>= f = .ok b) : ∃ a, x = .ok a ∧ f a = .ok b := by
  cases x with
  | error e => cases h
  | ok a => exact ⟨a, rfl, h⟩

@[simp] theorem isTrue_b (v : Bool) : (Val.b v).isTrue = v := by cases v <;> rfl

/-- truth value of a formula under an interpretation -/
def truth (I : Interp) (t : Term) : Bool := (eval I t).isTrue

end PySMT.C06
