import PySMT.Core.Eval
import PySMT.Impl.Simp.Str
/-!
# The Python `str` primitives of `Impl/Simp/Str.lean` agree with the SMT-LIB string functions
of `Core/Eval.lean` (on the argument ranges on which the rules call them)

| Python primitive | reference function | lemma |
|------------------|--------------------|-------|
| `s.startswith(t)` | `Sem.isPrefix t s` | `pyStartsWith_eq` |
| `s.endswith(t)` | `Sem.isPrefix t.reverse s.reverse` | `pyEndsWith_eq` |
| `t in s` | `Sem.strContains s t` | `pyContains_eq` |
| `s.find(t, i)`, `0 ≤ i` | `Sem.strIndexOf s t i` | `pyFind_eq` |
| `s.replace(t, t', 1)` | `Sem.strReplace s t t'` | `pyReplaceFirst_eq` |
| `s[i:i+1]`, `0 ≤ i` | `Sem.strAt s i` | `pySlice_at` |
| `s[i:i+n]`, `0 ≤ i`, `i < i+n` | `Sem.strSubstr s i n` | `pySlice_substr` |
| `isascii() and isdigit()`, `int(s)` | `Sem.strToInt s` | `pyToInt_eq` |
| `str(n)`, `0 ≤ n` | `Sem.intToStr n` | `pyStr_eq` |
| `"".join(xs)` | concatenation of the code-point lists | `pyJoin_toList` |
-/
namespace PySMT.Simp.StrRules
open PySMT

/-! ## `startswith`, `endswith` -/

theorem pyStartsWith_eq : ∀ (t s : List Char), pyStartsWith s t = Sem.isPrefix t s
  | [], s => by simp [pyStartsWith, Sem.isPrefix]
  | a :: as, [] => by simp [pyStartsWith, Sem.isPrefix]
  | a :: as, b :: bs => by
    have ih := pyStartsWith_eq as bs
    unfold pyStartsWith at ih ⊢
    rw [Sem.isPrefix, ← ih, List.length_cons, List.take_succ_cons, List.cons_beq_cons, BEq.comm (a := b)]

theorem beq_reverse (l t : List Char) : (l.reverse == t.reverse) = (l == t) := by
  by_cases h : l = t
  · subst h; simp
  · have : l.reverse ≠ t.reverse := fun e => h (List.reverse_inj.mp e)
    rw [beq_eq_false_iff_ne.mpr h, beq_eq_false_iff_ne.mpr this]

theorem pyEndsWith_eq (s t : List Char) : pyEndsWith s t = Sem.isPrefix t.reverse s.reverse := by
  rw [← pyStartsWith_eq]
  simp only [pyStartsWith, pyEndsWith, List.length_reverse, List.take_reverse, beq_reverse]
  by_cases h : t.length ≤ s.length
  · simp [h]
  · simp only [h, decide_false, Bool.false_and]
    have hl : (List.drop (s.length - t.length) s).length ≠ t.length := by
      rw [List.length_drop]; omega
    symm
    rw [beq_eq_false_iff_ne]
    intro e
    exact hl (by rw [e])

/-! ## the first occurrence of `t` in a suffix -/

/-- position (relative to the beginning of `rest`) of the first occurrence of `t` in `rest` -/
def firstOcc (t : List Char) : List Char → Option Nat
  | [] => if t.isEmpty then some 0 else none
  | c :: cs => if Sem.isPrefix t (c :: cs) then some 0 else (firstOcc t cs).map (· + 1)

theorem isPrefix_nil_right (t : List Char) : Sem.isPrefix t [] = t.isEmpty := by
  cases t <;> rfl

/-- `find?` over the positions `i, i+1, …, i + |rest|` where `rest = s.drop i` -/
theorem find_range' (s t : List Char) : ∀ (rest : List Char) (i : Nat), s.drop i = rest →
    (List.range' i (rest.length + 1)).find? (fun j => Sem.isPrefix t (s.drop j)) = (firstOcc t rest).map (· + i)
  | [], i, h => by
    simp only [List.length_nil, Nat.zero_add, List.range'_one, List.find?_cons, h, isPrefix_nil_right, firstOcc,
      List.find?_nil]
    cases t.isEmpty <;> simp
  | c :: cs, i, h => by
    have h' : s.drop (i + 1) = cs := by rw [List.drop_add_one_eq_tail_drop, h]; rfl
    have ih := find_range' s t cs (i + 1) h'
    rw [List.length_cons, List.range'_succ, List.find?_cons, h, firstOcc]
    cases hp : Sem.isPrefix t (c :: cs) with
    | true => simp
    | false =>
      simp only [Bool.false_eq_true, if_false]
      rw [ih, Option.map_map]
      congr 1
      funext x
      simp only [Function.comp]
      omega

theorem find_congr_mem {α} {p q : α → Bool} : ∀ {l : List α}, (∀ x ∈ l, p x = q x) → l.find? p = l.find? q
  | [], _ => rfl
  | x :: xs, h => by
    rw [List.find?_cons, List.find?_cons, h x (by simp), find_congr_mem (fun y hy => h y (by simp [hy]))]

/-- below `i` the positions are filtered out -/
theorem find_skip (P : Nat → Bool) (i : Nat) : ∀ (k a : Nat), a + k = i →
    ∀ n, (List.range' a (k + n)).find? (fun j => decide (decide (i ≤ j) = true ∧ P j = true)) = (List.range' i n).find? P
  | 0, a, h, n => by
    have : a = i := by omega
    subst this
    rw [Nat.zero_add]
    apply find_congr_mem
    intro j hj
    obtain ⟨m, _, rfl⟩ := List.mem_range'.mp hj
    simp
  | k + 1, a, h, n => by
    rw [show k + 1 + n = (k + n) + 1 by omega, List.range'_succ, List.find?_cons]
    have : ¬ i ≤ a := by omega
    simp only [this, decide_false, Bool.false_eq_true, false_and]
    exact find_skip P i k (a + 1) (by omega) n

/-- `Sem.indexFrom` computes the first occurrence in the suffix starting at `i` -/
theorem indexFrom_eq (s t : List Char) (i : Nat) (h : i ≤ s.length) :
    Sem.indexFrom s t i = (firstOcc t (s.drop i)).map (· + i) := by
  unfold Sem.indexFrom
  rw [List.find?_filter, List.range_eq_range']
  have h1 := find_skip (fun j => Sem.isPrefix t (s.drop j)) i i 0 (by omega) (s.length + 1 - i)
  rw [show i + (s.length + 1 - i) = s.length + 1 by omega] at h1
  rw [h1]
  have h2 := find_range' s t (s.drop i) i rfl
  rw [List.length_drop, show s.length - i + 1 = s.length + 1 - i by omega] at h2
  exact h2

theorem indexFrom_gt (s t : List Char) (i : Nat) (h : s.length < i) : Sem.indexFrom s t i = none := by
  unfold Sem.indexFrom
  rw [List.find?_eq_none]
  intro j hj
  simp only [List.mem_filter, List.mem_range, decide_eq_true_eq] at hj
  omega

/-! ## `in`, `find`, `replace` -/

theorem pyContains_firstOcc (t : List Char) : ∀ s : List Char, pyContains s t = (firstOcc t s).isSome
  | [] => by
    simp only [pyContains, firstOcc]
    cases t.isEmpty <;> rfl
  | c :: cs => by
    rw [pyContains, firstOcc, pyStartsWith_eq, pyContains_firstOcc t cs]
    cases Sem.isPrefix t (c :: cs) <;> simp

theorem pyContains_eq (s t : List Char) : pyContains s t = Sem.strContains s t := by
  rw [Sem.strContains, indexFrom_eq s t 0 (Nat.zero_le _), List.drop_zero, pyContains_firstOcc]
  cases firstOcc t s <;> rfl

theorem pyFindAux_eq (t : List Char) : ∀ (rest : List Char) (off : Nat),
    pyFindAux t rest off = match firstOcc t rest with | some j => ((j + off : Nat) : Int) | none => -1
  | [], off => by
    simp only [pyFindAux, firstOcc]
    cases t.isEmpty <;> simp
  | c :: cs, off => by
    rw [pyFindAux, firstOcc, pyStartsWith_eq]
    cases Sem.isPrefix t (c :: cs) with
    | true => simp
    | false =>
      simp only [Bool.false_eq_true, if_false]
      rw [pyFindAux_eq t cs (off + 1)]
      cases firstOcc t cs with
      | none => rfl
      | some j =>
        simp only [Option.map_some]
        congr 1
        omega

/-- `s.find(t, i)` is `str.indexof s t i` for `0 ≤ i` -/
theorem pyFind_eq (s t : List Char) (i : Int) (hi : ¬ i < 0) : pyFind s t i.toNat = Sem.strIndexOf s t i := by
  unfold pyFind Sem.strIndexOf
  rw [if_neg hi]
  by_cases h : i.toNat > s.length
  · rw [if_pos h, indexFrom_gt s t _ h]
  · rw [if_neg h, indexFrom_eq s t _ (by omega), pyFindAux_eq]
    cases firstOcc t (s.drop i.toNat) <;> rfl

theorem pyReplaceFirst_firstOcc (t t' : List Char) : ∀ rest : List Char,
    pyReplaceFirst t t' rest =
      match firstOcc t rest with
      | some j => rest.take j ++ t' ++ rest.drop (j + t.length)
      | none => rest
  | [] => by
    simp only [pyReplaceFirst, firstOcc]
    cases t.isEmpty <;> simp
  | c :: cs => by
    rw [pyReplaceFirst, firstOcc, pyStartsWith_eq]
    cases Sem.isPrefix t (c :: cs) with
    | true => simp
    | false =>
      simp only [Bool.false_eq_true, if_false]
      rw [pyReplaceFirst_firstOcc t t' cs]
      cases firstOcc t cs with
      | none => rfl
      | some j =>
        simp only [Option.map_some]
        rw [show j + 1 + t.length = (j + t.length) + 1 by omega]
        simp

/-- `s.replace(t, t', 1)` is `str.replace s t t'` -/
theorem pyReplaceFirst_eq (s t t' : List Char) : pyReplaceFirst t t' s = Sem.strReplace s t t' := by
  rw [Sem.strReplace, indexFrom_eq s t 0 (Nat.zero_le _), List.drop_zero, pyReplaceFirst_firstOcc]
  cases firstOcc t s <;> rfl

/-! ## slices -/

theorem pySlice_eq (s : List Char) (i j : Nat) : pySlice s i j = (s.drop i).take (j - i) := by
  rw [pySlice, List.drop_take]

/-- `s[i:i+1]` is `str.at s i` for `0 ≤ i` -/
theorem pySlice_at (s : List Char) (i : Int) (hi : ¬ i < 0) :
    pySlice s i.toNat (i.toNat + 1) = Sem.strAt s i := by
  rw [pySlice_eq, Sem.strAt, show i.toNat + 1 - i.toNat = 1 by omega]
  split
  · rfl
  · next h =>
    rw [List.drop_eq_nil_of_le (by omega)]
    rfl

/-- `s[i:i+n]` is `str.substr s i n` when the rule takes this branch (`0 ≤ i`, `i < i + n`) -/
theorem pySlice_substr (s : List Char) (i n : Int) (h : ¬ (i < 0 ∨ i + n ≤ i)) :
    pySlice s i.toNat (i + n).toNat = Sem.strSubstr s i n := by
  rw [pySlice_eq, Sem.strSubstr, show (i + n).toNat - i.toNat = n.toNat by omega]
  split
  · rfl
  · next h' =>
    rw [List.drop_eq_nil_of_le (by omega)]
    exact List.take_nil

/-- the branch `start_ < 0 or end_ <= start_` of `walk_str_substr` -/
theorem strSubstr_empty (s : List Char) (i n : Int) (h : i < 0 ∨ i + n ≤ i) : Sem.strSubstr s i n = [] := by
  rw [Sem.strSubstr, if_neg (by omega)]

theorem strAt_neg (s : List Char) (i : Int) (h : i < 0) : Sem.strAt s i = [] := by
  rw [Sem.strAt, if_neg (by omega)]

/-! ## `str.to_int`, `str.from_int` -/

theorem char_digit (c : Char) :
    (decide (c.toNat < 128) && (decide ('0'.toNat ≤ c.toNat) && decide (c.toNat ≤ '9'.toNat))) = c.isDigit := by
  have h0 : '0'.toNat = 48 := rfl
  have h9 : '9'.toNat = 57 := rfl
  have e1 : (c.val ≥ '0'.val) ↔ 48 ≤ c.toNat := by
    show '0'.val ≤ c.val ↔ _
    rw [UInt32.le_iff_toNat_le]; rfl
  have e2 : (c.val ≤ '9'.val) ↔ c.toNat ≤ 57 := by
    rw [UInt32.le_iff_toNat_le]; rfl
  rw [Char.isDigit, h0, h9, Bool.eq_iff_iff]
  simp only [Bool.and_eq_true, decide_eq_true_eq, e1, e2]
  omega

theorem pyIsAsciiDigits_eq (s : List Char) : pyIsAsciiDigits s = (!s.isEmpty && s.all Char.isDigit) := by
  unfold pyIsAsciiDigits
  congr 1
  exact List.all_congr rfl (fun c => char_digit c) |> fun h => by simpa using h

theorem pyInt_fold : ∀ (s : List Char) (acc : Nat), s.all Char.isDigit = true →
    s.foldl (fun (a : Int) c => 10 * a + ((c.toNat : Int) - 48)) (acc : Int) =
      ((s.foldl (fun (a : Nat) c => a * 10 + (c.toNat - '0'.toNat)) acc : Nat) : Int)
  | [], _, _ => rfl
  | c :: cs, acc, h => by
    simp only [List.all_cons, Bool.and_eq_true] at h
    have hc : 48 ≤ c.toNat := by
      have := h.1
      rw [← char_digit] at this
      simp only [Bool.and_eq_true, decide_eq_true_eq] at this
      exact this.2.1
    rw [List.foldl_cons, List.foldl_cons, ← pyInt_fold cs _ h.2]
    congr 1
    have h0 : '0'.toNat = 48 := rfl
    rw [h0]
    omega

/-- `int(s) if s.isascii() and s.isdigit() else -1` is `str.to_int s` -/
theorem pyToInt_eq (s : List Char) : (if pyIsAsciiDigits s then pyInt s else -1) = Sem.strToInt s := by
  rw [pyIsAsciiDigits_eq, Sem.strToInt]
  by_cases h1 : s = []
  · subst h1; rfl
  · by_cases h2 : s.all Char.isDigit = true
    · have e : s.isEmpty = false := by cases s <;> simp_all
      rw [if_pos (by simp [e, h2]), if_pos ⟨h1, h2⟩]
      exact pyInt_fold s 0 h2
    · have e : s.isEmpty = false := by cases s <;> simp_all
      rw [if_neg (by simp [e, h2]), if_neg (fun h => h2 h.2)]

/-- `str(n)` is `str.from_int n` for `0 ≤ n` -/
theorem pyStr_eq (n : Int) (h : ¬ n < 0) : (pyStr n).toList = Sem.intToStr n := by
  obtain ⟨m, rfl⟩ := Int.eq_ofNat_of_zero_le (by omega : 0 ≤ n)
  rw [Sem.intToStr, if_pos (by omega)]
  rfl

theorem intToStr_neg (n : Int) (h : n < 0) : Sem.intToStr n = [] := by
  rw [Sem.intToStr, if_neg (by omega)]

/-! ## `"".join` -/

theorem foldl_append_toList : ∀ (xs : List String) (acc : String),
    (xs.foldl (· ++ ·) acc).toList = acc.toList ++ xs.flatMap String.toList
  | [], acc => by simp
  | x :: xs, acc => by
    rw [List.foldl_cons, foldl_append_toList xs, String.toList_append, List.flatMap_cons, List.append_assoc]

theorem pyJoin_toList (xs : List String) : (pyJoin xs).toList = xs.flatMap String.toList := by
  rw [pyJoin, foldl_append_toList]; rfl

end PySMT.Simp.StrRules
