import PySMT.Proofs.C05Interp
import PySMT.Proofs.C05Normal
import PySMT.Proofs.C05Equals
/-!
# C05 — the result of a substitution satisfies the hypotheses of the theorems again
-/
namespace PySMT.Subst
open PySMT.Build PySMT.SubstSpec

theorem handlerOf_normal (envMs : Bool) {ι : IMap} (hι : IMapOK ι) : HandlerNormal (handlerOf envMs ι) := by
  intro f as r hr hwf hnm hty
  unfold handlerOf at hr
  cases hg : ι.get f with
  | none => rw [hg] at hr; cases hr
  | some fi =>
    rw [hg] at hr
    simp only [Option.map_some, Option.some.injEq] at hr
    subst hr
    have hfi := hι f fi hg
    rw [interpret_eq envMs fi as hfi.nodup]
    refine substG_normal envMs noInterp_typed noInterp_wf noInterp_normal fi.body _
      (smapOK_zip hfi hwf hty).wfMap ?_ hfi.wf hfi.norm
    intro kv hkv
    simp only [SMap.toTMap, List.mem_map] at hkv
    obtain ⟨q, hq, rfl⟩ := hkv
    exact hnm _ (List.of_mem_zip hq).2

/-- well-formedness, normal form and type are preserved: substitutions compose -/
theorem substG_closed (ms envMs : Bool) {ι : IMap} (hι : IMapOKAll ι) (σ : TMap) (hσ : WfMap σ) (hσn : NormalMap σ)
    (t : Term) (hwf : t.wf = true) (hn : normal t = true) :
    (substG ms (handlerOf envMs ι) σ t).wf = true ∧ normal (substG ms (handlerOf envMs ι) σ t) = true ∧
      (substG ms (handlerOf envMs ι) σ t).typeOf = t.typeOf :=
  ⟨substG_wf ms (handlerOf_typed envMs hι.ok) (handlerOf_wf envMs hι.ok) t σ hσ hwf hn,
   substG_normal ms (handlerOf_typed envMs hι.ok) (handlerOf_wf envMs hι.ok) (handlerOf_normal envMs hι.ok) t σ hσ hσn hwf hn,
   (substG_type ms (handlerOf_typed envMs hι.ok) t σ hσ.tyMap (Term.wf_wt _ hwf) hn).2⟩

end PySMT.Subst
