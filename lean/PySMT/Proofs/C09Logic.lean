import PySMT.Proofs.C09ScriptRound
/-!
# C09: the script round trip under the logics where pySMT's and the standard's reading of numerals differ

`script_print_parse_exact` / `script_print_parse_dag` assume `logicOK logic`: the parser's numeral flag for the logic name
agrees with the standard's. That is FALSE for `QF_BV`, `QF_UF`, `QF_AX`, `QF_AUFBV`, `BV`, … (`logicOK_false_examples`):
pySMT reads a numeral as a Real under every logic without integer arithmetic, the standard reads it as an Int unless the
logic is Reals-only — and these are the logics `smtlibscript_from_formula` emits for pure bit-vector / UF / array formulas.

Such formulas contain no integer constant, and the flag only matters for the reading of an integer constant. The theorems
of this file replace `logicOK logic` by `logicOK logic || numeralFree t` (`numeralFree t`: no `.intConst` node in `t`).
Proof: the parser's state after the declarations depends on the logic name only through its flag `ia`; on the standard's
side we read the assertion under a logic name `swapLogic logic` (`ALL` or `QF_LRA`) whose reading of numerals is the one of
`ia` — for a numeral-free formula `Printable` does not depend on the logic name (`printable_logic_swap`).
-/
namespace PySMT.Parser.Agree
open PySMT PySMT.Parser PySMT.Std PySMT.Sexp PySMT.Printer

/-! ## `logicOK` fails for the logics without arithmetic -/

theorem logicOK_false_examples :
    logicOK "QF_BV" = false ∧ logicOK "QF_UF" = false ∧ logicOK "QF_AUFBV" = false ∧ logicOK "BV" = false ∧
    logicOK "QF_AX" = false ∧ logicOK "QF_ABV" = false := by
  decide +kernel

theorem logicOK_true_examples :
    logicOK "QF_LIA" = true ∧ logicOK "QF_LRA" = true ∧ logicOK "QF_UFLIRA" = true := by
  decide +kernel

/-! ## numeral-free terms -/

/-- no integer constant anywhere in the term -/
def numeralFree : Term → Bool
  | .node op args _ => op != .intConst && (args.map numeralFree).all id

theorem numeralFree_node (op : Op) (args : List Term) (p : Payload) :
    numeralFree (.node op args p) = (op != .intConst && (args.map numeralFree).all id) := by rw [numeralFree]

theorem numeralFree_inv {op : Op} {args : List Term} {p : Payload} (h : numeralFree (.node op args p) = true) :
    op ≠ .intConst ∧ ∀ a ∈ args, numeralFree a = true := by
  rw [numeralFree_node] at h
  simp only [Bool.and_eq_true, bne_iff_ne, ne_eq, List.all_map, List.all_eq_true, Function.comp, id] at h
  exact h

/-! ## what does not depend on the logic name -/

theorem lookupFun_logic (env : SEnv) (l : String) (n : String) :
    ({ env with logic := l } : SEnv).lookupFun n = env.lookupFun n := rfl

theorem lookupSort_logic (env : SEnv) (l : String) (n : String) :
    ({ env with logic := l } : SEnv).lookupSort n = env.lookupSort n := rfl

theorem lookupAlias_logic (env : SEnv) (l : String) (n : String) :
    ({ env with logic := l } : SEnv).lookupAlias n = env.lookupAlias n := rfl

theorem SortOK_logic (env : SEnv) (l : String) (ty : Ty) : SortOK { env with logic := l } ty = SortOK env ty :=
  SortOK_congr (env1 := { env with logic := l }) (env2 := env) rfl ty

theorem envOK_logic (env : SEnv) (l : String) : envOK { env with logic := l } = envOK env := rfl

theorem defFree_logic (env : SEnv) (l : String) : defFree { env with logic := l } ↔ defFree env := Iff.rfl

theorem binderOK_logic (env : SEnv) (l : String) (vs : List Sym) :
    binderOK { env with logic := l } vs = binderOK env vs := by
  simp only [binderOK, SortOK_logic]

/-- the conditions of a node other than an integer constant do not mention the logic name -/
theorem nodeOK_logic (env : SEnv) (l : String) (scope : List Sym) (op : Op) (p : Payload) (args : List Term)
    (h : op ≠ .intConst) : nodeOK { env with logic := l } scope op p args = nodeOK env scope op p args := by
  unfold nodeOK
  split <;> first
    | exact absurd rfl h
    | simp only [lookupFun_logic, SortOK_logic]

/-- **`Printable` of a numeral-free term does not depend on the logic name** -/
theorem printable_logic_swap (env : SEnv) (l : String) : ∀ (t : Term) (scope : List Sym), numeralFree t = true →
    Printable { env with logic := l } scope t = Printable env scope t
  | .node op args p, scope, hnf => by
    obtain ⟨hop, hargs⟩ := numeralFree_inv hnf
    have ih : ∀ sc, args.map (Printable { env with logic := l } sc) = args.map (Printable env sc) :=
      fun sc => List.map_congr_left (fun a ha => printable_logic_swap env l a sc (hargs a ha))
    rw [Printable.eq_def, Printable.eq_def]
    simp only [nodeOK_logic env l scope op p args hop, binderOK_logic, ih]
termination_by t => sizeOf t
decreasing_by
  simp_wf
  have := List.sizeOf_lt_of_mem ha
  omega

theorem parseNodeOK_logic (env : SEnv) (l : String) (ρ : List (String × Sym)) (op : Op) (p : Payload) :
    parseNodeOK { env with logic := l } ρ op p = parseNodeOK env ρ op p := rfl

/-- `parseOK` does not depend on the logic name -/
theorem parseOK_logic (env : SEnv) (l : String) (ρ : List (String × Sym)) : ∀ (t : Term),
    parseOK { env with logic := l } ρ t = parseOK env ρ t
  | .node op args p => by
    have ih : args.map (parseOK { env with logic := l } ρ) = args.map (parseOK env ρ) :=
      List.map_congr_left (fun a _ => parseOK_logic env l ρ a)
    rw [parseOK_node, parseOK_node, ih, parseNodeOK_logic]
termination_by t => sizeOf t
decreasing_by
  simp_wf
  rename_i ha
  have := List.sizeOf_lt_of_mem ha
  omega

/-! ## the logic name of the standard's side -/

/-- a logic name under which the STANDARD reads numerals the way pySMT's parser does after `(set-logic logic)` -/
def swapLogic (logic : String) : String :=
  if ((logicEntry logic).map (·.2)).getD true then "ALL" else "QF_LRA"

theorem swapLogic_ia (logic : String) :
    ((logicEntry logic).map (·.2)).getD true = !(realsOnlyLogics.contains (swapLogic logic)) := by
  unfold swapLogic
  cases ((logicEntry logic).map (·.2)).getD true
  · simp only [Bool.false_eq_true, if_false]; decide +kernel
  · simp only [if_true]; decide +kernel

theorem scriptEnv_swap (logic l : String) (t : Term) : scriptEnv l t = { scriptEnv logic t with logic := l } := rfl

/-! ## the declarations, with another logic name on the standard's side -/

/-- `envAfter_decls` with the standard environment under any logic name `l` whose reading of numerals is the one of the
parser's flag for `logic`: the two equations speak about the text with `(set-logic logic)`, the correspondence about
`scriptEnv l t` (the same declarations, logic name `l`) -/
theorem envAfter_decls_swap (logic l : String) (t : Term) (hs : ScriptOK logic t = true)
    (hia : ((logicEntry logic).map (·.2)).getD true = !(realsOnlyLogics.contains l))
    (henv : envOK (scriptEnv logic t) = true) :
    envAfter PEnv.init ([Sexp.list [.atom "set-logic", atomOfText logic]] ++ (sortDecls t).map declareSort
        ++ t.fv.eraseDups.map declareFun)
      = .ok (pSt ((logicEntry logic).map (·.2)) (sortDecls t).reverse t.fv.eraseDups.reverse) ∧
    script PEnv.init ([Sexp.list [.atom "set-logic", atomOfText logic]] ++ (sortDecls t).map declareSort
        ++ t.fv.eraseDups.map declareFun)
      = .ok ([Command.setLogic ((logicEntry logic).map (·.1))]
          ++ (sortDecls t).map (fun d => Command.declareSort d.1 d.2)
          ++ t.fv.eraseDups.map (Command.declare "declare-fun")) ∧
    Corr (scriptEnv l t) [] (pSt ((logicEntry logic).map (·.2)) (sortDecls t).reverse t.fv.eraseDups.reverse) := by
  obtain ⟨hls, hlr, hsd, hsf, hfd, hff⟩ := scriptOK_decls hs
  have henv' : envOK (scriptEnv l t) = true := henv
  have h0 := cmd_setLogic logic hls hlr
  obtain ⟨a1, a2⟩ := run_declareSorts ((logicEntry logic).map (·.2)) (sortDecls t) []
    (fun d hd => ⟨(hsf d hd).1, (hsf d hd).2, by simp⟩) hsd
  rw [List.append_nil] at a1
  obtain ⟨b1, b2⟩ := run_declareFuns l ((logicEntry logic).map (·.2)) (sortDecls t).reverse hia t.fv.eraseDups []
    (by rw [List.append_nil]; exact henv')
    (fun s hs' => by
      obtain ⟨g1, g2, g3⟩ := hff s hs'
      refine ⟨g1, by simp, ?_, ?_⟩
      · rw [← g2]
        exact SortOK_congr (env1 := { logic := l, sorts := (sortDecls t).reverse, funs := [] })
          (env2 := scriptEnv logic t) rfl _
      · intro ty hty
        rw [← g3 ty hty]
        exact SortOK_congr (env1 := { logic := l, sorts := (sortDecls t).reverse, funs := [] })
          (env2 := scriptEnv logic t) rfl _) hfd
  rw [List.append_nil] at b1
  obtain ⟨c1, c2⟩ := script_append _ (t.fv.eraseDups.map declareFun) _ _ _ a1 a2
  rw [b2] at c1
  rw [b1] at c2
  refine ⟨?_, ?_, corr_pSt l _ _ _ henv' hia⟩
  · rw [List.append_assoc, List.singleton_append, envAfter_cons_ok h0, c2]
  · rw [List.append_assoc, List.singleton_append, script_cons_ok h0, c1]
    simp [Except.map]

/-- `script_print_parse_exact` with the hypotheses on the assertion stated under the logic name `l` -/
theorem script_print_parse_swap (logic l : String) (ρ : List (String × Sym)) (t : Term) (hs : ScriptOK logic t = true)
    (hia : ((logicEntry logic).map (·.2)).getD true = !(realsOnlyLogics.contains l))
    (henv : envOK (scriptEnv logic t) = true)
    (hρ : ∀ s ∈ t.fv.eraseDups, ρ.lookup s.name = some s)
    (hP : Printable (scriptEnv l t) [] t = true)
    (hQ : parseOK (scriptEnv l t) ρ t = true) (hN : mgrNormal t = true) :
    script PEnv.init (scriptOfFormula logic false t) = .ok (scriptCommands logic t) := by
  obtain ⟨e1, e2, hcorr⟩ := envAfter_decls_swap logic l t hs hia henv
  obtain ⟨hbool, _⟩ := scriptOK_parts hs
  have hm : MgrLe (pSt ((logicEntry logic).map (·.2)) (sortDecls t).reverse t.fv.eraseDups.reverse).mgr ρ :=
    mgrLe_pSt ρ _ _ _ (fun s hs' => hρ s (by simpa using hs'))
  obtain ⟨σ', hassert, _⟩ := cmd_assert (scriptEnv l t) ρ _ hcorr hm t hbool hP hQ hN
  obtain ⟨c1, _⟩ := script_append _ [.list [.atom "assert", toSexp t], .list [.atom "check-sat"]] _ _ _ e1 e2
  simp only [scriptOfFormula, Bool.false_eq_true, if_false]
  rw [c1, script_cons_ok hassert, script_cons_ok (cmd_checkSat _)]
  simp [script, Except.map, scriptCommands]

/-- `script_print_parse_text` with the hypotheses on the assertion text stated under the logic name `l` -/
theorem script_print_parse_text_swap (logic l : String) (ρ : List (String × Sym)) (t : Term)
    (hs : ScriptOK logic t = true)
    (hia : ((logicEntry logic).map (·.2)).getD true = !(realsOnlyLogics.contains l))
    (henv : envOK (scriptEnv logic t) = true)
    (hρ : ∀ s ∈ t.fv.eraseDups, ρ.lookup s.name = some s)
    (a : Sexp) (u : Term) (hrd : rd (scriptEnv l t) [] a = .ok (u, .bool))
    (hfrag : FragS (scriptEnv l t) ρ a = true) (hrot : RotOK (scriptEnv l t) [] a = true) :
    script PEnv.init ([Sexp.list [.atom "set-logic", atomOfText logic]] ++ (sortDecls t).map declareSort
        ++ t.fv.eraseDups.map declareFun ++ [.list [.atom "assert", a], .list [.atom "check-sat"]])
      = .ok ([Command.setLogic ((logicEntry logic).map (·.1))]
          ++ (sortDecls t).map (fun d => Command.declareSort d.1 d.2)
          ++ t.fv.eraseDups.map (Command.declare "declare-fun")
          ++ [Command.assert (mkNorm u), Command.plain "check-sat" []]) := by
  obtain ⟨e1, e2, hcorr⟩ := envAfter_decls_swap logic l t hs hia henv
  have hm : MgrLe (pSt ((logicEntry logic).map (·.2)) (sortDecls t).reverse t.fv.eraseDups.reverse).mgr ρ :=
    mgrLe_pSt ρ _ _ _ (fun s hs' => hρ s (by simpa using hs'))
  obtain ⟨σ', hv, _, htok⟩ := agree (scriptEnv l t) ρ a hfrag [] _ true hcorr hm hrot u .bool hrd
  have hassert : cmd (pSt ((logicEntry logic).map (·.2)) (sortDecls t).reverse t.fv.eraseDups.reverse)
      (.list [.atom "assert", a]) = .ok ({ pSt ((logicEntry logic).map (·.2)) (sortDecls t).reverse
        t.fv.eraseDups.reverse with mgr := σ' }, .assert (mkNorm u)) := by
    rw [cmd_assert_eq]
    simp only [cmdAssert, readTermSt, hv, htok.ty, beq_self_eq_true, if_true]
  obtain ⟨c1, _⟩ := script_append _ [.list [.atom "assert", a], .list [.atom "check-sat"]] _ _ _ e1 e2
  rw [c1, script_cons_ok hassert, script_cons_ok (cmd_checkSat _)]
  simp [script, Except.map]

/-- `script_print_parse_dag` with the hypotheses on the assertion stated under the logic name `l` -/
theorem script_print_parse_dag_swap (logic l : String) (ρ : List (String × Sym)) (t : Term)
    (hs : ScriptOK logic t = true)
    (hia : ((logicEntry logic).map (·.2)).getD true = !(realsOnlyLogics.contains l))
    (henv : envOK (scriptEnv logic t) = true)
    (hρ : ∀ s ∈ t.fv.eraseDups, ρ.lookup s.name = some s) (hdf : defFree (scriptEnv logic t))
    (hq : noQuant t = true) (hP : Printable (scriptEnv l t) [] t = true)
    (hQ : parseOK (scriptEnv l t) ρ t = true) (hN : mgrNormal t = true) :
    script PEnv.init (scriptOfFormula logic true t)
      = .ok ([Command.setLogic ((logicEntry logic).map (·.1))]
          ++ (sortDecls t).map (fun d => Command.declareSort d.1 d.2)
          ++ t.fv.eraseDups.map (Command.declare "declare-fun")
          ++ [Command.assert (unfoldAVw false t), Command.plain "check-sat" []]) := by
  obtain ⟨hbool, _⟩ := scriptOK_parts hs
  have hdf' : defFree (scriptEnv l t) := hdf
  have hrd := Printer.readStd_toSexpDag (scriptEnv l t) t (dagOK_of_printable' _ t hP hq)
  have hτ : tyD t = .bool := by simp [tyD, hbool]
  rw [hτ] at hrd
  simp only [readStdTy, List.reverse_nil, List.map_nil] at hrd
  have h := script_print_parse_text_swap logic l ρ t hs hia henv hρ (toSexpDag t) (unfoldAVw false t) hrd
    (fragS_toSexpDag _ ρ hdf' t hP hq hQ) (rotOK_toSexpDag_full _ t hP hq)
  rw [mkNorm_of_normal _ (mgrNormal_unfold _ false t [] hP hN)] at h
  simp only [scriptOfFormula, if_true]
  exact h

/-! ## the relativised theorems -/

/-- **Print → parse round trip for the script of a formula (tree form), under any logic name for a numeral-free formula.**
As `script_print_parse_exact`, with `logicOK logic` weakened to `logicOK logic || numeralFree t`: under `QF_BV`, `QF_UF`,
`QF_AX`, `QF_AUFBV`, … (where pySMT would read a numeral as a Real and the standard as an Int) the theorem holds for every
formula without integer constant — the formulas for which `smtlibscript_from_formula` chooses these logics. -/
theorem script_print_parse_numfree (logic : String) (ρ : List (String × Sym)) (t : Term)
    (hs : ScriptOK logic t = true) (hl : (logicOK logic || numeralFree t) = true)
    (henv : envOK (scriptEnv logic t) = true)
    (hρ : ∀ s ∈ t.fv.eraseDups, ρ.lookup s.name = some s)
    (hQ : parseOK (scriptEnv logic t) ρ t = true) (hN : mgrNormal t = true) :
    script PEnv.init (scriptOfFormula logic false t) = .ok (scriptCommands logic t) := by
  cases hlo : logicOK logic with
  | true => exact script_print_parse_exact logic ρ t hs hlo henv hρ hQ hN
  | false =>
    rw [hlo, Bool.false_or] at hl
    obtain ⟨_, hP⟩ := scriptOK_parts hs
    refine script_print_parse_swap logic (swapLogic logic) ρ t hs (swapLogic_ia logic) henv hρ ?_ ?_ hN
    · rw [scriptEnv_swap logic, printable_logic_swap _ _ t [] hl]; exact hP
    · rw [scriptEnv_swap logic, parseOK_logic]; exact hQ

/-- **… and the DAG form** (`serialize(daggify=True)`, pySMT's default), for quantifier-free formulas: as
`script_print_parse_dag`, with `logicOK logic` weakened to `logicOK logic || numeralFree t`. -/
theorem script_print_parse_dag_numfree (logic : String) (ρ : List (String × Sym)) (t : Term)
    (hs : ScriptOK logic t = true) (hl : (logicOK logic || numeralFree t) = true)
    (henv : envOK (scriptEnv logic t) = true)
    (hρ : ∀ s ∈ t.fv.eraseDups, ρ.lookup s.name = some s) (hdf : defFree (scriptEnv logic t))
    (hq : noQuant t = true) (hQ : parseOK (scriptEnv logic t) ρ t = true) (hN : mgrNormal t = true) :
    script PEnv.init (scriptOfFormula logic true t)
      = .ok ([Command.setLogic ((logicEntry logic).map (·.1))]
          ++ (sortDecls t).map (fun d => Command.declareSort d.1 d.2)
          ++ t.fv.eraseDups.map (Command.declare "declare-fun")
          ++ [Command.assert (unfoldAVw false t), Command.plain "check-sat" []]) := by
  cases hlo : logicOK logic with
  | true => exact script_print_parse_dag logic ρ t hs hlo henv hρ hdf hq hQ hN
  | false =>
    rw [hlo, Bool.false_or] at hl
    obtain ⟨_, hP⟩ := scriptOK_parts hs
    refine script_print_parse_dag_swap logic (swapLogic logic) ρ t hs (swapLogic_ia logic) henv hρ hdf hq ?_ ?_ hN
    · rw [scriptEnv_swap logic, printable_logic_swap _ _ t [] hl]; exact hP
    · rw [scriptEnv_swap logic, parseOK_logic]; exact hQ

/-! ## a fully instantiated `QF_BV` instance: `(bvult v (bvadd v #b00000001))` -/

namespace BVEx

def v : Sym := ⟨"v", [], .bv 8⟩
/-- `v + 1` on 8 bits -/
def tAdd : Term := .node .bvAdd [Term.sym v, Term.bvc 1 8] (.ints [8])
/-- `(bvult v (bvadd v (_ bv1 8)))` -/
def tBV : Term := .node .bvUlt [Term.sym v, tAdd] .none

theorem ty_v : (Term.sym v).typeOf = some (.bv 8) := by rw [Term.sym, typeOf_node]; decide
theorem ty_one : (Term.bvc 1 8).typeOf = some (.bv 8) := by rw [Term.bvc, typeOf_node]; decide
theorem ty_add : tAdd.typeOf = some (.bv 8) := by
  rw [tAdd, typeOf_node]; simp only [List.map, ty_v, ty_one]; decide
theorem ty_tBV : tBV.typeOf = some .bool := by
  rw [tBV, typeOf_node]; simp only [List.map, ty_v, ty_add]; decide

theorem fv_tBV : tBV.fv.eraseDups = [v] := by
  simp [tBV, tAdd, Term.fv, Term.sym, Term.bvc, List.eraseDups, List.eraseDupsBy, List.eraseDupsBy.loop]
theorem decls_tBV : sortDecls tBV = [] := by
  simp [sortDecls, tBV, tAdd, Printer.Term.tys, Term.sym, Term.bvc, declsOfTy, v]

theorem scriptEnv_tBV : scriptEnv "QF_BV" tBV = { logic := "QF_BV", sorts := [], funs := [v] } := by
  simp [scriptEnv, fv_tBV, decls_tBV]

theorem pr_v (env : SEnv) (h : env.lookupFun "v" = some v) : Printable env [] (Term.sym v) = true :=
  C07.pr_node env [] .symbol [] (.sym v) (.bv 8) (by decide) (by decide) (by decide) (by decide)
    (by
      have h7 : nameFine "v" = true := by decide +kernel
      have h9 : v.name = "v" := rfl
      have h8 : v.params.isEmpty = true := rfl
      simp only [nodeOK, List.length_nil, h9, h7, h8, findVar, List.find?_nil, h, beq_self_eq_true, Bool.and_self])
    (fun _ h => by simp at h)

theorem pr_one (env : SEnv) : Printable env [] (Term.bvc 1 8) = true :=
  C07.pr_node env [] .bvConst [] (.bv 1 8) (.bv 8) (by decide) (by decide) (by decide) (by decide) rfl
    (fun _ h => by simp at h)

theorem pr_add (env : SEnv) (h : env.lookupFun "v" = some v) : Printable env [] tAdd = true :=
  C07.pr_node env [] .bvAdd _ _ (.bv 8) (by decide) (by decide)
    (by simp only [List.map, tyD, ty_v, ty_one, Option.getD_some]; decide)
    (by simp only [List.map, ty_v, ty_one]; decide) rfl
    (fun a ha => by
      simp only [List.mem_cons, List.not_mem_nil, or_false] at ha
      rcases ha with rfl | rfl
      · exact pr_v env h
      · exact pr_one env)

theorem pr_tBV (env : SEnv) (h : env.lookupFun "v" = some v) : Printable env [] tBV = true :=
  C07.pr_node env [] .bvUlt _ _ .bool (by decide) (by decide)
    (by simp only [List.map, tyD, ty_v, ty_add, Option.getD_some]; decide)
    (by simp only [List.map, ty_v, ty_add]; decide) rfl
    (fun a ha => by
      simp only [List.mem_cons, List.not_mem_nil, or_false] at ha
      rcases ha with rfl | rfl
      · exact pr_v env h
      · exact pr_add env h)

theorem scriptOK_tBV : ScriptOK "QF_BV" tBV = true := by
  have hp := pr_tBV (scriptEnv "QF_BV" tBV) (by rw [scriptEnv_tBV]; rfl)
  simp only [ScriptOK, decls_tBV, fv_tBV, ty_tBV, hp]
  decide +kernel

theorem numeralFree_tBV : numeralFree tBV = true := by
  simp [numeralFree, tBV, tAdd, Term.sym, Term.bvc]

/-- all the hypotheses of `script_print_parse_numfree` / `script_print_parse_dag_numfree` for `QF_BV` and `tBV` — and
`logicOK "QF_BV"` is false, so `script_print_parse_exact` does not apply -/
theorem hyps_tBV :
    ScriptOK "QF_BV" tBV = true ∧ logicOK "QF_BV" = false ∧ (logicOK "QF_BV" || numeralFree tBV) = true ∧
    envOK (scriptEnv "QF_BV" tBV) = true ∧
    (∀ s ∈ tBV.fv.eraseDups, [("v", v)].lookup s.name = some s) ∧ defFree (scriptEnv "QF_BV" tBV) ∧
    noQuant tBV = true ∧ parseOK (scriptEnv "QF_BV" tBV) [("v", v)] tBV = true ∧ mgrNormal tBV = true := by
  refine ⟨scriptOK_tBV, logicOK_false_examples.1, by rw [numeralFree_tBV, Bool.or_true],
    by rw [scriptEnv_tBV]; decide, ?_, ?_, ?_, ?_, ?_⟩
  · intro s hs
    rw [fv_tBV] at hs
    simp only [List.mem_singleton] at hs
    subst hs
    rfl
  · intro k
    rw [scriptEnv_tBV]
    exact ⟨rfl, rfl⟩
  · simp [noQuant, tBV, tAdd, Term.sym, Term.bvc, Op.isQuantifier]
  · simp [tBV, tAdd, Term.sym, Term.bvc, parseOK, parseNodeOK]
  · simp [tBV, tAdd, Term.sym, Term.bvc, mgrNormal, rootNorm]

/-- the tree-form script pySMT emits for `tBV` under `QF_BV` is read back as its commands -/
example : script PEnv.init (scriptOfFormula "QF_BV" false tBV) = .ok (scriptCommands "QF_BV" tBV) :=
  script_print_parse_numfree "QF_BV" [("v", v)] tBV hyps_tBV.1 hyps_tBV.2.2.1 hyps_tBV.2.2.2.1 hyps_tBV.2.2.2.2.1
    hyps_tBV.2.2.2.2.2.2.2.1 hyps_tBV.2.2.2.2.2.2.2.2

/-- … and the DAG form (pySMT's default) -/
example : script PEnv.init (scriptOfFormula "QF_BV" true tBV)
    = .ok ([Command.setLogic ((logicEntry "QF_BV").map (·.1))]
        ++ (sortDecls tBV).map (fun d => Command.declareSort d.1 d.2)
        ++ tBV.fv.eraseDups.map (Command.declare "declare-fun")
        ++ [Command.assert (unfoldAVw false tBV), Command.plain "check-sat" []]) :=
  script_print_parse_dag_numfree "QF_BV" [("v", v)] tBV hyps_tBV.1 hyps_tBV.2.2.1 hyps_tBV.2.2.2.1 hyps_tBV.2.2.2.2.1
    hyps_tBV.2.2.2.2.2.1 hyps_tBV.2.2.2.2.2.2.1 hyps_tBV.2.2.2.2.2.2.2.1 hyps_tBV.2.2.2.2.2.2.2.2

/-- the command list in full: `set-logic QF_BV`, `declare-fun v`, the assertion, `check-sat` -/
theorem scriptCommands_tBV : scriptCommands "QF_BV" tBV =
    [Command.setLogic (some "QF_BV"), Command.declare "declare-fun" v, Command.assert (unfoldAV tBV),
      Command.plain "check-sat" []] := by
  have h : (logicEntry "QF_BV").map (·.1) = some "QF_BV" := by decide +kernel
  simp [scriptCommands, decls_tBV, fv_tBV, h]

/-- under `QF_BV` pySMT's parser reads numerals as Reals: the standard's side of the proof is run under `QF_LRA` -/
theorem swapLogic_QF_BV : swapLogic "QF_BV" = "QF_LRA" ∧ swapLogic "QF_LIA" = "ALL" ∧ swapLogic "no_such_logic" = "ALL" := by
  decide +kernel

/-- `printable_logic_swap` at work: `tBV` is `Printable` under the Reals-only name too … -/
example : Printable (scriptEnv "QF_LRA" tBV) [] tBV = true := by
  rw [scriptEnv_swap "QF_BV", printable_logic_swap _ _ tBV [] numeralFree_tBV]
  exact (scriptOK_parts scriptOK_tBV).2

/-- … whereas a formula with an integer constant (`C07.t1 = (<= |x y| (- 5))`) is not numeral-free, and its `Printable`
does depend on the logic name -/
example : numeralFree C07.t1 = false ∧ Printable (scriptEnv "QF_LIA" C07.t1) [] C07.t1 = true ∧
    Printable (scriptEnv "QF_LRA" C07.t1) [] C07.t1 = false := by
  refine ⟨by simp [numeralFree, C07.t1, Term.sym, Term.int], (scriptOK_parts C07.scriptOK_t1).2, ?_⟩
  have hc : ∀ env : SEnv, env.realsOnly = true → Printable env [] (Term.int (-5)) = false := by
    intro env hl
    have h5 : stdTy .intConst (.i (-5)) [] = some .int := by decide
    have h6 : typeOfNode .intConst (.i (-5)) [] = some .int := by decide
    rw [Term.int, Printable.eq_def]
    simp only [List.map_nil, h5, h6, beq_self_eq_true, nodeOK, hl, Bool.not_true, Bool.false_and, Bool.and_false]
  cases h : Printable (scriptEnv "QF_LRA" C07.t1) [] C07.t1 with
  | false => rfl
  | true =>
    exfalso
    have hl : (scriptEnv "QF_LRA" C07.t1).realsOnly = true := by decide
    have hc' := hc _ hl
    generalize scriptEnv "QF_LRA" C07.t1 = env at h hc'
    rw [C07.t1] at h
    obtain ⟨τ, _, _, hh⟩ := printable_node env [] _ _ _ h
    rcases hh with ⟨vs, ho, _⟩ | ⟨_, _, _, hargs⟩
    · rcases ho with ho | ho <;> cases ho
    · have := hargs (Term.int (-5)) (by simp)
      rw [hc'] at this
      cases this

end BVEx

end PySMT.Parser.Agree
