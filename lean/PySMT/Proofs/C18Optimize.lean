import PySMT.Proofs.C18Search
/-!
# C18, part 3: `_optimize` as a whole (setup, first step, loop, cleanup)
-/
namespace PySMT.Opt

section
variable {M : Type} {A : M → Prop} {val : Nat → M → Val} {obj : Nat → M → Int} {o : Oracle M}
variable {g : Goal} {gi : Nat}

/-- the invariant holds after the first satisfiable step -/
theorem first_LInv {base ex : List Constraint} {marks0 : List Nat} {bad0 : Bool}
    (hG : GoalReads A val obj g gi) (strat : Strat)
    (m : M) (hm : Feas A val base ex m) (s1 : Solver M)
    (hS : ∀ t, SInv A val obj g gi base ex marks0 bad0 t s1) :
    LInv A val obj g gi base ex marks0 bad0 strat (searchIsSat g (Interval.init g) (obj gi m)) m s1 := by
  have hv := hG.castOk m hm.1
  refine ⟨hm, ?_, ?_, ?_, ?_, fun _ => pivot_searchIsSat _ _ _, hS _⟩
  · cases hn : near g (Interval.init g) with
    | none => exact near_searchIsSat_none g _ _ hn
    | some n => exact near_searchIsSat_lt g _ _ n hn (near_init_bv g n _ hn hv)
  · intro f hf m' hm'
    rw [far_searchIsSat] at hf
    exact far_init_bound g f _ hf (hG.castOk m' hm'.1)
  · intro f hf
    rw [far_searchIsSat] at hf
    exact farOk_init g f hf
  · intro hf
    rw [far_searchIsSat] at hf
    exact far_init_none g hf

/-- result of `_optimize`: solver restored; `none` iff infeasible; otherwise a feasible model whose
    cost is its objective value and is optimal -/
def OptPost (A : M → Prop) (val : Nat → M → Val) (obj : Nat → M → Int) (g : Goal) (gi : Nat) (ex : List Constraint) (s : Solver M)
    (r : Outcome (Option (M × Int)) × Solver M) : Prop :=
  r.1 = .fuel ∨
  ∃ res, r.1 = .done res ∧ r.2.stack = s.stack ∧ r.2.marks = s.marks ∧ r.2.bad = s.bad ∧
    (res = none ↔ ¬ ∃ m, Feas A val s.stack ex m) ∧
    ∀ m c, res = some (m, c) →
      Feas A val s.stack ex m ∧ c = obj gi m ∧ ∀ m', Feas A val s.stack ex m' → sg g c ≤ sg g (obj gi m')

theorem optimize_spec (hO : OracleSpec A val o) (hsup : g.supported = true)
    (hG : GoalReads A val obj g gi)
    (mx : Mixin) (strat : Strat) (extra : List Constraint) (fuel : Nat) (s : Solver M) :
    OptPost A val obj g gi (effExtra mx extra) s (optimize o obj mx strat g gi extra fuel s) := by
  have hcf := check_first (obj := obj) (g := g) (gi := gi) (base := s.stack) (marks0 := s.marks) (bad0 := s.bad)
    hO mx strat extra rfl s.push rfl rfl rfl
  unfold optimize
  simp only [hsup, init_not_empty]
  cases hr : checkProgress o mx strat extra none s.push with
  | mk r s1 =>
  rw [hr] at hcf
  obtain ⟨hsat, hunsat, hinv⟩ := hcf
  cases r with
  | none =>
    right
    obtain ⟨p1, p2, p3⟩ := (hinv 0).pop
    refine ⟨none, by simp, by simpa using p1, by simpa using p2, by simpa using p3, ?_, ?_⟩
    · simp only [true_iff]
      rintro ⟨m, hm⟩
      exact hunsat rfl m hm
    · intro m c h; cases h
  | some m =>
    have hfm := hsat m rfl
    have hI := first_LInv (g := g) (gi := gi) hG strat m hfm s1 hinv
    have hL := loop_correct hO rfl hG fuel _ m s1 hI
    simp only [Bool.not_true, Bool.false_eq_true, if_false]
    cases hl : searchLoop o obj mx strat g gi extra fuel (searchIsSat g (Interval.init g) (obj gi m)) m s1 with
    | mk out s2 =>
    rw [hl] at hL
    rcases hL with hfu | ⟨b, hb, hfb, hopt, t, hS⟩
    · left
      simp only at hfu
      subst hfu
      rfl
    · right
      simp only at hb hS
      subst hb
      obtain ⟨p1, p2, p3⟩ := hS.pop
      refine ⟨some (b, obj gi b), rfl, p1, p2, p3, ?_, ?_⟩
      · constructor
        · intro h; cases h
        · intro h; exact absurd ⟨b, hfb⟩ h
      · intro m' c h
        cases h
        exact ⟨hfb, rfl, hopt⟩

/-- termination of `_optimize`: when the optimum of the feasible set is attained (or the set is
    empty) there is an amount of fuel from which on the model never runs out -/
theorem optimize_terminates (hO : OracleSpec A val o) (hsup : g.supported = true)
    (hG : GoalReads A val obj g gi)
    (mx : Mixin) (strat : Strat) (extra : List Constraint) (s : Solver M)
    (hatt : (∃ m, Feas A val s.stack (effExtra mx extra) m) →
      ∃ mo, ∀ m, Feas A val s.stack (effExtra mx extra) m → sg g (obj gi mo) ≤ sg g (obj gi m)) :
    ∃ N, ∀ fuel, fuel ≥ N → (optimize o obj mx strat g gi extra fuel s).1 ≠ .fuel := by
  have hcf := check_first (obj := obj) (g := g) (gi := gi) (base := s.stack) (marks0 := s.marks) (bad0 := s.bad)
    hO mx strat extra rfl s.push rfl rfl rfl
  unfold optimize
  simp only [hsup, init_not_empty]
  cases hr : checkProgress o mx strat extra none s.push with
  | mk r s1 =>
  rw [hr] at hcf
  obtain ⟨hsat, hunsat, hinv⟩ := hcf
  cases r with
  | none => exact ⟨0, fun fuel _ => by simp⟩
  | some m =>
    have hfm := hsat m rfl
    obtain ⟨mo, hmo⟩ := hatt ⟨m, hfm⟩
    have hI := first_LInv (g := g) (gi := gi) hG strat m hfm s1 hinv
    obtain ⟨N, hN⟩ := loop_terminates hO rfl hG mo hmo (sg g (obj gi m) - sg g (obj gi mo)).toNat _ m s1 hI
      (by omega)
    refine ⟨N, ?_⟩
    intro fuel hge
    have := hN fuel hge
    simp only [Bool.not_true, Bool.false_eq_true, if_false]
    cases hl : searchLoop o obj mx strat g gi extra fuel (searchIsSat g (Interval.init g) (obj gi m)) m s1 with
    | mk out s2 =>
    rw [hl] at this
    cases out <;> simp_all [Outcome.cast]

/-- F24b: a goal whose logic is not in the comparison table makes `_optimize` raise `KeyError`
    after `_setup` -- one level stays pushed -/
theorem optimize_unsupported (hsup : g.supported = false)
    (mx : Mixin) (strat : Strat) (extra : List Constraint) (fuel : Nat) (s : Solver M) :
    optimize o obj mx strat g gi extra fuel s = (.keyErr, s.push) := by
  unfold optimize; simp [hsup]

end
end PySMT.Opt
