import PySMT.Proofs.C02Model
import PySMT.Proofs.SimpFold
import PySMT.Proofs.SimpTotal
/-!
# C02 exactness: `getValue` returns *the* constant the formula denotes

`constOf v` is the constant node of a scalar value, `interpOf σ` the interpretation an assignment
of constants stands for. For a quantifier-free, UF-free formula `f` of the fragment without array
values (`evaluable f`), a type-correct assignment `σ` of scalar constants that is total on the free
symbols of `f`, and no division by zero evaluated:

    simp (substConst σ f) = constOf (eval (interpOf σ) f)

(`exact_core`): substitution makes the term ground (`ground_subst`), fold completeness makes the
simplified term a constant, soundness of `simp` makes it the right one, and a well-formed constant
node is determined by its value (`const_constOf`).
-/
namespace PySMT.Model
open PySMT PySMT.Simp PySMT.Simplifier PySMT.Simp.BoolRules

/-- the constant node of a scalar value -/
def constOf : Val → Term
  | .b v => Term.bool v
  | .i v => Term.int v
  | .r v => Term.real v
  | .s v => Term.str v
  | .bv w v => Term.bvc v w
  | _ => Term.ff

/-- a well-formed scalar constant node is the constant node of its value -/
theorem const_constOf (c : Term) (hwf : c.wf = true) (hc : c.op.isConstant = true) (I : Interp) :
    c = constOf (eval I c) := by
  cases c with
  | node op args p =>
    simp only [Term.op] at hc
    have hs := wf_shape hwf
    have hargs : args = [] := by
      cases op <;> simp [Op.isConstant] at hc <;> cases p <;>
        first
        | cases hs
        | (cases args with
           | nil => rfl
           | cons a r => cases hs)
    subst hargs
    have he := (const_eval op [] p hwf hc I).1
    rw [he]
    cases op <;> simp [Op.isConstant] at hc <;> cases p <;> first | rfl | (cases hs)

/-- the interpretation used to evaluate the constants of an assignment (they do not depend on it) -/
def I0 : Interp :=
  { sym := fun s => s.ret.defaultVal, fn := fun f _ => f.ret.defaultVal, dom := fun t => [t.defaultVal],
    div0r := fun _ => 0, div0i := fun _ => 0 }

theorem defaultVal_hasSort : ∀ t : Ty, t.defaultVal.hasSort t = true := by
  intro t
  induction t with
  | bool | int | real | str => rfl
  | bv w => simp [Ty.defaultVal, Val.hasSort]
  | array i e _ ihe => simp [Ty.defaultVal, Val.hasSort, ihe]
  | custom n => simp [Ty.defaultVal, Val.hasSort]

theorem I0_wf : I0.WF :=
  ⟨fun s => defaultVal_hasSort _, fun f _ => defaultVal_hasSort _, fun t => by simp [I0],
    fun t v hv => by simp [I0] at hv; subst hv; exact defaultVal_hasSort t⟩

/-- **the interpretation an assignment stands for**: an assigned symbol has the value of its
constant; everything the formula does not mention is irrelevant (unassigned symbols get the default
value of their sort, functions are constant, division by zero yields 0) -/
def interpOf (σ : Asg) : Interp :=
  { I0 with sym := fun s => match σ.get s with
      | some c => eval I0 c
      | none => s.ret.defaultVal }

theorem interpOf_wf (σ : Asg) (hσ : AsgOK σ) : (interpOf σ).WF := by
  refine ⟨fun s => ?_, I0_wf.fn, I0_wf.dom_ne, I0_wf.dom_sort⟩
  simp only [interpOf]
  cases hg : σ.get s with
  | none => exact defaultVal_hasSort _
  | some c =>
    obtain ⟨cw, cty, _⟩ := hσ s c hg
    exact eval_hasSort c cw _ cty I0 I0_wf

/-- a constant has the same value under every interpretation -/
theorem const_eval_indep (c : Term) (hwf : c.wf = true) (hc : c.op.isConstant = true) (I J : Interp) :
    eval I c = eval J c := by
  cases c with
  | node op args p =>
    rw [(const_eval op args p hwf hc I).1, (const_eval op args p hwf hc J).1]

theorem interpOf_extends (σ : Asg) (hσ : AsgOK σ) : Extends (interpOf σ) σ := by
  intro s c hg
  obtain ⟨cw, _, cc⟩ := hσ s c hg
  simp only [interpOf, hg]
  exact const_eval_indep c cw cc _ _

/-- quantifier-free, no function application, no array value -/
def evaluable : Term → Bool
  | .node op args _ =>
    (op != .function && op != .arrayValue && !op.isQuantifier) && (args.map evaluable).all id

theorem evaluable_node {op args p} (h : evaluable (.node op args p) = true) :
    (op ≠ .function ∧ op ≠ .arrayValue ∧ op.isQuantifier = false) ∧ ∀ a ∈ args, evaluable a = true := by
  rw [evaluable] at h
  simp only [Bool.and_eq_true, bne_iff_ne, ne_eq, Bool.not_eq_true', List.all_eq_true, List.mem_map, id] at h
  exact ⟨⟨h.1.1.1, h.1.1.2, h.1.2⟩, fun a ha => h.2 _ ⟨a, ha, rfl⟩⟩

theorem evaluable_qf : (t : Term) → evaluable t = true → qf t = true
  | .node op args p => fun h => by
    obtain ⟨⟨_, _, hq⟩, ha⟩ := evaluable_node h
    rw [qf]
    simp only [hq, Bool.not_false, Bool.true_and, List.all_eq_true, List.mem_map, id]
    rintro _ ⟨a, ha', rfl⟩
    exact evaluable_qf a (ha a ha')

/-- substituting a total assignment of constants into an evaluable term gives a ground term -/
theorem ground_subst (σ : Asg) (hσ : AsgOK σ) : (t : Term) → t.wf = true → evaluable t = true →
    (∀ s ∈ t.fv, (σ.get s).isSome = true) → ground (substConst σ t) = true
  | .node op args p => fun hwf hev htot => by
    obtain ⟨⟨hf, hav, hq⟩, hea⟩ := evaluable_node hev
    by_cases hsym : op = .symbol
    · subst hsym
      have hp : ∃ s, p = .sym s := by
        have := wf_tyNode hwf
        cases p <;> first | exact ⟨_, rfl⟩ | (exfalso; revert this; rw [typeOfNode_symbol_eq]; simp)
      obtain ⟨s, rfl⟩ := hp
      rw [substConst_symbol]
      have hs : s ∈ (Term.node .symbol args (.sym s)).fv := by rw [fv_symbol]; simp
      cases hg : σ.get s with
      | none => have := htot s hs; rw [hg] at this; cases this
      | some c =>
        simp only [Option.getD_some]
        obtain ⟨cw, _, cc⟩ := hσ s c hg
        cases c with
        | node o as q =>
          simp only [Term.op] at cc
          have hs' := wf_shape cw
          have has : as = [] := by
            cases o <;> simp [Op.isConstant] at cc <;> cases q <;>
              first
              | cases hs'
              | (cases as with
                 | nil => rfl
                 | cons a r => cases hs')
          subst has
          rw [ground]
          cases o <;> simp [Op.isConstant] at cc <;> rfl
    · rw [substConst_other σ op args p hsym, ground]
      have h1 : (op != Op.symbol) = true := by simpa using hsym
      have h2 : (op != Op.function) = true := by simpa using hf
      have h3 : (op != Op.arrayValue) = true := by simpa using hav
      simp only [h1, h2, h3, hq, Bool.not_false, Bool.and_self, Bool.true_and, List.all_eq_true, List.mem_map, id]
      rintro _ ⟨_, ⟨a, ha, rfl⟩, rfl⟩
      refine ground_subst σ hσ a (wf_args hwf a ha) (hea a ha) (fun s hs => htot s ?_)
      exact mem_fv_child op args p a ha s hs hsym (fun vs _ hq' => by rw [hq] at hq'; cases hq')

/-- the core of exactness -/
theorem exact_core (σ : Asg) (hσ : AsgOK σ) (f : Term) (τ : Ty) (hwf : f.wf = true) (hev : evaluable f = true)
    (hfr : inFrag f = true) (hty : f.typeOf = some τ) (htot : ∀ s ∈ f.fv, (σ.get s).isSome = true)
    (hd : div0 (interpOf σ) f = false) :
    simp (substConst σ f) = constOf (eval (interpOf σ) f) ∧ (simp (substConst σ f)).op.isConstant = true ∧
      Build.isConstant (simp (substConst σ f)) = true := by
  have hI := interpOf_wf σ hσ
  obtain ⟨⟨gw, gty, gfr⟩, gs⟩ := substConst_spec σ hσ f hwf (evaluable_qf f hev) hfr τ hty
  obtain ⟨ge, gd⟩ := gs (interpOf σ) (interpOf_extends σ hσ) hd
  have hg := ground_subst σ hσ f hwf hev htot
  have hc : (simp (substConst σ f)).op.isConstant = true := fold_complete _ τ gw gfr gty hg _ hI gd
  obtain ⟨⟨_, sw⟩, ss, _⟩ := simp_spec _ gw gfr τ gty
  have e1 := (ss _ hI gd).1
  refine ⟨?_, hc, ?_⟩
  · rw [← ge, ← e1]
    exact const_constOf _ sw hc _
  · cases hsimp : simp (substConst σ f) with
    | node o as q =>
      rw [hsimp] at hc
      simp only [Term.op] at hc
      rw [isConstant_nonarray (by intro h; subst h; cases hc)]
      exact hc

/-- completion leaves a total assignment unchanged -/
theorem complete_of_total : ∀ (syms : List Sym) (σ : Asg), (∀ s ∈ syms, (σ.get s).isSome = true) →
    complete σ syms = some σ
  | [], σ, _ => rfl
  | s :: rest, σ, h => by
    rw [complete]
    cases hg : σ.get s with
    | none => have := h s (by simp); rw [hg] at this; cases this
    | some c => exact complete_of_total rest σ (fun x hx => h x (by simp [hx]))

/-- completion succeeds when every missing symbol has a default, keeps the given values, gives the
default constant of its sort to every missing symbol and makes the assignment total -/
theorem complete_spec : ∀ (syms : List Sym) (σ : Asg),
    (∀ s ∈ syms, σ.get s = none → s.params = [] ∧ (defaultOf s.ret).isSome = true) →
    ∃ σ', complete σ syms = some σ' ∧ (∀ s c, σ.get s = some c → σ'.get s = some c) ∧
      (∀ s ∈ syms, σ.get s = none → σ'.get s = defaultOf s.ret) ∧
      (∀ s ∈ syms, (σ'.get s).isSome = true) ∧ (∀ s, σ'.get s ≠ none → σ.get s = none → s ∈ syms)
  | [], σ, _ => ⟨σ, rfl, fun _ _ h => h, by simp, by simp, fun s h1 h2 => absurd h2 h1⟩
  | s :: rest, σ, h => by
    rw [complete]
    cases hg : σ.get s with
    | some c =>
      obtain ⟨σ', h1, h2, h3, h4, h5⟩ := complete_spec rest σ (fun x hx => h x (by simp [hx]))
      refine ⟨σ', h1, h2, ?_, ?_, fun x a b => List.mem_cons_of_mem _ (h5 x a b)⟩
      · intro x hx hxn
        rcases List.mem_cons.mp hx with rfl | hx
        · rw [hg] at hxn; cases hxn
        · exact h3 x hx hxn
      · intro x hx
        rcases List.mem_cons.mp hx with rfl | hx
        · rw [h2 x c hg]; rfl
        · exact h4 x hx
    | none =>
      obtain ⟨hp, hdflt⟩ := h s (by simp) hg
      obtain ⟨d, hd⟩ := Option.isSome_iff_exists.mp hdflt
      simp only [hp, List.isEmpty_nil, if_true, hd]
      have hstep : ∀ x ∈ rest, (σ ++ [(s, d)]).get x = none → x.params = [] ∧ (defaultOf x.ret).isSome = true := by
        intro x hx hxn
        rw [get_append] at hxn
        cases hσx : σ.get x with
        | some c => rw [hσx] at hxn; cases hxn
        | none => exact h x (by simp [hx]) hσx
      obtain ⟨σ', h1, h2, h3, h4, h5⟩ := complete_spec rest (σ ++ [(s, d)]) hstep
      have hsd : (σ ++ [(s, d)]).get s = some d := by rw [get_append, hg]; simp
      refine ⟨σ', h1, ?_, ?_, ?_, ?_⟩
      · intro x c hx
        exact h2 x c (by rw [get_append, hx])
      · intro x hx hxn
        by_cases hxs : x = s
        · subst hxs; rw [h2 x d hsd, hd]
        · rcases List.mem_cons.mp hx with rfl | hx
          · exact absurd rfl hxs
          · refine h3 x hx ?_
            rw [get_append, hxn]
            simp [Ne.symm hxs]
      · intro x hx
        rcases List.mem_cons.mp hx with rfl | hx
        · rw [h2 x d hsd]; rfl
        · exact h4 x hx
      · intro x a b
        by_cases hxs : x = s
        · subst hxs; simp
        · refine List.mem_cons_of_mem _ (h5 x a ?_)
          rw [get_append, b]; simp [Ne.symm hxs]

theorem default_eval {τ : Ty} {d : Term} (h : defaultOf τ = some d) (I : Interp) : eval I d = τ.defaultVal := by
  cases τ <;> simp [defaultOf] at h <;> subst h
  · exact eval_boolc I false
  · exact eval_intc I 0
  · exact eval_realc I 0
  · rw [Term.bvc, eval_plain I .bvConst [] _ (by simp) (by simp) rfl]; rfl

/-- the completed assignment stands for the same interpretation: `interpOf` already gives the
default value of its sort (false, 0, 0.0, the zero bit-vector) to every unassigned symbol -/
theorem interpOf_complete (σ σ' : Asg) (syms : List Sym)
    (h2 : ∀ s c, σ.get s = some c → σ'.get s = some c)
    (h3 : ∀ s ∈ syms, σ.get s = none → σ'.get s = defaultOf s.ret)
    (h5 : ∀ s, σ'.get s ≠ none → σ.get s = none → s ∈ syms) : interpOf σ' = interpOf σ := by
  have : (interpOf σ').sym = (interpOf σ).sym := by
    funext s
    simp only [interpOf]
    cases hg : σ.get s with
    | some c => rw [h2 s c hg]
    | none =>
      cases hg' : σ'.get s with
      | none => rfl
      | some d =>
        have hs := h5 s (by rw [hg']; simp) hg
        have := h3 s hs hg
        rw [hg'] at this
        exact default_eval this.symm I0
  simp only [interpOf] at this ⊢
  rw [this]

/-! ## without the proviso -/

theorem interpOf_tot (σ : Asg) : (interpOf σ).Tot := ⟨rfl, rfl⟩

/-- substitution of constants preserves the value under every interpretation extending the
assignment — no condition on divisions -/
theorem substConst_eval (σ : Asg) (hσ : AsgOK σ) (I : Interp) (hext : Extends I σ) :
    (t : Term) → t.wf = true → qf t = true → eval I (substConst σ t) = eval I t
  | .node op args p => fun hwf hqf => by
    obtain ⟨hq, hqa⟩ := qf_node hqf
    by_cases hsym : op = .symbol
    · subst hsym
      have hp : ∃ s, p = .sym s := by
        have := wf_tyNode hwf
        cases p <;> first | exact ⟨_, rfl⟩ | (exfalso; revert this; rw [typeOfNode_symbol_eq]; simp)
      obtain ⟨s, rfl⟩ := hp
      rw [substConst_symbol]
      cases hg : σ.get s with
      | none => rfl
      | some c => simp only [Option.getD_some]; rw [hext s c hg, eval_symbol]
    · rw [substConst_other σ op args p hsym]
      have hev : (args.map (substConst σ)).map (eval I) = args.map (eval I) := by
        rw [List.map_map]
        exact List.map_congr_left (fun a ha => substConst_eval σ hσ I hext a (wf_args hwf a ha) (hqa a ha))
      by_cases hfn : op = .function
      · subst hfn
        rw [eval_node, eval_node, evalNode_function, evalNode_function]
        cases p <;> try rfl
        simp only [List.map_map]
        congr 1
        simpa [List.map_map] using hev
      · rw [eval_plain I op _ p hsym hfn hq, eval_plain I op _ p hsym hfn hq, hev]

/-- whatever `simp` makes of the substituted formula has the value of the formula under the
interpretation the assignment stands for (divisions by zero allowed: `interpOf` maps `x / 0` to 0) -/
theorem simp_subst_eval (σ : Asg) (hσ : AsgOK σ) (f : Term) (τ : Ty) (hwf : f.wf = true) (hev : evaluable f = true)
    (hfr : inFrag f = true) (hty : f.typeOf = some τ) :
    eval (interpOf σ) (simp (substConst σ f)) = eval (interpOf σ) f ∧ (simp (substConst σ f)).wf = true := by
  have hqf := evaluable_qf f hev
  obtain ⟨⟨gw, gty, gfr⟩, _⟩ := substConst_spec σ hσ f hwf hqf hfr τ hty
  refine ⟨?_, (simp_spec _ gw gfr τ gty).1.2⟩
  have := simpWith_total ruleOf ruleOf_ok _ gw gfr τ gty _ (interpOf_wf σ hσ) (interpOf_tot σ)
  rw [show simp (substConst σ f) = simpWith ruleOf (substConst σ f) from rfl, this]
  exact substConst_eval σ hσ _ (interpOf_extends σ hσ) f hwf hqf

/-- if the simplified substituted formula is a constant (what `get_value` tests), it is the
constant node of the value of the formula -/
theorem const_of_simp_subst (σ : Asg) (hσ : AsgOK σ) (f : Term) (τ : Ty) (hwf : f.wf = true)
    (hev : evaluable f = true) (hfr : inFrag f = true) (hty : f.typeOf = some τ)
    (hc : Build.isConstant (simp (substConst σ f)) = true) (hna : ∀ i e, τ ≠ .array i e) :
    simp (substConst σ f) = constOf (eval (interpOf σ) f) := by
  obtain ⟨e, sw⟩ := simp_subst_eval σ hσ f τ hwf hev hfr hty
  have hqf := evaluable_qf f hev
  obtain ⟨⟨gw, gty, gfr⟩, _⟩ := substConst_spec σ hσ f hwf hqf hfr τ hty
  have sty := (simp_spec _ gw gfr τ gty).1.1
  -- a constant that is not an array value is a scalar constant node
  have hop : (simp (substConst σ f)).op.isConstant = true := by
    cases hs : simp (substConst σ f) with
    | node o as q =>
      rw [hs] at hc sty sw
      simp only [Term.op]
      by_cases ho : o = .arrayValue
      · subst ho
        rw [typeOf_node] at sty
        obtain ⟨idx, d, rest, _, _, _, rfl⟩ := typeOfNode_arrayValue sty
        exact absurd rfl (hna idx d)
      · rw [isConstant_nonarray ho] at hc; exact hc
  rw [← e]
  exact const_constOf _ sw hop _

end PySMT.Model
