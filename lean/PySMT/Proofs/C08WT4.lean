import PySMT.Proofs.C08WT3
/-!
# C08 — "accepted ⇒ well-typed", part 4: the mutual induction over the S-expression

`rdVal_wt` / `readTerm_wt`: in an environment whose term values are `wt` and that binds no `define-fun`'d function
(`EnvOK`), every value the parser model computes satisfies `ValOK`; in particular every term `readTerm` returns is `wt`.

## The extra hypothesis `NoNullary` (a finding)

Without it the statement is **false**: for a declared function `f : Int → Int` the text `(f)` — an application to zero
arguments, not SMT-LIB — is accepted and read as `mgr.Function(f, [])`, which is the bare function symbol `f`
(formula.py:189-201: `if len(params) == 0: return vname`). The model gives that symbol no sort (`Term.sym f` with
`f.params ≠ []` has `typeOf = none`, DESIGN: function types are not first class; pySMT itself types it with the function
type), so the accepted term is not `wt`; it then travels through every constructor that returns an argument unchanged
(`(and (f))`, `(let ((g f)) (g))`, `((let ((g f)) g))`). See `counterexample` below. Real pySMT behaves the same way
(`(declare-fun f (Int) Int) (get-value ((f)))` returns the symbol `f` of type `Int -> Int`).

`NoNullary s` excludes exactly the places where this can start: a one-element list `(h)` whose only element `h` is
* an atom that is not one of the interpreted operators of `Gen.ParserOps.table` (so it is looked up in the cache and may
  be an uninterpreted function), or
* a list headed by one of the parser's keywords with a handler (`let`, `forall`, `exists`, `!`, `_`, `as`): the only
  lists in head position that can evaluate to a function (in fact only `let` can evaluate to an uninterpreted one).
One-element lists in other roles are not affected: binder lists `((x Int))`, `((x e))` (their element is a list headed by
a variable name), `(and)`, `(or)`.
-/
namespace PySMT.Parser.WT
open PySMT PySMT.Parser PySMT.Gen.ParserOps

/-- `(h)` could be the application of an uninterpreted function to zero arguments -/
def nullaryHead : Sexp → Bool
  | .atom a => (tableLookup (pyTok a)).isNone
  | .list (.atom a :: _) => (match tableLookup (pyTok a) with | some (.handler _) => true | _ => false)
  | _ => false

/-- a one-element list `(h)` is allowed only when `h` cannot be an uninterpreted function -/
def unitOK : List Sexp → Bool
  | [h] => !nullaryHead h
  | _ => true

mutual
/-- no sub-expression is an application to zero arguments whose head may be an uninterpreted function -/
def NoNullary : Sexp → Bool
  | .atom _ => true
  | .str _ => true
  | .list l => unitOK l && NoNullaryL l
def NoNullaryL : List Sexp → Bool
  | [] => true
  | s :: r => NoNullary s && NoNullaryL r
end

theorem NoNullary_list {l : List Sexp} (h : NoNullary (.list l) = true) : NoNullaryL l = true := by
  rw [NoNullary] at h
  simp only [Bool.and_eq_true] at h
  exact h.2

theorem NoNullary_unit {x : Sexp} (h : NoNullary (.list [x]) = true) : nullaryHead x = false := by
  rw [NoNullary] at h
  simp only [Bool.and_eq_true] at h
  simpa [unitOK] using h.1

theorem NoNullaryL_cons {s : Sexp} {r : List Sexp} (h : NoNullaryL (s :: r) = true) :
    NoNullary s = true ∧ NoNullaryL r = true := by
  rw [NoNullaryL] at h
  simpa using h

/-! ## binders of a quantifier -/

theorem rdQuantBinds_ok : ∀ (l : List Sexp) (Γ : PEnv) (vars : List Sym), EnvOK Γ.binds → ∀ (Γ' : PEnv) (vs : List Sym),
    rdQuantBinds Γ vars l = .ok (Γ', vs) → EnvOK Γ'.binds
  | [], Γ, vars, henv, Γ', vs, h => by
    rw [rdQuantBinds_nil] at h; cases h; exact henv
  | x :: bs, Γ, vars, henv, Γ', vs, h => by
    unfold rdQuantBinds at h
    split at h
    · cases h; exact henv
    · next hd y ty bs' heq =>
      dsimp only at h
      split at h
      · next t ht =>
        split at h
        · next s σ hq =>
          have hbs : bs' = bs := by cases heq; rfl
          subst hbs
          refine rdQuantBinds_ok bs' _ _ ?_ Γ' vs h
          exact EnvOK_cons (v := .term (Term.sym s)) ((wt_sym s).2 (quantVar_params hq)) henv
        · cases h
      · cases h
    · cases h

/-! ## a list in head position that evaluates to a function is a keyword form -/

theorem fnOfEntry_ok {e : Entry} {f : Fn} (h : fnOfEntry e = some f) : ValOK (.fn f) ∧ ∀ s, f ≠ .uf s := by
  cases e <;> simp only [fnOfEntry, Option.some.injEq] at h <;> first | (subst h; exact ⟨trivial, fun _ hh => nomatch hh⟩) | cases h

theorem applyFn_map_not_fn {f g : Fn} {vals : List Parser.Val} {σ σ' : MgrSt}
    (h : (applyFn f vals).map (fun v => (v, σ)) = .ok (Parser.Val.fn g, σ')) : False := by
  obtain ⟨v, hv, he⟩ := map_ok h
  obtain ⟨t, rfl⟩ := applyFn_term hv
  cases he

theorem rdVal_list_fn {Γ : PEnv} {lone : Bool} {hl : List Sexp} {f : Fn} {σ : MgrSt}
    (h : rdVal Γ lone (.list hl) = .ok (.fn f, σ)) : nullaryHead (.list hl) = true := by
  match hl, h with
  | [], h => rw [rdVal] at h; cases h
  | .str _ :: _, h => rw [rdVal] at h; cases h
  | .atom a :: r, h =>
    rw [rdVal] at h
    split at h
    · next fn heq => simp only [nullaryHead, heq]
    · split at h
      · split at h
        · exact (applyFn_map_not_fn h).elim
        · cases h
      · cases h
    · split at h
      · split at h
        · exact (applyFn_map_not_fn h).elim
        · cases h
      · split at h <;> cases h
      · cases h
  | .list h2 :: r, h =>
    rw [rdVal] at h
    · split at h
      · split at h
        · split at h
          · split at h
            · cases h
            · obtain ⟨t, _, he⟩ := map_ok h; cases he
          · cases h
          · cases h
          · cases h
        · cases h
      · split at h
        · split at h
          · exact (applyFn_map_not_fn h).elim
          · cases h
        · cases h
        · cases h
    · intros; simp_all
    · intros; simp_all

/-! ## the mutual induction -/

mutual
theorem rdVal_ok (s : Sexp) (hs : NoNullary s = true) (Γ : PEnv) (lone : Bool) (henv : EnvOK Γ.binds)
    (v : Parser.Val) (σ : MgrSt) (h : rdVal Γ lone s = .ok (v, σ)) : ValOK v := by
  match s, hs, h with
  | .atom tok, _, h =>
    rw [rdVal] at h
    obtain ⟨v', hv', he⟩ := map_ok h
    cases he
    exact atomVal_wt henv hv'
  | .str lit, _, h =>
    rw [rdVal_str] at h; cases h; exact wt_str _
  | .list [], _, h => rw [rdVal] at h; cases h
  | .list (.str _ :: _), _, h => rw [rdVal] at h; cases h
  | .list (.atom hd :: rest), hs, h =>
    have hrest : NoNullaryL rest = true := (NoNullaryL_cons (NoNullary_list hs)).2
    rw [rdVal] at h
    split at h
    · -- a keyword with a handler
      split at h
      · exact rdLetForm_ok rest hrest Γ henv v σ h
      · split at h
        · exact rdQuantForm_ok rest hrest Γ _ henv v σ h
        · split at h
          · exact rdAnnotForm_ok rest hrest Γ henv v σ h
          · split at h
            · obtain ⟨v', hv', he⟩ := map_ok h
              cases he
              exact (underscore_wt hv').1
            · split at h
              · exact (asForm_wt h).1
              · cases h
    · -- an interpreted operator
      split at h
      · next e _ f hf =>
        split at h
        · next vals σ' hargs =>
          obtain ⟨v', hv', he⟩ := map_ok h
          cases he
          obtain ⟨hfo, hnuf⟩ := fnOfEntry_ok hf
          exact applyFn_wt f hfo vals (rdArgs_ok rest hrest Γ henv vals _ hargs).1
            (fun s hfs => absurd hfs (hnuf s)) hv'
        · cases h
      · cases h
    · -- a name of the cache
      next hnone =>
      split at h
      · next f hat =>
        split at h
        · next vals σ' hargs =>
          obtain ⟨v', hv', he⟩ := map_ok h
          cases he
          have hfo : ValOK (.fn f) := atomVal_wt henv hat
          obtain ⟨hvals, hlen⟩ := rdArgs_ok rest hrest Γ henv vals _ hargs
          refine applyFn_wt f hfo vals hvals (fun s _ => Or.inl ?_) hv'
          intro hnil
          subst hnil
          have hr : rest = [] := List.eq_nil_of_length_eq_zero hlen.symm
          subst hr
          have := NoNullary_unit hs
          simp [nullaryHead, hnone] at this
        · cases h
      · split at h <;> cases h
      · cases h
  | .list (.list hl :: rest), hs, h =>
    have hall := NoNullaryL_cons (NoNullary_list hs)
    rw [rdVal] at h
    · split at h
      · -- ((_ to_bv w) n)
        split at h
        · split at h
          · split at h
            · cases h
            · obtain ⟨t, ht, he⟩ := liftMk_map_wt (WTR_ite (WTR_BV _ _) (WTR_SBV _ _)) h
              cases he
              exact ht
          · cases h
          · cases h
          · cases h
        · cases h
      · -- the head is evaluated
        split at h
        · next f σ1 hhead =>
          split at h
          · next vals σ' hargs =>
            obtain ⟨v', hv', he⟩ := map_ok h
            cases he
            have hfo : ValOK (.fn f) := rdVal_ok (.list hl) hall.1 Γ false henv _ σ1 hhead
            obtain ⟨hvals, hlen⟩ := rdArgs_ok rest hall.2 { Γ with mgr := σ1 } henv vals _ hargs
            refine applyFn_wt f hfo vals hvals (fun s _ => Or.inl ?_) hv'
            intro hnil
            subst hnil
            have hr : rest = [] := List.eq_nil_of_length_eq_zero hlen.symm
            subst hr
            have h1 := NoNullary_unit hs
            rw [rdVal_list_fn hhead] at h1
            cases h1
          · cases h
        · cases h
        · cases h
    · intros; simp_all
    · intros; simp_all
termination_by sizeOf s

theorem rdLetForm_ok (l : List Sexp) (hl : NoNullaryL l = true) (Γ : PEnv) (henv : EnvOK Γ.binds)
    (v : Parser.Val) (σ : MgrSt) (h : rdLetForm Γ l = .ok (v, σ)) : ValOK v := by
  unfold rdLetForm at h
  split at h
  · next b bs body =>
    obtain ⟨h1, h2⟩ := NoNullaryL_cons hl
    split at h
    · next Γ' hΓ' =>
      have henv' := rdLetBinds_ok (b :: bs) (NoNullary_list h1) Γ [] [] henv (fun _ hh => nomatch hh) Γ' hΓ'
      exact rdVal_ok body (NoNullaryL_cons h2).1 Γ' false henv' v σ h
    · cases h
  · cases h
  · cases h
termination_by sizeOf l

theorem rdQuantForm_ok (l : List Sexp) (hl : NoNullaryL l = true) (Γ : PEnv) (isForall : Bool)
    (henv : EnvOK Γ.binds) (v : Parser.Val) (σ : MgrSt) (h : rdQuantForm Γ isForall l = .ok (v, σ)) : ValOK v := by
  unfold rdQuantForm at h
  split at h
  · next b bs body =>
    obtain ⟨_, h2⟩ := NoNullaryL_cons hl
    split at h
    · next Γ' vars hΓ' =>
      have henv' := rdQuantBinds_ok (b :: bs) Γ [] henv Γ' vars hΓ'
      split at h
      · next t σ' hb =>
        have ht : t.wt = true := rdVal_ok body (NoNullaryL_cons h2).1 Γ' false henv' _ σ' hb
        have hw : WTR ((if isForall then Mk.ForAll else Mk.Exists) vars t) := by
          cases isForall
          · exact WTR_Exists vars ht
          · exact WTR_ForAll vars ht
        obtain ⟨r, hr, he⟩ := liftMk_map_wt hw h
        cases he
        exact hr
      · cases h
      · cases h
    · cases h
  · cases h
  · cases h
termination_by sizeOf l

theorem rdAnnotForm_ok (l : List Sexp) (hl : NoNullaryL l = true) (Γ : PEnv) (henv : EnvOK Γ.binds)
    (v : Parser.Val) (σ : MgrSt) (h : rdAnnotForm Γ l = .ok (v, σ)) : ValOK v := by
  unfold rdAnnotForm at h
  split at h
  · next t attrs =>
    split at h
    · next t' σ' ht =>
      split at h
      · cases h
        exact rdVal_ok t (NoNullaryL_cons hl).1 Γ false henv _ _ ht
      · cases h
    · cases h
    · cases h
  · cases h
termination_by sizeOf l

theorem rdArgs_ok (l : List Sexp) (hl : NoNullaryL l = true) (Γ : PEnv) (henv : EnvOK Γ.binds)
    (vals : List Parser.Val) (σ : MgrSt) (h : rdArgs Γ l = .ok (vals, σ)) :
    (∀ v ∈ vals, ValOK v) ∧ vals.length = l.length := by
  match l, hl, h with
  | [], _, h =>
    rw [rdArgs_nil] at h; cases h
    exact ⟨fun _ hh => (nomatch hh), rfl⟩
  | s :: rest, hl, h =>
    obtain ⟨h1, h2⟩ := NoNullaryL_cons hl
    rw [rdArgs] at h
    split at h
    · next v1 σ1 hv1 =>
      split at h
      · next vs σ2 hvs =>
        cases h
        have hv := rdVal_ok s h1 Γ false henv v1 σ1 hv1
        obtain ⟨hr, hlen⟩ := rdArgs_ok rest h2 { Γ with mgr := σ1 } henv vs _ hvs
        refine ⟨?_, by simp [hlen]⟩
        intro x hx
        simp only [List.mem_cons] at hx
        rcases hx with rfl | hx
        · exact hv
        · exact hr x hx
      · cases h
    · cases h
termination_by sizeOf l

theorem rdLetBinds_ok (l : List Sexp) (hl : NoNullaryL l = true) (Γ : PEnv) (seen : List String)
    (delayed : List (String × Parser.Val)) (henv : EnvOK Γ.binds) (hd : EnvOK delayed) (Γ' : PEnv)
    (h : rdLetBinds Γ seen delayed l = .ok Γ') : EnvOK Γ'.binds := by
  unfold rdLetBinds at h
  split at h
  · cases h
    exact EnvOK_bindAll _ _ (EnvOK_reverse hd) henv
  · next x e bs =>
    obtain ⟨h1, h2⟩ := NoNullaryL_cons hl
    have he : NoNullary e = true := (NoNullaryL_cons (NoNullaryL_cons (NoNullary_list h1)).2).1
    dsimp only at h
    split at h
    · cases h
    · split at h
      · next v σ hv =>
        have hvo : ValOK v := rdVal_ok e he Γ false henv v σ hv
        split at h
        · exact rdLetBinds_ok bs h2 _ _ _ (EnvOK_cons hvo henv) hd Γ' h
        · exact rdLetBinds_ok bs h2 { Γ with mgr := σ } _ _ henv (EnvOK_cons hvo hd) Γ' h
      · cases h
  · cases h
termination_by sizeOf l
end

/-! ## the theorems -/

/-- **accepted ⇒ well-typed, values**: every value the parser model computes for an expression satisfies `ValOK`
(a term is `wt`; a callable is never a `define-fun`'d function unless the environment already contained one). -/
theorem rdVal_wt {Γ : PEnv} {lone : Bool} {s : Sexp} {v : Parser.Val} {σ : MgrSt} (henv : EnvOK Γ.binds)
    (hs : NoNullary s = true) (h : rdVal Γ lone s = .ok (v, σ)) : ValOK v :=
  rdVal_ok s hs Γ lone henv v σ h

/-- **accepted ⇒ well-typed, terms**: for every S-expression without an application to zero arguments (`NoNullary`),
in an environment whose terms are well-typed and that contains no `define-fun`'d function, the term the parser model
returns is well-typed. -/
theorem readTerm_wt (Γ : PEnv) (h : EnvOK Γ.binds) (s : Sexp) (hs : NoNullary s = true) (t : Term)
    (hr : readTerm Γ s = .ok t) : t.wt = true := by
  unfold readTerm at hr
  split at hr
  · next t' σ hv => cases hr; exact rdVal_wt h hs hv
  · cases hr
  · cases hr

end PySMT.Parser.WT
