import PySMT.Proofs.C09Frag1
/-!
# C09: the operators that are printed `(f args…)` — standard names, arities
-/
namespace PySMT.Parser.Agree
open PySMT PySMT.Parser PySMT.Std PySMT.Sexp PySMT.Printer

/-- the operators every walker method of which writes `(f args…)`, with the standard's name `f` -/
def plainName : Op → Option String
  | .and => some "and" | .or => some "or" | .not => some "not" | .implies => some "=>" | .iff => some "="
  | .plus => some "+" | .minus => some "-" | .times => some "*" | .le => some "<=" | .lt => some "<"
  | .equals => some "=" | .ite => some "ite" | .toReal => some "to_real" | .div => some "/"
  | .bvNot => some "bvnot" | .bvAnd => some "bvand" | .bvOr => some "bvor" | .bvXor => some "bvxor"
  | .bvConcat => some "concat" | .bvUlt => some "bvult" | .bvUle => some "bvule" | .bvNeg => some "bvneg"
  | .bvAdd => some "bvadd" | .bvSub => some "bvsub" | .bvMul => some "bvmul" | .bvUdiv => some "bvudiv"
  | .bvUrem => some "bvurem" | .bvLshl => some "bvshl" | .bvLshr => some "bvlshr" | .bvSlt => some "bvslt"
  | .bvSle => some "bvsle" | .bvComp => some "bvcomp" | .bvSdiv => some "bvsdiv" | .bvSrem => some "bvsrem"
  | .bvAshr => some "bvashr" | .strLength => some "str.len" | .strConcat => some "str.++"
  | .strContains => some "str.contains" | .strIndexOf => some "str.indexof" | .strReplace => some "str.replace"
  | .strSubstr => some "str.substr" | .strPrefixOf => some "str.prefixof" | .strSuffixOf => some "str.suffixof"
  | .strCharAt => some "str.at" | .arraySelect => some "select" | .arrayStore => some "store"
  | .bvToNatural => some "bv2nat"
  | _ => none

/-- the operators of which the fragment admits the binary form only (and the binary `-`) -/
def plainBinary : List Op :=
  [.implies, .iff, .minus, .div, .le, .lt, .equals, .bvXor, .bvSub, .bvUdiv, .bvUrem, .bvLshl, .bvLshr, .bvAshr,
   .bvSdiv, .bvSrem]

theorem plain_spell (op : Op) (f : String) (h : plainName op = some f) :
    (walkKey op, f) ∈ stdSpellings ∧ f ∈ fragOps := by
  cases op <;> simp only [plainName, Option.some.injEq, reduceCtorEq] at h <;> subst h <;> decide

theorem plain_nodeSexp (sp : Spell) (b : Bool) (op : Op) (f : String) (h : plainName op = some f) (p : Payload)
    (args : List Term) (as : List Sexp) : nodeSexp sp b op p args as = .list (.atom (sp (walkKey op)) :: as) := by
  cases op <;> simp only [plainName, Option.some.injEq, reduceCtorEq] at h <;> rfl

theorem stdTy_two (op : Op) (hop : op ∈ plainBinary) (p : Payload) (ts : List Ty) (τ : Ty)
    (h : stdTy op p ts = some τ) : ts.length = 2 := by
  simp only [plainBinary, List.mem_cons, List.mem_nil_iff, or_false] at hop
  rcases hop with rfl | rfl | rfl | rfl | rfl | rfl | rfl | rfl | rfl | rfl | rfl | rfl | rfl | rfl | rfl | rfl <;>
  · simp only [stdTy] at h
    (repeat' split at h) <;> simp_all <;> (rename_i hc; rcases hc.2 with rfl | rfl <;> rfl)

theorem plain_arity (op : Op) (f : String) (h : plainName op = some f) (p : Payload) (ts : List Ty) (τ : Ty)
    (hS : stdTy op p ts = some τ) : arityOK f ts.length = true ∧ (f ≠ "-" ∨ ts.length = 2) := by
  by_cases hb : op ∈ plainBinary
  · have h2 := stdTy_two op hb p ts τ hS
    rw [h2]
    refine ⟨?_, Or.inr rfl⟩
    simp only [plainBinary, List.mem_cons, List.mem_nil_iff, or_false] at hb
    rcases hb with rfl | rfl | rfl | rfl | rfl | rfl | rfl | rfl | rfl | rfl | rfl | rfl | rfl | rfl | rfl | rfl <;>
    · simp only [plainName, Option.some.injEq] at h
      subst h
      decide
  · cases op <;> simp only [plainName, Option.some.injEq, reduceCtorEq] at h <;> subst h <;>
      first
      | exact absurd (by decide) hb
      | exact ⟨by simp [arityOK, binaryOnly], Or.inl (by decide)⟩

end PySMT.Parser.Agree
