import PySMT.Proofs.C08WT1
/-!
# C08 — "accepted ⇒ well-typed", part 2: `getattr(mgr, name)(*terms)` hands out `wt` terms

`call_wt`: for **every** method name `m` (the 91 names `Mk.call` knows — one lemma each, generated mechanically from the
shape of the method's parameter list — and the unknown ones, which answer `unmodelled`) and every list of `wt` terms,
a successful `Mk.call m terms` is `wt`. The parser only passes terms (`Arg.t`), so the branches of `call` that expect
Python integers, strings, sorts or symbols are errors here.
-/
namespace PySMT.Parser.WT
open PySMT PySMT.Mk

/-! ## the remaining constructors -/

theorem WTR_NotEquals {l r : Term} (hl : l.wt = true) (hr : r.wt = true) : WTR (Mk.NotEquals l r) := by
  unfold Mk.NotEquals
  exact WTR_bind (WTR_Equals hl hr) (fun a ha => WTR_Not ha)

theorem WTL_amoConstraints : ∀ (l : List Term), (∀ b ∈ l, b.wt = true) → WTL (Mk.amoConstraints l)
  | [], _ => WTL_ok (fun _ h => nomatch h)
  | [_], _ => WTL_ok (fun _ h => nomatch h)
  | a :: b :: rest, h => by
    unfold Mk.amoConstraints
    have hr : ∀ x ∈ b :: rest, x.wt = true := fun x hx => h x (by simp [hx])
    refine WTL_bind (WTR_Or hr) (fun o ho => ?_)
    refine WTL_bind (WTR_Not ho) (fun n hn => ?_)
    refine WTL_bind (WTR_Implies (h a (by simp)) hn) (fun c hc => ?_)
    refine WTL_bindL (WTL_amoConstraints (b :: rest) hr) (fun cs hcs => ?_)
    refine WTL_ok ?_
    intro x hx
    simp only [List.mem_cons] at hx
    rcases hx with rfl | hx
    · exact hc
    · exact hcs x hx

theorem WTR_AtMostOne {args : List Term} (h : ∀ a ∈ args, a.wt = true) : WTR (Mk.AtMostOne args) := by
  unfold Mk.AtMostOne
  exact WTR_bindL (WTL_amoConstraints args h) (fun l hl => WTR_And hl)

theorem WTR_ExactlyOne {args : List Term} (h : ∀ a ∈ args, a.wt = true) : WTR (Mk.ExactlyOne args) := by
  unfold Mk.ExactlyOne
  exact WTR_bind (WTR_Or h) (fun o ho => WTR_bind (WTR_AtMostOne h) (fun a ha => WTR_And (mem2 ho ha)))

theorem WTR_minMaxWrap {le : Term → Term → Mk.R} (hle : ∀ a b, a.wt = true → b.wt = true → WTR (le a b))
    (isMin : Bool) : ∀ (n : Nat) (l : List Term), l.length ≤ n → (∀ a ∈ l, a.wt = true) →
    WTR (Mk.minMaxWrap le isMin l)
  | _, [], _, _ => by unfold Mk.minMaxWrap; exact WTR_error _
  | _, [a], _, h => by unfold Mk.minMaxWrap; exact WTR_ok (h a (by simp))
  | _, [a, b], _, h => by
    unfold Mk.minMaxWrap
    have ha := h a (by simp); have hb := h b (by simp)
    refine WTR_bind (hle a b ha hb) (fun c hc => ?_)
    cases isMin
    · exact WTR_Ite hc hb ha
    · exact WTR_Ite hc ha hb
  | 0, _ :: _ :: _ :: _, hn, _ => by simp at hn
  | n + 1, a :: b :: c :: rest, hn, h => by
    unfold Mk.minMaxWrap
    dsimp only
    have h1 : WTR (Mk.minMaxWrap le isMin ((a :: b :: c :: rest).take ((a :: b :: c :: rest).length / 2))) :=
      WTR_minMaxWrap hle isMin n _ (by simp only [List.length_take, List.length_cons] at hn ⊢; omega)
        (fun x hx => h x (List.mem_of_mem_take hx))
    have h2 : WTR (Mk.minMaxWrap le isMin ((a :: b :: c :: rest).drop ((a :: b :: c :: rest).length / 2))) :=
      WTR_minMaxWrap hle isMin n _ (by simp only [List.length_drop, List.length_cons] at hn ⊢; omega)
        (fun x hx => h x (List.mem_of_mem_drop hx))
    split
    · exact WTR_error _
    · next x hx =>
      split
      · exact WTR_error _
      · next y hy =>
        have hxw := h1 x hx
        have hyw := h2 y hy
        refine WTR_bind (hle x y hxw hyw) (fun c hc => ?_)
        cases isMin
        · exact WTR_Ite hc hyw hxw
        · exact WTR_Ite hc hxw hyw

theorem WTR_Min {args : List Term} (h : ∀ a ∈ args, a.wt = true) : WTR (Mk.Min args) :=
  WTR_minMaxWrap (fun _ _ ha hb => WTR_LE ha hb) true _ args (Nat.le_refl _) h
theorem WTR_Max {args : List Term} (h : ∀ a ∈ args, a.wt = true) : WTR (Mk.Max args) :=
  WTR_minMaxWrap (fun _ _ ha hb => WTR_LE ha hb) false _ args (Nat.le_refl _) h

theorem WTR_Abs {f : Term} (hf : f.wt = true) : WTR (Mk.Abs f) := by
  unfold Mk.Abs
  split
  · exact WTR_error _
  · exact WTR_bind (WTR_GT hf (wt_int 0)) (fun c hc =>
      WTR_bind (WTR_Minus (wt_int 0) hf) (fun m hm => WTR_Ite hc hf hm))
  · exact WTR_bind (WTR_GT hf (wt_real 0)) (fun c hc =>
      WTR_bind (WTR_Minus (wt_real 0) hf) (fun m hm => WTR_Ite hc hf hm))
  · exact WTR_error _

theorem termArgs_map (ts : List Term) : Mk.termArgs (ts.map Mk.Arg.t) = .ok ts := by
  induction ts with
  | nil => rfl
  | cons t rest ih => simp [Mk.termArgs, ih, bind, Except.bind]

/-! ## one lemma per method name (terms only) -/

theorem call_Not_wt : ∀ (args : List Term), (∀ a ∈ args, a.wt = true) → WTR (Mk.call "Not" (args.map .t))
  | [], _ => WTR_error Mk.Err.unmodelled
  | [a], h => WTR_Not (h a (by simp))
  | _ :: _ :: _, _ => WTR_error Mk.Err.unmodelled

theorem call_ToReal_wt : ∀ (args : List Term), (∀ a ∈ args, a.wt = true) → WTR (Mk.call "ToReal" (args.map .t))
  | [], _ => WTR_error Mk.Err.unmodelled
  | [a], h => WTR_ToReal (h a (by simp))
  | _ :: _ :: _, _ => WTR_error Mk.Err.unmodelled

theorem call_BVNot_wt : ∀ (args : List Term), (∀ a ∈ args, a.wt = true) → WTR (Mk.call "BVNot" (args.map .t))
  | [], _ => WTR_error Mk.Err.unmodelled
  | [a], h => WTR_BVNot (h a (by simp))
  | _ :: _ :: _, _ => WTR_error Mk.Err.unmodelled

theorem call_BVNeg_wt : ∀ (args : List Term), (∀ a ∈ args, a.wt = true) → WTR (Mk.call "BVNeg" (args.map .t))
  | [], _ => WTR_error Mk.Err.unmodelled
  | [a], h => WTR_BVNeg (h a (by simp))
  | _ :: _ :: _, _ => WTR_error Mk.Err.unmodelled

theorem call_BVToNatural_wt : ∀ (args : List Term), (∀ a ∈ args, a.wt = true) → WTR (Mk.call "BVToNatural" (args.map .t))
  | [], _ => WTR_error Mk.Err.unmodelled
  | [a], h => WTR_BVToNatural (h a (by simp))
  | _ :: _ :: _, _ => WTR_error Mk.Err.unmodelled

theorem call_StrLength_wt : ∀ (args : List Term), (∀ a ∈ args, a.wt = true) → WTR (Mk.call "StrLength" (args.map .t))
  | [], _ => WTR_error Mk.Err.unmodelled
  | [a], h => WTR_StrLength (h a (by simp))
  | _ :: _ :: _, _ => WTR_error Mk.Err.unmodelled

theorem call_StrToInt_wt : ∀ (args : List Term), (∀ a ∈ args, a.wt = true) → WTR (Mk.call "StrToInt" (args.map .t))
  | [], _ => WTR_error Mk.Err.unmodelled
  | [a], h => WTR_StrToInt (h a (by simp))
  | _ :: _ :: _, _ => WTR_error Mk.Err.unmodelled

theorem call_IntToStr_wt : ∀ (args : List Term), (∀ a ∈ args, a.wt = true) → WTR (Mk.call "IntToStr" (args.map .t))
  | [], _ => WTR_error Mk.Err.unmodelled
  | [a], h => WTR_IntToStr (h a (by simp))
  | _ :: _ :: _, _ => WTR_error Mk.Err.unmodelled

theorem call_Abs_wt : ∀ (args : List Term), (∀ a ∈ args, a.wt = true) → WTR (Mk.call "Abs" (args.map .t))
  | [], _ => WTR_error Mk.Err.unmodelled
  | [a], h => WTR_Abs (h a (by simp))
  | _ :: _ :: _, _ => WTR_error Mk.Err.unmodelled

theorem call_Implies_wt : ∀ (args : List Term), (∀ a ∈ args, a.wt = true) → WTR (Mk.call "Implies" (args.map .t))
  | [], _ => WTR_error Mk.Err.unmodelled
  | [_], _ => WTR_error Mk.Err.unmodelled
  | [a, b], h => WTR_Implies (h a (by simp)) (h b (by simp))
  | _ :: _ :: _ :: _, _ => WTR_error Mk.Err.unmodelled

theorem call_Iff_wt : ∀ (args : List Term), (∀ a ∈ args, a.wt = true) → WTR (Mk.call "Iff" (args.map .t))
  | [], _ => WTR_error Mk.Err.unmodelled
  | [_], _ => WTR_error Mk.Err.unmodelled
  | [a, b], h => WTR_Iff (h a (by simp)) (h b (by simp))
  | _ :: _ :: _ :: _, _ => WTR_error Mk.Err.unmodelled

theorem call_Minus_wt : ∀ (args : List Term), (∀ a ∈ args, a.wt = true) → WTR (Mk.call "Minus" (args.map .t))
  | [], _ => WTR_error Mk.Err.unmodelled
  | [_], _ => WTR_error Mk.Err.unmodelled
  | [a, b], h => WTR_Minus (h a (by simp)) (h b (by simp))
  | _ :: _ :: _ :: _, _ => WTR_error Mk.Err.unmodelled

theorem call_Pow_wt : ∀ (args : List Term), (∀ a ∈ args, a.wt = true) → WTR (Mk.call "Pow" (args.map .t))
  | [], _ => WTR_error Mk.Err.unmodelled
  | [_], _ => WTR_error Mk.Err.unmodelled
  | [a, b], h => WTR_Pow (h a (by simp)) (h b (by simp))
  | _ :: _ :: _ :: _, _ => WTR_error Mk.Err.unmodelled

theorem call_Div_wt : ∀ (args : List Term), (∀ a ∈ args, a.wt = true) → WTR (Mk.call "Div" (args.map .t))
  | [], _ => WTR_error Mk.Err.unmodelled
  | [_], _ => WTR_error Mk.Err.unmodelled
  | [a, b], h => WTR_Div (h a (by simp)) (h b (by simp))
  | _ :: _ :: _ :: _, _ => WTR_error Mk.Err.unmodelled

theorem call_Equals_wt : ∀ (args : List Term), (∀ a ∈ args, a.wt = true) → WTR (Mk.call "Equals" (args.map .t))
  | [], _ => WTR_error Mk.Err.unmodelled
  | [_], _ => WTR_error Mk.Err.unmodelled
  | [a, b], h => WTR_Equals (h a (by simp)) (h b (by simp))
  | _ :: _ :: _ :: _, _ => WTR_error Mk.Err.unmodelled

theorem call_NotEquals_wt : ∀ (args : List Term), (∀ a ∈ args, a.wt = true) → WTR (Mk.call "NotEquals" (args.map .t))
  | [], _ => WTR_error Mk.Err.unmodelled
  | [_], _ => WTR_error Mk.Err.unmodelled
  | [a, b], h => WTR_NotEquals (h a (by simp)) (h b (by simp))
  | _ :: _ :: _ :: _, _ => WTR_error Mk.Err.unmodelled

theorem call_GE_wt : ∀ (args : List Term), (∀ a ∈ args, a.wt = true) → WTR (Mk.call "GE" (args.map .t))
  | [], _ => WTR_error Mk.Err.unmodelled
  | [_], _ => WTR_error Mk.Err.unmodelled
  | [a, b], h => WTR_GE (h a (by simp)) (h b (by simp))
  | _ :: _ :: _ :: _, _ => WTR_error Mk.Err.unmodelled

theorem call_GT_wt : ∀ (args : List Term), (∀ a ∈ args, a.wt = true) → WTR (Mk.call "GT" (args.map .t))
  | [], _ => WTR_error Mk.Err.unmodelled
  | [_], _ => WTR_error Mk.Err.unmodelled
  | [a, b], h => WTR_GT (h a (by simp)) (h b (by simp))
  | _ :: _ :: _ :: _, _ => WTR_error Mk.Err.unmodelled

theorem call_LE_wt : ∀ (args : List Term), (∀ a ∈ args, a.wt = true) → WTR (Mk.call "LE" (args.map .t))
  | [], _ => WTR_error Mk.Err.unmodelled
  | [_], _ => WTR_error Mk.Err.unmodelled
  | [a, b], h => WTR_LE (h a (by simp)) (h b (by simp))
  | _ :: _ :: _ :: _, _ => WTR_error Mk.Err.unmodelled

theorem call_LT_wt : ∀ (args : List Term), (∀ a ∈ args, a.wt = true) → WTR (Mk.call "LT" (args.map .t))
  | [], _ => WTR_error Mk.Err.unmodelled
  | [_], _ => WTR_error Mk.Err.unmodelled
  | [a, b], h => WTR_LT (h a (by simp)) (h b (by simp))
  | _ :: _ :: _ :: _, _ => WTR_error Mk.Err.unmodelled

theorem call_Xor_wt : ∀ (args : List Term), (∀ a ∈ args, a.wt = true) → WTR (Mk.call "Xor" (args.map .t))
  | [], _ => WTR_error Mk.Err.unmodelled
  | [_], _ => WTR_error Mk.Err.unmodelled
  | [a, b], h => WTR_Xor (h a (by simp)) (h b (by simp))
  | _ :: _ :: _ :: _, _ => WTR_error Mk.Err.unmodelled

theorem call_EqualsOrIff_wt : ∀ (args : List Term), (∀ a ∈ args, a.wt = true) → WTR (Mk.call "EqualsOrIff" (args.map .t))
  | [], _ => WTR_error Mk.Err.unmodelled
  | [_], _ => WTR_error Mk.Err.unmodelled
  | [a, b], h => WTR_EqualsOrIff (h a (by simp)) (h b (by simp))
  | _ :: _ :: _ :: _, _ => WTR_error Mk.Err.unmodelled

theorem call_BVXor_wt : ∀ (args : List Term), (∀ a ∈ args, a.wt = true) → WTR (Mk.call "BVXor" (args.map .t))
  | [], _ => WTR_error Mk.Err.unmodelled
  | [_], _ => WTR_error Mk.Err.unmodelled
  | [a, b], h => WTR_BVXor (h a (by simp)) (h b (by simp))
  | _ :: _ :: _ :: _, _ => WTR_error Mk.Err.unmodelled

theorem call_BVSub_wt : ∀ (args : List Term), (∀ a ∈ args, a.wt = true) → WTR (Mk.call "BVSub" (args.map .t))
  | [], _ => WTR_error Mk.Err.unmodelled
  | [_], _ => WTR_error Mk.Err.unmodelled
  | [a, b], h => WTR_BVSub (h a (by simp)) (h b (by simp))
  | _ :: _ :: _ :: _, _ => WTR_error Mk.Err.unmodelled

theorem call_BVUDiv_wt : ∀ (args : List Term), (∀ a ∈ args, a.wt = true) → WTR (Mk.call "BVUDiv" (args.map .t))
  | [], _ => WTR_error Mk.Err.unmodelled
  | [_], _ => WTR_error Mk.Err.unmodelled
  | [a, b], h => WTR_BVUDiv (h a (by simp)) (h b (by simp))
  | _ :: _ :: _ :: _, _ => WTR_error Mk.Err.unmodelled

theorem call_BVURem_wt : ∀ (args : List Term), (∀ a ∈ args, a.wt = true) → WTR (Mk.call "BVURem" (args.map .t))
  | [], _ => WTR_error Mk.Err.unmodelled
  | [_], _ => WTR_error Mk.Err.unmodelled
  | [a, b], h => WTR_BVURem (h a (by simp)) (h b (by simp))
  | _ :: _ :: _ :: _, _ => WTR_error Mk.Err.unmodelled

theorem call_BVSDiv_wt : ∀ (args : List Term), (∀ a ∈ args, a.wt = true) → WTR (Mk.call "BVSDiv" (args.map .t))
  | [], _ => WTR_error Mk.Err.unmodelled
  | [_], _ => WTR_error Mk.Err.unmodelled
  | [a, b], h => WTR_BVSDiv (h a (by simp)) (h b (by simp))
  | _ :: _ :: _ :: _, _ => WTR_error Mk.Err.unmodelled

theorem call_BVSRem_wt : ∀ (args : List Term), (∀ a ∈ args, a.wt = true) → WTR (Mk.call "BVSRem" (args.map .t))
  | [], _ => WTR_error Mk.Err.unmodelled
  | [_], _ => WTR_error Mk.Err.unmodelled
  | [a, b], h => WTR_BVSRem (h a (by simp)) (h b (by simp))
  | _ :: _ :: _ :: _, _ => WTR_error Mk.Err.unmodelled

theorem call_BVULT_wt : ∀ (args : List Term), (∀ a ∈ args, a.wt = true) → WTR (Mk.call "BVULT" (args.map .t))
  | [], _ => WTR_error Mk.Err.unmodelled
  | [_], _ => WTR_error Mk.Err.unmodelled
  | [a, b], h => WTR_BVULT (h a (by simp)) (h b (by simp))
  | _ :: _ :: _ :: _, _ => WTR_error Mk.Err.unmodelled

theorem call_BVUGT_wt : ∀ (args : List Term), (∀ a ∈ args, a.wt = true) → WTR (Mk.call "BVUGT" (args.map .t))
  | [], _ => WTR_error Mk.Err.unmodelled
  | [_], _ => WTR_error Mk.Err.unmodelled
  | [a, b], h => WTR_BVUGT (h a (by simp)) (h b (by simp))
  | _ :: _ :: _ :: _, _ => WTR_error Mk.Err.unmodelled

theorem call_BVULE_wt : ∀ (args : List Term), (∀ a ∈ args, a.wt = true) → WTR (Mk.call "BVULE" (args.map .t))
  | [], _ => WTR_error Mk.Err.unmodelled
  | [_], _ => WTR_error Mk.Err.unmodelled
  | [a, b], h => WTR_BVULE (h a (by simp)) (h b (by simp))
  | _ :: _ :: _ :: _, _ => WTR_error Mk.Err.unmodelled

theorem call_BVUGE_wt : ∀ (args : List Term), (∀ a ∈ args, a.wt = true) → WTR (Mk.call "BVUGE" (args.map .t))
  | [], _ => WTR_error Mk.Err.unmodelled
  | [_], _ => WTR_error Mk.Err.unmodelled
  | [a, b], h => WTR_BVUGE (h a (by simp)) (h b (by simp))
  | _ :: _ :: _ :: _, _ => WTR_error Mk.Err.unmodelled

theorem call_BVSLT_wt : ∀ (args : List Term), (∀ a ∈ args, a.wt = true) → WTR (Mk.call "BVSLT" (args.map .t))
  | [], _ => WTR_error Mk.Err.unmodelled
  | [_], _ => WTR_error Mk.Err.unmodelled
  | [a, b], h => WTR_BVSLT (h a (by simp)) (h b (by simp))
  | _ :: _ :: _ :: _, _ => WTR_error Mk.Err.unmodelled

theorem call_BVSGT_wt : ∀ (args : List Term), (∀ a ∈ args, a.wt = true) → WTR (Mk.call "BVSGT" (args.map .t))
  | [], _ => WTR_error Mk.Err.unmodelled
  | [_], _ => WTR_error Mk.Err.unmodelled
  | [a, b], h => WTR_BVSGT (h a (by simp)) (h b (by simp))
  | _ :: _ :: _ :: _, _ => WTR_error Mk.Err.unmodelled

theorem call_BVSLE_wt : ∀ (args : List Term), (∀ a ∈ args, a.wt = true) → WTR (Mk.call "BVSLE" (args.map .t))
  | [], _ => WTR_error Mk.Err.unmodelled
  | [_], _ => WTR_error Mk.Err.unmodelled
  | [a, b], h => WTR_BVSLE (h a (by simp)) (h b (by simp))
  | _ :: _ :: _ :: _, _ => WTR_error Mk.Err.unmodelled

theorem call_BVSGE_wt : ∀ (args : List Term), (∀ a ∈ args, a.wt = true) → WTR (Mk.call "BVSGE" (args.map .t))
  | [], _ => WTR_error Mk.Err.unmodelled
  | [_], _ => WTR_error Mk.Err.unmodelled
  | [a, b], h => WTR_BVSGE (h a (by simp)) (h b (by simp))
  | _ :: _ :: _ :: _, _ => WTR_error Mk.Err.unmodelled

theorem call_BVComp_wt : ∀ (args : List Term), (∀ a ∈ args, a.wt = true) → WTR (Mk.call "BVComp" (args.map .t))
  | [], _ => WTR_error Mk.Err.unmodelled
  | [_], _ => WTR_error Mk.Err.unmodelled
  | [a, b], h => WTR_BVComp (h a (by simp)) (h b (by simp))
  | _ :: _ :: _ :: _, _ => WTR_error Mk.Err.unmodelled

theorem call_BVNand_wt : ∀ (args : List Term), (∀ a ∈ args, a.wt = true) → WTR (Mk.call "BVNand" (args.map .t))
  | [], _ => WTR_error Mk.Err.unmodelled
  | [_], _ => WTR_error Mk.Err.unmodelled
  | [a, b], h => WTR_BVNand (h a (by simp)) (h b (by simp))
  | _ :: _ :: _ :: _, _ => WTR_error Mk.Err.unmodelled

theorem call_BVNor_wt : ∀ (args : List Term), (∀ a ∈ args, a.wt = true) → WTR (Mk.call "BVNor" (args.map .t))
  | [], _ => WTR_error Mk.Err.unmodelled
  | [_], _ => WTR_error Mk.Err.unmodelled
  | [a, b], h => WTR_BVNor (h a (by simp)) (h b (by simp))
  | _ :: _ :: _ :: _, _ => WTR_error Mk.Err.unmodelled

theorem call_BVXnor_wt : ∀ (args : List Term), (∀ a ∈ args, a.wt = true) → WTR (Mk.call "BVXnor" (args.map .t))
  | [], _ => WTR_error Mk.Err.unmodelled
  | [_], _ => WTR_error Mk.Err.unmodelled
  | [a, b], h => WTR_BVXnor (h a (by simp)) (h b (by simp))
  | _ :: _ :: _ :: _, _ => WTR_error Mk.Err.unmodelled

theorem call_BVSMod_wt : ∀ (args : List Term), (∀ a ∈ args, a.wt = true) → WTR (Mk.call "BVSMod" (args.map .t))
  | [], _ => WTR_error Mk.Err.unmodelled
  | [_], _ => WTR_error Mk.Err.unmodelled
  | [a, b], h => WTR_BVSMod (h a (by simp)) (h b (by simp))
  | _ :: _ :: _ :: _, _ => WTR_error Mk.Err.unmodelled

theorem call_StrContains_wt : ∀ (args : List Term), (∀ a ∈ args, a.wt = true) → WTR (Mk.call "StrContains" (args.map .t))
  | [], _ => WTR_error Mk.Err.unmodelled
  | [_], _ => WTR_error Mk.Err.unmodelled
  | [a, b], h => WTR_StrContains (h a (by simp)) (h b (by simp))
  | _ :: _ :: _ :: _, _ => WTR_error Mk.Err.unmodelled

theorem call_StrPrefixOf_wt : ∀ (args : List Term), (∀ a ∈ args, a.wt = true) → WTR (Mk.call "StrPrefixOf" (args.map .t))
  | [], _ => WTR_error Mk.Err.unmodelled
  | [_], _ => WTR_error Mk.Err.unmodelled
  | [a, b], h => WTR_StrPrefixOf (h a (by simp)) (h b (by simp))
  | _ :: _ :: _ :: _, _ => WTR_error Mk.Err.unmodelled

theorem call_StrSuffixOf_wt : ∀ (args : List Term), (∀ a ∈ args, a.wt = true) → WTR (Mk.call "StrSuffixOf" (args.map .t))
  | [], _ => WTR_error Mk.Err.unmodelled
  | [_], _ => WTR_error Mk.Err.unmodelled
  | [a, b], h => WTR_StrSuffixOf (h a (by simp)) (h b (by simp))
  | _ :: _ :: _ :: _, _ => WTR_error Mk.Err.unmodelled

theorem call_StrCharAt_wt : ∀ (args : List Term), (∀ a ∈ args, a.wt = true) → WTR (Mk.call "StrCharAt" (args.map .t))
  | [], _ => WTR_error Mk.Err.unmodelled
  | [_], _ => WTR_error Mk.Err.unmodelled
  | [a, b], h => WTR_StrCharAt (h a (by simp)) (h b (by simp))
  | _ :: _ :: _ :: _, _ => WTR_error Mk.Err.unmodelled

theorem call_Select_wt : ∀ (args : List Term), (∀ a ∈ args, a.wt = true) → WTR (Mk.call "Select" (args.map .t))
  | [], _ => WTR_error Mk.Err.unmodelled
  | [_], _ => WTR_error Mk.Err.unmodelled
  | [a, b], h => WTR_Select (h a (by simp)) (h b (by simp))
  | _ :: _ :: _ :: _, _ => WTR_error Mk.Err.unmodelled

theorem call_BVLShl_wt : ∀ (args : List Term), (∀ a ∈ args, a.wt = true) → WTR (Mk.call "BVLShl" (args.map .t))
  | [], _ => WTR_error Mk.Err.unmodelled
  | [_], _ => WTR_error Mk.Err.unmodelled
  | [a, b], h => WTR_BVLShl (h a (by simp)) (h b (by simp))
  | _ :: _ :: _ :: _, _ => WTR_error Mk.Err.unmodelled

theorem call_BVLShr_wt : ∀ (args : List Term), (∀ a ∈ args, a.wt = true) → WTR (Mk.call "BVLShr" (args.map .t))
  | [], _ => WTR_error Mk.Err.unmodelled
  | [_], _ => WTR_error Mk.Err.unmodelled
  | [a, b], h => WTR_BVLShr (h a (by simp)) (h b (by simp))
  | _ :: _ :: _ :: _, _ => WTR_error Mk.Err.unmodelled

theorem call_BVAShr_wt : ∀ (args : List Term), (∀ a ∈ args, a.wt = true) → WTR (Mk.call "BVAShr" (args.map .t))
  | [], _ => WTR_error Mk.Err.unmodelled
  | [_], _ => WTR_error Mk.Err.unmodelled
  | [a, b], h => WTR_BVAShr (h a (by simp)) (h b (by simp))
  | _ :: _ :: _ :: _, _ => WTR_error Mk.Err.unmodelled

theorem call_Ite_wt : ∀ (args : List Term), (∀ a ∈ args, a.wt = true) → WTR (Mk.call "Ite" (args.map .t))
  | [], _ => WTR_error Mk.Err.unmodelled
  | [_], _ => WTR_error Mk.Err.unmodelled
  | [_, _], _ => WTR_error Mk.Err.unmodelled
  | [a, b, c], h => WTR_Ite (h a (by simp)) (h b (by simp)) (h c (by simp))
  | _ :: _ :: _ :: _ :: _, _ => WTR_error Mk.Err.unmodelled

theorem call_StrIndexOf_wt : ∀ (args : List Term), (∀ a ∈ args, a.wt = true) → WTR (Mk.call "StrIndexOf" (args.map .t))
  | [], _ => WTR_error Mk.Err.unmodelled
  | [_], _ => WTR_error Mk.Err.unmodelled
  | [_, _], _ => WTR_error Mk.Err.unmodelled
  | [a, b, c], h => WTR_StrIndexOf (h a (by simp)) (h b (by simp)) (h c (by simp))
  | _ :: _ :: _ :: _ :: _, _ => WTR_error Mk.Err.unmodelled

theorem call_StrReplace_wt : ∀ (args : List Term), (∀ a ∈ args, a.wt = true) → WTR (Mk.call "StrReplace" (args.map .t))
  | [], _ => WTR_error Mk.Err.unmodelled
  | [_], _ => WTR_error Mk.Err.unmodelled
  | [_, _], _ => WTR_error Mk.Err.unmodelled
  | [a, b, c], h => WTR_StrReplace (h a (by simp)) (h b (by simp)) (h c (by simp))
  | _ :: _ :: _ :: _ :: _, _ => WTR_error Mk.Err.unmodelled

theorem call_StrSubstr_wt : ∀ (args : List Term), (∀ a ∈ args, a.wt = true) → WTR (Mk.call "StrSubstr" (args.map .t))
  | [], _ => WTR_error Mk.Err.unmodelled
  | [_], _ => WTR_error Mk.Err.unmodelled
  | [_, _], _ => WTR_error Mk.Err.unmodelled
  | [a, b, c], h => WTR_StrSubstr (h a (by simp)) (h b (by simp)) (h c (by simp))
  | _ :: _ :: _ :: _ :: _, _ => WTR_error Mk.Err.unmodelled

theorem call_Store_wt : ∀ (args : List Term), (∀ a ∈ args, a.wt = true) → WTR (Mk.call "Store" (args.map .t))
  | [], _ => WTR_error Mk.Err.unmodelled
  | [_], _ => WTR_error Mk.Err.unmodelled
  | [_, _], _ => WTR_error Mk.Err.unmodelled
  | [a, b, c], h => WTR_Store (h a (by simp)) (h b (by simp)) (h c (by simp))
  | _ :: _ :: _ :: _ :: _, _ => WTR_error Mk.Err.unmodelled

theorem call_And_wt (args : List Term) (h : ∀ a ∈ args, a.wt = true) : WTR (Mk.call "And" (args.map .t)) := by
  show WTR (Mk.termArgs (args.map .t) >>= Mk.And)
  rw [termArgs_map]; exact WTR_And h

theorem call_Or_wt (args : List Term) (h : ∀ a ∈ args, a.wt = true) : WTR (Mk.call "Or" (args.map .t)) := by
  show WTR (Mk.termArgs (args.map .t) >>= Mk.Or)
  rw [termArgs_map]; exact WTR_Or h

theorem call_Plus_wt (args : List Term) (h : ∀ a ∈ args, a.wt = true) : WTR (Mk.call "Plus" (args.map .t)) := by
  show WTR (Mk.termArgs (args.map .t) >>= Mk.Plus)
  rw [termArgs_map]; exact WTR_Plus h

theorem call_Times_wt (args : List Term) (h : ∀ a ∈ args, a.wt = true) : WTR (Mk.call "Times" (args.map .t)) := by
  show WTR (Mk.termArgs (args.map .t) >>= Mk.Times)
  rw [termArgs_map]; exact WTR_Times h

theorem call_AtMostOne_wt (args : List Term) (h : ∀ a ∈ args, a.wt = true) : WTR (Mk.call "AtMostOne" (args.map .t)) := by
  show WTR (Mk.termArgs (args.map .t) >>= Mk.AtMostOne)
  rw [termArgs_map]; exact WTR_AtMostOne h

theorem call_ExactlyOne_wt (args : List Term) (h : ∀ a ∈ args, a.wt = true) : WTR (Mk.call "ExactlyOne" (args.map .t)) := by
  show WTR (Mk.termArgs (args.map .t) >>= Mk.ExactlyOne)
  rw [termArgs_map]; exact WTR_ExactlyOne h

theorem call_AllDifferent_wt (args : List Term) (h : ∀ a ∈ args, a.wt = true) : WTR (Mk.call "AllDifferent" (args.map .t)) := by
  show WTR (Mk.termArgs (args.map .t) >>= Mk.AllDifferent)
  rw [termArgs_map]; exact WTR_AllDifferent h

theorem call_Min_wt (args : List Term) (h : ∀ a ∈ args, a.wt = true) : WTR (Mk.call "Min" (args.map .t)) := by
  show WTR (Mk.termArgs (args.map .t) >>= Mk.Min)
  rw [termArgs_map]; exact WTR_Min h

theorem call_Max_wt (args : List Term) (h : ∀ a ∈ args, a.wt = true) : WTR (Mk.call "Max" (args.map .t)) := by
  show WTR (Mk.termArgs (args.map .t) >>= Mk.Max)
  rw [termArgs_map]; exact WTR_Max h

theorem call_BVAnd_wt (args : List Term) (h : ∀ a ∈ args, a.wt = true) : WTR (Mk.call "BVAnd" (args.map .t)) := by
  show WTR (Mk.termArgs (args.map .t) >>= Mk.BVAnd)
  rw [termArgs_map]; exact WTR_BVAnd h

theorem call_BVOr_wt (args : List Term) (h : ∀ a ∈ args, a.wt = true) : WTR (Mk.call "BVOr" (args.map .t)) := by
  show WTR (Mk.termArgs (args.map .t) >>= Mk.BVOr)
  rw [termArgs_map]; exact WTR_BVOr h

theorem call_BVAdd_wt (args : List Term) (h : ∀ a ∈ args, a.wt = true) : WTR (Mk.call "BVAdd" (args.map .t)) := by
  show WTR (Mk.termArgs (args.map .t) >>= Mk.BVAdd)
  rw [termArgs_map]; exact WTR_BVAdd h

theorem call_BVMul_wt (args : List Term) (h : ∀ a ∈ args, a.wt = true) : WTR (Mk.call "BVMul" (args.map .t)) := by
  show WTR (Mk.termArgs (args.map .t) >>= Mk.BVMul)
  rw [termArgs_map]; exact WTR_BVMul h

theorem call_BVConcat_wt (args : List Term) (h : ∀ a ∈ args, a.wt = true) : WTR (Mk.call "BVConcat" (args.map .t)) := by
  show WTR (Mk.termArgs (args.map .t) >>= Mk.BVConcat)
  rw [termArgs_map]; exact WTR_BVConcat h

theorem call_StrConcat_wt (args : List Term) (h : ∀ a ∈ args, a.wt = true) : WTR (Mk.call "StrConcat" (args.map .t)) := by
  show WTR (Mk.termArgs (args.map .t) >>= Mk.StrConcat)
  rw [termArgs_map]; exact WTR_StrConcat h

/-! ### methods whose parameters are not (only) terms -/

theorem call_MinBV_wt : ∀ (args : List Term), (∀ a ∈ args, a.wt = true) → WTR (Mk.call "MinBV" (args.map .t))
  | [], _ => WTR_error Mk.Err.unmodelled
  | _ :: _, _ => WTR_error Mk.Err.unmodelled
theorem call_MaxBV_wt : ∀ (args : List Term), (∀ a ∈ args, a.wt = true) → WTR (Mk.call "MaxBV" (args.map .t))
  | [], _ => WTR_error Mk.Err.unmodelled
  | _ :: _, _ => WTR_error Mk.Err.unmodelled
theorem call_TRUE_wt : ∀ (args : List Term), (∀ a ∈ args, a.wt = true) → WTR (Mk.call "TRUE" (args.map .t))
  | [], _ => WTR_ok wt_tt
  | _ :: _, _ => WTR_error Mk.Err.unmodelled
theorem call_FALSE_wt : ∀ (args : List Term), (∀ a ∈ args, a.wt = true) → WTR (Mk.call "FALSE" (args.map .t))
  | [], _ => WTR_ok wt_ff
  | _ :: _, _ => WTR_error Mk.Err.unmodelled
theorem call_Bool_wt : ∀ (args : List Term), (∀ a ∈ args, a.wt = true) → WTR (Mk.call "Bool" (args.map .t))
  | [], _ => WTR_error Mk.Err.unmodelled
  | [_], _ => WTR_error Mk.Err.type
  | _ :: _ :: _, _ => WTR_error Mk.Err.unmodelled
theorem call_Int_wt : ∀ (args : List Term), (∀ a ∈ args, a.wt = true) → WTR (Mk.call "Int" (args.map .t))
  | [], _ => WTR_error Mk.Err.unmodelled
  | [_], _ => WTR_error Mk.Err.type
  | _ :: _ :: _, _ => WTR_error Mk.Err.unmodelled
theorem call_Real_wt : ∀ (args : List Term), (∀ a ∈ args, a.wt = true) → WTR (Mk.call "Real" (args.map .t))
  | [], _ => WTR_error Mk.Err.unmodelled
  | [_], _ => WTR_error Mk.Err.type
  | _ :: _ :: _, _ => WTR_error Mk.Err.unmodelled
theorem call_String_wt : ∀ (args : List Term), (∀ a ∈ args, a.wt = true) → WTR (Mk.call "String" (args.map .t))
  | [], _ => WTR_error Mk.Err.unmodelled
  | [_], _ => WTR_error Mk.Err.unmodelled
  | _ :: _ :: _, _ => WTR_error Mk.Err.unmodelled
theorem call_BV_wt : ∀ (args : List Term), (∀ a ∈ args, a.wt = true) → WTR (Mk.call "BV" (args.map .t))
  | [], _ => WTR_error Mk.Err.unmodelled
  | [_], _ => WTR_error Mk.Err.unmodelled
  | [_, _], _ => WTR_error Mk.Err.unmodelled
  | _ :: _ :: _ :: _, _ => WTR_error Mk.Err.unmodelled
theorem call_SBV_wt : ∀ (args : List Term), (∀ a ∈ args, a.wt = true) → WTR (Mk.call "SBV" (args.map .t))
  | [], _ => WTR_error Mk.Err.unmodelled
  | [_], _ => WTR_error Mk.Err.unmodelled
  | [_, _], _ => WTR_error Mk.Err.unmodelled
  | _ :: _ :: _ :: _, _ => WTR_error Mk.Err.unmodelled
theorem call_BVOne_wt : ∀ (args : List Term), (∀ a ∈ args, a.wt = true) → WTR (Mk.call "BVOne" (args.map .t))
  | [], _ => WTR_error Mk.Err.unmodelled
  | [_], _ => WTR_error Mk.Err.unmodelled
  | _ :: _ :: _, _ => WTR_error Mk.Err.unmodelled
theorem call_BVZero_wt : ∀ (args : List Term), (∀ a ∈ args, a.wt = true) → WTR (Mk.call "BVZero" (args.map .t))
  | [], _ => WTR_error Mk.Err.unmodelled
  | [_], _ => WTR_error Mk.Err.unmodelled
  | _ :: _ :: _, _ => WTR_error Mk.Err.unmodelled
theorem call_BVExtract_wt : ∀ (args : List Term), (∀ a ∈ args, a.wt = true) →
    WTR (Mk.call "BVExtract" (args.map .t))
  | [], _ => WTR_error Mk.Err.unmodelled
  | [a], h => WTR_BVExtract (h a (by simp)) 0 none
  | [_, _], _ => WTR_error Mk.Err.unmodelled
  | [_, _, _], _ => WTR_error Mk.Err.unmodelled
  | _ :: _ :: _ :: _ :: _, _ => WTR_error Mk.Err.unmodelled
theorem call_BVRol_wt : ∀ (args : List Term), (∀ a ∈ args, a.wt = true) → WTR (Mk.call "BVRol" (args.map .t))
  | [], _ => WTR_error Mk.Err.unmodelled
  | [_], _ => WTR_error Mk.Err.unmodelled
  | [_, _], _ => WTR_error Mk.Err.type
  | _ :: _ :: _ :: _, _ => WTR_error Mk.Err.unmodelled
theorem call_BVRor_wt : ∀ (args : List Term), (∀ a ∈ args, a.wt = true) → WTR (Mk.call "BVRor" (args.map .t))
  | [], _ => WTR_error Mk.Err.unmodelled
  | [_], _ => WTR_error Mk.Err.unmodelled
  | [_, _], _ => WTR_error Mk.Err.type
  | _ :: _ :: _ :: _, _ => WTR_error Mk.Err.unmodelled
theorem call_BVZExt_wt : ∀ (args : List Term), (∀ a ∈ args, a.wt = true) → WTR (Mk.call "BVZExt" (args.map .t))
  | [], _ => WTR_error Mk.Err.unmodelled
  | [_], _ => WTR_error Mk.Err.unmodelled
  | [_, _], _ => WTR_error Mk.Err.type
  | _ :: _ :: _ :: _, _ => WTR_error Mk.Err.unmodelled
theorem call_BVSExt_wt : ∀ (args : List Term), (∀ a ∈ args, a.wt = true) → WTR (Mk.call "BVSExt" (args.map .t))
  | [], _ => WTR_error Mk.Err.unmodelled
  | [_], _ => WTR_error Mk.Err.unmodelled
  | [_, _], _ => WTR_error Mk.Err.type
  | _ :: _ :: _ :: _, _ => WTR_error Mk.Err.unmodelled
theorem call_BVRepeat_wt : ∀ (args : List Term), (∀ a ∈ args, a.wt = true) → WTR (Mk.call "BVRepeat" (args.map .t))
  | [], _ => WTR_error Mk.Err.unmodelled
  | [a], h => WTR_BVRepeat (h a (by simp)) 1
  | [_, _], _ => WTR_error Mk.Err.unmodelled
  | _ :: _ :: _ :: _, _ => WTR_error Mk.Err.unmodelled
theorem call_Array_wt : ∀ (args : List Term), (∀ a ∈ args, a.wt = true) → WTR (Mk.call "Array" (args.map .t))
  | [], _ => WTR_error Mk.Err.unmodelled
  | [_], _ => WTR_error Mk.Err.unmodelled
  | _ :: _ :: _, _ => WTR_error Mk.Err.unmodelled
theorem call_Function_wt : ∀ (args : List Term), (∀ a ∈ args, a.wt = true) → WTR (Mk.call "Function" (args.map .t))
  | [], _ => WTR_error Mk.Err.unmodelled
  | _ :: _, _ => WTR_error Mk.Err.unmodelled

/-- `ForAll(*vars, body)` / `Exists`: with terms only, the variable list is empty or the call is outside the model -/
theorem quant_call_wt (q : List Sym → Term → Mk.R) (hq : ∀ vs f, f.wt = true → WTR (q vs f)) (args : List Term)
    (h : ∀ a ∈ args, a.wt = true) :
    WTR (match (args.map Mk.Arg.t).reverse with
      | body :: vs => (match Mk.asTerm body with
          | some b => do q (← Mk.symArgs vs.reverse) b
          | .none => .error .unmodelled)
      | _ => .error .unmodelled) := by
  cases hr : (args.map Mk.Arg.t).reverse with
  | nil => exact WTR_error _
  | cons body vs =>
    have hb : body ∈ args.map Mk.Arg.t := by
      have : body ∈ (args.map Mk.Arg.t).reverse := by rw [hr]; simp
      simpa using this
    simp only [List.mem_map] at hb
    obtain ⟨b, hbm, rfl⟩ := hb
    exact WTR_bind_any (fun vs' => hq vs' b (h b hbm))

theorem call_ForAll_wt (args : List Term) (h : ∀ a ∈ args, a.wt = true) : WTR (Mk.call "ForAll" (args.map .t)) :=
  quant_call_wt Mk.ForAll (fun vs _ hf => WTR_ForAll vs hf) args h
theorem call_Exists_wt (args : List Term) (h : ∀ a ∈ args, a.wt = true) : WTR (Mk.call "Exists" (args.map .t)) :=
  quant_call_wt Mk.Exists (fun vs _ hf => WTR_Exists vs hf) args h

/-! ## every name -/

theorem call_known_wt (m : String) (hm : m ∈ Mk.callNames) (args : List Term) (h : ∀ a ∈ args, a.wt = true) :
    WTR (Mk.call m (args.map .t)) := by
  simp only [Mk.callNames, List.mem_cons, List.mem_nil_iff, or_false] at hm
  rcases hm with rfl | rfl | rfl | rfl | rfl | rfl | rfl | rfl | rfl | rfl | rfl | rfl | rfl | rfl | rfl | rfl | rfl | rfl | rfl | rfl | rfl | rfl | rfl | rfl | rfl | rfl | rfl | rfl | rfl | rfl | rfl | rfl | rfl | rfl | rfl | rfl | rfl | rfl | rfl | rfl | rfl | rfl | rfl | rfl | rfl | rfl | rfl | rfl | rfl | rfl | rfl | rfl | rfl | rfl | rfl | rfl | rfl | rfl | rfl | rfl | rfl | rfl | rfl | rfl | rfl | rfl | rfl | rfl | rfl | rfl | rfl | rfl | rfl | rfl | rfl | rfl | rfl | rfl | rfl | rfl | rfl | rfl | rfl | rfl | rfl | rfl | rfl | rfl | rfl | rfl | rfl
  · exact call_Not_wt args h
  · exact call_Implies_wt args h
  · exact call_Iff_wt args h
  · exact call_Minus_wt args h
  · exact call_And_wt args h
  · exact call_Or_wt args h
  · exact call_Plus_wt args h
  · exact call_Times_wt args h
  · exact call_Pow_wt args h
  · exact call_Div_wt args h
  · exact call_Equals_wt args h
  · exact call_NotEquals_wt args h
  · exact call_GE_wt args h
  · exact call_GT_wt args h
  · exact call_LE_wt args h
  · exact call_LT_wt args h
  · exact call_Ite_wt args h
  · exact call_ToReal_wt args h
  · exact call_AtMostOne_wt args h
  · exact call_ExactlyOne_wt args h
  · exact call_AllDifferent_wt args h
  · exact call_Xor_wt args h
  · exact call_Min_wt args h
  · exact call_Max_wt args h
  · exact call_MinBV_wt args h
  · exact call_MaxBV_wt args h
  · exact call_EqualsOrIff_wt args h
  · exact call_TRUE_wt args h
  · exact call_FALSE_wt args h
  · exact call_Bool_wt args h
  · exact call_Int_wt args h
  · exact call_Real_wt args h
  · exact call_String_wt args h
  · exact call_BV_wt args h
  · exact call_SBV_wt args h
  · exact call_BVOne_wt args h
  · exact call_BVZero_wt args h
  · exact call_BVNot_wt args h
  · exact call_BVNeg_wt args h
  · exact call_BVAnd_wt args h
  · exact call_BVOr_wt args h
  · exact call_BVAdd_wt args h
  · exact call_BVMul_wt args h
  · exact call_BVConcat_wt args h
  · exact call_BVXor_wt args h
  · exact call_BVSub_wt args h
  · exact call_BVUDiv_wt args h
  · exact call_BVURem_wt args h
  · exact call_BVSDiv_wt args h
  · exact call_BVSRem_wt args h
  · exact call_BVExtract_wt args h
  · exact call_BVULT_wt args h
  · exact call_BVUGT_wt args h
  · exact call_BVULE_wt args h
  · exact call_BVUGE_wt args h
  · exact call_BVSLT_wt args h
  · exact call_BVSGT_wt args h
  · exact call_BVSLE_wt args h
  · exact call_BVSGE_wt args h
  · exact call_BVLShl_wt args h
  · exact call_BVLShr_wt args h
  · exact call_BVAShr_wt args h
  · exact call_BVRol_wt args h
  · exact call_BVRor_wt args h
  · exact call_BVZExt_wt args h
  · exact call_BVSExt_wt args h
  · exact call_BVComp_wt args h
  · exact call_BVToNatural_wt args h
  · exact call_BVNand_wt args h
  · exact call_BVNor_wt args h
  · exact call_BVXnor_wt args h
  · exact call_BVSMod_wt args h
  · exact call_BVRepeat_wt args h
  · exact call_StrLength_wt args h
  · exact call_StrConcat_wt args h
  · exact call_StrContains_wt args h
  · exact call_StrIndexOf_wt args h
  · exact call_StrReplace_wt args h
  · exact call_StrSubstr_wt args h
  · exact call_StrPrefixOf_wt args h
  · exact call_StrSuffixOf_wt args h
  · exact call_StrToInt_wt args h
  · exact call_IntToStr_wt args h
  · exact call_StrCharAt_wt args h
  · exact call_Select_wt args h
  · exact call_Store_wt args h
  · exact call_Array_wt args h
  · exact call_Function_wt args h
  · exact call_ForAll_wt args h
  · exact call_Exists_wt args h
  · exact call_Abs_wt args h

/-- a name `call` does not know is outside the model -/
theorem call_unknown (m : String) (args : List Mk.Arg) (hm : ¬ m ∈ Mk.callNames) :
    Mk.call m args = .error .unmodelled := by
  unfold Mk.call
  dsimp only
  split
  all_goals first | exact absurd (by decide) hm | rfl

/-- **`getattr(mgr, m)(*terms)` is well-typed whenever it succeeds**, for every method name -/
theorem call_wt (m : String) (args : List Term) (h : ∀ a ∈ args, a.wt = true) : WTR (Mk.call m (args.map .t)) := by
  by_cases hm : m ∈ Mk.callNames
  · exact call_known_wt m hm args h
  · rw [call_unknown m _ hm]; exact WTR_error _

end PySMT.Parser.WT
