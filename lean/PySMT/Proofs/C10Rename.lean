import PySMT.Proofs.C10PrenexEq
/-!
# C10 — `walk_conj_disj` with alpha-renaming: the loop over the blocks of one argument
(`mergeBlocks`) returns an equivalent, clash-free prefix
-/
namespace PySMT.Rewritings

/-- `s` is not one of the fresh names number `n`, `n+1`, … -/
def Old (fresh : Nat → String) (n : Nat) (s : Sym) : Prop := ∀ k, n ≤ k → s.name ≠ fresh k

theorem Old.mono {fresh : Nat → String} {n n' : Nat} {s : Sym} (h : Old fresh n s) (hn : n ≤ n') : Old fresh n' s :=
  fun k hk => h k (Nat.le_trans hn hk)

/-- the supply never repeats a name -/
def Inj (fresh : Nat → String) : Prop := ∀ i j, fresh i = fresh j → i = j

section
variable {fresh : Nat → String}

/-! ## the renaming of one block -/

theorem renFrom_fst : ∀ (l : List Sym) (k : Nat), (renFrom fresh l k).map (·.1) = l
  | [], _ => rfl
  | v :: l, k => by simp [renFrom, renFrom_fst l (k + 1)]

theorem renFrom_snd : ∀ (l : List Sym) (k : Nat), ∀ w ∈ (renFrom fresh l k).map (·.2),
    ∃ i, i < l.length ∧ w.name = fresh (k + i) ∧ w.params = []
  | [], _, w, hw => by simp [renFrom] at hw
  | v :: l, k, w, hw => by
    simp only [renFrom, List.map_cons, List.mem_cons] at hw
    rcases hw with rfl | hw
    · exact ⟨0, by simp, rfl, rfl⟩
    · obtain ⟨i, hi, hn, hp⟩ := renFrom_snd l (k + 1) w hw
      exact ⟨i + 1, by simp [hi], by rw [hn]; congr 1; omega, hp⟩

theorem renFrom_ok : ∀ (l : List Sym) (k : Nat), (∀ v ∈ l, v.params = []) → RenOK (renFrom fresh l k)
  | [], _, _ => by intro p hp; cases hp
  | v :: l, k, h => by
    intro p hp
    simp only [renFrom, List.mem_cons] at hp
    rcases hp with rfl | hp
    · exact ⟨h v (by simp), rfl, rfl⟩
    · exact renFrom_ok l (k + 1) (fun x hx => h x (by simp [hx])) p hp

theorem renFrom_nodup (hinj : Inj fresh) : ∀ (l : List Sym) (k : Nat), ((renFrom fresh l k).map (·.2)).Nodup
  | [], _ => by simp [renFrom]
  | v :: l, k => by
    simp only [renFrom, List.map_cons, List.nodup_cons]
    refine ⟨fun hm => ?_, renFrom_nodup hinj l (k + 1)⟩
    obtain ⟨i, _, hn, _⟩ := renFrom_snd l (k + 1) _ hm
    have := hinj _ _ hn
    omega

/-- the renaming of the block `vs` against the reserved set `res`, first fresh name number `n` -/
def renOf (fresh : Nat → String) (vs res : List Sym) (n : Nat) : List (Sym × Sym) :=
  renFrom fresh (vs.filter (fun v => res.contains v)) n

def newOf (fresh : Nat → String) (vs res : List Sym) (n : Nat) : List Sym :=
  newBlock vs (fun v => res.contains v) (renOf fresh vs res n)

def clashLen (vs res : List Sym) : Nat := (vs.filter (fun v => res.contains v)).length

theorem blockRen (hinj : Inj fresh) {vs res S : List Sym} {n : Nat} (hp : ∀ v ∈ vs, v.params = [])
    (hvs : ∀ v ∈ vs, Old fresh n v) (hS : ∀ s ∈ S, Old fresh n s) :
    BlockRen vs (fun v => res.contains v) (renOf fresh vs res n) S where
  keys := renFrom_fst _ _
  ok := renFrom_ok _ _ (fun v hv => hp v (List.mem_filter.mp hv).1)
  nd := renFrom_nodup hinj _ _
  freshVs := by
    intro w hw hm
    obtain ⟨i, _, hn, _⟩ := renFrom_snd _ _ w hw
    exact hvs w hm (n + i) (Nat.le_add_right _ _) hn
  freshS := by
    intro w hw hm
    obtain ⟨i, _, hn, _⟩ := renFrom_snd _ _ w hw
    exact hS w hm (n + i) (Nat.le_add_right _ _) hn

theorem newOf_old (hinj : Inj fresh) {vs res : List Sym} {n : Nat} (hvs : ∀ v ∈ vs, Old fresh n v) :
    ∀ s ∈ newOf fresh vs res n, Old fresh (n + clashLen vs res) s := by
  intro s hs
  rcases List.mem_append.mp hs with h | h
  · exact (hvs s (List.mem_filter.mp h).1).mono (Nat.le_add_right _ _)
  · obtain ⟨i, hi, hn, _⟩ := renFrom_snd _ _ s h
    intro k hk e
    rw [hn] at e
    have := hinj _ _ e
    unfold clashLen at hk
    omega

theorem newOf_plain {vs res : List Sym} {n : Nat} (hp : ∀ v ∈ vs, v.params = []) :
    ∀ s ∈ newOf fresh vs res n, s.params = [] := by
  intro s hs
  rcases List.mem_append.mp hs with h | h
  · exact hp s (List.mem_filter.mp h).1
  · obtain ⟨_, _, _, hpp⟩ := renFrom_snd _ _ s h
    exact hpp

theorem newOf_not_res {vs res : List Sym} {n : Nat} (hres : ∀ s ∈ res, Old fresh n s) :
    ∀ s ∈ newOf fresh vs res n, s ∉ res := by
  intro s hs hm
  rcases List.mem_append.mp hs with h | h
  · have := (List.mem_filter.mp h).2
    simp [hm] at this
  · obtain ⟨i, _, hn, _⟩ := renFrom_snd _ _ s h
    exact hres s hm (n + i) (Nat.le_add_right _ _) hn

theorem newOf_nodup (hinj : Inj fresh) {vs res : List Sym} {n : Nat} (hnd : vs.Nodup)
    (hvs : ∀ v ∈ vs, Old fresh n v) : (newOf fresh vs res n).Nodup := by
  unfold newOf newBlock
  rw [List.nodup_append]
  refine ⟨hnd.filter _, renFrom_nodup hinj _ _, ?_⟩
  intro a ha b hb e
  subst e
  obtain ⟨i, _, hn, _⟩ := renFrom_snd _ _ a hb
  exact hvs a (List.mem_filter.mp ha).1 (n + i) (Nat.le_add_right _ _) hn

/-! ## the loop, without the matrix -/

/-- the blocks `mergeBlocks` returns -/
def mbBlocks (fresh : Nat → String) : List QBlock → List Sym → Nat → List QBlock
  | [], _, _ => []
  | (q, vs) :: rest, res, n =>
    (q, newOf fresh vs res n) :: mbBlocks fresh rest (res ++ newOf fresh vs res n) (n + clashLen vs res)

/-- the supply counter `mergeBlocks` returns -/
def mbN : List QBlock → List Sym → Nat → (fresh : Nat → String) → Nat
  | [], _, n, _ => n
  | (_, vs) :: rest, res, n, fresh => mbN rest (res ++ newOf fresh vs res n) (n + clashLen vs res) fresh

/-- the semantic effect of all the renamings on the matrix -/
def mbTheta (fresh : Nat → String) : List QBlock → List Sym → Nat → Interp → Interp
  | [], _, _, J => J
  | (_, vs) :: rest, res, n, J =>
    theta (renOf fresh vs res n) (mbTheta fresh rest (res ++ newOf fresh vs res n) (n + clashLen vs res) J)

theorem mbN_le : ∀ (qs : List QBlock) (res : List Sym) (n : Nat), n ≤ mbN qs res n fresh
  | [], _, _ => Nat.le_refl _
  | (_, vs) :: rest, res, n => Nat.le_trans (Nat.le_add_right _ _) (mbN_le rest _ _)

theorem plain_of_cons {q : Bool} {vs : List Sym} {rest : List QBlock}
    (h : ∀ s ∈ boundOf ((q, vs) :: rest), s.params = []) :
    (∀ s ∈ vs, s.params = []) ∧ ∀ s ∈ boundOf rest, s.params = [] :=
  ⟨fun s hs => h s (by rw [boundOf_cons]; exact List.mem_append_left _ hs),
   fun s hs => h s (by rw [boundOf_cons]; exact List.mem_append_right _ hs)⟩

theorem theta_nil (J : Interp) : theta [] J = J := rfl

theorem mbTheta_wf_aux : ∀ (qs : List QBlock) (res : List Sym) (n : Nat), (∀ s ∈ boundOf qs, s.params = []) →
    ∀ J : Interp, J.WF → (mbTheta fresh qs res n J).WF
  | [], _, _, _, _, hJ => hJ
  | (q, vs) :: rest, res, n, hp, J, hJ => by
    obtain ⟨hpv, hpr⟩ := plain_of_cons hp
    exact theta_wf (renFrom_ok _ _ (fun v hv => hpv v (List.mem_filter.mp hv).1))
      (mbTheta_wf_aux rest _ _ hpr J hJ)

theorem mbTheta_same : ∀ (qs : List QBlock) (res : List Sym) (n : Nat) (J : Interp),
    (mbTheta fresh qs res n J).fn = J.fn ∧ (mbTheta fresh qs res n J).dom = J.dom ∧
    (mbTheta fresh qs res n J).div0r = J.div0r ∧ (mbTheta fresh qs res n J).div0i = J.div0i
  | [], _, _, _ => ⟨rfl, rfl, rfl, rfl⟩
  | (q, vs) :: rest, res, n, J => mbTheta_same rest _ _ J

/-- what `mergeBlocks` does to the matrix -/
theorem mb_term : ∀ (qs : List QBlock) (res : List Sym) (m : Term) (n : Nat),
    WB m → m.isQF = true → (∀ s ∈ boundOf qs, s.params = []) →
    (mergeBlocks fresh qs res m n).1 = mbBlocks fresh qs res n ∧
    (mergeBlocks fresh qs res m n).2.1 = res ++ boundOf (mbBlocks fresh qs res n) ∧
    (mergeBlocks fresh qs res m n).2.2.2 = mbN qs res n fresh ∧
    WB (mergeBlocks fresh qs res m n).2.2.1 ∧ (mergeBlocks fresh qs res m n).2.2.1.isQF = true ∧
    ∀ J : Interp, J.WF → truth J (mergeBlocks fresh qs res m n).2.2.1 = truth (mbTheta fresh qs res n J) m
  | [], res, m, n, hm, hq, _ => by
    exact ⟨rfl, by simp [mergeBlocks, mbBlocks, boundOf], rfl, hm, hq, fun _ _ => rfl⟩
  | (q, vs) :: rest, res, m, n, hm, hq, hp => by
    obtain ⟨hpv, hpr⟩ := plain_of_cons hp
    have hok : RenOK (renOf fresh vs res n) := renFrom_ok _ _ (fun v hv => hpv v (List.mem_filter.mp hv).1)
    -- the matrix after this block
    have h1 : WB (if (vs.filter (fun v => res.contains v)).isEmpty then m else substT (tmap (renOf fresh vs res n)) m) ∧
        (if (vs.filter (fun v => res.contains v)).isEmpty then m else substT (tmap (renOf fresh vs res n)) m).isQF = true ∧
        ∀ J : Interp, J.WF →
          truth J (if (vs.filter (fun v => res.contains v)).isEmpty then m else substT (tmap (renOf fresh vs res n)) m) =
            truth (theta (renOf fresh vs res n) J) m := by
      split
      · next he =>
        have : renOf fresh vs res n = [] := by
          unfold renOf
          rw [List.isEmpty_iff.mp he]; rfl
        rw [this]
        exact ⟨hm, hq, fun _ _ => rfl⟩
      · exact rename_spec hok hm hq
    have ih := mb_term rest (res ++ newOf fresh vs res n) _ (n + clashLen vs res) h1.1 h1.2.1 hpr
    have hunf : mergeBlocks fresh ((q, vs) :: rest) res m n =
        ((q, newOf fresh vs res n) ::
          (mergeBlocks fresh rest (res ++ newOf fresh vs res n)
            (if (vs.filter (fun v => res.contains v)).isEmpty then m else substT (tmap (renOf fresh vs res n)) m)
            (n + clashLen vs res)).1,
         (mergeBlocks fresh rest (res ++ newOf fresh vs res n)
            (if (vs.filter (fun v => res.contains v)).isEmpty then m else substT (tmap (renOf fresh vs res n)) m)
            (n + clashLen vs res)).2.1,
         (mergeBlocks fresh rest (res ++ newOf fresh vs res n)
            (if (vs.filter (fun v => res.contains v)).isEmpty then m else substT (tmap (renOf fresh vs res n)) m)
            (n + clashLen vs res)).2.2.1,
         (mergeBlocks fresh rest (res ++ newOf fresh vs res n)
            (if (vs.filter (fun v => res.contains v)).isEmpty then m else substT (tmap (renOf fresh vs res n)) m)
            (n + clashLen vs res)).2.2.2) := rfl
    rw [hunf]
    simp only [mbBlocks, mbN, mbTheta]
    refine ⟨by rw [ih.1], by rw [ih.2.1, boundOf_cons, List.append_assoc], ih.2.2.1, ih.2.2.2.1, ih.2.2.2.2.1, fun J hJ => ?_⟩
    have hΘ : (mbTheta fresh rest (res ++ newOf fresh vs res n) (n + clashLen vs res) J).WF := by
      exact mbTheta_wf_aux rest _ _ hpr J hJ
    rw [ih.2.2.2.2.2 J hJ, h1.2.2 _ hΘ]

/-! ## a renaming commutes with binders of other variables -/

theorem theta_bind_comm {ρ : List (Sym × Sym)} {s : Sym} (h1 : renLookup ρ s = none) (h2 : s ∉ ρ.map (·.2))
    (J : Interp) (x : Val) : theta ρ (J.bind s x) = (theta ρ J).bind s x := by
  simp only [theta, Interp.bind]
  congr 1
  funext t
  by_cases hts : t = s
  · subst hts; simp [h1]
  · simp only [hts, if_false]
    cases hl : renLookup ρ t with
    | none => simp [hts]
    | some w =>
      have : w ≠ s := fun e => h2 (List.mem_map.mpr ⟨(t, w), renLookup_mem hl, e⟩)
      simp [this]

theorem theta_quant_comm {ρ : List (Sym × Sym)} (all : Bool) (G : Interp → Bool) : ∀ (vs : List Sym),
    (∀ s ∈ vs, renLookup ρ s = none ∧ s ∉ ρ.map (·.2)) → ∀ J : Interp,
    (theta ρ J).quant all vs G = J.quant all vs (fun J' => G (theta ρ J'))
  | [], _, _ => rfl
  | v :: vs, h, J => by
    have hv := h v (by simp)
    have step : ∀ x, ((theta ρ J).bind v x).quant all vs G = (J.bind v x).quant all vs (fun J' => G (theta ρ J')) := by
      intro x
      rw [← theta_bind_comm hv.1 hv.2]
      exact theta_quant_comm all G vs (fun s hs => h s (by simp [hs])) _
    simp only [Interp.quant, theta_dom, step]

theorem renOf_keys {vs res : List Sym} {n : Nat} {s : Sym} (hs : s ∉ vs) : renLookup (renOf fresh vs res n) s = none := by
  cases hl : renLookup (renOf fresh vs res n) s with
  | none => rfl
  | some w =>
    have : s ∈ (renOf fresh vs res n).map (·.1) := List.mem_map.mpr ⟨(s, w), renLookup_mem hl, rfl⟩
    rw [renOf, renFrom_fst] at this
    exact absurd (List.mem_filter.mp this).1 hs

theorem renOf_vals {vs res : List Sym} {n : Nat} {s : Sym} (hs : Old fresh n s) : s ∉ (renOf fresh vs res n).map (·.2) := by
  intro hm
  obtain ⟨i, _, hn, _⟩ := renFrom_snd _ _ s hm
  exact hs (n + i) (Nat.le_add_right _ _) hn

theorem mbTheta_quant_comm (all : Bool) : ∀ (qs : List QBlock) (res : List Sym) (n : Nat) (G : Interp → Bool)
    (vs : List Sym), (∀ s ∈ vs, s ∉ boundOf qs ∧ Old fresh n s) → ∀ J : Interp,
    (mbTheta fresh qs res n J).quant all vs G = J.quant all vs (fun J' => G (mbTheta fresh qs res n J'))
  | [], _, _, _, _, _, _ => rfl
  | (q, ws) :: rest, res, n, G, vs, h, J => by
    simp only [mbTheta]
    rw [theta_quant_comm all G vs (fun s hs => ⟨renOf_keys (fun hm => (h s hs).1 (by
        rw [boundOf_cons]; exact List.mem_append_left _ hm)), renOf_vals (h s hs).2⟩)]
    exact mbTheta_quant_comm all rest _ _ _ vs (fun s hs => ⟨fun hm => (h s hs).1 (by
        rw [boundOf_cons]; exact List.mem_append_right _ hm), (h s hs).2.mono (Nat.le_add_right _ _)⟩) J

/-! ## the renamed prefix denotes the same predicate transformer -/

theorem mb_sem (hinj : Inj fresh) : ∀ (qs : List QBlock) (K : Interp → Bool) (S res : List Sym) (n : Nat),
    Supp S K → (boundOf qs).Nodup → (∀ s ∈ boundOf qs, s.params = []) →
    (∀ s ∈ boundOf qs, Old fresh n s) → (∀ s ∈ S, Old fresh n s) →
    ∀ I : Interp, I.WF →
      qsem (mbBlocks fresh qs res n) (fun J => K (mbTheta fresh qs res n J)) I = qsem qs K I
  | [], _, _, _, _, _, _, _, _, _, _, _ => rfl
  | (q, vs) :: rest, K, S, res, n, hK, hnd, hp, hold, hS, I, hI => by
    obtain ⟨hpv, hpr⟩ := plain_of_cons hp
    rw [boundOf_cons, List.nodup_append] at hnd
    obtain ⟨hndv, hndr, hdisj⟩ := hnd
    have holdv : ∀ s ∈ vs, Old fresh n s := fun s hs => hold s (by rw [boundOf_cons]; exact List.mem_append_left _ hs)
    have holdr : ∀ s ∈ boundOf rest, Old fresh n s :=
      fun s hs => hold s (by rw [boundOf_cons]; exact List.mem_append_right _ hs)
    have hbr := blockRen hinj (res := res) hpv holdv hS
    -- the body after the first (innermost) block
    let K1 : Interp → Bool := fun J => J.quant (!q) (newOf fresh vs res n) (fun J' => K (theta (renOf fresh vs res n) J'))
    have hK1 : ∀ J : Interp, J.WF → K1 J = J.quant (!q) vs K := fun J hJ => alpha_block hbr hK (!q) J hJ
    have hS1 : Supp (S.filter (fun s => !vs.contains s)) K1 := (supp_quant (!q) hK vs).congr hK1
    -- the later renamings commute with the first block
    have hcomm : ∀ J : Interp,
        J.quant (!q) (newOf fresh vs res n)
          (fun J' => K (theta (renOf fresh vs res n)
            (mbTheta fresh rest (res ++ newOf fresh vs res n) (n + clashLen vs res) J'))) =
        K1 (mbTheta fresh rest (res ++ newOf fresh vs res n) (n + clashLen vs res) J) := by
      intro J
      simp only [K1]
      rw [mbTheta_quant_comm (!q) rest _ _ (fun J' => K (theta (renOf fresh vs res n) J')) (newOf fresh vs res n)]
      intro s hs
      refine ⟨fun hm => ?_, newOf_old hinj holdv s hs⟩
      rcases List.mem_append.mp hs with h | h
      · exact hdisj s (List.mem_filter.mp h).1 s hm rfl
      · obtain ⟨i, _, hn, _⟩ := renFrom_snd _ _ s h
        exact holdr s hm (n + i) (Nat.le_add_right _ _) hn
    simp only [mbBlocks, mbTheta, qsem]
    have e1 : (fun J => J.quant (!q) (newOf fresh vs res n)
          (fun J' => K (theta (renOf fresh vs res n)
            (mbTheta fresh rest (res ++ newOf fresh vs res n) (n + clashLen vs res) J')))) =
        fun J => K1 (mbTheta fresh rest (res ++ newOf fresh vs res n) (n + clashLen vs res) J) := funext hcomm
    rw [e1, mb_sem hinj rest K1 _ _ _ hS1 hndr hpr (fun s hs => (holdr s hs).mono (Nat.le_add_right _ _))
      (fun s hs => (hS s (List.mem_filter.mp hs).1).mono (Nat.le_add_right _ _)) I hI]
    exact qsem_congr_wf rest _ _ hK1 I hI

/-! ## which symbol a symbol reads after all the renamings -/

theorem mbTheta_sym : ∀ (qs : List QBlock) (res : List Sym) (n : Nat) (s : Sym),
    ∃ s' : Sym, (∀ J : Interp, (mbTheta fresh qs res n J).sym s = J.sym s') ∧
      (s' = s ∨ s' ∈ boundOf (mbBlocks fresh qs res n)) ∧
      (s ∈ boundOf qs → s' ∈ boundOf (mbBlocks fresh qs res n))
  | [], _, _, s => ⟨s, fun _ => rfl, .inl rfl, fun h => by simp [boundOf] at h⟩
  | (q, vs) :: rest, res, n, s => by
    simp only [mbTheta, mbBlocks]
    cases hl : renLookup (renOf fresh vs res n) s with
    | some w =>
      have hw : w ∈ newOf fresh vs res n :=
        List.mem_append_right _ (List.mem_map.mpr ⟨(s, w), renLookup_mem hl, rfl⟩)
      obtain ⟨s', h1, h2, _⟩ := mbTheta_sym rest (res ++ newOf fresh vs res n) (n + clashLen vs res) w
      have hin : s' ∈ boundOf ((q, newOf fresh vs res n) ::
          mbBlocks fresh rest (res ++ newOf fresh vs res n) (n + clashLen vs res)) := by
        rw [boundOf_cons]
        rcases h2 with rfl | h2
        · exact List.mem_append_left _ hw
        · exact List.mem_append_right _ h2
      exact ⟨s', fun J => by simp only [theta, hl]; exact h1 J, .inr hin, fun _ => hin⟩
    | none =>
      obtain ⟨s', h1, h2, h3⟩ := mbTheta_sym rest (res ++ newOf fresh vs res n) (n + clashLen vs res) s
      refine ⟨s', fun J => by simp only [theta, hl]; exact h1 J, ?_, fun hs => ?_⟩
      · rcases h2 with rfl | h2
        · exact .inl rfl
        · exact .inr (by rw [boundOf_cons]; exact List.mem_append_right _ h2)
      · rw [boundOf_cons] at hs ⊢
        rcases List.mem_append.mp hs with hs | hs
        · -- a variable of this block that is kept
          have hk : s ∈ newOf fresh vs res n := by
            apply List.mem_append_left
            refine List.mem_filter.mpr ⟨hs, ?_⟩
            cases hc : res.contains s with
            | false => show (!res.contains s) = true; rw [hc]; rfl
            | true =>
              have : s ∈ (renOf fresh vs res n).map (·.1) := by
                rw [renOf, renFrom_fst]; exact List.mem_filter.mpr ⟨hs, hc⟩
              obtain ⟨p, hp, e⟩ := List.mem_map.mp this
              obtain ⟨w, hw⟩ := renLookup_some_of_mem ⟨p, hp, e⟩
              rw [hl] at hw; cases hw
          rcases h2 with rfl | h2
          · exact List.mem_append_left _ hk
          · exact List.mem_append_right _ h2
        · exact List.mem_append_right _ (h3 hs)

/-- the support of the renamed matrix -/
theorem mb_supp {qs : List QBlock} {res A : List Sym} {n : Nat} {K : Interp → Bool}
    (hp : ∀ s ∈ boundOf qs, s.params = []) (hK : Supp (A ++ boundOf qs) K) :
    Supp (A ++ boundOf (mbBlocks fresh qs res n)) (fun J => K (mbTheta fresh qs res n J)) := by
  intro J J' hJ hJ' hsym hfn hd hr hi
  have s1 := mbTheta_same (fresh := fresh) qs res n J
  have s2 := mbTheta_same (fresh := fresh) qs res n J'
  apply hK _ _ (mbTheta_wf_aux qs res n hp J hJ) (mbTheta_wf_aux qs res n hp J' hJ') _
    (by rw [s1.1, s2.1, hfn]) (by rw [s1.2.1, s2.2.1, hd]) (by rw [s1.2.2.1, s2.2.2.1, hr])
    (by rw [s1.2.2.2, s2.2.2.2, hi])
  intro s hs
  obtain ⟨s', h1, h2, h3⟩ := mbTheta_sym (fresh := fresh) qs res n s
  rw [h1 J, h1 J']
  apply hsym
  rcases List.mem_append.mp hs with hs | hs
  · rcases h2 with rfl | h2
    · exact List.mem_append_left _ hs
    · exact List.mem_append_right _ h2
  · exact List.mem_append_right _ (h3 hs)

/-! ## the renamed prefix is clash-free -/

theorem mb_noClash (hinj : Inj fresh) : ∀ (qs : List QBlock) (res : List Sym) (n : Nat),
    (∀ s ∈ res, Old fresh n s) → (∀ s ∈ boundOf qs, Old fresh n s) →
    noClash (mbBlocks fresh qs res n) res = true
  | [], _, _, _, _ => rfl
  | (q, vs) :: rest, res, n, hres, hold => by
    have holdv : ∀ s ∈ vs, Old fresh n s := fun s hs => hold s (by rw [boundOf_cons]; exact List.mem_append_left _ hs)
    simp only [mbBlocks, noClash, Bool.and_eq_true, List.all_eq_true, Bool.not_eq_eq_eq_not, Bool.not_true]
    refine ⟨fun s hs => ?_, mb_noClash hinj rest _ _ (fun s hs => ?_)
      (fun s hs => (hold s (by rw [boundOf_cons]; exact List.mem_append_right _ hs)).mono (Nat.le_add_right _ _))⟩
    · have := newOf_not_res hres s hs
      simpa using this
    · rcases List.mem_append.mp hs with h | h
      · exact (hres s h).mono (Nat.le_add_right _ _)
      · exact newOf_old hinj holdv s h

theorem mb_blocks_props (hinj : Inj fresh) : ∀ (qs : List QBlock) (res : List Sym) (n : Nat),
    (boundOf qs).Nodup → (∀ s ∈ boundOf qs, s.params = []) → (∀ s ∈ boundOf qs, Old fresh n s) →
    (∀ blk ∈ mbBlocks fresh qs res n, blk.2.Nodup) ∧
    (∀ s ∈ boundOf (mbBlocks fresh qs res n), s.params = []) ∧
    (∀ s ∈ boundOf (mbBlocks fresh qs res n), Old fresh (mbN qs res n fresh) s)
  | [], _, _, _, _, _ => by simp [mbBlocks, boundOf]
  | (q, vs) :: rest, res, n, hnd, hp, hold => by
    obtain ⟨hpv, hpr⟩ := plain_of_cons hp
    rw [boundOf_cons, List.nodup_append] at hnd
    have holdv : ∀ s ∈ vs, Old fresh n s := fun s hs => hold s (by rw [boundOf_cons]; exact List.mem_append_left _ hs)
    have ih := mb_blocks_props hinj rest (res ++ newOf fresh vs res n) (n + clashLen vs res) hnd.2.1 hpr
      (fun s hs => (hold s (by rw [boundOf_cons]; exact List.mem_append_right _ hs)).mono (Nat.le_add_right _ _))
    simp only [mbBlocks, mbN]
    refine ⟨fun blk hb => ?_, fun s hs => ?_, fun s hs => ?_⟩
    · simp only [List.mem_cons] at hb
      rcases hb with rfl | hb
      · exact newOf_nodup hinj hnd.1 holdv
      · exact ih.1 blk hb
    · rw [boundOf_cons] at hs
      rcases List.mem_append.mp hs with h | h
      · exact newOf_plain hpv s h
      · exact ih.2.1 s h
    · rw [boundOf_cons] at hs
      rcases List.mem_append.mp hs with h | h
      · exact (newOf_old hinj holdv s h).mono (mbN_le _ _ _)
      · exact ih.2.2 s h

end

end PySMT.Rewritings
