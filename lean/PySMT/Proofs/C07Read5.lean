import PySMT.Proofs.C07Read4
/-!
# C07 (`read_toSexp`, continued): bit-vector and string operators, `select`/`store`
-/
namespace PySMT.Printer
open PySMT.Std PySMT.Sexp

/-- (operator, walker key, standard name) of the thirteen binary bit-vector operators -/
def bvBinTable : List (Op × String × String) :=
  [(.bvAnd, "walk_bv_and", "bvand"), (.bvOr, "walk_bv_or", "bvor"), (.bvXor, "walk_bv_xor", "bvxor"),
   (.bvAdd, "walk_bv_add", "bvadd"), (.bvSub, "walk_bv_sub", "bvsub"), (.bvMul, "walk_bv_mul", "bvmul"),
   (.bvUdiv, "walk_bv_udiv", "bvudiv"), (.bvUrem, "walk_bv_urem", "bvurem"), (.bvLshl, "walk_bv_lshl", "bvshl"),
   (.bvLshr, "walk_bv_lshr", "bvlshr"), (.bvAshr, "walk_bv_ashr", "bvashr"), (.bvSdiv, "walk_bv_sdiv", "bvsdiv"),
   (.bvSrem, "walk_bv_srem", "bvsrem")]

theorem bvBinTable_ok : ∀ e ∈ bvBinTable,
    walkKey e.1 = e.2.1 ∧ (e.2.1, e.2.2) ∈ stdSpellings ∧ e.2.2 ∈ opToks ∧ (e.2.2, e.1) ∈ bvBinOps ∧ e.1 ≠ .arrayValue := by
  decide +kernel

section
variable (sp : Spell) (hsp : SpellStd sp) (env : SEnv) (sc : List Binding) (hsc : ThFree sc) (srt : Bool)
  (toS : Term → Sexp) (scope0 : List Sym)
include hsp hsc

theorem reads_bvbin_aux (op : Op) (key name : String) (he : (op, key, name) ∈ bvBinTable)
    (w : Nat) (a b : Term) (ha : tyD a = .bv w) (hb : tyD b = .bv w)
    (hsexp : ∀ as, nodeSexp sp srt op (.ints [w]) [a, b] as = .list (.atom (sp (walkKey op)) :: as))
    (hargs : ∀ x ∈ [a, b], Reads env sc srt toS x) (hty : (Term.node op [a, b] (.ints [w])).typeOf = some (.bv w)) :
    NodeReads sp env sc srt toS op [a, b] (.ints [w]) := by
  obtain ⟨hk, hs, ht, hb', hna⟩ := bvBinTable_ok _ he
  simp only at hk hs ht hb' hna
  apply reads_simple sp env sc hsc srt toS op (.ints [w]) [a, b] name ht
    (fun as => by rw [hsexp, hk, spell sp hsp key name hs])
    (unfoldAV_plain srt _ _ _ hna) hargs (by simp) _ hty
  simp only [List.map, U, ha, hb]; exact ap_bvbin name op hb' _ _ w

theorem reads_bvbin (op : Op) (hop : ∃ key name, (op, key, name) ∈ bvBinTable) (p : Payload) (args : List Term) (τ : Ty)
    (hargs : ∀ a ∈ args, Reads env sc srt toS a) (hty : (Term.node op args p).typeOf = some τ)
    (hS : stdTy op p (args.map tyD) = some τ) : NodeReads sp env sc srt toS op args p := by
  obtain ⟨key, name, he⟩ := hop
  have key2 : ∃ w a b, p = .ints [w] ∧ args = [a, b] ∧ tyD a = .bv w ∧ tyD b = .bv w ∧ τ = .bv w ∧
      (∀ as, nodeSexp sp srt op (.ints [w]) [a, b] as = .list (.atom (sp (walkKey op)) :: as)) := by
    simp only [bvBinTable, List.mem_cons, Prod.mk.injEq, List.not_mem_nil, or_false] at he
    rcases he with ⟨rfl, _⟩ | ⟨rfl, _⟩ | ⟨rfl, _⟩ | ⟨rfl, _⟩ | ⟨rfl, _⟩ | ⟨rfl, _⟩ | ⟨rfl, _⟩ | ⟨rfl, _⟩ | ⟨rfl, _⟩
      | ⟨rfl, _⟩ | ⟨rfl, _⟩ | ⟨rfl, _⟩ | ⟨rfl, _⟩ <;>
    · simp only [stdTy] at hS
      split at hS
      · next ts w x y hts =>
        split at hS <;> simp at hS
        rename_i hc
        simp only [Bool.and_eq_true, beq_iff_eq] at hc
        obtain ⟨a, b, rfl, ha, hb⟩ := map_eq_two hts
        exact ⟨w, a, b, rfl, rfl, by rw [ha, hc.1], by rw [hb, hc.2], hS.symm, fun as => by simp [nodeSexp]⟩
      · simp at hS
  obtain ⟨w, a, b, rfl, rfl, ha, hb, rfl, hsexp⟩ := key2
  exact reads_bvbin_aux sp hsp env sc hsc srt toS op key name he w a b ha hb hsexp hargs hty

theorem reads_bvun (op : Op) (hop : op = .bvNot ∨ op = .bvNeg) (p : Payload) (args : List Term) (τ : Ty)
    (hargs : ∀ a ∈ args, Reads env sc srt toS a) (hty : (Term.node op args p).typeOf = some τ)
    (hS : stdTy op p (args.map tyD) = some τ) : NodeReads sp env sc srt toS op args p := by
  rcases hop with rfl | rfl
  · simp only [stdTy] at hS
    split at hS
    · next ts w x hts =>
      split at hS <;> simp at hS
      rename_i hc
      simp only [beq_iff_eq] at hc
      obtain ⟨a, rfl, ha⟩ := map_eq_one hts
      subst hS
      apply reads_simple sp env sc hsc srt toS .bvNot (.ints [w]) [a] "bvnot" (by decide)
        (fun as => by simp [nodeSexp, walkKey, spell sp hsp "walk_bv_not" "bvnot" (by decide)])
        (unfoldAV_plain srt _ _ _ (by decide)) hargs (by simp) _ hty
      simp only [List.map, U, ha, hc]; exact ap_bvnot _ _
    · simp at hS
  · simp only [stdTy] at hS
    split at hS
    · next ts w x hts =>
      split at hS <;> simp at hS
      rename_i hc
      simp only [beq_iff_eq] at hc
      obtain ⟨a, rfl, ha⟩ := map_eq_one hts
      subst hS
      apply reads_simple sp env sc hsc srt toS .bvNeg (.ints [w]) [a] "bvneg" (by decide)
        (fun as => by simp [nodeSexp, walkKey, spell sp hsp "walk_bv_neg" "bvneg" (by decide)])
        (unfoldAV_plain srt _ _ _ (by decide)) hargs (by simp) _ hty
      simp only [List.map, U, ha, hc]; exact ap_bvneg _ _
    · simp at hS

theorem reads_concat (p : Payload) (args : List Term) (τ : Ty)
    (hargs : ∀ a ∈ args, Reads env sc srt toS a) (hty : (Term.node .bvConcat args p).typeOf = some τ)
    (hS : stdTy .bvConcat p (args.map tyD) = some τ) : NodeReads sp env sc srt toS .bvConcat args p := by
  simp only [stdTy] at hS
  split at hS
  · next ts w x y hts =>
    split at hS <;> simp at hS
    rename_i hc
    simp only [beq_iff_eq] at hc
    obtain ⟨a, b, rfl, ha, hb⟩ := map_eq_two hts
    subst hS
    subst hc
    apply reads_simple sp env sc hsc srt toS .bvConcat (.ints [x + y]) [a, b] "concat" (by decide)
      (fun as => by simp [nodeSexp, walkKey, spell sp hsp "walk_bv_concat" "concat" (by decide)])
      (unfoldAV_plain srt _ _ _ (by decide)) hargs (by simp) _ hty
    simp only [List.map, U, ha, hb]; exact ap_concat _ _ _ _
  · simp at hS

theorem reads_comp (p : Payload) (args : List Term) (τ : Ty)
    (hargs : ∀ a ∈ args, Reads env sc srt toS a) (hty : (Term.node .bvComp args p).typeOf = some τ)
    (hS : stdTy .bvComp p (args.map tyD) = some τ) : NodeReads sp env sc srt toS .bvComp args p := by
  simp only [stdTy] at hS
  split at hS
  · next ts x y hts =>
    split at hS <;> simp at hS
    rename_i hc
    simp only [beq_iff_eq] at hc
    obtain ⟨a, b, rfl, ha, hb⟩ := map_eq_two hts
    subst hS
    subst hc
    apply reads_simple sp env sc hsc srt toS .bvComp (.ints [1]) [a, b] "bvcomp" (by decide)
      (fun as => by simp [nodeSexp, walkKey, spell sp hsp "walk_bv_comp" "bvcomp" (by decide)])
      (unfoldAV_plain srt _ _ _ (by decide)) hargs (by simp) _ hty
    simp only [List.map, U, ha, hb]; exact ap_bvcomp _ _ _
  · simp at hS

/-- (operator, walker key, standard name) of the bit-vector comparisons pySMT has as node types -/
def bvRelTable : List (Op × String × String) :=
  [(.bvUlt, "walk_bv_ult", "bvult"), (.bvUle, "walk_bv_ule", "bvule"), (.bvSlt, "walk_bv_slt", "bvslt"),
   (.bvSle, "walk_bv_sle", "bvsle")]

omit hsp hsc in
theorem bvRelTable_ok : ∀ e ∈ bvRelTable,
    walkKey e.1 = e.2.1 ∧ (e.2.1, e.2.2) ∈ stdSpellings ∧ e.2.2 ∈ opToks ∧ (e.2.2, e.1, false) ∈ bvRels ∧ e.1 ≠ .arrayValue := by
  decide +kernel

theorem reads_bvrel (op : Op) (hop : ∃ key name, (op, key, name) ∈ bvRelTable) (p : Payload) (args : List Term) (τ : Ty)
    (hargs : ∀ a ∈ args, Reads env sc srt toS a) (hty : (Term.node op args p).typeOf = some τ)
    (hS : stdTy op p (args.map tyD) = some τ) : NodeReads sp env sc srt toS op args p := by
  obtain ⟨key, name, he⟩ := hop
  have key2 : ∃ w a b, p = .none ∧ args = [a, b] ∧ tyD a = .bv w ∧ tyD b = .bv w ∧ τ = .bool ∧
      (∀ as, nodeSexp sp srt op .none [a, b] as = .list (.atom (sp (walkKey op)) :: as)) := by
    simp only [bvRelTable, List.mem_cons, Prod.mk.injEq, List.not_mem_nil, or_false] at he
    rcases he with ⟨rfl, _⟩ | ⟨rfl, _⟩ | ⟨rfl, _⟩ | ⟨rfl, _⟩ <;>
    · simp only [stdTy] at hS
      split at hS
      · next ts x y hts =>
        split at hS <;> simp at hS
        rename_i hc
        simp only [beq_iff_eq] at hc
        obtain ⟨a, b, rfl, ha, hb⟩ := map_eq_two hts
        exact ⟨x, a, b, rfl, rfl, ha, by rw [hb, hc], hS.symm, fun as => by simp [nodeSexp]⟩
      · simp at hS
  obtain ⟨w, a, b, rfl, rfl, ha, hb, rfl, hsexp⟩ := key2
  obtain ⟨hk, hs, ht, hb', hna⟩ := bvRelTable_ok _ he
  simp only at hk hs ht hb' hna
  apply reads_simple sp env sc hsc srt toS op .none [a, b] name ht
    (fun as => by rw [hsexp, hk, spell sp hsp key name hs])
    (unfoldAV_plain srt _ _ _ hna) hargs (by simp) _ hty
  simp only [List.map, U, ha, hb]; exact ap_bvrel name op hb' _ _ w

theorem reads_bv2nat (p : Payload) (args : List Term) (τ : Ty)
    (hargs : ∀ a ∈ args, Reads env sc srt toS a) (hty : (Term.node .bvToNatural args p).typeOf = some τ)
    (hS : stdTy .bvToNatural p (args.map tyD) = some τ) : NodeReads sp env sc srt toS .bvToNatural args p := by
  simp only [stdTy] at hS
  split at hS
  · next ts w hts =>
    simp at hS
    obtain ⟨a, rfl, ha⟩ := map_eq_one hts
    subst hS
    apply reads_simple sp env sc hsc srt toS .bvToNatural .none [a] "bv2nat" (by decide)
      (fun as => by simp [nodeSexp, walkKey, spell sp hsp "walk_bv_tonatural" "bv2nat" (by decide)])
      (unfoldAV_plain srt _ _ _ (by decide)) hargs (by simp) _ hty
    simp only [List.map, U, ha]; exact ap_bv2nat _ _
  · simp at hS

theorem reads_select (p : Payload) (args : List Term) (τ : Ty)
    (hargs : ∀ a ∈ args, Reads env sc srt toS a) (hty : (Term.node .arraySelect args p).typeOf = some τ)
    (hS : stdTy .arraySelect p (args.map tyD) = some τ) : NodeReads sp env sc srt toS .arraySelect args p := by
  simp only [stdTy] at hS
  split at hS
  · next ts i e j hts =>
    split at hS <;> simp at hS
    rename_i hc
    simp only [beq_iff_eq] at hc
    obtain ⟨a, b, rfl, ha, hb⟩ := map_eq_two hts
    subst hS
    subst hc
    apply reads_simple sp env sc hsc srt toS .arraySelect .none [a, b] "select" (by decide)
      (fun as => by simp [nodeSexp, walkKey, spell sp hsp "walk_array_select" "select" (by decide)])
      (unfoldAV_plain srt _ _ _ (by decide)) hargs (by simp) _ hty
    simp only [List.map, U, ha, hb]; exact ap_select _ _ _ _
  · simp at hS

theorem reads_store (p : Payload) (args : List Term) (τ : Ty)
    (hargs : ∀ a ∈ args, Reads env sc srt toS a) (hty : (Term.node .arrayStore args p).typeOf = some τ)
    (hS : stdTy .arrayStore p (args.map tyD) = some τ) : NodeReads sp env sc srt toS .arrayStore args p := by
  simp only [stdTy] at hS
  split at hS
  · next ts i e j v hts =>
    split at hS <;> simp at hS
    rename_i hc
    simp only [Bool.and_eq_true, beq_iff_eq] at hc
    obtain ⟨a, b, c, rfl, ha, hb, hc'⟩ := map_eq_three hts
    subst hS
    obtain ⟨rfl, rfl⟩ := hc
    apply reads_simple sp env sc hsc srt toS .arrayStore .none [a, b, c] "store" (by decide)
      (fun as => by simp [nodeSexp, walkKey, spell sp hsp "walk_array_store" "store" (by decide)])
      (unfoldAV_plain srt _ _ _ (by decide)) hargs (by simp) _ hty
    simp only [List.map, U, ha, hb, hc']; exact ap_store _ _ _ _ _
  · simp at hS

end

end PySMT.Printer
