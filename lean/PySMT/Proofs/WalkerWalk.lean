import PySMT.Proofs.WalkerRun

/-! Theorems on `walk` (the public entry point of `DagWalker`): one-step invariants that hold for *every* callback
    behaviour (C15), and the consequences of `run_expand` for callbacks that are functions (C14, C20). -/

namespace PySMT.Walker
set_option linter.unusedSectionVars false
set_option linter.unusedSimpArgs false

section
variable {M N R E : Type} [DecidableEq N] [MemoLike M N R] [LawfulMemo M N R]

/-- `f` behaves like the function `f0` whenever it returns: it may raise where `f0` returns (injected faults,
    faults depending on the number of earlier invocations), never return something else. -/
def Refines (f : List N → N → List R → Except E R) (f0 : N → List R → Except E R) : Prop :=
  ∀ k n args r, f k n args = .ok r → f0 n args = .ok r

theorem refines_pure (f0 : N → List R → Except E R) : Refines (fun _ => f0) f0 := fun _ _ _ _ h => h

/-- `(True, n)` entries are only ever pushed for nodes that are expanded -/
def StackOK (d : N → Bool) (st : List (Bool × N)) : Prop := ∀ n, (true, n) ∈ st → d n = false

def Res.state : Res E M N → WState M N
  | .run s => s
  | .fail _ s => s

theorem lookAll_some (g : Graph N) (d : N → Bool) (f0 : N → List R → Except E R) (m : M)
    (hm : MemoOK g d f0 m) (cs : List N) (args : List R) (h : lookAll m cs = some args) :
    collect (spec g d f0) cs = .ok args ∧ ∀ c ∈ cs, (look m c).isSome := by
  induction cs generalizing args with
  | nil => simp [lookAll] at h; subst h; exact ⟨rfl, by simp⟩
  | cons c cs ih =>
    simp only [lookAll] at h
    cases hc : look m c with
    | none => simp [hc] at h
    | some r =>
      cases hcs : lookAll m cs with
      | none => simp [hc, hcs] at h
      | some rs =>
        simp [hc, hcs] at h; subst h
        obtain ⟨h1, h2⟩ := ih rs hcs
        refine ⟨by simp [collect, h1, hm c r hc], ?_⟩
        intro c' hc'
        rcases List.mem_cons.mp hc' with rfl | h'
        · simp [hc]
        · exact h2 c' h'

/-- One loop iteration, whatever the callback does: the memo stays correct and closed, the stack stays well formed,
    `len(stack) + iterations − pushes` is constant. -/
theorem step_inv (g : Graph N) (d : N → Bool) (f : List N → N → List R → Except E R) (f0 : N → List R → Except E R)
    (hf : Refines f f0) (s : WState M N) (hc : Closed g d f0 s.memo) (hs : StackOK d s.stack) :
    Closed g d f0 (step g d f s).state.memo ∧ StackOK d (step g d f s).state.stack ∧
    (step g d f s).state.stack.length + (step g d f s).state.iters + s.pushes
        = s.stack.length + s.iters + (step g d f s).state.pushes ∧
    s.pushes ≤ (step g d f s).state.pushes ∧ (step g d f s).state.iters ≤ s.iters + 1 ∧
    s.iters ≤ (step g d f s).state.iters := by
  rcases s with ⟨st, m, tr, p, it⟩
  cases st with
  | nil => simp [step, Res.state]; exact ⟨hc, hs⟩
  | cons hd tl =>
    rcases hd with ⟨b, n⟩
    have hs' : StackOK d tl := fun x hx => hs x (List.mem_cons_of_mem _ hx)
    cases b with
    | true =>
      have hdn : d n = false := hs n List.mem_cons_self
      have hkids : kids g d n = g.children n := by simp [kids, hdn]
      simp only [step]
      cases hl : look m n with
      | some r => simp [Res.state]; exact ⟨hc, hs', by omega⟩
      | none =>
        simp only []
        cases hla : lookAll m (g.children n) with
        | none => simp [Res.state]; exact ⟨hc, hs', by omega⟩
        | some args =>
          simp only []
          cases hfn : f tr n args with
          | error e => simp [Res.state]; exact ⟨hc, hs', by omega⟩
          | ok r =>
            simp [Res.state]
            obtain ⟨h1, h2⟩ := lookAll_some g d f0 m hc.ok _ _ hla
            refine ⟨closed_insert g d f0 m n r hc ?_ (by rw [hkids]; exact h2), hs', by omega⟩
            rw [spec_eq, hkids, h1]; exact hf _ _ _ _ hfn
    | false =>
      simp only [step]
      by_cases hdn : d n = true
      · have hkids : kids g d n = [] := by simp [kids, hdn]
        simp only [hdn, if_true]
        cases hl : look m n with
        | some r => simp [Res.state]; exact ⟨hc, hs', by omega⟩
        | none =>
          simp only []
          cases hfn : f tr n [] with
          | error e => simp [Res.state]; exact ⟨hc, hs', by omega⟩
          | ok r =>
            simp [Res.state]
            refine ⟨closed_insert g d f0 m n r hc ?_ (by simp [hkids]), hs', by omega⟩
            rw [spec_eq, hkids]; simp only [collect]; exact hf _ _ _ _ hfn
      · have hdn' : d n = false := by simpa using hdn
        simp [hdn', Res.state]
        refine ⟨hc, ?_, by omega⟩
        intro x hx
        simp only [List.mem_append, List.mem_reverse, List.mem_map, List.mem_cons, Prod.mk.injEq] at hx
        rcases hx with ⟨_, _, h, _⟩ | ⟨_, rfl⟩ | h
        · cases h
        · exact hdn'
        · exact hs' x h


theorem closed_empty (g : Graph N) (d : N → Bool) (f0 : N → List R → Except E R) :
    Closed g d f0 (MemoLike.empty : M) := by
  constructor
  · intro n r h; rw [LawfulMemo.look_empty] at h; cases h
  · intro n h; rw [LawfulMemo.look_empty] at h; cases h

/-- Any number of loop iterations, whatever the callback does. -/
theorem iter_inv (g : Graph N) (d : N → Bool) (f : List N → N → List R → Except E R) (f0 : N → List R → Except E R)
    (hf : Refines f f0) (k : Nat) (s : WState M N) (hc : Closed g d f0 s.memo) (hs : StackOK d s.stack) :
    Closed g d f0 (iter g d f k s).state.memo ∧ StackOK d (iter g d f k s).state.stack ∧
    (iter g d f k s).state.stack.length + (iter g d f k s).state.iters + s.pushes
        = s.stack.length + s.iters + (iter g d f k s).state.pushes ∧
    s.pushes ≤ (iter g d f k s).state.pushes ∧ (iter g d f k s).state.iters ≤ s.iters + k ∧
    s.iters ≤ (iter g d f k s).state.iters := by
  induction k generalizing s with
  | zero => simp [iter, Res.state]; exact ⟨hc, hs⟩
  | succ k ih =>
    obtain ⟨h1, h2, h3, h4, h5, h6⟩ := step_inv g d f f0 hf s hc hs
    rw [iter_succ]
    cases hst : step g d f s with
    | fail e s' =>
      rw [hst] at h1 h2 h3 h4 h5 h6
      simp only [Res.state] at h1 h2 h3 h4 h5 h6 ⊢
      exact ⟨h1, h2, h3, h4, by omega, h6⟩
    | run s' =>
      rw [hst] at h1 h2 h3 h4 h5 h6
      simp only [Res.state] at h1 h2 h3 h4 h5 h6
      obtain ⟨i1, i2, i3, i4, i5, i6⟩ := ih s' h1 h2
      dsimp only
      exact ⟨i1, i2, by omega, by omega, by omega, by omega⟩

theorem iter_pushes_mono (g : Graph N) (d : N → Bool) (f : List N → N → List R → Except E R)
    (f0 : N → List R → Except E R) (hf : Refines f f0) (a b : Nat) (s : WState M N)
    (hc : Closed g d f0 s.memo) (hs : StackOK d s.stack) :
    (iter g d f a s).state.pushes ≤ (iter g d f (a + b) s).state.pushes := by
  rw [iter_add]
  obtain ⟨h1, h2, _, _, _, _⟩ := iter_inv g d f f0 hf a s hc hs
  cases h : iter g d f a s with
  | fail e s' => simp [Res.bind, Res.state]
  | run s' =>
    rw [h] at h1 h2
    simp only [Res.bind, Res.state] at h1 h2 ⊢
    exact (iter_inv g d f f0 hf b s' h1 h2).2.2.2.1

/-! ### edges -/

theorem cost_erase (g : Graph N) (x : N) (V : List N) (h : x ∈ V) :
    cost g V = (g.children x).length + cost g (V.erase x) := by
  induction V with
  | nil => cases h
  | cons v V ih =>
    by_cases hv : v = x
    · subst hv; simp [cost_cons]
    · have hx : x ∈ V := by
        rcases List.mem_cons.mp h with h' | h'
        · exact absurd h'.symm hv
        · exact h'
      have : (v == x) = false := by simp [hv]
      rw [List.erase_cons_tail (by simp [hv]), cost_cons, cost_cons, ih hx]; omega

/-- a duplicate-free list of nodes of `V` has at most as many outgoing edges as `V` -/
theorem cost_le (g : Graph N) (l V : List N) (hnd : l.Nodup) (hsub : ∀ x ∈ l, x ∈ V) : cost g l ≤ cost g V := by
  induction l generalizing V with
  | nil => simp [cost_nil]
  | cons x l ih =>
    have hx : x ∈ V := hsub x List.mem_cons_self
    obtain ⟨hxl, hnd'⟩ := List.nodup_cons.mp hnd
    have : ∀ y ∈ l, y ∈ V.erase x := by
      intro y hy
      have hne : y ≠ x := fun h => hxl (h ▸ hy)
      exact (List.mem_erase_of_ne hne).mpr (hsub y (List.mem_cons_of_mem _ hy))
    have := ih (V.erase x) hnd' this
    rw [cost_cons, cost_erase g x V hx]; omega


/-! ### `walk` -/

/-- the state in which `iter_walk` enters the loop (walker idle: empty stack) -/
def root (n : N) (s : WState M N) : WState M N := ⟨[(false, n)], s.memo, s.trace, s.pushes + 1, s.iters⟩

/-- what `walk` makes of the loop's result -/
def finish (inval : Bool) (n : N) : Res E M N → WOut E R × WState M N
  | .fail e s2 => (.raise e, cleanup inval 0 s2)
  | .run s2 =>
    match s2.stack with
    | _ :: _ => (.fuel, cleanup inval 0 s2)
    | [] =>
      match look s2.memo n with
      | some r => (.ok r, cleanup inval 0 s2)
      | none => (.raise .key, cleanup inval 0 s2)

theorem walk_hit (g : Graph N) (d : N → Bool) (f : List N → N → List R → Except E R) (inval : Bool) (fuel : Nat)
    (n : N) (s : WState M N) (r : R) (h : look s.memo n = some r) :
    walk g d f inval true fuel n s = (.ok r, s) := by
  unfold walk; simp [h]

theorem walk_miss (g : Graph N) (d : N → Bool) (f : List N → N → List R → Except E R) (inval shortcut : Bool)
    (fuel : Nat) (n : N) (s : WState M N) (hs : s.stack = [])
    (h : (if shortcut then look s.memo n else none) = none) :
    walk g d f inval shortcut fuel n s = finish inval n (iter g d f fuel (root n s)) := by
  unfold walk
  rw [h]
  simp only [hs, List.length_nil]
  unfold finish root
  cases iter g d f fuel ⟨[(false, n)], s.memo, s.trace, s.pushes + 1, s.iters⟩ with
  | fail e s2 => rfl
  | run s2 =>
    simp only []
    cases s2.stack with
    | nil => simp only []; cases look s2.memo n <;> rfl
    | cons _ _ => rfl

theorem finish_state (inval : Bool) (n : N) (r : Res E M N) :
    (finish (R := R) inval n r).2 = cleanup inval 0 r.state := by
  unfold finish
  cases r with
  | fail e s2 => rfl
  | run s2 =>
    simp only [Res.state]
    cases s2.stack with
    | nil => simp only []; cases look s2.memo n <;> rfl
    | cons _ _ => rfl

theorem cleanup_zero_stack (inval : Bool) (s : WState M N) : (cleanup inval 0 s).stack = [] := by
  simp [cleanup]

theorem cleanup_closed (g : Graph N) (d : N → Bool) (f0 : N → List R → Except E R) (inval : Bool) (k : Nat)
    (s : WState M N) (hc : Closed g d f0 s.memo) : Closed g d f0 (cleanup inval k s).memo := by
  unfold cleanup
  cases inval
  · exact hc
  · exact closed_empty g d f0

theorem stackOK_root (d : N → Bool) (n : N) : StackOK d [(false, n)] := by
  intro x hx; simp at hx

/-- **C15** (`walk_fail_restores`).  Whatever the callbacks do -- return, raise, raise at the k-th invocation --
    and whatever the outcome of the call, `walk` leaves the walker idle (empty work stack) with a memo that is
    correct and closed under children. -/
theorem walk_post (g : Graph N) (d : N → Bool) (f : List N → N → List R → Except E R) (f0 : N → List R → Except E R)
    (hf : Refines f f0) (inval shortcut : Bool) (fuel : Nat) (n : N) (s : WState M N)
    (hc : Closed g d f0 s.memo) (hs : s.stack = []) :
    (walk g d f inval shortcut fuel n s).2.stack = [] ∧
    Closed g d f0 (walk g d f inval shortcut fuel n s).2.memo := by
  cases h : (if shortcut then look s.memo n else none) with
  | some r =>
    have : walk g d f inval shortcut fuel n s = (.ok r, s) := by unfold walk; rw [h]
    rw [this]; exact ⟨hs, hc⟩
  | none =>
    rw [walk_miss g d f inval shortcut fuel n s hs h, finish_state]
    refine ⟨cleanup_zero_stack _ _, cleanup_closed g d f0 _ _ _ ?_⟩
    exact (iter_inv g d f f0 hf fuel (root n s) hc (stackOK_root d n)).1

/-- a value returned by `walk` is the specified one, whatever faults are injected elsewhere -/
theorem walk_ok_sound (g : Graph N) (d : N → Bool) (f : List N → N → List R → Except E R)
    (f0 : N → List R → Except E R) (hf : Refines f f0) (inval shortcut : Bool) (fuel : Nat) (n : N)
    (s : WState M N) (hc : Closed g d f0 s.memo) (hs : s.stack = []) (r : R)
    (hr : (walk g d f inval shortcut fuel n s).1 = .ok r) : spec g d f0 n = .ok r := by
  cases h : (if shortcut then look s.memo n else none) with
  | some r' =>
    have : walk g d f inval shortcut fuel n s = (.ok r', s) := by unfold walk; rw [h]
    rw [this] at hr
    cases hr
    cases shortcut
    · simp at h
    · simp at h; exact hc.ok n r h
  | none =>
    rw [walk_miss g d f inval shortcut fuel n s hs h] at hr
    have hinv := (iter_inv g d f f0 hf fuel (root n s) hc (stackOK_root d n)).1
    unfold finish at hr
    cases hi : iter g d f fuel (root n s) with
    | fail e s2 => rw [hi] at hr; cases hr
    | run s2 =>
      rw [hi] at hr hinv
      simp only [Res.state] at hinv
      simp only [] at hr
      cases hst : s2.stack with
      | cons _ _ => rw [hst] at hr; cases hr
      | nil =>
        rw [hst] at hr
        simp only [] at hr
        cases hl : look s2.memo n with
        | none => rw [hl] at hr; cases hr
        | some r' => rw [hl] at hr; cases hr; exact hinv.ok n r hl

/-- the translation of the specification's outcome into `walk`'s -/
def ofSpec : Except E R → WOut E R
  | .ok r => .ok r
  | .error e => .raise (.cb e)

/-- The facts about one `walk` with a functional callback from an idle walker, in one package. -/
theorem walk_run (g : Graph N) (d : N → Bool) (f0 : N → List R → Except E R) (n : N) (s : WState M N)
    (hc : Closed g d f0 s.memo) :
    ∃ j new vis, new.Nodup ∧ (∀ x ∈ new, look s.memo x = none ∧ Desc g d n x) ∧
      vis.Nodup ∧ (∀ x ∈ vis, look s.memo x = none ∧ Desc g d n x) ∧ j ≤ 2 + 2 * cost g vis ∧
      ((∃ r m' p', spec g d f0 n = .ok r ∧ vis = new ∧
          iter g d (fun _ => f0) j (root n s) = .run ⟨[], m', new ++ s.trace, p', s.iters + j⟩ ∧
          p' ≤ s.pushes + 2 + 2 * cost g new ∧ look m' n = some r ∧ Closed g d f0 m' ∧
          (∀ x, (look m' x).isSome ↔ ((look s.memo x).isSome ∨ x ∈ new))) ∨
       (∃ e s', spec g d f0 n = .error e ∧ iter g d (fun _ => f0) j (root n s) = .fail (.cb e) s' ∧
          s'.pushes ≤ s.pushes + 2 + 2 * cost g vis)) := by
  obtain ⟨j, new, m', vis, nd, fr, dom, _, hm', ⟨vnd, vfr, b⟩, o⟩ :=
    run_expand g d f0 (g.rank n + 1) n (Nat.lt_succ_self _) [] s.memo s.trace (s.pushes + 1) s.iters hc
  have single : ∀ {l : List N}, (∀ x ∈ l, look s.memo x = none ∧ ∃ r ∈ [n], Desc g d r x) →
      ∀ x ∈ l, look s.memo x = none ∧ Desc g d n x := by
    intro l h x hx
    obtain ⟨h1, r, hr, hd⟩ := h x hx
    simp only [List.mem_singleton] at hr; subst hr
    exact ⟨h1, hd⟩
  refine ⟨j, new, vis, nd, single fr, vnd, single vfr, by simpa using b, ?_⟩
  simp only [Outcome, collect] at o
  cases hsp : spec g d f0 n with
  | error e =>
    rw [hsp] at o
    obtain ⟨s', h1, h2⟩ := o
    exact Or.inr ⟨e, s', rfl, h1, by simp only [List.length_cons, List.length_nil] at h2; omega⟩
  | ok r =>
    rw [hsp] at o
    obtain ⟨hv, p', h1, h2, h3⟩ := o
    have hl := h3 n List.mem_cons_self
    obtain ⟨r', hr'⟩ := Option.isSome_iff_exists.mp hl
    have : r' = r := by have := hm'.ok n r' hr'; rw [hsp] at this; cases this; rfl
    subst this
    exact Or.inl ⟨r', m', p', rfl, hv, h1, by simp only [List.length_cons, List.length_nil] at h2; omega, hr', hm', dom⟩

end
end PySMT.Walker
