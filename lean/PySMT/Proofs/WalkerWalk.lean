import PySMT.Proofs.WalkerRun

/-! Theorems on `walk` (the public entry point of `DagWalker`): one-step invariants that hold for *every* callback
    behaviour (C15), and the consequences of `run_expand` for callbacks that are functions (C14, C20). -/

namespace PySMT.Walker
set_option linter.unusedSectionVars false
set_option linter.unusedSimpArgs false

section
variable {M N R E : Type} [DecidableEq N] [MemoLike M N R] [LawfulMemo M N R]

/-- `f` behaves like the function `f0` whenever it returns: it may raise where `f0` returns (injected faults,
    faults depending on the number of earlier invocations), never return something else. -/
def Refines (f : Nat → N → List R → Except E R) (f0 : N → List R → Except E R) : Prop :=
  ∀ k n args r, f k n args = .ok r → f0 n args = .ok r

theorem refines_pure (f0 : N → List R → Except E R) : Refines (fun _ => f0) f0 := fun _ _ _ _ h => h

/-- `(True, n)` entries are only ever pushed for nodes that are expanded -/
def StackOK (d : N → Bool) (st : List (Bool × N)) : Prop := ∀ n, (true, n) ∈ st → d n = false

def Res.state : Res E M N → WState M N
  | .run s => s
  | .fail _ s => s

theorem lookAll_some (g : Graph N) (d : N → Bool) (f0 : N → List R → Except E R) (m : M)
    (hm : MemoOK g d f0 m) (cs : List N) (args : List R) (h : lookAll m cs = some args) :
    collect (spec g d f0) cs = .ok args ∧ ∀ c ∈ cs, (look m c).isSome := by
  induction cs generalizing args with
  | nil => simp [lookAll] at h; subst h; exact ⟨rfl, by simp⟩
  | cons c cs ih =>
    simp only [lookAll] at h
    cases hc : look m c with
    | none => simp [hc] at h
    | some r =>
      cases hcs : lookAll m cs with
      | none => simp [hc, hcs] at h
      | some rs =>
        simp [hc, hcs] at h; subst h
        obtain ⟨h1, h2⟩ := ih rs hcs
        refine ⟨by simp [collect, h1, hm c r hc], ?_⟩
        intro c' hc'
        rcases List.mem_cons.mp hc' with rfl | h'
        · simp [hc]
        · exact h2 c' h'

/-- One loop iteration, whatever the callback does: the memo stays correct and closed, the stack stays well formed,
    `len(stack) + iterations − pushes` is constant. -/
theorem step_inv (g : Graph N) (d : N → Bool) (f : Nat → N → List R → Except E R) (f0 : N → List R → Except E R)
    (hf : Refines f f0) (s : WState M N) (hc : Closed g d f0 s.memo) (hs : StackOK d s.stack) :
    Closed g d f0 (step g d f s).state.memo ∧ StackOK d (step g d f s).state.stack ∧
    (step g d f s).state.stack.length + (step g d f s).state.iters + s.pushes
        = s.stack.length + s.iters + (step g d f s).state.pushes ∧
    s.pushes ≤ (step g d f s).state.pushes ∧ (step g d f s).state.iters ≤ s.iters + 1 := by
  rcases s with ⟨st, m, tr, p, it⟩
  cases st with
  | nil => simp [step, Res.state]; exact ⟨hc, hs⟩
  | cons hd tl =>
    rcases hd with ⟨b, n⟩
    have hs' : StackOK d tl := fun x hx => hs x (List.mem_cons_of_mem _ hx)
    cases b with
    | true =>
      have hdn : d n = false := hs n List.mem_cons_self
      have hkids : kids g d n = g.children n := by simp [kids, hdn]
      simp only [step]
      cases hl : look m n with
      | some r => simp [Res.state]; exact ⟨hc, hs', by omega⟩
      | none =>
        simp only []
        cases hla : lookAll m (g.children n) with
        | none => simp [Res.state]; exact ⟨hc, hs', by omega⟩
        | some args =>
          simp only []
          cases hfn : f tr.length n args with
          | error e => simp [Res.state]; exact ⟨hc, hs', by omega⟩
          | ok r =>
            simp [Res.state]
            obtain ⟨h1, h2⟩ := lookAll_some g d f0 m hc.ok _ _ hla
            refine ⟨closed_insert g d f0 m n r hc ?_ (by rw [hkids]; exact h2), hs', by omega⟩
            rw [spec_eq, hkids, h1]; exact hf _ _ _ _ hfn
    | false =>
      simp only [step]
      by_cases hdn : d n = true
      · have hkids : kids g d n = [] := by simp [kids, hdn]
        simp only [hdn, if_true]
        cases hl : look m n with
        | some r => simp [Res.state]; exact ⟨hc, hs', by omega⟩
        | none =>
          simp only []
          cases hfn : f tr.length n [] with
          | error e => simp [Res.state]; exact ⟨hc, hs', by omega⟩
          | ok r =>
            simp [Res.state]
            refine ⟨closed_insert g d f0 m n r hc ?_ (by simp [hkids]), hs', by omega⟩
            rw [spec_eq, hkids]; simp only [collect]; exact hf _ _ _ _ hfn
      · have hdn' : d n = false := by simpa using hdn
        simp [hdn', Res.state]
        refine ⟨hc, ?_, by omega⟩
        intro x hx
        simp only [List.mem_append, List.mem_reverse, List.mem_map, List.mem_cons, Prod.mk.injEq] at hx
        rcases hx with ⟨_, _, h, _⟩ | ⟨_, rfl⟩ | h
        · cases h
        · exact hdn'
        · exact hs' x h

end
end PySMT.Walker
