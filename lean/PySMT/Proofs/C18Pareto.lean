import PySMT.Proofs.C18Multi
/-!
# C18, part 5: `pareto_optimize`
-/
namespace PySMT.Opt
open PySMT.OptSpec

section
variable {M : Type} {A : M → Prop} {val : Nat → M → Val} {obj : Nat → M → Int} {o : Oracle M}

/-! ### meaning of the Pareto constraints -/

theorem ns_atoms_hold {goals : List (Nat × Goal)} (hG : ∀ q ∈ goals, GoalReadsAll val obj q.2 q.1) (p m : M) :
    (∀ c ∈ (paretoAtoms obj false goals p).map Constraint.atom, c.holds val m = true) ↔
      WeakDom (specGoals obj goals) m p := by
  unfold paretoAtoms specGoals WeakDom
  simp only [List.mem_map, forall_exists_index, and_imp, forall_apply_eq_imp_iff₂, Bool.false_eq_true, if_false]
  have hb : ∀ q ∈ goals, castOk q.2.dom (obj q.1 p) = true := fun q hq => by
    rw [(hG q hq p).2]; exact castOk_readObj _ _ (hG q hq p).1
  constructor
  · intro h q hq
    have := h q hq
    simp only [Constraint.holds] at this
    exact (sense_le q.2 _ _).2 ((ns_atom_holds val obj m q.2 q.1 _ (hG q hq m).1 (hG q hq m).2 (hb q hq)).1 this)
  · intro h q hq
    simp only [Constraint.holds]
    exact (ns_atom_holds val obj m q.2 q.1 _ (hG q hq m).1 (hG q hq m).2 (hb q hq)).2 ((sense_le q.2 _ _).1 (h q hq))

theorem strict_disj_holds {goals : List (Nat × Goal)} (hG : ∀ q ∈ goals, GoalReadsAll val obj q.2 q.1) (p m : M) :
    (Constraint.disj (paretoAtoms obj true goals p)).holds val m = true ↔
      StrictSome (specGoals obj goals) m p := by
  unfold paretoAtoms specGoals StrictSome
  simp only [Constraint.holds, List.any_eq_true, List.mem_map, if_true]
  have hb : ∀ q ∈ goals, castOk q.2.dom (obj q.1 p) = true := fun q hq => by
    rw [(hG q hq p).2]; exact castOk_readObj _ _ (hG q hq p).1
  constructor
  · rintro ⟨a, ⟨q, hq, rfl⟩, h⟩
    refine ⟨_, ⟨q, hq, rfl⟩, (sense_lt q.2 _ _).2 ?_⟩
    exact (strict_atom_holds val obj m q.2 q.1 (obj q.1 p) (hG q hq m).1 (hG q hq m).2 (hb q hq)).1
      (by simpa [Constraint.holds] using h)
  · rintro ⟨gq, ⟨q, hq, rfl⟩, h⟩
    refine ⟨_, ⟨q, hq, rfl⟩, ?_⟩
    have := (strict_atom_holds val obj m q.2 q.1 (obj q.1 p) (hG q hq m).1 (hG q hq m).2 (hb q hq)).2
      ((sense_lt q.2 _ _).1 h)
    simpa [Constraint.holds] using this

/-- `m` dominates the last model (no condition when there is none yet) -/
def DomLast (gs : List (Sense × (M → Int))) (last : Option M) (m : M) : Prop :=
  ∀ p, last = some p → Dominates gs m p

theorem stepCs_hold {goals : List (Nat × Goal)} (hG : ∀ q ∈ goals, GoalReadsAll val obj q.2 q.1)
    (last : Option M) (m : M) :
    (∀ c ∈ paretoStepCs obj goals last, c.holds val m = true) ↔ DomLast (specGoals obj goals) last m := by
  cases last with
  | none => simp [paretoStepCs, DomLast]
  | some p =>
    simp only [paretoStepCs, DomLast, Option.some.injEq, forall_eq', Dominates]
    rw [← ns_atoms_hold hG, ← strict_disj_holds hG]
    constructor
    · intro h
      exact ⟨fun c hc => h c (by simp at hc ⊢; exact Or.inl hc), h _ (by simp)⟩
    · rintro ⟨h1, h2⟩ c hc
      rcases List.mem_append.1 hc with hc | hc
      · exact h1 c hc
      · have : c = .disj (paretoAtoms obj true goals p) := by simpa using hc
        subst this; exact h2

theorem Sense.le_trans' (d : Sense) {a b c : Int} (h1 : d.le a b) (h2 : d.le b c) : d.le a c := by
  cases d <;> simp only [Sense.le] at * <;> omega

theorem Sense.lt_le' (d : Sense) {a b c : Int} (h1 : d.lt a b) (h2 : d.le b c) : d.lt a c := by
  cases d <;> simp only [Sense.le, Sense.lt] at * <;> omega

theorem Dominates.trans {gs : List (Sense × (M → Int))} {a b c : M}
    (h1 : Dominates gs a b) (h2 : Dominates gs b c) : Dominates gs a c := by
  obtain ⟨w1, q, hq, s1⟩ := h1
  exact ⟨fun g hg => Sense.le_trans' g.1 (w1 g hg) (h2.1 g hg), q, hq, Sense.lt_le' q.1 s1 (h2.1 q hq)⟩

/-! ### the inner loop: improve the current model until nothing dominates it -/

/-- solver state inside the inner loop: whatever has been asserted since its start is implied by
    "dominates the last model" -/
def IInv (A : M → Prop) (val : Nat → M → Val) (obj : Nat → M → Int) (goals : List (Nat × Goal)) (outer cdE : List Constraint)
    (mk : List Nat) (bd : Bool) (last : Option M) (s : Solver M) : Prop :=
  s.marks = mk ∧ s.bad = bd ∧ ∃ added, s.stack = outer ++ added ∧
    ∀ c ∈ added, ∀ m, Feas A val outer cdE m → DomLast (specGoals obj goals) last m → c.holds val m = true

def InnerPost (A : M → Prop) (val : Nat → M → Val) (obj : Nat → M → Int) (goals : List (Nat × Goal)) (outer cdE : List Constraint)
    (mk : List Nat) (bd : Bool) (r : Outcome (Option M) × Solver M) : Prop :=
  r.1 = .fuel ∨
  ∃ fin, r.1 = .done fin ∧
    (∀ p, fin = some p → Feas A val outer cdE p ∧
      ∀ m, Feas A val outer cdE m → ¬ Dominates (specGoals obj goals) m p) ∧
    (fin = none → ∀ m, ¬ Feas A val outer cdE m) ∧
    r.2.marks = mk ∧ r.2.bad = bd ∧ ∃ added, r.2.stack = outer ++ added

theorem paretoInner_spec (hO : OracleSpec A val o) (mx : Mixin) (goals : List (Nat × Goal))
    (hG : ∀ q ∈ goals, GoalReadsAll val obj q.2 q.1)
    (cd outer : List Constraint) (mk : List Nat) (bd : Bool) :
    ∀ (n : Nat) (last : Option M) (s : Solver M),
      IInv A val obj goals outer (effExtra mx cd) mk bd last s →
      (∀ p, last = some p → Feas A val outer (effExtra mx cd) p) →
      InnerPost A val obj goals outer (effExtra mx cd) mk bd (paretoInner o obj mx goals cd n last s) := by
  intro n
  induction n with
  | zero => intro last s _ _; exact Or.inl rfl
  | succ n ih =>
    intro last s hI hlast
    obtain ⟨h1, h2, added, h3, h4⟩ := hI
    have key : ∀ (nn : Nat) (cs : List Constraint),
        (∀ c, c ∈ cs ↔ (c ∈ outer ∨ c ∈ added ∨ c ∈ effExtra mx cd ∨ c ∈ paretoStepCs obj goals last)) →
        (∀ m, o nn cs = some m → Feas A val outer (effExtra mx cd) m ∧ DomLast (specGoals obj goals) last m) ∧
        (o nn cs = none → ∀ m, Feas A val outer (effExtra mx cd) m → ¬ DomLast (specGoals obj goals) last m) := by
      intro nn cs hcs
      refine ⟨?_, ?_⟩
      · intro m hm
        obtain ⟨ha, hc⟩ := (hO nn cs).1 m hm
        refine ⟨⟨ha, fun c hc' => hc c ((hcs c).2 (Or.inl hc')),
          fun c hc' => hc c ((hcs c).2 (Or.inr (Or.inr (Or.inl hc'))))⟩, ?_⟩
        exact (stepCs_hold hG last m).1 (fun c hc' => hc c ((hcs c).2 (Or.inr (Or.inr (Or.inr hc')))))
      · intro hn m hm hd
        refine (hO nn cs).2 hn m hm.1 ?_
        intro c hc
        rcases (hcs c).1 hc with hc | hc | hc | hc
        · exact hm.2.1 c hc
        · exact h4 c hc m hm hd
        · exact hm.2.2 c hc
        · exact (stepCs_hold hG last m).2 hd c hc
    -- the two mix-ins differ only in where the step constraints go
    have common : ∀ (r : Option M) (s1 : Solver M) (added' : List Constraint),
        ((∀ m, r = some m → Feas A val outer (effExtra mx cd) m ∧ DomLast (specGoals obj goals) last m) ∧
         (r = none → ∀ m, Feas A val outer (effExtra mx cd) m → ¬ DomLast (specGoals obj goals) last m)) →
        s1.marks = mk → s1.bad = bd → s1.stack = outer ++ added' →
        (∀ c ∈ added', c ∈ added ∨ c ∈ paretoStepCs obj goals last) →
        (r = none → InnerPost A val obj goals outer (effExtra mx cd) mk bd (Outcome.done last, s1)) ∧
        (∀ m, r = some m →
          InnerPost A val obj goals outer (effExtra mx cd) mk bd (paretoInner o obj mx goals cd n (some m) s1)) := by
      intro r s1 added' hk e1 e2 e3 hsub
      refine ⟨?_, ?_⟩
      · intro hr
        right
        refine ⟨last, rfl, ?_, ?_, e1, e2, added', e3⟩
        · intro p hp
          refine ⟨hlast p hp, ?_⟩
          intro m hm hd
          exact hk.2 hr m hm (fun p' hp' => by rw [hp] at hp'; cases hp'; exact hd)
        · intro hp m hm
          exact hk.2 hr m hm (fun p' hp' => by rw [hp] at hp'; cases hp')
      · intro m hr
        obtain ⟨hfm, hdm⟩ := hk.1 m hr
        refine ih (some m) s1 ⟨e1, e2, added', e3, ?_⟩ (fun p hp => by cases hp; exact hfm)
        intro c hc m' hm' hd'
        have hd'' : DomLast (specGoals obj goals) last m' := by
          intro p hp
          exact Dominates.trans (hd' m rfl) (hdm p hp)
        rcases hsub c hc with hc | hc
        · exact h4 c hc m' hm' hd''
        · exact (stepCs_hold hG last m').2 hd'' c hc
    cases mx with
    | sua =>
      have hk := key s.calls (s.stack ++ (cd ++ paretoStepCs obj goals last)) (by
        intro c; simp [h3, effExtra])
      simp only [paretoInner, Solver.solve]
      split
      · rename_i hr
        refine (common _ _ added hk ?_ ?_ ?_ (fun c hc => Or.inl hc)).1 hr
        · exact h1
        · exact h2
        · exact h3
      · rename_i m hr
        refine (common _ _ added hk ?_ ?_ ?_ (fun c hc => Or.inl hc)).2 m hr
        · exact h1
        · exact h2
        · exact h3
    | incr =>
      obtain ⟨a1, a2, a3⟩ := addAll_props s (paretoStepCs obj goals last)
      have hk := key (s.addAll (paretoStepCs obj goals last)).calls
        ((s.addAll (paretoStepCs obj goals last)).stack ++ []) (by
        intro c; simp [a1, h3, effExtra])
      simp only [paretoInner, Solver.solve]
      split
      · rename_i hr
        refine (common _ _ (added ++ paretoStepCs obj goals last) hk ?_ ?_ ?_ (fun c hc => List.mem_append.1 hc)).1 hr
        · show (s.addAll (paretoStepCs obj goals last)).marks = mk
          rw [a2, h1]
        · show (s.addAll (paretoStepCs obj goals last)).bad = bd
          rw [a3, h2]
        · show (s.addAll (paretoStepCs obj goals last)).stack = _
          simp only [a1, h3, List.append_assoc]
      · rename_i m hr
        refine (common _ _ (added ++ paretoStepCs obj goals last) hk ?_ ?_ ?_ (fun c hc => List.mem_append.1 hc)).2 m hr
        · show (s.addAll (paretoStepCs obj goals last)).marks = mk
          rw [a2, h1]
        · show (s.addAll (paretoStepCs obj goals last)).bad = bd
          rw [a3, h2]
        · show (s.addAll (paretoStepCs obj goals last)).stack = _
          simp only [a1, h3, List.append_assoc]

/-! ### the outer loop: block what was found, search again -/

/-- blocking clauses of the models found so far -/
def blocks (obj : Nat → M → Int) (goals : List (Nat × Goal)) (found : List M) : List Constraint :=
  found.map (fun p => Constraint.disj (paretoAtoms obj true goals p))

/-- what was yielded for the models `found` -/
def accOf (obj : Nat → M → Int) (goals : List (Nat × Goal)) (found : List M) : List (M × List Int) :=
  found.map (fun p => (p, goals.map (fun (gi, _) => obj gi p)))

/-- feasible and strictly better than every model found so far on some objective -/
def FeasB (A : M → Prop) (val : Nat → M → Val) (obj : Nat → M → Int) (goals : List (Nat × Goal)) (base : List Constraint)
    (found : List M) (m : M) : Prop :=
  Feas A val base [] m ∧ ∀ p ∈ found, StrictSome (specGoals obj goals) m p

theorem blocks_hold {goals : List (Nat × Goal)} (hG : ∀ q ∈ goals, GoalReadsAll val obj q.2 q.1)
    (found : List M) (m : M) :
    (∀ c ∈ blocks obj goals found, c.holds val m = true) ↔ ∀ p ∈ found, StrictSome (specGoals obj goals) m p := by
  unfold blocks
  simp only [List.mem_map, forall_exists_index, and_imp, forall_apply_eq_imp_iff₂]
  constructor
  · intro h p hp; exact (strict_disj_holds hG p m).1 (h p hp)
  · intro h p hp; exact (strict_disj_holds hG p m).2 (h p hp)

theorem pop_of_marks (s : Solver M) (k : Nat) (ms : List Nat) (h : s.marks = k :: ms) :
    s.pop.stack = s.stack.take k ∧ s.pop.marks = ms ∧ s.pop.bad = s.bad := by
  simp [Solver.pop, h]

/-- shape of the solver / client data between two rounds of the outer loop -/
def OuterSt (obj : Nat → M → Int) (goals : List (Nat × Goal)) (mx : Mixin) (base : List Constraint)
    (marks0 : List Nat) (bad0 : Bool) (found : List M) (cd : List Constraint) (s : Solver M) : Prop :=
  s.marks = base.length :: marks0 ∧ s.bad = bad0 ∧
  match mx with
  | .sua => cd = blocks obj goals found ∧ s.stack = base
  | .incr => s.stack = base ++ blocks obj goals found

theorem feasB_iff {goals : List (Nat × Goal)} (hG : ∀ q ∈ goals, GoalReadsAll val obj q.2 q.1) {mx : Mixin} {base : List Constraint} {marks0 : List Nat}
    {bad0 : Bool} {found : List M} {cd : List Constraint} {s : Solver M}
    (h : OuterSt obj goals mx base marks0 bad0 found cd s) (m : M) :
    Feas A val s.stack (effExtra mx cd) m ↔ FeasB A val obj goals base found m := by
  obtain ⟨_, _, h3⟩ := h
  cases mx with
  | sua =>
    obtain ⟨hcd, hst⟩ := h3
    simp only [effExtra, hcd, hst, FeasB, Feas]
    rw [blocks_hold hG]
    constructor
    · rintro ⟨a, b, c⟩; exact ⟨⟨a, b, by simp⟩, c⟩
    · rintro ⟨⟨a, b, _⟩, c⟩; exact ⟨a, b, c⟩
  | incr =>
    simp only at h3
    simp only [effExtra, h3]
    rw [Feas_append]
    simp only [FeasB, Feas]
    rw [blocks_hold hG]
    constructor
    · rintro ⟨a, b, c⟩; exact ⟨⟨a, b, by simp⟩, c⟩
    · rintro ⟨⟨a, b, _⟩, c⟩; exact ⟨a, b, c⟩

theorem costs_eq_of (gs : List (Sense × (M → Int))) (a b : M) (h : costs gs a = costs gs b) :
    ∀ g ∈ gs, g.2 a = g.2 b := by
  unfold costs at h
  induction gs with
  | nil => intro g hg; cases hg
  | cons x xs ih =>
    simp only [List.map, List.cons.injEq] at h
    intro g hg
    rcases List.mem_cons.1 hg with rfl | hg
    · exact h.1
    · exact ih h.2 g hg

theorem costs_eq_iff (gs : List (Sense × (M → Int))) (a b : M) :
    costs gs a = costs gs b ↔ ∀ g ∈ gs, g.2 a = g.2 b := by
  refine ⟨costs_eq_of gs a b, ?_⟩
  intro h
  unfold costs
  exact List.map_congr_left h

theorem Sense.lt_ne (d : Sense) {a b : Int} (h : d.lt a b) : a ≠ b := by
  cases d <;> simp only [Sense.lt] at h <;> omega

theorem Sense.le_of_not_lt (d : Sense) {a b : Int} (h : ¬ d.lt a b) : d.le b a := by
  cases d <;> simp only [Sense.lt, Sense.le] at * <;> omega

theorem Sense.eq_of_le_not_lt (d : Sense) {a b : Int} (h1 : d.le a b) (h2 : ¬ d.lt a b) : a = b := by
  cases d <;> simp only [Sense.lt, Sense.le] at * <;> omega

/-- a model that nothing in `FeasB` dominates is Pareto-optimal among all feasible models -/
theorem pareto_of_inner {goals : List (Nat × Goal)} {base : List Constraint} {found : List M} {p : M}
    (hp : FeasB A val obj goals base found p)
    (hnd : ∀ m, FeasB A val obj goals base found m → ¬ Dominates (specGoals obj goals) m p) :
    ParetoOptimal (specGoals obj goals) (Feas A val base []) p := by
  refine ⟨hp.1, ?_⟩
  rintro ⟨q, hq, hd⟩
  refine hnd q ⟨hq, ?_⟩ hd
  intro r hr
  obtain ⟨g, hg, hlt⟩ := hp.2 r hr
  exact ⟨g, hg, by
    have := hd.1 g hg
    cases hgd : g.1 <;> simp only [hgd, Sense.le, Sense.lt] at * <;> omega⟩

/-- the front is complete once nothing feasible escapes the blocking clauses -/
theorem front_complete {goals : List (Nat × Goal)} {base : List Constraint} {found : List M}
    (hfound : ∀ p ∈ found, ParetoOptimal (specGoals obj goals) (Feas A val base []) p)
    (hnone : ∀ m, ¬ FeasB A val obj goals base found m)
    (m : M) (hm : ParetoOptimal (specGoals obj goals) (Feas A val base []) m) :
    ∃ p ∈ found, costs (specGoals obj goals) p = costs (specGoals obj goals) m := by
  have h1 : ¬ ∀ p ∈ found, StrictSome (specGoals obj goals) m p := fun h => hnone m ⟨hm.1, h⟩
  have h2 : ∃ r, r ∈ found ∧ ¬ StrictSome (specGoals obj goals) m r := by
    apply Classical.byContradiction
    intro hc
    apply h1
    intro p hp
    apply Classical.byContradiction
    intro hns
    exact hc ⟨p, hp, hns⟩
  obtain ⟨r, hr, hns⟩ := h2
  refine ⟨r, hr, (costs_eq_iff _ _ _).2 ?_⟩
  have hweak : WeakDom (specGoals obj goals) r m := by
    intro g hg
    exact Sense.le_of_not_lt g.1 (fun hlt => hns ⟨g, hg, hlt⟩)
  have hnot : ¬ StrictSome (specGoals obj goals) r m := fun hs => hm.2 ⟨r, (hfound r hr).1, hweak, hs⟩
  intro g hg
  exact Sense.eq_of_le_not_lt g.1 (hweak g hg) (fun hlt => hnot ⟨g, hg, hlt⟩)

/-- the yielded models are Pareto-optimal, have pairwise different cost vectors, and every
    Pareto-optimal cost vector is among them -/
def FrontOk (A : M → Prop) (val : Nat → M → Val) (obj : Nat → M → Int) (goals : List (Nat × Goal)) (base : List Constraint)
    (found : List M) : Prop :=
  (∀ p ∈ found, ParetoOptimal (specGoals obj goals) (Feas A val base []) p) ∧
  found.Pairwise (fun a b => costs (specGoals obj goals) a ≠ costs (specGoals obj goals) b) ∧
  (∀ m, ParetoOptimal (specGoals obj goals) (Feas A val base []) m →
    ∃ p ∈ found, costs (specGoals obj goals) p = costs (specGoals obj goals) m)

def OuterPost (A : M → Prop) (val : Nat → M → Val) (obj : Nat → M → Int) (goals : List (Nat × Goal)) (base : List Constraint)
    (marks0 : List Nat) (bad0 : Bool) (r : Outcome (List (M × List Int)) × Solver M) : Prop :=
  r.1 = .fuel ∨
  ∃ found, r.1 = .done (accOf obj goals found) ∧ r.2.stack = base ∧ r.2.marks = marks0 ∧ r.2.bad = bad0 ∧
    FrontOk A val obj goals base found

theorem paretoOuter_spec (hO : OracleSpec A val o) (mx : Mixin) (goals : List (Nat × Goal))
    (hG : ∀ q ∈ goals, GoalReadsAll val obj q.2 q.1) (fuel : Nat)
    (base : List Constraint) (marks0 : List Nat) (bad0 : Bool) :
    ∀ (n : Nat) (found : List M) (cd : List Constraint) (s : Solver M),
      OuterSt obj goals mx base marks0 bad0 found cd s →
      (∀ p ∈ found, ParetoOptimal (specGoals obj goals) (Feas A val base []) p) →
      found.Pairwise (fun a b => costs (specGoals obj goals) a ≠ costs (specGoals obj goals) b) →
      OuterPost A val obj goals base marks0 bad0 (paretoOuter o obj mx goals fuel n cd (accOf obj goals found) s) := by
  intro n
  induction n with
  | zero => intro found cd s _ _ _; exact Or.inl rfl
  | succ n ih =>
    intro found cd s hst hpo hpw
    have hinner := paretoInner_spec hO mx goals hG cd s.stack (s.stack.length :: s.marks) s.bad fuel none s.push
      ⟨rfl, rfl, [], by simp [Solver.push], by simp⟩ (fun p h => by cases h)
    unfold paretoOuter
    cases hr : paretoInner o obj mx goals cd fuel none s.push with
    | mk out s2 =>
    rw [hr] at hinner
    rcases hinner with hfu | ⟨fin, hfin, hsome, hnone, e1, e2, added, e3⟩
    · left; simp only at hfu; subst hfu; rfl
    · simp only at hfin e1 e2 e3
      subst hfin
      obtain ⟨p1, p2, p3⟩ := pop_of_marks s2 s.stack.length s.marks e1
      rw [e3, take_length_append] at p1
      rw [e2] at p3
      obtain ⟨m1, m2, m3⟩ := hst
      cases fin with
      | none =>
        right
        have hno : ∀ m, ¬ FeasB A val obj goals base found m := fun m hm =>
          hnone rfl m ((feasB_iff hG ⟨m1, m2, m3⟩ m).2 hm)
        obtain ⟨q1, q2, q3⟩ := pop_of_marks s2.pop base.length marks0 (by rw [p2, m1])
        refine ⟨found, rfl, ?_, q2, by rw [q3, p3, m2], hpo, hpw, front_complete hpo hno⟩
        rw [q1, p1]
        cases mx with
        | sua => simp only at m3; rw [m3.2]; simp
        | incr => simp only at m3; rw [m3]; exact take_length_append _ _
      | some p =>
        obtain ⟨hfp, hnd⟩ := hsome p rfl
        have hfpB : FeasB A val obj goals base found p := (feasB_iff hG ⟨m1, m2, m3⟩ p).1 hfp
        have hpar : ParetoOptimal (specGoals obj goals) (Feas A val base []) p :=
          pareto_of_inner hfpB (fun m hm => hnd m ((feasB_iff hG ⟨m1, m2, m3⟩ m).2 hm))
        have hpo' : ∀ q ∈ found ++ [p], ParetoOptimal (specGoals obj goals) (Feas A val base []) q := by
          intro q hq
          rcases List.mem_append.1 hq with hq | hq
          · exact hpo q hq
          · have : q = p := by simpa using hq
            subst this; exact hpar
        have hpw' : (found ++ [p]).Pairwise
            (fun a b => costs (specGoals obj goals) a ≠ costs (specGoals obj goals) b) := by
          rw [List.pairwise_append]
          refine ⟨hpw, by simp, ?_⟩
          intro a ha b hb
          have : b = p := by simpa using hb
          subst this
          obtain ⟨g, hg, hlt⟩ := hfpB.2 a ha
          intro heq
          exact Sense.lt_ne g.1 hlt ((costs_eq_of _ _ _ heq g hg).symm)
        have hacc : accOf obj goals found ++ [(p, goals.map (fun (gi, _) => obj gi p))] =
            accOf obj goals (found ++ [p]) := by simp [accOf]
        have hblk : blocks obj goals (found ++ [p]) =
            blocks obj goals found ++ [Constraint.disj (paretoAtoms obj true goals p)] := by simp [blocks]
        simp only
        rw [hacc]
        cases mx with
        | sua =>
          simp only at m3
          exact ih (found ++ [p]) _ s2.pop ⟨by rw [p2, m1], by rw [p3, m2], by rw [hblk, m3.1], by rw [p1, m3.2]⟩
            hpo' hpw'
        | incr =>
          simp only at m3
          exact ih (found ++ [p]) _ (s2.pop.add _) ⟨by simp only [Solver.add]; rw [p2, m1],
            by simp only [Solver.add]; rw [p3, m2], by simp only [Solver.add]; rw [p1, m3, hblk, List.append_assoc]⟩
            hpo' hpw'

/-- `list(pareto_optimize(goals))` -/
theorem pareto_spec (hO : OracleSpec A val o) (mx : Mixin) (goals : List (Nat × Goal))
    (hG : ∀ q ∈ goals, GoalReadsAll val obj q.2 q.1) (fuel : Nat)
    (hsup : ∀ p ∈ goals, p.2.supported = true) (hne : goals ≠ []) (s : Solver M) :
    OuterPost A val obj goals s.stack s.marks s.bad (pareto o obj mx goals fuel s) := by
  unfold pareto
  have h1 : goals.any (fun (x : Nat × Goal) => !x.2.supported) = false := by
    rw [List.any_eq_false]
    intro p hp
    simp [hsup p hp]
  have h2 : goals.isEmpty = false := by
    cases goals with
    | nil => exact absurd rfl hne
    | cons _ _ => rfl
  simp only [h1, h2, Bool.false_eq_true, if_false]
  have := paretoOuter_spec hO mx goals hG fuel s.stack s.marks s.bad fuel [] [] s.push
    ⟨rfl, rfl, by cases mx <;> simp [blocks, Solver.push]⟩ (by simp) List.Pairwise.nil
  simpa [accOf] using this

/-- a Pareto goal outside the comparison table: `KeyError` in `OptPareto.__init__`, before `_setup` -/
theorem pareto_unsupported (mx : Mixin) (goals : List (Nat × Goal)) (fuel : Nat) (s : Solver M)
    (h : ∃ p ∈ goals, p.2.supported = false) : pareto o obj mx goals fuel s = (.keyErr, s) := by
  unfold pareto
  have h1 : goals.any (fun (x : Nat × Goal) => !x.2.supported) = true := by
    rw [List.any_eq_true]
    obtain ⟨p, hp, hs⟩ := h
    exact ⟨p, hp, by simp [hs]⟩
  simp [h1]

end
end PySMT.Opt
