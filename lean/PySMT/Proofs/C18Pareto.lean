import PySMT.Proofs.C18Multi
/-!
# C18, part 5: `pareto_optimize`
-/
namespace PySMT.Opt
open PySMT.OptSpec

section
variable {M : Type} {A : M → Prop} {obj : Nat → M → Int} {o : Oracle M}

/-! ### meaning of the Pareto constraints -/

theorem ns_atoms_hold (goals : List (Nat × Goal)) (p m : M) :
    (∀ c ∈ (paretoAtoms obj false goals p).map Constraint.atom, c.holds obj m = true) ↔
      WeakDom (specGoals obj goals) m p := by
  unfold paretoAtoms specGoals WeakDom
  simp only [List.mem_map, forall_exists_index, and_imp, forall_apply_eq_imp_iff₂, Bool.false_eq_true, if_false]
  constructor
  · intro h q hq
    have := h q hq
    simp only [Constraint.holds] at this
    exact (sense_le q.2 _ _).2 ((ns_atom_holds obj m q.2 q.1 q.2.dom _).1 this)
  · intro h q hq
    simp only [Constraint.holds]
    exact (ns_atom_holds obj m q.2 q.1 q.2.dom _).2 ((sense_le q.2 _ _).1 (h q hq))

theorem strict_disj_holds (goals : List (Nat × Goal)) (p m : M) :
    (Constraint.disj (paretoAtoms obj true goals p)).holds obj m = true ↔
      StrictSome (specGoals obj goals) m p := by
  unfold paretoAtoms specGoals StrictSome
  simp only [Constraint.holds, List.any_eq_true, List.mem_map, if_true]
  constructor
  · rintro ⟨a, ⟨q, hq, rfl⟩, h⟩
    refine ⟨_, ⟨q, hq, rfl⟩, (sense_lt q.2 _ _).2 ?_⟩
    exact (strict_atom_holds obj m q.2 q.1 q.2.dom (obj q.1 p)).1 (by simpa [Constraint.holds] using h)
  · rintro ⟨gq, ⟨q, hq, rfl⟩, h⟩
    refine ⟨_, ⟨q, hq, rfl⟩, ?_⟩
    have := (strict_atom_holds obj m q.2 q.1 q.2.dom (obj q.1 p)).2 ((sense_lt q.2 _ _).1 h)
    simpa [Constraint.holds] using this

/-- `m` dominates the last model (no condition when there is none yet) -/
def DomLast (gs : List (Sense × (M → Int))) (last : Option M) (m : M) : Prop :=
  ∀ p, last = some p → Dominates gs m p

theorem stepCs_hold (goals : List (Nat × Goal)) (last : Option M) (m : M) :
    (∀ c ∈ paretoStepCs obj goals last, c.holds obj m = true) ↔ DomLast (specGoals obj goals) last m := by
  cases last with
  | none => simp [paretoStepCs, DomLast]
  | some p =>
    simp only [paretoStepCs, DomLast, Option.some.injEq, forall_eq', Dominates]
    rw [← ns_atoms_hold, ← strict_disj_holds]
    constructor
    · intro h
      exact ⟨fun c hc => h c (by simp at hc ⊢; exact Or.inl hc), h _ (by simp)⟩
    · rintro ⟨h1, h2⟩ c hc
      rcases List.mem_append.1 hc with hc | hc
      · exact h1 c hc
      · have : c = .disj (paretoAtoms obj true goals p) := by simpa using hc
        subst this; exact h2

theorem Sense.le_trans' (d : Sense) {a b c : Int} (h1 : d.le a b) (h2 : d.le b c) : d.le a c := by
  cases d <;> simp only [Sense.le] at * <;> omega

theorem Sense.lt_le' (d : Sense) {a b c : Int} (h1 : d.lt a b) (h2 : d.le b c) : d.lt a c := by
  cases d <;> simp only [Sense.le, Sense.lt] at * <;> omega

theorem Dominates.trans {gs : List (Sense × (M → Int))} {a b c : M}
    (h1 : Dominates gs a b) (h2 : Dominates gs b c) : Dominates gs a c := by
  obtain ⟨w1, q, hq, s1⟩ := h1
  exact ⟨fun g hg => Sense.le_trans' g.1 (w1 g hg) (h2.1 g hg), q, hq, Sense.lt_le' q.1 s1 (h2.1 q hq)⟩

end
end PySMT.Opt
