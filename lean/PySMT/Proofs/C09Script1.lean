import PySMT.Proofs.C09Round
import PySMT.Proofs.C07Decls
import PySMT.Proofs.C08Lit
/-!
# C09: print → parse for the SCRIPT of a formula — the commands one by one

`pSt ia sorts funs` is the parser's environment after `set-logic` and the declarations of the sorts `sorts` and the
symbols `funs` (most recent first, as in `scriptEnv`): its cache is the one of `penvOf`, its formula manager holds exactly
the declared symbols and sorts. This file shows how each command of `scriptOfFormula` moves from one `pSt` to the next.
-/
namespace PySMT.Parser.Agree
open PySMT PySMT.Parser PySMT.Std PySMT.Sexp PySMT.Printer

/-- the entry of pySMT's table of logics the name selects (`get_logic_by_name`: case-insensitive) -/
def logicEntry (logic : String) : Option (String × Bool) :=
  Gen.ParserOps.logics.find? (fun e => lower e.1 == lower logic)

/-- the logic name is one the parser knows and its arithmetic flag agrees with the standard's reading of numerals, or the
parser does not know it (then it reads numerals as Int) and the standard reads numerals as Int -/
def logicOK (logic : String) : Bool :=
  match Gen.ParserOps.logics.find? (fun e => lower e.1 == lower logic) with
  | some (_, ia) => ia == !(Std.realsOnlyLogics.contains logic)
  | none => !(Std.realsOnlyLogics.contains logic)

/-- the parser's environment after `set-logic` and the declarations of `sorts`, then `funs` (most recent first) -/
def pSt (ia : Option Bool) (sorts : List (String × Nat)) (funs : List Sym) : PEnv :=
  { binds := funs.map (fun s => (s.name, declVal s)) ++ (sorts.map (fun d => (d.1, sortVal d)) ++
      [("true", .term Term.tt), ("false", .term Term.ff)])
    intArith := ia
    mgr := { symbols := funs.map (fun s => (s.name, s)), fresh := 0, sorts := sorts } }

theorem pSt_init : pSt none [] [] = PEnv.init := rfl

theorem pSt_binds (logic : String) (ia : Option Bool) (sorts : List (String × Nat)) (funs : List Sym) :
    (pSt ia sorts funs).binds = (penvOf { logic := logic, sorts := sorts, funs := funs }).binds := rfl

/-- `pSt` corresponds to the standard environment of the same declarations -/
theorem corr_pSt (logic : String) (ia : Option Bool) (sorts : List (String × Nat)) (funs : List Sym)
    (henv : envOK { logic := logic, sorts := sorts, funs := funs } = true)
    (hia : ia.getD true = !(realsOnlyLogics.contains logic)) :
    Corr { logic := logic, sorts := sorts, funs := funs } [] (pSt ia sorts funs) := by
  have h := corr_penvOf _ henv
  exact ⟨h.scope, h.tt, h.ff, h.funs, h.funTok, h.nodefs, h.names, h.sorts, h.aliases, hia⟩

theorem mgrLe_pSt (ρ : List (String × Sym)) (ia : Option Bool) (sorts : List (String × Nat)) (funs : List Sym)
    (hρ : ∀ s ∈ funs, ρ.lookup s.name = some s) : MgrLe (pSt ia sorts funs).mgr ρ := by
  intro e he
  simp only [pSt, List.mem_map] at he
  obtain ⟨s, hs, rfl⟩ := he
  exact hρ s hs

/-- the declarations of an initial segment satisfy `envOK` when those of the whole do -/
theorem envOK_suffix (logic : String) (sorts : List (String × Nat)) (f2 f1 : List Sym)
    (h : envOK { logic := logic, sorts := sorts, funs := f2 ++ f1 } = true) :
    envOK { logic := logic, sorts := sorts, funs := f1 } = true := by
  simp only [envOK, Bool.and_eq_true, List.all_eq_true, List.isEmpty_iff] at h ⊢
  obtain ⟨⟨⟨hdefs, hfuns⟩, hsorts⟩, haliases⟩ := h
  refine ⟨⟨⟨hdefs, fun s hs => hfuns s (List.mem_append_right _ hs)⟩, ?_⟩, ?_⟩
  · intro d hd
    refine ⟨(hsorts d hd).1, ?_⟩
    have := (hsorts d hd).2
    simp only [SEnv.lookupFun, Option.isNone_iff_eq_none, List.find?_eq_none] at this ⊢
    exact fun s hs => this s (List.mem_append_right _ hs)
  · intro a ha
    cases ha

/-! ## dispatch on a literal command name -/

theorem pyTok_cmds : pyTok "set-logic" = "set-logic" ∧ pyTok "declare-sort" = "declare-sort" ∧
    pyTok "declare-fun" = "declare-fun" ∧ pyTok "assert" = "assert" ∧ pyTok "check-sat" = "check-sat" := by
  decide +kernel

theorem cmd_setLogic_eq (Γ : PEnv) (args : List Sexp) :
    cmd Γ (.list (.atom "set-logic" :: args)) = cmdSetLogic Γ args := by
  simp only [cmd, pyTok_cmds.1]
  simp (config := { decide := true }) only [cmdNamed, if_true, if_false]

theorem cmd_declareSort_eq (Γ : PEnv) (args : List Sexp) :
    cmd Γ (.list (.atom "declare-sort" :: args)) = cmdDeclareSort Γ args := by
  simp only [cmd, pyTok_cmds.2.1]
  simp (config := { decide := true }) only [cmdNamed, if_true, if_false]

theorem cmd_declareFun_eq (Γ : PEnv) (args : List Sexp) :
    cmd Γ (.list (.atom "declare-fun" :: args)) = cmdDeclareFun Γ args := by
  simp only [cmd, pyTok_cmds.2.2.1]
  simp (config := { decide := true }) only [cmdNamed, if_true, if_false]

theorem cmd_assert_eq (Γ : PEnv) (args : List Sexp) :
    cmd Γ (.list (.atom "assert" :: args)) = cmdAssert Γ args := by
  simp only [cmd, pyTok_cmds.2.2.2.1]
  simp (config := { decide := true }) only [cmdNamed, if_true, if_false]

theorem cmd_checkSat_eq (Γ : PEnv) (args : List Sexp) :
    cmd Γ (.list (.atom "check-sat" :: args)) = cmdAtoms Γ "check-sat" 0 args := by
  simp only [cmd, pyTok_cmds.2.2.2.2]
  simp (config := { decide := true }) only [cmdNamed, if_true, if_false]

/-! ## the commands of `scriptOfFormula`, one by one -/

theorem cmd_setLogic (logic : String) (hs : isSimpleSymbolChars logic.toList = true) (hr : isReserved logic = false) :
    cmd PEnv.init (.list [.atom "set-logic", atomOfText logic]) =
      .ok (pSt ((logicEntry logic).map (·.2)) [] [], .setLogic ((logicEntry logic).map (·.1))) := by
  have ha : atomOfText logic = .atom logic := by
    simp [atomOfText, lexChars_simple _ hs, String.ofList_toList]
  have hp : pyTok logic = logic := pyTok_of_symName (symName?_simple logic hs hr)
  rw [ha, cmd_setLogic_eq]
  simp only [cmdSetLogic, toksOf, tokOf, hp, logicEntry]
  cases Gen.ParserOps.logics.find? (fun e => lower e.1 == lower logic) with
  | none => rfl
  | some e => rfl

theorem readTy_tySexp (env : SEnv) (Γ : PEnv) (hc : Corr env [] Γ) (ty : Ty) (h : SortOK env ty = true) :
    readTy Γ.binds [] (tySexp ty) = .ok ty :=
  readTy_agree env [] Γ hc Lit.pyInt_numeral _ _ (FragSort_tySexp env ty h) (sortStd_tySexp env ty h)

theorem readTyList_tySexp (env : SEnv) (Γ : PEnv) (hc : Corr env [] Γ) : ∀ (tys : List Ty),
    (∀ t ∈ tys, SortOK env t = true) → readTyList Γ.binds [] (tys.map tySexp) = .ok tys
  | [], _ => by rw [List.map_nil, readTyList]
  | t :: ts, h => by
    rw [List.map_cons, readTyList, readTy_tySexp env Γ hc t (h t (by simp)),
      readTyList_tySexp env Γ hc ts (fun t' ht' => h t' (List.mem_cons_of_mem _ ht'))]
    rfl

theorem cmd_declareSort (ia : Option Bool) (sorts : List (String × Nat)) (d : String × Nat)
    (hch : d.1.toList.all nameChar = true) (hr : isReserved d.1 = false) (hnew : d.1 ∉ sorts.map (·.1)) :
    cmd (pSt ia sorts []) (declareSort d) = .ok (pSt ia (d :: sorts) [], .declareSort d.1 d.2) := by
  obtain ⟨tok, htok, hsn⟩ := symTok d.1 hch hr
  have hnum := Lit.pyInt_numeral (natStr d.2) d.2 (numeral?_natStr d.2)
  have hfind : sorts.find? (fun e => e.1 == d.1) = none := by
    rw [List.find?_eq_none]
    intro e he heq
    apply hnew
    simp only [List.mem_map]
    exact ⟨e, he, by simpa using heq⟩
  have hneg : ¬ ((d.2 : Int) < 0) := by omega
  simp only [declareSort, sortAtom, htok, natAtom]
  rw [cmd_declareSort_eq]
  simp only [cmdDeclareSort, toksOf, tokOf, pyTok_of_symName hsn, hnum, hneg, if_false, pSt, hfind,
    Int.toNat_natCast, Int.natCast_eq_zero, List.map_cons, sortVal, List.map_nil, List.nil_append, List.cons_append]

theorem cmd_declareFun (logic : String) (ia : Option Bool) (sorts : List (String × Nat)) (funs : List Sym) (s : Sym)
    (hc : Corr { logic := logic, sorts := sorts, funs := funs } [] (pSt ia sorts funs))
    (hfine : nameFine s.name = true) (hne : pnameOK s.name = true) (hnew : s.name ∉ funs.map (·.name))
    (hret : SortOK { logic := logic, sorts := sorts, funs := funs } s.ret = true)
    (hpar : ∀ t ∈ s.params, SortOK { logic := logic, sorts := sorts, funs := funs } t = true) :
    cmd (pSt ia sorts funs) (declareFun s) = .ok (pSt ia sorts (s :: funs), .declare "declare-fun" s) := by
  simp only [nameFine, Bool.and_eq_true, Bool.not_eq_true'] at hfine
  obtain ⟨⟨hch, hr⟩, _⟩ := hfine
  obtain ⟨tok, htok, hsn⟩ := symTok s.name hch hr
  have h1 := readTy_tySexp _ _ hc s.ret hret
  have h2 := readTyList_tySexp _ _ hc s.params hpar
  have hfind : (funs.map (fun s => (s.name, s))).find? (fun e => e.1 == s.name) = none := by
    rw [List.find?_eq_none]
    intro e he heq
    apply hnew
    simp only [List.mem_map] at he ⊢
    obtain ⟨s', hs', rfl⟩ := he
    exact ⟨s', hs', by simpa using heq⟩
  have hemp : s.name.isEmpty = false := by
    cases he : s.name.isEmpty with
    | false => rfl
    | true =>
      have : s.name = "" := by simpa using he
      rw [this] at hne
      revert hne; decide
  simp only [declareFun, htok]
  rw [cmd_declareFun_eq]
  simp only [cmdDeclareFun, h1, h2, pyTok_of_symName hsn, mkSymbol, hemp, Bool.false_eq_true, if_false]
  have hmgr : (pSt ia sorts funs).mgr.symbols = funs.map (fun s => (s.name, s)) := rfl
  simp only [hmgr, hfind]
  rfl

end PySMT.Parser.Agree
