import PySMT.Proofs.SimpMain
import PySMT.Proofs.SimpFoldDefs
/-!
# Fold completeness (the part of C02 that C01 does not give)

`FoldOK` for every entry of `Simplifier.ruleOf` except `symbol` and `function`, the table lemma
`ruleOf_fold` and the assembled theorem `fold_complete`: a well-formed, ground (no symbol, no
application, no quantifier) term of the fragment that evaluates no division by zero simplifies
to a constant.
-/
namespace PySMT.Simplifier
open PySMT PySMT.Build PySMT.Simp PySMT.Simp.BoolRules PySMT.Simp.ArithRules

/-! ## constants -/

theorem isConst_bool (b : Bool) : IsConst (Term.bool b) := rfl
theorem isConst_int (n : Int) : IsConst (Term.int n) := rfl
theorem isConst_real (q : Rat) : IsConst (Term.real q) := rfl
theorem isConst_numTerm (ty : Option Ty) (c : Rat) : IsConst (numTerm ty c) := by
  unfold numTerm; split <;> rfl

theorem typeOf_str (s : String) : (Term.str s).typeOf = some .str := by
  rw [Term.str, typeOf_node]; rfl
theorem typeOf_bvc (v w : Nat) : (Term.bvc v w).typeOf = some (.bv w) := by
  rw [Term.bvc, typeOf_node]; rfl

/-- a well-formed constant node has no argument and the payload of its sort -/
theorem const_cases {t : Term} (hwf : t.wf = true) (hc : IsConst t) :
    (∃ b, t = Term.bool b) ∨ (∃ n, t = Term.int n) ∨ (∃ q, t = Term.real q) ∨ (∃ s, t = Term.str s) ∨
      (∃ v w, t = Term.bvc v w) := by
  cases t with
  | node op args p =>
    have hs := wf_shape hwf
    have hnil : ∀ {l : List Term}, (l.length == 0) = true → l = [] := by
      intro l h; simpa using h
    simp only [IsConst, Term.op] at hc
    cases op <;> simp only [Op.isConstant, Bool.false_eq_true] at hc <;> cases p <;>
      first
      | cases hs
      | (have := hnil hs; subst this
         first
         | exact Or.inl ⟨_, rfl⟩
         | exact Or.inr (Or.inl ⟨_, rfl⟩)
         | exact Or.inr (Or.inr (Or.inl ⟨_, rfl⟩))
         | exact Or.inr (Or.inr (Or.inr (Or.inl ⟨_, rfl⟩))))
      | (simp only [Op.shapeOK, Bool.and_eq_true] at hs
         have := hnil hs.1; subst this
         exact Or.inr (Or.inr (Or.inr (Or.inr ⟨_, _, rfl⟩))))

theorem const_bool {t : Term} (hwf : t.wf = true) (hc : IsConst t) (hty : t.typeOf = some .bool) :
    ∃ b, t = Term.bool b := by
  rcases const_cases hwf hc with ⟨b, rfl⟩ | ⟨n, rfl⟩ | ⟨q, rfl⟩ | ⟨s, rfl⟩ | ⟨v, w, rfl⟩
  · exact ⟨b, rfl⟩
  · rw [typeOf_int] at hty; cases hty
  · rw [typeOf_real] at hty; cases hty
  · rw [typeOf_str] at hty; cases hty
  · rw [typeOf_bvc] at hty; cases hty

theorem const_int {t : Term} (hwf : t.wf = true) (hc : IsConst t) (hty : t.typeOf = some .int) :
    ∃ n, t = Term.int n := by
  rcases const_cases hwf hc with ⟨b, rfl⟩ | ⟨n, rfl⟩ | ⟨q, rfl⟩ | ⟨s, rfl⟩ | ⟨v, w, rfl⟩
  · rw [typeOf_bool] at hty; cases hty
  · exact ⟨n, rfl⟩
  · rw [typeOf_real] at hty; cases hty
  · rw [typeOf_str] at hty; cases hty
  · rw [typeOf_bvc] at hty; cases hty

theorem const_real {t : Term} (hwf : t.wf = true) (hc : IsConst t) (hty : t.typeOf = some .real) :
    ∃ q, t = Term.real q := by
  rcases const_cases hwf hc with ⟨b, rfl⟩ | ⟨n, rfl⟩ | ⟨q, rfl⟩ | ⟨s, rfl⟩ | ⟨v, w, rfl⟩
  · rw [typeOf_bool] at hty; cases hty
  · rw [typeOf_int] at hty; cases hty
  · exact ⟨q, rfl⟩
  · rw [typeOf_str] at hty; cases hty
  · rw [typeOf_bvc] at hty; cases hty

/-- a numeric constant (what `numVal` recognises) -/
def NumC (t : Term) : Prop := ∃ c, numVal t = some c

theorem const_num {t : Term} {τ : Ty} (hτ : Num τ) (hwf : t.wf = true) (hc : IsConst t) (hty : t.typeOf = some τ) :
    (τ = .int ∧ ∃ n, t = Term.int n) ∨ (τ = .real ∧ ∃ q, t = Term.real q) := by
  rcases hτ with rfl | rfl
  · exact Or.inl ⟨rfl, const_int hwf hc hty⟩
  · exact Or.inr ⟨rfl, const_real hwf hc hty⟩

theorem numVal_int (n : Int) : numVal (Term.int n) = some (n : Rat) := rfl
theorem numVal_real (q : Rat) : numVal (Term.real q) = some q := rfl

theorem const_numC {t : Term} {τ : Ty} (hτ : Num τ) (hwf : t.wf = true) (hc : IsConst t) (hty : t.typeOf = some τ) :
    NumC t := by
  rcases const_num hτ hwf hc hty with ⟨_, n, rfl⟩ | ⟨_, q, rfl⟩
  · exact ⟨_, numVal_int n⟩
  · exact ⟨_, numVal_real q⟩

/-! ## Boolean / core family -/

theorem walkNot_fold : FoldOK .not walkNot := by
  refine ⟨fun p args τ hwf hty _ hc I _ => ?_⟩
  obtain ⟨a, rfl, hawf, haty⟩ := wf_not_inv hwf
  obtain ⟨b, rfl⟩ := const_bool hawf (hc a (by simp)) haty
  exact isConst_bool _

theorem walkIff_fold : FoldOK .iff walkIff := by
  refine ⟨fun p args τ hwf hty _ hc I _ => ?_⟩
  obtain ⟨sl, sr, rfl, hl, hr, rfl⟩ := wf_iff_inv hwf hty
  obtain ⟨l, rfl⟩ := const_bool hl.1 (hc sl (by simp)) hl.2
  obtain ⟨r, rfl⟩ := const_bool hr.1 (hc sr (by simp)) hr.2
  exact isConst_bool _

theorem walkImplies_fold : FoldOK .implies walkImplies := by
  refine ⟨fun p args τ hwf hty _ hc I _ => ?_⟩
  obtain ⟨sl, sr, rfl, hl, hr, rfl⟩ := wf_implies_inv hwf hty
  obtain ⟨l, rfl⟩ := const_bool hl.1 (hc sl (by simp)) hl.2
  obtain ⟨r, rfl⟩ := const_bool hr.1 (hc sr (by simp)) hr.2
  cases l <;> exact isConst_bool _

theorem walkIte_fold : FoldOK .ite walkIte := by
  refine ⟨fun p args τ hwf hty _ hc I _ => ?_⟩
  have hs := wf_shape hwf
  simp only [Op.shapeOK, beq_iff_eq] at hs
  match args, hs, hwf, hty, hc with
  | [si, st, se], _, hwf, hty, hc =>
    obtain ⟨hci, _, _⟩ := typeOf_ite_inv hty
    obtain ⟨c, rfl⟩ := const_bool (wf_args hwf si (by simp)) (hc si (by simp)) hci
    show IsConst (walkIte p [Term.bool c, st, se])
    unfold walkIte
    simp only
    split
    · exact hc st (by simp)
    · cases c
      · exact hc se (by simp)
      · exact hc st (by simp)

theorem isConst_not_arrayValue {t : Term} (hc : IsConst t) : isArrayValue t = false ∧ isConstant t = true := by
  cases t with
  | node op args p =>
    simp only [IsConst, Term.op] at hc
    have hne : op ≠ .arrayValue := by intro h; subst h; cases hc
    refine ⟨?_, by rw [isConstant_nonarray hne]; exact hc⟩
    simp only [isArrayValue, Term.op]
    simpa using hne

theorem walkEquals_fold : FoldOK .equals { rule := walkEquals, guard := equalsGuard } := by
  refine ⟨fun p args τ hwf hty _ hc I _ => ?_⟩
  obtain ⟨sl, sr, rfl⟩ := BoolRules.args2 hwf (by intro n h; simpa [Op.shapeOK] using h)
  obtain ⟨l1, l2⟩ := isConst_not_arrayValue (hc sl (by simp))
  obtain ⟨r1, r2⟩ := isConst_not_arrayValue (hc sr (by simp))
  show IsConst (walkEquals p [sl, sr])
  unfold walkEquals
  simp only [l1, l2, r1, r2, Bool.or_self, Bool.false_eq_true, if_false, Bool.and_self, if_true]
  split
  · rfl
  · exact isConst_bool _

theorem rel_consts {op : Op} (hop : op = .le ∨ op = .lt) {a b : Term} {p : Payload} {τ : Ty}
    (hwf : (Term.node op [a, b] p).wf = true) (hty : (Term.node op [a, b] p).typeOf = some τ)
    (hc : ∀ x ∈ [a, b], IsConst x) : NumC a ∧ NumC b := by
  have wa := wf_args hwf a (by simp)
  have wb := wf_args hwf b (by simp)
  rcases (typeOf_rel_inv hop hwf hty).2 with ⟨ha, hb⟩ | ⟨ha, hb⟩
  · exact ⟨const_numC (Or.inl rfl) wa (hc a (by simp)) ha, const_numC (Or.inl rfl) wb (hc b (by simp)) hb⟩
  · exact ⟨const_numC (Or.inr rfl) wa (hc a (by simp)) ha, const_numC (Or.inr rfl) wb (hc b (by simp)) hb⟩

theorem walkLe_fold : FoldOK .le walkLe := by
  refine ⟨fun p args τ hwf hty _ hc I _ => ?_⟩
  obtain ⟨sl, sr, rfl⟩ := BoolRules.args2 hwf (by intro n h; simpa [Op.shapeOK] using h)
  obtain ⟨⟨l, hl⟩, ⟨r, hr⟩⟩ := rel_consts (Or.inl rfl) hwf hty hc
  show IsConst (walkLe p [sl, sr])
  unfold walkLe
  simp only [hl, hr]
  exact isConst_bool _

theorem walkLt_fold : FoldOK .lt walkLt := by
  refine ⟨fun p args τ hwf hty _ hc I _ => ?_⟩
  obtain ⟨sl, sr, rfl⟩ := BoolRules.args2 hwf (by intro n h; simpa [Op.shapeOK] using h)
  obtain ⟨⟨l, hl⟩, ⟨r, hr⟩⟩ := rel_consts (Or.inr rfl) hwf hty hc
  show IsConst (walkLt p [sl, sr])
  unfold walkLt
  simp only [hl, hr]
  exact isConst_bool _

theorem walkToReal_fold : FoldOK .toReal walkToReal := by
  refine ⟨fun p args τ hwf hty _ hc I _ => ?_⟩
  have hs := wf_shape hwf
  simp only [Op.shapeOK, beq_iff_eq] at hs
  match args, hs, hwf, hty, hc with
  | [a], _, hwf, hty, hc =>
    obtain ⟨_, hta⟩ := typeOf_toReal_inv hty
    obtain ⟨n, rfl⟩ := const_int (wf_args hwf a (by simp)) (hc a (by simp)) hta
    exact isConst_real _

theorem keep_fold (op : Op) (hop : op.isConstant = true) : FoldOK op (keep op) :=
  ⟨fun _ _ _ _ _ _ _ _ _ => hop⟩

/-- a Boolean constant has no free symbol, so no quantified variable is used -/
theorem usedVars_nil (vs : List Sym) : usedVars [] vs = [] := by
  induction vs with
  | nil => rfl
  | cons v vs ih => simp [usedVars, ih]

theorem walkForall_fold : FoldOK .forall_ walkForall := by
  refine ⟨fun p args τ hwf hty _ hc I _ => ?_⟩
  obtain ⟨vs, sf, rfl, rfl, hsf, rfl⟩ := wf_quant_inv rfl hwf hty
  obtain ⟨b, rfl⟩ := const_bool hsf.1 (hc sf (by simp)) hsf.2
  show IsConst (forall_ (usedVars (Term.bool b).fv vs) (Term.bool b))
  rw [fv_bool, usedVars_nil]
  exact isConst_bool b

theorem walkExists_fold : FoldOK .exists_ walkExists := by
  refine ⟨fun p args τ hwf hty _ hc I _ => ?_⟩
  obtain ⟨vs, sf, rfl, rfl, hsf, rfl⟩ := wf_quant_inv rfl hwf hty
  obtain ⟨b, rfl⟩ := const_bool hsf.1 (hc sf (by simp)) hsf.2
  show IsConst (exists_ (usedVars (Term.bool b).fv vs) (Term.bool b))
  rw [fv_bool, usedVars_nil]
  exact isConst_bool b

/-! ## `walk_and`, `walk_or` -/

/-- on Boolean constants the loop only skips or stops -/
theorem acLoop_consts (o : Op) (u : Bool) : ∀ args : List Term, (∀ a ∈ args, ∃ b, a = Term.bool b) →
    acLoop o u args [] = none ∨ acLoop o u args [] = some []
  | [], _ => Or.inr rfl
  | a :: rest, h => by
    obtain ⟨b, rfl⟩ := h a (by simp)
    have ih := acLoop_consts o u rest (fun x hx => h x (by simp [hx]))
    have e : isBoolConst (Term.node .boolConst [] (.b b)) = some b := rfl
    show acLoop o u (Term.node .boolConst [] (.b b) :: rest) [] = none ∨
      acLoop o u (Term.node .boolConst [] (.b b) :: rest) [] = some []
    rw [acLoop, e]
    by_cases hb : b = u
    · subst hb
      simp only [if_true]
      exact ih
    · have : b = !u := by cases b <;> cases u <;> simp_all
      subst this
      left
      simp

theorem acResult_consts (o : Op) (u : Bool) (args : List Term) (h : ∀ a ∈ args, ∃ b, a = Term.bool b) :
    IsConst (acResult o u args) := by
  unfold acResult
  rcases acLoop_consts o u args h with e | e <;> rw [e]
  · exact isConst_bool _
  · cases u <;> rfl

theorem walkAnd_fold : FoldOK .and walkAnd := by
  refine ⟨fun p args τ hwf hty _ hc I _ => ?_⟩
  have hb : ∀ a ∈ args, ∃ b, a = Term.bool b := fun a ha =>
    const_bool (wf_args hwf a ha) (hc a ha) ((typeOf_and_iff.mp hty).2 a ha)
  show IsConst (walkAnd p args)
  unfold walkAnd
  split
  · split
    · exact hc _ (by simp)
    · exact acResult_consts _ _ _ hb
  · exact acResult_consts _ _ _ hb

theorem walkOr_fold : FoldOK .or walkOr := by
  refine ⟨fun p args τ hwf hty _ hc I _ => ?_⟩
  have hb : ∀ a ∈ args, ∃ b, a = Term.bool b := fun a ha =>
    const_bool (wf_args hwf a ha) (hc a ha) ((typeOf_or_iff.mp hty).2 a ha)
  show IsConst (walkOr p args)
  unfold walkOr
  split
  · split
    · exact hc _ (by simp)
    · exact acResult_consts _ _ _ hb
  · exact acResult_consts _ _ _ hb

/-! ## arithmetic family -/

theorem walkMinus_fold : FoldOK .minus walkMinus := by
  refine ⟨fun p args τ hwf hty _ hc I _ => ?_⟩
  obtain ⟨sl, sr, rfl⟩ := ArithRules.args2 (Or.inl rfl) hwf
  obtain ⟨hτ, htys⟩ := arith_inv (Or.inr (Or.inl rfl)) hty
  have wl := wf_args hwf sl (by simp)
  have wr := wf_args hwf sr (by simp)
  rcases hτ with rfl | rfl
  · obtain ⟨l, rfl⟩ := const_int wl (hc sl (by simp)) (htys sl (by simp))
    obtain ⟨r, rfl⟩ := const_int wr (hc sr (by simp)) (htys sr (by simp))
    exact isConst_int _
  · obtain ⟨l, rfl⟩ := const_real wl (hc sl (by simp)) (htys sl (by simp))
    obtain ⟨r, rfl⟩ := const_real wr (hc sr (by simp)) (htys sr (by simp))
    exact isConst_real _

theorem walkDiv_fold : FoldOK .div walkDiv := by
  refine ⟨fun p args τ hwf hty _ hc I hd => ?_⟩
  obtain ⟨sl, sr, rfl⟩ := ArithRules.args2 (Or.inr rfl) hwf
  obtain ⟨hτ, htys⟩ := arith_inv (Or.inr (Or.inr (Or.inr rfl))) hty
  have wl := wf_args hwf sl (by simp)
  have wr := wf_args hwf sr (by simp)
  rw [div0_div] at hd
  simp only [Bool.or_eq_false_iff, beq_eq_false_iff_ne, ne_eq] at hd
  obtain ⟨⟨_, hi0⟩, hr0⟩ := hd
  show IsConst (walkDiv p [sl, sr])
  rw [walkDiv_eq]
  rcases hτ with rfl | rfl
  · obtain ⟨l, rfl⟩ := const_int wl (hc sl (by simp)) (htys sl (by simp))
    obtain ⟨r, rfl⟩ := const_int wr (hc sr (by simp)) (htys sr (by simp))
    have hr : r ≠ 0 := by
      intro h; subst h; exact hi0 (eval_intc I 0)
    have hz : isZero (Term.int r) = false := by rw [isZero_int]; simpa using hr
    have e : foldDiv (Term.int l) (Term.int r) =
        if r > 0 then some (int_ (l / r)) else if r < 0 then some (int_ (-(l / (-r)))) else none := by
      unfold foldDiv
      rw [numVal_int, numVal_int]
      simp only [hz, Bool.false_eq_true, if_false]
      rfl
    rw [e]
    by_cases h1 : r > 0
    · rw [if_pos h1]; exact isConst_int _
    · have h2 : r < 0 := by omega
      rw [if_neg h1, if_pos h2]; exact isConst_int _
  · obtain ⟨l, rfl⟩ := const_real wl (hc sl (by simp)) (htys sl (by simp))
    obtain ⟨r, rfl⟩ := const_real wr (hc sr (by simp)) (htys sr (by simp))
    have hr : r ≠ 0 := by
      intro h; subst h; exact hr0 (eval_realc I 0)
    have hz : isZero (Term.real r) = false := by rw [isZero_real]; simpa using hr
    have e : foldDiv (Term.real l) (Term.real r) = some (real_ (l / r)) := by
      unfold foldDiv
      rw [numVal_real, numVal_real]
      simp only [hz, Bool.false_eq_true, if_false]
      rfl
    rw [e]
    exact isConst_real _

/-- a numeric constant is neither a sum nor a product: it is its own only leaf -/
theorem numC_op {t : Term} (h : NumC t) : t.op = .intConst ∨ t.op = .realConst := by
  obtain ⟨c, hc⟩ := h
  rcases numVal_cases hc with ⟨n, rfl, _⟩ | rfl
  · exact Or.inl rfl
  · exact Or.inr rfl

theorem plusLeaves_numC {t : Term} (h : NumC t) : plusLeaves t = [t] := by
  have ho := numC_op h
  cases t with
  | node op as p =>
    simp only [Term.op] at ho
    rw [plusLeaves, if_neg (by rcases ho with rfl | rfl <;> simp)]

theorem timesLeaves_numC {t : Term} (h : NumC t) : timesLeaves t = [t] := by
  have ho := numC_op h
  cases t with
  | node op as p =>
    simp only [Term.op] at ho
    rw [timesLeaves, if_neg (by rcases ho with rfl | rfl <;> simp)]

/-- the popped nodes of a sum / product of numeric constants are these constants -/
theorem leaves_numC (leaves : Term → List Term) (hl : ∀ t, NumC t → leaves t = [t]) (args : List Term)
    (h : ∀ a ∈ args, NumC a) : ∀ x ∈ ((args.map leaves).reverse).flatten, NumC x := by
  intro x hx
  simp only [List.mem_flatten, List.mem_reverse, List.mem_map] at hx
  obtain ⟨l, ⟨a, ha, rfl⟩, hx⟩ := hx
  rw [hl a (h a ha)] at hx
  simp only [List.mem_singleton] at hx
  rw [hx]
  exact h a ha

theorem classify_numC (ty : Option Ty) (acc : Acc) {x : Term} (h : NumC x) :
    (classify ty acc x).toSum = acc.toSum ∧ (classify ty acc x).toSub = acc.toSub := by
  obtain ⟨c, hc⟩ := h
  unfold classify
  rw [hc]
  exact ⟨rfl, rfl⟩

theorem foldl_classify_numC (ty : Option Ty) : ∀ (l : List Term) (acc : Acc), (∀ x ∈ l, NumC x) →
    (l.foldl (classify ty) acc).toSum = acc.toSum ∧ (l.foldl (classify ty) acc).toSub = acc.toSub
  | [], _, _ => ⟨rfl, rfl⟩
  | x :: l, acc, h => by
    obtain ⟨h1, h2⟩ := foldl_classify_numC ty l (classify ty acc x) (fun y hy => h y (by simp [hy]))
    obtain ⟨k1, k2⟩ := classify_numC ty acc (h x (by simp))
    rw [List.foldl_cons, h1, h2]
    exact ⟨k1, k2⟩

theorem arith_args_numC {op : Op} (hop : ArithOp op) {args : List Term} {p : Payload} {τ : Ty}
    (hwf : (Term.node op args p).wf = true) (hty : (Term.node op args p).typeOf = some τ)
    (hc : ∀ a ∈ args, IsConst a) : ∀ a ∈ args, NumC a := by
  obtain ⟨hτ, htys⟩ := arith_inv hop hty
  exact fun a ha => const_numC hτ (wf_args hwf a ha) (hc a ha) (htys a ha)

theorem walkPlus_fold : FoldOK .plus walkPlus := by
  refine ⟨fun p args τ hwf hty _ hc I _ => ?_⟩
  have hnum := arith_args_numC (Or.inl rfl) hwf hty hc
  have hleaves := leaves_numC plusLeaves (fun t => plusLeaves_numC) args hnum
  cases args with
  | nil =>
    have := wf_shape hwf
    simp [Op.shapeOK] at this
  | cons a0 rest =>
    show IsConst (assemble a0.typeOf
      (((((a0 :: rest).map plusLeaves).reverse).flatten).foldl (classify a0.typeOf) {}))
    obtain ⟨h1, h2⟩ := foldl_classify_numC a0.typeOf _ {} hleaves
    unfold assemble
    simp only [h1, h2]
    exact isConst_numTerm _ _

theorem walkTimes_fold : FoldOK .times walkTimes := by
  refine ⟨fun p args τ hwf hty _ hc I _ => ?_⟩
  have hnum := arith_args_numC (Or.inr (Or.inr (Or.inl rfl))) hwf hty hc
  have hleaves := leaves_numC timesLeaves (fun t => timesLeaves_numC) args hnum
  cases args with
  | nil =>
    have := wf_shape hwf
    simp [Op.shapeOK] at this
  | cons a0 rest =>
    show IsConst (walkTimes p (a0 :: rest))
    unfold walkTimes
    simp only
    generalize (((a0 :: rest).map timesLeaves).reverse).flatten = leaves at hleaves
    have hnew : leaves.filter (fun x => (numVal x).isNone) = [] := by
      rw [List.filter_eq_nil_iff]
      intro x hx
      obtain ⟨c, hc⟩ := hleaves x hx
      simp [hc]
    rw [hnew]
    split
    · exact isConst_numTerm _ _
    · exact isConst_numTerm _ _

/-! ## the table and the assembled theorem -/

/-- every entry of the table folds, except `symbol` (not a constant), `function` (`f(3)` stays an
application) and `arrayValue` (an array value with constant arguments stays an array value, which is not
a scalar constant); the quantifier entries fold too (`walkForall_fold`, `walkExists_fold`) but are not
needed for ground terms -/
theorem ruleOf_fold : ∀ (op : Op) (e : Entry), ruleOf op = some e → op ≠ .symbol → op ≠ .function →
    op ≠ .arrayValue → op.isQuantifier = false → FoldOK op e := by
  intro op e h hs hf hav hq
  cases op <;> simp only [ruleOf] at h <;> (try (cases h; done)) <;>
    (obtain rfl := Option.some.inj h) <;>
    first
    | exact absurd rfl hs | exact absurd rfl hf | exact absurd rfl hav | (cases hq; done)
    | exact walkAnd_fold | exact walkOr_fold | exact walkNot_fold | exact walkIff_fold | exact walkImplies_fold
    | exact walkIte_fold | exact walkEquals_fold | exact walkLe_fold | exact walkLt_fold | exact walkToReal_fold
    | exact keep_fold _ rfl
    | exact walkPlus_fold | exact walkTimes_fold | exact walkMinus_fold | exact walkDiv_fold
    -- bit-vector family (Proofs/SimpBVFold.lean)
    | exact BVRules.walkBvAnd_fold | exact BVRules.walkBvOr_fold | exact BVRules.walkBvXor_fold
    | exact BVRules.walkBvNot_fold | exact BVRules.walkBvNeg_fold | exact BVRules.walkBvAdd_fold
    | exact BVRules.walkBvSub_fold | exact BVRules.walkBvMul_fold | exact BVRules.walkBvUdiv_fold
    | exact BVRules.walkBvUrem_fold | exact BVRules.walkBvSdiv_fold | exact BVRules.walkBvSrem_fold
    | exact BVRules.walkBvLshl_fold | exact BVRules.walkBvLshr_fold | exact BVRules.walkBvAshr_fold
    | exact BVRules.walkBvUlt_fold | exact BVRules.walkBvUle_fold | exact BVRules.walkBvSlt_fold
    | exact BVRules.walkBvSle_fold | exact BVRules.walkBvComp_fold | exact BVRules.walkBvConcat_fold
    | exact BVRules.walkBvExtract_fold | exact BVRules.walkBvRol_fold | exact BVRules.walkBvRor_fold
    | exact BVRules.walkBvZext_fold | exact BVRules.walkBvSext_fold | exact BVRules.walkBvToNatural_fold
    -- string family (Proofs/SimpStr.lean)
    | exact StrRules.walkStrLength_fold | exact StrRules.walkStrConcat_fold | exact StrRules.walkStrCharAt_fold
    | exact StrRules.walkStrContains_fold | exact StrRules.walkStrIndexOf_fold | exact StrRules.walkStrReplace_fold
    | exact StrRules.walkStrSubstr_fold | exact StrRules.walkStrPrefixOf_fold | exact StrRules.walkStrSuffixOf_fold
    | exact StrRules.walkStrToInt_fold | exact StrRules.walkIntToStr_fold
    -- array family (Proofs/SimpArray.lean): vacuous, a scalar constant has no array sort
    | exact ArrayRules.walkArraySelect_fold | exact ArrayRules.walkArrayStore_fold

/-- the table lemma including the quantifier entries -/
theorem ruleOf_fold' : ∀ (op : Op) (e : Entry), ruleOf op = some e → op ≠ .symbol → op ≠ .function →
    op ≠ .arrayValue → FoldOK op e := by
  intro op e h hs hf hav
  by_cases hq : op.isQuantifier = true
  · cases op <;> simp only [Op.isQuantifier, Bool.false_eq_true] at hq <;> simp only [ruleOf] at h <;>
      (obtain rfl := Option.some.inj h)
    · exact walkForall_fold
    · exact walkExists_fold
  · exact ruleOf_fold op e h hs hf hav (by simpa using hq)

/-- no symbol, no function application, no quantifier, no array value (a constant array value is not
a scalar constant: terms containing one are outside fold completeness) -/
def ground : Term → Bool
  | .node op args _ =>
    (op != .symbol && op != .function && op != .arrayValue && !op.isQuantifier) && (args.map ground).all id

theorem ground_node {op : Op} {args : List Term} {p : Payload} (h : ground (.node op args p) = true) :
    (op ≠ .symbol ∧ op ≠ .function ∧ op ≠ .arrayValue ∧ op.isQuantifier = false) ∧ ∀ a ∈ args, ground a = true := by
  simp only [ground, Bool.and_eq_true, bne_iff_ne, ne_eq, Bool.not_eq_true', List.all_eq_true, List.mem_map,
    id] at h
  exact ⟨⟨h.1.1.1.1, h.1.1.1.2, h.1.1.2, h.1.2⟩, fun a ha => h.2 _ ⟨a, ha, rfl⟩⟩

/-- **fold completeness**: a well-formed ground term of the fragment whose evaluation meets no
division by zero simplifies to a constant -/
theorem fold_complete : (t : Term) → (τ : Ty) → (hwf : t.wf = true) → (hfr : inFrag t = true) →
    (hty : t.typeOf = some τ) → (hg : ground t = true) → (I : Interp) → (hI : I.WF) →
    (hd : div0 I t = false) → IsConst (simp t)
  | .node op args p => fun τ hwf hfr hty hg I hI hd => by
    obtain ⟨⟨e, he, hgd⟩, hfa⟩ := inFragWith_node hfr
    obtain ⟨⟨hs, hf, hav, hq⟩, hga⟩ := ground_node hg
    have hda := div0_args_false I op args p hq hd
    -- the arguments simplify to constants
    have ih : ∀ a ∈ args, IsConst (simp a) := by
      intro a ha
      obtain ⟨σ, hσ⟩ := wf_typeOf a (wf_args hwf a ha)
      exact fold_complete a σ (wf_args hwf a ha) (hfa a ha) hσ (hga a ha) I hI (hda a ha)
    -- what `simp_spec` says about them
    have sp : ∀ a ∈ args, ((simp a).typeOf = a.typeOf ∧ (simp a).wf = true) ∧
        (∀ J : Interp, J.WF → div0 J a = false → eval J (simp a) = eval J a ∧ div0 J (simp a) = false) := by
      intro a ha
      obtain ⟨σ, hσ⟩ := wf_typeOf a (wf_args hwf a ha)
      have := simp_spec a (wf_args hwf a ha) (hfa a ha) σ hσ
      rw [hσ]
      exact ⟨this.1, this.2.1⟩
    -- the node with simplified arguments
    have htys : (args.map simp).map Term.typeOf = args.map Term.typeOf := by
      rw [List.map_map]
      exact List.map_congr_left (fun a ha => (sp a ha).1.1)
    have hty' : (Term.node op (args.map simp) p).typeOf = some τ := by
      rw [typeOf_node, htys, ← typeOf_node]; exact hty
    have hwf' : (Term.node op (args.map simp) p).wf = true := by
      refine wf_mk' ?_ ?_ hty'
      · intro a' ha'
        obtain ⟨a, ha, rfl⟩ := List.mem_map.mp ha'
        exact (sp a ha).1.2
      · rw [List.length_map]; exact wf_shape hwf
    have hgd' : e.guard p ((args.map simp).map Term.typeOf) = true := by rw [htys]; exact hgd
    have hc' : ∀ a' ∈ args.map simp, IsConst a' := by
      intro a' ha'
      obtain ⟨a, ha, rfl⟩ := List.mem_map.mp ha'
      exact ih a ha
    have hd' : div0 I (.node op (args.map simp) p) = false :=
      (node_congr op args p simp hwf (fun a ha => (sp a ha).2) I hI hd).2
    have hsimp : simp (.node op args p) = e.rule p (args.map simp) := by
      show simpWith ruleOf (.node op args p) = e.rule p (args.map (simpWith ruleOf))
      rw [simpWith, he]
    rw [hsimp]
    exact (ruleOf_fold op e he hs hf hav hq).fold p _ τ hwf' hty' hgd' hc' I hd'

end PySMT.Simplifier
