import PySMT.Impl.Manager
/-!
# C04 — invariants of every reachable manager state

`Inv s` holds for `Mgr.init` and is preserved by every primitive request, hence by every
`Prog` (induction over the program tree), hence for every operation history of any length.
-/
namespace PySMT.Manager

/-! ## association-list facts -/

theorem assoc_some {α β} [DecidableEq α] {k : α} {l : List (α × β)} {v : β} :
    assoc k l = some v → (k, v) ∈ l := by
  induction l with
  | nil => simp [assoc]
  | cons h t ih =>
    obtain ⟨k', v'⟩ := h
    simp only [assoc]
    split
    · intro h; simp_all
    · intro h; exact List.mem_cons_of_mem _ (ih h)

theorem assoc_none {α β} [DecidableEq α] {k : α} {l : List (α × β)} :
    assoc k l = none → ∀ v, (k, v) ∉ l := by
  induction l with
  | nil => simp
  | cons h t ih =>
    obtain ⟨k', v'⟩ := h
    simp only [assoc]
    split
    · simp
    · intro h v hm
      rcases List.mem_cons.mp hm with h1 | h1
      · simp_all
      · exact ih h v h1

theorem assocBy_some {α β} {p : α → Bool} {l : List (α × β)} {v : β} :
    assocBy p l = some v → ∃ k, (k, v) ∈ l ∧ p k = true := by
  induction l with
  | nil => simp [assocBy]
  | cons h t ih =>
    obtain ⟨k', v'⟩ := h
    simp only [assocBy]
    split
    · intro h; exact ⟨k', by simp_all, by assumption⟩
    · intro h
      obtain ⟨k, hk, hp⟩ := ih h
      exact ⟨k, List.mem_cons_of_mem _ hk, hp⟩

theorem rassoc_some {i : Id} {l : List (Content × Id)} {c : Content} :
    rassoc i l = some c → (c, i) ∈ l := by
  induction l with
  | nil => simp [rassoc]
  | cons h t ih =>
    obtain ⟨c', j⟩ := h
    simp only [rassoc]
    split
    · intro h; simp_all
    · intro h; exact List.mem_cons_of_mem _ (ih h)

theorem rassoc_none {i : Id} {l : List (Content × Id)} :
    rassoc i l = none → ∀ c, (c, i) ∉ l := by
  induction l with
  | nil => simp
  | cons h t ih =>
    obtain ⟨c', j⟩ := h
    simp only [rassoc]
    split
    · simp
    · intro h c hm
      rcases List.mem_cons.mp hm with h1 | h1
      · simp_all
      · exact ih h c h1

/-! ## the invariant -/

structure Inv (s : Mgr) : Prop where
  /-- one content ⇒ one id -/
  tfun : ∀ c i j, (c, i) ∈ s.formulae → (c, j) ∈ s.formulae → i = j
  /-- one id ⇒ one content -/
  tinj : ∀ c d i, (c, i) ∈ s.formulae → (d, i) ∈ s.formulae → c = d
  range : ∀ c i, (c, i) ∈ s.formulae → 0 < i ∧ i < s.nextId
  full : ∀ i, 0 < i → i < s.nextId → ∃ c, (c, i) ∈ s.formulae
  /-- children and payload nodes were created before their parent -/
  closed : ∀ c i, (c, i) ∈ s.formulae → ∀ j ∈ c.ids, 0 < j ∧ j < i
  ints : ∀ n i, (n, i) ∈ s.intConsts → (intC n, i) ∈ s.formulae
  reals : ∀ k i, (k, i) ∈ s.realConsts → ∃ q, k.realValue = .ok q ∧ (realC q, i) ∈ s.formulae
  strs : ∀ x i, (x, i) ∈ s.strConsts → (strC x, i) ∈ s.formulae
  syms : ∀ n i, (n, i) ∈ s.symbols → ∃ t, (symC n t, i) ∈ s.formulae
  tt : (trueC, trueId) ∈ s.formulae
  ff : (falseC, falseId) ∈ s.formulae

/-- `s'` extends `s`: no node disappears or changes, ids only grow. -/
structure Ext (s s' : Mgr) : Prop where
  sub : ∀ ci, ci ∈ s.formulae → ci ∈ s'.formulae
  next : s.nextId ≤ s'.nextId

theorem Ext.refl (s : Mgr) : Ext s s := ⟨fun _ h => h, Nat.le_refl _⟩

theorem Ext.trans {a b c : Mgr} (h1 : Ext a b) (h2 : Ext b c) : Ext a c :=
  ⟨fun ci h => h2.sub ci (h1.sub ci h), Nat.le_trans h1.next h2.next⟩

theorem inv_init : Inv Mgr.init := by
  refine ⟨?_, ?_, ?_, ?_, ?_, ?_, ?_, ?_, ?_, ?_, ?_⟩
  all_goals simp [Mgr.init, trueC, falseC, trueId, falseId, Content.ids, Payload.ids]
  · intro c i j h1 h2; rcases h1 with ⟨rfl, rfl⟩ | ⟨rfl, rfl⟩ <;> rcases h2 with ⟨h, rfl⟩ | ⟨h, rfl⟩ <;> simp_all
  · intro c d i h1 h2; rcases h1 with ⟨rfl, rfl⟩ | ⟨rfl, rfl⟩ <;> rcases h2 with ⟨rfl, h⟩ | ⟨rfl, h⟩ <;> simp_all
  · intro c i h; rcases h with ⟨rfl, rfl⟩ | ⟨rfl, rfl⟩ <;> simp
  · intro i h1 h2
    have : i = 1 ∨ i = 2 := by omega
    rcases this with rfl | rfl <;> simp
  · intro c i h; rcases h with ⟨rfl, rfl⟩ | ⟨rfl, rfl⟩ <;> simp

/-! ## `create_node` -/

theorem validId_iff {s : Mgr} {i : Id} : s.validId i = true ↔ 0 < i ∧ i < s.nextId := by
  simp [Mgr.validId]

/-- What `createNode` does, as a specification. -/
theorem createNode_spec (c : Content) (s : Mgr) (hs : Inv s) :
    let r := createNode c s
    Inv r.2 ∧ Ext s r.2 ∧
    (∀ i, r.1 = .ok i → (c, i) ∈ r.2.formulae) ∧
    (∀ e, r.1 = .error e → r.2 = s) ∧
    r.2.intConsts = s.intConsts ∧ r.2.realConsts = s.realConsts ∧ r.2.strConsts = s.strConsts ∧
    r.2.symbols = s.symbols ∧ r.2.fresh = s.fresh ∧ r.2.tm = s.tm := by
  simp only [createNode]
  split
  next hv =>
    split
    next i hi =>
      exact ⟨hs, Ext.refl s, fun j hj => by cases hj; exact assoc_some hi, by simp, rfl, rfl, rfl, rfl, rfl, rfl⟩
    next hn =>
      have hnone := assoc_none hn
      refine ⟨?_, ⟨fun ci h => List.mem_cons_of_mem _ h, Nat.le_succ _⟩, ?_, by simp, rfl, rfl, rfl, rfl, rfl, rfl⟩
      · have hvalid : ∀ j ∈ c.ids, 0 < j ∧ j < s.nextId := by
          intro j hj
          exact validId_iff.mp (List.all_eq_true.mp hv j hj)
        refine ⟨?_, ?_, ?_, ?_, ?_, ?_, ?_, ?_, ?_, ?_, ?_⟩
        · intro c' i j h1 h2
          simp only [List.mem_cons, Prod.mk.injEq] at h1 h2
          rcases h1 with ⟨rfl, rfl⟩ | h1 <;> rcases h2 with ⟨h2a, rfl⟩ | h2
          · rfl
          · exact absurd h2 (hnone _)
          · exact absurd (h2a ▸ h1) (hnone _)
          · exact hs.tfun _ _ _ h1 h2
        · intro c' d i h1 h2
          simp only [List.mem_cons, Prod.mk.injEq] at h1 h2
          rcases h1 with ⟨rfl, rfl⟩ | h1 <;> rcases h2 with ⟨rfl, h2b⟩ | h2
          · rfl
          · have := (hs.range _ _ h2).2; omega
          · have := (hs.range _ _ h1).2; omega
          · exact hs.tinj _ _ _ h1 h2
        · intro c' i h
          simp only [List.mem_cons, Prod.mk.injEq] at h
          rcases h with ⟨rfl, rfl⟩ | h
          · have := (hs.range _ _ hs.tt).1
            have h3 := (hs.range _ _ hs.tt).2
            simp only; omega
          · have := hs.range _ _ h; simp only; omega
        · intro i h0 h1
          simp only at h1
          by_cases h : i = s.nextId
          · exact ⟨c, by simp [h]⟩
          · obtain ⟨d, hd⟩ := hs.full i h0 (by omega)
            exact ⟨d, List.mem_cons_of_mem _ hd⟩
        · intro c' i h j hj
          simp only [List.mem_cons, Prod.mk.injEq] at h
          rcases h with ⟨rfl, rfl⟩ | h
          · exact hvalid j hj
          · exact hs.closed _ _ h j hj
        · intro n i h; exact List.mem_cons_of_mem _ (hs.ints n i h)
        · intro k i h
          obtain ⟨q, hq, hm⟩ := hs.reals k i h
          exact ⟨q, hq, List.mem_cons_of_mem _ hm⟩
        · intro x i h; exact List.mem_cons_of_mem _ (hs.strs x i h)
        · intro n i h
          obtain ⟨t, ht⟩ := hs.syms n i h
          exact ⟨t, List.mem_cons_of_mem _ ht⟩
        · exact List.mem_cons_of_mem _ hs.tt
        · exact List.mem_cons_of_mem _ hs.ff
      · intro i hi; cases hi; simp
  next => exact ⟨hs, Ext.refl s, by simp, by simp, rfl, rfl, rfl, rfl, rfl, rfl⟩

end PySMT.Manager
