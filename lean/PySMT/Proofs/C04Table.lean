import PySMT.Impl.Manager
/-!
# C04 — invariants of every reachable manager state

`Inv s` holds for `Mgr.init` and is preserved by every primitive request, hence by every
`Prog` (induction over the program tree), hence for every operation history of any length.
-/
namespace PySMT.Manager

/-! ## association-list facts -/

theorem assoc_some {α β} [DecidableEq α] {k : α} {l : List (α × β)} {v : β} :
    assoc k l = some v → (k, v) ∈ l := by
  induction l with
  | nil => simp [assoc]
  | cons h t ih =>
    obtain ⟨k', v'⟩ := h
    simp only [assoc]
    split
    · intro h; simp_all
    · intro h; exact List.mem_cons_of_mem _ (ih h)

theorem assoc_none {α β} [DecidableEq α] {k : α} {l : List (α × β)} :
    assoc k l = none → ∀ v, (k, v) ∉ l := by
  induction l with
  | nil => simp
  | cons h t ih =>
    obtain ⟨k', v'⟩ := h
    simp only [assoc]
    split
    · simp
    · intro h v hm
      rcases List.mem_cons.mp hm with h1 | h1
      · simp_all
      · exact ih h v h1

theorem assocBy_some {α β} {p : α → Bool} {l : List (α × β)} {v : β} :
    assocBy p l = some v → ∃ k, (k, v) ∈ l ∧ p k = true := by
  induction l with
  | nil => simp [assocBy]
  | cons h t ih =>
    obtain ⟨k', v'⟩ := h
    simp only [assocBy]
    split
    · intro h; exact ⟨k', by simp_all, by assumption⟩
    · intro h
      obtain ⟨k, hk, hp⟩ := ih h
      exact ⟨k, List.mem_cons_of_mem _ hk, hp⟩

theorem rassoc_some {i : Nid} {l : List (Content × Nid)} {c : Content} :
    rassoc i l = some c → (c, i) ∈ l := by
  induction l with
  | nil => simp [rassoc]
  | cons h t ih =>
    obtain ⟨c', j⟩ := h
    simp only [rassoc]
    split
    · intro h; simp_all
    · intro h; exact List.mem_cons_of_mem _ (ih h)

theorem rassoc_none {i : Nid} {l : List (Content × Nid)} :
    rassoc i l = none → ∀ c, (c, i) ∉ l := by
  induction l with
  | nil => simp
  | cons h t ih =>
    obtain ⟨c', j⟩ := h
    simp only [rassoc]
    split
    · simp
    · intro h c hm
      rcases List.mem_cons.mp hm with h1 | h1
      · simp_all
      · exact ih h c h1

/-! ## the invariant -/

structure Inv (s : Mgr) : Prop where
  /-- one content ⇒ one id -/
  tfun : ∀ c i j, (c, i) ∈ s.formulae → (c, j) ∈ s.formulae → i = j
  /-- one id ⇒ one content -/
  tinj : ∀ c d i, (c, i) ∈ s.formulae → (d, i) ∈ s.formulae → c = d
  range : ∀ c i, (c, i) ∈ s.formulae → 0 < i ∧ i < s.nextId
  full : ∀ i, 0 < i → i < s.nextId → ∃ c, (c, i) ∈ s.formulae
  /-- children and payload nodes were created before their parent -/
  closed : ∀ c i, (c, i) ∈ s.formulae → ∀ j ∈ c.ids, 0 < j ∧ j < i
  ints : ∀ n i, (n, i) ∈ s.intConsts → (intC n, i) ∈ s.formulae
  reals : ∀ k i, (k, i) ∈ s.realConsts → ∃ q, k.realValue = .ok q ∧ (realC q, i) ∈ s.formulae
  strs : ∀ x i, (x, i) ∈ s.strConsts → (strC x, i) ∈ s.formulae
  syms : ∀ n i, (n, i) ∈ s.symbols → ∃ t, (symC n t, i) ∈ s.formulae
  tt : (trueC, trueId) ∈ s.formulae
  ff : (falseC, falseId) ∈ s.formulae

/-- `s'` extends `s`: no node disappears or changes, ids only grow. -/
structure Ext (s s' : Mgr) : Prop where
  sub : ∀ ci, ci ∈ s.formulae → ci ∈ s'.formulae
  next : s.nextId ≤ s'.nextId

theorem Ext.refl (s : Mgr) : Ext s s := ⟨fun _ h => h, Nat.le_refl _⟩

theorem Ext.trans {a b c : Mgr} (h1 : Ext a b) (h2 : Ext b c) : Ext a c :=
  ⟨fun ci h => h2.sub ci (h1.sub ci h), Nat.le_trans h1.next h2.next⟩

theorem inv_initWith (tc : Content → Bool) : Inv (Mgr.initWith tc) := by
  refine ⟨?_, ?_, ?_, ?_, ?_, ?_, ?_, ?_, ?_, ?_, ?_⟩
  all_goals simp [Mgr.initWith, trueC, falseC, trueId, falseId, Content.ids, Payload.ids]
  · intro c i j h1 h2; rcases h1 with ⟨rfl, rfl⟩ | ⟨rfl, rfl⟩ <;> rcases h2 with ⟨h, rfl⟩ | ⟨h, rfl⟩ <;> simp_all
  · intro c d i h1 h2; rcases h1 with ⟨rfl, rfl⟩ | ⟨rfl, rfl⟩ <;> rcases h2 with ⟨rfl, h⟩ | ⟨rfl, h⟩ <;> simp_all
  · intro c i h; rcases h with ⟨rfl, rfl⟩ | ⟨rfl, rfl⟩ <;> simp
  · intro i h1 h2
    have : i = 1 ∨ i = 2 := by omega
    rcases this with rfl | rfl <;> simp
  · intro c i h; rcases h with ⟨rfl, rfl⟩ | ⟨rfl, rfl⟩ <;> simp

theorem inv_init : Inv Mgr.init := inv_initWith _

/-! ## `create_node` -/

theorem validId_iff {s : Mgr} {i : Nid} : s.validId i = true ↔ 0 < i ∧ i < s.nextId := by
  simp [Mgr.validId]

/-- What the table part of `create_node` does, as a specification. -/
theorem createNodeU_spec (c : Content) (s : Mgr) (hs : Inv s) :
    let r := createNodeU c s
    Inv r.2 ∧ Ext s r.2 ∧
    (∀ i, r.1 = .ok i → (c, i) ∈ r.2.formulae) ∧
    (∀ e, r.1 = .error e → r.2 = s) ∧
    r.2.intConsts = s.intConsts ∧ r.2.realConsts = s.realConsts ∧ r.2.strConsts = s.strConsts ∧
    r.2.symbols = s.symbols ∧ r.2.fresh = s.fresh ∧ r.2.tm = s.tm := by
  simp only [createNodeU]
  split
  next hv =>
    split
    next i hi =>
      exact ⟨hs, Ext.refl s, fun j hj => by cases hj; exact assoc_some hi, by simp, rfl, rfl, rfl, rfl, rfl, rfl⟩
    next hn =>
      have hnone := assoc_none hn
      refine ⟨?_, ⟨fun ci h => List.mem_cons_of_mem _ h, Nat.le_succ _⟩, ?_, by simp, rfl, rfl, rfl, rfl, rfl, rfl⟩
      · have hvalid : ∀ j ∈ c.ids, 0 < j ∧ j < s.nextId := by
          intro j hj
          exact validId_iff.mp (List.all_eq_true.mp hv j hj)
        refine ⟨?_, ?_, ?_, ?_, ?_, ?_, ?_, ?_, ?_, ?_, ?_⟩
        · intro c' i j h1 h2
          simp only [List.mem_cons, Prod.mk.injEq] at h1 h2
          rcases h1 with ⟨rfl, rfl⟩ | h1 <;> rcases h2 with ⟨h2a, rfl⟩ | h2
          · rfl
          · exact absurd h2 (hnone _)
          · exact absurd (h2a ▸ h1) (hnone _)
          · exact hs.tfun _ _ _ h1 h2
        · intro c' d i h1 h2
          simp only [List.mem_cons, Prod.mk.injEq] at h1 h2
          rcases h1 with ⟨rfl, rfl⟩ | h1 <;> rcases h2 with ⟨rfl, h2b⟩ | h2
          · rfl
          · exact absurd (hs.range _ _ h2).2 (Nat.lt_irrefl _)
          · rw [h2b] at h1; exact absurd (hs.range _ _ h1).2 (Nat.lt_irrefl _)
          · exact hs.tinj _ _ _ h1 h2
        · intro c' i h
          simp only [List.mem_cons, Prod.mk.injEq] at h
          rcases h with ⟨rfl, rfl⟩ | h
          · have h3 := (hs.range _ _ hs.tt).2
            exact ⟨Nat.zero_lt_of_lt h3, Nat.lt_succ_self _⟩
          · have := hs.range _ _ h
            exact ⟨this.1, Nat.lt_succ_of_lt this.2⟩
        · intro i h0 h1
          simp only at h1
          by_cases h : i = s.nextId
          · exact ⟨c, by simp [h]⟩
          · obtain ⟨d, hd⟩ := hs.full i h0 (by omega)
            exact ⟨d, List.mem_cons_of_mem _ hd⟩
        · intro c' i h j hj
          simp only [List.mem_cons, Prod.mk.injEq] at h
          rcases h with ⟨rfl, rfl⟩ | h
          · exact hvalid j hj
          · exact hs.closed _ _ h j hj
        · intro n i h; exact List.mem_cons_of_mem _ (hs.ints n i h)
        · intro k i h
          obtain ⟨q, hq, hm⟩ := hs.reals k i h
          exact ⟨q, hq, List.mem_cons_of_mem _ hm⟩
        · intro x i h; exact List.mem_cons_of_mem _ (hs.strs x i h)
        · intro n i h
          obtain ⟨t, ht⟩ := hs.syms n i h
          exact ⟨t, List.mem_cons_of_mem _ ht⟩
        · exact List.mem_cons_of_mem _ hs.tt
        · exact List.mem_cons_of_mem _ hs.ff
      · intro i hi; cases hi; simp
  next => exact ⟨hs, Ext.refl s, by simp, by simp, rfl, rfl, rfl, rfl, rfl, rfl⟩

/-- the type check changes only the outcome, never the state -/
theorem createNode_state (c : Content) (s : Mgr) : (createNode c s).2 = (createNodeU c s).2 := by
  unfold createNode
  cases h : createNodeU c s with
  | mk r s' =>
    cases r with
    | error e => rfl
    | ok i => simp only; split <;> rfl

theorem createNode_ok_iff (c : Content) (s : Mgr) (i : Nid) :
    (createNode c s).1 = .ok i ↔ (createNodeU c s).1 = .ok i ∧ s.tc c = true := by
  unfold createNode
  cases h : createNodeU c s with
  | mk r s' =>
    cases r with
    | error e => simp
    | ok j =>
      simp only
      split
      next ht => simp [ht]
      next ht => simp [ht]

theorem createNodeU_tc (c : Content) (s : Mgr) : (createNodeU c s).2.tc = s.tc := by
  unfold createNodeU; split
  · split <;> rfl
  · rfl

/-- What `create_node` does, as a specification: for every verdict of the type checker the
    invariant is kept and the state only extended; a returned node has the requested content. -/
theorem createNode_spec (c : Content) (s : Mgr) (hs : Inv s) :
    let r := createNode c s
    Inv r.2 ∧ Ext s r.2 ∧
    (∀ i, r.1 = .ok i → (c, i) ∈ r.2.formulae) ∧
    (r.2 = (createNodeU c s).2) ∧
    r.2.intConsts = s.intConsts ∧ r.2.realConsts = s.realConsts ∧ r.2.strConsts = s.strConsts ∧
    r.2.symbols = s.symbols ∧ r.2.fresh = s.fresh ∧ r.2.tm = s.tm := by
  have hu := createNodeU_spec c s hs
  simp only [createNode_state]
  refine ⟨hu.1, hu.2.1, ?_, trivial, hu.2.2.2.2⟩
  intro i hi
  exact hu.2.2.1 i ((createNode_ok_iff c s i).mp hi).1

/-! ## the other primitives -/

theorem Inv.withInt {s : Mgr} (hs : Inv s) {n : Int} {i : Nid} (h : (intC n, i) ∈ s.formulae) :
    Inv { s with intConsts := (n, i) :: s.intConsts } := by
  refine ⟨hs.tfun, hs.tinj, hs.range, hs.full, hs.closed, ?_, hs.reals, hs.strs, hs.syms, hs.tt, hs.ff⟩
  intro m j hm
  rcases List.mem_cons.mp hm with h1 | h1
  · cases h1; exact h
  · exact hs.ints m j h1

theorem Inv.withReal {s : Mgr} (hs : Inv s) {k : PyNum} {q : Rat} {i : Nid}
    (hk : k.realValue = .ok q) (h : (realC q, i) ∈ s.formulae) :
    Inv { s with realConsts := (k, i) :: s.realConsts } := by
  refine ⟨hs.tfun, hs.tinj, hs.range, hs.full, hs.closed, hs.ints, ?_, hs.strs, hs.syms, hs.tt, hs.ff⟩
  intro m j hm
  rcases List.mem_cons.mp hm with h1 | h1
  · cases h1; exact ⟨q, hk, h⟩
  · exact hs.reals m j h1

theorem Inv.withStr {s : Mgr} (hs : Inv s) {x : String} {i : Nid} (h : (strC x, i) ∈ s.formulae) :
    Inv { s with strConsts := (x, i) :: s.strConsts } := by
  refine ⟨hs.tfun, hs.tinj, hs.range, hs.full, hs.closed, hs.ints, hs.reals, ?_, hs.syms, hs.tt, hs.ff⟩
  intro m j hm
  rcases List.mem_cons.mp hm with h1 | h1
  · cases h1; exact h
  · exact hs.strs m j h1

theorem Inv.withSym {s : Mgr} (hs : Inv s) {x : String} {t : Ty} {i : Nid} (h : (symC x t, i) ∈ s.formulae) :
    Inv { s with symbols := (x, i) :: s.symbols } := by
  refine ⟨hs.tfun, hs.tinj, hs.range, hs.full, hs.closed, hs.ints, hs.reals, hs.strs, ?_, hs.tt, hs.ff⟩
  intro m j hm
  rcases List.mem_cons.mp hm with h1 | h1
  · cases h1; exact ⟨t, h⟩
  · exact hs.syms m j h1

/-- Python-equal cache keys denote the same rational (so the value-keyed `Real` cache can
    never return a node of another value). -/
theorem pyEq_realValue {a b : PyNum} {x y : Rat} (h : a.pyEq b = true)
    (ha : a.realValue = .ok x) (hb : b.realValue = .ok y) : x = y := by
  cases a <;> cases b <;> simp [PyNum.realValue, PyNum.pyEq, PyNum.num?] at h ha hb <;>
    first
    | (subst ha; subst hb; simpa using h)
    | skip
  obtain ⟨rfl, rfl⟩ := h
  rw [ha] at hb
  cases hb
  rfl

/-- Result of a primitive: invariant kept, state extended, and a returned node id (for the
    node-returning primitives) is the id of the stated content. -/
structure PrimSpec (s : Mgr) (r : Except Err Nid × Mgr) : Prop where
  inv : Inv r.2
  ext : Ext s r.2

theorem intConst_spec (v : PyNum) (s : Mgr) (hs : Inv s) :
    PrimSpec s (intConst v s) ∧
    (∀ i, (intConst v s).1 = .ok i → ∃ n, v = .int n ∧ (intC n, i) ∈ (intConst v s).2.formulae) := by
  unfold intConst
  cases v <;> simp only [PyNum.intValue]
  case int n =>
    split
    next i hi =>
      exact ⟨⟨hs, Ext.refl s⟩, fun j hj => by cases hj; exact ⟨n, rfl, hs.ints _ _ (assoc_some hi)⟩⟩
    next hn =>
      have hc := createNode_spec (intC n) s hs
      generalize createNode (intC n) s = r at hc
      obtain ⟨r1, s'⟩ := r
      obtain ⟨hi, he, hok, _⟩ := hc
      cases r1 with
      | error e => exact ⟨⟨hi, he⟩, by simp⟩
      | ok i =>
        have hm := hok i rfl
        exact ⟨⟨hi.withInt hm, ⟨he.sub, he.next⟩⟩, fun j hj => by cases hj; exact ⟨n, rfl, hm⟩⟩
  all_goals exact ⟨⟨hs, Ext.refl s⟩, by simp⟩

theorem realConst_spec (v : PyNum) (s : Mgr) (hs : Inv s) :
    PrimSpec s (realConst v s) ∧
    (∀ i, (realConst v s).1 = .ok i →
      ∃ q, v.realValue = .ok q ∧ (realC q, i) ∈ (realConst v s).2.formulae) := by
  unfold realConst
  cases hv : v.realValue with
  | error e => exact ⟨⟨hs, Ext.refl s⟩, by simp⟩
  | ok q =>
    simp only
    split
    next i hi =>
      refine ⟨⟨hs, Ext.refl s⟩, fun j hj => ?_⟩
      cases hj
      obtain ⟨k, hk, hp⟩ := assocBy_some hi
      obtain ⟨q', hq', hm⟩ := hs.reals k i hk
      -- equal keys denote the same rational
      have : q' = q := pyEq_realValue hp hq' hv
      exact ⟨q, rfl, this ▸ hm⟩
    next hn =>
      have hc := createNode_spec (realC q) s hs
      generalize createNode (realC q) s = r at hc
      obtain ⟨r1, s'⟩ := r
      obtain ⟨hi, he, hok, _⟩ := hc
      cases r1 with
      | error e => exact ⟨⟨hi, he⟩, by simp⟩
      | ok i =>
        have hm := hok i rfl
        exact ⟨⟨hi.withReal hv hm, ⟨he.sub, he.next⟩⟩, fun j hj => by cases hj; exact ⟨q, rfl, hm⟩⟩

theorem strConst_spec (x : String) (s : Mgr) (hs : Inv s) :
    PrimSpec s (strConst x s) ∧
    (∀ i, (strConst x s).1 = .ok i → (strC x, i) ∈ (strConst x s).2.formulae) := by
  unfold strConst
  split
  next i hi =>
    exact ⟨⟨hs, Ext.refl s⟩, fun j hj => by cases hj; exact hs.strs _ _ (assoc_some hi)⟩
  next hn =>
    have hc := createNode_spec (strC x) s hs
    generalize createNode (strC x) s = r at hc
    obtain ⟨r1, s'⟩ := r
    obtain ⟨hi, he, hok, _⟩ := hc
    cases r1 with
    | error e => exact ⟨⟨hi, he⟩, by simp⟩
    | ok i =>
      have hm := hok i rfl
      exact ⟨⟨hi.withStr hm, ⟨he.sub, he.next⟩⟩, fun j hj => by cases hj; exact hm⟩

theorem content?_mem {s : Mgr} {i : Nid} {c : Content} (h : s.content? i = some c) :
    (c, i) ∈ s.formulae := rassoc_some h

theorem content?_of_mem {s : Mgr} (hs : Inv s) {i : Nid} {c : Content} (h : (c, i) ∈ s.formulae) :
    s.content? i = some c := by
  unfold Mgr.content?
  cases hr : rassoc i s.formulae with
  | none => exact absurd h (rassoc_none hr c)
  | some d => rw [hs.tinj _ _ _ (rassoc_some hr) h]

theorem symbolPrim_spec (x : String) (t : Ty) (s : Mgr) (hs : Inv s) :
    PrimSpec s (symbolPrim x t s) ∧
    (∀ i, (symbolPrim x t s).1 = .ok i → (symC x t, i) ∈ (symbolPrim x t s).2.formulae) := by
  unfold symbolPrim
  split
  next i hi =>
    obtain ⟨t', ht'⟩ := hs.syms _ _ (assoc_some hi)
    rw [content?_of_mem hs ht']
    simp only [symC]
    split
    next heq => exact ⟨⟨hs, Ext.refl s⟩, fun j hj => by cases hj; rw [← heq]; exact ht'⟩
    next => exact ⟨⟨hs, Ext.refl s⟩, by simp⟩
  next hn =>
    split
    next => exact ⟨⟨hs, Ext.refl s⟩, by simp⟩
    next =>
      have hc := createNode_spec (symC x t) s hs
      generalize createNode (symC x t) s = r at hc
      obtain ⟨r1, s'⟩ := r
      obtain ⟨hi, he, hok, _⟩ := hc
      cases r1 with
      | error e => exact ⟨⟨hi, he⟩, by simp⟩
      | ok i =>
        have hm := hok i rfl
        exact ⟨⟨hi.withSym hm, ⟨he.sub, he.next⟩⟩, fun j hj => by cases hj; exact hm⟩

theorem Inv.congr {s s' : Mgr} (hs : Inv s) (h1 : s'.formulae = s.formulae) (h2 : s'.nextId = s.nextId)
    (h3 : s'.intConsts = s.intConsts) (h4 : s'.realConsts = s.realConsts) (h5 : s'.strConsts = s.strConsts)
    (h6 : s'.symbols = s.symbols) : Inv s' := by
  refine ⟨?_, ?_, ?_, ?_, ?_, ?_, ?_, ?_, ?_, ?_, ?_⟩ <;> simp only [h1, h2, h3, h4, h5, h6]
  · exact hs.tfun
  · exact hs.tinj
  · exact hs.range
  · exact hs.full
  · exact hs.closed
  · exact hs.ints
  · exact hs.reals
  · exact hs.strs
  · exact hs.syms
  · exact hs.tt
  · exact hs.ff

theorem internTyPrim_spec (t : Ty) (s : Mgr) (hs : Inv s) : PrimSpec s (internTyPrim t s) := by
  unfold internTyPrim
  split
  · exact ⟨hs.congr rfl rfl rfl rfl rfl rfl, ⟨fun _ h => h, Nat.le_refl _⟩⟩
  · exact ⟨hs, Ext.refl s⟩

/-- Every primitive request keeps the invariant and only extends the state. -/
theorem Prim.exec_spec (p : Prim) (s : Mgr) (hs : Inv s) : PrimSpec s (p.exec s) := by
  cases p with
  | create c =>
    have h := createNode_spec c s hs
    exact ⟨h.1, h.2.1⟩
  | intConst v => exact (intConst_spec v s hs).1
  | realConst v => exact (realConst_spec v s hs).1
  | strConst x => exact (strConst_spec x s hs).1
  | symbol n t => exact (symbolPrim_spec n t s hs).1
  | setFresh n => exact ⟨hs.congr rfl rfl rfl rfl rfl rfl, ⟨fun _ h => h, Nat.le_refl _⟩⟩
  | internTy t => exact internTyPrim_spec t s hs

/-- Every program keeps the invariant and only extends the state — whatever it returns,
    also when it fails half-way. -/
theorem Prog.run_spec {α : Type} (p : Prog α) : ∀ (s : Mgr), Inv s → Inv (p.run s).2 ∧ Ext s (p.run s).2 := by
  induction p with
  | pure a => intro s hs; exact ⟨hs, Ext.refl s⟩
  | fail e => intro s hs; exact ⟨hs, Ext.refl s⟩
  | read k ih => intro s hs; exact ih s s hs
  | prim p k ih =>
    intro s hs
    have hp := Prim.exec_spec p s hs
    simp only [Prog.run]
    generalize p.exec s = r at hp
    obtain ⟨r1, s'⟩ := r
    cases r1 with
    | error e => exact ⟨hp.inv, hp.ext⟩
    | ok i =>
      have := ih i s' hp.inv
      exact ⟨this.1, hp.ext.trans this.2⟩

/-- States reachable from a fresh manager (with any type-checker verdict function) by any finite history of programs (each may be any
    client of the primitives: the constructors of `Impl/Manager.lean` or anything else). -/
inductive Reachable : Mgr → Prop
  | init (tc : Content → Bool) : Reachable (Mgr.initWith tc)
  | step {α : Type} (p : Prog α) {s : Mgr} : Reachable s → Reachable (p.run s).2

theorem Reachable.inv {s : Mgr} (h : Reachable s) : Inv s := by
  induction h with
  | init tc => exact inv_initWith tc
  | step p _ ih => exact (Prog.run_spec p _ ih).1

/-! ## the type checker verdict is a constant of the manager -/

theorem createNode_tc (c : Content) (s : Mgr) : (createNode c s).2.tc = s.tc := by
  rw [createNode_state]; exact createNodeU_tc c s

theorem Prim.exec_tc (p : Prim) (s : Mgr) : (p.exec s).2.tc = s.tc := by
  cases p with
  | create c => exact createNode_tc c s
  | intConst v =>
    simp only [Prim.exec, PySMT.Manager.intConst]
    cases v.intValue with
    | error e => rfl
    | ok n =>
      simp only
      split
      · rfl
      · have := createNode_tc (intC n) s
        generalize createNode (intC n) s = r at this
        obtain ⟨r1, s1⟩ := r
        cases r1 <;> exact this
  | realConst v =>
    simp only [Prim.exec, PySMT.Manager.realConst]
    cases v.realValue with
    | error e => rfl
    | ok q =>
      simp only
      split
      · rfl
      · have := createNode_tc (realC q) s
        generalize createNode (realC q) s = r at this
        obtain ⟨r1, s1⟩ := r
        cases r1 <;> exact this
  | strConst x =>
    simp only [Prim.exec, PySMT.Manager.strConst]
    split
    · rfl
    · have := createNode_tc (strC x) s
      generalize createNode (strC x) s = r at this
      obtain ⟨r1, s1⟩ := r
      cases r1 <;> exact this
  | symbol n t =>
    simp only [Prim.exec, symbolPrim]
    split
    · split
      · split <;> rfl
      · rfl
    · split
      · rfl
      · have := createNode_tc (symC n t) s
        generalize createNode (symC n t) s = r at this
        obtain ⟨r1, s1⟩ := r
        cases r1 <;> exact this
  | setFresh n => rfl
  | internTy t =>
    simp only [Prim.exec, internTyPrim]
    split <;> rfl

theorem Prog.run_tc {α : Type} (p : Prog α) : ∀ (s : Mgr), (p.run s).2.tc = s.tc := by
  induction p with
  | pure a => intro s; rfl
  | fail e => intro s; rfl
  | read k ih => intro s; exact ih s s
  | prim p k ih =>
    intro s
    simp only [Prog.run]
    have hp := Prim.exec_tc p s
    generalize p.exec s = r at hp
    obtain ⟨r1, s'⟩ := r
    cases r1 with
    | error e => exact hp
    | ok i => rw [ih i s']; exact hp

end PySMT.Manager
