import PySMT.Proofs.C08Agree0
import PySMT.Proofs.C03Node
import PySMT.Proofs.C07Apply
/-!
# C08/C09 agreement, operator families 1: helpers; the Core theory (`not and or => xor = distinct ite`)

Every lemma `ag_<token>` has the same shape: if the standard's `applyTheory "<token>"` accepts the elaborated arguments
`as` with result `(u, τ)`, and the parser holds the normalised arguments `nargs as` (each satisfying the invariant `TOK`),
then the function the parser's table binds to the token returns `mkNorm u`, which again satisfies `TOK`.
-/
namespace PySMT.Parser.Agree
open PySMT PySMT.Parser PySMT.Std PySMT.Sexp

/-! ## helpers -/

theorem applyFn_mgr (m : String) (ts : List Term) :
    applyFn (.mgr m) (ts.map .term) = (callMgr m ts).map Parser.Val.term := by
  simp [applyFn, termsOf_nargs]

theorem applyFn_fixReal (m : String) (ts : List Term) :
    applyFn (.fixReal m) (ts.map .term) = (fixReal m ts).map Parser.Val.term := by
  simp [applyFn, termsOf_nargs]

theorem applyFn_special (m : String) (ts : List Term) :
    applyFn (.special m) (ts.map .term) = (applySpecial m ts).map Parser.Val.term := by
  simp [applyFn, termsOf_nargs]

theorem fixReal_ok {m : String} {ts : List Term} {t : Term} (h : callMgr m ts = .ok t) : fixReal m ts = .ok t := by
  simp [fixReal, h]

theorem tyNode_of {op : Op} {p : Payload} {ts : List Term} {σs : List Ty} (h : ts.map Term.typeOf = σs.map some) :
    typeOfNode op p (ts.map Term.typeOf) = C03.tyNode op p σs := by
  rw [h, C03.typeOfNode_eq_tyNode]

theorem map_fst_norm (as : List TT) : (as.map (·.1)).map mkNorm = nargs as := by
  simp [nargs, List.map_map, Function.comp_def]

theorem allAre_snd {as : List TT} {t : Ty} (h : ∀ a ∈ as, a.2 = t) : allAre ((as.map (·.2)).map some) t = true := by
  simp only [allAre, List.all_map, List.all_eq_true, Function.comp]
  intro a ha
  simp [h a ha]

/-- the result of a successful agreement step, packaged -/
def Agrees (fn : Fn) (as : List TT) (u : Term) (τ : Ty) : Prop :=
  applyFn fn ((nargs as).map .term) = .ok (.term (mkNorm u)) ∧ TOK (mkNorm u) τ

theorem nobw_bool : ∀ w, Ty.bool = .bv w → Mk.bvWidth t = .ok w := by intro w h; cases h
theorem nobw_int : ∀ w, Ty.int = .bv w → Mk.bvWidth t = .ok w := by intro w h; cases h
theorem nobw_real : ∀ w, Ty.real = .bv w → Mk.bvWidth t = .ok w := by intro w h; cases h
theorem nobw_str : ∀ w, Ty.str = .bv w → Mk.bvWidth t = .ok w := by intro w h; cases h

/-- typing of the two-argument form: both of sort `σ` -/
theorem tys2 {a b : TT} (ha : TOK (mkNorm a.1) a.2) (hb : TOK (mkNorm b.1) b.2) :
    [mkNorm a.1, mkNorm b.1].map Term.typeOf = [a.2, b.2].map some := by
  simp [ha.ty, hb.ty]

theorem tys1 {a : TT} (ha : TOK (mkNorm a.1) a.2) : [mkNorm a.1].map Term.typeOf = [a.2].map some := by
  simp [ha.ty]

theorem tys3 {a b c : TT} (ha : TOK (mkNorm a.1) a.2) (hb : TOK (mkNorm b.1) b.2) (hc : TOK (mkNorm c.1) c.2) :
    [mkNorm a.1, mkNorm b.1, mkNorm c.1].map Term.typeOf = [a.2, b.2, c.2].map some := by
  simp [ha.ty, hb.ty, hc.ty]

theorem wf1 {a : Term} (ha : a.wf = true) : ∀ t ∈ [a], t.wf = true := by simp [ha]
theorem wf2 {a b : Term} (ha : a.wf = true) (hb : b.wf = true) : ∀ t ∈ [a, b], t.wf = true := by simp [ha, hb]
theorem wf3 {a b c : Term} (ha : a.wf = true) (hb : b.wf = true) (hc : c.wf = true) :
    ∀ t ∈ [a, b, c], t.wf = true := by simp [ha, hb, hc]

/-! ## manager calls -/

theorem call_iff (a b : Term) : Mk.call "Iff" [.t a, .t b] = Mk.Iff a b := by simp [Mk.call, Mk.asTerm]
theorem call_equals (a b : Term) : Mk.call "Equals" [.t a, .t b] = Mk.Equals a b := by simp [Mk.call, Mk.asTerm]
theorem call_ite (a b c : Term) : Mk.call "Ite" [.t a, .t b, .t c] = Mk.Ite a b c := by simp [Mk.call, Mk.asTerm]
theorem call_alldiff (ts : List Term) : Mk.call "AllDifferent" (ts.map .t) = Mk.AllDifferent ts := by
  simp [Mk.call, Sound.termArgs_map, bind, Except.bind]

theorem callMgr_equals (a b : Term) : callMgr "Equals" [a, b] = liftMk (Mk.Equals a b) := by
  simp [callMgr, mgrArity, call_equals]
theorem callMgr_ite (a b c : Term) : callMgr "Ite" [a, b, c] = liftMk (Mk.Ite a b c) := by
  simp [callMgr, mgrArity, call_ite]
theorem callMgr_alldiff (ts : List Term) : callMgr "AllDifferent" ts = liftMk (Mk.AllDifferent ts) := by
  simp [callMgr, mgrArity, call_alldiff]

/-! ## `and`, `or` -/

theorem ag_and (as : List TT) (u : Term) (τ : Ty) (hargs : ∀ a ∈ as, TOK (mkNorm a.1) a.2)
    (hstd : applyTheory "and" as = .ok (u, τ)) : Agrees (.mgr "And") as u τ := by
  simp only [applyTheory] at hstd
  split at hstd
  · rename_i hc
    simp only [Bool.and_eq_true, decide_eq_true_eq, ge_iff_le] at hc
    cases hstd
    have hall : ∀ a ∈ as, a.2 = .bool := allTy_iff.mp hc.2
    have hty : typeOfNode .and .none ((nargs as).map Term.typeOf) = some .bool := by
      rw [tyNode_of (nargs_typeOf hargs)]
      simp only [C03.tyNode, allAre_snd hall, if_true]
    have hn : mkNorm (Std.node .and as) = .node .and (nargs as) .none := by
      simp only [Std.node]
      rw [mkNorm_plain _ _ _ (by decide) (by decide) (by decide), map_fst_norm]
    simp only [if_true, beq_self_eq_true]
    unfold Agrees
    rw [hn]
    refine ⟨?_, tok_node hty (nargs_wf hargs) rfl nobw_bool⟩
    rw [applyFn_mgr, Sound.callMgr_and]
    have h2 : 2 ≤ (nargs as).length := by rw [nargs_length]; exact hc.1
    match hna : nargs as, h2 with
    | a :: b :: rest, _ =>
      rw [hna] at hty
      simp only [Mk.And, create_ok hty]; rfl
  · cases hstd

theorem ag_or (as : List TT) (u : Term) (τ : Ty) (hargs : ∀ a ∈ as, TOK (mkNorm a.1) a.2)
    (hstd : applyTheory "or" as = .ok (u, τ)) : Agrees (.mgr "Or") as u τ := by
  simp only [applyTheory] at hstd
  split at hstd
  · rename_i hc
    simp only [Bool.and_eq_true, decide_eq_true_eq, ge_iff_le] at hc
    cases hstd
    have hall : ∀ a ∈ as, a.2 = .bool := allTy_iff.mp hc.2
    have hty : typeOfNode .or .none ((nargs as).map Term.typeOf) = some .bool := by
      rw [tyNode_of (nargs_typeOf hargs)]
      simp only [C03.tyNode, allAre_snd hall, if_true]
    have hne : ("or" == "and") = false := by decide
    have hn : mkNorm (Std.node .or as) = .node .or (nargs as) .none := by
      simp only [Std.node]
      rw [mkNorm_plain _ _ _ (by decide) (by decide) (by decide), map_fst_norm]
    simp only [hne, Bool.false_eq_true, if_false]
    unfold Agrees
    rw [hn]
    refine ⟨?_, tok_node hty (nargs_wf hargs) rfl nobw_bool⟩
    rw [applyFn_mgr, Sound.callMgr_or]
    have h2 : 2 ≤ (nargs as).length := by rw [nargs_length]; exact hc.1
    match hna : nargs as, h2 with
    | a :: b :: rest, _ =>
      rw [hna] at hty
      simp only [Mk.Or, create_ok hty]; rfl
  · cases hstd

/-! ## `not` -/

/-- `Mk.Not` on a well-formed Boolean term is `notNorm` -/
theorem mkNot_eq (a : Term) (ha : TOK a .bool) : Mk.Not a = .ok (notNorm a) ∧ TOK (notNorm a) .bool := by
  match a, ha with
  | .node op args p, ha =>
    by_cases hop : op = .not
    · subst hop
      have hsh := (Term.wf_node.mp ha.wf).2.1
      have hch := (Term.wf_node.mp ha.wf).1
      have hl : args.length = 1 := by simpa [Op.shapeOK] using hsh
      match args, hl with
      | [x], _ =>
        have hx : x.typeOf = some .bool := by
          have := ha.ty
          rw [typeOf_node] at this
          simp only [List.map_cons, List.map_nil] at this
          cases hxt : x.typeOf with
          | none => rw [hxt] at this; cases this
          | some σ =>
            rw [hxt] at this
            have h2 : typeOfNode .not p ([σ].map some) = some .bool := this
            rw [C03.typeOfNode_eq_tyNode] at h2
            simp only [C03.tyNode, allAre, List.map_cons, List.map_nil, List.all_cons, List.all_nil, Bool.and_true] at h2
            split at h2
            · rename_i h3; simpa using h3
            · cases h2
        refine ⟨by simp [Mk.Not, notNorm], ?_⟩
        simp only [notNorm]
        exact ⟨hx, hch x (by simp), nobw_bool⟩
    · have h1 : Mk.Not (.node op args p) = Mk.create .not [.node op args p] := by
        unfold Mk.Not
        split
        · next heq => cases heq; exact absurd rfl hop
        · next heq => cases heq; exact absurd rfl hop
        · rfl
      have h2 : notNorm (.node op args p) = .node .not [.node op args p] .none := by
        unfold notNorm
        split
        · next heq => cases heq; exact absurd rfl hop
        · rfl
      have hty : typeOfNode .not .none ([Term.node op args p].map Term.typeOf) = some .bool := by
        simp only [List.map_cons, List.map_nil, ha.ty]
        rfl
      rw [h1, h2, create_ok hty]
      exact ⟨rfl, tok_node hty (wf1 ha.wf) rfl nobw_bool⟩

theorem ag_not (as : List TT) (u : Term) (τ : Ty) (hargs : ∀ a ∈ as, TOK (mkNorm a.1) a.2)
    (hstd : applyTheory "not" as = .ok (u, τ)) : Agrees (.mgr "Not") as u τ := by
  simp only [applyTheory] at hstd
  split at hstd
  · rename_i a
    split at hstd
    · rename_i hb
      cases hstd
      have ha := hargs a (by simp)
      have hb' : a.2 = .bool := by simpa using hb
      rw [hb'] at ha
      obtain ⟨h1, h2⟩ := mkNot_eq _ ha
      have hn : mkNorm (Std.node .not [a]) = notNorm (mkNorm a.1) := by
        simp only [Std.node, List.map_cons, List.map_nil]
        rw [mkNorm_node]; rfl
      unfold Agrees
      rw [hn]
      refine ⟨?_, h2⟩
      rw [applyFn_mgr]
      simp only [nargs_cons, nargs_nil, Sound.callMgr_not, h1]; rfl
    · cases hstd
  · cases hstd

/-! ## `=>`, `xor` (two arguments) -/

theorem ag_implies (a b : TT) (u : Term) (τ : Ty) (ha : TOK (mkNorm a.1) a.2) (hb : TOK (mkNorm b.1) b.2)
    (hstd : applyTheory "=>" [a, b] = .ok (u, τ)) : Agrees (.mgr "Implies") [a, b] u τ := by
  simp only [applyTheory] at hstd
  split at hstd
  · rename_i hc
    simp only [Bool.and_eq_true, allTy, List.all_cons, List.all_nil, Bool.and_true, beq_iff_eq] at hc
    simp only [List.reverse_cons, List.reverse_nil, List.nil_append, List.cons_append, List.foldl_cons,
      List.foldl_nil, Except.ok.injEq, Prod.mk.injEq] at hstd
    obtain ⟨rfl, rfl⟩ := hstd
    have hty : typeOfNode .implies .none ([mkNorm a.1, mkNorm b.1].map Term.typeOf) = some .bool := by
      rw [tys2 ha hb, hc.2.1, hc.2.2]; rfl
    have hn : mkNorm (Std.node .implies [a, b]) = .node .implies [mkNorm a.1, mkNorm b.1] .none := by
      simp only [Std.node, List.map_cons, List.map_nil]
      rw [mkNorm_plain _ _ _ (by decide) (by decide) (by decide)]; rfl
    unfold Agrees
    rw [hn]
    refine ⟨?_, tok_node hty (wf2 ha.wf hb.wf) rfl nobw_bool⟩
    rw [applyFn_mgr]
    simp only [nargs_cons, nargs_nil, Sound.callMgr_implies, Mk.Implies, create_ok hty]; rfl
  · cases hstd

theorem ag_xor (a b : TT) (u : Term) (τ : Ty) (ha : TOK (mkNorm a.1) a.2) (hb : TOK (mkNorm b.1) b.2)
    (hstd : applyTheory "xor" [a, b] = .ok (u, τ)) : Agrees (.mgr "Xor") [a, b] u τ := by
  simp only [applyTheory] at hstd
  split at hstd
  · rename_i hc
    simp only [Bool.and_eq_true, allTy, List.all_cons, List.all_nil, Bool.and_true, beq_iff_eq] at hc
    simp only [leftFold, List.foldlM_cons, List.foldlM_nil, bind, Except.bind, pure, Except.pure,
      Except.ok.injEq, Prod.mk.injEq] at hstd
    obtain ⟨rfl, rfl⟩ := hstd
    have hty : typeOfNode .iff .none ([mkNorm a.1, mkNorm b.1].map Term.typeOf) = some .bool := by
      rw [tys2 ha hb, hc.2.1, hc.2.2]; rfl
    have hiff : TOK (.node .iff [mkNorm a.1, mkNorm b.1] .none) .bool :=
      tok_node hty (wf2 ha.wf hb.wf) rfl nobw_bool
    obtain ⟨h1, h2⟩ := mkNot_eq _ hiff
    have hn : mkNorm (.node .not [.node .iff [a.1, b.1] .none] .none) =
        notNorm (.node .iff [mkNorm a.1, mkNorm b.1] .none) := by
      rw [mkNorm_node]
      simp only [List.map_cons, List.map_nil]
      rw [mkNorm_plain _ _ _ (by decide) (by decide) (by decide)]; rfl
    unfold Agrees
    rw [hn]
    refine ⟨?_, h2⟩
    rw [applyFn_mgr]
    simp only [nargs_cons, nargs_nil, Sound.callMgr_xor, Mk.Xor, Mk.Iff, create_ok hty, bind, Except.bind, h1]; rfl
  · cases hstd

/-! ## `=` and `distinct` (two arguments) -/

/-- the equality node the standard builds, and pySMT's `EqualsOrIff` / `_equals_or_iff` on the normalised arguments -/
theorem eq_node (a b : TT) (ha : TOK (mkNorm a.1) a.2) (hb : TOK (mkNorm b.1) b.2) (hab : b.2 = a.2) :
    ∃ e, mkNorm (mkEqTerm a b) = e ∧ TOK e .bool ∧
      (if (mkNorm a.1).typeOf == some .bool then Mk.Iff (mkNorm a.1) (mkNorm b.1)
       else Mk.Equals (mkNorm a.1) (mkNorm b.1)) = .ok e ∧ Mk.isNot e = false := by
  by_cases hbool : a.2 = .bool
  · have hty : typeOfNode .iff .none ([mkNorm a.1, mkNorm b.1].map Term.typeOf) = some .bool := by
      rw [tys2 ha hb, hab, hbool]; rfl
    refine ⟨.node .iff [mkNorm a.1, mkNorm b.1] .none, ?_, tok_node hty (wf2 ha.wf hb.wf) rfl nobw_bool, ?_, rfl⟩
    · simp only [mkEqTerm, hbool, beq_self_eq_true, if_true]
      rw [mkNorm_plain _ _ _ (by decide) (by decide) (by decide)]; rfl
    · simp only [ha.ty, hbool, beq_self_eq_true, if_true, Mk.Iff, create_ok hty]
  · have hty : typeOfNode .equals .none ([mkNorm a.1, mkNorm b.1].map Term.typeOf) = some .bool := by
      rw [tys2 ha hb, hab, C03.typeOfNode_eq_tyNode]
      cases h : a.2 <;> first | exact absurd h hbool | simp [C03.tyNode, allAre]
    have hne : (a.2 == Ty.bool) = false := by simpa using hbool
    refine ⟨.node .equals [mkNorm a.1, mkNorm b.1] .none, ?_, tok_node hty (wf2 ha.wf hb.wf) rfl nobw_bool, ?_, rfl⟩
    · simp only [mkEqTerm, hne, Bool.false_eq_true, if_false]
      rw [mkNorm_plain _ _ _ (by decide) (by decide) (by decide)]; rfl
    · have : ((mkNorm a.1).typeOf == some Ty.bool) = false := by
        rw [ha.ty]; simpa using hbool
      simp only [this, Bool.false_eq_true, if_false, Mk.Equals, create_ok hty]

theorem ag_eq (a b : TT) (u : Term) (τ : Ty) (ha : TOK (mkNorm a.1) a.2) (hb : TOK (mkNorm b.1) b.2)
    (hstd : applyTheory "=" [a, b] = .ok (u, τ)) : Agrees (.special "_equals_or_iff") [a, b] u τ := by
  simp only [applyTheory] at hstd
  split at hstd
  · rename_i hc
    simp only [allTy, List.all_cons, List.all_nil, Bool.and_true, beq_self_eq_true, Bool.true_and, beq_iff_eq] at hc
    simp only [chainPairs, List.map_cons, List.map_nil, conj, Except.ok.injEq, Prod.mk.injEq] at hstd
    obtain ⟨rfl, rfl⟩ := hstd
    obtain ⟨e, he, htok, hmk, _⟩ := eq_node a b ha hb hc
    unfold Agrees
    rw [he]
    refine ⟨?_, htok⟩
    rw [applyFn_special]
    simp only [nargs_cons, nargs_nil, applySpecial]
    simp (config := { decide := true }) only [if_false, if_true]
    by_cases hbool : ((mkNorm a.1).typeOf == some Ty.bool) = true
    · simp only [hbool, if_true] at hmk ⊢
      rw [hmk]; rfl
    · have hb' : ((mkNorm a.1).typeOf == some Ty.bool) = false := by simpa using hbool
      simp only [hb', Bool.false_eq_true, if_false] at hmk ⊢
      rw [fixReal_ok (t := e) (by rw [callMgr_equals, hmk]; rfl)]; rfl
  · cases hstd

theorem not_of_nonnot (e : Term) (he : TOK e .bool) (hn : Mk.isNot e = false) :
    Mk.Not e = .ok (.node .not [e] .none) ∧ notNorm e = .node .not [e] .none := by
  match e, hn with
  | .node op args p, hn =>
    have hop : op ≠ .not := by intro h; subst h; simp [Mk.isNot] at hn
    have h1 : Mk.Not (.node op args p) = Mk.create .not [.node op args p] := by
      unfold Mk.Not
      split
      · next heq => cases heq; exact absurd rfl hop
      · next heq => cases heq; exact absurd rfl hop
      · rfl
    have h2 : notNorm (.node op args p) = .node .not [.node op args p] .none := by
      unfold notNorm
      split
      · next heq => cases heq; exact absurd rfl hop
      · rfl
    have hty : typeOfNode .not .none ([Term.node op args p].map Term.typeOf) = some .bool := by
      simp only [List.map_cons, List.map_nil, he.ty]; rfl
    exact ⟨by rw [h1, create_ok hty], h2⟩

theorem ag_distinct (a b : TT) (u : Term) (τ : Ty) (ha : TOK (mkNorm a.1) a.2) (hb : TOK (mkNorm b.1) b.2)
    (hstd : applyTheory "distinct" [a, b] = .ok (u, τ)) : Agrees (.fixReal "AllDifferent") [a, b] u τ := by
  simp only [applyTheory] at hstd
  split at hstd
  · rename_i hc
    simp only [allTy, List.all_cons, List.all_nil, Bool.and_true, beq_self_eq_true, Bool.true_and, beq_iff_eq] at hc
    simp only [allPairs, List.map_cons, List.map_nil, List.append_nil, conj, Except.ok.injEq, Prod.mk.injEq] at hstd
    obtain ⟨rfl, rfl⟩ := hstd
    obtain ⟨e, he, htok, hmk, hnn⟩ := eq_node a b ha hb hc
    obtain ⟨h1, h2⟩ := not_of_nonnot e htok hnn
    obtain ⟨h3, h4⟩ := mkNot_eq e htok
    have hn : mkNorm (.node .not [mkEqTerm a b] .none) = .node .not [e] .none := by
      rw [mkNorm_node]
      simp only [List.map_cons, List.map_nil, he]
      exact h2
    unfold Agrees
    rw [hn]
    refine ⟨?_, by rw [← h2]; exact h4⟩
    rw [applyFn_fixReal]
    have hcall : callMgr "AllDifferent" (nargs [a, b]) = .ok (.node .not [e] .none) := by
      rw [callMgr_alldiff]
      simp only [nargs_cons, nargs_nil, Mk.AllDifferent, Mk.adPairs, Mk.neqAll, Mk.EqualsOrIff, ha.ty, bind, Except.bind]
      by_cases hbool : a.2 = .bool
      · have : ((mkNorm a.1).typeOf == some Ty.bool) = true := by rw [ha.ty, hbool]; rfl
        simp only [this, if_true] at hmk
        simp only [hbool, hmk, h1, List.append_nil, Mk.And]; rfl
      · have : ((mkNorm a.1).typeOf == some Ty.bool) = false := by rw [ha.ty]; simpa using hbool
        simp only [this, Bool.false_eq_true, if_false] at hmk
        cases h : a.2 <;> first | exact absurd h hbool | (simp only [hmk, h1, List.append_nil, Mk.And]; rfl)
    rw [fixReal_ok hcall]; rfl
  · cases hstd

/-! ## `ite` -/

theorem ag_ite (as : List TT) (u : Term) (τ : Ty) (hargs : ∀ a ∈ as, TOK (mkNorm a.1) a.2)
    (hstd : applyTheory "ite" as = .ok (u, τ)) : Agrees (.fixReal "Ite") as u τ := by
  simp only [applyTheory] at hstd
  split at hstd
  · rename_i c a b
    split at hstd
    · rename_i hc
      simp only [Bool.and_eq_true, beq_iff_eq] at hc
      cases hstd
      have hC := hargs c (by simp)
      have hA := hargs a (by simp)
      have hB := hargs b (by simp)
      have hty : typeOfNode .ite .none ([mkNorm c.1, mkNorm a.1, mkNorm b.1].map Term.typeOf) = some a.2 := by
        rw [tys3 hC hA hB, hc.1, ← hc.2, C03.typeOfNode_eq_tyNode]
        simp [C03.tyNode]
      have hn : mkNorm (Std.node .ite [c, a, b]) = .node .ite [mkNorm c.1, mkNorm a.1, mkNorm b.1] .none := by
        simp only [Std.node, List.map_cons, List.map_nil]
        rw [mkNorm_plain _ _ _ (by decide) (by decide) (by decide)]; rfl
      unfold Agrees
      rw [hn]
      refine ⟨?_, tok_node hty (wf3 hC.wf hA.wf hB.wf) rfl (fun w hw => by rw [bvWidth_ite]; exact hA.bw w hw)⟩
      rw [applyFn_fixReal]
      simp only [nargs_cons, nargs_nil]
      rw [fixReal_ok (t := .node .ite [mkNorm c.1, mkNorm a.1, mkNorm b.1] .none)
        (by rw [callMgr_ite]; simp only [Mk.Ite, create_ok hty]; rfl)]; rfl
    · cases hstd
  · cases hstd

end PySMT.Parser.Agree
