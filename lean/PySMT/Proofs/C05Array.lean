import PySMT.Impl.SubstBuild
import PySMT.Proofs.SimpArray
/-!
# C05 — rebuilding an array value (`Build.mkArray` = `Array(idx, default, dict(zip(keys, values)))`)

List lemmas about `pairsOf` / `unpairs` / `pyDict`, and the value of the rebuilt node
(`eval_mkArray`): for pairwise distinct scalar constant keys, dropping the pairs whose value is the
(new) default does not change the denoted array. The semantic part rests on the canonical-form
algebra of `Proofs/SimpArrayVal.lean` / `Proofs/SimpArray.lean` (`arrayValue_spec`, `array_eval`,
`Val.CanonV.ext`).
-/
namespace PySMT.Build
open PySMT.Simp PySMT.Simp.ArrayRules

theorem pairsOf_eq_pairs : ∀ l : List Term, pairsOf l = pairs l
  | [] => rfl
  | [_] => rfl
  | k :: v :: rest => by rw [pairsOf, pairs, pairsOf_eq_pairs rest]

theorem unpairs_eq_flatMap : ∀ l : List (Term × Term), unpairs l = l.flatMap (fun kv => [kv.1, kv.2])
  | [] => rfl
  | (k, v) :: rest => by rw [unpairs, unpairs_eq_flatMap rest]; rfl

theorem pairsOf_unpairs (l : List (Term × Term)) : pairsOf (unpairs l) = l := by
  rw [pairsOf_eq_pairs, unpairs_eq_flatMap, pairs_flatMap]

theorem pairsOf_map (f : Term → Term) : ∀ l : List Term,
    pairsOf (l.map f) = (pairsOf l).map (fun kv => (f kv.1, f kv.2))
  | [] => rfl
  | [_] => rfl
  | k :: v :: rest => by simp only [List.map_cons, pairsOf, pairsOf_map f rest]

theorem unpairs_map (f : Term → Term) : ∀ l : List (Term × Term),
    (unpairs l).map f = unpairs (l.map (fun kv => (f kv.1, f kv.2)))
  | [] => rfl
  | (k, v) :: rest => by simp only [unpairs, List.map_cons, unpairs_map f rest]

theorem mem_unpairs {l : List (Term × Term)} {x : Term} (h : x ∈ unpairs l) :
    ∃ kv ∈ l, x = kv.1 ∨ x = kv.2 := by
  rw [unpairs_eq_flatMap] at h
  obtain ⟨kv, hkv, hx⟩ := List.mem_flatMap.mp h
  simp only [List.mem_cons, List.not_mem_nil, or_false] at hx
  exact ⟨kv, hkv, hx⟩

theorem mem_pairsOf {rest : List Term} {kv : Term × Term} (h : kv ∈ pairsOf rest) : kv.1 ∈ rest ∧ kv.2 ∈ rest := by
  rw [pairsOf_eq_pairs] at h; exact mem_of_mem_pairs h

/-! ## the `dict` -/

theorem dictInsert_all (K V : Term → Prop) (k v : Term) (hk : K k) (hv : V v) :
    ∀ acc : List (Term × Term), (∀ kv ∈ acc, K kv.1 ∧ V kv.2) → ∀ kv ∈ dictInsert k v acc, K kv.1 ∧ V kv.2
  | [], _, kv, h => by
    simp only [dictInsert, List.mem_singleton] at h; subst h; exact ⟨hk, hv⟩
  | (k', v') :: rest, hacc, kv, h => by
    unfold dictInsert at h
    split at h
    · simp only [List.mem_cons] at h
      rcases h with rfl | h
      · exact ⟨(hacc (k', v') (by simp)).1, hv⟩
      · exact hacc kv (List.mem_cons_of_mem _ h)
    · simp only [List.mem_cons] at h
      rcases h with rfl | h
      · exact hacc _ (by simp)
      · exact dictInsert_all K V k v hk hv rest (fun q hq => hacc q (List.mem_cons_of_mem _ hq)) kv h

theorem foldl_dictInsert_all (K V : Term → Prop) : ∀ (ps acc : List (Term × Term)),
    (∀ kv ∈ ps, K kv.1 ∧ V kv.2) → (∀ kv ∈ acc, K kv.1 ∧ V kv.2) →
    ∀ kv ∈ ps.foldl (fun d kv => dictInsert kv.1 kv.2 d) acc, K kv.1 ∧ V kv.2
  | [], _, _, hacc => hacc
  | (k, v) :: rest, acc, hps, hacc => by
    simp only [List.foldl_cons]
    exact foldl_dictInsert_all K V rest _ (fun q hq => hps q (List.mem_cons_of_mem _ hq))
      (dictInsert_all K V k v (hps (k, v) (by simp)).1 (hps (k, v) (by simp)).2 acc hacc)

/-- every key of the `dict` is a key of the pairs, every value a value of the pairs -/
theorem pyDict_all (K V : Term → Prop) {ps : List (Term × Term)} (h : ∀ kv ∈ ps, K kv.1 ∧ V kv.2) :
    ∀ kv ∈ pyDict ps, K kv.1 ∧ V kv.2 :=
  foldl_dictInsert_all K V ps [] h (fun _ hkv => by cases hkv)

theorem dictInsert_fresh : ∀ (acc : List (Term × Term)) (k v : Term), (∀ kv ∈ acc, kv.1 ≠ k) →
    dictInsert k v acc = acc ++ [(k, v)]
  | [], _, _, _ => rfl
  | (k', v') :: rest, k, v, h => by
    have hk : k' ≠ k := h (k', v') (by simp)
    simp only [dictInsert, hk, if_false, List.cons_append]
    rw [dictInsert_fresh rest k v (fun kv hkv => h kv (List.mem_cons_of_mem _ hkv))]

theorem foldl_dictInsert_nodup : ∀ (ps acc : List (Term × Term)),
    (ps.map Prod.fst).Nodup → (∀ kv ∈ acc, ∀ kv' ∈ ps, kv.1 ≠ kv'.1) →
    ps.foldl (fun d kv => dictInsert kv.1 kv.2 d) acc = acc ++ ps
  | [], acc, _, _ => by simp
  | (k, v) :: rest, acc, hnd, hdis => by
    simp only [List.map_cons, List.nodup_cons] at hnd
    simp only [List.foldl_cons]
    rw [dictInsert_fresh acc k v (fun kv hkv => hdis kv hkv (k, v) (by simp))]
    rw [foldl_dictInsert_nodup rest _ hnd.2]
    · simp
    · intro kv hkv kv' hkv'
      rcases List.mem_append.mp hkv with h | h
      · exact hdis kv h kv' (List.mem_cons_of_mem _ hkv')
      · simp only [List.mem_singleton] at h
        subst h
        intro e
        apply hnd.1
        have : k = kv'.1 := e
        rw [this]; exact List.mem_map_of_mem hkv'

/-- a `dict` built from pairwise distinct keys is the list of pairs -/
theorem pyDict_nodup (ps : List (Term × Term)) (h : (ps.map Prod.fst).Nodup) : pyDict ps = ps := by
  unfold pyDict
  rw [foldl_dictInsert_nodup ps [] h (fun _ hkv => by cases hkv)]
  simp

/-- the keys of a `dict` are pairwise distinct -/
theorem dictInsert_keys_nodup (k v : Term) : ∀ acc : List (Term × Term), (acc.map Prod.fst).Nodup →
    ((dictInsert k v acc).map Prod.fst).Nodup ∧ ∀ x ∈ (dictInsert k v acc).map Prod.fst, x = k ∨ x ∈ acc.map Prod.fst
  | [], _ => by simp [dictInsert]
  | (k', v') :: rest, h => by
    simp only [List.map_cons, List.nodup_cons] at h
    unfold dictInsert
    split
    · next hk => exact ⟨by simpa using h, fun x hx => .inr (by simpa using hx)⟩
    · next hk =>
      obtain ⟨ih1, ih2⟩ := dictInsert_keys_nodup k v rest h.2
      refine ⟨?_, ?_⟩
      · simp only [List.map_cons, List.nodup_cons]
        refine ⟨fun hm => ?_, ih1⟩
        rcases ih2 _ hm with e | e
        · exact hk e
        · exact h.1 e
      · intro x hx
        simp only [List.map_cons, List.mem_cons] at hx ⊢
        rcases hx with rfl | hx
        · exact .inr (.inl rfl)
        · rcases ih2 x hx with e | e
          · exact .inl e
          · exact .inr (.inr e)

theorem pyDict_keys_nodup (ps : List (Term × Term)) : ((pyDict ps).map Prod.fst).Nodup := by
  unfold pyDict
  have : ∀ (ps acc : List (Term × Term)), (acc.map Prod.fst).Nodup →
      ((ps.foldl (fun d kv => dictInsert kv.1 kv.2 d) acc).map Prod.fst).Nodup := by
    intro ps
    induction ps with
    | nil => intro acc h; exact h
    | cons q rest ih => intro acc h; exact ih _ (dictInsert_keys_nodup q.1 q.2 acc h).1
  exact this ps [] (by simp)

theorem noDup_of_nodup : ∀ l : List Term, l.Nodup → noDup l = true
  | [], _ => rfl
  | k :: ks, h => by
    simp only [List.nodup_cons] at h
    simp only [noDup, Bool.and_eq_true, Bool.not_eq_true', noDup_of_nodup ks h.2, and_true]
    simpa using h.1

/-! ## the value of the rebuilt array value -/

theorem mkArray_cons (p : Payload) (d : Term) (rest : List Term) :
    mkArray p (d :: rest) = .node .arrayValue (d :: unpairs ((pyDict (pairsOf rest)).filter (fun kv => kv.2 ≠ d))) p := rfl

theorem mkArray_eq_array_ (idx : Ty) (d : Term) (rest : List Term) (hn : ((pairsOf rest).map Prod.fst).Nodup) :
    mkArray (.ty idx) (d :: rest) = array_ idx d (pairsOf rest) := by
  rw [mkArray_cons, pyDict_nodup _ hn, unpairs_eq_flatMap]
  unfold array_
  congr 3
  apply List.filter_congr
  intro kv _
  by_cases h : kv.2 = d <;> simp [h]

/-- **the rebuilt array value denotes the array of the raw node** -/
theorem eval_mkArray (I : Interp) (hI : I.WF) {idx : Ty} (hidx : idx.scalar = true) (d : Term) (rest : List Term)
    (hk : ∀ kv ∈ pairsOf rest, KeyT kv.1 ∧ kv.1.typeOf = some idx)
    (hn : ((pairsOf rest).map Prod.fst).Nodup) :
    eval I (mkArray (.ty idx) (d :: rest)) = evalOp I .arrayValue (.ty idx) ((d :: rest).map (eval I)) := by
  rw [mkArray_eq_array_ idx d rest hn]
  show _ = Sem.arrayValue idx (eval I d) (rest.map (eval I))
  have hn' : noDup ((pairsOf rest).map (·.1)) = true := noDup_of_nodup _ hn
  obtain ⟨c1, c2, c3⟩ := array_eval hidx (d := d) hk hn' I hI
  have hpv : pairsV (rest.map (eval I)) = (pairsOf rest).map (E I) := by
    rw [pairsV_map, pairsOf_eq_pairs]
  obtain ⟨a1, a2, a3⟩ := arrayValue_spec (keyOrd idx hidx) (eval I d) (rest.map (eval I)) (by
    rw [hpv]
    intro kv hkv
    obtain ⟨kv', hkv', rfl⟩ := List.mem_map.mp hkv
    have := hk kv' hkv'
    exact eval_hasSort kv'.1 this.1.1 idx this.2 I hI)
  rw [hpv] at a2
  refine Val.CanonV.ext (keyOrd idx hidx) c1 a1 (fun hs => ?_) (fun j hj => ?_)
  · rw [c3 hs, a3 hs]
  · rw [c2 j hj, a2 j hj]

end PySMT.Build
