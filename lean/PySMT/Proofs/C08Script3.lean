import PySMT.Proofs.C08Script2
/-!
# C08: soundness of `assert`, `get-value`, `check-sat-assuming` after a declaration prefix

`Proofs/C08Script2.lean` (`decls_refine`) brings the parser's environment and the standard's into correspondence by
running the same declaration commands on both sides, from the initial states (`refines_init`). Here the agreement theorem
(`agree`) and the soundness theorem (`readStd_wf`, `mkNorm_sem`) are applied to the terms of the commands that follow:

* `step_assert` / `assert_after_decls`: the parser's `Command.assert` carries `mkNorm u` for the very term `u` the
  standard asserted, and `eval I (mkNorm u) = eval I u`;
* `step_terms` / `getValue_after_decls` / `checkSatAssuming_after_decls`: the same for every term of `get-value`
  and `check-sat-assuming`.

Everything is in the form "whenever the standard accepts, the parser model accepts, and …".
-/
namespace PySMT.Parser.Agree
open PySMT PySMT.Parser PySMT.Std PySMT.Sexp

/-! ## `assert` -/

theorem live_assert (st : StdState) (tm : Term) :
    (match st.asserts with
     | top :: rest => ({ st with asserts := (tm :: top) :: rest } : StdState)
     | [] => { st with asserts := [[tm]] }).live = st.live ++ [tm] := by
  cases h : st.asserts with
  | nil => simp [StdState.live, h]
  | cons top rest => simp [StdState.live, h]

/-- **`assert` in corresponding environments.** Whenever the standard accepts `(assert s)` for a text `s` of the
fragment, the parser model accepts it; its command carries `mkNorm u` for the term `u` the standard has asserted; that
term is well-formed, Boolean, and has the value of `u` under every well-formed interpretation. The environments still
correspond afterwards. -/
theorem step_assert (ρ : List (String × Sym)) (st st'' : StdState) (Γ : PEnv) (s : Sexp)
    (hc : Corr st.env [] Γ) (hm : MgrLe Γ.mgr ρ)
    (hf : FragS st.env ρ s = true) (hro : RotOK st.env [] s = true)
    (hstd : stepStd st (.list [.atom "assert", s]) = .ok st'') :
    ∃ u σ', readStd st.env [] s = .ok u ∧ st''.env = st.env ∧ st''.live = st.live ++ [u] ∧
      cmd Γ (.list [.atom "assert", s]) = .ok ({ Γ with mgr := σ' }, .assert (mkNorm u)) ∧
      Corr st''.env [] { Γ with mgr := σ' } ∧ MgrLe σ' ρ ∧
      (mkNorm u).wf = true ∧ (mkNorm u).typeOf = some .bool ∧ u.typeOf = some .bool ∧
      ∀ I : Interp, I.WF → eval I (mkNorm u) = eval I u := by
  rw [stepStd_assert] at hstd
  simp only [stepAssert, readStdTy, List.reverse_nil, List.map_nil] at hstd
  cases hrd : rd st.env [] s with
  | error e => simp [hrd] at hstd
  | ok r =>
    obtain ⟨u, τ⟩ := r
    simp only [hrd] at hstd
    split at hstd
    · rename_i hb
      have hτ : τ = .bool := by simpa using hb
      subst hτ
      have hread : readStd st.env [] s = .ok u := by
        simp [readStd, readStdTy, hrd, Except.map]
      obtain ⟨σ', hv, hm', htok⟩ := agree st.env ρ s hf [] Γ true hc hm hro u .bool hrd
      have hwf := (readStd_wf st.env ρ hc.nodefs s hf hro u hread).1
      obtain ⟨g1, g2, g3⟩ := mkNorm_sem u hwf
      have hst : st'' = (match st.asserts with
          | top :: rest => ({ st with asserts := (u :: top) :: rest } : StdState)
          | [] => { st with asserts := [[u]] }) := by
        cases ha : st.asserts with
        | nil => simp only [ha, Except.ok.injEq] at hstd ⊢; exact hstd.symm
        | cons top rest => simp only [ha, Except.ok.injEq] at hstd ⊢; exact hstd.symm
      have henv : st''.env = st.env := by
        rw [hst]; cases st.asserts <;> rfl
      refine ⟨u, σ', hread, henv, ?_, ?_, ?_, hm', g1, htok.ty, ?_, g3⟩
      · rw [hst]; exact live_assert st u
      · rw [cmd_assert_eq]
        simp only [cmdAssert, readTermSt, hv, htok.ty, beq_self_eq_true, if_true]
      · rw [henv]; exact corr_mgr hc σ'
      · rw [← g2]; exact htok.ty
    · cases hstd

/-- **`assert` after a declaration prefix.** `cs`: commands of the fragment of `decls_refine`; `s`: a term text of the
fragment `FragS` (in the environment the declarations build). Whenever the standard accepts `cs` followed by
`(assert s)`, the parser model (started in `PEnv.init`, as `get_script` does) accepts the script, and its last command is
the assertion of `mkNorm u`, where `u` is the term the standard asserted: well-formed, Boolean, same value. -/
theorem assert_after_decls (ρ : List (String × Sym)) (cs : List Sexp) (s : Sexp) (st' st'' : StdState)
    (hcs : declCmdsOK ρ StdState.init cs = true) (hrun : runStd cs = .ok st')
    (hf : FragS st'.env ρ s = true) (hro : RotOK st'.env [] s = true)
    (hstd : runStd (cs ++ [.list [.atom "assert", s]]) = .ok st'') :
    ∃ u, readStd st'.env [] s = .ok u ∧ st''.live = st'.live ++ [u] ∧
      script PEnv.init (cs ++ [.list [.atom "assert", s]])
        = .ok (declCommands StdState.init cs ++ [.assert (mkNorm u)]) ∧
      (mkNorm u).wf = true ∧ (mkNorm u).typeOf = some .bool ∧
      ∀ I : Interp, I.WF → eval I (mkNorm u) = eval I u := by
  unfold runStd at hrun hstd
  obtain ⟨Γ', h1, h2, hr⟩ := decls_refine ρ cs StdState.init st' 0 PEnv.init hcs hrun (refines_init ρ)
  obtain ⟨st1, e1, e2⟩ := runStdFrom_append cs _ _ _ _ hstd
  rw [hrun] at e1
  cases e1
  have hstep := runStdFrom_single e2
  obtain ⟨u, σ', g1, _, g3, g4, _, _, g7, g8, _, g10⟩ := step_assert ρ st' st'' Γ' s hr.corr hr.mgr hf hro hstep
  refine ⟨u, g1, g3, ?_, g7, g8, g10⟩
  obtain ⟨c1, _⟩ := script_append cs [.list [.atom "assert", s]] _ _ _ h1 h2
  rw [c1, script_cons_ok g4]
  simp [script, Except.map]

/-! ## `get-value`, `check-sat-assuming` -/

/-- the terms of a list, read one after the other (the formula manager's state is threaded through) -/
theorem readTerms_agree (env : SEnv) (ρ : List (String × Sym)) : ∀ (ts : List Sexp), FragL env ρ ts = true →
    ∀ (Γ : PEnv), Corr env [] Γ → MgrLe Γ.mgr ρ → RotOKL env [] ts = true →
    ∀ as, rdList env [] ts = .ok as →
    ∃ σ', readTerms Γ ts = .ok (nargs as, σ') ∧ MgrLe σ' ρ ∧
      ∀ a ∈ as, (mkNorm a.1).wf = true ∧ (mkNorm a.1).typeOf = some a.2 ∧ a.1.typeOf = some a.2 ∧
        ∀ I : Interp, I.WF → eval I (mkNorm a.1) = eval I a.1
  | [], _, Γ, _, hm, _, as, h => by
    simp only [rdList, Except.ok.injEq] at h
    subst h
    exact ⟨Γ.mgr, rfl, hm, by simp⟩
  | s :: r, hf, Γ, hc, hm, hro, as, h => by
    obtain ⟨hfs, hfr⟩ := FragL_cons hf
    rw [RotOKL_cons, Bool.and_eq_true] at hro
    simp only [rdList] at h
    cases hs : rd env [] s with
    | error e => simp [hs] at h
    | ok t =>
      cases hr : rdList env [] r with
      | error e => simp [hs, hr] at h
      | ok ts =>
        simp only [hs, hr, Except.ok.injEq] at h
        subst h
        obtain ⟨u, τ⟩ := t
        obtain ⟨σ1, hv, hm1, htok⟩ := agree env ρ s hfs [] Γ true hc hm hro.1 u τ hs
        obtain ⟨σ2, hvs, hm2, hall⟩ :=
          readTerms_agree env ρ r hfr { Γ with mgr := σ1 } (corr_mgr hc σ1) hm1 hro.2 ts hr
        have hread : readStd env [] s = .ok u := by
          simp [readStd, readStdTy, hs, Except.map]
        have hwf := (readStd_wf env ρ hc.nodefs s hfs hro.1 u hread).1
        obtain ⟨g1, g2, g3⟩ := mkNorm_sem u hwf
        refine ⟨σ2, ?_, hm2, ?_⟩
        · rw [readTerms]
          simp only [readTermSt, hv, hvs]
          rfl
        · intro a ha
          simp only [List.mem_cons] at ha
          rcases ha with rfl | ha
          · exact ⟨g1, htok.ty, by rw [← g2]; exact htok.ty, g3⟩
          · exact hall a ha

theorem terms_core (ρ : List (String × Sym)) (st st'' : StdState) (Γ : PEnv) (name : String) (args : List Sexp)
    (b : Bool) (hc : Corr st.env [] Γ) (hm : MgrLe Γ.mgr ρ)
    (hstd : stepTerms st b name args = .ok st'')
    (hcmd : cmd Γ (.list (.atom name :: args)) = cmdTerms Γ name args)
    (hf : ∀ ts, args = [.list ts] → FragL st.env ρ ts = true ∧ RotOKL st.env [] ts = true) :
    ∃ ts as σ', args = [.list ts] ∧ rdList st.env [] ts = .ok as ∧ st'' = st ∧
      cmd Γ (.list (.atom name :: args)) = .ok ({ Γ with mgr := σ' }, .terms name (as.map (fun a => mkNorm a.1))) ∧
      Corr st''.env [] { Γ with mgr := σ' } ∧ MgrLe σ' ρ ∧
      ∀ a ∈ as, (mkNorm a.1).wf = true ∧ (mkNorm a.1).typeOf = some a.2 ∧ a.1.typeOf = some a.2 ∧
        ∀ I : Interp, I.WF → eval I (mkNorm a.1) = eval I a.1 := by
  unfold stepTerms at hstd
  split at hstd
  · rename_i ts
    obtain ⟨hfl, hrol⟩ := hf ts rfl
    cases hrd : rdList st.env [] ts with
    | error e => simp [hrd] at hstd
    | ok as =>
      simp only [hrd] at hstd
      split at hstd
      · cases hstd
        obtain ⟨σ', hv, hm', hall⟩ := readTerms_agree st.env ρ ts hfl Γ hc hm hrol as hrd
        refine ⟨ts, as, σ', rfl, hrd, rfl, ?_, corr_mgr hc σ', hm', hall⟩
        rw [hcmd]
        simp only [cmdTerms, hv]
        rfl
      · cases hstd
  · cases hstd

/-- **`get-value` / `check-sat-assuming` in corresponding environments** (`name` is one of the two). Whenever the
standard accepts `(name (t₁ … tₙ))` for texts of the fragment, the parser model accepts it, and its command carries
`mkNorm uᵢ` for the terms `uᵢ` the standard reads: well-formed, of the standard's sort, same value. -/
theorem step_terms (ρ : List (String × Sym)) (st st'' : StdState) (Γ : PEnv) (name : String) (args : List Sexp)
    (hname : name = "get-value" ∨ name = "check-sat-assuming")
    (hc : Corr st.env [] Γ) (hm : MgrLe Γ.mgr ρ)
    (hstd : stepStd st (.list (.atom name :: args)) = .ok st'')
    (hf : ∀ ts, args = [.list ts] → FragL st.env ρ ts = true ∧ RotOKL st.env [] ts = true) :
    ∃ ts as σ', args = [.list ts] ∧ rdList st.env [] ts = .ok as ∧ st'' = st ∧
      cmd Γ (.list (.atom name :: args)) = .ok ({ Γ with mgr := σ' }, .terms name (as.map (fun a => mkNorm a.1))) ∧
      Corr st''.env [] { Γ with mgr := σ' } ∧ MgrLe σ' ρ ∧
      ∀ a ∈ as, (mkNorm a.1).wf = true ∧ (mkNorm a.1).typeOf = some a.2 ∧ a.1.typeOf = some a.2 ∧
        ∀ I : Interp, I.WF → eval I (mkNorm a.1) = eval I a.1 := by
  rcases hname with rfl | rfl
  · rw [stepStd_getValue] at hstd
    exact terms_core ρ st st'' Γ _ args false hc hm hstd (cmdGetValue_eq Γ args) hf
  · rw [stepStd_checkSatAssuming] at hstd
    exact terms_core ρ st st'' Γ _ args true hc hm hstd (cmdCheckSatAssuming_eq Γ args) hf

/-- **`get-value` / `check-sat-assuming` after a declaration prefix.** -/
theorem terms_after_decls (ρ : List (String × Sym)) (cs : List Sexp) (name : String) (ts : List Sexp)
    (st' st'' : StdState) (hname : name = "get-value" ∨ name = "check-sat-assuming")
    (hcs : declCmdsOK ρ StdState.init cs = true) (hrun : runStd cs = .ok st')
    (hf : FragL st'.env ρ ts = true) (hro : RotOKL st'.env [] ts = true)
    (hstd : runStd (cs ++ [.list [.atom name, .list ts]]) = .ok st'') :
    ∃ as, rdList st'.env [] ts = .ok as ∧ st'' = st' ∧
      script PEnv.init (cs ++ [.list [.atom name, .list ts]])
        = .ok (declCommands StdState.init cs ++ [.terms name (as.map (fun a => mkNorm a.1))]) ∧
      ∀ a ∈ as, (mkNorm a.1).wf = true ∧ (mkNorm a.1).typeOf = some a.2 ∧ a.1.typeOf = some a.2 ∧
        ∀ I : Interp, I.WF → eval I (mkNorm a.1) = eval I a.1 := by
  unfold runStd at hrun hstd
  obtain ⟨Γ', h1, h2, hr⟩ := decls_refine ρ cs StdState.init st' 0 PEnv.init hcs hrun (refines_init ρ)
  obtain ⟨st1, e1, e2⟩ := runStdFrom_append cs _ _ _ _ hstd
  rw [hrun] at e1
  cases e1
  have hstep := runStdFrom_single e2
  obtain ⟨ts', as, σ', g0, g1, g2, g3, _, _, g6⟩ := step_terms ρ st' st'' Γ' name [.list ts] hname hr.corr hr.mgr hstep
    (fun ts' he => by
      simp only [List.cons.injEq, Sexp.list.injEq, and_true] at he
      subst he; exact ⟨hf, hro⟩)
  simp only [List.cons.injEq, Sexp.list.injEq, and_true] at g0
  subst g0
  refine ⟨as, g1, g2, ?_, g6⟩
  obtain ⟨c1, _⟩ := script_append cs [.list [.atom name, .list ts]] _ _ _ h1 h2
  rw [c1, script_cons_ok g3]
  simp [script, Except.map]

/-- `decls_refine` in the "whenever both accept" form: the environment the parser reaches corresponds to the standard's -/
theorem decls_refine_both (ρ : List (String × Sym)) (cs : List Sexp) (st st' : StdState) (k : Nat) (Γ Γ' : PEnv)
    (hcs : declCmdsOK ρ st cs = true) (hstd : runStdFrom st k cs = .ok st') (hpy : envAfter Γ cs = .ok Γ')
    (hr : Refines ρ st Γ) : Corr st'.env [] Γ' ∧ MgrLe Γ'.mgr ρ := by
  obtain ⟨Γ1, h1, _, h3⟩ := decls_refine ρ cs st st' k Γ hcs hstd hr
  rw [hpy] at h1
  cases h1
  exact ⟨h3.corr, h3.mgr⟩

/-! ## examples: the hypotheses are satisfiable, the conclusions are about scripts that are really accepted -/

theorem ok_of_toBool {α} {r : Except String α} (h : r.toBool = true) : ∃ a, r = .ok a := by
  cases r with
  | error e => cases h
  | ok a => exact ⟨a, rfl⟩

/-- a script header with every command kind of the fragment (`|u|` is the quoted spelling of `u`) -/
def exCs : List Sexp :=
  [.list [.atom "set-info", .atom ":status", .atom "sat"],
   .list [.atom "set-option", .atom ":produce-models", .atom "true"],
   .list [.atom "set-logic", .atom "QF_UFLIA"],
   .list [.atom "declare-sort", .atom "U", .atom "0"],
   .list [.atom "define-sort", .atom "V", .list [], .atom "U"],
   .list [.atom "declare-fun", .atom "f", .list [.atom "Int", .atom "V"], .atom "Bool"],
   .list [.atom "declare-const", .atom "x", .atom "Int"],
   .list [.atom "declare-const", .atom "|u|", .atom "U"]]

def exRho : List (String × Sym) :=
  [("f", ⟨"f", [.int, .custom "U"], .bool⟩), ("x", ⟨"x", [], .int⟩), ("u", ⟨"u", [], .custom "U"⟩)]

/-- `(f (+ x 1) u)` -/
def exAsrt : Sexp := .list [.atom "f", .list [.atom "+", .atom "x", .atom "1"], .atom "u"]

/-- `x`, `(f x u)` -/
def exTs : List Sexp := [.atom "x", .list [.atom "f", .atom "x", .atom "u"]]

/-- the standard's state after `exCs` -/
def exSt : StdState := match runStd exCs with | .ok st => st | .error _ => default

theorem exSt_run : runStd exCs = .ok exSt := by
  have hacc : (runStd exCs).toBool = true := by decide +kernel
  unfold exSt
  cases h : runStd exCs with
  | error e => rw [h] at hacc; cases hacc
  | ok st => rfl

theorem exCs_ok : declCmdsOK exRho StdState.init exCs = true := by decide +kernel

/-- the hypotheses of `decls_refine` hold for `exCs` from the initial states, and its conclusion says: the parser's
environment after `exCs` refines `exSt` — with a formula manager that is NOT empty -/
example : ∃ Γ', envAfter PEnv.init exCs = .ok Γ' ∧ script PEnv.init exCs = .ok (declCommands StdState.init exCs) ∧
    Refines exRho exSt Γ' :=
  decls_refine exRho exCs StdState.init exSt 0 PEnv.init exCs_ok exSt_run (refines_init exRho)

example : (envAfter PEnv.init exCs).toOption.map (fun Γ => Γ.mgr.symbols.map (·.1)) = some ["u", "x", "f"] := by
  decide +kernel

/-- a printable key of a declaration `Command` (`Command` has no decidable equality) -/
def exKey : Command → String
  | .setLogic n => "set-logic " ++ n.getD "?"
  | .declareSort n k => "declare-sort " ++ n ++ " " ++ toString k
  | .defineSort n t => "define-sort " ++ n ++ " " ++ tyName t
  | .declare c s => c ++ " " ++ s.name ++ " (" ++ " ".intercalate (s.params.map tyName) ++ ") " ++ tyName s.ret
  | .plain n l => n ++ " " ++ " ".intercalate l
  | _ => "?"

/-- the commands the parser builds for `exCs` (the abbreviation `V` is expanded, the bars of `|u|` are dropped) -/
example : (declCommands StdState.init exCs).map exKey =
    ["set-info :status sat", "set-option :produce-models true", "set-logic QF_UFLIA", "declare-sort U 0", "define-sort V U", "declare-fun f (Int U) Bool",
     "declare-const x () Int", "declare-const u () U"] := by
  decide +kernel

/-- `step_decl` from the initial states, with its hypotheses in computable form -/
theorem step_decl_init (ρ : List (String × Sym)) (c : Sexp) (h1 : (stepStd StdState.init c).toBool = true)
    (h2 : declCmdOK ρ StdState.init c = true) :
    ∃ st' Γ', stepStd StdState.init c = .ok st' ∧ cmd PEnv.init c = .ok (Γ', declCommand StdState.init c) ∧
      Refines ρ st' Γ' := by
  obtain ⟨st', h⟩ := ok_of_toBool h1
  obtain ⟨Γ', g1, g2⟩ := step_decl ρ StdState.init st' PEnv.init c h2 h (refines_init ρ)
  exact ⟨st', Γ', h, g1, g2⟩

/-- one command of each kind: the hypotheses of `step_decl` (hence of `step_setLogic`, `step_declareSort`,
`step_defineSort`, `step_declareFun`, `step_declareConst`) are satisfiable -/
def exC1 : Sexp := .list [.atom "set-logic", .atom "QF_LRA"]
def exC2 : Sexp := .list [.atom "declare-sort", .atom "U", .atom "0"]
def exC3 : Sexp := .list [.atom "define-sort", .atom "W", .list [],
  .list [.atom "Array", .atom "Int", .list [.atom "_", .atom "BitVec", .atom "8"]]]
def exC4 : Sexp := .list [.atom "declare-fun", .atom "f", .list [.atom "Int", .atom "Real"], .atom "Bool"]
def exC5 : Sexp := .list [.atom "declare-const", .atom "x", .atom "Int"]

example : ∃ st' Γ', stepStd StdState.init exC1 = .ok st' ∧
    cmd PEnv.init exC1 = .ok (Γ', declCommand StdState.init exC1) ∧ Refines [] st' Γ' :=
  step_decl_init [] exC1 (by decide +kernel) (by decide +kernel)

example : ∃ st' Γ', stepStd StdState.init exC2 = .ok st' ∧
    cmd PEnv.init exC2 = .ok (Γ', declCommand StdState.init exC2) ∧ Refines [] st' Γ' :=
  step_decl_init [] exC2 (by decide +kernel) (by decide +kernel)

example : ∃ st' Γ', stepStd StdState.init exC3 = .ok st' ∧
    cmd PEnv.init exC3 = .ok (Γ', declCommand StdState.init exC3) ∧ Refines [] st' Γ' :=
  step_decl_init [] exC3 (by decide +kernel) (by decide +kernel)

example : ∃ st' Γ', stepStd StdState.init exC4 = .ok st' ∧
    cmd PEnv.init exC4 = .ok (Γ', declCommand StdState.init exC4) ∧ Refines [("f", ⟨"f", [.int, .real], .bool⟩)] st' Γ' :=
  step_decl_init [("f", ⟨"f", [.int, .real], .bool⟩)] exC4 (by decide +kernel) (by decide +kernel)

example : ∃ st' Γ', stepStd StdState.init exC5 = .ok st' ∧
    cmd PEnv.init exC5 = .ok (Γ', declCommand StdState.init exC5) ∧ Refines [("x", ⟨"x", [], .int⟩)] st' Γ' :=
  step_decl_init [("x", ⟨"x", [], .int⟩)] exC5 (by decide +kernel) (by decide +kernel)

/-- what the side condition excludes: a function named like a token of the parser's table (`pow`), a name spelled like a
numeral (F16b), `declare-sort` without arity or with arity 1, a symbol the formula manager has with another sort, a
sort named like a declared function -/
example :
    declCmdOK [("pow", ⟨"pow", [.int], .int⟩)] StdState.init
      (.list [.atom "declare-fun", .atom "pow", .list [.atom "Int"], .atom "Int"]) = false ∧
    declCmdOK [("12", ⟨"12", [], .int⟩)] StdState.init (.list [.atom "declare-const", .atom "|12|", .atom "Int"]) = false ∧
    declCmdOK [] StdState.init (.list [.atom "declare-sort", .atom "U"]) = false ∧
    declCmdOK [] StdState.init (.list [.atom "declare-sort", .atom "P", .atom "1"]) = false ∧
    declCmdOK [("x", ⟨"x", [], .real⟩)] StdState.init (.list [.atom "declare-const", .atom "x", .atom "Int"]) = false ∧
    declCmdOK exRho exSt (.list [.atom "declare-sort", .atom "x", .atom "0"]) = false := by
  decide +kernel

theorem exAsrt_frag : FragS exSt.env exRho exAsrt = true := by decide +kernel
theorem exAsrt_rot : RotOK exSt.env [] exAsrt = true := by decide +kernel

/-- `assert_after_decls` on `exCs` + `(assert (f (+ x 1) u))` -/
example : ∃ u, script PEnv.init (exCs ++ [.list [.atom "assert", exAsrt]])
      = .ok (declCommands StdState.init exCs ++ [.assert (mkNorm u)]) ∧
    readStd exSt.env [] exAsrt = .ok u ∧ ∀ I : Interp, I.WF → eval I (mkNorm u) = eval I u := by
  obtain ⟨st'', h⟩ := ok_of_toBool (r := runStd (exCs ++ [.list [.atom "assert", exAsrt]])) (by decide +kernel)
  obtain ⟨u, h1, _, h3, _, _, h6⟩ := assert_after_decls exRho exCs exAsrt exSt st'' exCs_ok exSt_run exAsrt_frag exAsrt_rot h
  exact ⟨u, h3, h1, h6⟩

/-- `terms_after_decls` on `exCs` + `(get-value (x (f x u)))` and `(check-sat-assuming ((f x u)))` -/
example : ∃ as : List TT, script PEnv.init (exCs ++ [.list [.atom "get-value", .list exTs]])
      = .ok (declCommands StdState.init exCs ++ [.terms "get-value" (as.map (fun a => mkNorm a.1))]) ∧
    as.length = 2 := by
  obtain ⟨st'', h⟩ := ok_of_toBool (r := runStd (exCs ++ [.list [.atom "get-value", .list exTs]])) (by decide +kernel)
  obtain ⟨as, h1, _, h3, _⟩ := terms_after_decls exRho exCs "get-value" exTs exSt st'' (Or.inl rfl) exCs_ok exSt_run
    (by decide +kernel) (by decide +kernel) h
  refine ⟨as, h3, ?_⟩
  have : (rdList exSt.env [] exTs).toOption.map List.length = some 2 := by decide +kernel
  rw [h1] at this
  simpa [Except.toOption] using this

example : ∃ as : List TT, script PEnv.init (exCs ++ [.list [.atom "check-sat-assuming", .list [exAsrt]]])
      = .ok (declCommands StdState.init exCs ++ [.terms "check-sat-assuming" (as.map (fun a => mkNorm a.1))]) := by
  obtain ⟨st'', h⟩ :=
    ok_of_toBool (r := runStd (exCs ++ [.list [.atom "check-sat-assuming", .list [exAsrt]]])) (by decide +kernel)
  obtain ⟨as, _, _, h3, _⟩ := terms_after_decls exRho exCs "check-sat-assuming" [exAsrt] exSt st'' (Or.inr rfl) exCs_ok
    exSt_run (by decide +kernel) (by decide +kernel) h
  exact ⟨as, h3⟩

end PySMT.Parser.Agree
