import PySMT.Proofs.C07Read7
/-!
# C07 (`read_toSexp`, continued): applications of declared functions, constants
-/
namespace PySMT.Printer
open PySMT.Std PySMT.Sexp

theorem tok_not_special {tok n : String} (h : symName? tok = some n) :
    (tok == "let") = false ∧ (tok == "forall") = false ∧ (tok == "exists") = false ∧ (tok == "!") = false
    ∧ (tok == "_") = false ∧ (tok == "as") = false ∧ (tok == "match") = false ∧ (tok == "par") = false := by
  have L := symName_lits
  refine ⟨?_, ?_, ?_, ?_, ?_, ?_, ?_, ?_⟩ <;>
  · apply beq_eq_false_iff_ne.2
    intro e
    rw [e] at h
    simp_all

section
variable (sp : Spell) (env : SEnv) (sc : List Binding) (srt : Bool) (toS : Term → Sexp) (scope0 : List Sym)

/-- application of a declared function `f`; `hfree`: no name bound in the scope is `f.name` -/
theorem reads_function (f : Sym) (args : List Term) (τ : Ty)
    (hargs : ∀ a ∈ args, Reads env sc srt toS a) (hty : (Term.node .function args (.sym f)).typeOf = some τ)
    (hS : stdTy .function (.sym f) (args.map tyD) = some τ)
    (hfine : nameFine f.name = true) (hfree : lookupScope f.name sc [] = none) (hlf : env.lookupFun f.name = some f) :
    NodeReads sp env sc srt toS .function args (.sym f) := by
  simp only [stdTy] at hS
  split at hS <;> simp at hS
  rename_i hc
  simp only [Bool.and_eq_true, Bool.not_eq_true', beq_iff_eq] at hc
  obtain ⟨hpne, hts⟩ := hc
  subst hS
  simp only [Bool.and_eq_true, Bool.not_eq_true', nameFine] at hfine
  obtain ⟨⟨hch, hr⟩, hth⟩ := hfine
  obtain ⟨tok, htok, hsn⟩ := symTok f.name hch hr
  obtain ⟨e1, e2, e3, e4, e5, e6, e7, e8⟩ := tok_not_special hsn
  have hne : args ≠ [] := by
    intro h; subst h
    simp only [List.map_nil] at hts
    rw [← hts] at hpne; simp at hpne
  have hemp : (args.map (U srt)).isEmpty = false := by cases args <;> simp_all
  have hls : (lookupScope f.name sc []).isSome = false := by rw [hfree]; rfl
  apply reads_of sp env sc srt toS _ _ _ _ _ hty (unfoldAV_plain srt _ _ _ (by decide))
  simp only [nodeSexp, htok]
  rw [rd]
  simp only [e1, e2, e3, e4, e5, e6, e7, e8, Bool.false_eq_true, if_false, Bool.or_self, hsn,
    rdList_args env sc srt toS args hargs, applySym, hemp, hls, hth, applyUser, hlf, hpne, map_snd_U, hts, beq_self_eq_true,
    if_true, map_fst_U, Term.app]

theorem lit_true : numeral? "true" = none ∧ decimal? "true" = none ∧ binary? "true" = none ∧ hex? "true" = none
    ∧ symName? "true" = some "true" ∧ theorySymbols.contains "true" = true := by decide +kernel
theorem lit_false : numeral? "false" = none ∧ decimal? "false" = none ∧ binary? "false" = none ∧ hex? "false" = none
    ∧ symName? "false" = some "false" ∧ theorySymbols.contains "false" = true := by decide +kernel

theorem reads_boolConst (hsc : ThFree sc) (v : Bool) (τ : Ty)
    (hty : (Term.node .boolConst [] (.b v)).typeOf = some τ) (hS : stdTy .boolConst (.b v) [] = some τ) :
    NodeReads sp env sc srt toS .boolConst [] (.b v) := by
  simp only [stdTy, Option.some.injEq] at hS
  subst hS
  apply reads_of sp env sc srt toS _ _ _ _ _ hty (unfoldAV_plain srt _ _ _ (by decide))
  cases v
  · obtain ⟨h1, h2, h3, h4, h5, h6⟩ := lit_false
    simp [nodeSexp, rd, atomTerm, h1, h2, h3, h4, h5, hsc _ h6, Term.ff]
  · obtain ⟨h1, h2, h3, h4, h5, h6⟩ := lit_true
    simp [nodeSexp, rd, atomTerm, h1, h2, h3, h4, h5, hsc _ h6, Term.tt]

theorem rd_natAtom (hro : env.realsOnly = false) (k : Nat) :
    rd env sc (natAtom k) = .ok (Term.int k, .int) := by
  simp [natAtom, rd, atomTerm, numeral?_natStr, hro]

theorem ap_neg_int (k : Nat) : applyTheory "-" [(Term.int k, .int)] = .ok (Term.int (-(k : Int)), .int) := by
  simp [applyTheory, isNumConst, Term.int]

theorem reads_intConst (hsp : SpellStd sp) (hsc : ThFree sc) (n : Int) (τ : Ty)
    (hty : (Term.node .intConst [] (.i n)).typeOf = some τ) (hS : stdTy .intConst (.i n) [] = some τ)
    (hok : nodeOK env scope0 .intConst (.i n) [] = true) :
    NodeReads sp env sc srt toS .intConst [] (.i n) := by
  simp only [stdTy, Option.some.injEq] at hS
  subst hS
  simp only [nodeOK, Bool.not_eq_true'] at hok
  apply reads_of sp env sc srt toS _ _ _ _ _ hty (unfoldAV_plain srt _ _ _ (by decide))
  simp only [nodeSexp, intSexp]
  by_cases hn : n < 0
  · simp only [hn, if_true, spell sp hsp "walk_int_constant" "-" (by decide)]
    rw [rd_op env sc hsc "-" (by decide) [natAtom (-n).toNat] [(Term.int (-n).toNat, .int)]
      (by simp [rdList, rd_natAtom env sc hok]) (by simp), ap_neg_int]
    have : -(((-n).toNat : Nat) : Int) = n := by omega
    rw [this]; rfl
  · simp only [hn, if_false]
    rw [rd_natAtom env sc hok]
    have : ((n.toNat : Nat) : Int) = n := by omega
    rw [this]; rfl

theorem decodeStrLit_id : ∀ (fuel : Nat) (cs : List Char), cs.length < fuel →
    cs.all (fun c => 0x20 ≤ c.toNat && c.toNat ≤ 0x7E && c != '\\') = true → decodeStrLit fuel cs = .ok cs
  | _, [], _, _ => by unfold decodeStrLit; rfl
  | 0, _ :: _, h, _ => by simp at h
  | fuel + 1, c :: cs, h, hall => by
    simp only [List.all_cons, Bool.and_eq_true, decide_eq_true_eq, bne_iff_ne, ne_eq] at hall
    obtain ⟨⟨⟨h1, h2⟩, h3⟩, hrest⟩ := hall
    have ih := decodeStrLit_id fuel cs (by simpa using h) hrest
    have hb : (c != '\\') = true := by simpa using h3
    simp [decodeStrLit, h1, h2, hb, ih, Except.map]

theorem reads_strConst (v : String) (τ : Ty)
    (hty : (Term.node .strConst [] (.s v)).typeOf = some τ) (hS : stdTy .strConst (.s v) [] = some τ)
    (hok : nodeOK env scope0 .strConst (.s v) [] = true) :
    NodeReads sp env sc srt toS .strConst [] (.s v) := by
  simp only [stdTy, Option.some.injEq] at hS
  subst hS
  simp only [nodeOK, strFine] at hok
  apply reads_of sp env sc srt toS _ _ _ _ _ hty (unfoldAV_plain srt _ _ _ (by decide))
  have : strConstOf v = .ok v := by
    simp only [strConstOf, decodeStrLit_id (v.length + 1) v.toList (by rw [String.length_toList]; omega) hok, Except.map,
      String.ofList_toList]
  simp only [nodeSexp, rd, this, Except.map, Term.str]
  rfl

theorem reads_bvConst (v w : Nat) (τ : Ty)
    (hty : (Term.node .bvConst [] (.bv v w)).typeOf = some τ) (hS : stdTy .bvConst (.bv v w) [] = some τ) :
    NodeReads sp env sc srt toS .bvConst [] (.bv v w) := by
  simp only [stdTy] at hS
  split at hS <;> simp at hS
  rename_i hc
  simp only [Bool.and_eq_true, decide_eq_true_eq] at hc
  subst hS
  apply reads_of sp env sc srt toS _ _ _ _ _ hty (unfoldAV_plain srt _ _ _ (by decide))
  have hb := binary_read v w hc.1 hc.2
  simp only at hb
  have hext : (if v < 2 ^ w then ([] : List Char) else Nat.toDigits 2 (v / 2 ^ w)) = [] := by simp [hc.2]
  simp only [nodeSexp, bvSexp, hext, List.nil_append, rd, atomTerm, hb.1, hb.2.1, hb.2.2, Term.bvc]
  rfl

end

end PySMT.Printer
