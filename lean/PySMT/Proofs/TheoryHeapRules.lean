import PySMT.Proofs.TheoryHeap

namespace PySMT.TheoryHeap
open PySMT PySMT.Logics PySMT.TheoryOracle
set_option linter.unusedSimpArgs false

/-- result of a rule: value of c13's `rule`, old cells untouched, and a new object for well-shaped nodes -/
def RuleOK (h0 : Heap) (val : Theory) (fresh : Bool) (r : Nat × Heap) : Prop :=
  PostV h0 val r ∧ (fresh = true → h0.next ≤ r.1)

theorem ruleOK_of_post {h0 : Heap} {val : Theory} {r : Nat × Heap} (b : Bool) (h : Post h0 val r) :
    RuleOK h0 val b r := ⟨h.1, fun _ => h.2⟩

theorem const_ok (h0 : Heap) (f : Theory → Theory) (b : Bool) :
    RuleOK h0 (f T0) b ((h0.new T0).1, (h0.new T0).2.mutate (h0.new T0).1 f) :=
  ruleOK_of_post b (mutate_post h0 T0 _ _ f (new_post h0 h0 T0 (Ext.refl _)))

theorem combine_ok (h0 : Heap) (as : List Nat) (hv : ∀ a ∈ as, a < h0.next) (b : Bool) :
    RuleOK h0 (combineList (as.map h0.cells)) b (walkCombineO h0 as) :=
  ruleOK_of_post b (walkCombine_post h0 as hv)

theorem combine_new_post (h0 : Heap) (val : Theory) (r : Nat × Heap) (hp : PostV h0 val r) (v : Theory) :
    Post h0 (val.combine v) (combineO (r.2.new v).2 r.1 (r.2.new v).1) := by
  obtain ⟨⟨he1, _, hv1⟩, _⟩ := new_post h0 r.2 v hp.1
  have hc : (r.2.new v).2.cells r.1 = val := by
    have := hp.2.1
    simp only [Heap.new]; rw [if_neg (by omega)]; exact hp.2.2
  have := combine_post h0 (r.2.new v).2 r.1 (r.2.new v).1 he1
  rw [hc, hv1] at this; exact this

theorem mut_ok {h0 : Heap} {val : Theory} {r : Nat × Heap} (b : Bool) (f : Theory → Theory) (h : Post h0 val r) :
    RuleOK h0 (f val) b (r.1, r.2.mutate r.1 f) :=
  ruleOK_of_post b (mutate_post h0 val r.1 r.2 f h)

theorem divCore_post (args : List Term) (as : List Nat) (h0 : Heap) (hv : ∀ a ∈ as, a < h0.next) :
    PostV h0 (divCore args (as.map h0.cells)) (divCoreO h0 args as) := by
  obtain ⟨hb, _⟩ := foldBase_post h0 as hv
  simp only [divCore, divCoreO]
  rcases args with _ | ⟨x, _ | ⟨d, _ | ⟨e, r2⟩⟩⟩ <;> rcases as with _ | ⟨a, _ | ⟨td, _ | ⟨c, rest⟩⟩⟩ <;>
    simp only [List.map] <;> try exact hb
  have htd : td < h0.next := hv td (by simp)
  by_cases h1 : hasFreeVars d = true
  · simp only [h1, if_true]; exact (new_of h0 _ _ hb (fun t => t.set_linear false)).1
  · simp only [h1, if_false, Bool.false_eq_true]
    by_cases h2 : isZero d = true
    · simp only [h2, if_true]; exact (new_of h0 _ _ hb (fun t => t.set_linear false)).1
    · simp only [h2, if_false, Bool.false_eq_true]
      have := combine_post h0 (foldBaseO h0 [a, td]).2 (foldBaseO h0 [a, td]).1 td hb.1
      rw [hb.2.2, hb.1.2 td htd] at this
      exact this.1

theorem div_ok (p : Payload) (args : List Term) (as : List Nat) (h0 : Heap) (hv : ∀ a ∈ as, a < h0.next) :
    RuleOK h0 (rule .div p args (as.map h0.cells)) (freshShape .div p as) (ruleH .div p args as h0) := by
  simp only [ruleH, rule]
  exact ruleOK_of_post _ (new_of h0 _ _ (divCore_post args as h0 hv) (fun t => t.set_difference_logic false))

theorem ruleH_spec (op : Op) (p : Payload) (args : List Term) (as : List Nat) (h0 : Heap)
    (hv : ∀ a ∈ as, a < h0.next) :
    RuleOK h0 (rule op p args (as.map h0.cells)) (freshShape op p as) (ruleH op p args as h0) := by
  cases op
  case div => exact div_ok p args as h0 hv
  all_goals simp only [ruleH, rule]
  all_goals first
    | exact combine_ok h0 as hv _
    | exact const_ok h0 _ _
    | exact ruleOK_of_post _ (new_post h0 h0 T0 (Ext.refl _))
    | skip
  case forall_ | exists_ =>
    cases p with
    | qvars vs =>
      simp only []
      have hb := objHd_post h0 as hv
      have := quant_post h0 vs (objHd h0 as).2 (objHd h0 as).1 hb.1 hb.2.1
      rw [hb.2.2] at this
      refine ⟨this.1, fun hf => this.2 ?_⟩
      cases vs with
      | nil => simp [freshShape] at hf
      | cons v vs => simp
    | _ => exact ⟨objHd_post h0 as hv, fun hf => by simp [freshShape] at hf⟩
  case symbol => cases p <;> exact ruleOK_of_post _ (new_post h0 h0 _ (Ext.refl _))
  case function =>
    have hb := funBase_post h0 as hv
    cases p with
    | sym s => exact mut_ok _ withUF (combine_new_post h0 _ _ hb.1 _)
    | _ =>
      simp only []
      have := new_of h0 _ _ hb.1 (fun t => t.copy)
      simp only [copy_eq] at this
      exact mut_ok _ withUF this
  case plus =>
    exact ruleOK_of_post _ (new_of h0 _ _ (foldBase_post h0 as hv).1 (fun t => t.set_difference_logic false))
  case times =>
    have hb := (foldBase_post h0 as hv).1
    by_cases hc : (List.filter hasFreeVars args).length > 1
    · simp only [hc, if_true]
      exact ruleOK_of_post _ (new_of h0 _ _ (new_of h0 _ _ hb (fun t => t.set_linear false)).1
        (fun t => t.set_difference_logic false))
    · simp only [hc, if_false]
      exact ruleOK_of_post _ (new_of h0 _ _ hb (fun t => t.set_difference_logic false))
  case toReal | intToStr => rw [cellHd_eq]; exact ruleOK_of_post _ (new_post h0 h0 _ (Ext.refl _))
  case pow =>
    rw [cellHd_eq]
    exact ruleOK_of_post _ (new_of h0 _ _ (new_post h0 h0 _ (Ext.refl _)).1 (fun t => t.set_difference_logic false))
  case bvToNatural => rw [cellHd_eq]; exact mut_ok _ withInt (new_post h0 h0 _ (Ext.refl _))
  case strLength | strIndexOf | strToInt =>
    exact ruleOK_of_post _ (combine_new_post h0 _ _ (walkCombine_post h0 as hv).1 intTheory)
  case arrayValue =>
    have hb := walkCombine_post h0 as hv
    cases p with
    | ty idx => exact mut_ok _ withConstArrays (combine_new_post h0 _ _ hb.1 _)
    | _ =>
      simp only []
      have := new_of h0 _ _ hb.1 (fun t => t.copy)
      simp only [copy_eq] at this
      exact mut_ok _ withConstArrays this

end PySMT.TheoryHeap
