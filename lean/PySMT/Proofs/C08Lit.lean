import PySMT.Impl.Parser
import PySMT.Spec.SmtlibText
import PySMT.Proofs.C09Lit
import PySMT.Proofs.C07Read
/-!
# C08: pySMT's tolerant literal reader agrees with the standard on the standard's literals

For an ARBITRARY token of each literal class of the SMT-LIB lexicon (`numeral?`, `decimal?`, `binary?`, `hex?` of
`Spec/Sexp.lean`), character level: `pyTok` leaves the token alone, Python's `int`/`Fraction` (`pyInt?`, `pyFraction?`)
read the value the standard assigns, and `literal` builds the constant the standard's reader builds.
-/
namespace PySMT.Parser.Lit
open PySMT PySMT.Parser PySMT.Sexp

/-- the first character of a literal token is a digit or `#` (so a name that starts otherwise is never a literal) -/
def litHead (tok : String) : Bool := match tok.toList with | c :: _ => isDigit c || c == '#' | [] => false

/-! ## tokens that do not start with a bar are their own pySMT token -/

theorem pyTok_of_head (tok : String) (c : Char) (cs : List Char) (h : tok.toList = c :: cs) (hc : c ≠ '|') :
    pyTok tok = tok := by
  have hs : stripBars tok.toList = none := by
    rw [h]
    unfold stripBars
    split
    · next cs' heq => simp only [List.cons.injEq] at heq; exact absurd heq.1 hc
    · rfl
  unfold pyTok symName?
  rw [hs]
  simp only
  split <;> rfl

/-! ## digits -/

theorem digit_ne {c : Char} (h : isDigit c = true) : c ≠ '-' ∧ c ≠ '+' ∧ c ≠ '#' ∧ c ≠ '|' ∧ c ≠ '.' ∧ c ≠ '/' := by
  refine ⟨?_, ?_, ?_, ?_, ?_, ?_⟩ <;> (intro hc; subst hc; revert h; decide)

theorem no_dot_of_all_digit {l : List Char} (h : l.all isDigit = true) : l.contains '.' = false := by
  rw [Bool.eq_false_iff]
  intro hc
  have hc' : '.' ∈ l := by simpa using hc
  have := List.all_eq_true.mp h _ hc'
  revert this; decide

theorem takeDigits_stop : ∀ (a : List Char) (c : Char) (r : List Char), a.all isDigit = true → isDigit c = false →
    takeDigits (a ++ c :: r) = (a, c :: r)
  | [], c, r, _, hc => by simp [takeDigits, hc]
  | x :: a, c, r, h, hc => by
    simp only [List.all_cons, Bool.and_eq_true] at h
    simp [takeDigits, h.1, takeDigits_stop a c r h.2 hc]

/-- Python's `int` on a non-empty run of digits -/
theorem pyInt_digits (tok : String) (hne : tok.toList ≠ []) (hall : tok.toList.all isDigit = true) :
    pyInt? tok = some (natOfDigits tok.toList : Int) := by
  obtain ⟨c, cs, hl⟩ : ∃ c cs, tok.toList = c :: cs := by
    cases h : tok.toList with
    | nil => exact absurd h hne
    | cons c cs => exact ⟨c, cs, rfl⟩
  have hd : isDigit c = true := by
    have := hall; rw [hl] at this; simp only [List.all_cons, Bool.and_eq_true] at this; exact this.1
  obtain ⟨hm, hp, _⟩ := digit_ne hd
  have htd : takeDigits (c :: cs) = (c :: cs, []) := takeDigits_all _ (hl ▸ hall)
  unfold pyInt?
  simp only [hl]
  split
  · next heq => simp only [List.cons.injEq] at heq; exact absurd heq.1 hm
  · next heq => simp only [List.cons.injEq] at heq; exact absurd heq.1 hp
  · simp [htd, digitsVal]

/-- Python's `Fraction` on a non-empty run of digits -/
theorem pyFraction_digits (tok : String) (hne : tok.toList ≠ []) (hall : tok.toList.all isDigit = true) :
    pyFraction? tok = some (some (((natOfDigits tok.toList : Nat) : Int) : Rat)) := by
  obtain ⟨c, cs, hl⟩ : ∃ c cs, tok.toList = c :: cs := by
    cases h : tok.toList with
    | nil => exact absurd h hne
    | cons c cs => exact ⟨c, cs, rfl⟩
  have hd : isDigit c = true := by
    have := hall; rw [hl] at this; simp only [List.all_cons, Bool.and_eq_true] at this; exact this.1
  obtain ⟨hm, hp, _⟩ := digit_ne hd
  have htd : takeDigits (c :: cs) = (c :: cs, []) := takeDigits_all _ (hl ▸ hall)
  unfold pyFraction?
  simp only [hl]
  split
  · next heq => simp only [List.cons.injEq] at heq; exact absurd heq.1 hm
  · next heq => simp only [List.cons.injEq] at heq; exact absurd heq.1 hp
  · simp [htd, digitsVal]

/-! ## numerals -/

theorem numeral_shape (tok : String) (n : Nat) (h : numeral? tok = some n) :
    isNumeralChars tok.toList = true ∧ n = natOfDigits tok.toList := by
  unfold numeral? at h
  split at h
  · next hn => simp only [Option.some.injEq] at h; exact ⟨hn, h.symm⟩
  · cases h

theorem numeral_facts (tok : String) (n : Nat) (h : numeral? tok = some n) :
    pyTok tok = tok ∧ litHead tok = true ∧ pyInt? tok = some (n : Int) ∧
    pyFraction? tok = some (some (((n : Int) : Rat))) ∧ tok.toList.contains '.' = false ∧
    (∃ c cs, tok.toList = c :: cs ∧ c ≠ '#') := by
  obtain ⟨hn, hv⟩ := numeral_shape tok n h
  obtain ⟨hne, hall⟩ := numeral_digits hn
  obtain ⟨c, cs, hl⟩ : ∃ c cs, tok.toList = c :: cs := by
    cases h : tok.toList with
    | nil => exact absurd h hne
    | cons c cs => exact ⟨c, cs, rfl⟩
  have hd : isDigit c = true := by
    have := hall; rw [hl] at this; simp only [List.all_cons, Bool.and_eq_true] at this; exact this.1
  obtain ⟨_, _, hh, hb, _⟩ := digit_ne hd
  refine ⟨pyTok_of_head tok c cs hl hb, ?_, ?_, ?_, no_dot_of_all_digit hall, c, cs, hl, hh⟩
  · simp [litHead, hl, hd]
  · rw [hv]; exact pyInt_digits tok hne hall
  · rw [hv]; exact pyFraction_digits tok hne hall

theorem pyInt_numeral (w : String) (k : Nat) (h : numeral? w = some k) : pyInt? (pyTok w) = some (k : Int) := by
  obtain ⟨h1, _, h3, _⟩ := numeral_facts w k h
  rw [h1, h3]

theorem literal_numeral (ia : Option Bool) (lone : Bool) (tok : String) (n : Nat) (h : numeral? tok = some n) :
    literal ia lone tok = .ok (.term (if ia.getD true then Term.int n else Term.real ((n : Int) : Rat))) := by
  obtain ⟨_, _, _, hfr, hdot, c, cs, hl, hh⟩ := numeral_facts tok n h
  have hden : ((n : Int) : Rat).den = 1 := by simp
  have hnum : ((n : Int) : Rat).num = n := by simp
  unfold literal
  rw [hl]
  split
  · next heq => simp only [List.cons.injEq] at heq; exact absurd heq.1 hh
  · next heq => simp only [List.cons.injEq] at heq; exact absurd heq.1 hh
  · next heq => simp only [List.cons.injEq] at heq; exact absurd heq.1 hh
  · next heq => simp only [List.cons.injEq] at heq; exact absurd heq.1 hh
  · rw [hfr]
    simp only [numeralTerm, hden, hdot, hnum, if_true, Bool.false_eq_true, if_false]

/-! ## decimals -/

theorem decimal_shape (tok : String) (q : Rat) (h : decimal? tok = some q) :
    ∃ a b, tok.toList = a ++ '.' :: b ∧ isNumeralChars a = true ∧ b ≠ [] ∧ b.all isDigit = true ∧
      q = mkRat (natOfDigits (a ++ b)) (10 ^ b.length) := by
  unfold decimal? at h
  split at h
  · next hd =>
    unfold isDecimalChars at hd
    split at h
    · next a b hsd =>
      rw [hsd] at hd
      simp only [Bool.and_eq_true, Bool.not_eq_true', List.isEmpty_eq_false_iff] at hd
      simp only [Option.some.injEq] at h
      exact ⟨a, b, splitDot_spec _ a b hsd, hd.1.1, hd.1.2, hd.2, h.symm⟩
    · cases h
  · cases h

theorem decimal_facts (tok : String) (q : Rat) (h : decimal? tok = some q) :
    pyTok tok = tok ∧ litHead tok = true ∧ pyFraction? tok = some (some q) ∧ tok.toList.contains '.' = true ∧
    (∃ c cs, tok.toList = c :: cs ∧ c ≠ '#') := by
  obtain ⟨a, b, hl, hna, hbne, hb, hq⟩ := decimal_shape tok q h
  obtain ⟨hane, ha⟩ := numeral_digits hna
  obtain ⟨c, a', rfl⟩ : ∃ c a', a = c :: a' := by
    cases a with
    | nil => exact absurd rfl hane
    | cons c a' => exact ⟨c, a', rfl⟩
  have hd : isDigit c = true := by
    have := ha; simp only [List.all_cons, Bool.and_eq_true] at this; exact this.1
  obtain ⟨hm, hp, hh, hbar, _⟩ := digit_ne hd
  have hl' : tok.toList = c :: (a' ++ '.' :: b) := by rw [hl]; rfl
  have htd1 : takeDigits (c :: (a' ++ '.' :: b)) = (c :: a', '.' :: b) :=
    takeDigits_stop (c :: a') '.' b ha (by decide)
  have htd2 : takeDigits b = (b, []) := takeDigits_all b hb
  have hbe : b.isEmpty = false := by cases b with | nil => exact absurd rfl hbne | cons _ _ => rfl
  refine ⟨pyTok_of_head tok c _ hl' hbar, ?_, ?_, ?_, c, _, hl', hh⟩
  · simp [litHead, hl', hd]
  · unfold pyFraction?
    simp only [hl']
    split
    · next heq => simp only [List.cons.injEq] at heq; exact absurd heq.1 hm
    · next heq => simp only [List.cons.injEq] at heq; exact absurd heq.1 hp
    · simp [htd1, htd2, digitsVal, hq]
  · rw [hl]; simp

theorem literal_decimal (ia : Option Bool) (lone : Bool) (tok : String) (q : Rat) (h : decimal? tok = some q) :
    literal ia lone tok = .ok (.term (Term.real q)) := by
  obtain ⟨_, _, hfr, hdot, c, cs, hl, hh⟩ := decimal_facts tok q h
  unfold literal
  rw [hl]
  split
  · next heq => simp only [List.cons.injEq] at heq; exact absurd heq.1 hh
  · next heq => simp only [List.cons.injEq] at heq; exact absurd heq.1 hh
  · next heq => simp only [List.cons.injEq] at heq; exact absurd heq.1 hh
  · next heq => simp only [List.cons.injEq] at heq; exact absurd heq.1 hh
  · rw [hfr]
    simp only [numeralTerm, hdot, if_true]
    split
    · split <;> rfl
    · rfl

/-! ## bit-vector literals -/

theorem BV_ok (v w : Nat) (hw : 0 < w) (hv : v < 2 ^ w) : Mk.BV (v : Int) w = .ok (Term.bvc v w) := by
  have h0 : w ≠ 0 := by omega
  have h1 : ¬ ((v : Int) < 0) := by omega
  have h2 : ¬ ((v : Int) ≥ (2 : Int) ^ w) := by
    have : ((v : Nat) : Int) < ((2 ^ w : Nat) : Int) := Int.ofNat_lt.mpr hv
    rw [Int.natCast_pow] at this
    exact Int.not_le.mpr this
  simp only [Mk.BV, h0, h1, h2, if_false, Int.toNat_natCast]

theorem literal_of_BV (v w : Nat) (hw : 0 < w) (hv : v < 2 ^ w) :
    (liftMk (Mk.BV (v : Int) w)).map Val.term = .ok (.term (Term.bvc v w)) := by
  rw [BV_ok v w hw hv]; rfl

theorem binValue_fold : ∀ (ds : List Char) (acc : Nat), ds.all isBinDigit = true →
    Mk.binValue ds acc = some (ds.foldl (fun acc c => acc * 2 + digitVal c) acc)
  | [], _, _ => rfl
  | c :: ds, acc, h => by
    simp only [List.all_cons, Bool.and_eq_true] at h
    have hc := h.1
    simp only [isBinDigit, Bool.or_eq_true, beq_iff_eq] at hc
    rcases hc with rfl | rfl
    · have : digitVal '0' = 0 := by decide
      simp only [Mk.binValue, List.foldl_cons, this, Nat.add_zero]
      rw [binValue_fold ds _ h.2, Nat.mul_comm]
    · have : digitVal '1' = 1 := by decide
      simp only [Mk.binValue, List.foldl_cons, this]
      rw [binValue_fold ds _ h.2, Nat.mul_comm]

theorem bin_bound : ∀ (ds : List Char) (acc k : Nat), ds.all isBinDigit = true → acc < 2 ^ k →
    ds.foldl (fun acc c => acc * 2 + digitVal c) acc < 2 ^ (k + ds.length)
  | [], _, _, _, h => h
  | c :: ds, acc, k, h, hacc => by
    simp only [List.all_cons, Bool.and_eq_true] at h
    have hc := h.1
    simp only [isBinDigit, Bool.or_eq_true, beq_iff_eq] at hc
    have hd : digitVal c ≤ 1 := by rcases hc with rfl | rfl <;> decide
    have hstep : acc * 2 + digitVal c < 2 ^ (k + 1) := by rw [Nat.pow_succ]; omega
    have := bin_bound ds _ (k + 1) h.2 hstep
    simp only [List.foldl_cons, List.length_cons]
    rw [show k + (ds.length + 1) = k + 1 + ds.length by omega]
    exact this

theorem binary_shape (tok : String) (v w : Nat) (h : binary? tok = some (v, w)) :
    ∃ ds, tok.toList = '#' :: 'b' :: ds ∧ ds ≠ [] ∧ ds.all isBinDigit = true ∧
      v = ds.foldl (fun acc c => acc * 2 + digitVal c) 0 ∧ w = ds.length := by
  unfold binary? at h
  split at h
  · next hb =>
    unfold isBinaryChars at hb
    split at hb
    · next ds heq =>
      simp only [Bool.and_eq_true, Bool.not_eq_true', List.isEmpty_eq_false_iff] at hb
      simp only [heq, List.drop_succ_cons, List.drop_zero, Option.some.injEq, Prod.mk.injEq] at h
      exact ⟨ds, heq, hb.1, hb.2, h.1.symm, h.2.symm⟩
    · cases hb
  · cases h

theorem literal_binary (ia : Option Bool) (lone : Bool) (tok : String) (v w : Nat) (h : binary? tok = some (v, w)) :
    pyTok tok = tok ∧ litHead tok = true ∧ literal ia lone tok = .ok (.term (Term.bvc v w)) ∧ 0 < w ∧ v < 2 ^ w := by
  obtain ⟨ds, hl, hne, hall, hv, hw⟩ := binary_shape tok v w h
  have hwpos : 0 < w := by
    rw [hw]; cases ds with | nil => exact absurd rfl hne | cons _ _ => simp
  have hbound : v < 2 ^ w := by
    have := bin_bound ds 0 0 hall (by decide)
    rw [Nat.zero_add] at this
    rw [hv, hw]; exact this
  have hbe : ds.isEmpty = false := by cases ds with | nil => exact absurd rfl hne | cons _ _ => rfl
  refine ⟨pyTok_of_head tok '#' _ hl (by decide), ?_, ?_, hwpos, hbound⟩
  · simp [litHead, hl]
  · unfold literal
    rw [hl]
    simp only [binValue_fold ds 0 hall, hbe, Bool.false_eq_true, if_false]
    rw [← hv, ← hw]
    exact literal_of_BV v w hwpos hbound

/-! ### hexadecimal -/

theorem digit_toNat_le {c : Char} (h : isDigit c = true) : c.toNat ≤ 57 := by
  simp only [isDigit, Bool.and_eq_true, decide_eq_true_eq] at h
  have := h.2
  rw [Char.le_def, UInt32.le_iff_toNat_le] at this
  exact this

theorem hexDigitVal_lt {c : Char} (h : isHexDigit c = true) : hexDigitVal c < 16 := by
  simp only [isHexDigit, Bool.or_eq_true] at h
  by_cases hd : isDigit c = true
  · have := digit_toNat_le hd
    simp only [hexDigitVal, hd, if_true]
    have : '0'.toNat = 48 := by decide
    omega
  · rcases h with h | h
    · exact absurd h hd
    · simp only [hexLetters, List.contains_iff_mem, List.mem_cons, List.not_mem_nil, or_false] at h
      rcases h with h | h | h | h | h | h | h | h | h | h | h | h <;> subst h <;> decide

theorem hex_bound : ∀ (ds : List Char) (acc k : Nat), ds.all isHexDigit = true → acc < 16 ^ k →
    ds.foldl (fun acc c => acc * 16 + hexDigitVal c) acc < 16 ^ (k + ds.length)
  | [], _, _, _, h => h
  | c :: ds, acc, k, h, hacc => by
    simp only [List.all_cons, Bool.and_eq_true] at h
    have hd := hexDigitVal_lt h.1
    have hstep : acc * 16 + hexDigitVal c < 16 ^ (k + 1) := by rw [Nat.pow_succ]; omega
    have := hex_bound ds _ (k + 1) h.2 hstep
    simp only [List.foldl_cons, List.length_cons]
    rw [show k + (ds.length + 1) = k + 1 + ds.length by omega]
    exact this

theorem hex_shape (tok : String) (v w : Nat) (h : hex? tok = some (v, w)) :
    ∃ ds, tok.toList = '#' :: 'x' :: ds ∧ ds ≠ [] ∧ ds.all isHexDigit = true ∧
      v = ds.foldl (fun acc c => acc * 16 + hexDigitVal c) 0 ∧ w = 4 * ds.length := by
  unfold hex? at h
  split at h
  · next hb =>
    unfold isHexChars at hb
    split at hb
    · next ds heq =>
      simp only [Bool.and_eq_true, Bool.not_eq_true', List.isEmpty_eq_false_iff] at hb
      simp only [heq, List.drop_succ_cons, List.drop_zero, Option.some.injEq, Prod.mk.injEq] at h
      exact ⟨ds, heq, hb.1, hb.2, h.1.symm, h.2.symm⟩
    · cases hb
  · cases h

theorem literal_hex (ia : Option Bool) (lone : Bool) (tok : String) (v w : Nat) (h : hex? tok = some (v, w)) :
    pyTok tok = tok ∧ litHead tok = true ∧ literal ia lone tok = .ok (.term (Term.bvc v w)) ∧ 0 < w ∧ v < 2 ^ w := by
  obtain ⟨ds, hl, hne, hall, hv, hw⟩ := hex_shape tok v w h
  have hwpos : 0 < w := by
    rw [hw]; cases ds with | nil => exact absurd rfl hne | cons _ _ => simp
  have hbound : v < 2 ^ w := by
    have := hex_bound ds 0 0 hall (by decide)
    rw [Nat.zero_add] at this
    rw [hv, hw, Nat.pow_mul]; exact this
  have hbe : ds.isEmpty = false := by cases ds with | nil => exact absurd rfl hne | cons _ _ => rfl
  refine ⟨pyTok_of_head tok '#' _ hl (by decide), ?_, ?_, hwpos, hbound⟩
  · simp [litHead, hl]
  · unfold literal
    rw [hl]
    simp only [hbe, hall, Bool.false_eq_true, if_false, if_true]
    rw [← hv, ← hw]
    exact literal_of_BV v w hwpos hbound

/-! ## `(_ bvN w)` -/

theorem bvLit_shape (lit : String) (v : Nat) (h : Std.bvLiteral? lit = some v) :
    ∃ ds, lit.toList = 'b' :: 'v' :: ds ∧ isNumeralChars ds = true ∧ v = natOfDigits ds := by
  unfold Std.bvLiteral? at h
  split at h
  · next ds heq =>
    split at h
    · next hn => simp only [Option.some.injEq] at h; exact ⟨ds, heq, hn, h.symm⟩
    · cases h
  · cases h

theorem ne_of_head {s : String} {c : Char} {cs : List Char} (h : s.toList = c :: cs) (t : String)
    (ht : t.toList.head? ≠ some c) : (s == t) = false := by
  apply beq_eq_false_iff_ne.2
  intro e; subst e; rw [h] at ht; exact ht rfl

/-- pySMT on `(_ bvN k)`, `N` and `k` numerals of the standard: the manager's `BV(N, k)` -/
theorem underscore_bv (lit w : String) (v k : Nat) (hl : Std.bvLiteral? lit = some v) (hw : numeral? w = some k) :
    underscore [.atom lit, .atom w] = (liftMk (Mk.BV (v : Int) k)).map Val.term := by
  obtain ⟨ds, hlist, hnum, hv⟩ := bvLit_shape lit v hl
  have hpt : pyTok lit = lit := pyTok_of_head lit 'b' _ hlist (by decide)
  have hsw : lit.startsWith "bv" = true := by
    rw [String.startsWith_string_iff, hlist]
    exact ⟨ds, rfl⟩
  have hdrop : (lit.drop 2).toString.toList = ds := by
    show (lit.drop 2).copy.toList = ds
    rw [String.toList_copy_drop, hlist]; rfl
  obtain ⟨hne, hall⟩ := numeral_digits hnum
  have hint : pyInt? (lit.drop 2).toString = some (v : Int) := by
    rw [hv, ← hdrop]
    exact pyInt_digits _ (by rw [hdrop]; exact hne) (by rw [hdrop]; exact hall)
  have hk := pyInt_numeral w k hw
  have hk0 : ¬ ((k : Int) < 0) := by omega
  unfold underscore
  simp only [hpt, ne_of_head hlist "extract" (by decide), ne_of_head hlist "zero_extend" (by decide),
    ne_of_head hlist "sign_extend" (by decide), ne_of_head hlist "repeat" (by decide),
    ne_of_head hlist "rotate_left" (by decide), ne_of_head hlist "rotate_right" (by decide),
    Bool.false_eq_true, if_false, hsw, if_true, hint, hk]
  simp [hk0, bind, Except.bind]

/-- **`(_ bvN k)`**: when the standard reads it (as the constant `N mod 2^k` of width `k > 0`), pySMT builds the same
constant if `N < 2^k`, and otherwise raises `PysmtValueError` (the standard reduces modulo `2^k`; pySMT refuses). -/
theorem underscore_bvLit (lit w : String) (t : Term) (ty : Ty)
    (h : Std.bvLitTerm [.atom lit, .atom w] = .ok (t, ty)) :
    ∃ v k, Std.bvLiteral? lit = some v ∧ numeral? w = some k ∧ 0 < k ∧ t = Term.bvc (v % 2 ^ k) k ∧ ty = .bv k ∧
      (v < 2 ^ k → t = Term.bvc v k ∧ underscore [.atom lit, .atom w] = .ok (.term t)) ∧
      (¬ v < 2 ^ k → underscore [.atom lit, .atom w] = .error .value) := by
  simp only [Std.bvLitTerm] at h
  cases hv : Std.bvLiteral? lit with
  | none => rw [hv] at h; cases h
  | some v =>
    cases hk : numeral? w with
    | none => rw [hv, hk] at h; cases h
    | some k =>
      rw [hv, hk] at h
      simp only at h
      split at h
      · next hpos =>
        simp only [Except.ok.injEq, Prod.mk.injEq] at h
        obtain ⟨ht, hty⟩ := h
        refine ⟨v, k, rfl, rfl, hpos, ht.symm, hty.symm, ?_, ?_⟩
        · intro hlt
          have : t = Term.bvc v k := by rw [← ht, Nat.mod_eq_of_lt hlt]
          refine ⟨this, ?_⟩
          rw [underscore_bv lit w v k hv hk, this]
          exact literal_of_BV v k hpos hlt
        · intro hge
          rw [underscore_bv lit w v k hv hk]
          have h0 : k ≠ 0 := by omega
          have h1 : ¬ ((v : Int) < 0) := by omega
          have h2 : (v : Int) ≥ (2 : Int) ^ k := by
            have : ((2 ^ k : Nat) : Int) ≤ ((v : Nat) : Int) := Int.ofNat_le.mpr (Nat.le_of_not_lt hge)
            rw [Int.natCast_pow] at this
            exact this
          simp only [Mk.BV, h0, h1, h2, if_false, if_true]
          rfl
      · cases h

end PySMT.Parser.Lit
