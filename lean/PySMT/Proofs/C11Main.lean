import PySMT.Proofs.SimpSorts
import PySMT.Proofs.C11Shape
import PySMT.Proofs.C11Ack
import PySMT.Proofs.C11Fresh
/-!
# C11 — final statements (in terms of `eval … = .b true`), and their instances for the
definition-variable / constant tables produced by the model of `new_fresh_symbol`.
-/
namespace PySMT.C11.Proofs
open PySMT.CNF

/-- hypotheses about the definition symbols: `u` inverts `key` on the sub-formulas that receive a
symbol (so `key` is injective there) and no symbol of the input is a definition symbol -/
structure KeysFresh (E : Env) (u : Sym → Option Term) (t : Term) : Prop where
  inv   : ∀ h ∈ t.subterms, wantsKey h = true → u (E.key h) = some h
  fresh : ∀ s ∈ t.fv, u s = none

theorem KeysFresh.notFree {E : Env} {u : Sym → Option Term} {t : Term} (H : KeysFresh E u t) :
    ∀ h ∈ t.subterms, wantsKey h = true → E.key h ∉ t.fv := by
  intro h hh hw hmem
  have := H.inv h hh hw
  rw [H.fresh _ hmem] at this
  cases this

theorem keysFresh_std (σ : Term → Term) (t : Term) : KeysFresh (stdEnv σ t) (unkey (keyTable t)) t :=
  ⟨(keyTable_spec t).1, (keyTable_spec t).2⟩

/-! ## CNFizer -/

theorem cnf_shape (E : Env) (hσ : SimpShape E.simp) (t : Term) (hwf : t.wf = true) (R : List Clause)
    (hR : CNF.convert E t = some R) : shapeClauses R = true :=
  convert_shape E hσ t hwf R hR

theorem cnf_complete (E : Env) (u : Sym → Option Term) (t : Term) (I : Interp) (R : List Clause)
    (hkeys : KeysFresh E u t) (hσ : SimpSound E.simp t I) (hR : CNF.convert E t = some R)
    (hI : eval I t = .b true) :
    eval (ext u I) (formulaOf R) = .b true ∧ SameOn t I (ext u I) :=
  ⟨(eval_formulaOf _ _).mpr (CNF.convert_complete E u I t R hkeys.inv hkeys.fresh hσ hR ((tv_iff _ _).mpr hI)),
   ext_sameOn I t hkeys.fresh⟩

theorem cnf_sound (E : Env) (u : Sym → Option Term) (t : Term) (J : Interp) (R : List Clause)
    (hkeys : KeysFresh E u t) (hs : SimpSym E.simp) (hσ : SimpSound E.simp t J)
    (hR : CNF.convert E t = some R) (hJ : eval J (formulaOf R) = .b true) : eval J t = .b true :=
  (tv_iff _ _).mp (CNF.convert_sound E hs t J R hkeys.notFree hσ hR ((eval_formulaOf _ _).mp hJ))

/-! ## PolarityCNFizer -/

theorem polCnf_shape (E : Env) (hσ : SimpShape E.simp) (t : Term) (hwf : t.wf = true) (hqf : t.isQF = true)
    (R : List Clause) (hR : PolCNF.convert E t = some R) : shapeClauses R = true :=
  PolCNF.convert_shape E hσ t hwf hqf R hR

theorem polCnf_complete (E : Env) (u : Sym → Option Term) (t : Term) (I : Interp) (R : List Clause)
    (hkeys : KeysFresh E u t) (hσ : SimpSound E.simp t I) (hR : PolCNF.convert E t = some R)
    (hI : eval I t = .b true) :
    eval (ext u I) (formulaOf R) = .b true ∧ SameOn t I (ext u I) :=
  ⟨(eval_formulaOf _ _).mpr (PolCNF.convert_complete E u I t R hkeys.inv hkeys.fresh hσ hR ((tv_iff _ _).mpr hI)),
   ext_sameOn I t hkeys.fresh⟩

theorem polCnf_sound (E : Env) (u : Sym → Option Term) (t : Term) (J : Interp) (R : List Clause)
    (hkeys : KeysFresh E u t) (hs : SimpSym E.simp) (hσ : SimpSound E.simp t J)
    (hR : PolCNF.convert E t = some R) (hJ : eval J (formulaOf R) = .b true) : eval J t = .b true :=
  (tv_iff _ _).mp (PolCNF.convert_sound E hs t J R hkeys.notFree hσ hR ((eval_formulaOf _ _).mp hJ))

/-! ## Ackermannization -/

open PySMT.Ackermann

/-- hypotheses about the fresh constants -/
structure ConstsFresh (E : Ackermann.Env) (u : Sym → Option Term) (t : Term) : Prop where
  inv   : ∀ a ∈ apps t, u (E.key a) = some a
  fresh : ∀ s ∈ t.fv, u s = none
  typed : KeyTyped E t

theorem constsFresh_std (t : Term) : ConstsFresh (Ackermann.stdEnv t) (unkey (constTable t)) t :=
  ⟨(constTable_spec t).1, (constTable_spec t).2.1, (constTable_spec t).2.2⟩

theorem ack_shape (E : Ackermann.Env) (t : Term) : noApp (ack E t) = true :=
  (noApp_iff _).mpr (ack_noApp E t)

theorem wf_subterm : (t : Term) → t.wf = true → ∀ h ∈ t.subterms, h.wf = true
  | .node op args p => by
    intro hwf h hh
    rcases subterms_cases hh with rfl | ⟨b, hb, hhb⟩
    · exact hwf
    · exact wf_subterm b (wf_args hwf b hb) h hhb

theorem ack_complete (E : Ackermann.Env) (u : Sym → Option Term) (t : Term) (I : Interp)
    (hwf : t.wf = true) (hqf : t.isQF = true) (hI : I.WF) (hconsts : ConstsFresh E u t)
    (ht : eval I t = .b true) :
    eval (extA u I) (ack E t) = .b true ∧ SameOn t I (extA u I) := by
  refine ⟨(tv_iff _ _).mp (ack_complete_core E u I t
    { wt := Term.wf_wt t hwf, qf := hqf, key := hconsts.inv, fresh := hconsts.fresh, keyTy := hconsts.typed,
      bool := fun x hx hty => eval_bool_of_wf (wf_subterm t hwf x hx) hty hI } ((tv_iff _ _).mpr ht)), ?_⟩
  refine ⟨?_, rfl, rfl, rfl, rfl⟩
  intro s hs
  simp only [extA, hconsts.fresh s hs]

theorem ack_sound (E : Ackermann.Env) (t : Term) (J : Interp)
    (hwf : t.wf = true) (hqf : t.isQF = true) (hJ : J.WF) (htyped : KeyTyped E t)
    (h : eval J (ack E t) = .b true) :
    eval (withFns J (recover E t J)) t = .b true :=
  (tv_iff _ _).mp (ack_sound_core E J t
    { wt := Term.wf_wt t hwf, qf := hqf, keyTy := htyped,
      boolKey := fun a _ hret => Val.hasSort_bool (by rw [← hret]; exact hJ.sym _),
      holds := (tv_iff _ _).mpr h })

/-- the recovered interpretation differs from `J` only in the functions -/
theorem ack_sound_same (E : Ackermann.Env) (t : Term) (J : Interp) :
    (withFns J (recover E t J)).sym = J.sym ∧ (withFns J (recover E t J)).dom = J.dom := ⟨rfl, rfl⟩

/-! ## helpers for the non-vacuity examples -/

theorem var_wf (n : String) (ty : Ty) : (Term.var n ty).wf = true ∧ (Term.var n ty).typeOf = some ty := by
  have hty : (Term.var n ty).typeOf = some ty := by
    simp only [Term.var, Term.sym, typeOf_node, List.map_nil, typeOfNode_symbol_eq, Sym.var, List.isEmpty_nil, if_true]
  refine ⟨Term.wf_node.mpr ⟨by simp, rfl, ?_⟩, hty⟩
  have := hty
  simp only [Term.var, Term.sym, typeOf_node] at this
  rw [this]; rfl

theorem node_wf {op : Op} {args : List Term} {p : Payload} {τ : Ty} (h1 : ∀ a ∈ args, a.wf = true)
    (h2 : op.shapeOK p args.length = true) (h3 : typeOfNode op p (args.map Term.typeOf) = some τ) :
    (Term.node op args p).wf = true ∧ (Term.node op args p).typeOf = some τ :=
  ⟨Term.wf_node.mpr ⟨h1, h2, by rw [h3]; rfl⟩, by rw [typeOf_node, h3]⟩

theorem defaultVal_hasSort : ∀ t : Ty, t.defaultVal.hasSort t = true := by
  intro t
  induction t with
  | bool | int | real | str => rfl
  | bv w => simp [Ty.defaultVal, Val.hasSort]; exact Nat.pow_pos (by decide)
  | array i e _ ihe => simp [Ty.defaultVal, Val.hasSort, ihe]
  | custom n => simp [Ty.defaultVal, Val.hasSort]

/-- every Boolean symbol true, everything else the default value of its sort -/
def allTrue : Interp :=
  { sym := fun s => if s.ret = .bool then .b true else s.ret.defaultVal,
    fn := fun f _ => if f.ret = .bool then .b true else f.ret.defaultVal,
    dom := fun t => [t.defaultVal], div0r := fun _ => 0, div0i := fun _ => 0 }

theorem allTrue_wf : allTrue.WF := by
  refine ⟨?_, ?_, fun t => by simp [allTrue], ?_⟩
  · intro s
    simp only [allTrue]
    split
    · next h => rw [h]; rfl
    · exact defaultVal_hasSort _
  · intro f _
    simp only [allTrue]
    split
    · next h => rw [h]; rfl
    · exact defaultVal_hasSort _
  · intro t v hv
    simp only [allTrue, List.mem_cons, List.mem_nil_iff, or_false] at hv
    subst hv
    exact defaultVal_hasSort t

end PySMT.C11.Proofs
