import PySMT.Proofs.SimpSorts
import PySMT.Proofs.C11Shape
import PySMT.Proofs.C11Ack
import PySMT.Proofs.C11Fresh
/-!
# C11 — final statements (in terms of `eval … = .b true`), and their instances for the
definition-variable / constant tables produced by the model of `new_fresh_symbol`.
-/
namespace PySMT.C11.Proofs
open PySMT.CNF

/-- hypotheses about the definition symbols: `u` inverts `key` on the nodes of the Boolean skeleton that receive a
symbol (so `key` is injective there), no symbol of the input is a definition symbol, and the definition symbols
are Boolean constant symbols -/
structure KeysFresh (E : Env) (u : Sym → Option Term) (t : Term) : Prop where
  inv   : ∀ h ∈ boolNodes t, wantsKey h = true → u (E.key h) = some h
  fresh : ∀ s ∈ t.fv, u s = none
  bool  : ∀ k g, u k = some g → k.params = [] ∧ k.ret = .bool

theorem KeysFresh.notFree {E : Env} {u : Sym → Option Term} {t : Term} (H : KeysFresh E u t) :
    ∀ h ∈ boolNodes t, wantsKey h = true → E.key h ∉ t.fv := by
  intro h hh hw hmem
  have := H.inv h hh hw
  rw [H.fresh _ hmem] at this
  cases this

/-- the manager knows the symbols of the input -/
def Knows (s : Supply) (t : Term) : Prop := ∀ x ∈ t.fv, x.name ∈ s.used

theorem knows_exact (t : Term) : Knows ⟨t.fv.map (·.name), 0⟩ t := fun x hx => List.mem_map.mpr ⟨x, hx, rfl⟩

/-- `CNFizer` in a manager in any state that knows the symbols of the input -/
theorem keysFresh_in (σ : Term → Term) (s : Supply) (t : Term) (hs : Knows s t) :
    KeysFresh (CNF.envIn σ s t) (unkey (CNF.keyTableIn s t)) t :=
  ⟨fun h hh hw => (keyTableIn_spec s t hs).1 h (boolNodes_subterms t h hh) hw, (keyTableIn_spec s t hs).2.1,
   (keyTableIn_spec s t hs).2.2⟩

/-- `PolarityCNFizer` in such a manager: its own supply (only the Boolean skeleton receives symbols) -/
theorem keysFresh_pol_in (σ : Term → Term) (s : Supply) (t : Term) (hs : Knows s t) :
    KeysFresh (PolCNF.envIn σ s t) (unkey (PolCNF.keyTableIn s t)) t :=
  ⟨(polKeyTableIn_spec s t hs).1, (polKeyTableIn_spec s t hs).2.1, (polKeyTableIn_spec s t hs).2.2⟩

theorem keysFresh_std (σ : Term → Term) (t : Term) : KeysFresh (stdEnv σ t) (unkey (keyTable t)) t :=
  keysFresh_in σ _ t (knows_exact t)

theorem keysFresh_pol_std (σ : Term → Term) (t : Term) :
    KeysFresh (PolCNF.stdEnv σ t) (unkey (PolCNF.keyTable t)) t :=
  keysFresh_pol_in σ _ t (knows_exact t)

theorem lookupKey_bool (tbl : List (Term × Sym)) (h : ∀ e ∈ tbl, e.2.params = [] ∧ e.2.ret = .bool) (g : Term) :
    (lookupKey tbl g).params = [] ∧ (lookupKey tbl g).ret = .bool := by
  unfold lookupKey
  cases hf : tbl.find? (fun e => e.1 == g) with
  | none => exact ⟨rfl, rfl⟩
  | some e => exact h e (List.mem_of_find?_eq_some hf)

theorem keyBool_in (σ : Term → Term) (s : Supply) (t : Term) : KeyBool (CNF.envIn σ s t) :=
  fun g => lookupKey_bool _ (assignKeys_bool fvName _ s) g

theorem keyBool_pol_in (σ : Term → Term) (s : Supply) (t : Term) : KeyBool (PolCNF.envIn σ s t) :=
  fun g => lookupKey_bool _ (assignKeys_bool fvName _ s) g

/-! ## well-formedness of the extended interpretation -/

theorem ext_wf {u : Sym → Option Term} {I : Interp} (hI : I.WF)
    (hb : ∀ k g, u k = some g → k.params = [] ∧ k.ret = .bool) : (ext u I).WF := by
  refine ⟨?_, hI.fn, hI.dom_ne, hI.dom_sort⟩
  intro s
  simp only [ext]
  cases hu : u s with
  | none => exact hI.sym s
  | some g => simp only; rw [(hb s g hu).2]; rfl

/-! ## CNFizer -/

theorem cnf_shape (E : Env) (hσ : SimpShape E.simp) (hkb : KeyBool E) (t : Term) (hwf : t.wf = true)
    (hty : t.typeOf = some .bool) (R : List Clause) (hR : CNF.convert E t = some R) :
    shapeClauses R = true ∧ shapeFormula (formulaOf R) = true :=
  ⟨convert_shape E hσ hkb t hwf hty R hR, shapeFormula_of_clauses R (convert_shape E hσ hkb t hwf hty R hR)⟩

theorem cnf_complete (E : Env) (u : Sym → Option Term) (t : Term) (I : Interp) (R : List Clause)
    (hkeys : KeysFresh E u t) (hσ : SimpSound E.simp t I) (hR : CNF.convert E t = some R)
    (hI : eval I t = .b true) :
    eval (ext u I) (formulaOf R) = .b true ∧ SameOn t I (ext u I) ∧ (I.WF → (ext u I).WF) :=
  ⟨(eval_formulaOf _ _).mpr (CNF.convert_complete E u I t R hkeys.inv hkeys.fresh hσ hR ((tv_iff _ _).mpr hI)),
   ext_sameOn I t hkeys.fresh, fun h => ext_wf h hkeys.bool⟩

theorem cnf_sound (E : Env) (u : Sym → Option Term) (t : Term) (J : Interp) (R : List Clause)
    (hkeys : KeysFresh E u t) (hs : SimpSym E.simp) (hσ : SimpSound E.simp t J)
    (hR : CNF.convert E t = some R) (hJ : eval J (formulaOf R) = .b true) : eval J t = .b true :=
  (tv_iff _ _).mp (CNF.convert_sound E hs t J R hkeys.notFree hσ hR ((eval_formulaOf _ _).mp hJ))

/-! ## PolarityCNFizer -/

theorem polCnf_shape (E : Env) (hσ : SimpShape E.simp) (hkb : KeyBool E) (t : Term) (hwf : t.wf = true)
    (hqf : t.isQF = true) (hty : t.typeOf = some .bool) (R : List Clause) (hR : PolCNF.convert E t = some R) :
    shapeClauses R = true ∧ shapeFormula (formulaOf R) = true :=
  ⟨PolCNF.convert_shape E hσ hkb t hwf hqf hty R hR,
   shapeFormula_of_clauses R (PolCNF.convert_shape E hσ hkb t hwf hqf hty R hR)⟩

theorem polCnf_complete (E : Env) (u : Sym → Option Term) (t : Term) (I : Interp) (R : List Clause)
    (hkeys : KeysFresh E u t) (hσ : SimpSound E.simp t I) (hR : PolCNF.convert E t = some R)
    (hI : eval I t = .b true) :
    eval (ext u I) (formulaOf R) = .b true ∧ SameOn t I (ext u I) ∧ (I.WF → (ext u I).WF) :=
  ⟨(eval_formulaOf _ _).mpr (PolCNF.convert_complete E u I t R hkeys.inv hkeys.fresh hσ hR ((tv_iff _ _).mpr hI)),
   ext_sameOn I t hkeys.fresh, fun h => ext_wf h hkeys.bool⟩

theorem polCnf_sound (E : Env) (u : Sym → Option Term) (t : Term) (J : Interp) (R : List Clause)
    (hkeys : KeysFresh E u t) (hs : SimpSym E.simp) (hσ : SimpSound E.simp t J)
    (hR : PolCNF.convert E t = some R) (hJ : eval J (formulaOf R) = .b true) : eval J t = .b true :=
  (tv_iff _ _).mp (PolCNF.convert_sound E hs t J R hkeys.notFree hσ hR ((eval_formulaOf _ _).mp hJ))

/-! ## Ackermannization -/

open PySMT.Ackermann

/-- hypotheses about the fresh constants: `u` inverts `key` on the applications of the input and maps nothing else
to an application, no symbol of the input is a fresh constant, the constant of an application has its sort -/
structure ConstsFresh (E : Ackermann.Env) (u : Sym → Option Term) (t : Term) : Prop where
  inv   : ∀ a ∈ apps t, u (E.key a) = some a
  fresh : ∀ s ∈ t.fv, u s = none
  typed : KeyTyped E t
  range : ∀ k a, u k = some a → a ∈ apps t ∧ E.key a = k

theorem constsFresh_in (s : Supply) (t : Term) (hs : Knows s t) :
    ConstsFresh (Ackermann.envIn s t) (unkey (constTableIn s t)) t :=
  ⟨(constTableIn_spec s t hs).1, (constTableIn_spec s t hs).2.1, (constTableIn_spec s t hs).2.2.1,
   (constTableIn_spec s t hs).2.2.2⟩

theorem constsFresh_std (t : Term) : ConstsFresh (Ackermann.stdEnv t) (unkey (constTable t)) t :=
  constsFresh_in _ t (knows_exact t)

theorem ack_shape (E : Ackermann.Env) (t : Term) : noApp (ack E t) = true :=
  (noApp_iff _).mpr (ack_noApp E t)

theorem wf_subterm : (t : Term) → t.wf = true → ∀ h ∈ t.subterms, h.wf = true
  | .node op args p => by
    intro hwf h hh
    rcases subterms_cases hh with rfl | ⟨b, hb, hhb⟩
    · exact hwf
    · exact wf_subterm b (wf_args hwf b hb) h hhb

theorem extA_wf {E : Ackermann.Env} {u : Sym → Option Term} {t : Term} {I : Interp} (hI : I.WF)
    (hwf : t.wf = true) (hc : ConstsFresh E u t) : (extA u I).WF := by
  refine ⟨?_, hI.fn, hI.dom_ne, hI.dom_sort⟩
  intro s
  simp only [extA]
  cases hu : u s with
  | none => exact hI.sym s
  | some a =>
    simp only
    obtain ⟨ha, hk⟩ := hc.range s a hu
    have hawf := wf_subterm t hwf a (apps_subterms t a ha)
    have hop := apps_op t a ha
    cases a with
    | node op args p =>
      simp only [Term.op] at hop
      subst hop
      obtain ⟨f, rfl, _, _, hty⟩ := wt_function (Term.wf_wt _ hawf)
      have hret : s.ret = f.ret := by rw [← hk, (hc.typed _ ha).2]; rfl
      rw [hret]
      exact eval_hasSort _ hawf _ hty I hI

theorem recover_wf {E : Ackermann.Env} {t : Term} {J : Interp} (hJ : J.WF) (hwf : t.wf = true)
    (htyped : KeyTyped E t) : (withFns J (recover E t J)).WF := by
  refine ⟨hJ.sym, ?_, hJ.dom_ne, hJ.dom_sort⟩
  intro f vs
  simp only [withFns, recover]
  cases hfind : (appsD t).find? (fun a => a.payload == .sym f &&
      a.args.map (fun x => eval J (sub E x)) == vs) with
  | none => exact hJ.fn f vs
  | some a =>
    simp only
    have hp := List.find?_some hfind
    have ha : a ∈ apps t := (mem_dedup _ _).mp (List.mem_of_find?_eq_some hfind)
    simp only [Bool.and_eq_true, beq_iff_eq] at hp
    have hop := apps_op t a ha
    cases a with
    | node op args p =>
      simp only [Term.op] at hop
      simp only [Term.payload] at hp
      subst hop
      have hpp : p = .sym f := hp.1
      subst hpp
      have := hJ.sym (E.key (Term.node .function args (.sym f)))
      rw [(htyped _ ha).2] at this
      exact this

theorem ack_complete (E : Ackermann.Env) (u : Sym → Option Term) (t : Term) (I : Interp)
    (hwf : t.wf = true) (hqf : t.isQF = true) (hI : I.WF) (hconsts : ConstsFresh E u t)
    (ht : eval I t = .b true) :
    eval (extA u I) (ack E t) = .b true ∧ SameOn t I (extA u I) ∧ (extA u I).WF := by
  refine ⟨(tv_iff _ _).mp (ack_complete_core E u I t
    { wt := Term.wf_wt t hwf, qf := hqf, key := hconsts.inv, fresh := hconsts.fresh, keyTy := hconsts.typed,
      bool := fun x hx hty => eval_bool_of_wf (wf_subterm t hwf x hx) hty hI } ((tv_iff _ _).mpr ht)), ?_,
    extA_wf hI hwf hconsts⟩
  refine ⟨?_, rfl, rfl, rfl, rfl⟩
  intro s hs
  simp only [extA, hconsts.fresh s hs]

theorem ack_sound (E : Ackermann.Env) (t : Term) (J : Interp)
    (hwf : t.wf = true) (hqf : t.isQF = true) (hJ : J.WF) (htyped : KeyTyped E t)
    (h : eval J (ack E t) = .b true) :
    eval (withFns J (recover E t J)) t = .b true ∧ (withFns J (recover E t J)).WF :=
  ⟨(tv_iff _ _).mp (ack_sound_core E J t
    { wt := Term.wf_wt t hwf, qf := hqf, keyTy := htyped,
      boolKey := fun a _ hret => Val.hasSort_bool (by rw [← hret]; exact hJ.sym _),
      holds := (tv_iff _ _).mpr h }), recover_wf hJ hwf htyped⟩

/-- the recovered interpretation differs from `J` only in the functions -/
theorem ack_sound_same (E : Ackermann.Env) (t : Term) (J : Interp) :
    (withFns J (recover E t J)).sym = J.sym ∧ (withFns J (recover E t J)).dom = J.dom := ⟨rfl, rfl⟩

/-! ## helpers for the non-vacuity examples -/

theorem var_wf (n : String) (ty : Ty) : (Term.var n ty).wf = true ∧ (Term.var n ty).typeOf = some ty := by
  have hty : (Term.var n ty).typeOf = some ty := by
    simp only [Term.var, Term.sym, typeOf_node, List.map_nil, typeOfNode_symbol_eq, Sym.var, List.isEmpty_nil, if_true]
  refine ⟨Term.wf_node.mpr ⟨by simp, rfl, ?_⟩, hty⟩
  have := hty
  simp only [Term.var, Term.sym, typeOf_node] at this
  rw [this]; rfl

theorem node_wf {op : Op} {args : List Term} {p : Payload} {τ : Ty} (h1 : ∀ a ∈ args, a.wf = true)
    (h2 : op.shapeOK p args.length = true) (h3 : typeOfNode op p (args.map Term.typeOf) = some τ) :
    (Term.node op args p).wf = true ∧ (Term.node op args p).typeOf = some τ :=
  ⟨Term.wf_node.mpr ⟨h1, h2, by rw [h3]; rfl⟩, by rw [typeOf_node, h3]⟩

theorem defaultVal_hasSort : ∀ t : Ty, t.defaultVal.hasSort t = true := by
  intro t
  induction t with
  | bool | int | real | str => rfl
  | bv w => simp [Ty.defaultVal, Val.hasSort]; exact Nat.pow_pos (by decide)
  | array i e _ ihe => simp [Ty.defaultVal, Val.hasSort, ihe]
  | custom n => simp [Ty.defaultVal, Val.hasSort]

/-- every Boolean symbol true, everything else the default value of its sort -/
def allTrue : Interp :=
  { sym := fun s => if s.ret = .bool then .b true else s.ret.defaultVal,
    fn := fun f _ => if f.ret = .bool then .b true else f.ret.defaultVal,
    dom := fun t => [t.defaultVal], div0r := fun _ => 0, div0i := fun _ => 0 }

theorem allTrue_wf : allTrue.WF := by
  refine ⟨?_, ?_, fun t => by simp [allTrue], ?_⟩
  · intro s
    simp only [allTrue]
    split
    · next h => rw [h]; rfl
    · exact defaultVal_hasSort _
  · intro f _
    simp only [allTrue]
    split
    · next h => rw [h]; rfl
    · exact defaultVal_hasSort _
  · intro t v hv
    simp only [allTrue, List.mem_cons, List.mem_nil_iff, or_false] at hv
    subst hv
    exact defaultVal_hasSort t

end PySMT.C11.Proofs
