import PySMT.Proofs.C18Search
/-!
# C18: a concrete oracle satisfying `OracleSpec` (used by the non-vacuity examples of `Props/C18`)
-/
namespace PySMT.Opt

/-- a concrete oracle over the models `0 … 5` of one variable, for an arbitrary valuation of the
    goal terms: the first model that satisfies all constraints -/
def exOracle (val : Nat → Int → Val) : Oracle Int := fun _ cs =>
  ([0, 1, 2, 3, 4, 5] : List Int).find? (fun m => cs.all (fun c => c.holds val m))

theorem exOracle_spec (val : Nat → Int → Val) :
    OracleSpec (fun m : Int => m ∈ ([0, 1, 2, 3, 4, 5] : List Int)) val (exOracle val) := by
  intro n cs
  refine ⟨?_, ?_⟩
  · intro m hm
    have h1 := List.find?_some hm
    have h2 := List.mem_of_find?_eq_some hm
    exact ⟨h2, fun c hc => (List.all_eq_true.1 h1) c hc⟩
  · intro hn m hm hall
    have := List.find?_eq_none.1 hn m hm
    exact this (List.all_eq_true.2 hall)

/-- integer goal terms -/
def intVal (f : Nat → Int → Int) : Nat → Int → Val := fun i m => .int (f i m)

/-- a 3-bit goal term: the variable itself as a bit-vector -/
def bv3Val : Nat → Int → Val := fun _ m => .bv 3 (BitVec.ofInt 3 m)

end PySMT.Opt
