import PySMT.Proofs.C18Search
/-!
# C18: a concrete oracle satisfying `OracleSpec` (used by the non-vacuity examples of `Props/C18`)
-/
namespace PySMT.Opt

/-- a concrete oracle over the models `0 … 5` of `x` with objective `x` -/
def exOracle (obj : Nat → Int → Int) : Oracle Int := fun _ cs =>
  ([0, 1, 2, 3, 4, 5] : List Int).find? (fun m => cs.all (fun c => c.holds obj m))

theorem exOracle_spec (obj : Nat → Int → Int) :
    OracleSpec (fun m : Int => m ∈ ([0, 1, 2, 3, 4, 5] : List Int)) obj (exOracle obj) := by
  intro n cs
  refine ⟨?_, ?_⟩
  · intro m hm
    have h1 := List.find?_some hm
    have h2 := List.mem_of_find?_eq_some hm
    exact ⟨h2, fun c hc => (List.all_eq_true.1 h1) c hc⟩
  · intro hn m hm hall
    have := List.find?_eq_none.1 hn m hm
    exact this (List.all_eq_true.2 hall)

end PySMT.Opt
