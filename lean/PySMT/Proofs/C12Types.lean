import PySMT.Proofs.C12Basic
/-!
# C12, part 3: the set of sorts

* `Ty.subsorts`, `nodeSorts`, `sortsDef`: the sorts written in a formula (of symbols, bound variables,
  function signatures, constants, array values), closed under sub-sorts.
* `mem_expandTypes`, `expandTypes_good`: `expand_types` returns the closure under sub-sorts, without
  duplicates, every sort after its argument sorts.
* `mem_typesO`: `get_types` = the definition, as a set (well-typed terms).
-/
namespace PySMT.Oracles
open PySMT.Gen.Operators PySMT.Analyses

def Ty.tsize : Ty → Nat
  | .array i e => 1 + Ty.tsize i + Ty.tsize e
  | _ => 1

theorem self_mem_subsorts (t : Ty) : t ∈ Ty.subsorts t := by
  cases t <;> simp [Ty.subsorts]

theorem subsorts_size : (t : Ty) → ∀ x ∈ Ty.subsorts t, Ty.tsize x ≤ Ty.tsize t
  | .array i e, x, hx => by
    simp only [Ty.subsorts, List.mem_cons, List.mem_append] at hx
    rcases hx with rfl | hx | hx
    · exact Nat.le_refl _
    · have := subsorts_size i x hx; simp only [Ty.tsize]; omega
    · have := subsorts_size e x hx; simp only [Ty.tsize]; omega
  | .bool, x, hx | .int, x, hx | .real, x, hx | .str, x, hx | .bv _, x, hx | .custom _, x, hx => by
    simp only [Ty.subsorts, List.mem_singleton] at hx
    subst hx; exact Nat.le_refl _

theorem subsorts_trans : (t : Ty) → ∀ x ∈ Ty.subsorts t, ∀ y ∈ Ty.subsorts x, y ∈ Ty.subsorts t
  | .array i e, x, hx, y, hy => by
    simp only [Ty.subsorts, List.mem_cons, List.mem_append] at hx
    rcases hx with rfl | hx | hx
    · exact hy
    · simp only [Ty.subsorts, List.mem_cons, List.mem_append]
      exact .inr (.inl (subsorts_trans i x hx y hy))
    · simp only [Ty.subsorts, List.mem_cons, List.mem_append]
      exact .inr (.inr (subsorts_trans e x hx y hy))
  | .bool, x, hx, y, hy | .int, x, hx, y, hy | .real, x, hx, y, hy | .str, x, hx, y, hy
  | .bv _, x, hx, y, hy | .custom _, x, hx, y, hy => by
    simp only [Ty.subsorts, List.mem_singleton] at hx
    subst hx; exact hy

/-! ## `expand_types` -/

theorem good_closed {l : List Ty} (h : Good l) : ∀ x ∈ l, ∀ y ∈ Ty.subsorts x, y ∈ l := by
  induction h with
  | nil => intro x hx; simp at hx
  | snoc hl hnot hargs ih =>
    rename_i l t
    intro x hx y hy
    rcases List.mem_append.mp hx with hx | hx
    · exact List.mem_append_left _ (ih x hx y hy)
    · simp only [List.mem_singleton] at hx
      subst hx
      cases x
      case array i e =>
        simp only [Ty.subsorts, List.mem_cons, List.mem_append] at hy
        rcases hy with rfl | hy | hy
        · simp
        · exact List.mem_append_left _ (ih i (hargs i (by simp [Ty.targs])) y hy)
        · exact List.mem_append_left _ (ih e (hargs e (by simp [Ty.targs])) y hy)
      all_goals
        simp only [Ty.subsorts, List.mem_singleton] at hy
        subst hy; simp

theorem visitTy_spec : (t : Ty) → ∀ (acc : List Ty), Good acc →
    Good (visitTy t acc) ∧ ∀ x, x ∈ visitTy t acc ↔ x ∈ acc ∨ x ∈ Ty.subsorts t
  | .array i e, acc, hg => by
    simp only [visitTy]
    split
    · next hin =>
      refine ⟨hg, fun x => ⟨.inl, ?_⟩⟩
      rintro (h | h)
      · exact h
      · exact good_closed hg _ hin x h
    · next hnot =>
      obtain ⟨g1, m1⟩ := visitTy_spec i acc hg
      obtain ⟨g2, m2⟩ := visitTy_spec e (visitTy i acc) g1
      have hi : i ∈ visitTy e (visitTy i acc) := (m2 i).mpr (.inl ((m1 i).mpr (.inr (self_mem_subsorts i))))
      have he : e ∈ visitTy e (visitTy i acc) := (m2 e).mpr (.inr (self_mem_subsorts e))
      have hfresh : Ty.array i e ∉ visitTy e (visitTy i acc) := by
        intro h
        rcases (m2 _).mp h with h | h
        · rcases (m1 _).mp h with h | h
          · exact hnot h
          · have := subsorts_size i _ h; simp only [Ty.tsize] at this; omega
        · have := subsorts_size e _ h; simp only [Ty.tsize] at this; omega
      refine ⟨Good.snoc g2 hfresh ?_, ?_⟩
      · intro y hy
        simp only [Ty.targs, List.mem_cons, List.mem_nil_iff, or_false] at hy
        rcases hy with rfl | rfl
        · exact hi
        · exact he
      · intro x
        simp only [List.mem_append, m2, m1, Ty.subsorts, List.mem_cons, List.mem_nil_iff, or_false]
        constructor
        · rintro (((h | h) | h) | h)
          · exact .inl h
          · exact .inr (.inr (.inl h))
          · exact .inr (.inr (.inr h))
          · exact .inr (.inl h)
        · rintro (h | h | h | h)
          · exact .inl (.inl (.inl h))
          · exact .inr h
          · exact .inl (.inl (.inr h))
          · exact .inl (.inr h)
  | .bool, acc, hg | .int, acc, hg | .real, acc, hg | .str, acc, hg | .bv _, acc, hg | .custom _, acc, hg => by
    simp only [visitTy, Ty.subsorts, List.mem_singleton]
    split
    · next hin =>
      refine ⟨hg, fun x => ⟨.inl, ?_⟩⟩
      rintro (h | rfl)
      · exact h
      · exact hin
    · next hnot =>
      refine ⟨Good.snoc hg hnot (by simp [Ty.targs]), fun x => ?_⟩
      simp

theorem foldl_visit_spec : ∀ (ts acc : List Ty), Good acc →
    Good (ts.foldl (fun acc t => visitTy t acc) acc) ∧
    ∀ x, x ∈ ts.foldl (fun acc t => visitTy t acc) acc ↔ x ∈ acc ∨ ∃ σ ∈ ts, x ∈ Ty.subsorts σ
  | [], acc, hg => ⟨hg, fun x => by simp⟩
  | t :: ts, acc, hg => by
    obtain ⟨g1, m1⟩ := visitTy_spec t acc hg
    obtain ⟨g2, m2⟩ := foldl_visit_spec ts (visitTy t acc) g1
    refine ⟨g2, fun x => ?_⟩
    simp only [List.foldl_cons, m2, m1, List.mem_cons, exists_eq_or_imp]
    constructor
    · rintro ((h | h) | h)
      · exact .inl h
      · exact .inr (.inl h)
      · exact .inr (.inr h)
    · rintro (h | h | h)
      · exact .inl (.inl h)
      · exact .inl (.inr h)
      · exact .inr h

/-- `expand_types` returns exactly the closure of its input under sub-sorts … -/
theorem mem_expandTypes (ts : List Ty) (x : Ty) : x ∈ expandTypes ts ↔ ∃ σ ∈ ts, x ∈ Ty.subsorts σ := by
  have := (foldl_visit_spec ts [] Good.nil).2 x
  simpa [expandTypes] using this

/-- … as a `Good` list: … -/
theorem expandTypes_good (ts : List Ty) : Good (expandTypes ts) :=
  (foldl_visit_spec ts [] Good.nil).1

/-- … without duplicates … -/
theorem good_nodup {l : List Ty} (h : Good l) : l.Nodup := by
  induction h with
  | nil => exact List.nodup_nil
  | snoc hl hnot _ ih =>
    rw [List.nodup_append]
    refine ⟨ih, by simp, ?_⟩
    intro a ha b hb
    simp only [List.mem_singleton] at hb
    subst hb
    intro hab; subst hab; exact hnot ha

/-- … and every sort is preceded by its argument sorts ("simpler types first") -/
theorem good_order {l : List Ty} (h : Good l) :
    ∀ (k : Nat) (hk : k < l.length), ∀ y ∈ Ty.targs l[k], y ∈ l.take k := by
  induction h with
  | nil => intro k hk; simp at hk
  | snoc hl hnot hargs ih =>
    rename_i l t
    intro k hk y hy
    by_cases hlt : k < l.length
    · rw [List.getElem_append_left hlt] at hy
      rw [List.take_append_of_le_length (Nat.le_of_lt hlt)]
      exact ih k hlt y hy
    · have hkeq : k = l.length := by simp at hk; omega
      subst hkeq
      rw [List.getElem_append_right (Nat.le_refl _)] at hy
      simp only [Nat.sub_self, List.getElem_cons_zero] at hy
      simp only [List.take_left']
      exact hargs y hy

/-! ## the walk -/

theorem typesWalk_node (op args p) : typesWalk (.node op args p) =
    typesNode op p (Term.node op args p).typeOf (args.map typesWalk) := by
  rw [typesWalk.eq_def]

theorem mem_typesWalk : (t : Term) → t.wt = true → ∀ τ, τ ∈ typesWalk t ↔ τ ∈ sortsWritten t
  | .node op args p, hwt, τ => by
    have ih : ∀ a ∈ args, ∀ τ, τ ∈ typesWalk a ↔ τ ∈ sortsWritten a :=
      fun a ha => mem_typesWalk a (Term.wt_child hwt a ha)
    have hty := Term.wt_typeOf hwt
    have hflat : τ ∈ (args.map typesWalk).flatten ↔ ∃ a ∈ args, τ ∈ sortsWritten a := by
      simp only [List.mem_flatten, List.mem_map]
      constructor
      · rintro ⟨l, ⟨a, ha, rfl⟩, h⟩; exact ⟨a, ha, (ih a ha τ).mp h⟩
      · rintro ⟨a, ha, h⟩; exact ⟨_, ⟨a, ha, rfl⟩, (ih a ha τ).mpr h⟩
    have hrhs : τ ∈ sortsWritten (.node op args p) ↔
        τ ∈ nodeSorts (.node op args p) ∨ ∃ a ∈ args, τ ∈ sortsWritten a := by
      simp only [sortsWritten, subterms_node, List.flatMap_cons, List.mem_append, List.mem_flatMap,
        List.mem_flatten, List.mem_map]
      constructor
      · rintro (h | ⟨s, ⟨l, ⟨a, ha, rfl⟩, hs⟩, h⟩)
        · exact .inl h
        · exact .inr ⟨a, ha, s, hs, h⟩
      · rintro (h | ⟨a, ha, s, hs, h⟩)
        · exact .inl h
        · exact .inr ⟨s, ⟨_, ⟨a, ha, rfl⟩, hs⟩, h⟩
    rw [typesWalk_node, hrhs]
    by_cases hsym : op = .symbol
    · subst hsym
      obtain ⟨hts, s, rfl, _⟩ := typeOfNode_symbol hty
      have : args = [] := by simpa using hts
      subst this
      simp [typesNode, nodeSorts]
    by_cases hfun : op = .function
    · subst hfun
      obtain ⟨f, rfl⟩ := typeOfNode_function_payload hty
      have e1 : typesNode .function (.sym f) (Term.node .function args (.sym f)).typeOf (args.map typesWalk)
          = f.ret :: (f.params ++ (args.map typesWalk).flatten) := rfl
      have e2 : nodeSorts (.node .function args (.sym f)) = f.ret :: f.params := rfl
      rw [e1, e2, List.mem_cons, List.mem_append, hflat, List.mem_cons, or_assoc]
    have hop : (op == .symbol) = false := by simpa using hsym
    have hop2 : (op == .function) = false := by simpa using hfun
    by_cases hq : op.isQuantifier = true
    · obtain ⟨b, rfl⟩ := Term.wt_quant_args hwt hq
      have hbb := ih b (by simp) τ
      cases op <;> simp [Op.isQuantifier] at hq
      · cases p <;> simp [typesNode, nodeSorts, quantifiers, hbb]
      · cases p <;> simp [typesNode, nodeSorts, quantifiers, hbb]
    have hq' : op.isQuantifier = false := by simpa using hq
    by_cases hc : op.isConstant = true
    · have : args.map Term.typeOf = [] := typeOfNode_const_args hc hty
      have : args = [] := by simpa using this
      subst this
      cases op <;> simp [Op.isConstant] at hc
      case realConst =>
        have e : ∀ ty, typesNode .realConst p ty (List.map typesWalk []) = nodeSorts (.node .realConst [] p) :=
          fun _ => rfl
        rw [e]; simp
      case boolConst =>
        have e : ∀ ty, typesNode .boolConst p ty (List.map typesWalk []) = nodeSorts (.node .boolConst [] p) :=
          fun _ => rfl
        rw [e]; simp
      case intConst =>
        have e : ∀ ty, typesNode .intConst p ty (List.map typesWalk []) = nodeSorts (.node .intConst [] p) :=
          fun _ => rfl
        rw [e]; simp
      case strConst =>
        have e : ∀ ty, typesNode .strConst p ty (List.map typesWalk []) = nodeSorts (.node .strConst [] p) :=
          fun _ => rfl
        rw [e]; simp
      case algebraicConst =>
        have e : ∀ ty, typesNode .algebraicConst p ty (List.map typesWalk []) =
            nodeSorts (.node .algebraicConst [] p) := fun _ => rfl
        rw [e]; simp
      case bvConst =>
        have e : ∀ ty, typesNode .bvConst p ty (List.map typesWalk []) = nodeSorts (.node .bvConst [] p) := by
          intro ty; cases p <;> rfl
        rw [e]; simp
    have hc' : op.isConstant = false := by simpa using hc
    by_cases hav : op = .arrayValue
    · subst hav
      have e1 : typesNode .arrayValue p (Term.node .arrayValue args p).typeOf (args.map typesWalk)
          = (Term.node .arrayValue args p).typeOf.toList ++ (args.map typesWalk).flatten := rfl
      have e2 : nodeSorts (.node .arrayValue args p) = (Term.node .arrayValue args p).typeOf.toList := rfl
      rw [e1, e2, List.mem_append, hflat]
    have hav' : (op == .arrayValue) = false := by simpa using hav
    have hns : nodeSorts (.node op args p) = [] := by
      cases op
      all_goals try (exfalso; exact hsym rfl)
      all_goals try (exfalso; exact hfun rfl)
      all_goals try (exfalso; exact hav rfl)
      all_goals try (simp [Op.isQuantifier] at hq'; done)
      all_goals try (simp [Op.isConstant] at hc'; done)
      all_goals rfl
    simp only [typesNode, hop, hop2, quantifiers_contains, hq', constants_contains, hc', hav', hns,
      Bool.false_eq_true, if_false, hflat, List.not_mem_nil, false_or]

/-- **`types_eq_def`**: on a well-typed term `get_types` returns exactly the sorts written in the
formula closed under sub-sorts … -/
theorem mem_typesO (t : Term) (hwt : t.wt = true) (τ : Ty) :
    τ ∈ typesO t ↔ ∃ σ ∈ sortsWritten t, τ ∈ Ty.subsorts σ := by
  simp only [typesO, mem_expandTypes]
  constructor
  · rintro ⟨σ, hσ, h⟩; exact ⟨σ, (mem_typesWalk t hwt σ).mp hσ, h⟩
  · rintro ⟨σ, hσ, h⟩; exact ⟨σ, (mem_typesWalk t hwt σ).mpr hσ, h⟩

/-- … without duplicates, simpler sorts first -/
theorem typesO_good (t : Term) : Good (typesO t) := expandTypes_good _

end PySMT.Oracles
