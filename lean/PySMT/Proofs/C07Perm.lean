import PySMT.Proofs.C07Decls
/-!
# C07: the order of the declarations does not matter

`smtlibscript_from_formula` iterates Python sets (`get_free_variables()`, the result of `get_types`): the order in which
the `declare-sort` / `declare-fun` commands are emitted is a hash order. `decls_any_order`: for EVERY permutation of the
sort declarations and EVERY permutation of the symbol declarations the script is accepted, with the same live assertion.
-/
namespace PySMT.Printer
open PySMT.Std PySMT.Sexp

/-! ## look-up in permuted declaration lists -/

theorem find?_perm {α} (p : α → Bool) {l1 l2 : List α} (hp : l1.Perm l2)
    (hu : l1.Pairwise (fun a b => ¬ (p a = true ∧ p b = true))) : l1.find? p = l2.find? p := by
  induction hp with
  | nil => rfl
  | cons x _ ih =>
    simp only [List.find?_cons]
    cases p x with
    | true => rfl
    | false => exact ih (List.pairwise_cons.1 hu).2
  | swap x y l =>
    have h := (List.pairwise_cons.1 hu).1 x (by simp)
    simp only [List.find?_cons]
    cases hx : p x <;> cases hy : p y <;> simp_all
  | trans h1 _ ih1 ih2 =>
    have hu2 := (List.Perm.pairwise_iff (fun {a b} (h : ¬ (p a = true ∧ p b = true)) => fun hc => h ⟨hc.2, hc.1⟩) h1).1 hu
    exact (ih1 hu).trans (ih2 hu2)

theorem allDistinct_pairwise : ∀ (l : List String), allDistinct l = true ↔ l.Pairwise (· ≠ ·)
  | [] => by simp [allDistinct]
  | x :: xs => by
    simp only [allDistinct, Bool.and_eq_true, Bool.not_eq_true', List.pairwise_cons, allDistinct_pairwise xs]
    constructor
    · rintro ⟨h1, h2⟩
      refine ⟨fun y hy e => ?_, h2⟩
      subst e
      simp only [List.contains_eq_mem, decide_eq_false_iff_not] at h1
      exact h1 hy
    · rintro ⟨h1, h2⟩
      refine ⟨?_, h2⟩
      simp only [List.contains_eq_mem, decide_eq_false_iff_not]
      exact fun hy => h1 x hy rfl

theorem allDistinct_perm {α} (f : α → String) {l1 l2 : List α} (hp : l1.Perm l2) (h : allDistinct (l2.map f) = true) :
    allDistinct (l1.map f) = true := by
  rw [allDistinct_pairwise] at h ⊢
  exact (List.Perm.pairwise_iff (fun {a b} (hab : a ≠ b) => fun e => hab e.symm) (hp.map f)).2 h

/-- two environments that answer every look-up alike -/
structure EnvEq (e1 e2 : SEnv) : Prop where
  funs : ∀ n, e1.lookupFun n = e2.lookupFun n
  sorts : ∀ n, e1.lookupSort n = e2.lookupSort n
  ro : e1.realsOnly = e2.realsOnly

theorem SortOK_congr' {e1 e2 : SEnv} (h : ∀ n, e1.lookupSort n = e2.lookupSort n) : ∀ (ty : Ty), SortOK e1 ty = SortOK e2 ty
  | .bool | .int | .real | .str | .bv _ => rfl
  | .array i e => by simp [SortOK, SortOK_congr' h i, SortOK_congr' h e]
  | .custom n => by simp [SortOK, h]

theorem nodeOK_congr {e1 e2 : SEnv} (h : EnvEq e1 e2) (scope : List Sym) (op : Op) (p : Payload) (args : List Term) :
    nodeOK e1 scope op p args = nodeOK e2 scope op p args := by
  unfold nodeOK
  split <;> simp only [h.funs, h.ro, SortOK_congr' h.sorts]

theorem binderOK_congr {e1 e2 : SEnv} (h : EnvEq e1 e2) (vs : List Sym) : binderOK e1 vs = binderOK e2 vs := by
  simp only [binderOK, SortOK_congr' h.sorts]

/-- `Printable` depends on the environment only through its look-up functions -/
theorem Printable_congr {e1 e2 : SEnv} (h : EnvEq e1 e2) : ∀ (t : Term) (scope : List Sym),
    Printable e1 scope t = Printable e2 scope t
  | .node op args p, scope => by
    have ih : ∀ sc, args.map (Printable e1 sc) = args.map (Printable e2 sc) :=
      fun sc => List.map_congr_left (fun a _ => Printable_congr h a sc)
    rw [Printable.eq_def, Printable.eq_def]
    simp only [nodeOK_congr h, binderOK_congr h, ih]
termination_by t => sizeOf t
decreasing_by
  simp_wf
  rename_i ha
  have := List.sizeOf_lt_of_mem ha
  omega

theorem names_pairwise {α} (f : α → String) {l : List α} (h : allDistinct (l.map f) = true) (n : String) :
    l.Pairwise (fun a b => ¬ ((f a == n) = true ∧ (f b == n) = true)) := by
  rw [allDistinct_pairwise, List.pairwise_map] at h
  refine h.imp ?_
  intro a b hab hc
  simp only [beq_iff_eq] at hc
  exact hab (hc.1.trans hc.2.symm)

/-- the environment built by permuted declarations answers every look-up like `scriptEnv` -/
theorem envEq_perm (logic : String) (t : Term) (ds : List (String × Nat)) (fs : List Sym)
    (hds : ds.Perm (sortDecls t)) (hfs : fs.Perm t.fv.eraseDups)
    (hsd : allDistinct ((sortDecls t).map (·.1)) = true) (hfd : allDistinct (t.fv.eraseDups.map (·.name)) = true) :
    EnvEq { logic := logic, sorts := ds.reverse, funs := fs.reverse } (scriptEnv logic t) := by
  refine ⟨fun n => ?_, fun n => ?_, rfl⟩
  · simp only [SEnv.lookupFun, scriptEnv]
    have hp : fs.reverse.Perm t.fv.eraseDups.reverse :=
      (List.reverse_perm fs).trans (hfs.trans (List.reverse_perm _).symm)
    exact find?_perm _ hp (names_pairwise (fun (x : Sym) => x.name) (allDistinct_perm (fun (x : Sym) => x.name) ((List.reverse_perm fs).trans hfs) hfd) n)
  · simp only [SEnv.lookupSort, scriptEnv]
    have hp : ds.reverse.Perm (sortDecls t).reverse :=
      (List.reverse_perm ds).trans (hds.trans (List.reverse_perm _).symm)
    rw [find?_perm _ hp (names_pairwise (fun (x : String × Nat) => x.1) (allDistinct_perm (fun (x : String × Nat) => x.1) ((List.reverse_perm ds).trans hds) hsd) n)]

/-- the commands of `scriptOfFormula`, the declarations in ANY order, with an arbitrary assertion text `a`: accepted when
`a` is read as a Bool term in the environment the declarations build -/
theorem script_accepted_perm (logic : String) (t : Term) (h : ScriptOK logic t = true)
    (ds : List (String × Nat)) (fs : List Sym) (hds : ds.Perm (sortDecls t)) (hfs : fs.Perm t.fv.eraseDups)
    (a : Sexp) (u : Term)
    (hrd : readStdTy { logic := logic, sorts := ds.reverse, funs := fs.reverse } [] a = .ok (u, .bool)) :
    ∃ st, runStd ([Sexp.list [.atom "set-logic", atomOfText logic]] ++ ds.map declareSort
        ++ fs.map declareFun ++ [.list [.atom "assert", a], .list [.atom "check-sat"]]) = .ok st ∧
      st.env = { logic := logic, sorts := ds.reverse, funs := fs.reverse } ∧ st.live = [u] := by
  simp only [ScriptOK, Bool.and_eq_true, Bool.not_eq_true', beq_iff_eq] at h
  obtain ⟨⟨⟨⟨⟨⟨⟨hls, hlr⟩, hsd⟩, hsf⟩, hfd⟩, hff⟩, hbool⟩, hP⟩ := h
  rw [List.all_eq_true] at hsf hff
  have hee := envEq_perm logic t ds fs hds hfs hsd hfd
  simp only [runStd, List.singleton_append, List.cons_append, List.nil_append, runStdFrom,
    step_setLogic logic hls hlr, Bool.false_eq_true, if_false, List.append_assoc, Nat.zero_add]
  rw [run_declareSorts logic _ ds [] 1 (fun d hd => by
        have := hsf d (hds.mem_iff.1 hd)
        simp only [Bool.and_eq_true, Bool.not_eq_true'] at this
        exact ⟨this.1.1, this.1.2, this.2, by simp⟩) (allDistinct_perm (·.1) hds hsd)]
  simp only [List.append_nil]
  rw [run_declareFuns logic _ _ fs [] _ (fun s hs => by
        have := hff s (hfs.mem_iff.1 hs)
        simp only [Bool.and_eq_true, List.all_eq_true] at this
        have hso : ∀ ty, SortOK ({ logic := logic, sorts := ds.reverse, funs := [] } : SEnv) ty
            = SortOK (scriptEnv logic t) ty := fun ty =>
          (SortOK_congr' (e1 := { logic := logic, sorts := ds.reverse, funs := [] })
            (e2 := { logic := logic, sorts := ds.reverse, funs := fs.reverse }) (fun _ => rfl) ty).trans
            (SortOK_congr' (fun n => hee.sorts n) ty)
        refine ⟨this.1.1, by simp, ?_, ?_⟩
        · rw [hso]; exact this.1.2
        · intro ty hty
          rw [hso]; exact this.2 ty hty) (allDistinct_perm (·.name) hfs hfd)]
  simp only [List.append_nil]
  have hassert : stepStd (mkSt logic ds.reverse fs.reverse) (.list [.atom "assert", a])
      = .ok { mkSt logic ds.reverse fs.reverse with asserts := [[u]] } := by
    simp only [stepStd, show ("assert" == "set-logic") = false by decide, show ("assert" == "declare-sort") = false by decide,
      show ("assert" == "declare-fun") = false by decide, show ("assert" == "declare-const") = false by decide,
      show ("assert" == "define-fun") = false by decide, show ("assert" == "define-sort") = false by decide,
      beq_self_eq_true, if_true, Bool.false_eq_true, if_false, stepAssert, mkSt]
    simp only [hrd, beq_self_eq_true, if_true]
  have hcheck : ∀ st : StdState, stepStd st (.list [.atom "check-sat"]) = .ok st := by
    intro st
    simp only [stepStd, show ("check-sat" == "set-logic") = false by decide,
      show ("check-sat" == "declare-sort") = false by decide, show ("check-sat" == "declare-fun") = false by decide,
      show ("check-sat" == "declare-const") = false by decide, show ("check-sat" == "define-fun") = false by decide,
      show ("check-sat" == "define-sort") = false by decide,
      show ("check-sat" == "assert") = false by decide, beq_self_eq_true, if_true, Bool.false_eq_true, if_false,
      List.isEmpty_nil]
  simp only [runStdFrom, hassert, hcheck]
  refine ⟨_, rfl, rfl, ?_⟩
  simp [StdState.live]

/-- **Declarations in any order** (tree form): for every permutation `ds` of the sort declarations and every permutation
`fs` of the free symbols — `smtlibscript_from_formula` emits them in the iteration order of Python sets — the script
`set-logic, ds…, fs…, assert, check-sat` is accepted by `runStd`; it declares exactly these sorts and symbols (each once,
all before the assert) and its only live assertion is the formula. -/
theorem decls_any_order (logic : String) (t : Term) (h : ScriptOK logic t = true)
    (ds : List (String × Nat)) (fs : List Sym) (hds : ds.Perm (sortDecls t)) (hfs : fs.Perm t.fv.eraseDups) :
    ∃ st, runStd ([Sexp.list [.atom "set-logic", atomOfText logic]] ++ ds.map declareSort
        ++ fs.map declareFun ++ [.list [.atom "assert", toSexp t], .list [.atom "check-sat"]]) = .ok st ∧
      st.live = [unfoldAV t] ∧ st.env.funs.Perm t.fv.eraseDups ∧ st.env.sorts.Perm (sortDecls t) ∧
      (∀ s ∈ t.fv, s ∈ st.env.funs) := by
  have hh := h
  simp only [ScriptOK, Bool.and_eq_true, Bool.not_eq_true', beq_iff_eq] at hh
  obtain ⟨⟨⟨⟨⟨⟨_, hsd⟩, _⟩, hfd⟩, _⟩, hbool⟩, hP⟩ := hh
  have hee := envEq_perm logic t ds fs hds hfs hsd hfd
  have hP' : Printable { logic := logic, sorts := ds.reverse, funs := fs.reverse } [] t = true := by
    rw [Printable_congr hee]; exact hP
  obtain ⟨τ, hty, hrd⟩ := read_toSexp_sort _ t hP'
  have hτ : τ = .bool := by rw [hbool] at hty; exact (Option.some.inj hty).symm
  subst hτ
  obtain ⟨st, hrun, henv, hlive⟩ := script_accepted_perm logic t h ds fs hds hfs (toSexp t) (unfoldAV t) hrd
  refine ⟨st, hrun, hlive, ?_, ?_, ?_⟩
  · rw [henv]; exact (List.reverse_perm fs).trans hfs
  · rw [henv]; exact (List.reverse_perm ds).trans hds
  · intro s hs
    rw [henv]
    have : s ∈ t.fv.eraseDups := by simpa using hs
    simpa using hfs.mem_iff.2 this

/-- … and for the DAG form of the assertion (quantifier-free formulas) -/
theorem decls_any_order_dag (logic : String) (t : Term) (h : ScriptOK logic t = true) (hq : noQuant t = true)
    (ds : List (String × Nat)) (fs : List Sym) (hds : ds.Perm (sortDecls t)) (hfs : fs.Perm t.fv.eraseDups) :
    ∃ st, runStd ([Sexp.list [.atom "set-logic", atomOfText logic]] ++ ds.map declareSort
        ++ fs.map declareFun ++ [.list [.atom "assert", toSexpDag t], .list [.atom "check-sat"]]) = .ok st ∧
      st.live = [unfoldAVw false t] ∧ st.env.funs.Perm t.fv.eraseDups ∧ st.env.sorts.Perm (sortDecls t) := by
  have hh := h
  simp only [ScriptOK, Bool.and_eq_true, Bool.not_eq_true', beq_iff_eq] at hh
  obtain ⟨⟨⟨⟨⟨⟨_, hsd⟩, _⟩, hfd⟩, _⟩, hbool⟩, hP⟩ := hh
  have hee := envEq_perm logic t ds fs hds hfs hsd hfd
  have hP' : Printable { logic := logic, sorts := ds.reverse, funs := fs.reverse } [] t = true := by
    rw [Printable_congr hee]; exact hP
  have hrd := readStd_toSexpDag _ t (dagOK_of_printable' _ t hP' hq)
  have hτ : tyD t = .bool := by simp [tyD, hbool]
  rw [hτ] at hrd
  obtain ⟨st, hrun, henv, hlive⟩ := script_accepted_perm logic t h ds fs hds hfs (toSexpDag t) (unfoldAVw false t) hrd
  refine ⟨st, hrun, hlive, ?_, ?_⟩
  · rw [henv]; exact (List.reverse_perm fs).trans hfs
  · rw [henv]; exact (List.reverse_perm ds).trans hds

end PySMT.Printer
