import PySMT.Proofs.C08AgreeBV1
/-!
# C08/C09 agreement, operator families: fixed-size bit-vectors (2) — the indexed operators
`(_ extract i j)`, `(_ zero_extend k)`, `(_ sign_extend k)`, `(_ rotate_left k)`, `(_ rotate_right k)`

The parser's `underscore` turns the indexed identifier into `Fn.extract stop start`, `Fn.zext k`, …; the indices are the
integers `int(token)`, here the casts of the standard's numerals.
-/
namespace PySMT.Parser.Agree
open PySMT PySMT.Parser PySMT.Std PySMT.Sexp

theorem applyFn_extract (i j : Int) (x : Term) :
    applyFn (.extract i j) ([x].map .term) = (liftMk (Mk.BVExtract x j (some i))).map Parser.Val.term := rfl
theorem applyFn_zext (k : Int) (x : Term) :
    applyFn (.zext k) ([x].map .term) = (liftMk (Mk.extend .bvZext x k)).map Parser.Val.term := rfl
theorem applyFn_sext (k : Int) (x : Term) :
    applyFn (.sext k) ([x].map .term) = (liftMk (Mk.extend .bvSext x k)).map Parser.Val.term := rfl
theorem applyFn_rol (k : Int) (x : Term) :
    applyFn (.rol k) ([x].map .term) = (liftMk (Mk.rotate .bvRol x k)).map Parser.Val.term := rfl
theorem applyFn_ror (k : Int) (x : Term) :
    applyFn (.ror k) ([x].map .term) = (liftMk (Mk.rotate .bvRor x k)).map Parser.Val.term := rfl

/-! ## `extract` -/

theorem std_extract (i j : Nat) (as : List TT) (u : Term) (τ : Ty)
    (h : applyIndexed "extract" [i, j] as = .ok (u, τ)) :
    ∃ a m, as = [a] ∧ a.2 = .bv m ∧ j ≤ i ∧ i < m ∧ u = Std.node .bvExtract [a] (.ints [i - j + 1, j, i]) ∧
      τ = .bv (i - j + 1) := by
  match as, h with
  | [], h => cases h
  | _ :: _ :: _, h => cases h
  | [a], h =>
    simp only [applyIndexed] at h
    split at h
    · rename_i m hm
      split at h
      · rename_i hc
        simp only [Bool.and_eq_true, decide_eq_true_eq] at hc
        cases h
        exact ⟨a, m, rfl, hm, hc.1, hc.2, rfl, rfl⟩
      · cases h
    · cases h

theorem extract_ok (x : Term) (m i j : Nat) (hx : TOK x (.bv m)) (hji : j ≤ i) (him : i < m) :
    Mk.BVExtract x (j : Int) (some (i : Int)) = .ok (.node .bvExtract [x] (.ints [i - j + 1, j, i])) ∧
      TOK (.node .bvExtract [x] (.ints [i - j + 1, j, i])) (.bv (i - j + 1)) := by
  have hty : typeOfNode .bvExtract (.ints [i - j + 1, j, i]) ([x].map Term.typeOf) = some (.bv (i - j + 1)) := by
    rw [tyNode_of (tys1' hx)]
    simp only [C03.tyNode]
    rw [if_neg (by omega), if_neg (by omega), if_neg (by omega)]
  have hs : Op.shapeOK .bvExtract (.ints [i - j + 1, j, i]) [x].length = true := by
    simp [Op.shapeOK, hji]
  refine ⟨?_, tok_node hty (wf1 hx.wf) hs (fun w' h => by cases h; exact bvWidth_bvop .bvExtract _ _ _ rfl)⟩
  have h1 : ((i : Int) ≥ (j : Int) ∧ (j : Int) ≥ 0) := by omega
  have h2 : ((i : Int) - (j : Int) + 1 ≤ (m : Int)) := by omega
  have h3 : ((i : Int) - (j : Int) + 1).toNat = i - j + 1 := by omega
  simp only [Mk.BVExtract, hx.bw m rfl, bind, Except.bind, h1, h2, h3, not_true_eq_false, and_self, if_false,
    Int.toNat_natCast, create_ok hty]

theorem ag_extract (i j : Nat) (as : List TT) (u : Term) (τ : Ty) (hargs : ∀ a ∈ as, TOK (mkNorm a.1) a.2)
    (hstd : applyIndexed "extract" [i, j] as = .ok (u, τ)) : Agrees (.extract (i : Int) (j : Int)) as u τ := by
  obtain ⟨a, m, rfl, hm, hji, him, rfl, rfl⟩ := std_extract i j as u τ hstd
  have ha := hargs a (by simp)
  rw [hm] at ha
  obtain ⟨h1, h2⟩ := extract_ok _ m i j ha hji him
  have hn : mkNorm (Std.node .bvExtract [a] (.ints [i - j + 1, j, i])) =
      .node .bvExtract [mkNorm a.1] (.ints [i - j + 1, j, i]) := by
    simp only [Std.node, List.map_cons, List.map_nil]
    rw [mkNorm_plain _ _ _ (by decide) (by decide) (by decide)]; rfl
  unfold Agrees
  rw [hn]
  refine ⟨?_, h2⟩
  simp only [nargs_cons, nargs_nil]
  rw [applyFn_extract, h1]; rfl

/-! ## `zero_extend`, `sign_extend` -/

theorem std_ext (f : String) (op : Op) (hf : f = "zero_extend" ∧ op = .bvZext ∨ f = "sign_extend" ∧ op = .bvSext)
    (k : Nat) (as : List TT) (u : Term) (τ : Ty) (h : applyIndexed f [k] as = .ok (u, τ)) :
    ∃ a m, as = [a] ∧ a.2 = .bv m ∧ u = Std.node op [a] (.ints [m + k, k]) ∧ τ = .bv (m + k) := by
  rcases hf with ⟨rfl, rfl⟩ | ⟨rfl, rfl⟩
  · match as, h with
    | [], h => cases h
    | _ :: _ :: _, h => cases h
    | [a], h =>
      simp only [applyIndexed] at h
      split at h
      · rename_i m hm
        cases h
        exact ⟨a, m, rfl, hm, rfl, rfl⟩
      · cases h
  · match as, h with
    | [], h => cases h
    | _ :: _ :: _, h => cases h
    | [a], h =>
      simp only [applyIndexed] at h
      split at h
      · rename_i m hm
        cases h
        exact ⟨a, m, rfl, hm, rfl, rfl⟩
      · cases h

theorem extend_ok (op : Op) (hop : op = .bvZext ∨ op = .bvSext) (x : Term) (m k : Nat) (hx : TOK x (.bv m)) :
    Mk.extend op x (k : Int) = .ok (.node op [x] (.ints [m + k, k])) ∧
      TOK (.node op [x] (.ints [m + k, k])) (.bv (m + k)) := by
  have hty : typeOfNode op (.ints [m + k, k]) ([x].map Term.typeOf) = some (.bv (m + k)) := by
    rw [tyNode_of (tys1' hx)]
    rcases hop with rfl | rfl <;> simp [C03.tyNode]
  have hs : op.shapeOK (.ints [m + k, k]) [x].length = true := by rcases hop with rfl | rfl <;> rfl
  have hb : Mk.isBvOp op = true := by rcases hop with rfl | rfl <;> rfl
  refine ⟨?_, tok_node hty (wf1 hx.wf) hs (fun w' h => by cases h; exact bvWidth_bvop op _ _ _ hb)⟩
  have h1 : ¬ ((k : Int) < 0) := by omega
  simp only [Mk.extend, hx.bw m rfl, bind, Except.bind, h1, if_false, Int.toNat_natCast, create_ok hty]

theorem ext_agree (f : String) (op : Op) (hf : f = "zero_extend" ∧ op = .bvZext ∨ f = "sign_extend" ∧ op = .bvSext)
    (k : Nat) (fn : Fn)
    (hfn : ∀ x, applyFn fn ([x].map .term) = (liftMk (Mk.extend op x (k : Int))).map Parser.Val.term)
    (as : List TT) (u : Term) (τ : Ty) (hargs : ∀ a ∈ as, TOK (mkNorm a.1) a.2)
    (hstd : applyIndexed f [k] as = .ok (u, τ)) : Agrees fn as u τ := by
  obtain ⟨a, m, rfl, hm, rfl, rfl⟩ := std_ext f op hf k as u τ hstd
  have hop : op = .bvZext ∨ op = .bvSext := by rcases hf with ⟨_, h⟩ | ⟨_, h⟩ <;> simp [h]
  have ha := hargs a (by simp)
  rw [hm] at ha
  obtain ⟨h1, h2⟩ := extend_ok op hop _ m k ha
  have hn : mkNorm (Std.node op [a] (.ints [m + k, k])) = .node op [mkNorm a.1] (.ints [m + k, k]) := by
    simp only [Std.node, List.map_cons, List.map_nil]
    rw [mkNorm_plain _ _ _ (by rcases hop with rfl | rfl <;> decide) (by rcases hop with rfl | rfl <;> decide)
      (by rcases hop with rfl | rfl <;> decide)]; rfl
  unfold Agrees
  rw [hn]
  refine ⟨?_, h2⟩
  simp only [nargs_cons, nargs_nil]
  rw [hfn, h1]; rfl

theorem ag_zext (k : Nat) (as : List TT) (u : Term) (τ : Ty) (hargs : ∀ a ∈ as, TOK (mkNorm a.1) a.2)
    (hstd : applyIndexed "zero_extend" [k] as = .ok (u, τ)) : Agrees (.zext (k : Int)) as u τ :=
  ext_agree "zero_extend" .bvZext (Or.inl ⟨rfl, rfl⟩) k _ (applyFn_zext _) as u τ hargs hstd

theorem ag_sext (k : Nat) (as : List TT) (u : Term) (τ : Ty) (hargs : ∀ a ∈ as, TOK (mkNorm a.1) a.2)
    (hstd : applyIndexed "sign_extend" [k] as = .ok (u, τ)) : Agrees (.sext (k : Int)) as u τ :=
  ext_agree "sign_extend" .bvSext (Or.inr ⟨rfl, rfl⟩) k _ (applyFn_sext _) as u τ hargs hstd

/-! ## `rotate_left`, `rotate_right` -/

theorem std_rot (f : String) (op : Op) (hf : f = "rotate_left" ∧ op = .bvRol ∨ f = "rotate_right" ∧ op = .bvRor)
    (k : Nat) (as : List TT) (u : Term) (τ : Ty) (h : applyIndexed f [k] as = .ok (u, τ)) :
    ∃ a m, as = [a] ∧ a.2 = .bv m ∧ u = Std.node op [a] (.ints [m, k]) ∧ τ = .bv m := by
  rcases hf with ⟨rfl, rfl⟩ | ⟨rfl, rfl⟩
  · match as, h with
    | [], h => cases h
    | _ :: _ :: _, h => cases h
    | [a], h =>
      simp only [applyIndexed] at h
      split at h
      · rename_i m hm
        cases h
        exact ⟨a, m, rfl, hm, rfl, rfl⟩
      · cases h
  · match as, h with
    | [], h => cases h
    | _ :: _ :: _, h => cases h
    | [a], h =>
      simp only [applyIndexed] at h
      split at h
      · rename_i m hm
        cases h
        exact ⟨a, m, rfl, hm, rfl, rfl⟩
      · cases h

theorem rotate_ok (op : Op) (hop : op = .bvRol ∨ op = .bvRor) (x : Term) (m k : Nat) (hx : TOK x (.bv m)) (hk : k ≤ m) :
    Mk.rotate op x (k : Int) = .ok (.node op [x] (.ints [m, k])) ∧ TOK (.node op [x] (.ints [m, k])) (.bv m) := by
  have hty : typeOfNode op (.ints [m, k]) ([x].map Term.typeOf) = some (.bv m) := by
    rw [tyNode_of (tys1' hx)]
    have : ¬ m < k := by omega
    rcases hop with rfl | rfl <;> simp [C03.tyNode, this]
  have hs : op.shapeOK (.ints [m, k]) [x].length = true := by rcases hop with rfl | rfl <;> rfl
  have hb : Mk.isBvOp op = true := by rcases hop with rfl | rfl <;> rfl
  refine ⟨?_, tok_node hty (wf1 hx.wf) hs (fun w' h => by cases h; exact bvWidth_bvop op _ _ _ hb)⟩
  have h1 : ¬ ((k : Int) < 0) := by omega
  simp only [Mk.rotate, hx.bw m rfl, bind, Except.bind, h1, if_false, Int.toNat_natCast, create_ok hty]

theorem rot_agree (f : String) (op : Op) (hf : f = "rotate_left" ∧ op = .bvRol ∨ f = "rotate_right" ∧ op = .bvRor)
    (k : Nat) (fn : Fn)
    (hfn : ∀ x, applyFn fn ([x].map .term) = (liftMk (Mk.rotate op x (k : Int))).map Parser.Val.term)
    (as : List TT) (u : Term) (τ : Ty) (hargs : ∀ a ∈ as, TOK (mkNorm a.1) a.2)
    (hk : ∀ a ∈ as, ∀ m, a.2 = .bv m → k ≤ m)
    (hstd : applyIndexed f [k] as = .ok (u, τ)) : Agrees fn as u τ := by
  obtain ⟨a, m, rfl, hm, rfl, rfl⟩ := std_rot f op hf k as u τ hstd
  have hop : op = .bvRol ∨ op = .bvRor := by rcases hf with ⟨_, h⟩ | ⟨_, h⟩ <;> simp [h]
  have ha := hargs a (by simp)
  rw [hm] at ha
  obtain ⟨h1, h2⟩ := rotate_ok op hop _ m k ha (hk a (by simp) m hm)
  have hn : mkNorm (Std.node op [a] (.ints [m, k])) = .node op [mkNorm a.1] (.ints [m, k]) := by
    simp only [Std.node, List.map_cons, List.map_nil]
    rw [mkNorm_plain _ _ _ (by rcases hop with rfl | rfl <;> decide) (by rcases hop with rfl | rfl <;> decide)
      (by rcases hop with rfl | rfl <;> decide)]; rfl
  unfold Agrees
  rw [hn]
  refine ⟨?_, h2⟩
  simp only [nargs_cons, nargs_nil]
  rw [hfn, h1]; rfl

theorem ag_rol (k : Nat) (as : List TT) (u : Term) (τ : Ty) (hargs : ∀ a ∈ as, TOK (mkNorm a.1) a.2)
    (hk : ∀ a ∈ as, ∀ m, a.2 = .bv m → k ≤ m)
    (hstd : applyIndexed "rotate_left" [k] as = .ok (u, τ)) : Agrees (.rol (k : Int)) as u τ :=
  rot_agree "rotate_left" .bvRol (Or.inl ⟨rfl, rfl⟩) k _ (applyFn_rol _) as u τ hargs hk hstd

theorem ag_ror (k : Nat) (as : List TT) (u : Term) (τ : Ty) (hargs : ∀ a ∈ as, TOK (mkNorm a.1) a.2)
    (hk : ∀ a ∈ as, ∀ m, a.2 = .bv m → k ≤ m)
    (hstd : applyIndexed "rotate_right" [k] as = .ok (u, τ)) : Agrees (.ror (k : Int)) as u τ :=
  rot_agree "rotate_right" .bvRor (Or.inr ⟨rfl, rfl⟩) k _ (applyFn_ror _) as u τ hargs hk hstd

end PySMT.Parser.Agree
