import PySMT.Proofs.C18Interval
/-!
# C18, part 2: the single-objective search (`_optimize`) against an arbitrary oracle
-/
namespace PySMT.Opt

/-- The only assumption on the solver: on every call it returns a model of the user's assertions
    (`A`) and of the constraints it was given iff one exists (which one is up to the solver and
    may differ from call to call). -/
def OracleSpec {M : Type} (A : M → Prop) (val : Nat → M → Val) (o : Oracle M) : Prop :=
  ∀ n cs, (∀ m, o n cs = some m → A m ∧ ∀ c ∈ cs, c.holds val m = true) ∧
          (o n cs = none → ∀ m, A m → ¬ ∀ c ∈ cs, c.holds val m = true)

/-- In every model of the assertions the `gi`-th goal term has the sort of the goal, and `obj` reads
    its value the way `search_is_sat` does (`constant_value()`; `bv_signed_value()` for a signed
    goal).  Both follow from typing; they replace the earlier hypothesis "the objective value is
    representable" (`castOk`), which is now a consequence (`GoalReads.castOk`). -/
def GoalReads {M : Type} (A : M → Prop) (val : Nat → M → Val) (obj : Nat → M → Int) (g : Goal) (gi : Nat) : Prop :=
  ∀ m, A m → ValTyped g.dom (val gi m) ∧ obj gi m = readObj g.dom (val gi m)

/-- the same for every element of `M` (all models are well-sorted), used by the Pareto theorems -/
def GoalReadsAll {M : Type} (val : Nat → M → Val) (obj : Nat → M → Int) (g : Goal) (gi : Nat) : Prop :=
  ∀ m, ValTyped g.dom (val gi m) ∧ obj gi m = readObj g.dom (val gi m)

theorem GoalReadsAll.toReads {M : Type} {A : M → Prop} {val : Nat → M → Val} {obj : Nat → M → Int} {g : Goal}
    {gi : Nat} (h : GoalReadsAll val obj g gi) : GoalReads A val obj g gi := fun m _ => h m

theorem GoalReads.castOk {M : Type} {A : M → Prop} {val : Nat → M → Val} {obj : Nat → M → Int} {g : Goal}
    {gi : Nat} (h : GoalReads A val obj g gi) : ∀ m, A m → castOk g.dom (obj gi m) = true := by
  intro m hm
  obtain ⟨h1, h2⟩ := h m hm
  rw [h2]; exact castOk_readObj _ _ h1

/-- `extra_assumption` is only used by the assumption-based mix-in -/
def effExtra : Mixin → List Constraint → List Constraint
  | .sua, e => e
  | .incr, _ => []

section
variable {M : Type} (A : M → Prop) (val : Nat → M → Val) (obj : Nat → M → Int)

/-- feasible set of a routine entered with the constraints `base` on the solver's stack (beyond the
    user's assertions `A`) and the assumptions `ex` -/
def Feas (base ex : List Constraint) (m : M) : Prop :=
  A m ∧ (∀ c ∈ base, c.holds val m = true) ∧ (∀ c ∈ ex, c.holds val m = true)

variable (g : Goal) (gi : Nat) (base ex : List Constraint) (marks0 : List Nat) (bad0 : Bool)

/-- solver state inside `_optimize`: one level above the entry state; whatever was asserted since
    is implied by "strictly better than `t`" -/
def SInv (t : Int) (s : Solver M) : Prop :=
  s.marks = base.length :: marks0 ∧ s.bad = bad0 ∧
  ∃ added, s.stack = base ++ added ∧
    ∀ c ∈ added, ∀ m, Feas A val base ex m → sg g (obj gi m) < sg g t → c.holds val m = true

variable {A val obj g gi base ex marks0 bad0}

theorem SInv.mono {t t' : Int} {s : Solver M} (h : SInv A val obj g gi base ex marks0 bad0 t s)
    (ht : sg g t' ≤ sg g t) : SInv A val obj g gi base ex marks0 bad0 t' s := by
  obtain ⟨h1, h2, added, h3, h4⟩ := h
  exact ⟨h1, h2, added, h3, fun c hc m hm hlt => h4 c hc m hm (by omega)⟩

theorem SInv.pop {t : Int} {s : Solver M} (h : SInv A val obj g gi base ex marks0 bad0 t s) :
    s.pop.stack = base ∧ s.pop.marks = marks0 ∧ s.pop.bad = bad0 := by
  obtain ⟨h1, h2, added, h3, _⟩ := h
  unfold Solver.pop
  simp [h1, h2, h3]

variable {o : Oracle M}

/-- the first, cut-free call of `_optimization_check_progress` -/
theorem check_first (hO : OracleSpec A val o) (mx : Mixin) (strat : Strat) (extra : List Constraint)
    (hex : ex = effExtra mx extra) (s : Solver M)
    (h1 : s.marks = base.length :: marks0) (h2 : s.bad = bad0) (h3 : s.stack = base) :
    (∀ m, (checkProgress o mx strat extra none s).1 = some m → Feas A val base ex m) ∧
    ((checkProgress o mx strat extra none s).1 = none → ∀ m, ¬ Feas A val base ex m) ∧
    (∀ t, SInv A val obj g gi base ex marks0 bad0 t (checkProgress o mx strat extra none s).2) := by
  cases mx <;> cases strat <;>
    simp only [checkProgress, Solver.solve, Solver.addAll, Solver.push, Solver.pop, Option.toList,
      List.foldl, List.append_nil, effExtra] at hex ⊢ <;> subst hex
  all_goals refine ⟨?_, ?_, ?_⟩
  all_goals first
    | (intro m hm
       obtain ⟨ha, hc⟩ := (hO _ _).1 m hm
       refine ⟨ha, ?_, ?_⟩
       · intro c hc'; exact hc c (by simp [h3, hc'])
       · intro c hc'; first | exact hc c (by simp [hc']) | simp at hc')
    | (intro hn m hm
       refine (hO _ _).2 hn m hm.1 ?_
       intro c hc
       simp [h3] at hc
       first
         | (rcases hc with hc | hc
            · exact hm.2.1 c hc
            · exact hm.2.2 c hc)
         | exact hm.2.1 c hc)
    | (intro t
       refine ⟨by simp [h1], by simp [h2], [], by simp [h3], by simp⟩)

theorem take_length_append {α : Type} (l1 l2 : List α) : (l1 ++ l2).take l1.length = l1 := by simp

/-- a call of `_optimization_check_progress` with the strict cut at `b` -/
theorem check_cut (hO : OracleSpec A val o) (mx : Mixin) (strat : Strat) (extra : List Constraint)
    (hex : ex = effExtra mx extra) (hG : GoalReads A val obj g gi) (t b : Int) (s : Solver M)
    (hS : SInv A val obj g gi base ex marks0 bad0 t s) (hb : sg g b ≤ sg g t) (hcb : castOk g.dom b = true) :
    (∀ m, (checkProgress o mx strat extra (some (.atom ⟨gi, g.dom, strictCmp g, b⟩)) s).1 = some m →
        Feas A val base ex m ∧ sg g (obj gi m) < sg g b) ∧
    ((checkProgress o mx strat extra (some (.atom ⟨gi, g.dom, strictCmp g, b⟩)) s).1 = none →
        ∀ m, Feas A val base ex m → ¬ sg g (obj gi m) < sg g b) ∧
    (∀ t', sg g t' ≤ sg g b →
        SInv A val obj g gi base ex marks0 bad0 t' (checkProgress o mx strat extra (some (.atom ⟨gi, g.dom, strictCmp g, b⟩)) s).2) ∧
    ((strat = .linear → b = t) →
        SInv A val obj g gi base ex marks0 bad0 t (checkProgress o mx strat extra (some (.atom ⟨gi, g.dom, strictCmp g, b⟩)) s).2) := by
  obtain ⟨h1, h2, added, h3, h4⟩ := hS
  have hcut : ∀ m, A m → ((Constraint.atom ⟨gi, g.dom, strictCmp g, b⟩).holds val m = true ↔
      sg g (obj gi m) < sg g b) :=
    fun m hm => strict_atom_holds val obj m g gi b (hG m hm).1 (hG m hm).2 hcb
  -- what the oracle is asked, in all four variants: `base ++ added' ++ ex ++ [cut]` up to order
  have key : ∀ (n : Nat) (cs : List Constraint),
      (∀ c, c ∈ cs ↔ (c ∈ base ∨ c ∈ added ∨ c ∈ ex ∨ c = Constraint.atom ⟨gi, g.dom, strictCmp g, b⟩)) →
      (∀ m, o n cs = some m → Feas A val base ex m ∧ sg g (obj gi m) < sg g b) ∧
      (o n cs = none → ∀ m, Feas A val base ex m → ¬ sg g (obj gi m) < sg g b) := by
    intro n cs hcs
    refine ⟨?_, ?_⟩
    · intro m hm
      obtain ⟨ha, hc⟩ := (hO n cs).1 m hm
      refine ⟨⟨ha, ?_, ?_⟩, ?_⟩
      · intro c hc'; exact hc c ((hcs c).2 (Or.inl hc'))
      · intro c hc'; exact hc c ((hcs c).2 (Or.inr (Or.inr (Or.inl hc'))))
      · exact (hcut m ha).1 (hc _ ((hcs _).2 (Or.inr (Or.inr (Or.inr rfl)))))
    · intro hn m hm hlt
      refine (hO n cs).2 hn m hm.1 ?_
      intro c hc
      rcases (hcs c).1 hc with hc | hc | hc | hc
      · exact hm.2.1 c hc
      · exact h4 c hc m hm (by omega)
      · exact hm.2.2 c hc
      · subst hc; exact (hcut m hm.1).2 hlt
  have keepInv : ∀ t', sg g t' ≤ sg g t → ∀ s' : Solver M, s'.marks = s.marks → s'.bad = s.bad → s'.stack = s.stack →
      SInv A val obj g gi base ex marks0 bad0 t' s' := by
    intro t' ht' s' e1 e2 e3
    exact ⟨by rw [e1, h1], by rw [e2, h2], added, by rw [e3, h3], fun c hc m hm hlt => h4 c hc m hm (by omega)⟩
  have growInv : ∀ t', sg g t' ≤ sg g b → ∀ s' : Solver M, s'.marks = s.marks → s'.bad = s.bad →
      s'.stack = s.stack ++ [Constraint.atom ⟨gi, g.dom, strictCmp g, b⟩] →
      SInv A val obj g gi base ex marks0 bad0 t' s' := by
    intro t' ht' s' e1 e2 e3
    refine ⟨by rw [e1, h1], by rw [e2, h2], added ++ [Constraint.atom ⟨gi, g.dom, strictCmp g, b⟩],
      by rw [e3, h3, List.append_assoc], ?_⟩
    intro c hc m hm hlt
    rcases List.mem_append.1 hc with hc | hc
    · exact h4 c hc m hm (by omega)
    · have : c = Constraint.atom ⟨gi, g.dom, strictCmp g, b⟩ := by simpa using hc
      subst this; exact (hcut m hm.1).2 (by omega)
  cases mx with
  | sua =>
    simp only [effExtra] at hex; subst hex
    have hk := key s.calls (s.stack ++ (ex ++ [Constraint.atom ⟨gi, g.dom, strictCmp g, b⟩])) (by
      intro c; simp [h3])
    simp only [checkProgress, Solver.solve, Option.toList]
    exact ⟨hk.1, hk.2, fun t' ht' => keepInv t' (by omega) _ rfl rfl rfl, fun _ => keepInv t (by omega) _ rfl rfl rfl⟩
  | incr =>
    simp only [effExtra] at hex; subst hex
    cases strat with
    | linear =>
      have hk := key s.calls (s.stack ++ [Constraint.atom ⟨gi, g.dom, strictCmp g, b⟩] ++ []) (by
        intro c; simp [h3])
      simp only [checkProgress, Solver.solve, Solver.addAll, Solver.add, Option.toList, List.foldl]
      refine ⟨hk.1, hk.2, fun t' ht' => growInv t' ht' _ rfl rfl rfl, ?_⟩
      intro hlin
      have hbt : b = t := by simpa using hlin
      subst hbt
      exact growInv b (by omega) _ rfl rfl rfl
    | binary =>
      have hk := key s.calls (s.stack ++ [Constraint.atom ⟨gi, g.dom, strictCmp g, b⟩] ++ []) (by
        intro c; simp [h3])
      simp only [checkProgress, Solver.solve, Solver.addAll, Solver.add, Solver.push, Solver.pop, Option.toList,
        List.foldl]
      refine ⟨hk.1, hk.2, fun t' ht' => keepInv t' (by omega) _ rfl rfl ?_, fun _ => keepInv t (by omega) _ rfl rfl ?_⟩
      · exact take_length_append _ _
      · exact take_length_append _ _

variable (A val obj g gi base ex marks0 bad0) in
/-- invariant of the `while not current.empty()` loop after the first satisfiable step -/
structure LInv (strat : Strat) (iv : Interval) (best : M) (s : Solver M) : Prop where
  feas : Feas A val base ex best
  nearEq : near g iv = some (obj gi best)
  farBound : ∀ f, far g iv = some f → ∀ m, Feas A val base ex m → sg g f ≤ sg g (obj gi m)
  farOk : ∀ f, far g iv = some f → FarOk g f
  farNone : far g iv = none → g.dom = .int
  piv : strat = .linear → iv.pivot = none
  sinv : SInv A val obj g gi base ex marks0 bad0 (obj gi best) s

/-- one iteration makes progress: the distance between the bounds shrinks, or (unknown far bound)
    the best value improves or the far bound becomes known -/
def Progress (g : Goal) (iv iv' : Interval) : Prop :=
  ∃ n n', near g iv = some n ∧ near g iv' = some n' ∧ sg g n' ≤ sg g n ∧
    match far g iv with
    | some f => ∃ f', far g iv' = some f' ∧ sg g n' - sg g f' < sg g n - sg g f
    | none => (far g iv' = none ∧ sg g n' < sg g n) ∨ (∃ f', far g iv' = some f')

theorem lt_of_not_empty (g : Goal) (iv : Interval) (n f : Int) (he : iv.empty = false)
    (hn : near g iv = some n) (hf : far g iv = some f) : sg g f < sg g n := by
  have h2 : ¬ sg g n ≤ sg g f := fun h => by
    have := (empty_iff g iv).2 ⟨n, f, hn, hf, h⟩
    simp [he] at this
  omega

theorem castOk_int (g : Goal) (h : g.dom = .int) (v : Int) : castOk g.dom v = true := by
  rw [h]; rfl

theorem cut_facts {strat : Strat} {iv : Interval} {best : M} {s : Solver M}
    (hG : GoalReads A val obj g gi)
    (hI : LInv A val obj g gi base ex marks0 bad0 strat iv best s) (he : iv.empty = false) :
    ∃ iv1 b, cutBound strat g iv = (iv1, some b) ∧ sg g b ≤ sg g (obj gi best) ∧ castOk g.dom b = true ∧
      near g iv1 = near g iv ∧ far g iv1 = far g iv ∧
      (strat = .linear → b = obj gi best ∧ iv1.pivot = none) ∧
      (strat = .binary → iv1.pivot = some b ∧ ∀ f, far g iv = some f → sg g f < sg g b) := by
  have hbest : castOk g.dom (obj gi best) = true := hG.castOk _ hI.feas.1
  cases strat with
  | linear =>
    refine ⟨iv, obj gi best, ?_, Int.le_refl _, hbest, rfl, rfl, fun _ => ⟨rfl, hI.piv rfl⟩, fun h => by cases h⟩
    rw [cutBound_linear, hI.nearEq]
  | binary =>
    refine ⟨{ iv with pivot := some (computePivot g iv) }, computePivot g iv, cutBound_binary g iv, ?_, ?_,
      near_withPivot _ _ _, far_withPivot _ _ _, (fun h => by cases h), fun _ => ⟨rfl, ?_⟩⟩
    · cases hf : far g iv with
      | none => exact pivot_le_near g iv _ hI.nearEq hf
      | some f =>
        have hlt : sg g f < sg g (obj gi best) := lt_of_not_empty g iv _ f he hI.nearEq hf
        exact (pivot_between g iv _ f hI.nearEq hf hlt).2
    · cases hf : far g iv with
      | none => exact castOk_int g (hI.farNone hf) _
      | some f =>
        have hlt : sg g f < sg g (obj gi best) := lt_of_not_empty g iv _ f he hI.nearEq hf
        have hb := pivot_between g iv _ f hI.nearEq hf hlt
        exact hI.farOk f hf _ _ hb.1 hb.2 hbest
    · intro f hf
      have hlt : sg g f < sg g (obj gi best) := lt_of_not_empty g iv _ f he hI.nearEq hf
      exact (pivot_between g iv _ f hI.nearEq hf hlt).1

/-- one iteration of the loop: no cast fails, the invariant is kept, progress is made -/
theorem step_spec (hO : OracleSpec A val o) {mx : Mixin} {strat : Strat} {extra : List Constraint}
    (hex : ex = effExtra mx extra)
    (hG : GoalReads A val obj g gi)
    {iv : Interval} {best : M} {s : Solver M}
    (hI : LInv A val obj g gi base ex marks0 bad0 strat iv best s) (he : iv.empty = false) :
    ∃ iv' best' s',
      (∀ n, searchLoop o obj mx strat g gi extra (n + 1) iv best s =
            searchLoop o obj mx strat g gi extra n iv' best' s') ∧
      LInv A val obj g gi base ex marks0 bad0 strat iv' best' s' ∧ Progress g iv iv' := by
  obtain ⟨iv1, b, hcb, hbt, hcast, hn1, hf1, hlin, hbin⟩ := cut_facts hG hI he
  have hcc := check_cut (g := g) (gi := gi) (marks0 := marks0) (bad0 := bad0) hO mx strat extra hex hG
    (obj gi best) b s hI.sinv hbt hcast
  cases hr : checkProgress o mx strat extra (some (.atom ⟨gi, g.dom, strictCmp g, b⟩)) s with
  | mk r s1 =>
  rw [hr] at hcc
  obtain ⟨hsat, hunsat, hinvS, hinvU⟩ := hcc
  cases r with
  | some m =>
    obtain ⟨hfm, hltm⟩ := hsat m rfl
    have hnear' : near g (searchIsSat g iv1 (obj gi m)) = some (obj gi m) :=
      near_searchIsSat_lt g iv1 _ _ (by rw [hn1]; exact hI.nearEq) (by omega)
    have hfar' : far g (searchIsSat g iv1 (obj gi m)) = far g iv := by rw [far_searchIsSat, hf1]
    refine ⟨searchIsSat g iv1 (obj gi m), m, s1, ?_, ?_, ?_⟩
    · intro n
      rw [searchLoop]
      simp only [he, hcb, hcast, hr]
      simp
    · refine ⟨hfm, hnear', ?_, ?_, ?_, fun _ => pivot_searchIsSat _ _ _, hinvS _ (by omega)⟩
      · intro f hf; rw [hfar'] at hf; exact hI.farBound f hf
      · intro f hf; rw [hfar'] at hf; exact hI.farOk f hf
      · intro hf; rw [hfar'] at hf; exact hI.farNone hf
    · refine ⟨_, _, hI.nearEq, hnear', by omega, ?_⟩
      rw [hfar']
      cases hf : far g iv with
      | none => exact Or.inl ⟨rfl, by omega⟩
      | some f => exact ⟨f, rfl, by omega⟩
  | none =>
    have hno := hunsat rfl
    have hnear' : near g (searchIsUnsat g iv1) = some (obj gi best) := by
      rw [near_searchIsUnsat, hn1]; exact hI.nearEq
    refine ⟨searchIsUnsat g iv1, best, s1, ?_, ?_, ?_⟩
    · intro n
      rw [searchLoop]
      simp only [he, hcb, hcast, hr]
      simp
    · cases strat with
      | linear =>
        obtain ⟨hb, hp⟩ := hlin rfl
        subst hb
        have hfar' : far g (searchIsUnsat g iv1) = some (obj gi best) := by
          rw [far_searchIsUnsat_nopivot g iv1 hp, hn1]; exact hI.nearEq
        refine ⟨hI.feas, hnear', ?_, ?_, ?_, ?_, hinvU (fun _ => rfl)⟩
        · intro f hf m hm
          rw [hfar'] at hf; cases hf
          have := hno m hm; omega
        · intro f hf
          rw [hfar'] at hf; cases hf
          exact farOk_of_castOk g _ hcast
        · intro hf; rw [hfar'] at hf; cases hf
        · intro _; rw [pivot_searchIsUnsat]; exact hp
      | binary =>
        obtain ⟨hp, hfb⟩ := hbin rfl
        have hfar' : far g (searchIsUnsat g iv1) = some b := far_searchIsUnsat_pivot g iv1 b hp
        refine ⟨hI.feas, hnear', ?_, ?_, ?_, (fun h => by cases h), hinvU (fun h => by cases h)⟩
        · intro f hf m hm
          rw [hfar'] at hf; cases hf
          have := hno m hm; omega
        · intro f hf
          rw [hfar'] at hf; cases hf
          exact farOk_of_castOk g _ hcast
        · intro hf; rw [hfar'] at hf; cases hf
    · refine ⟨_, _, hI.nearEq, hnear', Int.le_refl _, ?_⟩
      cases strat with
      | linear =>
        obtain ⟨hb, hp⟩ := hlin rfl
        have hfar' : far g (searchIsUnsat g iv1) = some (obj gi best) := by
          rw [far_searchIsUnsat_nopivot g iv1 hp, hn1]; exact hI.nearEq
        cases hf : far g iv with
        | none => exact Or.inr ⟨_, hfar'⟩
        | some f =>
          have := lt_of_not_empty g iv _ f he hI.nearEq hf
          exact ⟨_, hfar', by omega⟩
      | binary =>
        obtain ⟨hp, hfb⟩ := hbin rfl
        have hfar' : far g (searchIsUnsat g iv1) = some b := far_searchIsUnsat_pivot g iv1 b hp
        cases hf : far g iv with
        | none => exact Or.inr ⟨_, hfar'⟩
        | some f =>
          have := hfb f hf
          exact ⟨_, hfar', by omega⟩

/-- what the loop delivers when it stops -/
def LoopPost (A : M → Prop) (val : Nat → M → Val) (obj : Nat → M → Int) (g : Goal) (gi : Nat) (base ex : List Constraint)
    (marks0 : List Nat) (bad0 : Bool) (r : Outcome M × Solver M) : Prop :=
  r.1 = .fuel ∨
  ∃ b, r.1 = .done b ∧ Feas A val base ex b ∧ (∀ m, Feas A val base ex m → sg g (obj gi b) ≤ sg g (obj gi m)) ∧
    ∃ t, SInv A val obj g gi base ex marks0 bad0 t r.2

/-- partial correctness of the loop, for every oracle and every amount of fuel -/
theorem loop_correct (hO : OracleSpec A val o) {mx : Mixin} {strat : Strat} {extra : List Constraint}
    (hex : ex = effExtra mx extra) (hG : GoalReads A val obj g gi) :
    ∀ (n : Nat) (iv : Interval) (best : M) (s : Solver M),
      LInv A val obj g gi base ex marks0 bad0 strat iv best s →
      LoopPost A val obj g gi base ex marks0 bad0 (searchLoop o obj mx strat g gi extra n iv best s) := by
  intro n
  induction n with
  | zero => intro iv best s _; exact Or.inl rfl
  | succ n ih =>
    intro iv best s hI
    cases he : iv.empty with
    | true =>
      right
      obtain ⟨nn, f, hn, hf, hle⟩ := (empty_iff g iv).1 he
      rw [hI.nearEq] at hn; cases hn
      refine ⟨best, by rw [searchLoop]; simp [he], hI.feas, ?_, _, by rw [searchLoop]; simp only [he]; exact hI.sinv⟩
      intro m hm
      have := hI.farBound f hf m hm
      omega
    | false =>
      obtain ⟨iv', best', s', heq, hI', _⟩ := step_spec hO hex hG hI he
      rw [heq n]
      exact ih iv' best' s' hI'

/-- phase 2 of the termination argument: both bounds known -/
theorem loop_terminates_bounded (hO : OracleSpec A val o) {mx : Mixin} {strat : Strat} {extra : List Constraint}
    (hex : ex = effExtra mx extra) (hG : GoalReads A val obj g gi) :
    ∀ (k : Nat) (iv : Interval) (best : M) (s : Solver M) (nn f : Int),
      LInv A val obj g gi base ex marks0 bad0 strat iv best s →
      near g iv = some nn → far g iv = some f → sg g nn - sg g f ≤ (k : Int) →
      ∀ n, n ≥ k + 1 → (searchLoop o obj mx strat g gi extra n iv best s).1 ≠ .fuel := by
  intro k
  induction k with
  | zero =>
    intro iv best s nn f hI hn hf hk n hge
    have he : iv.empty = true := (empty_iff g iv).2 ⟨nn, f, hn, hf, by omega⟩
    obtain ⟨n', rfl⟩ : ∃ n', n = n' + 1 := ⟨n - 1, by omega⟩
    rw [searchLoop]; simp [he]
  | succ k ih =>
    intro iv best s nn f hI hn hf hk n hge
    obtain ⟨n', rfl⟩ : ∃ n', n = n' + 1 := ⟨n - 1, by omega⟩
    cases he : iv.empty with
    | true => rw [searchLoop]; simp [he]
    | false =>
      obtain ⟨iv', best', s', heq, hI', n1, n2, hp1, hp2, _, hp4⟩ := step_spec hO hex hG hI he
      rw [hf] at hp4
      obtain ⟨f', hf', hlt⟩ := hp4
      rw [hn] at hp1; cases hp1
      rw [heq n']
      exact ih iv' best' s' n2 f' hI' hp2 hf' (by omega) n' (by omega)

/-- termination: if the optimum is attained the loop stops, whatever the oracle answers -/
theorem loop_terminates (hO : OracleSpec A val o) {mx : Mixin} {strat : Strat} {extra : List Constraint}
    (hex : ex = effExtra mx extra) (hG : GoalReads A val obj g gi)
    (mo : M) (hmo : ∀ m, Feas A val base ex m → sg g (obj gi mo) ≤ sg g (obj gi m)) :
    ∀ (k : Nat) (iv : Interval) (best : M) (s : Solver M),
      LInv A val obj g gi base ex marks0 bad0 strat iv best s →
      sg g (obj gi best) - sg g (obj gi mo) ≤ (k : Int) →
      ∃ N, ∀ n, n ≥ N → (searchLoop o obj mx strat g gi extra n iv best s).1 ≠ .fuel := by
  intro k
  induction k with
  | zero =>
    intro iv best s hI hk
    cases hfar : far g iv with
    | some f =>
      exact ⟨_, loop_terminates_bounded hO hex hG (sg g (obj gi best) - sg g f).toNat iv best s _ f hI hI.nearEq hfar
        (by omega)⟩
    | none =>
      have he := empty_false_of_far_none g iv hfar
      obtain ⟨iv', best', s', heq, hI', n1, n2, hp1, hp2, hp3, hp4⟩ := step_spec hO hex hG hI he
      rw [hfar] at hp4
      rw [hI.nearEq] at hp1; cases hp1
      rw [hI'.nearEq] at hp2; cases hp2
      rcases hp4 with ⟨_, hlt⟩ | ⟨f', hf'⟩
      · have := hmo best' hI'.feas; omega
      · refine ⟨(sg g (obj gi best') - sg g f').toNat + 1 + 1, ?_⟩
        intro n hge
        obtain ⟨n', rfl⟩ : ∃ n', n = n' + 1 := ⟨n - 1, by omega⟩
        rw [heq n']
        exact loop_terminates_bounded hO hex hG (sg g (obj gi best') - sg g f').toNat iv' best' s' _ f' hI' hI'.nearEq hf'
          (by omega) n' (by omega)
  | succ k ih =>
    intro iv best s hI hk
    cases hfar : far g iv with
    | some f =>
      exact ⟨_, loop_terminates_bounded hO hex hG (sg g (obj gi best) - sg g f).toNat iv best s _ f hI hI.nearEq hfar
        (by omega)⟩
    | none =>
      have he := empty_false_of_far_none g iv hfar
      obtain ⟨iv', best', s', heq, hI', n1, n2, hp1, hp2, hp3, hp4⟩ := step_spec hO hex hG hI he
      rw [hfar] at hp4
      rw [hI.nearEq] at hp1; cases hp1
      rw [hI'.nearEq] at hp2; cases hp2
      rcases hp4 with ⟨_, hlt⟩ | ⟨f', hf'⟩
      · obtain ⟨N, hN⟩ := ih iv' best' s' hI' (by omega)
        refine ⟨N + 1, ?_⟩
        intro n hge
        obtain ⟨n', rfl⟩ : ∃ n', n = n' + 1 := ⟨n - 1, by omega⟩
        rw [heq n']
        exact hN n' (by omega)
      · refine ⟨(sg g (obj gi best') - sg g f').toNat + 1 + 1, ?_⟩
        intro n hge
        obtain ⟨n', rfl⟩ : ∃ n', n = n' + 1 := ⟨n - 1, by omega⟩
        rw [heq n']
        exact loop_terminates_bounded hO hex hG (sg g (obj gi best') - sg g f').toNat iv' best' s' _ f' hI' hI'.nearEq hf'
          (by omega) n' (by omega)

end
end PySMT.Opt
