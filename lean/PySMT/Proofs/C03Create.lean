import PySMT.Impl.CreateNode
import PySMT.Proofs.C03Tree
/-!
# C03 — `create_node`: everything a history of constructor calls hands out is `wt`
-/
namespace PySMT
namespace CreateNode
open C03

/-- what `createNode` returns is the node itself, and only if the checker accepts it -/
theorem createNode_some {s : Mgr} {op args p t} (h : (createNode s op args p).2 = some t) :
    t = .node op args p ∧ (Term.node op args p).typeOf.isSome = true := by
  simp only [createNode] at h
  split at h
  · next hs => cases h; exact ⟨rfl, hs⟩
  · cases h

/-- an application the checker rejects returns no formula ("raises") -/
theorem createNode_rejects (s : Mgr) (op : Op) (args : List Term) (p : Payload)
    (h : (Term.node op args p).typeOf = none) : (createNode s op args p).2 = none := by
  simp [createNode, h]

/-- a node over well-typed arguments that `createNode` returns is well-typed -/
theorem createNode_wt {s : Mgr} {op args p t} (hargs : ∀ a ∈ args, a.wt = true)
    (h : (createNode s op args p).2 = some t) : t.wt = true := by
  obtain ⟨rfl, hs⟩ := createNode_some h
  rw [typeOf_node] at hs
  exact (wt_node op args p).2 ⟨hargs, hs⟩

theorem lookupArgs_mem : ∀ (results : List (Option Term)) (is : List Nat) (args : List Term),
    lookupArgs results is = some args → ∀ a ∈ args, some a ∈ results
  | _, [], args, h => by simp [lookupArgs] at h; subst h; simp
  | results, i :: is, args, h => by
    simp only [lookupArgs] at h
    split at h
    · next t ts hi hrest =>
      cases h
      intro a ha
      rcases List.mem_cons.1 ha with rfl | ha
      · exact List.mem_of_getElem? hi
      · exact lookupArgs_mem results is ts hrest a ha
    · cases h

/-- invariant: every result so far is well-typed -/
def Inv (h : Hist) : Prop := ∀ t, some t ∈ h.results → t.wt = true

theorem inv_init : Inv Hist.init := by intro t ht; simp [Hist.init] at ht

theorem inv_step {h : Hist} (c : Call) (hi : Inv h) : Inv (step h c) := by
  intro t ht
  simp only [step] at ht
  split at ht
  · simp only [List.mem_append, List.mem_singleton, reduceCtorEq, or_false] at ht
    exact hi t ht
  · next args hargs =>
    simp only [List.mem_append, List.mem_singleton] at ht
    rcases ht with ht | ht
    · exact hi t ht
    · exact createNode_wt (fun a ha => hi a (lookupArgs_mem _ _ _ hargs a ha)) ht.symm

theorem inv_foldl : ∀ (calls : List Call) (h : Hist), Inv h → Inv (calls.foldl step h)
  | [], _, hi => hi
  | c :: cs, h, hi => inv_foldl cs (step h c) (inv_step c hi)

/-- **Every formula returned by any sequence of constructor calls is well-typed.** -/
theorem created_all_wt (calls : List Call) : ∀ t ∈ (run calls).returned, t.wt = true := by
  intro t ht
  simp only [Hist.returned, List.mem_filterMap, id] at ht
  obtain ⟨r, hr, rfl⟩ := ht
  exact inv_foldl calls Hist.init inv_init t hr

end CreateNode
end PySMT
