import PySMT.Proofs.C07Real
/-!
# C07 (`read_toSexp`, continued): array values (a chain of stores over `(as const σ)`), binders
-/
namespace PySMT.Printer
open PySMT.Std PySMT.Sexp

theorem pairsOf_map {α β} (f : α → β) : ∀ (l : List α), pairsOf (l.map f) = (pairsOf l).map (fun kv => (f kv.1, f kv.2))
  | [] => rfl
  | [_] => rfl
  | k :: v :: more => by simp [pairsOf, pairsOf_map f more]

theorem mem_pairsOf {α} : ∀ (l : List α) (kv : α × α), kv ∈ pairsOf l → kv.1 ∈ l ∧ kv.2 ∈ l
  | [], kv, h => by simp [pairsOf] at h
  | [_], kv, h => by simp [pairsOf] at h
  | k :: v :: more, kv, h => by
    simp only [pairsOf, List.mem_cons] at h
    rcases h with rfl | h
    · simp
    · have := mem_pairsOf more kv h
      simp [this.1, this.2]

theorem zip_map_self {α β} (g : α → β) : ∀ (l : List α), l.zip (l.map g) = l.map (fun x => (x, g x))
  | [] => rfl
  | x :: l => by simp [zip_map_self g l]

theorem insertBy_map {α β} (key : α → String) (key' : β → String) (g : α → β) (hk : ∀ x, key' (g x) = key x) (x : α) :
    ∀ (acc : List α), insertBy key' (g x) (acc.map g) = (insertBy key x acc).map g
  | [] => rfl
  | y :: ys => by
    simp only [List.map_cons, insertBy, hk]
    split
    · rfl
    · simp [insertBy_map key key' g hk x ys]

theorem sortBy_map {α β} (key : α → String) (key' : β → String) (g : α → β) (hk : ∀ x, key' (g x) = key x) (l : List α) :
    sortBy key' (l.map g) = (sortBy key l).map g := by
  unfold sortBy
  rw [← List.map_reverse]
  generalize l.reverse = r
  have : ∀ (r : List α) (acc : List α),
      List.foldl (fun acc x => insertBy key' x acc) (acc.map g) (r.map g)
        = (List.foldl (fun acc x => insertBy key x acc) acc r).map g := by
    intro r
    induction r with
    | nil => intro acc; rfl
    | cons x r ih => intro acc; simp only [List.map_cons, List.foldl_cons, insertBy_map key key' g hk, ih]
  exact this r []

theorem mem_insertBy {α} (key : α → String) (x y : α) : ∀ (acc : List α), y ∈ insertBy key x acc → y = x ∨ y ∈ acc
  | [], h => by simpa [insertBy] using h
  | z :: zs, h => by
    simp only [insertBy] at h
    split at h
    · simpa using h
    · simp only [List.mem_cons] at h
      rcases h with rfl | h
      · simp
      · rcases mem_insertBy key x y zs h with h | h <;> simp [h]

theorem mem_sortBy {α} (key : α → String) (l : List α) (y : α) (h : y ∈ sortBy key l) : y ∈ l := by
  unfold sortBy at h
  have : ∀ (r acc : List α), y ∈ List.foldl (fun acc x => insertBy key x acc) acc r → y ∈ r ∨ y ∈ acc := by
    intro r
    induction r with
    | nil => intro acc h; exact Or.inr h
    | cons x r ih =>
      intro acc h
      rcases ih _ h with h | h
      · simp [h]
      · rcases mem_insertBy key x y acc h with rfl | h <;> simp_all
  rcases this _ _ h with h | h
  · simpa using h
  · simp at h

theorem dictInsert_append {β} (e : (Term × Term) × (β × β)) : ∀ (acc : List ((Term × Term) × (β × β))),
    (∀ x ∈ acc, x.1.1 ≠ e.1.1) → dictInsert e acc = acc ++ [e]
  | [], _ => rfl
  | x :: xs, h => by
    have hx : (x.1.1 == e.1.1) = false := by simpa using h x (by simp)
    simp only [dictInsert, hx, Bool.false_eq_true, if_false, List.cons_append,
      dictInsert_append e xs (fun y hy => h y (List.mem_cons_of_mem _ hy))]

/-- with pairwise different keys the dictionary of assignments is the list of assignments -/
theorem dictPairs_id {β} (l : List ((Term × Term) × (β × β))) (h : l.Pairwise (fun a b => a.1.1 ≠ b.1.1)) :
    dictPairs l = l := by
  unfold dictPairs
  have : ∀ (l acc : List ((Term × Term) × (β × β))), (acc ++ l).Pairwise (fun a b => a.1.1 ≠ b.1.1) →
      List.foldl (fun acc e => dictInsert e acc) acc l = acc ++ l := by
    intro l
    induction l with
    | nil => intro acc _; simp
    | cons e l ih =>
      intro acc hp
      simp only [List.foldl_cons]
      have hne : ∀ x ∈ acc, x.1.1 ≠ e.1.1 := by
        intro x hx
        exact (List.pairwise_append.1 hp).2.2 x hx e (by simp)
      rw [dictInsert_append e acc hne, ih (acc ++ [e]) (by simpa using hp)]
      simp
  simpa using this l [] (by simpa using h)

theorem termsDistinct_spec : ∀ (l : List Term), termsDistinct l = true → l.Pairwise (· ≠ ·)
  | [], _ => List.Pairwise.nil
  | x :: xs, h => by
    simp only [termsDistinct, Bool.and_eq_true, Bool.not_eq_true'] at h
    refine List.Pairwise.cons ?_ (termsDistinct_spec xs h.2)
    intro y hy e
    subst e
    have := h.1
    simp only [List.contains_eq_mem, decide_eq_false_iff_not] at this
    exact this hy

/-- the zipped assignments of an array value with pairwise different keys -/
theorem dictPairs_zip {β} (g : Term → β) (rest : List Term) (h : termsDistinct ((pairsOf rest).map (·.1)) = true) :
    dictPairs ((pairsOf rest).zip (pairsOf (rest.map g))) = (pairsOf rest).zip (pairsOf (rest.map g)) := by
  apply dictPairs_id
  rw [pairsOf_map, zip_map_self, List.pairwise_map]
  have := termsDistinct_spec _ h
  rw [List.pairwise_map] at this
  exact this

theorem mem_pairsOf_zip {α β} : ∀ (l1 : List α) (l2 : List β) (e : (α × α) × (β × β)),
    e ∈ (pairsOf l1).zip (pairsOf l2) → e.2.1 ∈ l2 ∧ e.2.2 ∈ l2 := by
  intro l1 l2 e he
  have := (List.of_mem_zip he).2
  exact mem_pairsOf l2 e.2 this

/-- what is printed for an entry of the dictionary of assignments was printed for some assignment -/
theorem mem_dictInsert {β} (e : (Term × Term) × (β × β)) : ∀ (acc : List ((Term × Term) × (β × β))) (z : (Term × Term) × (β × β)),
    z ∈ dictInsert e acc →
      (∃ x ∈ e :: acc, x.2.1 = z.2.1) ∧ (∃ y ∈ e :: acc, y.2.2 = z.2.2)
  | [], z, h => by
    simp only [dictInsert, List.mem_singleton] at h
    subst h
    exact ⟨⟨_, by simp, rfl⟩, ⟨_, by simp, rfl⟩⟩
  | x :: xs, z, h => by
    simp only [dictInsert] at h
    split at h
    · rcases List.mem_cons.1 h with rfl | h
      · exact ⟨⟨x, by simp, rfl⟩, ⟨e, by simp, rfl⟩⟩
      · exact ⟨⟨z, by simp [h], rfl⟩, ⟨z, by simp [h], rfl⟩⟩
    · rcases List.mem_cons.1 h with rfl | h
      · exact ⟨⟨_, by simp, rfl⟩, ⟨_, by simp, rfl⟩⟩
      · obtain ⟨⟨a, ha, ha1⟩, ⟨b, hb, hb2⟩⟩ := mem_dictInsert e xs z h
        refine ⟨⟨a, ?_, ha1⟩, ⟨b, ?_, hb2⟩⟩
        · rcases List.mem_cons.1 ha with rfl | ha
          · simp
          · simp [ha]
        · rcases List.mem_cons.1 hb with rfl | hb
          · simp
          · simp [hb]

theorem mem_dictPairs {β} (l : List ((Term × Term) × (β × β))) (z : (Term × Term) × (β × β)) (h : z ∈ dictPairs l) :
    (∃ x ∈ l, x.2.1 = z.2.1) ∧ (∃ y ∈ l, y.2.2 = z.2.2) := by
  unfold dictPairs at h
  have : ∀ (l acc : List ((Term × Term) × (β × β))), z ∈ List.foldl (fun acc e => dictInsert e acc) acc l →
      (∃ x ∈ acc ++ l, x.2.1 = z.2.1) ∧ (∃ y ∈ acc ++ l, y.2.2 = z.2.2) := by
    intro l
    induction l with
    | nil =>
      intro acc h
      simp only [List.foldl_nil] at h
      exact ⟨⟨z, by simpa using h, rfl⟩, ⟨z, by simpa using h, rfl⟩⟩
    | cons e l ih =>
      intro acc h
      simp only [List.foldl_cons] at h
      obtain ⟨⟨x, hx, hx1⟩, ⟨y, hy, hy2⟩⟩ := ih _ h
      have conv : ∀ w, w ∈ dictInsert e acc ++ l →
          (∃ x ∈ acc ++ e :: l, x.2.1 = w.2.1) ∧ (∃ y ∈ acc ++ e :: l, y.2.2 = w.2.2) := by
        intro w hw
        rcases List.mem_append.1 hw with hw | hw
        · obtain ⟨⟨a, ha, ha1⟩, ⟨b, hb, hb2⟩⟩ := mem_dictInsert e acc w hw
          refine ⟨⟨a, ?_, ha1⟩, ⟨b, ?_, hb2⟩⟩
          · rcases List.mem_cons.1 ha with rfl | ha <;> simp [*]
          · rcases List.mem_cons.1 hb with rfl | hb <;> simp [*]
        · exact ⟨⟨w, by simp [hw], rfl⟩, ⟨w, by simp [hw], rfl⟩⟩
      obtain ⟨⟨a, ha, ha1⟩, _⟩ := conv x hx
      obtain ⟨_, ⟨b, hb, hb2⟩⟩ := conv y hy
      exact ⟨⟨a, ha, ha1.trans hx1⟩, ⟨b, hb, hb2.trans hy2⟩⟩
  simpa using this l [] h

/-- the S-expressions printed for an entry of an array value (either printer's order) were printed for its arguments -/
theorem mem_avEnts (srt : Bool) (rest : List Term) (toS : Term → Sexp) (e : (Term × Term) × (Sexp × Sexp))
    (he : e ∈ (if srt then sortBy (fun e : (Term × Term) × (Sexp × Sexp) => hrStr e.1.1)
        (dictPairs ((pairsOf rest).zip (pairsOf (rest.map toS)))) else (pairsOf rest).zip (pairsOf (rest.map toS)))) :
    e.2.1 ∈ rest.map toS ∧ e.2.2 ∈ rest.map toS := by
  cases srt
  · exact mem_pairsOf_zip rest (rest.map toS) e he
  · obtain ⟨⟨x, hx, hx1⟩, ⟨y, hy, hy2⟩⟩ := mem_dictPairs _ e (mem_sortBy _ _ _ he)
    exact ⟨hx1 ▸ (mem_pairsOf_zip rest (rest.map toS) x hx).1, hy2 ▸ (mem_pairsOf_zip rest (rest.map toS) y hy).2⟩

section
variable (sp : Spell) (hsp : SpellStd sp) (env : SEnv) (sc : List Binding) (hsc : ThFree sc) (srt : Bool)
  (toS : Term → Sexp) (scope0 : List Sym)
include hsp hsc

/-- reading a chain of stores -/
theorem rd_storeChain (idx e : Ty) : ∀ (l : List (Term × Term)),
    (∀ kv ∈ l, Reads env sc srt toS kv.1 ∧ Reads env sc srt toS kv.2 ∧ tyD kv.1 = idx ∧ tyD kv.2 = e) →
    ∀ (accS : Sexp) (accT : Term), rd env sc accS = .ok (accT, .array idx e) →
    rd env sc
        (l.foldl (fun acc kv => Sexp.list [.atom (sp "walk_array_value:0"), acc, toS kv.1, toS kv.2]) accS)
      = .ok (l.foldl (fun acc kv => Term.node .arrayStore [acc, unfoldAVw srt kv.1, unfoldAVw srt kv.2] .none) accT, .array idx e)
  | [], _, accS, accT, h => h
  | kv :: l, hl, accS, accT, h => by
    simp only [List.foldl_cons]
    obtain ⟨hk, hv, htk, htv⟩ := hl kv (by simp)
    apply rd_storeChain idx e l (fun x hx => hl x (List.mem_cons_of_mem _ hx))
    rw [spell sp hsp "walk_array_value:0" "store" (by decide),
      rd_op env sc hsc "store" (by decide) _ [(accT, .array idx e), U srt kv.1, U srt kv.2]
        (by simp [rdList, h, hk.2, hv.2]) (by simp)]
    simp only [U, htk, htv]
    exact ap_store _ _ _ _ _

theorem reads_arrayValue (p : Payload) (args : List Term) (τ : Ty)
    (hargs : ∀ a ∈ args, Reads env sc srt toS a) (hty : (Term.node .arrayValue args p).typeOf = some τ)
    (hS : stdTy .arrayValue p (args.map tyD) = some τ) (hok : nodeOK env scope0 .arrayValue p args = true) :
    NodeReads sp env sc srt toS .arrayValue args p := by
  simp only [stdTy] at hS
  split at hS
  · next ts idx dT restT hts =>
    split at hS <;> simp at hS
    rename_i hc
    simp only [Bool.and_eq_true, beq_iff_eq] at hc
    obtain ⟨_, hpairs⟩ := hc
    subst hS
    cases args with
    | nil => simp at hts
    | cons d rest =>
      simp only [List.map_cons, List.cons.injEq] at hts
      obtain ⟨hd, hrest⟩ := hts
      simp only [nodeOK, Bool.and_eq_true] at hok
      obtain ⟨hsidx, hse, hdist⟩ := hok
      have hdty := (hargs d (by simp)).1
      have hse' : SortOK env dT = true := by
        rw [hdty] at hse; simpa [hd] using hse
      -- the sorted assignments
      let S := if srt then sortBy (fun kv : Term × Term => hrStr kv.1) (pairsOf rest) else pairsOf rest
      have hS1 : (if srt then sortBy (fun e : (Term × Term) × (Sexp × Sexp) => hrStr e.1.1)
          (dictPairs ((pairsOf rest).zip (pairsOf (rest.map toS)))) else (pairsOf rest).zip (pairsOf (rest.map toS)))
          = S.map (fun kv => (kv, (toS kv.1, toS kv.2))) := by
        rw [dictPairs_zip toS rest hdist, pairsOf_map, zip_map_self]
        cases srt
        · rfl
        · exact sortBy_map _ _ _ (fun _ => rfl) _
      have hS2 : (if srt then sortBy (fun e : (Term × Term) × (Term × Term) => hrStr e.1.1)
          ((pairsOf rest).zip (pairsOf (rest.map (unfoldAVw srt)))) else (pairsOf rest).zip (pairsOf (rest.map (unfoldAVw srt))))
          = S.map (fun kv => (kv, (unfoldAVw srt kv.1, unfoldAVw srt kv.2))) := by
        rw [pairsOf_map, zip_map_self]
        cases srt
        · rfl
        · exact sortBy_map _ _ _ (fun _ => rfl) _
      have hunf : unfoldAVw srt (.node .arrayValue (d :: rest) (.ty idx)) =
          S.foldl (fun acc kv => Term.node .arrayStore [acc, unfoldAVw srt kv.1, unfoldAVw srt kv.2] .none)
            (.node .arrayValue [unfoldAVw srt d] (.ty idx)) := by
        conv => lhs; unfold unfoldAVw
        simp only [List.map_cons]
        rw [hS2, List.foldl_map]
      apply reads_of sp env sc srt toS _ _ _ _ _ hty hunf
      simp only [nodeSexp, List.map_cons, storeChain]
      rw [hS1, List.map_map, List.foldl_map]
      -- every assignment is read back with the right sorts
      have hmem : ∀ kv ∈ S, Reads env sc srt toS kv.1 ∧ Reads env sc srt toS kv.2 ∧ tyD kv.1 = idx ∧ tyD kv.2 = dT := by
        intro kv hkv
        have hin : kv ∈ pairsOf rest := by
          cases srt
          · exact hkv
          · exact mem_sortBy _ _ _ hkv
        have ⟨h1, h2⟩ := mem_pairsOf rest kv hin
        refine ⟨hargs _ (List.mem_cons_of_mem _ h1), hargs _ (List.mem_cons_of_mem _ h2), ?_⟩
        rw [← hrest, pairsOf_map, List.all_map, List.all_eq_true] at hpairs
        have := hpairs kv hin
        simpa using this
      refine rd_storeChain sp hsp env sc hsc srt toS idx dT S hmem _ _ ?_
      -- the constant array
      have hsort : sortStd env (arrTySexp idx d) = .ok (.array idx dT) := by
        have : arrTySexp idx d = tySexp (.array idx dT) := by
          simp [arrTySexp, hdty, hd, tySexp]
        rw [this]
        exact sortStd_tySexp env _ (by simp [SortOK, hsidx, hse'])
      have hc := symName_lits.2.2.2.2.2.2.1
      rw [spell sp hsp "walk_array_value:1" "as" (by decide), spell sp hsp "walk_array_value:2" "const" (by decide)]
      simp [rd, rdList, (hargs d (by simp)).2, applyHead, hc, hsort, U, hd]
  · simp at hS

end

end PySMT.Printer
