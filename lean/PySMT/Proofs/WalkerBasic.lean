import PySMT.Impl.Walker

/-! Basic lemmas on the generic walker model: the association-list memo is lawful, `iter` composes,
    `spec` unfolds, and the one-step invariants (`MemoOK`, `DownClosed`) used by C14/C15/C20. -/

namespace PySMT.Walker
set_option linter.unusedSectionVars false

section amemo
variable {N R : Type} [DecidableEq N]

theorem alook_cons (m : AMemo N R) (n x : N) (v : R) :
    look ((n, v) :: m : AMemo N R) x = if x = n then some v else look m x := by
  show List.lookup x ((n, v) :: m) = _
  by_cases h : x = n
  · subst h; simp [List.lookup]
  · have : (x == n) = false := by simp [h]
    simp [List.lookup, h, this]
    rfl

instance : LawfulMemo (AMemo N R) N R where
  look_empty := fun _ => rfl
  look_insert := fun m n r x => alook_cons m n x r

end amemo

section
variable {M N R E : Type} [DecidableEq N] [MemoLike M N R]

/-! ### `iter` -/

theorem iter_zero (g : Graph N) (d : N → Bool) (f : List N → N → List R → Except E R) (s : WState M N) :
    iter g d f 0 s = .run s := rfl

theorem step_nil (g : Graph N) (d : N → Bool) (f : List N → N → List R → Except E R) (s : WState M N)
    (h : s.stack = []) : step g d f s = .run s := by
  unfold step; rw [h]

theorem iter_nil (g : Graph N) (d : N → Bool) (f : List N → N → List R → Except E R) (k : Nat) (s : WState M N)
    (h : s.stack = []) : iter g d f k s = .run s := by
  cases k with
  | zero => rfl
  | succ k => unfold iter; rw [h]

theorem iter_succ (g : Graph N) (d : N → Bool) (f : List N → N → List R → Except E R) (k : Nat) (s : WState M N) :
    iter g d f (k + 1) s =
      match step g d f s with
      | .run s' => iter g d f k s'
      | .fail e s' => .fail e s' := by
  cases h : s.stack with
  | nil =>
    rw [step_nil g d f s h, iter_nil g d f _ s h]
    exact (iter_nil g d f k s h).symm
  | cons a t => rw [iter]; rw [h]; cases step g d f s <;> rfl

/-- continuation of a run -/
def Res.bind (r : Res E M N) (k : WState M N → Res E M N) : Res E M N :=
  match r with
  | .run s => k s
  | .fail e s => .fail e s

theorem iter_add (g : Graph N) (d : N → Bool) (f : List N → N → List R → Except E R) (a b : Nat) (s : WState M N) :
    iter g d f (a + b) s = (iter g d f a s).bind (iter g d f b) := by
  induction a generalizing s with
  | zero => simp [iter, Res.bind]
  | succ a ih =>
    rw [Nat.succ_add, iter_succ, iter_succ]
    cases h : step g d f s with
    | run s' => simp only [ih]
    | fail e s' => simp [Res.bind]

theorem iter_run_add {g : Graph N} {d : N → Bool} {f : List N → N → List R → Except E R} {a : Nat}
    {s s' : WState M N} (h : iter g d f a s = .run s') (b : Nat) :
    iter g d f (a + b) s = iter g d f b s' := by
  rw [iter_add, h]; rfl

theorem iter_fail_add {g : Graph N} {d : N → Bool} {f : List N → N → List R → Except E R} {a : Nat}
    {s s' : WState M N} {e : Err E} (h : iter g d f a s = .fail e s') (b : Nat) :
    iter g d f (a + b) s = .fail e s' := by
  rw [iter_add, h]; rfl

/-- once finished (or failed), more fuel changes nothing -/
theorem iter_mono_run {g : Graph N} {d : N → Bool} {f : List N → N → List R → Except E R} {a : Nat}
    {s s' : WState M N} (h : iter g d f a s = .run s') (hs : s'.stack = []) (b : Nat) (hb : a ≤ b) :
    iter g d f b s = .run s' := by
  obtain ⟨c, rfl⟩ := Nat.exists_eq_add_of_le hb
  rw [iter_run_add h, iter_nil g d f c s' hs]

theorem iter_mono_fail {g : Graph N} {d : N → Bool} {f : List N → N → List R → Except E R} {a : Nat}
    {s s' : WState M N} {e : Err E} (h : iter g d f a s = .fail e s') (b : Nat) (hb : a ≤ b) :
    iter g d f b s = .fail e s' := by
  obtain ⟨c, rfl⟩ := Nat.exists_eq_add_of_le hb
  exact iter_fail_add h c

end

/-! ### `collect` and `spec` -/

section
variable {N R E α β : Type}

theorem collect_map (sp : β → Except E R) (h : α → β) (l : List α) :
    collect sp (l.map h) = collect (fun a => sp (h a)) l := by
  induction l with
  | nil => rfl
  | cons a l ih => simp only [List.map_cons, collect, ih]

theorem collect_attach (sp : α → Except E R) (l : List α) :
    collect (fun c : {c // c ∈ l} => sp c.1) l.attach = collect sp l := by
  have := collect_map sp (Subtype.val : {c // c ∈ l} → α) l.attach
  rw [List.attach_map_subtype_val] at this
  exact this.symm

theorem spec_eq (g : Graph N) (d : N → Bool) (f : N → List R → Except E R) (n : N) :
    spec g d f n =
      match collect (spec g d f) (kids g d n) with
      | .error e => .error e
      | .ok args => f n args := by
  rw [spec]
  unfold kids
  by_cases h : d n
  · simp [h, collect]
  · simp only [h, Bool.false_eq_true, if_false]
    rw [collect_attach (spec g d f) (g.children n)]
    cases collect (spec g d f) (g.children n) <;> rfl

/-- the error of an outcome, if any -/
def errOf {γ : Type} : Except E γ → Option E
  | .error e => some e
  | .ok _ => none

theorem errOf_eq_some {γ : Type} (x : Except E γ) (e : E) : errOf x = some e ↔ x = .error e := by
  cases x <;> simp [errOf]

theorem errOf_eq_none {γ : Type} (x : Except E γ) : errOf x = none ↔ ∃ r, x = .ok r := by
  cases x <;> simp [errOf]

theorem errOf_collect_cons (sp : α → Except E R) (a : α) (l : List α) :
    errOf (collect sp (a :: l)) =
      match errOf (collect sp l) with
      | some e => some e
      | none => errOf (sp a) := by
  simp only [collect]
  cases collect sp l with
  | error e => rfl
  | ok rs => cases sp a <;> rfl

/-- dropping sub-computations that succeed does not change the error -/
theorem errOf_collect_filter (sp : α → Except E R) (p : α → Bool) (l : List α)
    (hok : ∀ a ∈ l, p a = false → ∃ r, sp a = .ok r) :
    errOf (collect sp (l.filter p)) = errOf (collect sp l) := by
  induction l with
  | nil => rfl
  | cons a l ih =>
    have ih' := ih (fun a' ha' => hok a' (List.mem_cons_of_mem _ ha'))
    by_cases hp : p a = true
    · simp only [List.filter_cons, hp, if_true]
      rw [errOf_collect_cons, errOf_collect_cons, ih']
    · have hp' : p a = false := by simpa using hp
      simp only [List.filter_cons, hp']
      obtain ⟨r, hr⟩ := hok a List.mem_cons_self hp'
      rw [errOf_collect_cons, hr]
      simp only [Bool.false_eq_true, if_false, ih']
      cases errOf (collect sp l) <;> rfl

end

end PySMT.Walker
