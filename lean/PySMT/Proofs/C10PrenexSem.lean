import PySMT.Proofs.C10Prenex
/-!
# C10 — semantics of a quantifier prefix as a predicate transformer, and the laws used to
move quantifier blocks across conjunctions / disjunctions / negations
-/
namespace PySMT.Rewritings

/-- the meaning of a prefix (innermost block first) applied to the meaning `k` of the matrix -/
def qsem : List QBlock → (Interp → Bool) → Interp → Bool
  | [], k => k
  | (q, vs) :: rest, k => qsem rest (fun J => J.quant (!q) vs k)

theorem qsem_append : ∀ (a b : List QBlock) (k : Interp → Bool), qsem (a ++ b) k = qsem b (qsem a k)
  | [], _, _ => rfl
  | (q, vs) :: rest, b, k => by simp only [List.cons_append, qsem]; exact qsem_append rest b _

theorem qsem_congr_wf : ∀ (qs : List QBlock) (k k' : Interp → Bool), (∀ J : Interp, J.WF → k J = k' J) →
    ∀ I : Interp, I.WF → qsem qs k I = qsem qs k' I
  | [], _, _, h, I, hI => h I hI
  | (q, vs) :: rest, k, k', h, I, hI => by
    simp only [qsem]
    exact qsem_congr_wf rest _ _ (fun J hJ => quant_congr_wf _ k k' h vs J hJ) I hI

/-- `wrapBlocks` denotes `qsem` -/
theorem wrap_sem : ∀ (qs : List QBlock) (m : Term), WB m →
    WB (wrapBlocks qs m) ∧ ∀ I : Interp, I.WF → truth I (wrapBlocks qs m) = qsem qs (fun J => truth J m) I
  | [], m, h => ⟨h, fun _ _ => rfl⟩
  | (q, vs) :: rest, m, h => by
    have hm' : WB (if q then mkExists vs m else mkForall vs m) := by
      split
      · exact wb_mkExists h
      · exact wb_mkForall h
    have ih := wrap_sem rest _ hm'
    have hw : wrapBlocks ((q, vs) :: rest) m = wrapBlocks rest (if q then mkExists vs m else mkForall vs m) := rfl
    rw [hw]
    refine ⟨ih.1, fun I hI => ?_⟩
    rw [ih.2 I hI]
    simp only [qsem]
    apply qsem_congr_wf rest _ _ _ I hI
    intro J hJ
    cases q
    · simp only [Bool.false_eq_true, if_false, Bool.not_false]
      exact truth_of_eval (eval_mkForall hJ vs h)
    · simp only [if_true, Bool.not_true]
      exact truth_of_eval (eval_mkExists hJ vs h)

/-! ## negation -/

def flipBlocks (qs : List QBlock) : List QBlock := qs.map (fun qv => (!qv.1, qv.2))

theorem qsem_not : ∀ (qs : List QBlock) (k : Interp → Bool) (I : Interp),
    (!qsem qs k I) = qsem (flipBlocks qs) (fun J => !k J) I
  | [], _, _ => rfl
  | (q, vs) :: rest, k, I => by
    simp only [qsem, flipBlocks, List.map_cons]
    rw [qsem_not rest _ I]
    congr 1
    funext J
    rw [quant_not]

theorem boundOf_flip (qs : List QBlock) : boundOf (flipBlocks qs) = boundOf qs := by
  simp only [boundOf, flipBlocks, List.map_map]
  rfl

/-! ## invariance under re-binding a variable the prefix binds anyway -/

def Inv (s : Sym) (k : Interp → Bool) : Prop := ∀ (J : Interp) (v : Val), k (J.bind s v) = k J

theorem bind_bind_same (I : Interp) (s : Sym) (x y : Val) : (I.bind s x).bind s y = I.bind s y := by
  simp only [Interp.bind]
  congr 1
  funext t
  by_cases h : t = s <;> simp [h]

theorem bind_comm (I : Interp) {s s' : Sym} (h : s ≠ s') (x y : Val) :
    (I.bind s x).bind s' y = (I.bind s' y).bind s x := by
  simp only [Interp.bind]
  congr 1
  funext t
  by_cases h1 : t = s
  · have h2 : ¬ t = s' := fun e => h (h1 ▸ e)
    simp [h1, h2, h]
  · by_cases h2 : t = s'
    · simp [h1, h2, Ne.symm h]
    · simp [h1, h2]

theorem inv_quant {s : Sym} {k : Interp → Bool} (all : Bool) :
    ∀ ws : List Sym, (s ∈ ws ∨ Inv s k) → Inv s (fun J => J.quant all ws k)
  | [], h => by
    rcases h with h | h
    · cases h
    · exact h
  | w :: ws, h => by
    intro J v
    have step : ∀ x, ((J.bind s v).bind w x).quant all ws k = (J.bind w x).quant all ws k := by
      intro x
      by_cases hws : w = s
      · subst hws; rw [bind_bind_same]
      · have h' : s ∈ ws ∨ Inv s k := by
          rcases h with h | h
          · simp only [List.mem_cons] at h
            rcases h with rfl | h
            · exact absurd rfl hws
            · exact .inl h
          · exact .inr h
        rw [bind_comm J (Ne.symm hws)]
        exact inv_quant all ws h' (J.bind w x) v
    simp only [Interp.quant]
    have hd : (J.bind s v).dom = J.dom := rfl
    simp only [hd, step]

theorem inv_qsem_of_inv {s : Sym} : ∀ (qs : List QBlock) (k : Interp → Bool), Inv s k → Inv s (qsem qs k)
  | [], _, h => h
  | (q, vs) :: rest, k, h => inv_qsem_of_inv rest _ (inv_quant _ vs (.inr h))

theorem inv_qsem {s : Sym} : ∀ (qs : List QBlock) (k : Interp → Bool), s ∈ boundOf qs → Inv s (qsem qs k)
  | [], _, h => by simp [boundOf] at h
  | (q, vs) :: rest, k, h => by
    simp only [boundOf, List.map_cons, List.flatten_cons, List.mem_append] at h
    simp only [qsem]
    rcases h with h | h
    · exact inv_qsem_of_inv rest _ (inv_quant _ vs (.inl h))
    · exact inv_qsem rest _ h

theorem all_const {α} {l : List α} (h : l ≠ []) (c : Bool) : l.all (fun _ => c) = c := by
  match l, h with
  | x :: rest, _ => cases c <;> simp

theorem any_const {α} {l : List α} (h : l ≠ []) (c : Bool) : l.any (fun _ => c) = c := by
  match l, h with
  | x :: rest, _ => cases c <;> simp

/-- a binder of a variable the body does not depend on can be dropped (non-empty domains) -/
theorem quant_drop {I : Interp} (hI : I.WF) (all : Bool) {v : Sym} {vs : List Sym} {k : Interp → Bool}
    (h : Inv v (fun J => J.quant all vs k)) : I.quant all (v :: vs) k = I.quant all vs k := by
  simp only [Interp.quant]
  have : ∀ x, (I.bind v x).quant all vs k = I.quant all vs k := fun x => h I x
  simp only [this]
  rw [all_const (hI.dom_ne _), any_const (hI.dom_ne _)]
  cases all <;> simp

/-- dropping the variables bound again further inside -/
theorem quant_filter (all : Bool) (B : List Sym) {k : Interp → Bool} (hB : ∀ s ∈ B, Inv s k) :
    ∀ (vs : List Sym) (I : Interp), I.WF →
      I.quant all vs k = I.quant all (vs.filter (fun v => !B.contains v)) k
  | [], _, _ => rfl
  | v :: vs, I, hI => by
    by_cases hv : v ∈ B
    · have hf : (v :: vs).filter (fun v => !B.contains v) = vs.filter (fun v => !B.contains v) := by
        simp [hv]
      rw [hf, quant_drop hI all (inv_quant all vs (.inr (hB v hv)))]
      exact quant_filter all B hB vs I hI
    · have hf : (v :: vs).filter (fun v => !B.contains v) = v :: vs.filter (fun v => !B.contains v) := by
        simp [hv]
      rw [hf]
      simp only [Interp.quant]
      have step : ∀ x ∈ I.dom v.ret, (I.bind v x).quant all vs k =
          (I.bind v x).quant all (vs.filter (fun v => !B.contains v)) k :=
        fun x hx => quant_filter all B hB vs _ (hI.bind v x (hI.dom_sort _ x hx))
      rw [list_all_congr step, list_any_congr step]

/-! ## moving a formula that does not mention the bound variables out of a prefix -/

/-- `k` does not depend on the values of the variables `V` -/
def Indep (V : List Sym) (k : Interp → Bool) : Prop :=
  ∀ (J : Interp) (s : Sym) (v : Val), J.WF → s ∈ V → v.hasSort s.ret = true → k (J.bind s v) = k J

theorem Indep.mono {V W : List Sym} {k : Interp → Bool} (h : Indep V k) (hs : ∀ s ∈ W, s ∈ V) : Indep W k :=
  fun J s v hJ hm hv => h J s v hJ (hs s hm) hv

theorem Indep.congr {V : List Sym} {k k' : Interp → Bool} (h : Indep V k') (he : ∀ J : Interp, J.WF → k J = k' J) :
    Indep V k :=
  fun J s v hJ hm hv => by rw [he _ (hJ.bind s v hv), he _ hJ]; exact h J s v hJ hm hv

theorem indep_truth {V : List Sym} {B : Term} (h : ∀ s ∈ V, s ∉ B.fv) : Indep V (fun J => truth J B) := by
  intro J s v _ hm _
  simp only [truth]
  congr 1
  apply coincidence_gen
  refine ⟨fun x hx => ?_, fun _ _ => rfl, rfl, rfl, rfl⟩
  have : x ≠ s := fun e => h s hm (e ▸ hx)
  simp [Interp.bind, this]

/-- conjunction / disjunction -/
def bop (isAnd : Bool) (a b : Bool) : Bool := if isAnd then a && b else a || b

theorem bop_comm (c a b : Bool) : bop c a b = bop c b a := by
  cases c <;> cases a <;> cases b <;> rfl

theorem bop_and (c a b d : Bool) : (bop c a d && bop c b d) = bop c (a && b) d := by
  cases c <;> cases a <;> cases b <;> cases d <;> rfl

theorem bop_or (c a b d : Bool) : (bop c a d || bop c b d) = bop c (a || b) d := by
  cases c <;> cases a <;> cases b <;> cases d <;> rfl

theorem list_all_bop {α} (c : Bool) (f : α → Bool) (d : Bool) : ∀ {l : List α}, l ≠ [] →
    l.all (fun x => bop c (f x) d) = bop c (l.all f) d
  | [x], _ => by simp
  | x :: y :: rest, _ => by
    have ih := list_all_bop c f d (l := y :: rest) (by simp)
    calc (x :: y :: rest).all (fun x => bop c (f x) d)
        = (bop c (f x) d && (y :: rest).all (fun x => bop c (f x) d)) := rfl
      _ = (bop c (f x) d && bop c ((y :: rest).all f) d) := by rw [ih]
      _ = bop c (f x && (y :: rest).all f) d := bop_and _ _ _ _
      _ = bop c ((x :: y :: rest).all f) d := rfl

theorem list_any_bop {α} (c : Bool) (f : α → Bool) (d : Bool) : ∀ {l : List α}, l ≠ [] →
    l.any (fun x => bop c (f x) d) = bop c (l.any f) d
  | [x], _ => by simp
  | x :: y :: rest, _ => by
    have ih := list_any_bop c f d (l := y :: rest) (by simp)
    calc (x :: y :: rest).any (fun x => bop c (f x) d)
        = (bop c (f x) d || (y :: rest).any (fun x => bop c (f x) d)) := rfl
      _ = (bop c (f x) d || bop c ((y :: rest).any f) d) := by rw [ih]
      _ = bop c (f x || (y :: rest).any f) d := bop_or _ _ _ _
      _ = bop c ((x :: y :: rest).any f) d := rfl

theorem quant_pull (c all : Bool) {k k' : Interp → Bool} : ∀ (vs : List Sym) (I : Interp), I.WF →
    Indep vs k' → I.quant all vs (fun J => bop c (k J) (k' J)) = bop c (I.quant all vs k) (k' I)
  | [], _, _, _ => rfl
  | v :: vs, I, hI, hk' => by
    have step : ∀ x ∈ I.dom v.ret, (I.bind v x).quant all vs (fun J => bop c (k J) (k' J)) =
        bop c ((I.bind v x).quant all vs k) (k' I) := by
      intro x hx
      have hs := hI.dom_sort _ x hx
      rw [quant_pull c all vs _ (hI.bind v x hs) (hk'.mono (fun s hs' => by simp [hs'])),
        hk' I v x hI (by simp) hs]
    simp only [Interp.quant]
    rw [list_all_congr step, list_any_congr step, list_all_bop c _ _ (hI.dom_ne _), list_any_bop c _ _ (hI.dom_ne _)]
    cases all <;> simp

theorem qsem_pull (c : Bool) {k' : Interp → Bool} : ∀ (qs : List QBlock) (k : Interp → Bool) (I : Interp), I.WF →
    Indep (boundOf qs) k' → qsem qs (fun J => bop c (k J) (k' J)) I = bop c (qsem qs k I) (k' I)
  | [], _, _, _, _ => rfl
  | (q, vs) :: rest, k, I, hI, hk' => by
    have h1 : Indep vs k' := hk'.mono (fun s hs => by simp [boundOf, hs])
    have h2 : Indep (boundOf rest) k' := hk'.mono (fun s hs => by
      simp only [boundOf, List.map_cons, List.flatten_cons, List.mem_append]
      exact .inr hs)
    simp only [qsem]
    rw [qsem_congr_wf rest _ (fun J => bop c (J.quant (!q) vs k) (k' J))
      (fun J hJ => quant_pull c (!q) vs J hJ h1) I hI]
    exact qsem_pull c rest _ I hI h2

theorem qsem_pull_left (c : Bool) {k' : Interp → Bool} (qs : List QBlock) (k : Interp → Bool) (I : Interp)
    (hI : I.WF) (hk' : Indep (boundOf qs) k') :
    qsem qs (fun J => bop c (k' J) (k J)) I = bop c (k' I) (qsem qs k I) := by
  rw [bop_comm c (k' I), ← qsem_pull c qs k I hI hk']
  congr 1
  funext J
  exact bop_comm c _ _

end PySMT.Rewritings
