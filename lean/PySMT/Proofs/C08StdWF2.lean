import PySMT.Proofs.C08StdWF1
/-!
# C08/C09: the standard reader only produces terms pySMT's checker accepts (2) — fixed-size bit-vectors

`bvnot bvneg bv2nat bvcomp`, the 13 binary operators (n-ary `bvand bvor bvadd bvmul` as left-nested chains), `concat`,
`bvnand bvnor bvxnor`, the eight relations, and the indexed `extract zero_extend sign_extend repeat`.
-/
namespace PySMT.Parser.Agree
open PySMT PySMT.Parser PySMT.Std PySMT.Sexp

/-! ## one binary node; chains -/

theorem wf_bvBin (op : Op) (hop : isBvBinOp op = true) (a b : TT) (u : Term) (τ : Ty) (ha : WT a.1 a.2)
    (hb : WT b.1 b.2) (h : Std.bvBin op a b = .ok (u, τ)) : WT u τ ∧ ∃ w, τ = .bv w := by
  unfold Std.bvBin at h
  split at h
  · rename_i w w' hw hw'
    split at h
    · rename_i hc
      have hc' : w = w' := by simpa using hc
      subst hc'
      simp only [Except.ok.injEq, Prod.mk.injEq] at h
      obtain ⟨rfl, rfl⟩ := h
      refine ⟨wt_std (wt2 ha hb) (by cases op <;> first | (cases hop; done) | rfl) ?_, w, rfl⟩
      simp only [List.map_cons, List.map_nil, hw, hw']
      cases op <;> first | (cases hop; done) | simp [C03.tyNode, allAre]
    · cases h
  · cases h

theorem wf_bvChain (op : Op) (hop : isBvBinOp op = true) :
    ∀ (rest : List TT) (acc : TT) (u : Term) (τ : Ty), WT acc.1 acc.2 →
      (∀ a ∈ rest, WT a.1 a.2) → rest.foldlM (Std.bvBin op) acc = .ok (u, τ) → WT u τ
  | [], acc, u, τ, hacc, _, h => by
    simp only [List.foldlM_nil, pure, Except.pure, Except.ok.injEq] at h
    subst h
    exact hacc
  | b :: rest, acc, u, τ, hacc, hrest, h => by
    simp only [List.foldlM_cons, bind, Except.bind] at h
    cases hr : Std.bvBin op acc b with
    | error e => rw [hr] at h; cases h
    | ok r =>
      obtain ⟨u0, τ0⟩ := r
      rw [hr] at h
      have h2 := (wf_bvBin op hop acc b u0 τ0 hacc (hrest b (by simp)) hr).1
      exact wf_bvChain op hop rest (u0, τ0) u τ h2 (fun a ha => hrest a (by simp [ha])) h

theorem wf_stdNary (f : String) (op : Op) (hop : isBvBinOp op = true) (as : List TT) (u : Term) (τ : Ty)
    (hargs : ∀ a ∈ as, WT a.1 a.2) (h : stdNary f op as = .ok (u, τ)) : WT u τ := by
  unfold stdNary at h
  split at h
  · match as, h with
    | [], h => simp [leftFold] at h
    | a :: rest, h =>
      simp only [leftFold] at h
      exact wf_bvChain op hop rest a u τ (hargs a (by simp)) (fun x hx => hargs x (by simp [hx])) h
  · cases h

theorem wf_bvbin2 (f : String) (op : Op) (hm : (f, op) ∈ bvBinOps) (a b : TT) (u : Term) (τ : Ty)
    (ha : WT a.1 a.2) (hb : WT b.1 b.2) (h : applyTheory f [a, b] = .ok (u, τ)) : WT u τ := by
  rw [std_bvbin2 f op hm] at h
  have hop : isBvBinOp op = true := by
    simp only [bvBinOps, List.mem_cons, Prod.mk.injEq, List.not_mem_nil, or_false] at hm
    rcases hm with ⟨_, rfl⟩ | ⟨_, rfl⟩ | ⟨_, rfl⟩ | ⟨_, rfl⟩ | ⟨_, rfl⟩ | ⟨_, rfl⟩ | ⟨_, rfl⟩ | ⟨_, rfl⟩
      | ⟨_, rfl⟩ | ⟨_, rfl⟩ | ⟨_, rfl⟩ | ⟨_, rfl⟩ | ⟨_, rfl⟩ <;> rfl
  exact (wf_bvBin op hop a b u τ ha hb h).1

/-! ## `concat` -/

theorem wf_concat2 (a b : TT) (u : Term) (τ : Ty) (ha : WT a.1 a.2) (hb : WT b.1 b.2)
    (h : bvConcat2 a b = .ok (u, τ)) : WT u τ := by
  unfold bvConcat2 at h
  split at h
  · rename_i w w' hw hw'
    simp only [Except.ok.injEq, Prod.mk.injEq] at h
    obtain ⟨rfl, rfl⟩ := h
    refine wt_std (wt2 ha hb) rfl ?_
    simp only [List.map_cons, List.map_nil, hw, hw']
    simp [C03.tyNode]
  · cases h

theorem wf_concatChain :
    ∀ (rest : List TT) (acc : TT) (u : Term) (τ : Ty), WT acc.1 acc.2 →
      (∀ a ∈ rest, WT a.1 a.2) → rest.foldlM bvConcat2 acc = .ok (u, τ) → WT u τ
  | [], acc, u, τ, hacc, _, h => by
    simp only [List.foldlM_nil, pure, Except.pure, Except.ok.injEq] at h
    subst h
    exact hacc
  | b :: rest, acc, u, τ, hacc, hrest, h => by
    simp only [List.foldlM_cons, bind, Except.bind] at h
    cases hr : bvConcat2 acc b with
    | error e => rw [hr] at h; cases h
    | ok r =>
      obtain ⟨u0, τ0⟩ := r
      rw [hr] at h
      have h2 := wf_concat2 acc b u0 τ0 hacc (hrest b (by simp)) hr
      exact wf_concatChain rest (u0, τ0) u τ h2 (fun a ha => hrest a (by simp [ha])) h

theorem wf_leftConcat (as : List TT) (u : Term) (τ : Ty) (hargs : ∀ a ∈ as, WT a.1 a.2)
    (h : leftFold bvConcat2 as = .ok (u, τ)) : WT u τ := by
  match as, h with
  | [], h => simp [leftFold] at h
  | a :: rest, h =>
    simp only [leftFold] at h
    exact wf_concatChain rest a u τ (hargs a (by simp)) (fun x hx => hargs x (by simp [hx])) h

theorem wf_concat (as : List TT) (u : Term) (τ : Ty) (hargs : ∀ a ∈ as, WT a.1 a.2)
    (hstd : applyTheory "concat" as = .ok (u, τ)) : WT u τ := by
  simp only [applyTheory] at hstd
  split at hstd
  · exact wf_leftConcat as u τ hargs hstd
  · cases hstd

/-! ## `bvnot`, `bvneg`, `bv2nat`, `bvcomp` -/

theorem wf_bvnot (as : List TT) (u : Term) (τ : Ty) (hargs : ∀ a ∈ as, WT a.1 a.2)
    (hstd : applyTheory "bvnot" as = .ok (u, τ)) : WT u τ := by
  simp only [applyTheory] at hstd
  split at hstd
  · rename_i a
    split at hstd
    · rename_i w hw
      simp only [if_true, beq_self_eq_true, Except.ok.injEq, Prod.mk.injEq] at hstd
      obtain ⟨rfl, rfl⟩ := hstd
      exact wt_std hargs rfl (by simp [C03.tyNode, allAre, hw])
    · cases hstd
  · cases hstd

theorem wf_bvneg (as : List TT) (u : Term) (τ : Ty) (hargs : ∀ a ∈ as, WT a.1 a.2)
    (hstd : applyTheory "bvneg" as = .ok (u, τ)) : WT u τ := by
  simp only [applyTheory] at hstd
  split at hstd
  · rename_i a
    split at hstd
    · rename_i w hw
      have hne : ("bvneg" == "bvnot") = false := by decide
      simp only [hne, Bool.false_eq_true, if_false, Except.ok.injEq, Prod.mk.injEq] at hstd
      obtain ⟨rfl, rfl⟩ := hstd
      exact wt_std hargs rfl (by simp [C03.tyNode, allAre, hw])
    · cases hstd
  · cases hstd

theorem wf_bv2nat (as : List TT) (u : Term) (τ : Ty) (hargs : ∀ a ∈ as, WT a.1 a.2)
    (hstd : applyTheory "bv2nat" as = .ok (u, τ)) : WT u τ := by
  simp only [applyTheory] at hstd
  split at hstd
  · rename_i a
    split at hstd
    · rename_i w hw
      simp only [Except.ok.injEq, Prod.mk.injEq] at hstd
      obtain ⟨rfl, rfl⟩ := hstd
      exact wt_std hargs rfl (by simp [C03.tyNode, hw])
    · cases hstd
  · cases hstd

theorem wf_bvcomp (as : List TT) (u : Term) (τ : Ty) (hargs : ∀ a ∈ as, WT a.1 a.2)
    (hstd : applyTheory "bvcomp" as = .ok (u, τ)) : WT u τ := by
  simp only [applyTheory] at hstd
  split at hstd
  · rename_i a b
    split at hstd
    · rename_i w w' hw hw'
      split at hstd
      · rename_i hc
        have hc' : w = w' := by simpa using hc
        simp only [Except.ok.injEq, Prod.mk.injEq] at hstd
        obtain ⟨rfl, rfl⟩ := hstd
        exact wt_std hargs rfl (by simp [C03.tyNode, hw, hw', hc'])
      · cases hstd
    · cases hstd
  · cases hstd

/-! ## `bvnand`, `bvnor`, `bvxnor` -/

theorem wf_notBin (f : String) (op : Op) (hop : isBvBinOp op = true) (as : List TT) (u : Term) (τ : Ty)
    (hargs : ∀ a ∈ as, WT a.1 a.2) (h : stdNotBin f op as = .ok (u, τ)) : WT u τ := by
  unfold stdNotBin at h
  split at h
  · rename_i a b
    cases hr : Std.bvBin op a b with
    | error e => simp [hr, Except.map] at h
    | ok r =>
      obtain ⟨u0, τ0⟩ := r
      obtain ⟨h1, w, rfl⟩ := wf_bvBin op hop a b u0 τ0 (hargs a (by simp)) (hargs b (by simp)) hr
      simp only [hr, Except.map, bvw, Option.getD_some, Except.ok.injEq, Prod.mk.injEq] at h
      obtain ⟨rfl, rfl⟩ := h
      have : WT (Std.node .bvNot [(u0, Ty.bv w)] (.ints [w])) (.bv w) :=
        wt_std (wt1 h1) rfl (by simp [C03.tyNode, allAre])
      exact this
  · cases h

/-! ## the relations -/

theorem wf_stdRel (f : String) (op : Op) (swap : Bool) (hop : isBvRelOp op = true) (as : List TT) (u : Term) (τ : Ty)
    (hargs : ∀ a ∈ as, WT a.1 a.2) (h : stdRel f op swap as = .ok (u, τ)) : WT u τ := by
  unfold stdRel at h
  split at h
  · rename_i a b
    split at h
    · rename_i w w' hw hw'
      split at h
      · rename_i hc
        have hc' : w = w' := by simpa using hc
        subst hc'
        simp only [Except.ok.injEq, Prod.mk.injEq] at h
        obtain ⟨rfl, rfl⟩ := h
        have ha := hargs a (by simp)
        have hb := hargs b (by simp)
        have hsh : op.shapeOK .none 2 = true := by cases op <;> first | (cases hop; done) | rfl
        have hty : C03.tyNode op .none [Ty.bv w, Ty.bv w] = some .bool := by
          cases op <;> first | (cases hop; done) | simp [C03.tyNode, allAre]
        split
        · exact wt_std (wt2 hb ha) hsh (by simp only [List.map_cons, List.map_nil, hw, hw']; exact hty)
        · exact wt_std (wt2 ha hb) hsh (by simp only [List.map_cons, List.map_nil, hw, hw']; exact hty)
      · cases h
    · cases h
  · cases h

/-! ## indexed operators -/

theorem wf_extract (i j : Nat) (as : List TT) (u : Term) (τ : Ty) (hargs : ∀ a ∈ as, WT a.1 a.2)
    (hstd : applyIndexed "extract" [i, j] as = .ok (u, τ)) : WT u τ := by
  obtain ⟨a, m, rfl, hm, hji, him, rfl, rfl⟩ := std_extract i j as u τ hstd
  refine wt_std hargs (by simp [Op.shapeOK, hji]) ?_
  simp only [List.map_cons, List.map_nil, hm, C03.tyNode]
  have h1 : ¬ (j ≥ m ∨ i ≥ m) := by omega
  have h2 : ¬ (m < i - j + 1) := by omega
  have h3 : ¬ (i - j + 1 + j ≠ i + 1) := by omega
  simp only [h1, h2, h3, if_false]

theorem wf_ext (f : String) (op : Op) (hf : f = "zero_extend" ∧ op = .bvZext ∨ f = "sign_extend" ∧ op = .bvSext)
    (k : Nat) (as : List TT) (u : Term) (τ : Ty) (hargs : ∀ a ∈ as, WT a.1 a.2)
    (hstd : applyIndexed f [k] as = .ok (u, τ)) : WT u τ := by
  obtain ⟨a, m, rfl, hm, rfl, rfl⟩ := std_ext f op hf k as u τ hstd
  have hop : op = .bvZext ∨ op = .bvSext := by rcases hf with ⟨_, h⟩ | ⟨_, h⟩ <;> simp [h]
  refine wt_std hargs (by rcases hop with rfl | rfl <;> rfl) ?_
  simp only [List.map_cons, List.map_nil, hm]
  have h1 : ¬ (m + k < m) := by omega
  rcases hop with rfl | rfl <;> simp only [C03.tyNode, h1, if_false]

theorem wf_repeat (k : Nat) (as : List TT) (u : Term) (τ : Ty) (hargs : ∀ a ∈ as, WT a.1 a.2)
    (hstd : applyIndexed "repeat" [k] as = .ok (u, τ)) : WT u τ := by
  obtain ⟨a, rfl, _, h⟩ := std_repeat k as u τ hstd
  have ha := hargs a (by simp)
  exact wf_leftConcat _ u τ (fun x hx => by rw [List.eq_of_mem_replicate hx]; exact ha) h

end PySMT.Parser.Agree
