import PySMT.Proofs.C03Node
/-!
# C03 — node-level soundness of the checker outside its holes:
`nodeOk op p σs → typeOfNode op p (σs.map some) = some τ → sigOf op p σs = some τ`,
one lemma per operator family, assembled in `node_sound`.
-/
namespace PySMT
namespace C03
open Spec CreateNode

theorem chk_eq_isKv (ι ε : Ty) : ∀ l : List Ty, typeOfNode.chk ι ε (l.map some) = isKv ι ε l
  | [] => rfl
  | [_] => rfl
  | k :: v :: rest => by
    simp only [List.map_cons, typeOfNode.chk, isKv, chk_eq_isKv ι ε rest]
    simp

theorem map_some_inj : ∀ {a b : List Ty}, a.map some = b.map some → a = b
  | [], [], _ => rfl
  | [], _ :: _, h => by simp at h
  | _ :: _, [], h => by simp at h
  | x :: xs, y :: ys, h => by
    simp only [List.map_cons, List.cons.injEq, Option.some.injEq] at h
    rw [h.1, map_some_inj h.2]

local macro "arity1 " s:ident hok:ident : tactic =>
  `(tactic| (rcases $s:ident with _ | ⟨a, _ | ⟨b, r⟩⟩ <;> simp at $hok:ident))
local macro "arity2 " s:ident hok:ident : tactic =>
  `(tactic| (rcases $s:ident with _ | ⟨a, _ | ⟨b, _ | ⟨c, r⟩⟩⟩ <;> simp at $hok:ident))
local macro "arity3 " s:ident hok:ident : tactic =>
  `(tactic| (rcases $s:ident with _ | ⟨a, _ | ⟨b, _ | ⟨c, _ | ⟨d, r⟩⟩⟩⟩ <;> simp at $hok:ident))
local macro "unfold_ok " hok:ident : tactic =>
  `(tactic| simp only [nodeOk, arityOk, payloadOk, sortsOk, Bool.and_eq_true, Bool.and_true, beq_iff_eq,
      decide_eq_true_eq] at $hok:ident)

/-- Boolean connectives and the string/conversion operators typed by `walk_type_to_type` -/
theorem ns_uniform {op p σs τ}
    (hop : op = .implies ∨ op = .iff ∨ op = .strContains ∨ op = .strPrefixOf ∨ op = .strSuffixOf)
    (hok : nodeOk op p σs = true) (h : tyNode op p σs = some τ) : sigOf op p σs = some τ := by
  rcases hop with rfl | rfl | rfl | rfl | rfl <;> unfold_ok hok
  all_goals
    arity2 σs hok
    simp [tyNode, allAre] at h
    obtain ⟨⟨rfl, rfl⟩, rfl⟩ := h
    rfl

theorem ns_unary {op p σs τ}
    (hop : op = .not ∨ op = .toReal ∨ op = .strLength ∨ op = .strToInt ∨ op = .intToStr)
    (hok : nodeOk op p σs = true) (h : tyNode op p σs = some τ) : sigOf op p σs = some τ := by
  rcases hop with rfl | rfl | rfl | rfl | rfl <;> unfold_ok hok
  all_goals
    arity1 σs hok
    simp [tyNode, allAre] at h
    obtain ⟨rfl, rfl⟩ := h
    rfl

theorem ns_nary {op p σs τ} (hop : op = .and ∨ op = .or ∨ op = .strConcat)
    (hok : nodeOk op p σs = true) (h : tyNode op p σs = some τ) : sigOf op p σs = some τ := by
  rcases hop with rfl | rfl | rfl <;> unfold_ok hok
  all_goals
    simp only [tyNode] at h
    split at h
    · next hall =>
      cases h
      rw [allAre_map_some] at hall
      exact nary_some hok ((allIs_iff _ _).1 hall)
    · cases h

theorem ns_strReplace {p σs τ} (hok : nodeOk .strReplace p σs = true) (h : tyNode .strReplace p σs = some τ) :
    sigOf .strReplace p σs = some τ := by
  unfold_ok hok
  arity3 σs hok
  simp [tyNode, allAre] at h
  obtain ⟨⟨rfl, rfl, rfl⟩, rfl⟩ := h
  rfl

theorem ns_sum {op p σs τ} (hop : op = .plus ∨ op = .times)
    (hok : nodeOk op p σs = true) (h : tyNode op p σs = some τ) : sigOf op p σs = some τ := by
  rcases hop with rfl | rfl <;> unfold_ok hok
  all_goals
    simp only [tyNode] at h
    rcases σs with _ | ⟨s, r⟩
    · simp at hok
    · split at h
      · next hall =>
        cases h
        rw [allAre_map_some] at hall
        have hall' := (allIs_iff _ _).1 hall
        have : s = .real := hall' s (by simp)
        subst this
        simp only [sigOf, isNum, if_true]
        exact nary_some hok hall'
      · split at h
        · next hall =>
          cases h
          rw [allAre_map_some] at hall
          have hall' := (allIs_iff _ _).1 hall
          have : s = .int := hall' s (by simp)
          subst this
          simp only [sigOf, isNum, if_true]
          exact nary_some hok hall'
        · cases h

theorem ns_binary {op p σs τ}
    (hop : op = .minus ∨ op = .div ∨ op = .le ∨ op = .lt ∨ op = .equals ∨ op = .strCharAt ∨ op = .arraySelect)
    (hok : nodeOk op p σs = true) (h : tyNode op p σs = some τ) : sigOf op p σs = some τ := by
  rcases hop with rfl | rfl | rfl | rfl | rfl | rfl | rfl <;> unfold_ok hok
  all_goals
    arity2 σs hok
    rename_i a b
    replace h := h.symm
    cases a <;> cases b <;> simp_all [tyNode, sigOf, allAre, isNum]

theorem ns_bvRel {op p σs τ} (hop : op = .bvUlt ∨ op = .bvUle ∨ op = .bvSlt ∨ op = .bvSle)
    (hok : nodeOk op p σs = true) (h : tyNode op p σs = some τ) : sigOf op p σs = some τ := by
  rcases hop with rfl | rfl | rfl | rfl <;> unfold_ok hok
  all_goals
    arity2 σs hok
    rename_i a b
    replace h := h.symm
    cases a <;> cases b <;> simp_all [tyNode, sigOf, allAre]

theorem ns_ternary {op p σs τ} (hop : op = .ite ∨ op = .strIndexOf ∨ op = .strSubstr ∨ op = .arrayStore)
    (hok : nodeOk op p σs = true) (h : tyNode op p σs = some τ) : sigOf op p σs = some τ := by
  rcases hop with rfl | rfl | rfl | rfl <;> unfold_ok hok
  all_goals
    arity3 σs hok
    rename_i a b c
    replace h := h.symm
    cases a <;> (try (simp_all [tyNode, sigOf]; done)) <;> cases b <;> (try (simp_all [tyNode, sigOf]; done)) <;>
      cases c <;> simp_all [tyNode, sigOf]

theorem ns_pow {p σs τ} (hok : nodeOk .pow p σs = true) (h : tyNode .pow p σs = some τ) :
    sigOf .pow p σs = some τ := by
  unfold_ok hok
  obtain ⟨h1, h2⟩ := hok
  arity2 σs h1
  rename_i a b
  replace h := h.symm
  cases a <;> simp_all [tyNode, sigOf, isNum]

theorem ns_const {op p σs τ} (hop : op = .boolConst ∨ op = .intConst ∨ op = .realConst ∨ op = .strConst)
    (hok : nodeOk op p σs = true) (h : tyNode op p σs = some τ) : sigOf op p σs = some τ := by
  rcases hop with rfl | rfl | rfl | rfl <;> unfold_ok hok
  all_goals
    obtain ⟨h1, h2⟩ := hok
    cases σs <;> simp at h1
    cases p <;> simp at h2
    simp [tyNode] at h
    subst h
    rfl

theorem ns_leaf {op p σs τ} (hop : op = .bvConst ∨ op = .symbol ∨ op = .algebraicConst)
    (hok : nodeOk op p σs = true) (h : tyNode op p σs = some τ) : sigOf op p σs = some τ := by
  rcases hop with rfl | rfl | rfl <;> unfold_ok hok
  all_goals
    cases σs <;> simp at hok
    replace h := h.symm
    cases p <;> simp_all [tyNode, sigOf]

theorem ns_function {p σs τ} (hok : nodeOk .function p σs = true) (h : tyNode .function p σs = some τ) :
    sigOf .function p σs = some τ := by
  unfold_ok hok
  cases p <;> simp [tyNode] at h
  rename_i f
  obtain ⟨⟨_, hm⟩, rfl⟩ := h
  have := map_some_inj hm
  subst this
  have : f.params ≠ [] := by intro e; rw [e] at hok; simp at hok
  simp [sigOf, this]

theorem ns_quant {op p σs τ} (hop : op = .forall_ ∨ op = .exists_)
    (hok : nodeOk op p σs = true) (h : tyNode op p σs = some τ) : sigOf op p σs = some τ := by
  rcases hop with rfl | rfl <;> unfold_ok hok
  all_goals
    obtain ⟨h1, h2⟩ := hok
    arity1 σs h1
    rename_i a
    cases p <;> simp at h2
    replace h := h.symm
    have h2' : Spec.plainVars ‹_› = true := h2
    cases a <;> simp_all [tyNode, sigOf]

theorem ns_bvUn {op p σs τ} (hop : op = .bvNot ∨ op = .bvNeg)
    (hok : nodeOk op p σs = true) (h : tyNode op p σs = some τ) : sigOf op p σs = some τ := by
  rcases hop with rfl | rfl <;> unfold_ok hok
  all_goals
    obtain ⟨h1, h2⟩ := hok
    arity1 σs h1
    rename_i a
    cases p <;> (try (simp at h2; done))
    rename_i l
    rcases l with _ | ⟨w, _ | ⟨x, l⟩⟩ <;> (try (simp at h2; done))
    replace h := h.symm
    cases a <;> simp_all [tyNode, sigOf, allAre]

theorem ns_bvBin {op p σs τ}
    (hop : op = .bvAnd ∨ op = .bvOr ∨ op = .bvXor ∨ op = .bvAdd ∨ op = .bvSub ∨ op = .bvMul ∨ op = .bvUdiv
      ∨ op = .bvUrem ∨ op = .bvLshl ∨ op = .bvLshr ∨ op = .bvSdiv ∨ op = .bvSrem ∨ op = .bvAshr)
    (hok : nodeOk op p σs = true) (h : tyNode op p σs = some τ) : sigOf op p σs = some τ := by
  rcases hop with rfl | rfl | rfl | rfl | rfl | rfl | rfl | rfl | rfl | rfl | rfl | rfl | rfl <;> unfold_ok hok
  all_goals
    obtain ⟨h1, h2⟩ := hok
    arity2 σs h1
    rename_i a b
    cases p <;> (try (simp at h2; done))
    rename_i l
    rcases l with _ | ⟨w, _ | ⟨x, l⟩⟩ <;> (try (simp at h2; done))
    replace h := h.symm
    cases a <;> cases b <;> simp_all [tyNode, sigOf, allAre]

theorem ns_bvComp {op p σs τ} (hop : op = .bvComp ∨ op = .bvConcat)
    (hok : nodeOk op p σs = true) (h : tyNode op p σs = some τ) : sigOf op p σs = some τ := by
  rcases hop with rfl | rfl <;> unfold_ok hok
  all_goals
    obtain ⟨h1, h2⟩ := hok
    arity2 σs h1
    rename_i a b
    cases p <;> (try (simp at h2; done))
    rename_i l
    rcases l with _ | ⟨w, _ | ⟨x, l⟩⟩ <;> (try (simp at h2; done))
    replace h := h.symm
    cases a <;> cases b <;> simp_all [tyNode, sigOf]

theorem ns_bvToNatural {p σs τ} (hok : nodeOk .bvToNatural p σs = true) (h : tyNode .bvToNatural p σs = some τ) :
    sigOf .bvToNatural p σs = some τ := by
  unfold_ok hok
  arity1 σs hok
  rename_i a
  replace h := h.symm
  cases a <;> simp_all [tyNode, sigOf]

theorem ns_arrayValue {p σs τ} (h : tyNode .arrayValue p σs = some τ) : sigOf .arrayValue p σs = some τ := by
  replace h := h.symm
  cases p <;> cases σs <;> simp_all [tyNode, sigOf, chk_eq_isKv]

theorem ns_bvExtract {p σs τ} (hok : nodeOk .bvExtract p σs = true) (h : tyNode .bvExtract p σs = some τ) :
    sigOf .bvExtract p σs = some τ := by
  unfold_ok hok
  obtain ⟨h1, h2⟩ := hok
  arity1 σs h1
  rename_i a
  cases p <;> (try (simp at h2; done))
  rename_i l
  rcases l with _ | ⟨w, _ | ⟨lo, _ | ⟨hi, _ | ⟨x, l⟩⟩⟩⟩ <;> (try (simp at h2; done))
  simp only [decide_eq_true_eq] at h2
  cases a <;> (try (simp [tyNode] at h; done))
  rename_i m
  simp only [tyNode] at h
  split at h
  · cases h
  · split at h
    · cases h
    · split at h
      · cases h
      · cases h
        simp only [sigOf]
        rw [if_pos (by omega)]

theorem ns_bvRot {op p σs τ} (hop : op = .bvRol ∨ op = .bvRor)
    (hok : nodeOk op p σs = true) (h : tyNode op p σs = some τ) : sigOf op p σs = some τ := by
  rcases hop with rfl | rfl <;> unfold_ok hok
  all_goals
    arity1 σs hok
    rename_i a
    cases p <;> (try (simp [tyNode] at h; done))
    rename_i l
    rcases l with _ | ⟨w, _ | ⟨k, _ | ⟨x, l⟩⟩⟩ <;> (try (simp [tyNode] at h; done))
    cases a <;> (try (simp [tyNode] at h; done))
    rename_i m
    simp only [tyNode] at h
    split at h
    · cases h
    · split at h
      · cases h
      · next hne =>
        cases h
        have : w = m := by simpa using hne
        subst this
        simp [sigOf]

theorem ns_bvExt {op p σs τ} (hop : op = .bvZext ∨ op = .bvSext)
    (hok : nodeOk op p σs = true) (h : tyNode op p σs = some τ) : sigOf op p σs = some τ := by
  rcases hop with rfl | rfl <;> unfold_ok hok
  all_goals
    obtain ⟨h1, h2⟩ := hok
    arity1 σs h1
    rename_i a
    cases p <;> (try (simp at h2; done))
    rename_i l
    rcases l with _ | ⟨w, _ | ⟨k, _ | ⟨x, l⟩⟩⟩ <;> (try (simp at h2; done))
    cases a <;> (try (simp at h2; done))
    rename_i m
    simp only [beq_iff_eq] at h2
    subst h2
    simp only [tyNode] at h
    split at h
    · cases h
    · cases h
      simp [sigOf]

/-- **Node-level soundness.** Outside the holes listed by `nodeOk`, a node the checker
accepts (on arguments of sorts `σs`) has a rank, with the same result sort. -/
theorem node_sound {op p σs τ} (hok : nodeOk op p σs = true)
    (h : typeOfNode op p (σs.map some) = some τ) : sigOf op p σs = some τ := by
  rw [typeOfNode_eq_tyNode] at h
  cases op
  case implies | iff | strContains | strPrefixOf | strSuffixOf => exact ns_uniform (by simp) hok h
  case not | toReal | strLength | strToInt | intToStr => exact ns_unary (by simp) hok h
  case and | or | strConcat => exact ns_nary (by simp) hok h
  case strReplace => exact ns_strReplace hok h
  case plus | times => exact ns_sum (by simp) hok h
  case minus | div | le | lt | equals | strCharAt | arraySelect => exact ns_binary (by simp) hok h
  case bvUlt | bvUle | bvSlt | bvSle => exact ns_bvRel (by simp) hok h
  case ite | strIndexOf | strSubstr | arrayStore => exact ns_ternary (by simp) hok h
  case pow => exact ns_pow hok h
  case boolConst | intConst | realConst | strConst => exact ns_const (by simp) hok h
  case bvConst | symbol | algebraicConst => exact ns_leaf (by simp) hok h
  case function => exact ns_function hok h
  case forall_ | exists_ => exact ns_quant (by simp) hok h
  case bvNot | bvNeg => exact ns_bvUn (by simp) hok h
  case bvAnd | bvOr | bvXor | bvAdd | bvSub | bvMul | bvUdiv | bvUrem | bvLshl | bvLshr | bvSdiv | bvSrem | bvAshr =>
    exact ns_bvBin (by simp) hok h
  case bvComp | bvConcat => exact ns_bvComp (by simp) hok h
  case bvToNatural => exact ns_bvToNatural hok h
  case arrayValue => exact ns_arrayValue h
  case bvExtract => exact ns_bvExtract hok h
  case bvRol | bvRor => exact ns_bvRot (by simp) hok h
  case bvZext | bvSext => exact ns_bvExt (by simp) hok h

end C03
end PySMT
