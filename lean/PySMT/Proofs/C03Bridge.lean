import PySMT.Proofs.C03Mk
import PySMT.Impl.WF
import PySMT.Proofs.C05Sem
/-!
# C03 — the bridge: what the constructors build is `wf`, `Build.normal` and `Subst.ConstKeys`

C01/C02/C05/C10 assume `t.wf`, `Build.normal t`, `Subst.ConstKeys t` ("true of every term a
`FormulaManager` builds"). `Good t` (`wt ∧ noF06 ∧ allE`, proved of every `Built` term in
`C03Mk.built_good`) implies all three, node by node.
-/
namespace PySMT
namespace C03
open Spec CreateNode Build

/-- the facts available at a node of a `Good` term -/
structure NodeFacts (op : Op) (p : Payload) (args : List Term) (σs : List Ty) : Prop where
  sorts : args.map Term.typeOf = σs.map some
  len : σs.length = args.length
  ty : (tyNode op p σs).isSome = true
  ok : nodeOk op p σs = true
  e : nodeE op p args = true
  wtc : ∀ a ∈ args, a.wt = true

theorem nodeFacts {op : Op} {args : List Term} {p : Payload} (h : Good (.node op args p)) :
    ∃ σs, NodeFacts op p args σs := by
  obtain ⟨hw, hn, he⟩ := h
  obtain ⟨hwc, hs⟩ := (wt_node op args p).1 hw
  obtain ⟨_, hok⟩ := (noF06_node op args p).1 hn
  obtain ⟨_, hE⟩ := (allE_node op args p).1 he
  obtain ⟨σs, hm, hf, hl⟩ := arg_sorts args hwc
  rw [hf] at hok
  rw [hm, typeOfNode_eq_tyNode] at hs
  exact ⟨σs, hm, hl, hs, hok, hE, hwc⟩

set_option maxHeartbeats 2000000 in
theorem shapeOK_of_facts {op : Op} {p : Payload} {args : List Term} {σs : List Ty}
    (f : NodeFacts op p args σs) : op.shapeOK p args.length = true := by
  obtain ⟨_, hl, hty, hok, hE, _⟩ := f
  rw [← hl]
  cases op <;>
    simp only [nodeOk, arityOk, payloadOk, sortsOk, Bool.and_eq_true, Bool.and_true, beq_iff_eq,
      decide_eq_true_eq] at hok
  all_goals first
    | (simp [nodeE] at hE; done)
    | (cases p <;> simp_all [Op.shapeOK, nodeE, tyNode]; done)
    | skip
  all_goals
    cases p <;> (try (simp_all [Op.shapeOK, nodeE, tyNode]; done))
    rename_i l
    rcases l with _ | ⟨w, _ | ⟨x, _ | ⟨y, _ | ⟨z, l⟩⟩⟩⟩ <;> (try (simp_all [Op.shapeOK, nodeE, tyNode]; done))

/-- the sort of the `i`-th argument -/
theorem arg1 {a : Term} {σ : Ty} (h : [a].map Term.typeOf = [σ].map some) : a.typeOf = some σ := by simpa using h
theorem arg2 {a b : Term} {σ τ : Ty} (h : [a, b].map Term.typeOf = [σ, τ].map some) :
    a.typeOf = some σ ∧ b.typeOf = some τ := by simpa using h

set_option maxHeartbeats 2000000 in
theorem normalNode_of_facts {op : Op} {p : Payload} {args : List Term} {σs : List Ty}
    (f : NodeFacts op p args σs) : normalNode op p args = true := by
  obtain ⟨hm, hl, hty, hok, hE, hwc⟩ := f
  cases op <;>
    simp only [nodeOk, arityOk, payloadOk, sortsOk, Bool.and_eq_true, Bool.and_true, beq_iff_eq,
      decide_eq_true_eq] at hok
  case and | or | plus | times => simp [normalNode]; omega
  case pow | algebraicConst => simp [nodeE] at hE
  case not =>
    rcases args with _ | ⟨a, _ | ⟨b, r⟩⟩ <;> simp_all [normalNode, nodeE]
  case div =>
    rcases args with _ | ⟨a, _ | ⟨b, _ | ⟨c, r⟩⟩⟩ <;> simp_all [normalNode, nodeE]
  case toReal =>
    rcases args with _ | ⟨a, _ | ⟨b, r⟩⟩ <;> (try (simp_all; done))
    rcases σs with _ | ⟨σ, _ | ⟨x, r⟩⟩ <;> (try (simp_all; done))
    have ha := arg1 hm
    simp [tyNode, allAre] at hty
    subst hty
    simp_all [normalNode, nodeE]
  case forall_ | exists_ =>
    obtain ⟨_, h2⟩ := hok
    cases p <;> simp at h2
    rename_i vs
    cases vs <;> simp_all [normalNode, CreateNode.plainVars]
  case bvComp =>
    obtain ⟨_, h2⟩ := hok
    cases p <;> (try (simp at h2; done))
    rename_i l
    rcases l with _ | ⟨w, _ | ⟨x, l⟩⟩ <;> (try (simp at h2; done))
    simp_all [normalNode]
  case intConst | realConst =>
    obtain ⟨_, h2⟩ := hok
    cases p <;> simp_all [normalNode]
  case arrayValue =>
    rcases args with _ | ⟨d, rest⟩
    · simp at hl; simp [hl, arityOk] at hok
    · simp only [nodeE, Bool.and_eq_true, decide_eq_true_eq] at hE
      simp only [normalNode, decide_eq_true_eq]
      exact hE.1
  case bvNot | bvNeg =>
    obtain ⟨h1, h2⟩ := hok
    cases p <;> (try (simp at h2; done))
    rename_i l
    rcases l with _ | ⟨w, _ | ⟨x, l⟩⟩ <;> (try (simp at h2; done))
    rcases args with _ | ⟨a, _ | ⟨b, r⟩⟩ <;> (try (simp_all; done))
    rcases σs with _ | ⟨σ, _ | ⟨x, r⟩⟩ <;> (try (simp_all; done))
    have ha := arg1 hm
    simp [tyNode, allAre] at hty
    subst hty
    have := Build.fnodeWidth_of_typeOf a (hwc a (by simp)) w ha
    simp [normalNode, isBvSameWidthOp, this]
  case bvAnd | bvOr | bvXor | bvAdd | bvSub | bvMul | bvUdiv | bvUrem | bvLshl | bvLshr | bvSdiv | bvSrem | bvAshr =>
    obtain ⟨h1, h2⟩ := hok
    cases p <;> (try (simp at h2; done))
    rename_i l
    rcases l with _ | ⟨w, _ | ⟨x, l⟩⟩ <;> (try (simp at h2; done))
    rcases args with _ | ⟨a, _ | ⟨b, _ | ⟨c, r⟩⟩⟩ <;> (try (simp_all; done))
    rcases σs with _ | ⟨σ, _ | ⟨τ, _ | ⟨x, r⟩⟩⟩ <;> (try (simp_all; done))
    have ha := (arg2 hm).1
    simp [tyNode, allAre] at hty
    obtain ⟨rfl, _⟩ := hty
    have := Build.fnodeWidth_of_typeOf a (hwc a (by simp)) w ha
    simp [normalNode, isBvSameWidthOp, this]
  case bvConcat =>
    obtain ⟨h1, h2⟩ := hok
    cases p <;> (try (simp at h2; done))
    rename_i l
    rcases l with _ | ⟨w, _ | ⟨x, l⟩⟩ <;> (try (simp at h2; done))
    rcases args with _ | ⟨a, _ | ⟨b, _ | ⟨c, r⟩⟩⟩ <;> (try (simp_all; done))
    rcases σs with _ | ⟨σ, _ | ⟨τ, _ | ⟨x, r⟩⟩⟩ <;> (try (simp_all; done))
    obtain ⟨ha, hb⟩ := arg2 hm
    cases σ <;> (try (simp [tyNode] at hty; done))
    cases τ <;> (try (simp [tyNode] at hty; done))
    rename_i wl wr
    simp [tyNode] at hty
    have h1' := Build.fnodeWidth_of_typeOf a (hwc a (by simp)) wl ha
    have h2' := Build.fnodeWidth_of_typeOf b (hwc b (by simp)) wr hb
    simp [normalNode, h1', h2', hty]
  case bvExtract =>
    obtain ⟨h1, h2⟩ := hok
    cases p <;> (try (simp at h2; done))
    rename_i l
    rcases l with _ | ⟨w, _ | ⟨lo, _ | ⟨hi, _ | ⟨z, l⟩⟩⟩⟩ <;> (try (simp at h2; done))
    rcases σs with _ | ⟨σ, _ | ⟨x, r⟩⟩ <;> (try (simp_all; done))
    cases σ <;> (try (simp [tyNode] at hty; done))
    simp only [tyNode] at hty
    split at hty; · cases hty
    split at hty; · cases hty
    split at hty; · cases hty
    simp only [decide_eq_true_eq] at h2
    simp only [normalNode, beq_iff_eq]
    omega
  case bvRol | bvRor =>
    rcases args with _ | ⟨a, _ | ⟨b, r⟩⟩ <;> (try (simp_all; done))
    rcases σs with _ | ⟨σ, _ | ⟨x, r⟩⟩ <;> (try (simp_all; done))
    have ha := arg1 hm
    cases p <;> (try (simp [tyNode] at hty; done))
    rename_i l
    rcases l with _ | ⟨w, _ | ⟨k, _ | ⟨z, l⟩⟩⟩ <;> (try (simp [tyNode] at hty; done))
    cases σ <;> (try (simp [tyNode] at hty; done))
    rename_i m
    simp only [tyNode] at hty
    split at hty; · cases hty
    split at hty; · cases hty
    next _ hne =>
    have hwm : w = m := by simpa using hne
    subst hwm
    have := Build.fnodeWidth_of_typeOf a (hwc a (by simp)) w ha
    simp [normalNode, this]
  case bvZext | bvSext =>
    obtain ⟨h1, h2⟩ := hok
    rcases args with _ | ⟨a, _ | ⟨b, r⟩⟩ <;> (try (simp_all; done))
    rcases σs with _ | ⟨σ, _ | ⟨x, r⟩⟩ <;> (try (simp_all; done))
    have ha := arg1 hm
    cases p <;> (try (simp at h2; done))
    rename_i l
    rcases l with _ | ⟨w, _ | ⟨k, _ | ⟨z, l⟩⟩⟩ <;> (try (simp at h2; done))
    cases σ <;> (try (simp at h2; done))
    rename_i m
    have hw : w = m + k := by simpa using h2
    have := Build.fnodeWidth_of_typeOf a (hwc a (by simp)) m ha
    simp [normalNode, this, hw]
  all_goals simp [normalNode, isBvSameWidthOp]

theorem constKeys_of_facts {op : Op} {p : Payload} {args : List Term} {σs : List Ty}
    (f : NodeFacts op p args σs) :
    (op != .arrayValue || (pairsOf args.tail).all (fun kv => kv.1.op.isConstant)) = true := by
  by_cases hop : op = .arrayValue
  · subst hop
    rcases args with _ | ⟨d, rest⟩
    · simp [pairsOf]
    · have hE := f.e
      simp only [nodeE, Bool.and_eq_true] at hE
      simpa using hE.2
  · simp [hop]

/-- `Good` terms are well-formed in the sense of `Impl/WF.lean` (C01, C05, C10) -/
theorem good_wf : (t : Term) → Good t → t.wf = true
  | .node op args p, h => by
    obtain ⟨σs, f⟩ := nodeFacts h
    refine Term.wf_node.2 ⟨fun a ha => good_wf a (good_child h a ha), shapeOK_of_facts f, ?_⟩
    exact ((wt_node op args p).1 h.1).2

/-- `Good` terms are in the manager's normal form (`Impl/SubstBuild.lean`; C02, C05, C10) -/
theorem good_normal : (t : Term) → Good t → Build.normal t = true
  | .node op args p, h => by
    obtain ⟨σs, f⟩ := nodeFacts h
    rw [Build.normal_node]
    simp only [Bool.and_eq_true, List.all_eq_true, List.mem_map, id]
    refine ⟨?_, normalNode_of_facts f⟩
    rintro _ ⟨a, ha, rfl⟩
    exact good_normal a (good_child h a ha)

/-- the keys of every array value in a `Good` term are constants (C02, C05, C10) -/
theorem good_constKeys : (t : Term) → Good t → Subst.ConstKeys t = true
  | .node op args p, h => by
    obtain ⟨σs, f⟩ := nodeFacts h
    rw [Subst.ConstKeys_node]
    simp only [Bool.and_eq_true, List.all_eq_true, List.mem_map]
    refine ⟨?_, by simpa using constKeys_of_facts f⟩
    rintro _ ⟨a, ha, rfl⟩
    exact good_constKeys a (good_child h a ha)

theorem wf_of_built {t : Term} (h : Built t) : t.wf = true := good_wf t (built_good h)
theorem normal_of_built {t : Term} (h : Built t) : Build.normal t = true := good_normal t (built_good h)
theorem constKeys_of_built {t : Term} (h : Built t) : Subst.ConstKeys t = true := good_constKeys t (built_good h)

end C03
end PySMT
