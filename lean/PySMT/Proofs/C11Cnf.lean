import PySMT.Proofs.C11Basic
/-!
# C11 — the Tseitin encoding `CNF.enc`: both directions, and the top-level clean-up `finish`

* `enc_complete` : under the canonical extension `ext u I` (definition symbol of `g` ↦ truth value
  of `g` under `I`) every definitional clause holds and the literal of `g` has the value of `g`.
* `enc_sound`    : under *any* interpretation satisfying the definitional clauses the literal of `g`
  has the value of `g` (no freshness needed: a clash of symbols only makes the clauses stronger).
* `finish_complete`, `finish_sound` : the clean-up of `convert` (unit propagation of the top literal).
-/
namespace PySMT.CNF

/-! ## structure of `subterms` / `fv` -/

theorem subterms_self (t : Term) : t ∈ t.subterms := by
  cases t with
  | node op args p => simp [Term.subterms]

theorem subterms_child {op : Op} {args : List Term} {p : Payload} {a h : Term} (ha : a ∈ args)
    (hh : h ∈ a.subterms) : h ∈ (Term.node op args p).subterms := by
  simp only [Term.subterms, List.mem_cons, List.mem_flatten, List.mem_map]
  exact Or.inr ⟨a.subterms, ⟨a, ha, rfl⟩, hh⟩

theorem fv_child {op : Op} {args : List Term} {p : Payload} {a : Term} {s : Sym} (ha : a ∈ args)
    (hs : s ∈ a.fv) (hsym : op ≠ .symbol) (hq : op.isQuantifier = false) :
    s ∈ (Term.node op args p).fv :=
  mem_fv_child op args p a ha s hs hsym (fun _ _ h => by simp [hq] at h)

/-! ## the Boolean skeleton -/

def isConn : Op → Bool
  | .and | .or | .not | .implies | .iff => true
  | _ => false

theorem boolNodes_conn {op : Op} (hc : isConn op = true) (args : List Term) (p : Payload) :
    boolNodes (.node op args p) = (args.map boolNodes).flatten ++ [.node op args p] := by
  cases op <;> simp [isConn] at hc <;> rw [boolNodes.eq_def]

theorem boolNodes_ite {args : List Term} {p : Payload} (h : ¬ ph (.node .ite args p) = true) :
    boolNodes (.node .ite args p) = (args.map boolNodes).flatten ++ [.node .ite args p] := by
  rw [boolNodes.eq_def]; simp [h]

theorem mem_flatten_boolNodes {args : List Term} {a x : Term} (ha : a ∈ args) (hx : x ∈ boolNodes a) :
    x ∈ (args.map boolNodes).flatten := by
  simp only [List.mem_flatten, List.mem_map]
  exact ⟨boolNodes a, ⟨a, ha, rfl⟩, hx⟩

theorem bn_conn {op : Op} {args : List Term} {p : Payload} {a : Term} (hc : isConn op = true) (ha : a ∈ args) :
    ∀ x ∈ boolNodes a, x ∈ boolNodes (.node op args p) := by
  intro x hx
  rw [boolNodes_conn hc]
  exact List.mem_append_left _ (mem_flatten_boolNodes ha hx)

theorem bn_self {op : Op} {args : List Term} {p : Payload} (hc : isConn op = true) :
    Term.node op args p ∈ boolNodes (.node op args p) := by
  rw [boolNodes_conn hc]; simp

theorem bn_ite {args : List Term} {p : Payload} {a : Term} (h : ¬ ph (.node .ite args p) = true) (ha : a ∈ args) :
    ∀ x ∈ boolNodes a, x ∈ boolNodes (.node .ite args p) := by
  intro x hx
  rw [boolNodes_ite h]
  exact List.mem_append_left _ (mem_flatten_boolNodes ha hx)

theorem bn_self_ite {args : List Term} {p : Payload} (h : ¬ ph (.node .ite args p) = true) :
    Term.node .ite args p ∈ boolNodes (.node .ite args p) := by
  rw [boolNodes_ite h]; simp

theorem boolNodes_subterms : (t : Term) → ∀ x ∈ boolNodes t, x ∈ t.subterms
  | .node op args p => by
    intro x hx
    have ih : ∀ a ∈ args, ∀ x ∈ boolNodes a, x ∈ a.subterms := fun a _ => boolNodes_subterms a
    have key : x ∈ (args.map boolNodes).flatten ++ [.node op args p] → x ∈ (Term.node op args p).subterms := by
      intro h
      rcases List.mem_append.mp h with h | h
      · simp only [List.mem_flatten, List.mem_map] at h
        obtain ⟨_, ⟨a, ha, rfl⟩, hxa⟩ := h
        exact subterms_child ha (ih a ha x hxa)
      · simp only [List.mem_cons, List.mem_nil_iff, or_false] at h
        subst h; exact subterms_self _
    by_cases hc : isConn op = true
    · rw [boolNodes_conn hc] at hx; exact key hx
    · by_cases hi : op = .ite
      · subst hi
        by_cases hph : ph (.node .ite args p) = true
        · rw [boolNodes.eq_def] at hx; simp [hph] at hx
        · rw [boolNodes_ite hph] at hx; exact key hx
      · exfalso
        rw [boolNodes.eq_def] at hx
        cases op <;> simp [isConn] at hc hi <;> simp at hx

/-! ## which nodes get a definition symbol -/

theorem wantsKey_and_many {args : List Term} {p : Payload} (h : ∀ a, args = [a] → False) :
    wantsKey (.node .and args p) = true := by
  rw [wantsKey.eq_def]; simp only

theorem wantsKey_or_many {args : List Term} {p : Payload} (h : ∀ a, args = [a] → False) :
    wantsKey (.node .or args p) = true := by
  rw [wantsKey.eq_def]; simp only

theorem wantsKey_implies (a b : Term) (p : Payload) : wantsKey (.node .implies [a, b] p) = true := rfl
theorem wantsKey_iff (a b : Term) (p : Payload) : wantsKey (.node .iff [a, b] p) = true := rfl
theorem wantsKey_ite {i th el : Term} {p : Payload} (h : ¬ ph (.node .ite [i, th, el] p) = true) :
    wantsKey (.node .ite [i, th, el] p) = true := by
  simp only [wantsKey, Bool.not_eq_eq_eq_not, Bool.not_true]
  simpa using h

/-! ## the canonical extension -/

/-- `I` extended on the definition symbols: `u` maps a definition symbol back to its sub-formula -/
def ext (u : Sym → Option Term) (I : Interp) : Interp :=
  { I with sym := fun s => match u s with | some g => .b (tv I g) | none => I.sym s }

theorem tv_ext_key {u : Sym → Option Term} {I : Interp} {k : Sym} {g : Term} (h : u k = some g) :
    tv (ext u I) (Term.sym k) = tv I g := by
  simp only [tv_sym, ext, h, isTrue_b]

theorem ext_sameOn {u : Sym → Option Term} (I : Interp) (t : Term) (hf : ∀ s ∈ t.fv, u s = none) :
    SameOn t I (ext u I) := by
  refine ⟨?_, rfl, rfl, rfl, rfl⟩
  intro s hs
  simp only [ext, hf s hs]

/-! ## clause-level lemmas (shared with the polarity encoding) -/

section clauses
variable {E : Env} {I : Interp}

theorem holds_and_side (k : Term) (ls : List Term) :
    (∀ l ∈ ls, holds I [l, Term.mkNot k] = true) ↔ (tv I k = true → ls.all (tv I) = true) := by
  simp only [holds, List.any_cons, List.any_nil, Bool.or_false, tv_mkNot, Bool.or_eq_true,
    Bool.not_eq_true', List.all_eq_true]
  constructor
  · intro h hk l hl
    rcases h l hl with h | h
    · exact h
    · rw [hk] at h; cases h
  · intro h l hl
    cases hk : tv I k
    · exact Or.inr rfl
    · exact Or.inl (h hk l hl)

theorem holds_and_main (hσ : SimpSoundAt E.simp I) (k : Term) (ls : List Term) :
    holds I (k :: ls.map (negLit E)) = true ↔ (ls.all (tv I) = true → tv I k = true) := by
  simp only [holds, List.any_cons, List.any_map, Bool.or_eq_true, List.any_eq_true, Function.comp,
    tv_negLit hσ, Bool.not_eq_true', List.all_eq_true]
  constructor
  · rintro (h | ⟨l, hl, hv⟩) hall
    · exact h
    · rw [hall l hl] at hv; cases hv
  · intro h
    by_cases hall : ∀ l ∈ ls, tv I l = true
    · exact Or.inl (h hall)
    · simp only [Classical.not_forall] at hall
      obtain ⟨l, hl, hv⟩ := hall
      exact Or.inr ⟨l, hl, by simpa using hv⟩

theorem holds_or_main (k : Term) (ls : List Term) :
    holds I (Term.mkNot k :: ls) = true ↔ (tv I k = true → ls.any (tv I) = true) := by
  simp only [holds, List.any_cons, tv_mkNot, Bool.or_eq_true, Bool.not_eq_true']
  constructor
  · rintro (h | h) hk
    · rw [hk] at h; cases h
    · exact h
  · intro h
    cases hk : tv I k
    · exact Or.inl rfl
    · exact Or.inr (h hk)

theorem holds_or_side (hσ : SimpSoundAt E.simp I) (k : Term) (ls : List Term) :
    (∀ l ∈ ls, holds I [k, negLit E l] = true) ↔ (ls.any (tv I) = true → tv I k = true) := by
  simp only [holds, List.any_cons, List.any_nil, Bool.or_false, tv_negLit hσ, Bool.or_eq_true,
    Bool.not_eq_true', List.any_eq_true]
  constructor
  · rintro h ⟨l, hl, hv⟩
    rcases h l hl with h | h
    · exact h
    · rw [hv] at h; cases h
  · intro h l hl
    cases hv : tv I l
    · exact Or.inr rfl
    · exact Or.inl (h ⟨l, hl, hv⟩)

theorem all_map_congr {α} (l : List α) (f : α → Term) (g : α → Bool) (h : ∀ a ∈ l, tv I (f a) = g a) :
    (l.map f).all (tv I) = l.all g := by
  induction l with
  | nil => rfl
  | cons x xs ih =>
    simp only [List.map_cons, List.all_cons, h x (by simp), ih (fun a ha => h a (by simp [ha]))]

theorem any_map_congr {α} (l : List α) (f : α → Term) (g : α → Bool) (h : ∀ a ∈ l, tv I (f a) = g a) :
    (l.map f).any (tv I) = l.any g := by
  induction l with
  | nil => rfl
  | cons x xs ih =>
    simp only [List.map_cons, List.any_cons, h x (by simp), ih (fun a ha => h a (by simp [ha]))]

theorem holdsAll_map_iff {α} (f : α → Clause) (l : List α) :
    holdsAll I (l.map f) ↔ ∀ x ∈ l, holds I (f x) = true := by
  simp only [holdsAll, List.mem_map, forall_exists_index, and_imp, forall_apply_eq_imp_iff₂]

end clauses

/-! ## completeness of the definitions -/

theorem enc_complete (E : Env) (u : Sym → Option Term) (I : Interp) (hσ : SimpSoundAt E.simp (ext u I)) :
    (g : Term) → (∀ h ∈ boolNodes g, wantsKey h = true → u (E.key h) = some h) → (∀ s ∈ g.fv, u s = none) →
      tv (ext u I) (enc E g).1 = tv I g ∧ holdsAll (ext u I) (enc E g).2
  | .node op args p => by
    intro hk hf
    have hself : Term.node op args p ∈ boolNodes (.node op args p) → wantsKey (.node op args p) = true →
        tv (ext u I) (Term.sym (E.key (.node op args p))) = tv I (.node op args p) :=
      fun hm hw => tv_ext_key (hk _ hm hw)
    have hatom : tv (ext u I) (Term.node op args p) = tv I (.node op args p) :=
      (ext_sameOn I _ hf).tv.symm
    have ih : ∀ a ∈ args, (∀ x ∈ boolNodes a, x ∈ boolNodes (.node op args p)) → op ≠ .symbol →
        op.isQuantifier = false → tv (ext u I) (enc E a).1 = tv I a ∧ holdsAll (ext u I) (enc E a).2 :=
      fun a ha hsub h1 h2 => enc_complete E u I hσ a (fun h hh hw => hk h (hsub h hh) hw)
        (fun s hs => hf s (fv_child ha hs h1 h2))
    clear hk hf
    revert hself hatom ih
    rw [enc.eq_def]; simp only
    split <;> intro hself hatom ih
    · -- and [a]
      next a =>
      have := ih a (by simp) (bn_conn rfl (by simp)) (by simp) rfl
      refine ⟨?_, this.2⟩
      rw [this.1, tv_and]; simp
    · -- and as
      rename_i hne
      have hself := hself (bn_self rfl) (wantsKey_and_many hne)
      have ih' : ∀ a ∈ args, tv (ext u I) (enc E a).1 = tv I a ∧ holdsAll (ext u I) (enc E a).2 :=
        fun a ha => ih a ha (bn_conn rfl ha) (by simp) rfl
      have hall : (args.map (fun a => (enc E a).1)).all (tv (ext u I)) = args.all (tv I) := by
        exact all_map_congr _ _ _ (fun a ha => (ih' a ha).1)
      refine ⟨by rw [hself], ?_⟩
      simp only [List.map_map, Function.comp_def]
      refine holdsAll_cons.mpr ⟨?_, holdsAll_append.mpr ⟨?_, holdsAll_flatten.mpr ?_⟩⟩
      · have := (holds_and_main hσ (Term.sym (E.key (.node .and args p))) (args.map (fun a => (enc E a).1))).mpr
          (by rw [hall, hself, tv_and]; exact id)
        simpa only [List.map_map, Function.comp_def] using this
      · have := (holds_and_side (I := ext u I) (Term.sym (E.key (.node .and args p)))
          (args.map (fun a => (enc E a).1))).mpr (by rw [hall, hself, tv_and]; exact id)
        rw [holdsAll_map_iff]
        intro a ha
        exact this _ (List.mem_map.mpr ⟨a, ha, rfl⟩)
      · intro cs hcs
        simp only [List.mem_map] at hcs
        obtain ⟨a, ha, rfl⟩ := hcs
        exact (ih' a ha).2
    · -- or [a]
      next a =>
      have := ih a (by simp) (bn_conn rfl (by simp)) (by simp) rfl
      refine ⟨?_, this.2⟩
      rw [this.1, tv_or]; simp
    · -- or as
      rename_i hne
      have hself := hself (bn_self rfl) (wantsKey_or_many hne)
      have ih' : ∀ a ∈ args, tv (ext u I) (enc E a).1 = tv I a ∧ holdsAll (ext u I) (enc E a).2 :=
        fun a ha => ih a ha (bn_conn rfl ha) (by simp) rfl
      have hany : (args.map (fun a => (enc E a).1)).any (tv (ext u I)) = args.any (tv I) := by
        exact any_map_congr _ _ _ (fun a ha => (ih' a ha).1)
      refine ⟨by rw [hself], ?_⟩
      simp only [List.map_map, Function.comp_def]
      refine holdsAll_cons.mpr ⟨?_, holdsAll_append.mpr ⟨?_, holdsAll_flatten.mpr ?_⟩⟩
      · have := (holds_or_main (I := ext u I) (Term.sym (E.key (.node .or args p)))
          (args.map (fun a => (enc E a).1))).mpr (by rw [hany, hself, tv_or]; exact id)
        simpa only [List.map_map, Function.comp_def] using this
      · have := (holds_or_side hσ (Term.sym (E.key (.node .or args p)))
          (args.map (fun a => (enc E a).1))).mpr (by rw [hany, hself, tv_or]; exact id)
        rw [holdsAll_map_iff]
        intro a ha
        exact this _ (List.mem_map.mpr ⟨a, ha, rfl⟩)
      · intro cs hcs
        simp only [List.mem_map] at hcs
        obtain ⟨a, ha, rfl⟩ := hcs
        exact (ih' a ha).2
    · -- not [a]
      next a =>
      have iha := ih a (by simp) (bn_conn rfl (by simp)) (by simp) rfl
      split
      · next h =>
        have := tv_of_isTrueC (I := ext u I) h
        refine ⟨?_, holdsAll_nil⟩
        rw [tv_not, ← iha.1, this]; simp
      · split
        · next h =>
          have := tv_of_isFalseC (I := ext u I) h
          refine ⟨?_, holdsAll_nil⟩
          rw [tv_not, ← iha.1, this]; simp
        · exact ⟨by rw [tv_negLit hσ, iha.1, tv_not], iha.2⟩
    · -- implies [a, b]
      next a b =>
      have hself := hself (bn_self rfl) (wantsKey_implies a b p)
      have iha := ih a (by simp) (bn_conn rfl (by simp)) (by simp) rfl
      have ihb := ih b (by simp) (bn_conn rfl (by simp)) (by simp) rfl
      refine ⟨by rw [hself], ?_⟩
      simp only [holdsAll_append]
      refine ⟨⟨?_, iha.2⟩, ihb.2⟩
      simp only [holdsAll, List.mem_cons, List.mem_nil_iff, or_false]
      rintro c (rfl | rfl | rfl) <;>
        simp only [holds, List.any_cons, List.any_nil, tv_negLit hσ, tv_mkNot, hself, iha.1, ihb.1,
          tv_implies] <;>
        cases tv I a <;> cases tv I b <;> rfl
    · -- iff [a, b]
      next a b =>
      have hself := hself (bn_self rfl) (wantsKey_iff a b p)
      have iha := ih a (by simp) (bn_conn rfl (by simp)) (by simp) rfl
      have ihb := ih b (by simp) (bn_conn rfl (by simp)) (by simp) rfl
      refine ⟨by rw [hself], ?_⟩
      simp only [holdsAll_append]
      refine ⟨⟨?_, iha.2⟩, ihb.2⟩
      simp only [holdsAll, List.mem_cons, List.mem_nil_iff, or_false]
      rintro c (rfl | rfl | rfl | rfl) <;>
        simp only [holds, List.any_cons, List.any_nil, tv_negLit hσ, tv_mkNot, hself, iha.1, ihb.1,
          tv_iff_node] <;>
        cases tv I a <;> cases tv I b <;> rfl
    · -- ite [i, t, e]
      next i th el =>
      split
      · exact ⟨hatom, holdsAll_nil⟩
      · next hph =>
        have hself := hself (bn_self_ite hph) (wantsKey_ite hph)
        have ihi := ih i (by simp) (bn_ite hph (by simp)) (by simp) rfl
        have iht := ih th (by simp) (bn_ite hph (by simp)) (by simp) rfl
        have ihe := ih el (by simp) (bn_ite hph (by simp)) (by simp) rfl
        refine ⟨by rw [hself], ?_⟩
        simp only [holdsAll_append]
        refine ⟨⟨⟨?_, ihi.2⟩, iht.2⟩, ihe.2⟩
        simp only [holdsAll, List.mem_cons, List.mem_nil_iff, or_false]
        rintro c (rfl | rfl | rfl | rfl) <;>
          simp only [holds, List.any_cons, List.any_nil, tv_negLit hσ, tv_mkNot, hself, ihi.1, iht.1,
            ihe.1, tv_ite] <;>
          cases tv I i <;> cases tv I th <;> cases tv I el <;> rfl
    · exact ⟨hatom, holdsAll_nil⟩

/-! ## form of the top literal -/

/-- either `g` contributes no clause, or its literal is a definition symbol or the negation of one -/
theorem enc_form (E : Env) (hs : SimpSym E.simp) :
    (g : Term) → (enc E g).2 = [] ∨ ∃ h ∈ boolNodes g, wantsKey h = true ∧
      ((enc E g).1 = Term.sym (E.key h) ∨ (enc E g).1 = Term.mkNot (Term.sym (E.key h)))
  | .node op args p => by
    have ih : ∀ a ∈ args, (∀ x ∈ boolNodes a, x ∈ boolNodes (.node op args p)) →
        (enc E a).2 = [] ∨ ∃ h ∈ boolNodes (Term.node op args p), wantsKey h = true ∧
        ((enc E a).1 = Term.sym (E.key h) ∨ (enc E a).1 = Term.mkNot (Term.sym (E.key h))) :=
      fun a _ hsub => (enc_form E hs a).imp id (fun ⟨h, hh, e⟩ => ⟨h, hsub h hh, e⟩)
    revert ih
    rw [enc.eq_def]; simp only
    split <;> intro ih
    · exact ih _ (by simp) (bn_conn rfl (by simp))
    · next hne => exact Or.inr ⟨_, bn_self rfl, wantsKey_and_many hne, Or.inl rfl⟩
    · exact ih _ (by simp) (bn_conn rfl (by simp))
    · next hne => exact Or.inr ⟨_, bn_self rfl, wantsKey_or_many hne, Or.inl rfl⟩
    · next a =>
      split
      · exact Or.inl rfl
      · split
        · exact Or.inl rfl
        · rcases ih a (by simp) (bn_conn rfl (by simp)) with h | ⟨h, hh, hw, e | e⟩
          · exact Or.inl h
          · exact Or.inr ⟨h, hh, hw, Or.inr (by rw [e, negLit_sym hs])⟩
          · exact Or.inr ⟨h, hh, hw, Or.inl (by rw [e, negLit_notSym hs])⟩
    · exact Or.inr ⟨_, bn_self rfl, rfl, Or.inl rfl⟩
    · exact Or.inr ⟨_, bn_self rfl, rfl, Or.inl rfl⟩
    · split
      · exact Or.inl rfl
      · next hph => exact Or.inr ⟨_, bn_self_ite hph, wantsKey_ite hph, Or.inl rfl⟩
    · exact Or.inl rfl

theorem isTrueC_sym (k : Sym) : isTrueC (Term.sym k) = false := rfl
theorem isFalseC_sym (k : Sym) : isFalseC (Term.sym k) = false := rfl
theorem isTrueC_mkNot (a : Term) : isTrueC (Term.mkNot a) = false := rfl
theorem isFalseC_mkNot (a : Term) : isFalseC (Term.mkNot a) = false := rfl

/-- a constant literal comes without clauses -/
theorem enc_const_clauses (E : Env) (hs : SimpSym E.simp) (g : Term)
    (h : isTrueC (enc E g).1 = true ∨ isFalseC (enc E g).1 = true) : (enc E g).2 = [] := by
  rcases enc_form E hs g with h' | ⟨k, _, _, e | e⟩
  · exact h'
  · rw [e, isTrueC_sym, isFalseC_sym] at h; simp at h
  · rw [e, isTrueC_mkNot, isFalseC_mkNot] at h; simp at h

/-! ## soundness of the definitions -/

theorem enc_sound (E : Env) (hs : SimpSym E.simp) (J : Interp) (hσ : SimpSoundAt E.simp J) :
    (g : Term) → holdsAll J (enc E g).2 → tv J (enc E g).1 = tv J g
  | .node op args p => by
    have ih : ∀ a ∈ args, holdsAll J (enc E a).2 → tv J (enc E a).1 = tv J a :=
      fun a _ => enc_sound E hs J hσ a
    revert ih
    rw [enc.eq_def]; simp only
    split <;> intro ih
    · next a =>
      intro h
      rw [ih a (by simp) h, tv_and]; simp
    · -- n-ary and
      intro h
      simp only [List.map_map, Function.comp_def] at h
      obtain ⟨h0, h12⟩ := holdsAll_cons.mp h
      obtain ⟨h1, h2⟩ := holdsAll_append.mp h12
      have ih' : ∀ a ∈ args, tv J (enc E a).1 = tv J a := fun a ha =>
        ih a ha (holdsAll_flatten.mp h2 _ (List.mem_map.mpr ⟨a, ha, rfl⟩))
      have hall : (args.map (fun a => (enc E a).1)).all (tv J) = args.all (tv J) :=
        all_map_congr _ _ _ ih'
      have h0' := (holds_and_main hσ (Term.sym (E.key (.node .and args p))) (args.map (fun a => (enc E a).1))).mp
        (by simpa only [List.map_map, Function.comp_def] using h0)
      have h1' := (holds_and_side (I := J) (Term.sym (E.key (.node .and args p)))
        (args.map (fun a => (enc E a).1))).mp (by
          intro l hl
          obtain ⟨a, ha, rfl⟩ := List.mem_map.mp hl
          exact (holdsAll_map_iff _ _).mp h1 a ha)
      rw [hall] at h0' h1'
      rw [tv_and, Bool.eq_iff_iff]
      exact ⟨h1', h0'⟩
    · next a =>
      intro h
      rw [ih a (by simp) h, tv_or]; simp
    · -- n-ary or
      intro h
      simp only [List.map_map, Function.comp_def] at h
      obtain ⟨h0, h12⟩ := holdsAll_cons.mp h
      obtain ⟨h1, h2⟩ := holdsAll_append.mp h12
      have ih' : ∀ a ∈ args, tv J (enc E a).1 = tv J a := fun a ha =>
        ih a ha (holdsAll_flatten.mp h2 _ (List.mem_map.mpr ⟨a, ha, rfl⟩))
      have hany : (args.map (fun a => (enc E a).1)).any (tv J) = args.any (tv J) :=
        any_map_congr _ _ _ ih'
      have h0' := (holds_or_main (I := J) (Term.sym (E.key (.node .or args p))) (args.map (fun a => (enc E a).1))).mp
        (by simpa only [List.map_map, Function.comp_def] using h0)
      have h1' := (holds_or_side hσ (Term.sym (E.key (.node .or args p)))
        (args.map (fun a => (enc E a).1))).mp (by
          intro l hl
          obtain ⟨a, ha, rfl⟩ := List.mem_map.mp hl
          exact (holdsAll_map_iff _ _).mp h1 a ha)
      rw [hany] at h0' h1'
      rw [tv_or, Bool.eq_iff_iff]
      exact ⟨h0', h1'⟩
    · next a =>
      split
      · next hc =>
        intro _
        have hcl := enc_const_clauses E hs a (Or.inl hc)
        have := ih a (by simp) (by rw [hcl]; exact holdsAll_nil)
        rw [tv_not, ← this, tv_of_isTrueC hc]; simp
      · split
        · next hc =>
          intro _
          have hcl := enc_const_clauses E hs a (Or.inr hc)
          have := ih a (by simp) (by rw [hcl]; exact holdsAll_nil)
          rw [tv_not, ← this, tv_of_isFalseC hc]; simp
        · intro h
          rw [tv_negLit hσ, ih a (by simp) h, tv_not]
    · next a b =>
      intro h
      simp only [holdsAll_append] at h
      obtain ⟨⟨h0, ha⟩, hb⟩ := h
      have iha := ih a (by simp) ha
      have ihb := ih b (by simp) hb
      have c1 := h0 _ List.mem_cons_self
      have c2 := h0 _ (List.mem_cons_of_mem _ List.mem_cons_self)
      have c3 := h0 _ (List.mem_cons_of_mem _ (List.mem_cons_of_mem _ List.mem_cons_self))
      simp only [holds, List.any_cons, List.any_nil, tv_negLit hσ, tv_mkNot, iha, ihb] at c1 c2 c3
      rw [tv_implies]
      revert c1 c2 c3
      cases tv J (Term.sym (E.key (Term.node Op.implies [a, b] p))) <;> cases tv J a <;> cases tv J b <;> simp
    · next a b =>
      intro h
      simp only [holdsAll_append] at h
      obtain ⟨⟨h0, ha⟩, hb⟩ := h
      have iha := ih a (by simp) ha
      have ihb := ih b (by simp) hb
      have c1 := h0 _ List.mem_cons_self
      have c2 := h0 _ (List.mem_cons_of_mem _ List.mem_cons_self)
      have c3 := h0 _ (List.mem_cons_of_mem _ (List.mem_cons_of_mem _ List.mem_cons_self))
      have c4 := h0 _ (List.mem_cons_of_mem _ (List.mem_cons_of_mem _ (List.mem_cons_of_mem _ List.mem_cons_self)))
      simp only [holds, List.any_cons, List.any_nil, tv_negLit hσ, tv_mkNot, iha, ihb] at c1 c2 c3 c4
      rw [tv_iff_node]
      revert c1 c2 c3 c4
      cases tv J (Term.sym (E.key (Term.node Op.iff [a, b] p))) <;> cases tv J a <;> cases tv J b <;> simp
    · next i th el =>
      split
      · intro _; rfl
      · intro h
        simp only [holdsAll_append] at h
        obtain ⟨⟨⟨h0, hi⟩, ht⟩, he⟩ := h
        have ihi := ih i (by simp) hi
        have iht := ih th (by simp) ht
        have ihe := ih el (by simp) he
        have c1 := h0 _ List.mem_cons_self
        have c2 := h0 _ (List.mem_cons_of_mem _ List.mem_cons_self)
        have c3 := h0 _ (List.mem_cons_of_mem _ (List.mem_cons_of_mem _ List.mem_cons_self))
        have c4 := h0 _ (List.mem_cons_of_mem _ (List.mem_cons_of_mem _ (List.mem_cons_of_mem _ List.mem_cons_self)))
        simp only [holds, List.any_cons, List.any_nil, tv_negLit hσ, tv_mkNot, ihi, iht, ihe] at c1 c2 c3 c4
        rw [tv_ite]
        revert c1 c2 c3 c4
        cases tv J (Term.sym (E.key (Term.node Op.ite [i, th, el] p))) <;> cases tv J i <;> cases tv J th <;>
          cases tv J el <;> simp
    · intro _; rfl

/-! ## literals do not depend on a definition symbol other than through `±k` -/

def AllLits (P : Term → Prop) (cs : List Clause) : Prop := ∀ c ∈ cs, ∀ l ∈ c, P l

theorem allLits_nil {P} : AllLits P [] := by simp [AllLits]
theorem allLits_cons {P} {c : Clause} {cs} : AllLits P (c :: cs) ↔ (∀ l ∈ c, P l) ∧ AllLits P cs := by
  simp [AllLits]
theorem allLits_append {P} {a b : List Clause} : AllLits P (a ++ b) ↔ AllLits P a ∧ AllLits P b := by
  simp [AllLits, List.mem_append, or_imp, forall_and]
theorem allLits_flatten {P} {css : List (List Clause)} : AllLits P css.flatten ↔ ∀ cs ∈ css, AllLits P cs := by
  simp only [AllLits, List.mem_flatten]
  constructor
  · intro h cs hcs c hc; exact h c ⟨cs, hcs, hc⟩
  · rintro h c ⟨cs, hcs, hc⟩; exact h cs hcs c hc
theorem allLits_map {P} {α} (f : α → Clause) (l : List α) : AllLits P (l.map f) ↔ ∀ x ∈ l, ∀ y ∈ f x, P y := by
  simp only [AllLits, List.mem_map, forall_exists_index, and_imp, forall_apply_eq_imp_iff₂]
theorem allLits_mono {P} {a b : List Clause} (h : ∀ c ∈ a, c ∈ b) (hb : AllLits P b) : AllLits P a :=
  fun c hc => hb c (h c hc)

/-- the literal is `±k`, or has the same truth value under `J` and `J'` -/
def Stable (J J' : Interp) (k : Sym) (l : Term) : Prop :=
  l = Term.sym k ∨ l = Term.mkNot (Term.sym k) ∨ tv J' l = tv J l

theorem stable_negLit {E : Env} (hs : SimpSym E.simp) {J J' : Interp} (hσ : SimpSoundAt E.simp J)
    (hσ' : SimpSoundAt E.simp J') {k : Sym} {l : Term} (h : Stable J J' k l) : Stable J J' k (negLit E l) := by
  rcases h with rfl | rfl | h
  · exact Or.inr (Or.inl (negLit_sym hs k))
  · exact Or.inl (negLit_notSym hs k)
  · exact Or.inr (Or.inr (by rw [tv_negLit hσ', tv_negLit hσ, h]))

theorem stable_key (J : Interp) (k : Sym) (v : Val) (s : Sym) :
    Stable J (J.bind k v) k (Term.sym s) ∧ Stable J (J.bind k v) k (Term.mkNot (Term.sym s)) := by
  by_cases h : s = k
  · subst h; exact ⟨Or.inl rfl, Or.inr (Or.inl rfl)⟩
  · have : tv (J.bind k v) (Term.sym s) = tv J (Term.sym s) := by
      simp only [tv_sym, Interp.bind, h, if_false]
    exact ⟨Or.inr (Or.inr this), Or.inr (Or.inr (by rw [tv_mkNot, tv_mkNot, this]))⟩

theorem enc_stable (E : Env) (hs : SimpSym E.simp) (J : Interp) (k : Sym) (v : Val)
    (hσ : SimpSoundAt E.simp J) (hσ' : SimpSoundAt E.simp (J.bind k v)) :
    (g : Term) → k ∉ g.fv →
      Stable J (J.bind k v) k (enc E g).1 ∧ AllLits (Stable J (J.bind k v) k) (enc E g).2
  | .node op args p => by
    intro hk
    have hatom : Stable J (J.bind k v) k (Term.node op args p) :=
      Or.inr (Or.inr (SameOn.bind _ J k v hk).tv.symm)
    have hkey := stable_key J k v (E.key (Term.node op args p))
    have ih : ∀ a ∈ args, op ≠ .symbol → op.isQuantifier = false →
        Stable J (J.bind k v) k (enc E a).1 ∧ AllLits (Stable J (J.bind k v) k) (enc E a).2 :=
      fun a ha h1 h2 => enc_stable E hs J k v hσ hσ' a (fun hs => hk (fv_child ha hs h1 h2))
    clear hk
    revert hatom hkey ih
    rw [enc.eq_def]; simp only
    split <;> intro hatom hkey ih
    · exact ih _ (by simp) (by simp) rfl
    · have ih' : ∀ a ∈ args, _ := fun a ha => ih a ha (by simp) rfl
      refine ⟨hkey.1, ?_⟩
      simp only [List.map_map, Function.comp_def]
      refine allLits_cons.mpr ⟨?_, allLits_append.mpr ⟨?_, allLits_flatten.mpr ?_⟩⟩
      · intro l hl
        rcases List.mem_cons.mp hl with rfl | hl
        · exact hkey.1
        · obtain ⟨a, ha, rfl⟩ := List.mem_map.mp hl
          exact stable_negLit hs hσ hσ' (ih' a ha).1
      · rw [allLits_map]
        intro a ha l hl
        simp only [List.mem_cons, List.mem_nil_iff, or_false] at hl
        rcases hl with rfl | rfl
        · exact (ih' a ha).1
        · exact hkey.2
      · intro cs hcs
        obtain ⟨a, ha, rfl⟩ := List.mem_map.mp hcs
        exact (ih' a ha).2
    · exact ih _ (by simp) (by simp) rfl
    · have ih' : ∀ a ∈ args, _ := fun a ha => ih a ha (by simp) rfl
      refine ⟨hkey.1, ?_⟩
      simp only [List.map_map, Function.comp_def]
      refine allLits_cons.mpr ⟨?_, allLits_append.mpr ⟨?_, allLits_flatten.mpr ?_⟩⟩
      · intro l hl
        rcases List.mem_cons.mp hl with rfl | hl
        · exact hkey.2
        · obtain ⟨a, ha, rfl⟩ := List.mem_map.mp hl
          exact (ih' a ha).1
      · rw [allLits_map]
        intro a ha l hl
        simp only [List.mem_cons, List.mem_nil_iff, or_false] at hl
        rcases hl with rfl | rfl
        · exact hkey.1
        · exact stable_negLit hs hσ hσ' (ih' a ha).1
      · intro cs hcs
        obtain ⟨a, ha, rfl⟩ := List.mem_map.mp hcs
        exact (ih' a ha).2
    · next a =>
      have iha := ih a (by simp) (by simp) rfl
      split
      · exact ⟨Or.inr (Or.inr (by simp)), allLits_nil⟩
      · split
        · exact ⟨Or.inr (Or.inr (by simp)), allLits_nil⟩
        · exact ⟨stable_negLit hs hσ hσ' iha.1, iha.2⟩
    · next a b =>
      have iha := ih a (by simp) (by simp) rfl
      have ihb := ih b (by simp) (by simp) rfl
      refine ⟨hkey.1, ?_⟩
      simp only [allLits_append]
      refine ⟨⟨?_, iha.2⟩, ihb.2⟩
      intro c hc l hl
      simp only [List.mem_cons, List.mem_nil_iff, or_false] at hc
      rcases hc with rfl | rfl | rfl <;>
        simp only [List.mem_cons, List.mem_nil_iff, or_false] at hl <;>
        rcases hl with rfl | rfl | rfl <;>
        first
          | exact hkey.1 | exact hkey.2 | exact iha.1 | exact ihb.1
          | exact stable_negLit hs hσ hσ' iha.1 | exact stable_negLit hs hσ hσ' ihb.1
    · next a b =>
      have iha := ih a (by simp) (by simp) rfl
      have ihb := ih b (by simp) (by simp) rfl
      refine ⟨hkey.1, ?_⟩
      simp only [allLits_append]
      refine ⟨⟨?_, iha.2⟩, ihb.2⟩
      intro c hc l hl
      simp only [List.mem_cons, List.mem_nil_iff, or_false] at hc
      rcases hc with rfl | rfl | rfl | rfl <;>
        simp only [List.mem_cons, List.mem_nil_iff, or_false] at hl <;>
        rcases hl with rfl | rfl | rfl <;>
        first
          | exact hkey.1 | exact hkey.2 | exact iha.1 | exact ihb.1
          | exact stable_negLit hs hσ hσ' iha.1 | exact stable_negLit hs hσ hσ' ihb.1
    · next i th el =>
      split
      · exact ⟨hatom, allLits_nil⟩
      · have ihi := ih i (by simp) (by simp) rfl
        have iht := ih th (by simp) (by simp) rfl
        have ihe := ih el (by simp) (by simp) rfl
        refine ⟨hkey.1, ?_⟩
        simp only [allLits_append]
        refine ⟨⟨⟨?_, ihi.2⟩, iht.2⟩, ihe.2⟩
        intro c hc l hl
        simp only [List.mem_cons, List.mem_nil_iff, or_false] at hc
        rcases hc with rfl | rfl | rfl | rfl <;>
          simp only [List.mem_cons, List.mem_nil_iff, or_false] at hl <;>
          rcases hl with rfl | rfl | rfl <;>
          first
            | exact hkey.1 | exact hkey.2 | exact ihi.1 | exact iht.1 | exact ihe.1
            | exact stable_negLit hs hσ hσ' ihi.1 | exact stable_negLit hs hσ hσ' iht.1
            | exact stable_negLit hs hσ hσ' ihe.1
    · exact ⟨hatom, allLits_nil⟩

/-! ## the top-level clean-up -/

theorem holds_nil (I : Interp) : holds I [] = false := rfl

theorem cleanClause_none {E : Env} {tl : Term} {c : Clause} (h : cleanClause E tl c = none) :
    ∃ l ∈ c, isTrueC l = true ∨ l = tl := by
  unfold cleanClause at h
  split at h
  · next hc =>
    obtain ⟨l, hl, hv⟩ := List.any_eq_true.mp hc
    refine ⟨l, hl, ?_⟩
    simpa using hv
  · cases h

theorem cleanClause_some {E : Env} {tl : Term} {c c' : Clause} (h : cleanClause E tl c = some c') :
    (∀ l ∈ c, isTrueC l = false ∧ l ≠ tl) ∧
      ∀ l, l ∈ c' ↔ (l ∈ c ∧ l ≠ negLit E tl ∧ isFalseC l = false) := by
  unfold cleanClause at h
  split at h
  · cases h
  · next hc =>
    cases h
    constructor
    · intro l hl
      have := fun hh => hc (List.any_eq_true.mpr ⟨l, hl, hh⟩)
      simp only [Bool.or_eq_true, beq_iff_eq] at this
      refine ⟨?_, fun e => this (Or.inr e)⟩
      cases ht : isTrueC l
      · rfl
      · exact absurd (Or.inl ht) this
    · intro l
      simp only [List.mem_filter, Bool.and_eq_true, Bool.not_eq_true', beq_eq_false_iff_ne, ne_eq]

theorem finish_complete (E : Env) (I : Interp) (tl : Term) (cs : List Clause) (hσ : SimpSoundAt E.simp I)
    (hcs : holdsAll I cs) (htl : tv I tl = true) : holdsAll I (finish E tl cs) := by
  have hclean : ∀ c ∈ cs, ∀ c', cleanClause E tl c = some c' → holds I c' = true := by
    intro c hc c' hcl
    obtain ⟨l, hl, hv⟩ := List.any_eq_true.mp (hcs c hc)
    refine List.any_eq_true.mpr ⟨l, ((cleanClause_some hcl).2 l).mpr ⟨hl, ?_, ?_⟩, hv⟩
    · rintro rfl
      rw [tv_negLit hσ, htl] at hv; cases hv
    · cases hf : isFalseC l
      · rfl
      · rw [tv_of_isFalseC hf] at hv; cases hv
  unfold finish
  split
  · intro c hc
    simp only [List.mem_cons, List.mem_nil_iff, or_false] at hc
    subst hc
    simp [holds, htl]
  · split
    · next hemp =>
      obtain ⟨c, hc, he⟩ := List.any_eq_true.mp hemp
      have := hcs c hc
      simp only [List.isEmpty_iff] at he
      rw [he, holds_nil] at this; cases this
    · simp only
      have hcl : holdsAll I (cs.filterMap (cleanClause E tl)) := by
        intro c' hc'
        obtain ⟨c, hc, hcl⟩ := List.mem_filterMap.mp hc'
        exact hclean c hc c' hcl
      split
      · next hemp =>
        obtain ⟨c, hc, he⟩ := List.any_eq_true.mp hemp
        have := hcl c hc
        simp only [List.isEmpty_iff] at he
        rw [he, holds_nil] at this; cases this
      · exact (holdsAll_norm I _).mpr hcl

theorem not_holdsAll_falseCnf (I : Interp) : ¬ holdsAll I falseCnf := by
  intro h
  have := h [] (by simp [falseCnf])
  rw [holds_nil] at this; cases this

theorem finish_sound (E : Env) (J J' : Interp) (tl : Term) (cs : List Clause)
    (hst : AllLits (fun l => l = tl ∨ l = negLit E tl ∨ tv J' l = tv J l) cs)
    (htl : tv J' tl = true) (hne : cs ≠ []) (h : holdsAll J (finish E tl cs)) : holdsAll J' cs := by
  unfold finish at h
  split at h
  · next he => simp only [List.isEmpty_iff] at he; exact absurd he hne
  · split at h
    · exact absurd h (not_holdsAll_falseCnf J)
    · simp only at h
      split at h
      · exact absurd h (not_holdsAll_falseCnf J)
      · have hcl := (holdsAll_norm J _).mp h
        intro c hc
        cases hcc : cleanClause E tl c with
        | none =>
          obtain ⟨l, hl, hv⟩ := cleanClause_none hcc
          refine List.any_eq_true.mpr ⟨l, hl, ?_⟩
          rcases hv with hv | rfl
          · exact tv_of_isTrueC hv
          · exact htl
        | some c' =>
          have hc' : c' ∈ cs.filterMap (cleanClause E tl) := List.mem_filterMap.mpr ⟨c, hc, hcc⟩
          obtain ⟨l, hl, hv⟩ := List.any_eq_true.mp (hcl c' hc')
          obtain ⟨hlc, hln, _⟩ := ((cleanClause_some hcc).2 l).mp hl
          refine List.any_eq_true.mpr ⟨l, hlc, ?_⟩
          rcases hst c hc l hlc with rfl | rfl | e
          · exact htl
          · exact absurd rfl hln
          · rw [e]; exact hv

/-! ## the two directions for `convert` -/

theorem convert_complete (E : Env) (u : Sym → Option Term) (I : Interp) (t : Term) (R : List Clause)
    (hk : ∀ h ∈ boolNodes t, wantsKey h = true → u (E.key h) = some h) (hf : ∀ s ∈ t.fv, u s = none)
    (hσ : SimpSound E.simp t I) (hR : convert E t = some R) (hI : tv I t = true) :
    holdsAll (ext u I) R := by
  unfold convert at hR
  split at hR
  · cases hR
    have hσ' := hσ _ (ext_sameOn I t hf)
    have := enc_complete E u I hσ' t hk hf
    exact finish_complete E _ _ _ hσ' this.2 (by rw [this.1, hI])
  · cases hR

theorem bind_sym_self (J : Interp) (k : Sym) (v : Val) : (J.bind k v).sym k = v := by
  simp [Interp.bind]

/-- the generic argument behind `cnf_sound` and `polCnf_sound`: from a model of the cleaned-up clauses
to a model of the clauses in which the top literal holds -/
theorem finish_sound_key (E : Env) (hs : SimpSym E.simp) (t : Term) (J : Interp)
    (tl : Term) (cs : List Clause) (k : Sym) (hk : k ∉ t.fv)
    (hform : tl = Term.sym k ∨ tl = Term.mkNot (Term.sym k))
    (hst : ∀ v, AllLits (Stable J (J.bind k v) k) cs)
    (hne : cs ≠ []) (h : holdsAll J (finish E tl cs)) :
    ∃ v, SameOn t J (J.bind k v) ∧ holdsAll (J.bind k v) cs ∧ tv (J.bind k v) tl = true := by
  rcases hform with rfl | rfl
  · refine ⟨.b true, SameOn.bind t J k _ hk, ?_, ?_⟩
    · refine finish_sound E J _ _ cs ?_ ?_ hne h
      · intro c hc l hl
        rcases hst (.b true) c hc l hl with e | e | e
        · exact Or.inl e
        · exact Or.inr (Or.inl (by rw [negLit_sym hs]; exact e))
        · exact Or.inr (Or.inr e)
      · simp [tv_sym, bind_sym_self]
    · simp [tv_sym, bind_sym_self]
  · refine ⟨.b false, SameOn.bind t J k _ hk, ?_, ?_⟩
    · refine finish_sound E J _ _ cs ?_ ?_ hne h
      · intro c hc l hl
        rcases hst (.b false) c hc l hl with e | e | e
        · exact Or.inr (Or.inl (by rw [negLit_notSym hs]; exact e))
        · exact Or.inl e
        · exact Or.inr (Or.inr e)
      · simp [tv_mkNot, tv_sym, bind_sym_self]
    · simp [tv_mkNot, tv_sym, bind_sym_self]

theorem convert_sound (E : Env) (hs : SimpSym E.simp) (t : Term) (J : Interp) (R : List Clause)
    (hfresh : ∀ h ∈ boolNodes t, wantsKey h = true → E.key h ∉ t.fv) (hσ : SimpSound E.simp t J)
    (hR : convert E t = some R) (h : holdsAll J R) : tv J t = true := by
  unfold convert at hR
  split at hR
  · cases hR
    by_cases hcs : (enc E t).2 = []
    · rw [hcs] at h
      have h1 : tv J (enc E t).1 = true := by
        have := h [(enc E t).1] (by simp [finish])
        simpa [holds] using this
      rw [← enc_sound E hs J hσ.self t (by rw [hcs]; exact holdsAll_nil)]
      exact h1
    · rcases enc_form E hs t with h0 | ⟨g, hg, hwk, hform⟩
      · exact absurd h0 hcs
      · have hk := hfresh g hg hwk
        obtain ⟨v, hsame, hall, htl⟩ := finish_sound_key E hs t J _ _ (E.key g) hk hform
          (fun v => (enc_stable E hs J (E.key g) v hσ.self (hσ _ (SameOn.bind t J _ v hk)) t hk).2) hcs h
        rw [hsame.tv, ← enc_sound E hs _ (hσ _ hsame) t hall]
        exact htl
  · cases hR

end PySMT.CNF
