import PySMT.Proofs.C11Basic
/-!
# C11 — the Tseitin encoding `CNF.enc`: both directions, and the top-level clean-up `finish`

* `enc_complete` : under the canonical extension `ext u I` (definition symbol of `g` ↦ truth value
  of `g` under `I`) every definitional clause holds and the literal of `g` has the value of `g`.
* `enc_sound`    : under *any* interpretation satisfying the definitional clauses the literal of `g`
  has the value of `g` (no freshness needed: a clash of symbols only makes the clauses stronger).
* `finish_complete`, `finish_sound` : the clean-up of `convert` (unit propagation of the top literal).
-/
namespace PySMT.CNF

/-! ## structure of `subterms` / `fv` -/

theorem subterms_self (t : Term) : t ∈ t.subterms := by
  cases t with
  | node op args p => simp [Term.subterms]

theorem subterms_child {op : Op} {args : List Term} {p : Payload} {a h : Term} (ha : a ∈ args)
    (hh : h ∈ a.subterms) : h ∈ (Term.node op args p).subterms := by
  simp only [Term.subterms, List.mem_cons, List.mem_flatten, List.mem_map]
  exact Or.inr ⟨a.subterms, ⟨a, ha, rfl⟩, hh⟩

theorem fv_child {op : Op} {args : List Term} {p : Payload} {a : Term} {s : Sym} (ha : a ∈ args)
    (hs : s ∈ a.fv) (hsym : op ≠ .symbol) (hq : op.isQuantifier = false) :
    s ∈ (Term.node op args p).fv :=
  mem_fv_child op args p a ha s hs hsym (fun _ _ h => by simp [hq] at h)

/-! ## the canonical extension -/

/-- `I` extended on the definition symbols: `u` maps a definition symbol back to its sub-formula -/
def ext (u : Sym → Option Term) (I : Interp) : Interp :=
  { I with sym := fun s => match u s with | some g => .b (tv I g) | none => I.sym s }

theorem tv_ext_key {u : Sym → Option Term} {I : Interp} {k : Sym} {g : Term} (h : u k = some g) :
    tv (ext u I) (Term.sym k) = tv I g := by
  simp only [tv_sym, ext, h, isTrue_b]

theorem ext_sameOn {u : Sym → Option Term} (I : Interp) (t : Term) (hf : ∀ s ∈ t.fv, u s = none) :
    SameOn t I (ext u I) := by
  refine ⟨?_, rfl, rfl, rfl, rfl⟩
  intro s hs
  simp only [ext, hf s hs]

/-! ## clause-level lemmas (shared with the polarity encoding) -/

section clauses
variable {E : Env} {I : Interp}

theorem holds_and_side (k : Term) (ls : List Term) :
    (∀ l ∈ ls, holds I [l, Term.mkNot k] = true) ↔ (tv I k = true → ls.all (tv I) = true) := by
  simp only [holds, List.any_cons, List.any_nil, Bool.or_false, tv_mkNot, Bool.or_eq_true,
    Bool.not_eq_true', List.all_eq_true]
  constructor
  · intro h hk l hl
    rcases h l hl with h | h
    · exact h
    · rw [hk] at h; cases h
  · intro h l hl
    cases hk : tv I k
    · exact Or.inr rfl
    · exact Or.inl (h hk l hl)

theorem holds_and_main (hσ : SimpSoundAt E.simp I) (k : Term) (ls : List Term) :
    holds I (k :: ls.map (negLit E)) = true ↔ (ls.all (tv I) = true → tv I k = true) := by
  simp only [holds, List.any_cons, List.any_map, Bool.or_eq_true, List.any_eq_true, Function.comp,
    tv_negLit hσ, Bool.not_eq_true', List.all_eq_true]
  constructor
  · rintro (h | ⟨l, hl, hv⟩) hall
    · exact h
    · rw [hall l hl] at hv; cases hv
  · intro h
    by_cases hall : ∀ l ∈ ls, tv I l = true
    · exact Or.inl (h hall)
    · simp only [Classical.not_forall] at hall
      obtain ⟨l, hl, hv⟩ := hall
      exact Or.inr ⟨l, hl, by simpa using hv⟩

theorem holds_or_main (k : Term) (ls : List Term) :
    holds I (Term.mkNot k :: ls) = true ↔ (tv I k = true → ls.any (tv I) = true) := by
  simp only [holds, List.any_cons, tv_mkNot, Bool.or_eq_true, Bool.not_eq_true']
  constructor
  · rintro (h | h) hk
    · rw [hk] at h; cases h
    · exact h
  · intro h
    cases hk : tv I k
    · exact Or.inl rfl
    · exact Or.inr (h hk)

theorem holds_or_side (hσ : SimpSoundAt E.simp I) (k : Term) (ls : List Term) :
    (∀ l ∈ ls, holds I [k, negLit E l] = true) ↔ (ls.any (tv I) = true → tv I k = true) := by
  simp only [holds, List.any_cons, List.any_nil, Bool.or_false, tv_negLit hσ, Bool.or_eq_true,
    Bool.not_eq_true', List.any_eq_true]
  constructor
  · rintro h ⟨l, hl, hv⟩
    rcases h l hl with h | h
    · exact h
    · rw [hv] at h; cases h
  · intro h l hl
    cases hv : tv I l
    · exact Or.inr rfl
    · exact Or.inl (h ⟨l, hl, hv⟩)

theorem all_map_congr {α} (l : List α) (f : α → Term) (g : α → Bool) (h : ∀ a ∈ l, tv I (f a) = g a) :
    (l.map f).all (tv I) = l.all g := by
  induction l with
  | nil => rfl
  | cons x xs ih =>
    simp only [List.map_cons, List.all_cons, h x (by simp), ih (fun a ha => h a (by simp [ha]))]

theorem any_map_congr {α} (l : List α) (f : α → Term) (g : α → Bool) (h : ∀ a ∈ l, tv I (f a) = g a) :
    (l.map f).any (tv I) = l.any g := by
  induction l with
  | nil => rfl
  | cons x xs ih =>
    simp only [List.map_cons, List.any_cons, h x (by simp), ih (fun a ha => h a (by simp [ha]))]

theorem holdsAll_map_iff {α} (f : α → Clause) (l : List α) :
    holdsAll I (l.map f) ↔ ∀ x ∈ l, holds I (f x) = true := by
  simp only [holdsAll, List.mem_map, forall_exists_index, and_imp, forall_apply_eq_imp_iff₂]

end clauses

/-! ## completeness of the definitions -/

theorem enc_complete (E : Env) (u : Sym → Option Term) (I : Interp) (hσ : SimpSoundAt E.simp (ext u I)) :
    (g : Term) → (∀ h ∈ g.subterms, u (E.key h) = some h) → (∀ s ∈ g.fv, u s = none) →
      tv (ext u I) (enc E g).1 = tv I g ∧ holdsAll (ext u I) (enc E g).2
  | .node op args p => by
    intro hk hf
    have hself : tv (ext u I) (Term.sym (E.key (.node op args p))) = tv I (.node op args p) :=
      tv_ext_key (hk _ (subterms_self _))
    have hatom : tv (ext u I) (Term.node op args p) = tv I (.node op args p) :=
      (ext_sameOn I _ hf).tv.symm
    have ih : ∀ a ∈ args, op ≠ .symbol → op.isQuantifier = false →
        tv (ext u I) (enc E a).1 = tv I a ∧ holdsAll (ext u I) (enc E a).2 :=
      fun a ha h1 h2 => enc_complete E u I hσ a (fun h hh => hk h (subterms_child ha hh))
        (fun s hs => hf s (fv_child ha hs h1 h2))
    clear hk hf
    revert hself hatom ih
    rw [enc.eq_def]; simp only
    split <;> intro hself hatom ih
    · -- and [a]
      next a =>
      have := ih a (by simp) (by simp) rfl
      refine ⟨?_, this.2⟩
      rw [this.1, tv_and]; simp
    · -- and as
      have ih' : ∀ a ∈ args, tv (ext u I) (enc E a).1 = tv I a ∧ holdsAll (ext u I) (enc E a).2 :=
        fun a ha => ih a ha (by simp) rfl
      have hall : (args.map (fun a => (enc E a).1)).all (tv (ext u I)) = args.all (tv I) := by
        exact all_map_congr _ _ _ (fun a ha => (ih' a ha).1)
      refine ⟨by rw [hself], ?_⟩
      simp only [List.map_map, Function.comp_def]
      refine holdsAll_cons.mpr ⟨?_, holdsAll_append.mpr ⟨?_, holdsAll_flatten.mpr ?_⟩⟩
      · have := (holds_and_main hσ (Term.sym (E.key (.node .and args p))) (args.map (fun a => (enc E a).1))).mpr
          (by rw [hall, hself, tv_and]; exact id)
        simpa only [List.map_map, Function.comp_def] using this
      · have := (holds_and_side (I := ext u I) (Term.sym (E.key (.node .and args p)))
          (args.map (fun a => (enc E a).1))).mpr (by rw [hall, hself, tv_and]; exact id)
        rw [holdsAll_map_iff]
        intro a ha
        exact this _ (List.mem_map.mpr ⟨a, ha, rfl⟩)
      · intro cs hcs
        simp only [List.mem_map] at hcs
        obtain ⟨a, ha, rfl⟩ := hcs
        exact (ih' a ha).2
    · -- or [a]
      next a =>
      have := ih a (by simp) (by simp) rfl
      refine ⟨?_, this.2⟩
      rw [this.1, tv_or]; simp
    · -- or as
      have ih' : ∀ a ∈ args, tv (ext u I) (enc E a).1 = tv I a ∧ holdsAll (ext u I) (enc E a).2 :=
        fun a ha => ih a ha (by simp) rfl
      have hany : (args.map (fun a => (enc E a).1)).any (tv (ext u I)) = args.any (tv I) := by
        exact any_map_congr _ _ _ (fun a ha => (ih' a ha).1)
      refine ⟨by rw [hself], ?_⟩
      simp only [List.map_map, Function.comp_def]
      refine holdsAll_cons.mpr ⟨?_, holdsAll_append.mpr ⟨?_, holdsAll_flatten.mpr ?_⟩⟩
      · have := (holds_or_main (I := ext u I) (Term.sym (E.key (.node .or args p)))
          (args.map (fun a => (enc E a).1))).mpr (by rw [hany, hself, tv_or]; exact id)
        simpa only [List.map_map, Function.comp_def] using this
      · have := (holds_or_side hσ (Term.sym (E.key (.node .or args p)))
          (args.map (fun a => (enc E a).1))).mpr (by rw [hany, hself, tv_or]; exact id)
        rw [holdsAll_map_iff]
        intro a ha
        exact this _ (List.mem_map.mpr ⟨a, ha, rfl⟩)
      · intro cs hcs
        simp only [List.mem_map] at hcs
        obtain ⟨a, ha, rfl⟩ := hcs
        exact (ih' a ha).2
    · -- not [a]
      next a =>
      have iha := ih a (by simp) (by simp) rfl
      split
      · next h =>
        have := tv_of_isTrueC (I := ext u I) h
        refine ⟨?_, holdsAll_nil⟩
        rw [tv_not, ← iha.1, this]; simp
      · split
        · next h =>
          have := tv_of_isFalseC (I := ext u I) h
          refine ⟨?_, holdsAll_nil⟩
          rw [tv_not, ← iha.1, this]; simp
        · exact ⟨by rw [tv_negLit hσ, iha.1, tv_not], iha.2⟩
    · -- implies [a, b]
      next a b =>
      have iha := ih a (by simp) (by simp) rfl
      have ihb := ih b (by simp) (by simp) rfl
      refine ⟨by rw [hself], ?_⟩
      simp only [holdsAll_append]
      refine ⟨⟨?_, iha.2⟩, ihb.2⟩
      simp only [holdsAll, List.mem_cons, List.mem_nil_iff, or_false]
      rintro c (rfl | rfl | rfl) <;>
        simp only [holds, List.any_cons, List.any_nil, tv_negLit hσ, tv_mkNot, hself, iha.1, ihb.1,
          tv_implies] <;>
        cases tv I a <;> cases tv I b <;> rfl
    · -- iff [a, b]
      next a b =>
      have iha := ih a (by simp) (by simp) rfl
      have ihb := ih b (by simp) (by simp) rfl
      refine ⟨by rw [hself], ?_⟩
      simp only [holdsAll_append]
      refine ⟨⟨?_, iha.2⟩, ihb.2⟩
      simp only [holdsAll, List.mem_cons, List.mem_nil_iff, or_false]
      rintro c (rfl | rfl | rfl | rfl) <;>
        simp only [holds, List.any_cons, List.any_nil, tv_negLit hσ, tv_mkNot, hself, iha.1, ihb.1,
          tv_iff_node] <;>
        cases tv I a <;> cases tv I b <;> rfl
    · -- ite [i, t, e]
      next i th el =>
      split
      · exact ⟨hatom, holdsAll_nil⟩
      · have ihi := ih i (by simp) (by simp) rfl
        have iht := ih th (by simp) (by simp) rfl
        have ihe := ih el (by simp) (by simp) rfl
        refine ⟨by rw [hself], ?_⟩
        simp only [holdsAll_append]
        refine ⟨⟨⟨?_, ihi.2⟩, iht.2⟩, ihe.2⟩
        simp only [holdsAll, List.mem_cons, List.mem_nil_iff, or_false]
        rintro c (rfl | rfl | rfl | rfl) <;>
          simp only [holds, List.any_cons, List.any_nil, tv_negLit hσ, tv_mkNot, hself, ihi.1, iht.1,
            ihe.1, tv_ite] <;>
          cases tv I i <;> cases tv I th <;> cases tv I el <;> rfl
    · exact ⟨hatom, holdsAll_nil⟩

/-! ## soundness of the definitions -/

theorem enc_sound (E : Env) (J : Interp) (hσ : SimpSoundAt E.simp J) :
    (g : Term) → holdsAll J (enc E g).2 → tv J (enc E g).1 = tv J g
  | .node op args p => by
    have ih : ∀ a ∈ args, holdsAll J (enc E a).2 → tv J (enc E a).1 = tv J a :=
      fun a _ => enc_sound E J hσ a
    revert ih
    rw [enc.eq_def]; simp only
    split <;> intro ih
    · next a =>
      intro h
      rw [ih a (by simp) h, tv_and]; simp
    · -- n-ary
      intro h
      simp only [List.map_map, Function.comp_def] at h
      obtain ⟨h0, h12⟩ := holdsAll_cons.mp h
      obtain ⟨h1, h2⟩ := holdsAll_append.mp h12
      have ih' : ∀ a ∈ args, tv J (enc E a).1 = tv J a := fun a ha =>
        ih a ha (holdsAll_flatten.mp h2 _ (List.mem_map.mpr ⟨a, ha, rfl⟩))
      have hall : (args.map (fun a => (enc E a).1)).all (tv J) = args.all (tv J) := by
        exact all_map_congr _ _ _ ih'
      have h0' := (holds_and_main hσ (Term.sym (E.key (.node .and args p))) (args.map (fun a => (enc E a).1))).mp
        (by simpa only [List.map_map, Function.comp_def] using h0)
      have h1' := (holds_and_side (I := J) (Term.sym (E.key (.node .and args p)))
        (args.map (fun a => (enc E a).1))).mp (by
          intro l hl
          obtain ⟨a, ha, rfl⟩ := List.mem_map.mp hl
          exact (holdsAll_map_iff _ _).mp h1 a ha)
      rw [hall] at h0' h1'
      rw [tv_and, Bool.eq_iff_iff]
      exact ⟨h1', h0'⟩
    · next a =>
      intro h
      rw [ih a (by simp) h, tv_or]; simp
    · -- n-ary
      intro h
      simp only [List.map_map, Function.comp_def] at h
      obtain ⟨h0, h12⟩ := holdsAll_cons.mp h
      obtain ⟨h1, h2⟩ := holdsAll_append.mp h12
      have ih' : ∀ a ∈ args, tv J (enc E a).1 = tv J a := fun a ha =>
        ih a ha (holdsAll_flatten.mp h2 _ (List.mem_map.mpr ⟨a, ha, rfl⟩))
      have hany : (args.map (fun a => (enc E a).1)).any (tv J) = args.any (tv J) := by
        exact any_map_congr _ _ _ ih'
      have h0' := (holds_or_main (I := J) (Term.sym (E.key (.node .or args p))) (args.map (fun a => (enc E a).1))).mp
        (by simpa only [List.map_map, Function.comp_def] using h0)
      have h1' := (holds_or_side hσ (Term.sym (E.key (.node .or args p)))
        (args.map (fun a => (enc E a).1))).mp (by
          intro l hl
          obtain ⟨a, ha, rfl⟩ := List.mem_map.mp hl
          exact (holdsAll_map_iff _ _).mp h1 a ha)
      rw [hany] at h0' h1'
      rw [tv_or, Bool.eq_iff_iff]
      exact ⟨h0', h1'⟩
    · next a =>
      simp only
      split
      · next hc =>
        intro _
        have := ih a (by simp)
        sorry
      · sorry
    · sorry
    · sorry
    · sorry
    · intro _; rfl

end PySMT.CNF
