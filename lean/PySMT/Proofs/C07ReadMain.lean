import PySMT.Proofs.C07Arr
/-!
# C07: `read_toSexp` — the standard's reading of the tree printer's output is the formula
-/
namespace PySMT.Printer
open PySMT.Std PySMT.Sexp

theorem printable_node (env : SEnv) (scope : List Sym) (op : Op) (args : List Term) (p : Payload)
    (h : Printable env scope (.node op args p) = true) :
    ∃ τ, stdTy op p (args.map tyD) = some τ ∧ (Term.node op args p).typeOf = some τ ∧
      ((∃ vs, (op = .forall_ ∨ op = .exists_) ∧ p = .qvars vs ∧ binderOK env vs = true ∧
          ∀ a ∈ args, Printable env (vs.reverse ++ scope) a = true) ∨
       (op ≠ .forall_ ∧ op ≠ .exists_ ∧ nodeOK env scope op p args = true ∧ ∀ a ∈ args, Printable env scope a = true)) := by
  rw [Printable.eq_def] at h
  simp only at h
  have hty := (Bool.and_eq_true _ _ ▸ h).1
  have hrest := (Bool.and_eq_true _ _ ▸ h).2
  cases hS : stdTy op p (args.map tyD) with
  | none => rw [hS] at hty; simp at hty
  | some τ =>
    rw [hS] at hty
    simp only [beq_iff_eq] at hty
    refine ⟨τ, rfl, by rw [typeOf_node, hty], ?_⟩
    by_cases hq : op = .forall_ ∨ op = .exists_
    · -- a binder: the payload is a variable list (otherwise `stdTy` is `none`)
      have hp : ∃ vs, p = .qvars vs := by
        rcases hq with rfl | rfl <;>
        · simp only [stdTy] at hS
          split at hS <;> simp_all
      obtain ⟨vs, rfl⟩ := hp
      left
      refine ⟨vs, hq, rfl, ?_⟩
      rcases hq with rfl | rfl <;>
      · simp only [Bool.and_eq_true, List.all_map, List.all_eq_true, Function.comp, id] at hrest
        exact ⟨hrest.1, hrest.2⟩
    · right
      have h1 : op ≠ .forall_ := fun e => hq (Or.inl e)
      have h2 : op ≠ .exists_ := fun e => hq (Or.inr e)
      refine ⟨h1, h2, ?_⟩
      have : (nodeOK env scope op p args && (args.map (Printable env scope)).all id) = true := by
        cases op <;> first | exact absurd rfl h1 | exact absurd rfl h2 | exact hrest
      simp only [Bool.and_eq_true, List.all_map, List.all_eq_true, Function.comp, id] at this
      exact this

theorem scopeOK_binder {env : SEnv} {vs scope : List Sym} (hb : binderOK env vs = true) (hsc : ScopeOK scope) :
    ScopeOK (vs.reverse ++ scope) := by
  intro s hs
  simp only [List.mem_append, List.mem_reverse] at hs
  rcases hs with hs | hs
  · simp only [binderOK, Bool.and_eq_true, List.all_eq_true, nameFine, Bool.not_eq_true'] at hb
    exact (hb.2 s hs).1.1.2
  · exact hsc s hs

section
variable (sp : Spell) (hsp : SpellStd sp) (env : SEnv)
include hsp

theorem reads_quant (scope : List Sym) (hsc : ScopeOK scope) (op : Op) (hop : op = .forall_ ∨ op = .exists_)
    (vs : List Sym) (args : List Term) (τ : Ty)
    (hb : binderOK env vs = true)
    (hargs : ∀ a ∈ args, Reads env ((vs.reverse ++ scope).map Binding.var) true (toSexpWith sp) a)
    (hty : (Term.node op args (.qvars vs)).typeOf = some τ)
    (hS : stdTy op (.qvars vs) (args.map tyD) = some τ) :
    NodeReads sp env (scope.map Binding.var) true (toSexpWith sp) op args (.qvars vs) := by
  have key : τ = .bool ∧ ∃ b, args = [b] ∧ tyD b = .bool := by
    rcases hop with rfl | rfl <;>
    · simp only [stdTy] at hS
      split at hS <;> simp at hS
      rename_i hts
      obtain ⟨b, rfl, hb'⟩ := map_eq_one hts
      exact ⟨hS.symm, b, rfl, hb'⟩
  obtain ⟨rfl, b, rfl, htb⟩ := key
  have hb' := hb
  simp only [binderOK, Bool.and_eq_true, Bool.not_eq_true', List.all_eq_true] at hb'
  obtain ⟨⟨hne, hdist⟩, hall⟩ := hb'
  have hvars := rdSortedVars_vars env vs (fun v hv => by simpa using hall v hv)
  have hbody := (hargs b (by simp)).2
  simp only [List.map_append, U, htb] at hbody
  have hnd : (!distinctNames (vs.map (·.name))) = false := by simp [hdist]
  apply reads_of sp env _ true (toSexpWith sp) _ _ _ _ _ hty (unfoldAV_plain true _ _ _ (by rcases hop with rfl | rfl <;> decide))
  rcases hop with rfl | rfl
  · simp only [nodeSexp, walkKey, spell sp hsp "walk_forall" "forall" (by decide), List.map_cons, List.map_nil]
    rw [rd]
    simp only [show ("forall" == "let") = false by decide, Bool.false_eq_true, if_false, beq_self_eq_true, if_true,
      rdQuant, hvars, hne, hnd, hbody]
  · simp only [nodeSexp, walkKey, spell sp hsp "walk_exists" "exists" (by decide), List.map_cons, List.map_nil]
    rw [rd]
    simp only [show ("exists" == "let") = false by decide, show ("exists" == "forall") = false by decide,
      Bool.false_eq_true, if_false, beq_self_eq_true, if_true, rdQuant, hvars, hne, hnd, hbody]

/-- how the names of a `symbol` / `function` node resolve in the scope `sc` -/
def Resolves (env : SEnv) (sc : List Binding) : Op → Payload → Prop
  | .symbol, .sym s => rd env sc (quoteAtom s.name) = .ok (Term.sym s, s.ret)
  | .function, .sym f => nameFine f.name = true ∧ lookupScope f.name sc [] = none ∧ env.lookupFun f.name = some f
  | _, _ => True

omit hsp in
/-- in a scope of bound variables, `nodeOK` says how the names resolve -/
theorem resolves_vars (scope : List Sym) (op : Op) (p : Payload) (args : List Term)
    (hok : nodeOK env scope op p args = true) (hS : (stdTy op p (args.map tyD)).isSome = true) :
    Resolves env (scope.map Binding.var) op p := by
  unfold Resolves
  split
  · next s =>
    have : args = [] := by
      simp only [stdTy] at hS
      split at hS
      · next hts => simpa using hts
      · simp at hS
    subst this
    exact atomTerm_sym env scope s hok
  · next f =>
    simp only [nodeOK, Bool.and_eq_true, bne_iff_ne, ne_eq, beq_iff_eq, Bool.not_eq_true'] at hok
    obtain ⟨⟨⟨⟨_, hfine⟩, _⟩, hfv⟩, hlf⟩ := hok
    refine ⟨hfine, ?_, hlf⟩
    rw [lookupScope_vars]
    cases hf : findVar scope f.name <;> simp_all
  · trivial

/-- every node that `Printable` admits is read back, given that its arguments are -/
theorem reads_node (sc : List Binding) (hsc : ThFree sc) (srt : Bool) (toS : Term → Sexp) (scope0 : List Sym)
    (op : Op) (args : List Term) (p : Payload) (τ : Ty)
    (h1 : op ≠ .forall_) (h2 : op ≠ .exists_)
    (hargs : ∀ a ∈ args, Reads env sc srt toS a) (hty : (Term.node op args p).typeOf = some τ)
    (hS : stdTy op p (args.map tyD) = some τ) (hok : nodeOK env scope0 op p args = true)
    (hres : Resolves env sc op p) :
    NodeReads sp env sc srt toS op args p := by
  cases op with
  | forall_ => exact absurd rfl h1
  | exists_ => exact absurd rfl h2
  | and => exact reads_andor sp hsp env sc hsc srt toS scope0 _ (Or.inl rfl) p args τ hargs hty hS hok
  | or => exact reads_andor sp hsp env sc hsc srt toS scope0 _ (Or.inr rfl) p args τ hargs hty hS hok
  | not => exact reads_boolfix sp hsp env sc hsc srt toS _ (Or.inl rfl) p args τ hargs hty hS
  | implies => exact reads_boolfix sp hsp env sc hsc srt toS _ (Or.inr (Or.inl rfl)) p args τ hargs hty hS
  | iff => exact reads_boolfix sp hsp env sc hsc srt toS _ (Or.inr (Or.inr rfl)) p args τ hargs hty hS
  | symbol =>
    simp only [stdTy] at hS
    split at hS
    · next ts s hts =>
      split at hS <;> simp at hS
      subst hS
      have : args = [] := by simpa using hts
      subst this
      apply reads_of sp env sc srt toS _ _ _ _ _ hty (unfoldAV_plain srt _ _ _ (by decide))
      simp only [nodeSexp]
      exact hres
    · simp at hS
  | function =>
    cases p with
    | sym f => exact reads_function sp env sc srt toS f args τ hargs hty hS hres.1 hres.2.1 hres.2.2
    | _ => simp [stdTy] at hS
  | realConst =>
    have : ∃ r, p = .q r ∧ args = [] := by
      simp only [stdTy] at hS
      split at hS
      · next ts r hts => exact ⟨r, rfl, by simpa using hts⟩
      · simp at hS
    obtain ⟨r, rfl, rfl⟩ := this
    exact reads_realConst sp env sc srt toS hsp hsc r τ hty hS
  | boolConst =>
    have : ∃ r, p = .b r ∧ args = [] := by
      simp only [stdTy] at hS
      split at hS
      · next ts r hts => exact ⟨r, rfl, by simpa using hts⟩
      · simp at hS
    obtain ⟨r, rfl, rfl⟩ := this
    exact reads_boolConst sp env sc srt toS hsc r τ hty hS
  | intConst =>
    have : ∃ r, p = .i r ∧ args = [] := by
      simp only [stdTy] at hS
      split at hS
      · next ts r hts => exact ⟨r, rfl, by simpa using hts⟩
      · simp at hS
    obtain ⟨r, rfl, rfl⟩ := this
    exact reads_intConst sp env sc srt toS scope0 hsp hsc r τ hty hS hok
  | strConst =>
    have : ∃ r, p = .s r ∧ args = [] := by
      simp only [stdTy] at hS
      split at hS
      · next ts r hts => exact ⟨r, rfl, by simpa using hts⟩
      · simp at hS
    obtain ⟨r, rfl, rfl⟩ := this
    exact reads_strConst sp env sc srt toS scope0 r τ hty hS hok
  | plus => exact reads_plustimes sp hsp env sc hsc srt toS scope0 _ (Or.inl rfl) p args τ hargs hty hS hok
  | times => exact reads_plustimes sp hsp env sc hsc srt toS scope0 _ (Or.inr rfl) p args τ hargs hty hS hok
  | minus => exact reads_minus sp hsp env sc hsc srt toS p args τ hargs hty hS
  | le => exact reads_rel sp hsp env sc hsc srt toS _ (Or.inl rfl) p args τ hargs hty hS
  | lt => exact reads_rel sp hsp env sc hsc srt toS _ (Or.inr rfl) p args τ hargs hty hS
  | equals => exact reads_equals sp hsp env sc hsc srt toS p args τ hargs hty hS
  | ite => exact reads_ite sp hsp env sc hsc srt toS p args τ hargs hty hS
  | toReal => exact reads_toReal sp hsp env sc hsc srt toS p args τ hargs hty hS
  | bvConst =>
    have : ∃ v w, p = .bv v w ∧ args = [] := by
      simp only [stdTy] at hS
      split at hS
      · next ts v w hts => exact ⟨v, w, rfl, by simpa using hts⟩
      · simp at hS
    obtain ⟨v, w, rfl, rfl⟩ := this
    exact reads_bvConst sp env sc srt toS v w τ hty hS
  | bvNot => exact reads_bvun sp hsp env sc hsc srt toS _ (Or.inl rfl) p args τ hargs hty hS
  | bvNeg => exact reads_bvun sp hsp env sc hsc srt toS _ (Or.inr rfl) p args τ hargs hty hS
  | bvAnd => exact reads_bvbin sp hsp env sc hsc srt toS _ ⟨"walk_bv_and", "bvand", by decide⟩ p args τ hargs hty hS
  | bvOr => exact reads_bvbin sp hsp env sc hsc srt toS _ ⟨"walk_bv_or", "bvor", by decide⟩ p args τ hargs hty hS
  | bvXor => exact reads_bvbin sp hsp env sc hsc srt toS _ ⟨"walk_bv_xor", "bvxor", by decide⟩ p args τ hargs hty hS
  | bvAdd => exact reads_bvbin sp hsp env sc hsc srt toS _ ⟨"walk_bv_add", "bvadd", by decide⟩ p args τ hargs hty hS
  | bvSub => exact reads_bvbin sp hsp env sc hsc srt toS _ ⟨"walk_bv_sub", "bvsub", by decide⟩ p args τ hargs hty hS
  | bvMul => exact reads_bvbin sp hsp env sc hsc srt toS _ ⟨"walk_bv_mul", "bvmul", by decide⟩ p args τ hargs hty hS
  | bvUdiv => exact reads_bvbin sp hsp env sc hsc srt toS _ ⟨"walk_bv_udiv", "bvudiv", by decide⟩ p args τ hargs hty hS
  | bvUrem => exact reads_bvbin sp hsp env sc hsc srt toS _ ⟨"walk_bv_urem", "bvurem", by decide⟩ p args τ hargs hty hS
  | bvLshl => exact reads_bvbin sp hsp env sc hsc srt toS _ ⟨"walk_bv_lshl", "bvshl", by decide⟩ p args τ hargs hty hS
  | bvLshr => exact reads_bvbin sp hsp env sc hsc srt toS _ ⟨"walk_bv_lshr", "bvlshr", by decide⟩ p args τ hargs hty hS
  | bvAshr => exact reads_bvbin sp hsp env sc hsc srt toS _ ⟨"walk_bv_ashr", "bvashr", by decide⟩ p args τ hargs hty hS
  | bvSdiv => exact reads_bvbin sp hsp env sc hsc srt toS _ ⟨"walk_bv_sdiv", "bvsdiv", by decide⟩ p args τ hargs hty hS
  | bvSrem => exact reads_bvbin sp hsp env sc hsc srt toS _ ⟨"walk_bv_srem", "bvsrem", by decide⟩ p args τ hargs hty hS
  | bvConcat => exact reads_concat sp hsp env sc hsc srt toS p args τ hargs hty hS
  | bvComp => exact reads_comp sp hsp env sc hsc srt toS p args τ hargs hty hS
  | bvExtract => exact reads_extract sp hsp env sc srt toS p args τ hargs hty hS
  | bvUlt => exact reads_bvrel sp hsp env sc hsc srt toS _ ⟨"walk_bv_ult", "bvult", by decide⟩ p args τ hargs hty hS
  | bvUle => exact reads_bvrel sp hsp env sc hsc srt toS _ ⟨"walk_bv_ule", "bvule", by decide⟩ p args τ hargs hty hS
  | bvSlt => exact reads_bvrel sp hsp env sc hsc srt toS _ ⟨"walk_bv_slt", "bvslt", by decide⟩ p args τ hargs hty hS
  | bvSle => exact reads_bvrel sp hsp env sc hsc srt toS _ ⟨"walk_bv_sle", "bvsle", by decide⟩ p args τ hargs hty hS
  | bvRol => exact reads_rot sp hsp env sc srt toS _ (Or.inl rfl) p args τ hargs hty hS
  | bvRor => exact reads_rot sp hsp env sc srt toS _ (Or.inr rfl) p args τ hargs hty hS
  | bvZext => exact reads_ext sp hsp env sc srt toS _ (Or.inl rfl) p args τ hargs hty hS
  | bvSext => exact reads_ext sp hsp env sc srt toS _ (Or.inr rfl) p args τ hargs hty hS
  | bvToNatural => exact reads_bv2nat sp hsp env sc hsc srt toS p args τ hargs hty hS
  | strLength => exact reads_str sp hsp env sc hsc srt toS _ ⟨"walk_str_length", "str.len", by decide⟩ p args τ hargs hty hS
  | strCharAt => exact reads_str sp hsp env sc hsc srt toS _ ⟨"walk_str_charat", "str.at", by decide⟩ p args τ hargs hty hS
  | strContains => exact reads_str sp hsp env sc hsc srt toS _ ⟨"walk_str_contains", "str.contains", by decide⟩ p args τ hargs hty hS
  | strIndexOf => exact reads_str sp hsp env sc hsc srt toS _ ⟨"walk_str_indexof", "str.indexof", by decide⟩ p args τ hargs hty hS
  | strReplace => exact reads_str sp hsp env sc hsc srt toS _ ⟨"walk_str_replace", "str.replace", by decide⟩ p args τ hargs hty hS
  | strSubstr => exact reads_str sp hsp env sc hsc srt toS _ ⟨"walk_str_substr", "str.substr", by decide⟩ p args τ hargs hty hS
  | strPrefixOf => exact reads_str sp hsp env sc hsc srt toS _ ⟨"walk_str_prefixof", "str.prefixof", by decide⟩ p args τ hargs hty hS
  | strSuffixOf => exact reads_str sp hsp env sc hsc srt toS _ ⟨"walk_str_suffixof", "str.suffixof", by decide⟩ p args τ hargs hty hS
  | strConcat => exact reads_strConcat sp hsp env sc hsc srt toS scope0 p args τ hargs hty hS hok
  | arraySelect => exact reads_select sp hsp env sc hsc srt toS p args τ hargs hty hS
  | arrayStore => exact reads_store sp hsp env sc hsc srt toS p args τ hargs hty hS
  | arrayValue => exact reads_arrayValue sp hsp env sc hsc srt toS scope0 p args τ hargs hty hS hok
  | div => exact reads_div sp hsp env sc hsc srt toS scope0 p args τ hargs hty hS hok
  | strToInt | intToStr | pow | algebraicConst => simp [stdTy] at hS

/-- the printed form of every `Printable` term is read back as the term (array values unfolded), with its sort -/
theorem reads_all : ∀ (t : Term) (scope : List Sym), ScopeOK scope → Printable env scope t = true →
    Reads env (scope.map Binding.var) true (toSexpWith sp) t
  | .node op args p, scope, hsc, hP => by
    obtain ⟨τ, hS, hty, hcase⟩ := printable_node env scope op args p hP
    have key : NodeReads sp env (scope.map Binding.var) true (toSexpWith sp) op args p := by
      rcases hcase with ⟨vs, hq, rfl, hb, hargsP⟩ | ⟨h1, h2, hok, hargsP⟩
      · have hsc' := scopeOK_binder hb hsc
        exact reads_quant sp hsp env scope hsc op hq vs args τ hb
          (fun a ha => reads_all a (vs.reverse ++ scope) hsc' (hargsP a ha)) hty hS
      · exact reads_node sp hsp env _ (thFree_vars hsc) true (toSexpWith sp) scope op args p τ h1 h2
          (fun a ha => reads_all a scope hsc (hargsP a ha)) hty hS hok
          (resolves_vars env scope op p args hok (by rw [hS]; rfl))
    exact ⟨key.1, by rw [toSexpWith_node]; exact key.2⟩
termination_by t => sizeOf t
decreasing_by
  all_goals
    simp_wf
    have := List.sizeOf_lt_of_mem ha
    omega

end

end PySMT.Printer
