import PySMT.Proofs.C07Arr
/-!
# C07: `read_toSexp` — the standard's reading of the tree printer's output is the formula
-/
namespace PySMT.Printer
open PySMT.Std PySMT.Sexp

theorem printable_node (env : SEnv) (scope : List Sym) (op : Op) (args : List Term) (p : Payload)
    (h : Printable env scope (.node op args p) = true) :
    ∃ τ, stdTy op p (args.map tyD) = some τ ∧ (Term.node op args p).typeOf = some τ ∧
      ((∃ vs, (op = .forall_ ∨ op = .exists_) ∧ p = .qvars vs ∧ binderOK env vs = true ∧
          ∀ a ∈ args, Printable env (vs.reverse ++ scope) a = true) ∨
       (op ≠ .forall_ ∧ op ≠ .exists_ ∧ nodeOK env scope op p args = true ∧ ∀ a ∈ args, Printable env scope a = true)) := by
  rw [Printable.eq_def] at h
  simp only at h
  have hty := (Bool.and_eq_true _ _ ▸ h).1
  have hrest := (Bool.and_eq_true _ _ ▸ h).2
  cases hS : stdTy op p (args.map tyD) with
  | none => rw [hS] at hty; simp at hty
  | some τ =>
    rw [hS] at hty
    simp only [beq_iff_eq] at hty
    refine ⟨τ, rfl, by rw [typeOf_node, hty], ?_⟩
    by_cases hq : op = .forall_ ∨ op = .exists_
    · -- a binder: the payload is a variable list (otherwise `stdTy` is `none`)
      have hp : ∃ vs, p = .qvars vs := by
        rcases hq with rfl | rfl <;>
        · simp only [stdTy] at hS
          split at hS <;> simp_all
      obtain ⟨vs, rfl⟩ := hp
      left
      refine ⟨vs, hq, rfl, ?_⟩
      rcases hq with rfl | rfl <;>
      · simp only [Bool.and_eq_true, List.all_map, List.all_eq_true, Function.comp, id] at hrest
        exact ⟨hrest.1, hrest.2⟩
    · right
      have h1 : op ≠ .forall_ := fun e => hq (Or.inl e)
      have h2 : op ≠ .exists_ := fun e => hq (Or.inr e)
      refine ⟨h1, h2, ?_⟩
      have : (nodeOK env scope op p args && (args.map (Printable env scope)).all id) = true := by
        cases op <;> first | exact absurd rfl h1 | exact absurd rfl h2 | exact hrest
      simp only [Bool.and_eq_true, List.all_map, List.all_eq_true, Function.comp, id] at this
      exact this

theorem scopeOK_binder {env : SEnv} {vs scope : List Sym} (hb : binderOK env vs = true) (hsc : ScopeOK scope) :
    ScopeOK (vs.reverse ++ scope) := by
  intro s hs
  simp only [List.mem_append, List.mem_reverse] at hs
  rcases hs with hs | hs
  · simp only [binderOK, Bool.and_eq_true, List.all_eq_true, nameFine, Bool.not_eq_true'] at hb
    exact (hb.2 s hs).1.1.2
  · exact hsc s hs

section
variable (sp : Spell) (hsp : SpellStd sp) (env : SEnv)
include hsp

theorem reads_quant (scope : List Sym) (hsc : ScopeOK scope) (op : Op) (hop : op = .forall_ ∨ op = .exists_)
    (vs : List Sym) (args : List Term) (τ : Ty)
    (hb : binderOK env vs = true) (hargs : ∀ a ∈ args, Reads sp env (vs.reverse ++ scope) a)
    (hty : (Term.node op args (.qvars vs)).typeOf = some τ)
    (hS : stdTy op (.qvars vs) (args.map tyD) = some τ) : Reads sp env scope (.node op args (.qvars vs)) := by
  have key : τ = .bool ∧ ∃ b, args = [b] ∧ tyD b = .bool := by
    rcases hop with rfl | rfl <;>
    · simp only [stdTy] at hS
      split at hS <;> simp at hS
      rename_i hts
      obtain ⟨b, rfl, hb'⟩ := map_eq_one hts
      exact ⟨hS.symm, b, rfl, hb'⟩
  obtain ⟨rfl, b, rfl, htb⟩ := key
  have hb' := hb
  simp only [binderOK, Bool.and_eq_true, Bool.not_eq_true', List.all_eq_true] at hb'
  obtain ⟨⟨hne, hdist⟩, hall⟩ := hb'
  have hvars := rdSortedVars_vars env vs (fun v hv => by simpa using hall v hv)
  have hbody := (hargs b (by simp)).2
  simp only [List.map_append, U, htb] at hbody
  have hnd : (!distinctNames (vs.map (·.name))) = false := by simp [hdist]
  apply reads_of sp env scope _ _ _ hty (unfoldAV_plain _ _ _ (by rcases hop with rfl | rfl <;> decide))
  rw [toSexpWith_node]
  rcases hop with rfl | rfl
  · simp only [nodeSexp, walkKey, spell sp hsp "walk_forall" "forall" (by decide), List.map_cons, List.map_nil]
    rw [rd]
    simp only [show ("forall" == "let") = false by decide, Bool.false_eq_true, if_false, beq_self_eq_true, if_true,
      rdQuant, hvars, hne, hnd, hbody]
  · simp only [nodeSexp, walkKey, spell sp hsp "walk_exists" "exists" (by decide), List.map_cons, List.map_nil]
    rw [rd]
    simp only [show ("exists" == "let") = false by decide, show ("exists" == "forall") = false by decide,
      Bool.false_eq_true, if_false, beq_self_eq_true, if_true, rdQuant, hvars, hne, hnd, hbody]

end

end PySMT.Printer
