import PySMT.Impl.Simp.Bool
import PySMT.Proofs.SimpBuild
/-!
# `RuleOK` for `walk_not`, `walk_and`, `walk_or`
-/
namespace PySMT.Simp.BoolRules
open PySMT PySMT.Build PySMT.Simp

/-- well-formed Boolean term -/
def BT (t : Term) : Prop := t.wf = true ∧ t.typeOf = some .bool

theorem BT_bool (b : Bool) : BT (Term.bool b) := ⟨wf_bool b, typeOf_bool b⟩

theorem walkNot1_eq {a : Term} (hc : isBoolConst a = none) : walkNot1 a = not_ a := by
  unfold walkNot1
  rw [hc]
  simp only
  unfold not_
  split <;> rfl

theorem walkNot1_spec {a : Term} (h : BT a) :
    BT (walkNot1 a) ∧
    (∀ I : Interp, I.WF → eval I (walkNot1 a) = .b (!(eval I a).isTrue) ∧ div0 I (walkNot1 a) = div0 I a) ∧
    (∀ s ∈ (walkNot1 a).fv, s ∈ a.fv) := by
  cases hc : isBoolConst a with
  | some b =>
    have ha := isBoolConst_some hc
    subst ha
    have e : walkNot1 (Term.bool b) = Term.bool (!b) := by
      unfold walkNot1; rw [hc]; rfl
    rw [e]
    refine ⟨BT_bool _, ?_, by simp⟩
    intro I _
    simp only [eval_boolc, div0_bool, and_true]
    cases b <;> rfl
  | none =>
    rw [walkNot1_eq hc]
    obtain ⟨h1, h2, h3, h4⟩ := not_spec h.1 h.2
    exact ⟨⟨h2, h1⟩, h3, h4⟩

theorem walkNot_ok : RuleOK .not walkNot where
  type := by
    intro p args τ hwf hty _
    obtain ⟨a, rfl, hawf, haty⟩ := wf_not_inv hwf
    have hτ := (typeOf_not_iff.mp hty).1
    subst hτ
    have := (walkNot1_spec ⟨hawf, haty⟩).1
    exact ⟨this.2, this.1⟩
  sound := by
    intro p args τ hwf hty _ I hI hd
    obtain ⟨a, rfl, hawf, haty⟩ := wf_not_inv hwf
    have := (walkNot1_spec ⟨hawf, haty⟩).2.1 I hI
    show eval I (walkNot1 a) = _ ∧ div0 I (walkNot1 a) = false
    rw [this.1, this.2, eval_not]
    refine ⟨rfl, ?_⟩
    exact div0_args_false I .not [a] p rfl hd a (by simp)
  total := by
    intro p args τ hwf hty _ I hI _
    obtain ⟨a, rfl, hawf, haty⟩ := wf_not_inv hwf
    have := (walkNot1_spec ⟨hawf, haty⟩).2.1 I hI
    show eval I (walkNot1 a) = _
    rw [this.1, eval_not]
  fv := by
    intro p args τ hwf hty _ s hs
    obtain ⟨a, rfl, hawf, haty⟩ := wf_not_inv hwf
    exact (mem_fv_plain (by simp) (by simp) rfl).mpr ⟨a, by simp, (walkNot1_spec ⟨hawf, haty⟩).2.2 s hs⟩

/-! ## the literal sets of `walk_and` / `walk_or` -/

/-- the truth value a literal must have for the and (`u = true`) / must not have for the or
(`u = false`) -/
def lit (I : Interp) (u : Bool) (a : Term) : Bool := (eval I a).isTrue == u

theorem lit_true_fun (I : Interp) : lit I true = fun a => (eval I a).isTrue := by
  funext a; simp [lit]
theorem lit_false_fun (I : Interp) : lit I false = fun a => !(eval I a).isTrue := by
  funext a; simp [lit]

theorem addLit_spec {acc : List Term} {s : Term} (hs : BT s) :
    match addLit acc s with
    | none => ∀ I : Interp, I.WF → ∀ u, (acc.all (lit I u) && lit I u s) = false
    | some acc' => (∀ x ∈ acc', x ∈ acc ∨ x = s) ∧ ∀ f : Term → Bool, acc'.all f = (acc.all f && f s) := by
  unfold addLit
  by_cases hc : acc.contains (walkNot1 s) = true
  · simp only [hc, if_true]
    intro I hI u
    have hmem : walkNot1 s ∈ acc := by simpa using hc
    have hv := ((walkNot1_spec hs).2.1 I hI).1
    by_cases hall : acc.all (lit I u) = true
    · have hx := List.all_eq_true.mp hall _ hmem
      simp only [lit, hv, Val.isTrue_b] at hx
      simp only [lit, hall, Bool.true_and]
      revert hx
      cases (eval I s).isTrue <;> cases u <;> simp
    · simp [hall]
  · simp only [hc]
    by_cases hc2 : acc.contains s = true
    · simp only [hc2, if_true]
      have hmem : s ∈ acc := by simpa using hc2
      refine ⟨fun x hx => Or.inl hx, fun f => ?_⟩
      by_cases hall : acc.all f = true
      · simp [hall, List.all_eq_true.mp hall s hmem]
      · simp [hall]
    · simp only [hc2]
      refine ⟨fun x hx => ?_, fun f => ?_⟩
      · simpa using hx
      · simp [List.all_append]

theorem addLits_spec : ∀ (ss acc : List Term), (∀ s ∈ ss, BT s) →
    match addLits acc ss with
    | none => ∀ I : Interp, I.WF → ∀ u, (acc.all (lit I u) && ss.all (lit I u)) = false
    | some acc' => (∀ x ∈ acc', x ∈ acc ∨ x ∈ ss) ∧ ∀ f : Term → Bool, acc'.all f = (acc.all f && ss.all f)
  | [], acc, _ => by simp [addLits]
  | s :: ss, acc, h => by
    have h1 := addLit_spec (acc := acc) (h s (by simp))
    unfold addLits
    cases hc : addLit acc s with
    | none =>
      rw [hc] at h1
      intro I hI u
      have := h1 I hI u
      simp only [List.all_cons, ← Bool.and_assoc, this, Bool.false_and]
    | some acc' =>
      rw [hc] at h1
      have h2 := addLits_spec ss acc' (fun x hx => h x (by simp [hx]))
      simp only
      cases hc2 : addLits acc' ss with
      | none =>
        rw [hc2] at h2
        intro I hI u
        have := h2 I hI u
        rw [h1.2] at this
        simpa [List.all_cons, Bool.and_assoc] using this
      | some acc'' =>
        rw [hc2] at h2
        refine ⟨fun x hx => ?_, fun f => ?_⟩
        · rcases h2.1 x hx with hx' | hx'
          · rcases h1.1 x hx' with hx'' | rfl
            · exact Or.inl hx''
            · exact Or.inr (by simp)
          · exact Or.inr (by simp [hx'])
        · rw [h2.2, h1.2]; simp [List.all_cons, Bool.and_assoc]

/-- `x` is `a` or an argument of the `o` node `a` -/
def Sub (o : Op) (x a : Term) : Prop := x = a ∨ ∃ ss p, a = .node o ss p ∧ x ∈ ss

/-- the two instances of the loop -/
def ACOp (o : Op) (u : Bool) : Prop := (o = .and ∧ u = true) ∨ (o = .or ∧ u = false)

theorem ac_children {o u} (hou : ACOp o u) {ss : List Term} {p : Payload} (h : BT (.node o ss p)) :
    (∀ s ∈ ss, BT s) ∧ ∀ I : Interp, lit I u (.node o ss p) = ss.all (lit I u) := by
  rcases hou with ⟨rfl, rfl⟩ | ⟨rfl, rfl⟩
  · refine ⟨fun s hs => ⟨wf_args h.1 s hs, (typeOf_and_iff.mp h.2).2 s hs⟩, fun I => ?_⟩
    simp only [lit, eval_and, Val.isTrue_b, beq_true, lit_true_fun]
  · refine ⟨fun s hs => ⟨wf_args h.1 s hs, (typeOf_or_iff.mp h.2).2 s hs⟩, fun I => ?_⟩
    simp only [lit, eval_or, Val.isTrue_b, beq_false, lit_false_fun]
    clear h
    induction ss with
    | nil => rfl
    | cons x xs ih => simp only [List.any_cons, List.all_cons, Bool.not_or, ih]

theorem sub_div0 {o u} (hou : ACOp o u) {x a : Term} (h : Sub o x a) (I : Interp) (hd : div0 I a = false) :
    div0 I x = false := by
  rcases h with rfl | ⟨ss, p, rfl, hx⟩
  · exact hd
  · have ho : o.isQuantifier = false ∧ o ≠ .div := by
      rcases hou with ⟨rfl, _⟩ | ⟨rfl, _⟩ <;> exact ⟨rfl, by simp⟩
    exact div0_args_false I o ss p ho.1 hd x hx

theorem sub_fv {o u} (hou : ACOp o u) {x a : Term} (h : Sub o x a) (s : Sym) (hs : s ∈ x.fv) : s ∈ a.fv := by
  rcases h with rfl | ⟨ss, p, rfl, hx⟩
  · exact hs
  · have ho : o ≠ .symbol ∧ o ≠ .function ∧ o.isQuantifier = false := by
      rcases hou with ⟨rfl, _⟩ | ⟨rfl, _⟩ <;> exact ⟨by simp, by simp, rfl⟩
    exact (mem_fv_plain ho.1 ho.2.1 ho.2.2).mpr ⟨x, hx, hs⟩

theorem lit_const (I : Interp) (u b : Bool) : lit I u (Term.bool b) = (b == u) := by
  simp [lit]

theorem acLoop_spec {o u} (hou : ACOp o u) : ∀ (args acc : List Term), (∀ a ∈ args, BT a) → (∀ x ∈ acc, BT x) →
    match acLoop o u args acc with
    | none => ∀ I : Interp, I.WF → (acc.all (lit I u) && args.all (lit I u)) = false
    | some acc' => (∀ x ∈ acc', BT x) ∧
        (∀ I : Interp, I.WF → acc'.all (lit I u) = (acc.all (lit I u) && args.all (lit I u))) ∧
        (∀ x ∈ acc', x ∈ acc ∨ ∃ a ∈ args, Sub o x a)
  | [], acc, _, hacc => by
    simp only [acLoop, List.all_nil, Bool.and_true]
    exact ⟨hacc, by simp, fun x hx => Or.inl hx⟩
  | a :: rest, acc, hargs, hacc => by
    have ha := hargs a (by simp)
    have hrest : ∀ x ∈ rest, BT x := fun x hx => hargs x (by simp [hx])
    -- what the recursive call on `rest` with a new accumulator gives
    have cont : ∀ acc1 : List Term, (∀ x ∈ acc1, BT x) →
        (∀ I : Interp, I.WF → acc1.all (lit I u) = (acc.all (lit I u) && lit I u a)) →
        (∀ x ∈ acc1, x ∈ acc ∨ Sub o x a) →
        match acLoop o u rest acc1 with
        | none => ∀ I : Interp, I.WF → (acc.all (lit I u) && (a :: rest).all (lit I u)) = false
        | some acc' => (∀ x ∈ acc', BT x) ∧
            (∀ I : Interp, I.WF → acc'.all (lit I u) = (acc.all (lit I u) && (a :: rest).all (lit I u))) ∧
            (∀ x ∈ acc', x ∈ acc ∨ ∃ a' ∈ a :: rest, Sub o x a') := by
      intro acc1 hb hv hm
      have ih := acLoop_spec hou rest acc1 hrest hb
      cases hc : acLoop o u rest acc1 with
      | none =>
        rw [hc] at ih
        intro I hI
        have := ih I hI
        rw [hv I hI] at this
        simpa [List.all_cons, Bool.and_assoc] using this
      | some acc' =>
        rw [hc] at ih
        refine ⟨ih.1, fun I hI => ?_, fun x hx => ?_⟩
        · rw [ih.2.1 I hI, hv I hI]; simp [List.all_cons, Bool.and_assoc]
        · rcases ih.2.2 x hx with hx' | ⟨a', ha', hs⟩
          · rcases hm x hx' with h | h
            · exact Or.inl h
            · exact Or.inr ⟨a, by simp, h⟩
          · exact Or.inr ⟨a', by simp [ha'], hs⟩
    unfold acLoop
    by_cases hc : isBoolConst a = some u
    · -- the constant `u` is skipped
      rw [if_pos hc]
      have hau := isBoolConst_some hc
      exact cont acc hacc (fun I _ => by rw [hau, lit_const]; simp) (fun x hx => Or.inl hx)
    · rw [if_neg hc]
      by_cases hc2 : isBoolConst a = some (!u)
      · rw [if_pos hc2]
        have hau := isBoolConst_some hc2
        intro I _
        rw [hau]
        simp only [List.all_cons, lit_const]
        cases u <;> simp
      · rw [if_neg hc2]
        cases a with
        | node op ss p =>
          simp only
          by_cases hop : op = o
          · rw [if_pos hop]
            subst hop
            have hch := ac_children hou ha
            have h1 := addLits_spec ss acc hch.1
            cases hc3 : addLits acc ss with
            | none =>
              rw [hc3] at h1
              intro I hI
              have := h1 I hI u
              simp only [List.all_cons, hch.2 I, ← Bool.and_assoc, this, Bool.false_and]
            | some acc1 =>
              rw [hc3] at h1
              refine cont acc1 ?_ ?_ ?_
              · intro x hx
                rcases h1.1 x hx with h | h
                · exact hacc x h
                · exact hch.1 x h
              · intro I _; rw [h1.2, hch.2 I]
              · intro x hx
                rcases h1.1 x hx with h | h
                · exact Or.inl h
                · exact Or.inr (Or.inr ⟨ss, p, rfl, h⟩)
          · rw [if_neg hop]
            have h1 := addLit_spec (acc := acc) ha
            cases hc3 : addLit acc (.node op ss p) with
            | none =>
              rw [hc3] at h1
              intro I hI
              have := h1 I hI u
              simp only [List.all_cons, ← Bool.and_assoc, this, Bool.false_and]
            | some acc1 =>
              rw [hc3] at h1
              refine cont acc1 ?_ ?_ ?_
              · intro x hx
                rcases h1.1 x hx with h | h
                · exact hacc x h
                · rw [h]; exact ha
              · intro I _; rw [h1.2]
              · intro x hx
                rcases h1.1 x hx with h | h
                · exact Or.inl h
                · exact Or.inr (Or.inl h)

/-- the value of an n-ary `and`/`or` node in terms of `lit` -/
theorem eval_ac {o u} (hou : ACOp o u) (I : Interp) (args : List Term) (p : Payload) :
    eval I (.node o args p) = .b (if u then args.all (lit I u) else !args.all (lit I u)) := by
  rcases hou with ⟨rfl, rfl⟩ | ⟨rfl, rfl⟩
  · simp only [eval_and, lit_true_fun, if_true]
  · simp only [eval_or, lit_false_fun, Bool.false_eq_true, if_false]
    congr 1
    induction args with
    | nil => rfl
    | cons x xs ih => simp only [List.any_cons, List.all_cons, ih, Bool.not_and, Bool.not_not]

theorem acResult_spec {o u} (hou : ACOp o u) (args : List Term) (p : Payload) (hargs : ∀ a ∈ args, BT a) :
    BT (acResult o u args) ∧
    (∀ I : Interp, I.WF → eval I (acResult o u args) = eval I (.node o args p) ∧
      (div0 I (.node o args p) = false → div0 I (acResult o u args) = false)) ∧
    (∀ s ∈ (acResult o u args).fv, s ∈ (Term.node o args p).fv) := by
  have hq : o.isQuantifier = false ∧ o ≠ .symbol ∧ o ≠ .function := by
    rcases hou with ⟨rfl, _⟩ | ⟨rfl, _⟩ <;> exact ⟨rfl, by simp, by simp⟩
  have hspec := acLoop_spec hou args [] hargs (by simp)
  unfold acResult
  cases hc : acLoop o u args [] with
  | none =>
    rw [hc] at hspec
    refine ⟨BT_bool _, fun I hI => ?_, by simp [bool_]⟩
    have := hspec I hI
    simp only [List.all_nil, Bool.true_and] at this
    simp only [bool_, eval_boolc, div0_bool, implies_true, and_true, eval_ac hou, this]
    cases u <;> rfl
  | some l =>
    rw [hc] at hspec
    obtain ⟨hl, hv, hm⟩ := hspec
    have hsub : ∀ x ∈ l, ∃ a ∈ args, Sub o x a := by
      intro x hx
      rcases hm x hx with h | h
      · cases h
      · exact h
    have hd0 : ∀ I : Interp, div0 I (.node o args p) = false → l.any (fun a => div0 I a) = false := by
      intro I hd
      rw [List.any_eq_false]
      intro x hx
      obtain ⟨a, ha, hs⟩ := hsub x hx
      simpa using sub_div0 hou hs I (div0_args_false I o args p hq.1 hd a ha)
    have hfv : ∀ s, (∃ x ∈ l, s ∈ x.fv) → s ∈ (Term.node o args p).fv := by
      rintro s ⟨x, hx, hs⟩
      obtain ⟨a, ha, hsub'⟩ := hsub x hx
      exact (mem_fv_plain hq.2.1 hq.2.2 hq.1).mpr ⟨a, ha, sub_fv hou hsub' s hs⟩
    simp only
    rcases hou with ⟨rfl, rfl⟩ | ⟨rfl, rfl⟩
    · obtain ⟨h1, h2, h3, h4⟩ := and_spec (fun a ha => (hl a ha).1) (fun a ha => (hl a ha).2)
      simp only [↓reduceIte]
      refine ⟨⟨h2, h1⟩, fun I hI => ⟨?_, fun hd => by rw [(h3 I hI).2, hd0 I hd]⟩, fun s hs => hfv s (h4 s hs)⟩
      rw [(h3 I hI).1, eval_and]
      have := hv I hI
      simp only [List.all_nil, Bool.true_and, lit_true_fun] at this
      simp only [this]
    · obtain ⟨h1, h2, h3, h4⟩ := or_spec (fun a ha => (hl a ha).1) (fun a ha => (hl a ha).2)
      simp only [Bool.false_eq_true, ↓reduceIte]
      refine ⟨⟨h2, h1⟩, fun I hI => ⟨?_, fun hd => by rw [(h3 I hI).2, hd0 I hd]⟩, fun s hs => hfv s (h4 s hs)⟩
      rw [(h3 I hI).1]
      have e1 := eval_ac (Or.inr ⟨rfl, rfl⟩ : ACOp .or false) I args p
      have e2 := eval_ac (Or.inr ⟨rfl, rfl⟩ : ACOp .or false) I l .none
      rw [eval_or] at e2
      have := hv I hI
      simp only [List.all_nil, Bool.true_and] at this
      simp only [Bool.false_eq_true, if_false, this] at e1 e2 ⊢
      rw [e1]
      exact e2

theorem args_BT_and {args : List Term} {p : Payload} {τ : Ty} (hwf : (Term.node .and args p).wf = true)
    (hty : (Term.node .and args p).typeOf = some τ) : τ = .bool ∧ ∀ a ∈ args, BT a :=
  ⟨(typeOf_and_iff.mp hty).1, fun a ha => ⟨wf_args hwf a ha, (typeOf_and_iff.mp hty).2 a ha⟩⟩

theorem args_BT_or {args : List Term} {p : Payload} {τ : Ty} (hwf : (Term.node .or args p).wf = true)
    (hty : (Term.node .or args p).typeOf = some τ) : τ = .bool ∧ ∀ a ∈ args, BT a :=
  ⟨(typeOf_or_iff.mp hty).1, fun a ha => ⟨wf_args hwf a ha, (typeOf_or_iff.mp hty).2 a ha⟩⟩

/-- the `args[0] == args[1]` shortcut -/
theorem same_spec {o u} (hou : ACOp o u) (a : Term) (p : Payload) (ha : BT a) (I : Interp) (hI : I.WF) :
    eval I a = eval I (.node o [a, a] p) ∧ (div0 I (.node o [a, a] p) = false → div0 I a = false) := by
  have hq : o.isQuantifier = false := by rcases hou with ⟨rfl, _⟩ | ⟨rfl, _⟩ <;> rfl
  refine ⟨?_, fun hd => div0_args_false I o _ p hq hd a (by simp)⟩
  rw [eval_bool ha.1 ha.2 hI]
  rcases hou with ⟨rfl, rfl⟩ | ⟨rfl, rfl⟩
  · rw [eval_and]; simp
  · rw [eval_or]; simp

theorem walkAnd_ok : RuleOK .and walkAnd := by
  have hou : ACOp .and true := Or.inl ⟨rfl, rfl⟩
  have key : ∀ (p : Payload) (args : List Term) (τ : Ty), (Term.node .and args p).wf = true →
      (Term.node .and args p).typeOf = some τ →
      ((walkAnd p args).typeOf = some τ ∧ (walkAnd p args).wf = true) ∧
      (∀ I : Interp, I.WF → eval I (walkAnd p args) = eval I (.node .and args p) ∧
        (div0 I (.node .and args p) = false → div0 I (walkAnd p args) = false)) ∧
      (∀ s ∈ (walkAnd p args).fv, s ∈ (Term.node .and args p).fv) := by
    intro p args τ hwf hty
    obtain ⟨rfl, hargs⟩ := args_BT_and hwf hty
    have hres := acResult_spec hou args p hargs
    have gen : ((acResult .and true args).typeOf = some .bool ∧ (acResult .and true args).wf = true) ∧
      (∀ I : Interp, I.WF → eval I (acResult .and true args) = eval I (.node .and args p) ∧
        (div0 I (.node .and args p) = false → div0 I (acResult .and true args) = false)) ∧
      (∀ s ∈ (acResult .and true args).fv, s ∈ (Term.node .and args p).fv) :=
      ⟨⟨hres.1.2, hres.1.1⟩, hres.2.1, hres.2.2⟩
    unfold walkAnd
    split
    · next a b =>
      split
      · next hab =>
        subst hab
        have ha := hargs a (by simp)
        exact ⟨⟨ha.2, ha.1⟩, fun I hI => same_spec hou a p ha I hI,
          fun s hs => (mem_fv_plain (by simp) (by simp) rfl).mpr ⟨a, by simp, hs⟩⟩
      · exact gen
    · exact gen
  exact ⟨fun p args τ h1 h2 _ => (key p args τ h1 h2).1,
    fun p args τ h1 h2 _ I hI hd => ⟨((key p args τ h1 h2).2.1 I hI).1, ((key p args τ h1 h2).2.1 I hI).2 hd⟩,
    fun p args τ h1 h2 _ I hI _ => ((key p args τ h1 h2).2.1 I hI).1,
    fun p args τ h1 h2 _ => (key p args τ h1 h2).2.2⟩

theorem walkOr_ok : RuleOK .or walkOr := by
  have hou : ACOp .or false := Or.inr ⟨rfl, rfl⟩
  have key : ∀ (p : Payload) (args : List Term) (τ : Ty), (Term.node .or args p).wf = true →
      (Term.node .or args p).typeOf = some τ →
      ((walkOr p args).typeOf = some τ ∧ (walkOr p args).wf = true) ∧
      (∀ I : Interp, I.WF → eval I (walkOr p args) = eval I (.node .or args p) ∧
        (div0 I (.node .or args p) = false → div0 I (walkOr p args) = false)) ∧
      (∀ s ∈ (walkOr p args).fv, s ∈ (Term.node .or args p).fv) := by
    intro p args τ hwf hty
    obtain ⟨rfl, hargs⟩ := args_BT_or hwf hty
    have hres := acResult_spec hou args p hargs
    have gen : ((acResult .or false args).typeOf = some .bool ∧ (acResult .or false args).wf = true) ∧
      (∀ I : Interp, I.WF → eval I (acResult .or false args) = eval I (.node .or args p) ∧
        (div0 I (.node .or args p) = false → div0 I (acResult .or false args) = false)) ∧
      (∀ s ∈ (acResult .or false args).fv, s ∈ (Term.node .or args p).fv) :=
      ⟨⟨hres.1.2, hres.1.1⟩, hres.2.1, hres.2.2⟩
    unfold walkOr
    split
    · next a b =>
      split
      · next hab =>
        subst hab
        have ha := hargs a (by simp)
        exact ⟨⟨ha.2, ha.1⟩, fun I hI => same_spec hou a p ha I hI,
          fun s hs => (mem_fv_plain (by simp) (by simp) rfl).mpr ⟨a, by simp, hs⟩⟩
      · exact gen
    · exact gen
  exact ⟨fun p args τ h1 h2 _ => (key p args τ h1 h2).1,
    fun p args τ h1 h2 _ I hI hd => ⟨((key p args τ h1 h2).2.1 I hI).1, ((key p args τ h1 h2).2.1 I hI).2 hd⟩,
    fun p args τ h1 h2 _ I hI _ => ((key p args τ h1 h2).2.1 I hI).1,
    fun p args τ h1 h2 _ => (key p args τ h1 h2).2.2⟩

end PySMT.Simp.BoolRules
