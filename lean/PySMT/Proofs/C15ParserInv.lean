import PySMT.Proofs.C15ParserBase
/-!
# C15, parser objects — every reading keeps the journal exact (`Post`), for every S-expression

`Post lc st res st'`: the reader started in `st` and stopped (with a value or with an exception) in `st'`;
then `st'` lies above `st` (`Rel st st' P` for some pending entries `P`), and without the literal cache a reading that
returns a value has unbound everything it bound (`P = []`). One mutual induction over the S-expression
(`rdValS_post` … `rdLetBindsS_post`), then the command handlers, then `cmdS`:
`cmdS_fail_restores` — a failing command leaves the keys and the logic of the parser as they were.
-/
namespace PySMT.ParserSession
open PySMT.Parser PySMT.Gen.ParserOps

def Post {α : Type} (lc : Bool) (st : St) (res : Except Err α) (st' : St) : Prop :=
  ∃ P, Rel st st' P ∧ (lc = false → (∃ x, res = .ok x) → P = [])

theorem Post.refl {α : Type} (lc : Bool) (st : St) (res : Except Err α) : Post lc st res st :=
  ⟨[], Rel.refl st, fun _ _ => rfl⟩

theorem Post.err {α β : Type} {lc : Bool} {st st' : St} {res : Except Err α} (h : Post lc st res st') (e : Err) :
    Post lc st (.error e : Except Err β) st' := by
  obtain ⟨P, hr, _⟩ := h
  exact ⟨P, hr, fun _ ⟨_, hx⟩ => by cases hx⟩

/-- after a reading that returned a value, any verdict on that value -/
theorem Post.of_ok {α β : Type} {lc : Bool} {st st' : St} {x : α} (h : Post lc st (.ok x : Except Err α) st')
    (res : Except Err β) : Post lc st res st' := by
  obtain ⟨P, hr, hp⟩ := h
  exact ⟨P, hr, fun hl _ => hp hl ⟨x, rfl⟩⟩

theorem Post.trans {α β : Type} {lc : Bool} {st st1 st2 : St} {x : α} {res : Except Err β}
    (h1 : Post lc st (.ok x : Except Err α) st1) (h2 : Post lc st1 res st2) : Post lc st res st2 := by
  obtain ⟨P, hr, hp⟩ := h1
  obtain ⟨Q, hr2, hq⟩ := h2
  exact ⟨Q ++ P, hr.trans hr2, fun hl hx => by simp [hp hl ⟨x, rfl⟩, hq hl hx]⟩

theorem Post.trans_any {α β γ : Type} {lc : Bool} {st st1 st2 : St} {r1 : Except Err α} {res : Except Err β}
    (h1 : Post lc st r1 st1) (h2 : Post lc st1 res st2) (e : Err) : Post lc st (.error e : Except Err γ) st2 := by
  obtain ⟨P, hr, _⟩ := h1
  obtain ⟨Q, hr2, _⟩ := h2
  exact ⟨Q ++ P, hr.trans hr2, fun _ ⟨_, hx⟩ => by cases hx⟩

theorem Post.setMgr {α : Type} {lc : Bool} {st st' : St} {res : Except Err α} (h : Post lc st res st') (σ : MgrSt) :
    Post lc st res (st'.setMgr σ) := by
  obtain ⟨P, hr, hp⟩ := h
  exact ⟨P, hr.setMgr σ, hp⟩

theorem Post.addAnnots {α : Type} {lc : Bool} {st st' : St} {res : Except Err α} (h : Post lc st res st') (t : Term)
    (ps : List (String × Option Sexp)) : Post lc st res (st'.addAnnots t ps) := by
  obtain ⟨P, hr, hp⟩ := h
  exact ⟨P, hr.addAnnots t ps, hp⟩

/-- `atom`: only the literal cache binds -/
theorem rdAtomS_post (lc : Bool) (st : St) (lone : Bool) (tok : String) :
    Post lc st (rdAtomS lc st lone tok).1 (rdAtomS lc st lone tok).2 := by
  unfold rdAtomS
  split
  · next v _ =>
    cases lc
    · exact Post.refl _ _ _
    · dsimp only
      split
      · exact ⟨[(pyTok tok, v)], (Rel.refl st).bind _ _, fun h => by cases h⟩
      · exact Post.refl _ _ _
  · exact Post.refl _ _ _

/-- a pair is its two components -/
theorem res_eq {α : Type} {r : Res α} {x : Except Err α} {s : St} (h : r = (x, s)) : r.1 = x ∧ r.2 = s := by
  subst h; exact ⟨rfl, rfl⟩

/-- the binder list of a quantifier: every name of `vrs` is bound exactly as often as it occurs -/
theorem rdQuantBindsS_post (st0 : St) (l : List Sexp) (st : St) (vrs : List (String × Sym)) (P0 : List (String × Val))
    (h0 : Rel st0 st P0) (hv : ∀ n, (vrs.map (·.1)).count n = cnt n P0) :
    ∃ P', Rel st0 (rdQuantBindsS st vrs l).2 P' ∧
      ∀ vs, (rdQuantBindsS st vrs l).1 = .ok vs → ∀ n, (vs.map (·.1)).count n = cnt n P' := by
  have hbad : ∀ e, ∃ P', Rel st0 ((.error e, st) : Res (List (String × Sym))).2 P' ∧
      ∀ vs, ((.error e, st) : Res (List (String × Sym))).1 = .ok vs → ∀ n, (vs.map (·.1)).count n = cnt n P' :=
    fun e => ⟨P0, h0, fun _ h => by cases h⟩
  unfold rdQuantBindsS
  split
  · refine ⟨P0, h0, fun vs hvs n => ?_⟩
    cases hvs
    rw [← hv n, List.map_reverse, List.count_reverse]
  · next x ty bs =>
    split
    · next t _ =>
      split
      · next s σ _ =>
        apply rdQuantBindsS_post st0 bs _ _ ((pyTok x, .term (Term.sym s)) :: P0) ((h0.setMgr σ).bind _ _)
        intro n
        rw [List.map_cons, List.count_cons, cnt_cons, hv n]
        simp only [beq_iff_eq]
      · exact hbad _
    · exact hbad _
  · exact hbad _
termination_by sizeOf l

theorem unbindAll_post {α β : Type} {lc : Bool} {st st1 st2 : St} {P1 : List (String × Val)} {ns : List String}
    {x : α} (h1 : Rel st st1 P1) (hle : ∀ n, ns.count n ≤ cnt n P1) (heq : lc = false → ∀ n, ns.count n = cnt n P1)
    (h2 : Post lc st1 (.ok x : Except Err α) st2) (res : Except Err β) :
    Post lc st res (unbindAllS ns st2) := by
  obtain ⟨Q, hr2, hq⟩ := h2
  have hle' : ∀ n, ns.count n ≤ cnt n (Q ++ P1) := fun n => by rw [cnt_append]; have := hle n; omega
  obtain ⟨P', hr', hc'⟩ := (h1.trans hr2).unbindAll ns hle'
  refine ⟨P', hr', fun hl _ => ?_⟩
  apply eq_nil_of_cnt_zero
  intro n
  have := hc' n
  rw [hq hl ⟨x, rfl⟩, List.nil_append, ← heq hl n] at this
  omega

mutual
theorem rdValS_post (s : Sexp) (lc : Bool) (st : St) (lone : Bool) :
    Post lc st (rdValS lc st lone s).1 (rdValS lc st lone s).2 := by
  match s with
  | .atom tok => rw [rdValS]; exact rdAtomS_post lc st lone tok
  | .str lit =>
    rw [rdValS]
    cases lc
    · exact Post.refl _ _ _
    · dsimp only
      split
      · exact ⟨[_], (Rel.refl st).bind _ _, fun h => by cases h⟩
      · exact Post.refl _ _ _
  | .list [] => rw [rdValS]; exact Post.refl _ _ _
  | .list (.str _ :: _) => rw [rdValS]; exact Post.refl _ _ _
  | .list (.atom hd :: rest) =>
    rw [rdValS]
    split
    · -- a keyword with a handler
      split
      · exact rdLetFormS_post rest lc st
      · split
        · exact rdQuantFormS_post rest lc st _
        · split
          · exact rdAnnotFormS_post rest lc st
          · split
            · exact Post.refl _ _ _
            · split
              · split
                · exact (Post.refl lc st _).setMgr _
                · exact Post.refl _ _ _
              · exact Post.refl _ _ _
    · -- an interpreted operator
      split
      · have ha := rdArgsS_post rest lc st
        split
        · next vals st' h => obtain ⟨h1, h2⟩ := res_eq h; rw [h1, h2] at ha; exact ha.of_ok _
        · next e st' h => obtain ⟨h1, h2⟩ := res_eq h; rw [h1, h2] at ha; exact ha.err e
      · exact Post.refl _ _ _
    · -- a name of the cache
      have hat := rdAtomS_post lc st false hd
      split
      · next f st1 h =>
        obtain ⟨h1, h2⟩ := res_eq h; rw [h1, h2] at hat
        have ha := rdArgsS_post rest lc st1
        split
        · next vals st' h' => obtain ⟨h3, h4⟩ := res_eq h'; rw [h3, h4] at ha; exact hat.trans (ha.of_ok _)
        · next e st' h' => obtain ⟨h3, h4⟩ := res_eq h'; rw [h3, h4] at ha; exact hat.trans (ha.err e)
      · next v st1 _ h =>
        obtain ⟨h1, h2⟩ := res_eq h; rw [h1, h2] at hat
        have ha := rdArgsS_post rest lc st1
        split
        · next vals st' h' => obtain ⟨h3, h4⟩ := res_eq h'; rw [h3, h4] at ha; exact hat.trans_any ha _
        · next e st' h' => obtain ⟨h3, h4⟩ := res_eq h'; rw [h3, h4] at ha; exact hat.trans_any ha _
      · next e st1 h =>
        obtain ⟨h1, h2⟩ := res_eq h; rw [h1, h2] at hat
        exact hat
  | .list (.list hl :: rest) =>
    rw [rdValS]
    · split
      · -- ((_ to_bv w) n)
        split
        · next n =>
          split
          · exact Post.refl _ _ _
          · have hn := rdValS_post n lc st false
            split
            · next h =>
              obtain ⟨h1, h2⟩ := res_eq h; rw [h1, h2] at hn
              split
              · exact hn.err _
              · exact hn.of_ok _
            · next h => obtain ⟨h1, h2⟩ := res_eq h; rw [h1, h2] at hn; exact hn.err _
            · next h => obtain ⟨h1, h2⟩ := res_eq h; rw [h1, h2] at hn; exact hn.err _
        · exact Post.refl _ _ _
      · -- the head is evaluated
        have hh := rdValS_post (.list hl) lc st false
        split
        · next f st1 h =>
          obtain ⟨h1, h2⟩ := res_eq h; rw [h1, h2] at hh
          have ha := rdArgsS_post rest lc st1
          split
          · next vals st' h' => obtain ⟨h3, h4⟩ := res_eq h'; rw [h3, h4] at ha; exact hh.trans (ha.of_ok _)
          · next e st' h' => obtain ⟨h3, h4⟩ := res_eq h'; rw [h3, h4] at ha; exact hh.trans (ha.err e)
        · next h => obtain ⟨h1, h2⟩ := res_eq h; rw [h1, h2] at hh; exact hh.err _
        · next h => obtain ⟨h1, h2⟩ := res_eq h; rw [h1, h2] at hh; exact hh
    · intros; simp_all
    · intros; simp_all
termination_by sizeOf s

theorem rdLetFormS_post (l : List Sexp) (lc : Bool) (st : St) :
    Post lc st (rdLetFormS lc st l).1 (rdLetFormS lc st l).2 := by
  unfold rdLetFormS
  split
  · next b bs body =>
    obtain ⟨P1, hr1, hns⟩ := rdLetBindsS_post (b :: bs) lc st st [] [] [] (Rel.refl st) (fun _ => by simp)
      (fun _ _ => by simp)
    split
    · next names st1 h =>
      obtain ⟨h1, h2⟩ := res_eq h; rw [h2] at hr1
      obtain ⟨hle, heq⟩ := hns names h1
      have hb := rdValS_post body lc st1 false
      split
      · next v st2 h' =>
        obtain ⟨h3, h4⟩ := res_eq h'; rw [h3, h4] at hb
        exact unbindAll_post hr1 hle heq hb _
      · next e st2 h' =>
        obtain ⟨h3, h4⟩ := res_eq h'; rw [h3, h4] at hb
        obtain ⟨Q, hr2, _⟩ := hb
        exact ⟨Q ++ P1, hr1.trans hr2, fun _ ⟨_, hx⟩ => by cases hx⟩
    · next e st1 h =>
      obtain ⟨_, h2⟩ := res_eq h; rw [h2] at hr1
      exact ⟨P1, hr1, fun _ ⟨_, hx⟩ => by cases hx⟩
  · exact Post.refl _ _ _
  · exact Post.refl _ _ _
termination_by sizeOf l

theorem rdQuantFormS_post (l : List Sexp) (lc : Bool) (st : St) (isForall : Bool) :
    Post lc st (rdQuantFormS lc st isForall l).1 (rdQuantFormS lc st isForall l).2 := by
  unfold rdQuantFormS
  split
  · next b bs body =>
    obtain ⟨P1, hr1, hvs⟩ := rdQuantBindsS_post st (b :: bs) st [] [] (Rel.refl st) (fun _ => by simp)
    split
    · next vrs st1 h =>
      obtain ⟨h1, h2⟩ := res_eq h; rw [h2] at hr1
      have hc := hvs vrs h1
      have hb := rdValS_post body lc st1 false
      split
      · next t st2 h' =>
        obtain ⟨h3, h4⟩ := res_eq h'; rw [h3, h4] at hb
        exact unbindAll_post hr1 (fun n => Nat.le_of_eq (hc n)) (fun _ => hc) hb _
      · next v st2 _ h' =>
        obtain ⟨h3, h4⟩ := res_eq h'; rw [h3, h4] at hb
        exact unbindAll_post hr1 (fun n => Nat.le_of_eq (hc n)) (fun _ => hc) hb _
      · next e st2 h' =>
        obtain ⟨h3, h4⟩ := res_eq h'; rw [h3, h4] at hb
        obtain ⟨Q, hr2, _⟩ := hb
        exact ⟨Q ++ P1, hr1.trans hr2, fun _ ⟨_, hx⟩ => by cases hx⟩
    · next e st1 h =>
      obtain ⟨_, h2⟩ := res_eq h; rw [h2] at hr1
      exact ⟨P1, hr1, fun _ ⟨_, hx⟩ => by cases hx⟩
  · exact Post.refl _ _ _
  · exact Post.refl _ _ _
termination_by sizeOf l

theorem rdAnnotFormS_post (l : List Sexp) (lc : Bool) (st : St) :
    Post lc st (rdAnnotFormS lc st l).1 (rdAnnotFormS lc st l).2 := by
  unfold rdAnnotFormS
  split
  · next t attrs =>
    have ht := rdValS_post t lc st false
    split
    · next t' st1 h => obtain ⟨h1, h2⟩ := res_eq h; rw [h1, h2] at ht; exact (ht.of_ok _).addAnnots _ _
    · next h => obtain ⟨h1, h2⟩ := res_eq h; rw [h1, h2] at ht; exact ht.err _
    · next h => obtain ⟨h1, h2⟩ := res_eq h; rw [h1, h2] at ht; exact ht
  · exact Post.refl _ _ _
termination_by sizeOf l

theorem rdArgsS_post (l : List Sexp) (lc : Bool) (st : St) :
    Post lc st (rdArgsS lc st l).1 (rdArgsS lc st l).2 := by
  match l with
  | [] => rw [rdArgsS]; exact Post.refl _ _ _
  | s :: rest =>
    rw [rdArgsS]
    have hs := rdValS_post s lc st false
    split
    · next v st1 h =>
      obtain ⟨h1, h2⟩ := res_eq h; rw [h1, h2] at hs
      have hr := rdArgsS_post rest lc st1
      split
      · next vs st2 h' => obtain ⟨h3, h4⟩ := res_eq h'; rw [h3, h4] at hr; exact hs.trans (hr.of_ok _)
      · next e st2 h' => obtain ⟨h3, h4⟩ := res_eq h'; rw [h3, h4] at hr; exact hs.trans hr
    · next e st1 h => obtain ⟨h1, h2⟩ := res_eq h; rw [h1, h2] at hs; exact hs.err e
termination_by sizeOf l

theorem rdLetBindsS_post (l : List Sexp) (lc : Bool) (st0 st : St) (seen : List String) (delayed P0 : List (String × Val))
    (h0 : Rel st0 st P0) (hle : ∀ n, seen.count n ≤ cnt n P0 + cnt n delayed)
    (heq : lc = false → ∀ n, seen.count n = cnt n P0 + cnt n delayed) :
    ∃ P', Rel st0 (rdLetBindsS lc st seen delayed l).2 P' ∧
      ∀ ns, (rdLetBindsS lc st seen delayed l).1 = .ok ns →
        (∀ n, ns.count n ≤ cnt n P') ∧ (lc = false → ∀ n, ns.count n = cnt n P') := by
  have hbad : ∀ e, ∃ P', Rel st0 ((.error e, st) : Res (List String)).2 P' ∧
      ∀ ns, ((.error e, st) : Res (List String)).1 = .ok ns →
        (∀ n, ns.count n ≤ cnt n P') ∧ (lc = false → ∀ n, ns.count n = cnt n P') :=
    fun e => ⟨P0, h0, fun _ h => by cases h⟩
  unfold rdLetBindsS
  split
  · refine ⟨delayed.reverse.reverse ++ P0, h0.bindAll _, fun ns hns => ?_⟩
    cases hns
    simp only [List.reverse_reverse, List.count_reverse, cnt_append]
    exact ⟨fun n => by have := hle n; omega, fun hl n => by have := heq hl n; omega⟩
  · next x e bs =>
    split
    · exact hbad _
    · have he := rdValS_post e lc st false
      split
      · next v st1 h =>
        obtain ⟨h1, h2⟩ := res_eq h; rw [h1, h2] at he
        obtain ⟨Q, hrq, hq⟩ := he
        have h01 := h0.trans hrq
        split
        · apply rdLetBindsS_post bs lc st0 _ _ _ ((pyTok x, v) :: (Q ++ P0)) (h01.bind _ _)
          · intro n
            have := hle n
            simp only [List.count_cons, beq_iff_eq, cnt_cons, cnt_append]
            omega
          · intro hl n
            have := heq hl n
            simp only [List.count_cons, beq_iff_eq, cnt_cons, cnt_append, hq hl ⟨v, rfl⟩, cnt_nil]
            omega
        · apply rdLetBindsS_post bs lc st0 _ _ _ (Q ++ P0) h01
          · intro n
            have := hle n
            simp only [List.count_cons, beq_iff_eq, cnt_cons, cnt_append]
            omega
          · intro hl n
            have := heq hl n
            simp only [List.count_cons, beq_iff_eq, cnt_cons, cnt_append, hq hl ⟨v, rfl⟩, cnt_nil]
            omega
      · next e' st1 h =>
        obtain ⟨h1, h2⟩ := res_eq h; rw [h1, h2] at he
        obtain ⟨Q, hrq, _⟩ := he
        exact ⟨Q ++ P0, h0.trans hrq, fun _ h => by cases h⟩
  · exact hbad _
termination_by sizeOf l
end

end PySMT.ParserSession
