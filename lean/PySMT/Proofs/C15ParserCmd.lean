import PySMT.Proofs.C15ParserInv
/-!
# C15, parser objects — the command handlers and `get_command`

`Above st st'`: `st'` lies above `st` with an exact journal. Every handler that reads terms ends `Above` where it
started, whether it returns or raises (`cmdNamedS_above`); hence `cmdS` (= `checkpoint`, handler, `rollback` on an
exception) gives back the keys and the logic it found when the command fails (`cmdS_fail_restores`).
-/
namespace PySMT.ParserSession
open PySMT.Parser PySMT.Gen.ParserOps

def Above (st st' : St) : Prop := ∃ P, Rel st st' P

theorem Above.refl (st : St) : Above st st := ⟨[], Rel.refl st⟩

theorem Above.trans {a b c : St} (h1 : Above a b) (h2 : Above b c) : Above a c := by
  obtain ⟨P, hp⟩ := h1
  obtain ⟨Q, hq⟩ := h2
  exact ⟨Q ++ P, hp.trans hq⟩

theorem Post.above {α : Type} {lc : Bool} {st st' : St} {res : Except Err α} (h : Post lc st res st') : Above st st' := by
  obtain ⟨P, hr, _⟩ := h
  exact ⟨P, hr⟩

theorem readTermS_post (lc : Bool) (st : St) (s : Sexp) : Post lc st (readTermS lc st s).1 (readTermS lc st s).2 := by
  unfold readTermS
  have h := rdValS_post s lc st true
  split
  · next hh => obtain ⟨h1, h2⟩ := res_eq hh; rw [h1, h2] at h; exact h.of_ok _
  · next hh => obtain ⟨h1, h2⟩ := res_eq hh; rw [h1, h2] at h; exact h.err _
  · next hh => obtain ⟨h1, h2⟩ := res_eq hh; rw [h1, h2] at h; exact h.err _

theorem readTermsS_post (lc : Bool) : ∀ (l : List Sexp) (st : St),
    Post lc st (readTermsS lc st l).1 (readTermsS lc st l).2 := by
  intro l
  induction l with
  | nil => intro st; exact Post.refl _ _ _
  | cons s rest ih =>
    intro st
    simp only [readTermsS]
    have hs := readTermS_post lc st s
    split
    · next t st1 h =>
      obtain ⟨h1, h2⟩ := res_eq h; rw [h1, h2] at hs
      have hr := ih st1
      split
      · next h' => obtain ⟨h3, h4⟩ := res_eq h'; rw [h3, h4] at hr; exact hs.trans (hr.of_ok _)
      · next h' => obtain ⟨h3, h4⟩ := res_eq h'; rw [h3, h4] at hr; exact hs.trans hr
    · next e st1 h => obtain ⟨h1, h2⟩ := res_eq h; rw [h1, h2] at hs; exact hs.err e

/-- the formal parameters of a definition: each name is bound once more per occurrence -/
theorem bindFormalsS_rel (st0 : St) : ∀ (fts : List (String × Ty)) (st : St) (acc : List Sym) (P0 : List (String × Val)),
    Rel st0 st P0 →
    ∃ P', Rel st0 (bindFormalsS st fts acc).2 P' ∧
      ((∃ x, (bindFormalsS st fts acc).1 = .ok x) → ∀ n, cnt n P' = cnt n P0 + (fts.map (·.1)).count n) := by
  intro fts
  induction fts with
  | nil => intro st acc P0 h0; exact ⟨P0, h0, fun _ n => by simp⟩
  | cons ft fts ih =>
    intro st acc P0 h0
    obtain ⟨x, t⟩ := ft
    simp only [bindFormalsS]
    split
    · next s σ _ =>
      obtain ⟨P', hr, hc⟩ := ih ((st.setMgr σ).bind x (.term (Term.sym s))) (s :: acc) _ ((h0.setMgr σ).bind _ _)
      refine ⟨P', hr, fun hok n => ?_⟩
      rw [hc hok n, cnt_cons, List.map_cons, List.count_cons]
      simp only [beq_iff_eq]
      omega
    · exact ⟨P0, h0, fun ⟨_, h⟩ => by cases h⟩

theorem cmdDefineFunS_above (lc : Bool) (st : St) (args : List Sexp) : Above st (cmdDefineFunS lc st args).2 := by
  unfold cmdDefineFunS
  split
  · next n ps r body =>
    split
    · next fts rt _ _ =>
      obtain ⟨P1, hr1, hc1⟩ := bindFormalsS_rel st fts st [] [] (Rel.refl st)
      split
      · next formals st1 h =>
        obtain ⟨h1, h2⟩ := res_eq h; rw [h2] at hr1
        have hc := hc1 ⟨formals, h1⟩
        have hb := readTermS_post lc st1 body
        split
        · next b st2 h' =>
          obtain ⟨h3, h4⟩ := res_eq h'; rw [h3, h4] at hb
          obtain ⟨Q, hr2, _⟩ := hb
          have h02 := hr1.trans hr2
          split
          · generalize (if (b.typeOf == some Ty.int && rt == Ty.real && b.fv.isEmpty) = true then some Ty.real else b.typeOf) = bt
            by_cases hbt : bt ≠ some rt
            · rw [if_pos hbt]; exact ⟨_, h02⟩
            · rw [if_neg hbt]
              obtain ⟨P', hr', _⟩ := h02.unbindAll (fts.map (·.1)) (fun m => by
                rw [cnt_append, hc m]; simp)
              exact ⟨_, hr'.bind _ _⟩
          · exact ⟨_, h02⟩
        · next e st2 h' =>
          obtain ⟨_, h4⟩ := res_eq h'; rw [h4] at hb
          exact Above.trans ⟨P1, hr1⟩ hb.above
      · next e st1 h => obtain ⟨_, h2⟩ := res_eq h; rw [h2] at hr1; exact ⟨P1, hr1⟩
    · exact Above.refl st
    · exact Above.refl st
  · exact Above.refl st

theorem cmdAssertS_above (lc : Bool) (st : St) (args : List Sexp) : Above st (cmdAssertS lc st args).2 := by
  unfold cmdAssertS
  split
  · next t =>
    have h := readTermS_post lc st t
    split
    · next hh => obtain ⟨_, h2⟩ := res_eq hh; rw [h2] at h; exact h.above
    · next hh => obtain ⟨_, h2⟩ := res_eq hh; rw [h2] at h; exact h.above
  · exact Above.refl st

theorem cmdTermsS_above (lc : Bool) (st : St) (nm : String) (args : List Sexp) :
    Above st (cmdTermsS lc st nm args).2 := by
  unfold cmdTermsS
  split
  · next ts =>
    have h := readTermsS_post lc ts st
    split
    · next hh => obtain ⟨_, h2⟩ := res_eq hh; rw [h2] at h; exact h.above
    · next hh => obtain ⟨_, h2⟩ := res_eq hh; rw [h2] at h; exact h.above
  · exact Above.refl st

theorem softOptsS_above (lc : Bool) (l : List Sexp) (st : St) (w : Option Term) (i : Option String) :
    Above st (softOptsS lc st l w i).2 := by
  match l with
  | [] => simp only [softOptsS]; exact Above.refl st
  | [_] => simp only [softOptsS]; exact Above.refl st
  | k :: v :: rest =>
    simp only [softOptsS]
    split
    · split
      · have h := readTermS_post lc st v
        split
        · next t st1 hh =>
          obtain ⟨_, h2⟩ := res_eq hh; rw [h2] at h
          exact Above.trans h.above (softOptsS_above lc rest st1 _ _)
        · next hh => obtain ⟨_, h2⟩ := res_eq hh; rw [h2] at h; exact h.above
      · split
        · split
          · exact softOptsS_above lc rest st _ _
          · exact Above.refl st
        · exact Above.refl st
    · exact Above.refl st
termination_by l.length

theorem cmdAssertSoftS_above (lc : Bool) (st : St) (args : List Sexp) : Above st (cmdAssertSoftS lc st args).2 := by
  unfold cmdAssertSoftS
  split
  · next e opts =>
    have h := readTermS_post lc st e
    split
    · next t st1 hh =>
      obtain ⟨_, h2⟩ := res_eq hh; rw [h2] at h
      have ho := softOptsS_above lc opts st1 none none
      split
      · next hh' => obtain ⟨_, h4⟩ := res_eq hh'; rw [h4] at ho; exact Above.trans h.above ho
      · next hh' => obtain ⟨_, h4⟩ := res_eq hh'; rw [h4] at ho; exact Above.trans h.above ho
    · next hh => obtain ⟨_, h2⟩ := res_eq hh; rw [h2] at h; exact h.above
  · exact Above.refl st

theorem cmdObjectiveS_above (lc : Bool) (st : St) (nm : String) (args : List Sexp) :
    Above st (cmdObjectiveS lc st nm args).2 := by
  unfold cmdObjectiveS
  split
  · next e opts =>
    have h := readTermS_post lc st e
    split
    · next hh =>
      obtain ⟨_, h2⟩ := res_eq hh; rw [h2] at h
      split <;> exact h.above
    · next hh => obtain ⟨_, h2⟩ := res_eq hh; rw [h2] at h; exact h.above
  · exact Above.refl st

theorem cmdMinmaxS_above (lc : Bool) (st : St) (nm : String) (args : List Sexp) :
    Above st (cmdMinmaxS lc st nm args).2 := by
  unfold cmdMinmaxS
  have h := readTermsS_post lc (args.takeWhile (fun x => !isOptTok x)) st
  split
  · next hh =>
    obtain ⟨_, h2⟩ := res_eq hh; rw [h2] at h
    split <;> exact h.above
  · next hh => obtain ⟨_, h2⟩ := res_eq hh; rw [h2] at h; exact h.above

/-- a handler that raises stops above the state it started in -/
theorem cmdNamedS_above (lc : Bool) (st : St) (nm : String) (args : List Sexp) (e : Err)
    (h : (cmdNamedS lc st nm args).1 = .error e) : Above st (cmdNamedS lc st nm args).2 := by
  unfold cmdNamedS at h ⊢
  split
  · exact cmdAssertS_above lc st args
  · split
    · exact cmdDefineFunS_above lc st args
    · split
      · exact cmdTermsS_above lc st nm args
      · split
        · exact cmdAssertSoftS_above lc st args
        · split
          · exact cmdObjectiveS_above lc st nm args
          · split
            · exact cmdMinmaxS_above lc st nm args
            · rename_i h1 h2 h3 h4 h5 h6
              simp only [h1, h2, h3, h4, h5, h6, if_false, Bool.false_eq_true] at h
              unfold liftPure at h ⊢
              split
              · next heq => rw [heq] at h; cases h
              · exact Above.refl st

/-- **A failing command leaves the cache as it found it.** Whatever the command is and wherever it fails, after
`get_command`'s `rollback` the binding stacks and the logic are those before the command, and the journal is empty
(for a text that is no command of the parser nothing was touched at all). -/
theorem cmdS_fail_restores (lc : Bool) (st : St) (c : Sexp) (e : Err) (st' : St) (h : cmdS lc st c = (.error e, st')) :
    st'.keys = st.keys ∧ st'.intArith = st.intArith ∧
      (if isCommand c then st'.bound = [] ∧ st'.unbound = [] else st' = st) := by
  unfold cmdS at h
  split at h
  · next name args =>
    split at h
    · next hc =>
      have hic : isCommand (.list (.atom name :: args)) = true := hc
      rw [hic, if_pos rfl]
      split at h
      · cases h
      · next e1 st1 heq =>
        obtain ⟨h1, h2⟩ := res_eq heq
        have hab := cmdNamedS_above lc st.checkpoint (pyTok name) args e1 h1
        rw [h2] at hab
        obtain ⟨P, hr⟩ := hab
        obtain ⟨hk, hia, hb, hu, _, _⟩ := rollback_of_rel hr
        cases h
        exact ⟨hk, hia, hb, hu⟩
    · next hc =>
      have hic : isCommand (.list (.atom name :: args)) = false := by
        simp only [isCommand]; exact Bool.eq_false_iff.mpr hc
      cases h
      simp [hic]
  · next hne =>
    cases h
    refine ⟨rfl, rfl, ?_⟩
    have hic : isCommand c = false := by
      unfold isCommand
      split
      · next name args => exact absurd rfl (hne name args)
      · rfl
    simp [hic]

/-- … and `rollback` pops no empty stack -/
theorem cmdS_rollback_no_underflow (lc : Bool) (st : St) (nm : String) (args : List Sexp) (e : Err)
    (h : (cmdNamedS lc st.checkpoint nm args).1 = .error e) (n : String) :
    pendingCount (cmdNamedS lc st.checkpoint nm args).2 n ≤ cnt n (cmdNamedS lc st.checkpoint nm args).2.keys := by
  obtain ⟨P, hr⟩ := cmdNamedS_above lc st.checkpoint nm args e h
  exact rollback_no_underflow hr n

/-- what the exception leaves behind before the rollback (the state of the code before commit 30febd7): the old keys
with the pending bindings on top -/
theorem cmdNoRollbackS_pending (lc : Bool) (st : St) (c : Sexp) (e : Err) (st' : St)
    (h : cmdNoRollbackS lc st c = (.error e, st')) : ∃ P, st'.keys = P ++ st.keys := by
  unfold cmdNoRollbackS at h
  split at h
  · split at h
    · obtain ⟨h1, h2⟩ := res_eq h
      obtain ⟨P, hr⟩ := cmdNamedS_above lc st.checkpoint _ _ e h1
      rw [h2] at hr
      exact ⟨P, hr.keys⟩
    · cases h; exact ⟨[], rfl⟩
  · cases h; exact ⟨[], rfl⟩

end PySMT.ParserSession
