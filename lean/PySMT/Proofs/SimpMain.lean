import PySMT.Impl.Simplifier
import PySMT.Proofs.SimpAssemble
import PySMT.Proofs.SimpBoolAC
import PySMT.Proofs.SimpBool
import PySMT.Proofs.SimpEquals
import PySMT.Proofs.SimpQuant
import PySMT.Proofs.SimpArith
import PySMT.Proofs.SimpBV
import PySMT.Proofs.SimpStr
import PySMT.Proofs.SimpArray
/-!
# Every entry of `Simplifier.ruleOf` is locally correct; the assembled theorems for `simp`

To add a family: import its proof file and add its `walkX_ok` to the `first | …` list of
`ruleOf_ok` (one name per operator).
-/
namespace PySMT.Simplifier
open PySMT PySMT.Simp PySMT.Simp.BoolRules PySMT.Simp.ArithRules PySMT.Simp.StrRules

theorem ruleOf_ok : ∀ (op : Op) (e : Entry), ruleOf op = some e → RuleOK op e := by
  intro op e h
  cases op <;> simp only [ruleOf] at h <;> (try (cases h; done)) <;>
    (obtain rfl := Option.some.inj h) <;>
    first
    -- Boolean / core family
    | exact walkAnd_ok | exact walkOr_ok | exact walkNot_ok | exact walkIff_ok | exact walkImplies_ok
    | exact walkIte_ok | exact walkEquals_ok | exact walkLe_ok | exact walkLt_ok
    | exact walkForall_ok | exact walkExists_ok | exact walkFunction_ok | exact walkToReal_ok
    | exact keep_ok _
    -- arithmetic family
    | exact walkPlus_ok | exact walkTimes_ok | exact walkMinus_ok | exact walkDiv_ok
    -- bit-vector family
    | exact BVRules.walkBvAnd_ok | exact BVRules.walkBvOr_ok | exact BVRules.walkBvXor_ok | exact BVRules.walkBvNot_ok
    | exact BVRules.walkBvNeg_ok | exact BVRules.walkBvAdd_ok | exact BVRules.walkBvSub_ok | exact BVRules.walkBvMul_ok
    | exact BVRules.walkBvUdiv_ok | exact BVRules.walkBvUrem_ok | exact BVRules.walkBvSdiv_ok | exact BVRules.walkBvSrem_ok
    | exact BVRules.walkBvLshl_ok | exact BVRules.walkBvLshr_ok | exact BVRules.walkBvAshr_ok
    | exact BVRules.walkBvUlt_ok | exact BVRules.walkBvUle_ok | exact BVRules.walkBvSlt_ok | exact BVRules.walkBvSle_ok
    | exact BVRules.walkBvComp_ok | exact BVRules.walkBvConcat_ok | exact BVRules.walkBvExtract_ok
    | exact BVRules.walkBvRol_ok | exact BVRules.walkBvRor_ok | exact BVRules.walkBvZext_ok | exact BVRules.walkBvSext_ok
    | exact BVRules.walkBvToNatural_ok
    -- string family
    | exact walkStrLength_ok | exact walkStrConcat_ok | exact walkStrCharAt_ok | exact walkStrContains_ok
    | exact walkStrIndexOf_ok | exact walkStrReplace_ok | exact walkStrSubstr_ok | exact walkStrPrefixOf_ok
    | exact walkStrSuffixOf_ok | exact walkStrToInt_ok | exact walkIntToStr_ok
    -- array family
    | exact ArrayRules.walkArraySelect_ok | exact ArrayRules.walkArrayStore_ok | exact ArrayRules.walkArrayValue_ok

/-- all components for `simp` on the fragment `inFrag` -/
theorem simp_spec (t : Term) (hwf : t.wf = true) (hfr : inFrag t = true) (τ : Ty) (hty : t.typeOf = some τ) :
    ((simp t).typeOf = some τ ∧ (simp t).wf = true) ∧
    (∀ I : Interp, I.WF → div0 I t = false → eval I (simp t) = eval I t ∧ div0 I (simp t) = false) ∧
    (∀ s ∈ (simp t).fv, s ∈ t.fv) :=
  simpWith_spec ruleOf ruleOf_ok t hwf hfr τ hty

/-! helpers for the non-vacuity examples of `Props/C01.lean` -/

theorem var_ok (n : String) (τ : Ty) :
    (Term.var n τ).wf = true ∧ (Term.var n τ).typeOf = some τ ∧ inFrag (Term.var n τ) = true := by
  refine ⟨wf_mk (by simp) rfl rfl, by rw [Term.var, Term.sym, typeOf_node]; rfl, ?_⟩
  rw [Term.var, Term.sym, inFrag, inFragWith]
  rfl

theorem frag_node {op : Op} {args : List Term} {q : Payload} {e : Entry} (he : ruleOf op = some e)
    (hg : e.guard q (args.map Term.typeOf) = true) (h : ∀ a ∈ args, inFrag a = true) :
    inFrag (.node op args q) = true := by
  rw [inFrag, inFragWith, he]
  simp only [hg, Bool.true_and, List.all_eq_true, List.mem_map, id]
  rintro _ ⟨a, ha, rfl⟩
  exact h a ha

end PySMT.Simplifier
