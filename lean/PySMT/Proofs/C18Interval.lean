import PySMT.Impl.Opt
/-!
# C18, part 1: the search interval in direction-normalised form

`sg g v` is `v` for a minimisation goal and `-v` for a maximisation goal, so that "better" is
always "smaller".  `near` is the bound on the side of the best model found so far (`_upper` when
minimising, `_lower` when maximising), `far` the other one.  All direction-specific arithmetic
(initial bounds, pivots and their rounding, the cut operators, representability of the casts) is
dealt with here once; the loop proofs in `C18Search` never look at the direction again.
-/
namespace PySMT.Opt

def sg (g : Goal) (v : Int) : Int := match g.dir with | .min => v | .max => -v

def near (g : Goal) (iv : Interval) : Option Int := match g.dir with | .min => iv.upper | .max => iv.lower
def far (g : Goal) (iv : Interval) : Option Int := match g.dir with | .min => iv.lower | .max => iv.upper

theorem sg_inj (g : Goal) {a b : Int} (h : sg g a = sg g b) : a = b := by
  unfold sg at h; cases hd : g.dir <;> simp only [hd] at h <;> omega

theorem empty_iff (g : Goal) (iv : Interval) :
    iv.empty = true ↔ ∃ n f, near g iv = some n ∧ far g iv = some f ∧ sg g n ≤ sg g f := by
  unfold Interval.empty near far sg
  cases hd : g.dir <;> cases hl : iv.lower <;> cases hu : iv.upper <;> simp <;> omega

theorem empty_false_of_far_none (g : Goal) (iv : Interval) (h : far g iv = none) : iv.empty = false := by
  cases he : iv.empty with
  | false => rfl
  | true => obtain ⟨n, f, _, hf, _⟩ := (empty_iff g iv).1 he; simp [h] at hf

/-! ### `search_is_sat` -/

theorem far_searchIsSat (g : Goal) (iv : Interval) (v : Int) : far g (searchIsSat g iv v) = far g iv := by
  unfold searchIsSat far
  cases hd : g.dir <;> simp only
  · cases iv.upper with
    | none => rfl
    | some u => simp only; split <;> rfl
  · cases iv.lower with
    | none => rfl
    | some u => simp only; split <;> rfl

theorem pivot_searchIsSat (g : Goal) (iv : Interval) (v : Int) : (searchIsSat g iv v).pivot = none := by
  unfold searchIsSat
  cases hd : g.dir <;> simp only
  · cases iv.upper with
    | none => rfl
    | some u => simp only; split <;> rfl
  · cases iv.lower with
    | none => rfl
    | some u => simp only; split <;> rfl

theorem near_searchIsSat_none (g : Goal) (iv : Interval) (v : Int) (h : near g iv = none) :
    near g (searchIsSat g iv v) = some v := by
  unfold searchIsSat near at *
  cases hd : g.dir <;> simp only [hd] at h ⊢ <;> simp [h]

theorem near_searchIsSat_lt (g : Goal) (iv : Interval) (v n : Int) (h : near g iv = some n)
    (hlt : sg g v < sg g n) : near g (searchIsSat g iv v) = some v := by
  unfold searchIsSat near sg at *
  cases hd : g.dir <;> simp only [hd] at h hlt ⊢ <;> simp only [h]
  · have : n > v := by omega
    simp [this]
  · have : n < v := by omega
    simp [this]

/-! ### `search_is_unsat` -/

theorem near_searchIsUnsat (g : Goal) (iv : Interval) : near g (searchIsUnsat g iv) = near g iv := by
  unfold searchIsUnsat near
  cases hp : iv.pivot <;> cases hd : g.dir <;> rfl

theorem far_searchIsUnsat_pivot (g : Goal) (iv : Interval) (p : Int) (h : iv.pivot = some p) :
    far g (searchIsUnsat g iv) = some p := by
  unfold searchIsUnsat far
  cases hd : g.dir <;> simp [h]

theorem far_searchIsUnsat_nopivot (g : Goal) (iv : Interval) (h : iv.pivot = none) :
    far g (searchIsUnsat g iv) = near g iv := by
  unfold searchIsUnsat far near
  cases hd : g.dir <;> simp [h]

theorem pivot_searchIsUnsat (g : Goal) (iv : Interval) : (searchIsUnsat g iv).pivot = iv.pivot := by
  unfold searchIsUnsat
  cases hp : iv.pivot <;> cases hd : g.dir <;> simp

/-! ### cuts -/

theorem cutBound_linear (g : Goal) (iv : Interval) : cutBound .linear g iv = (iv, near g iv) := by
  unfold cutBound linearBound near; cases g.dir <;> rfl

theorem cutBound_binary (g : Goal) (iv : Interval) :
    cutBound .binary g iv = ({ iv with pivot := some (computePivot g iv) }, some (computePivot g iv)) := rfl

theorem near_withPivot (g : Goal) (iv : Interval) (p : Option Int) : near g { iv with pivot := p } = near g iv := by
  unfold near; cases g.dir <;> rfl
theorem far_withPivot (g : Goal) (iv : Interval) (p : Option Int) : far g { iv with pivot := p } = far g iv := by
  unfold far; cases g.dir <;> rfl

/-- the pivot lies strictly beyond `far` and not beyond `near` -/
theorem pivot_between (g : Goal) (iv : Interval) (n f : Int) (hn : near g iv = some n) (hf : far g iv = some f)
    (hlt : sg g f < sg g n) : sg g f < sg g (computePivot g iv) ∧ sg g (computePivot g iv) ≤ sg g n := by
  unfold near at hn
  unfold far at hf
  unfold computePivot sg at *
  cases hd : g.dir <;> simp only [hd] at hn hf hlt ⊢ <;> simp only [hn, hf] <;> omega

/-- with an unknown far bound (`None`) the pivot is still not beyond `near` -/
theorem pivot_le_near (g : Goal) (iv : Interval) (n : Int) (hn : near g iv = some n) (hf : far g iv = none) :
    sg g (computePivot g iv) ≤ sg g n := by
  unfold near at hn
  unfold far at hf
  unfold computePivot sg at *
  cases hd : g.dir <;> simp only [hd] at hn hf ⊢ <;> simp only [hn, hf] <;> omega

/-- meaning of the strict cut `op_strict(term, cast(b))` -/
theorem strict_atom_holds {M : Type} (obj : Nat → M → Int) (m : M) (g : Goal) (gi : Nat) (d : Dom) (b : Int) :
    (Constraint.atom ⟨gi, d, strictCmp g, b⟩).holds obj m = true ↔ sg g (obj gi m) < sg g b := by
  unfold Constraint.holds Atom.holds strictCmp sg
  cases g.dir <;> simp [Cmp.eval] <;> omega

/-- meaning of the non-strict `op_ns(term, val)` -/
theorem ns_atom_holds {M : Type} (obj : Nat → M → Int) (m : M) (g : Goal) (gi : Nat) (d : Dom) (b : Int) :
    (Atom.mk gi d (nsCmp g) b).holds obj m = true ↔ sg g (obj gi m) ≤ sg g b := by
  unfold Atom.holds nsCmp sg
  cases g.dir <;> simp [Cmp.eval] <;> omega

/-! ### representability of the bounds handed to `mgr.BV` / `mgr.SBV` -/

theorem castOk_convex (d : Dom) (a b c : Int) (ha : castOk d a = true) (hc : castOk d c = true)
    (hab : a ≤ b) (hbc : b ≤ c) : castOk d b = true := by
  unfold castOk at *
  cases d <;> simp at * <;> omega

/-- every value strictly beyond `f` (towards the near side) and not beyond a representable value is
    representable -/
def FarOk (g : Goal) (f : Int) : Prop :=
  ∀ p n, sg g f < sg g p → sg g p ≤ sg g n → castOk g.dom n = true → castOk g.dom p = true

theorem farOk_of_castOk (g : Goal) (f : Int) (h : castOk g.dom f = true) : FarOk g f := by
  intro p n h1 h2 hn
  unfold sg at h1 h2
  cases hd : g.dir <;> simp only [hd] at h1 h2
  · exact castOk_convex _ f p n h hn (by omega) (by omega)
  · exact castOk_convex _ n p f hn h (by omega) (by omega)

theorem farOk_init (g : Goal) (f : Int) (h : far g (Interval.init g) = some f) : FarOk g f := by
  intro p n h1 h2 hn
  unfold far Interval.init at h
  unfold sg at h1 h2
  unfold castOk at *
  cases hd : g.dir <;> cases hdom : g.dom <;> simp only [hd, hdom] at h h1 h2 hn ⊢ <;> simp at h hn ⊢ <;> omega

theorem far_init_none (g : Goal) (h : far g (Interval.init g) = none) : g.dom = .int := by
  unfold far Interval.init at h
  cases hd : g.dir <;> cases hdom : g.dom <;> simp [hd, hdom] at h ⊢

theorem near_init_int (g : Goal) (h : g.dom = .int) : near g (Interval.init g) = none ∧ far g (Interval.init g) = none := by
  unfold near far Interval.init
  cases hd : g.dir <;> simp [h]

theorem pivot_init (g : Goal) : (Interval.init g).pivot = none := by
  unfold Interval.init
  cases hd : g.dir <;> cases hdom : g.dom <;> rfl

/-- for bit-vector goals the initial `near` bound lies strictly beyond every representable value
    (so the first model always improves it) -/
theorem near_init_bv (g : Goal) (n v : Int) (h : near g (Interval.init g) = some n)
    (hv : castOk g.dom v = true) : sg g v < sg g n := by
  unfold near Interval.init at h
  unfold sg
  unfold castOk at hv
  cases hd : g.dir <;> cases hdom : g.dom <;> simp only [hd, hdom] at h hv ⊢ <;> simp at h hv ⊢ <;> omega

/-- the initial far bound is not beyond any representable value -/
theorem far_init_bound (g : Goal) (f v : Int) (h : far g (Interval.init g) = some f)
    (hv : castOk g.dom v = true) : sg g f ≤ sg g v := by
  unfold far Interval.init at h
  unfold sg
  unfold castOk at hv
  cases hd : g.dir <;> cases hdom : g.dom <;> simp only [hd, hdom] at h hv ⊢ <;> simp at h hv ⊢ <;> omega

theorem init_not_empty (g : Goal) : (Interval.init g).empty = false := by
  unfold Interval.init Interval.empty
  cases hd : g.dir <;> cases hdom : g.dom <;> simp
  all_goals
    rename_i w
    have h1 : (0 : Int) < 2 ^ w := Int.pow_pos (by decide)
    have h2 : (0 : Int) < 2 ^ (w - 1) := Int.pow_pos (by decide)
    omega

end PySMT.Opt
