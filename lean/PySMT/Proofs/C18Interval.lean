import PySMT.Impl.Opt
/-!
# C18, part 1: the search interval in direction-normalised form

`sg g v` is `v` for a minimisation goal and `-v` for a maximisation goal, so that "better" is
always "smaller".  `near` is the bound on the side of the best model found so far (`_upper` when
minimising, `_lower` when maximising), `far` the other one.  All direction-specific arithmetic
(initial bounds, pivots and their rounding, the cut operators, representability of the casts) is
dealt with here once; the loop proofs in `C18Search` never look at the direction again.
-/
namespace PySMT.Opt

def sg (g : Goal) (v : Int) : Int := match g.dir with | .min => v | .max => -v

def near (g : Goal) (iv : Interval) : Option Int := match g.dir with | .min => iv.upper | .max => iv.lower
def far (g : Goal) (iv : Interval) : Option Int := match g.dir with | .min => iv.lower | .max => iv.upper

theorem sg_inj (g : Goal) {a b : Int} (h : sg g a = sg g b) : a = b := by
  unfold sg at h; cases hd : g.dir <;> simp only [hd] at h <;> omega

theorem empty_iff (g : Goal) (iv : Interval) :
    iv.empty = true ↔ ∃ n f, near g iv = some n ∧ far g iv = some f ∧ sg g n ≤ sg g f := by
  unfold Interval.empty near far sg
  cases hd : g.dir <;> cases hl : iv.lower <;> cases hu : iv.upper <;> simp <;> omega

theorem empty_false_of_far_none (g : Goal) (iv : Interval) (h : far g iv = none) : iv.empty = false := by
  cases he : iv.empty with
  | false => rfl
  | true => obtain ⟨n, f, _, hf, _⟩ := (empty_iff g iv).1 he; simp [h] at hf

/-! ### `search_is_sat` -/

theorem far_searchIsSat (g : Goal) (iv : Interval) (v : Int) : far g (searchIsSat g iv v) = far g iv := by
  unfold searchIsSat far
  cases hd : g.dir <;> simp only
  · cases iv.upper with
    | none => rfl
    | some u => simp only; split <;> rfl
  · cases iv.lower with
    | none => rfl
    | some u => simp only; split <;> rfl

theorem pivot_searchIsSat (g : Goal) (iv : Interval) (v : Int) : (searchIsSat g iv v).pivot = none := by
  unfold searchIsSat
  cases hd : g.dir <;> simp only
  · cases iv.upper with
    | none => rfl
    | some u => simp only; split <;> rfl
  · cases iv.lower with
    | none => rfl
    | some u => simp only; split <;> rfl

theorem near_searchIsSat_none (g : Goal) (iv : Interval) (v : Int) (h : near g iv = none) :
    near g (searchIsSat g iv v) = some v := by
  unfold searchIsSat near at *
  cases hd : g.dir <;> simp only [hd] at h ⊢ <;> simp [h]

theorem near_searchIsSat_lt (g : Goal) (iv : Interval) (v n : Int) (h : near g iv = some n)
    (hlt : sg g v < sg g n) : near g (searchIsSat g iv v) = some v := by
  unfold searchIsSat near sg at *
  cases hd : g.dir <;> simp only [hd] at h hlt ⊢ <;> simp only [h]
  · have : n > v := by omega
    simp [this]
  · have : n < v := by omega
    simp [this]

/-! ### `search_is_unsat` -/

theorem near_searchIsUnsat (g : Goal) (iv : Interval) : near g (searchIsUnsat g iv) = near g iv := by
  unfold searchIsUnsat near
  cases hp : iv.pivot <;> cases hd : g.dir <;> rfl

theorem far_searchIsUnsat_pivot (g : Goal) (iv : Interval) (p : Int) (h : iv.pivot = some p) :
    far g (searchIsUnsat g iv) = some p := by
  unfold searchIsUnsat far
  cases hd : g.dir <;> simp [h]

theorem far_searchIsUnsat_nopivot (g : Goal) (iv : Interval) (h : iv.pivot = none) :
    far g (searchIsUnsat g iv) = near g iv := by
  unfold searchIsUnsat far near
  cases hd : g.dir <;> simp [h]

theorem pivot_searchIsUnsat (g : Goal) (iv : Interval) : (searchIsUnsat g iv).pivot = iv.pivot := by
  unfold searchIsUnsat
  cases hp : iv.pivot <;> cases hd : g.dir <;> simp

/-! ### cuts -/

theorem cutBound_linear (g : Goal) (iv : Interval) : cutBound .linear g iv = (iv, near g iv) := by
  unfold cutBound linearBound near; cases g.dir <;> rfl

theorem cutBound_binary (g : Goal) (iv : Interval) :
    cutBound .binary g iv = ({ iv with pivot := some (computePivot g iv) }, some (computePivot g iv)) := rfl

theorem near_withPivot (g : Goal) (iv : Interval) (p : Option Int) : near g { iv with pivot := p } = near g iv := by
  unfold near; cases g.dir <;> rfl
theorem far_withPivot (g : Goal) (iv : Interval) (p : Option Int) : far g { iv with pivot := p } = far g iv := by
  unfold far; cases g.dir <;> rfl

/-- the pivot lies strictly beyond `far` and not beyond `near` -/
theorem pivot_between (g : Goal) (iv : Interval) (n f : Int) (hn : near g iv = some n) (hf : far g iv = some f)
    (hlt : sg g f < sg g n) : sg g f < sg g (computePivot g iv) ∧ sg g (computePivot g iv) ≤ sg g n := by
  unfold near at hn
  unfold far at hf
  unfold computePivot sg at *
  cases hd : g.dir <;> simp only [hd] at hn hf hlt ⊢ <;> simp only [hn, hf] <;> omega

/-- with an unknown far bound (`None`) the pivot is still not beyond `near` -/
theorem pivot_le_near (g : Goal) (iv : Interval) (n : Int) (hn : near g iv = some n) (hf : far g iv = none) :
    sg g (computePivot g iv) ≤ sg g n := by
  unfold near at hn
  unfold far at hf
  unfold computePivot sg at *
  cases hd : g.dir <;> simp only [hd] at hn hf ⊢ <;> simp only [hn, hf] <;> omega

/-! ### bit-vector semantics of the atoms vs. the integer reading of the goal -/

theorem ofInt_toNat_of_castOk (w : Nat) (b : Int) (h : castOk (.ubv w) b = true) :
    ((BitVec.ofInt w b).toNat : Int) = b := by
  simp only [castOk, decide_eq_true_eq] at h
  rw [BitVec.toNat_ofInt]
  have h2 : ((2 ^ w : Nat) : Int) = (2 : Int) ^ w := by simp
  rw [h2, Int.emod_eq_of_lt h.1 h.2]
  omega

theorem two_pow_pred (w : Nat) (hw : 0 < w) : (2 : Int) ^ w = 2 * 2 ^ (w - 1) := by
  obtain ⟨k, rfl⟩ : ∃ k, w = k + 1 := ⟨w - 1, by omega⟩
  simp [Int.pow_succ]; omega

theorem ofInt_toInt_of_castOk (w : Nat) (b : Int) (h : castOk (.sbv w) b = true) :
    (BitVec.ofInt w b).toInt = b := by
  simp only [castOk, decide_eq_true_eq] at h
  obtain ⟨hw, h1, h2⟩ := h
  rw [BitVec.toInt_ofInt]
  have hp := two_pow_pred w hw
  have hp' : ((2 ^ w : Nat) : Int) = (2 : Int) ^ w := by simp
  apply Int.bmod_eq_of_le
  · rw [hp', hp]; omega
  · rw [hp', hp]; omega

theorem cmp_evalU_eq {w : Nat} (c : Cmp) (x y : BitVec w) :
    c.evalU x y = c.eval (x.toNat : Int) (y.toNat : Int) := by
  cases c <;> simp [Cmp.evalU, Cmp.eval, BitVec.ult, BitVec.ule]

theorem cmp_evalS_eq {w : Nat} (c : Cmp) (x y : BitVec w) :
    c.evalS x y = c.eval x.toInt y.toInt := by
  cases c <;> simp [Cmp.evalS, Cmp.eval, BitVec.slt, BitVec.sle]

/-- The operator family recorded in the atom, evaluated with the SMT-LIB bit-vector operators on the
    raw model value and the cast constant, decides the same as the integer comparison of the value
    *read with the same family* (`toNat` for the unsigned, `toInt` for the signed operators) with the
    bound -- provided the cast is representable.  This is where the signedness column of
    `_comparation_functions` (BVULT/BV vs BVSLT/SBV) enters the proofs. -/
theorem atom_holds_eq {M : Type} (val : Nat → M → Val) (m : M) (a : Atom)
    (hty : ValTyped a.dom (val a.g m)) (hc : castOk a.dom a.bound = true) :
    a.holds val m = a.cmp.eval (readObj a.dom (val a.g m)) a.bound := by
  unfold Atom.holds
  cases hd : a.dom <;> cases hv : val a.g m <;> rw [hd, hv] at hty <;> simp only [ValTyped] at hty
  · simp [readObj]
  · subst hty
    rw [hd] at hc
    simp only [dite_true, readObj, cmp_evalU_eq, ofInt_toNat_of_castOk _ _ hc]
  · obtain ⟨rfl, _⟩ := hty
    rw [hd] at hc
    simp only [dite_true, readObj, cmp_evalS_eq, ofInt_toInt_of_castOk _ _ hc]

/-- a well-sorted model value, read the way the goal reads it, is representable in the goal's sort -/
theorem castOk_readObj (d : Dom) (v : Val) (h : ValTyped d v) : castOk d (readObj d v) = true := by
  cases d <;> cases v <;> simp only [ValTyped] at h
  · rfl
  · subst h
    rename_i b
    simp only [castOk, readObj]
    apply decide_eq_true
    have := b.isLt
    refine ⟨by omega, ?_⟩
    exact_mod_cast this
  · obtain ⟨rfl, hw⟩ := h
    rename_i b
    simp only [castOk, readObj]
    apply decide_eq_true
    have h1 := BitVec.le_toInt b
    have h2 := @BitVec.toInt_lt _ b
    exact ⟨hw, by omega, by omega⟩

/-- meaning of the strict cut `op_strict(term, cast(b))`, for a model whose value of the goal term
    is well-sorted, read by `obj` the way the goal reads it, and a representable bound -/
theorem strict_atom_holds {M : Type} (val : Nat → M → Val) (obj : Nat → M → Int) (m : M) (g : Goal) (gi : Nat)
    (b : Int) (hty : ValTyped g.dom (val gi m)) (hr : obj gi m = readObj g.dom (val gi m))
    (hc : castOk g.dom b = true) :
    (Constraint.atom ⟨gi, g.dom, strictCmp g, b⟩).holds val m = true ↔ sg g (obj gi m) < sg g b := by
  simp only [Constraint.holds]
  rw [atom_holds_eq val m _ hty hc, ← hr]
  unfold strictCmp sg
  cases g.dir <;> simp [Cmp.eval] <;> omega

/-- meaning of the non-strict `op_ns(term, val)` -/
theorem ns_atom_holds {M : Type} (val : Nat → M → Val) (obj : Nat → M → Int) (m : M) (g : Goal) (gi : Nat)
    (b : Int) (hty : ValTyped g.dom (val gi m)) (hr : obj gi m = readObj g.dom (val gi m))
    (hc : castOk g.dom b = true) :
    (Atom.mk gi g.dom (nsCmp g) b).holds val m = true ↔ sg g (obj gi m) ≤ sg g b := by
  rw [atom_holds_eq val m _ hty hc, ← hr]
  unfold nsCmp sg
  cases g.dir <;> simp [Cmp.eval] <;> omega

/-! ### representability of the bounds handed to `mgr.BV` / `mgr.SBV` -/

theorem castOk_convex (d : Dom) (a b c : Int) (ha : castOk d a = true) (hc : castOk d c = true)
    (hab : a ≤ b) (hbc : b ≤ c) : castOk d b = true := by
  unfold castOk at *
  cases d <;> simp at * <;> omega

/-- every value strictly beyond `f` (towards the near side) and not beyond a representable value is
    representable -/
def FarOk (g : Goal) (f : Int) : Prop :=
  ∀ p n, sg g f < sg g p → sg g p ≤ sg g n → castOk g.dom n = true → castOk g.dom p = true

theorem farOk_of_castOk (g : Goal) (f : Int) (h : castOk g.dom f = true) : FarOk g f := by
  intro p n h1 h2 hn
  unfold sg at h1 h2
  cases hd : g.dir <;> simp only [hd] at h1 h2
  · exact castOk_convex _ f p n h hn (by omega) (by omega)
  · exact castOk_convex _ n p f hn h (by omega) (by omega)

theorem farOk_init (g : Goal) (f : Int) (h : far g (Interval.init g) = some f) : FarOk g f := by
  intro p n h1 h2 hn
  unfold far Interval.init at h
  unfold sg at h1 h2
  unfold castOk at *
  cases hd : g.dir <;> cases hdom : g.dom <;> simp only [hd, hdom] at h h1 h2 hn ⊢ <;> simp at h hn ⊢ <;> omega

theorem far_init_none (g : Goal) (h : far g (Interval.init g) = none) : g.dom = .int := by
  unfold far Interval.init at h
  cases hd : g.dir <;> cases hdom : g.dom <;> simp [hd, hdom] at h ⊢

theorem near_init_int (g : Goal) (h : g.dom = .int) : near g (Interval.init g) = none ∧ far g (Interval.init g) = none := by
  unfold near far Interval.init
  cases hd : g.dir <;> simp [h]

theorem pivot_init (g : Goal) : (Interval.init g).pivot = none := by
  unfold Interval.init
  cases hd : g.dir <;> cases hdom : g.dom <;> rfl

/-- for bit-vector goals the initial `near` bound lies strictly beyond every representable value
    (so the first model always improves it) -/
theorem near_init_bv (g : Goal) (n v : Int) (h : near g (Interval.init g) = some n)
    (hv : castOk g.dom v = true) : sg g v < sg g n := by
  unfold near Interval.init at h
  unfold sg
  unfold castOk at hv
  cases hd : g.dir <;> cases hdom : g.dom <;> simp only [hd, hdom] at h hv ⊢ <;> simp at h hv ⊢ <;> omega

/-- the initial far bound is not beyond any representable value -/
theorem far_init_bound (g : Goal) (f v : Int) (h : far g (Interval.init g) = some f)
    (hv : castOk g.dom v = true) : sg g f ≤ sg g v := by
  unfold far Interval.init at h
  unfold sg
  unfold castOk at hv
  cases hd : g.dir <;> cases hdom : g.dom <;> simp only [hd, hdom] at h hv ⊢ <;> simp at h hv ⊢ <;> omega

theorem init_not_empty (g : Goal) : (Interval.init g).empty = false := by
  unfold Interval.init Interval.empty
  cases hd : g.dir <;> cases hdom : g.dom <;> simp
  all_goals
    rename_i w
    have h1 : (0 : Int) < 2 ^ w := Int.pow_pos (by decide)
    have h2 : (0 : Int) < 2 ^ (w - 1) := Int.pow_pos (by decide)
    omega

end PySMT.Opt
