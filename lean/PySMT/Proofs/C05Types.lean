import PySMT.Core.TypeOf
/-!
# C05 — closed form of `typeOfNode` (copy of `C03.tyNode` / `C03.typeOfNode_eq_tyNode`, kept here so
that the C05 proofs do not depend on the C03 proof files while those are being written)
-/
namespace PySMT
namespace C05T

/-- `typeOfNode` on argument lists without `none`, operator by operator -/
def tyNode (op : Op) (p : Payload) (σs : List Ty) : Option Ty :=
  match op with
  | .and | .or | .not | .implies | .iff => if allAre (σs.map some) .bool then some .bool else none
  | .toReal => if allAre (σs.map some) .int then some .real else none
  | .plus | .minus | .times | .div =>
    if allAre (σs.map some) .real then some .real else if allAre (σs.map some) .int then some .int else none
  | .bvAdd | .bvSub | .bvNot | .bvAnd | .bvOr | .bvXor | .bvNeg | .bvMul | .bvUdiv | .bvUrem | .bvLshl | .bvLshr
  | .bvSdiv | .bvSrem | .bvAshr =>
    (match p with
      | .ints (w :: _) => if allAre (σs.map some) (.bv w) then some (.bv w) else none
      | _ => none)
  | .strConcat | .strReplace => if allAre (σs.map some) .str then some .str else none
  | .strLength | .strToInt => if allAre (σs.map some) .str then some .int else none
  | .strContains | .strPrefixOf | .strSuffixOf => if allAre (σs.map some) .str then some .bool else none
  | .intToStr => if allAre (σs.map some) .int then some .str else none
  | .bvComp => (match σs with | [.bv w, .bv w'] => if w = w' then some (.bv 1) else none | _ => none)
  | .bvUlt | .bvUle | .bvSlt | .bvSle =>
    (match σs with | .bv w :: rest => if allAre (rest.map some) (.bv w) then some .bool else none | _ => none)
  | .bvToNatural => (match σs with | .bv _ :: _ => some .int | _ => none)
  | .bvConcat =>
    (match p, σs with
      | .ints (w :: _), [.bv l, .bv r] => if l + r = w then some (.bv w) else none
      | _, _ => none)
  | .bvExtract =>
    (match p, σs with
      | .ints [w, lo, hi], [.bv base] =>
        if lo ≥ base ∨ hi ≥ base then none else if base < w then none
        else if w + lo ≠ hi + 1 then none else some (.bv w)
      | _, _ => none)
  | .bvRol | .bvRor =>
    (match p, σs with
      | .ints [w, k], [.bv a] => if w < k then none else if w ≠ a then none else some (.bv w)
      | _, _ => none)
  | .bvZext | .bvSext =>
    (match p, σs with
      | .ints (w :: _), .bv a :: _ => if w < a then none else some (.bv w)
      | _, _ => none)
  | .equals =>
    (match σs with
      | [] => none
      | .bool :: _ => none
      | t :: rest => if allAre (rest.map some) t then some .bool else none)
  | .le | .lt =>
    (match σs with
      | .real :: rest => if allAre (rest.map some) .real then some .bool else none
      | _ => if allAre (σs.map some) .int then some .bool else none)
  | .ite => (match σs with | [.bool, a, b] => if a = b then some a else none | _ => none)
  | .boolConst => (match σs with | [] => some .bool | _ => none)
  | .realConst | .algebraicConst => (match σs with | [] => some .real | _ => none)
  | .intConst => (match σs with | [] => some .int | _ => none)
  | .strConst => (match σs with | [] => some .str | _ => none)
  | .bvConst => (match p, σs with | .bv _ w, [] => some (.bv w) | _, _ => none)
  | .symbol => (match p, σs with | .sym s, [] => if s.params.isEmpty then some s.ret else none | _, _ => none)
  | .forall_ | .exists_ => (match σs with | [.bool] => some .bool | _ => none)
  | .function =>
    (match p with
      | .sym f =>
        if (σs.map some).length = f.params.length ∧ σs.map some = f.params.map some then some f.ret else none
      | _ => none)
  | .strCharAt => (match σs with | [.str, .int] => some .str | _ => none)
  | .strIndexOf => (match σs with | [.str, .str, .int] => some .int | _ => none)
  | .strSubstr => (match σs with | [.str, .int, .int] => some .str | _ => none)
  | .arraySelect => (match σs with | [.array i e, j] => if i = j then some e else none | _ => none)
  | .arrayStore =>
    (match σs with | [.array i e, j, v] => if i = j ∧ e = v then some (.array i e) else none | _ => none)
  | .arrayValue =>
    (match p, σs with
      | .ty idx, d :: rest => if typeOfNode.chk idx d (rest.map some) then some (.array idx d) else none
      | _, _ => none)
  | .pow => (match σs with | [a, b] => if a = b then some .real else none | _ => none)

set_option maxHeartbeats 1000000 in
theorem typeOfNode_eq_tyNode (op : Op) (p : Payload) (σs : List Ty) :
    typeOfNode op p (σs.map some) = tyNode op p σs := by
  cases op
  case and | or | not | implies | iff | toReal | plus | minus | times | div | strConcat | strReplace | strLength
     | strToInt | strContains | strPrefixOf | strSuffixOf | intToStr => rfl
  case bvAdd | bvSub | bvNot | bvAnd | bvOr | bvXor | bvNeg | bvMul | bvUdiv | bvUrem | bvLshl | bvLshr
     | bvSdiv | bvSrem | bvAshr =>
    cases p <;> first | rfl | (rename_i l; cases l <;> rfl)
  case function => cases p <;> rfl
  case bvComp =>
    rcases σs with _ | ⟨x, _ | ⟨y, _ | ⟨z, r⟩⟩⟩ <;> (try cases x) <;> (try cases y) <;> rfl
  case bvUlt | bvUle | bvSlt | bvSle | bvToNatural | equals | le | lt =>
    rcases σs with _ | ⟨x, r⟩ <;> (try cases x) <;> rfl
  case boolConst | realConst | algebraicConst | intConst | strConst => cases σs <;> rfl
  case bvConst | symbol => cases p <;> cases σs <;> rfl
  case forall_ | exists_ => rcases σs with _ | ⟨x, _ | ⟨y, r⟩⟩ <;> (try cases x) <;> rfl
  case ite =>
    rcases σs with _ | ⟨x, _ | ⟨y, _ | ⟨z, _ | ⟨w, r⟩⟩⟩⟩ <;> (try cases x) <;> rfl
  case pow => rcases σs with _ | ⟨x, _ | ⟨y, _ | ⟨z, r⟩⟩⟩ <;> rfl
  case strCharAt =>
    rcases σs with _ | ⟨x, _ | ⟨y, _ | ⟨z, r⟩⟩⟩ <;> (try cases x) <;> (try cases y) <;> rfl
  case strIndexOf | strSubstr =>
    rcases σs with _ | ⟨x, _ | ⟨y, _ | ⟨z, _ | ⟨w, r⟩⟩⟩⟩ <;> (try cases x) <;> (try cases y) <;> (try cases z) <;> rfl
  case arraySelect =>
    rcases σs with _ | ⟨x, _ | ⟨y, _ | ⟨z, r⟩⟩⟩ <;> (try cases x) <;> rfl
  case arrayStore =>
    rcases σs with _ | ⟨x, _ | ⟨y, _ | ⟨z, _ | ⟨w, r⟩⟩⟩⟩ <;> (try cases x) <;> rfl
  case arrayValue => cases p <;> cases σs <;> rfl
  case bvConcat =>
    cases p <;> try rfl
    rename_i l
    cases l <;> try rfl
    rcases σs with _ | ⟨x, _ | ⟨y, _ | ⟨z, r⟩⟩⟩ <;> (try cases x) <;> (try cases y) <;> rfl
  case bvExtract =>
    cases p <;> try rfl
    rename_i l
    rcases l with _ | ⟨w, _ | ⟨lo, _ | ⟨hi, _ | ⟨e, l⟩⟩⟩⟩ <;> try rfl
    all_goals (rcases σs with _ | ⟨x, _ | ⟨y, r⟩⟩ <;> (try cases x) <;> rfl)
  case bvRol | bvRor =>
    cases p <;> try rfl
    rename_i l
    rcases l with _ | ⟨w, _ | ⟨k, _ | ⟨e, l⟩⟩⟩ <;> try rfl
    all_goals (rcases σs with _ | ⟨x, _ | ⟨y, r⟩⟩ <;> (try cases x) <;> rfl)
  case bvZext | bvSext =>
    cases p <;> try rfl
    rename_i l
    cases l <;> try rfl
    rcases σs with _ | ⟨x, r⟩ <;> (try cases x) <;> rfl

end C05T
end PySMT
