import PySMT.Impl.Simp.BV
import PySMT.Proofs.SimpBuild
/-!
# Bit-vector rule family: term-level plumbing shared by the `walkBvX_ok` proofs

* bit-vector constants (`typeOf_bvc`, `wf_bvc`, `eval_bvc`, …, `isBvConst_some`, `Res.bvc`);
* `bvVal I t` : the number a bit-vector term denotes, `bvVal_spec`;
* `Bin` : everything a rule for a binary same-width operator needs (`Bin.const`, `Bin.left`,
  `Bin.right`, `Bin.rebuild`), `Un` for `bvNot`/`bvNeg`, `Rel` for the four comparisons.
-/
namespace PySMT.Simp.BVRules
open PySMT PySMT.Build PySMT.Simp

/-! ## constants -/

theorem typeOf_bvc (v w : Nat) : (Term.bvc v w).typeOf = some (.bv w) := by
  rw [Term.bvc, typeOf_node]; rfl
theorem wf_bvc {v w : Nat} (h : v < 2 ^ w) : (Term.bvc v w).wf = true := by
  rw [Term.bvc, Term.wf_node]
  refine ⟨by simp, ?_, rfl⟩
  simp [Op.shapeOK, h]
theorem eval_bvc (I : Interp) (v w : Nat) : eval I (Term.bvc v w) = .bv w v := by
  simp [Term.bvc, eval_node, evalNode, evalOp]
theorem div0_bvc (I : Interp) (v w : Nat) : div0 I (Term.bvc v w) = false := by
  simp [Term.bvc, div0_node, div0Node]
theorem fv_bvc (v w : Nat) : (Term.bvc v w).fv = [] := by
  simp [Term.bvc, fv_node]

theorem isBvConst_some {t : Term} {v : Nat} (h : isBvConst t = some v) : ∃ w, t = Term.bvc v w := by
  unfold isBvConst at h
  split at h
  · simp at h; subst h; exact ⟨_, rfl⟩
  · simp at h

theorem isBvConst_bvc (v w : Nat) : isBvConst (Term.bvc v w) = some v := rfl

theorem bvWidth_of {a : Term} {w : Nat} (h : a.typeOf = some (.bv w)) : bvWidth a = w := by
  simp [bvWidth, h]

theorem bvWidth_bvc (v w : Nat) : bvWidth (Term.bvc v w) = w := bvWidth_of (typeOf_bvc v w)

/-- a well-formed constant of type `bv w` -/
theorem bvc_inv {v w' w : Nat} (hwf : (Term.bvc v w').wf = true) (hty : (Term.bvc v w').typeOf = some (.bv w)) :
    w' = w ∧ v < 2 ^ w := by
  rw [typeOf_bvc] at hty
  cases hty
  have hs := wf_shape hwf
  simp only [Op.shapeOK, Bool.and_eq_true, decide_eq_true_eq] at hs
  exact ⟨rfl, hs.2⟩

/-- a recognised constant among well-formed terms of type `bv w` -/
theorem const_of {t : Term} {v w : Nat} (h : isBvConst t = some v) (hwf : t.wf = true)
    (hty : t.typeOf = some (.bv w)) : t = Term.bvc v w ∧ v < 2 ^ w := by
  obtain ⟨w', rfl⟩ := isBvConst_some h
  obtain ⟨rfl, hv⟩ := bvc_inv hwf hty
  exact ⟨rfl, hv⟩

/-- a bit-vector constant as result -/
theorem Res.bvc {t : Term} {w v : Nat} (hv : v < 2 ^ w)
    (h : ∀ I : Interp, I.WF → eval I t = .bv w v) : Res t (.bv w) (Term.bvc v w) :=
  Res.of_hyp (typeOf_bvc v w) (wf_bvc hv) (fun I hI _ => by rw [eval_bvc, h I hI]) (fun I _ _ => div0_bvc I v w)
    (by rw [fv_bvc]; intro s hs; cases hs)

/-! ## the number a bit-vector term denotes -/

def bvVal (I : Interp) (t : Term) : Nat :=
  match eval I t with | .bv _ v => v | _ => 0

@[simp] theorem bvVal_bvc (I : Interp) (v w : Nat) : bvVal I (Term.bvc v w) = v := by
  simp [bvVal, eval_bvc]

theorem bvVal_spec {t : Term} {w : Nat} (hwf : t.wf = true) (hty : t.typeOf = some (.bv w))
    {I : Interp} (hI : I.WF) : eval I t = .bv w (bvVal I t) ∧ bvVal I t < 2 ^ w := by
  obtain ⟨n, hn, hlt⟩ := eval_bv_of_wf hwf hty hI
  simp only [bvVal, hn]
  exact ⟨trivial, hlt⟩

/-- the value of the operator on numbers, through core `BitVec` -/
def spec2 (f : (w : Nat) → BitVec w → BitVec w → BitVec w) (w x y : Nat) : Nat :=
  (f w (BitVec.ofNat w x) (BitVec.ofNat w y)).toNat
def spec1 (f : (w : Nat) → BitVec w → BitVec w) (w x : Nat) : Nat :=
  (f w (BitVec.ofNat w x)).toNat
def specRel (g : (w : Nat) → BitVec w → BitVec w → Bool) (w x y : Nat) : Bool :=
  g w (BitVec.ofNat w x) (BitVec.ofNat w y)

theorem spec2_lt (f) (w x y : Nat) : spec2 f w x y < 2 ^ w := (f w _ _).isLt
theorem spec1_lt (f) (w x : Nat) : spec1 f w x < 2 ^ w := (f w _).isLt

theorem eval_args2 (I : Interp) (op : Op) (a b : Term) (p : Payload) (h1 : op ≠ .symbol) (h2 : op ≠ .function)
    (h3 : op.isQuantifier = false) :
    eval I (.node op [a, b] p) = evalOp I op p [eval I a, eval I b] := by
  rw [eval_plain I op _ p h1 h2 h3]; rfl

theorem eval_args1 (I : Interp) (op : Op) (a : Term) (p : Payload) (h1 : op ≠ .symbol) (h2 : op ≠ .function)
    (h3 : op.isQuantifier = false) :
    eval I (.node op [a] p) = evalOp I op p [eval I a] := by
  rw [eval_plain I op _ p h1 h2 h3]; rfl

/-- an interpretation exists (to show `spec … < 2^w` for a constant result we evaluate once) -/
def I0 : Interp :=
  { sym := fun s => s.ret.defaultVal, fn := fun f _ => f.ret.defaultVal, dom := fun t => [t.defaultVal],
    div0r := fun _ => 0, div0i := fun _ => 0 }

theorem I0_wf : I0.WF := by
  have hdef : ∀ t : Ty, t.defaultVal.hasSort t = true := by
    intro t
    induction t with
    | bool | int | real | str => rfl
    | bv w => simp [Ty.defaultVal, Val.hasSort, Nat.two_pow_pos]
    | array i e _ ihe => simp [Ty.defaultVal, Val.hasSort, ihe]
    | custom n => simp [Ty.defaultVal, Val.hasSort]
  exact ⟨fun s => hdef _, fun f _ => hdef _, fun t => by simp [I0], fun t v hv => by simp [I0] at hv; subst hv; exact hdef t⟩

/-! ## binary operators of type `bv w × bv w → bv w` -/

/-- the operators built by `Build.bvBin` -/
def IsBin (op : Op) (f : (w : Nat) → BitVec w → BitVec w → BitVec w) : Prop :=
  op.isBvSame = true ∧ op ≠ .symbol ∧ op ≠ .function ∧ op.isQuantifier = false ∧
    (∀ n, op.shapeOK (.ints [n]) 2 = true) ∧
    ∀ (I : Interp) (p : Payload) (x y : Val), evalOp I op p [x, y] = Sem.bv2 f x y

structure Bin (op : Op) (f : (w : Nat) → BitVec w → BitVec w → BitVec w) (a b : Term) (p : Payload) (w : Nat) :
    Prop where
  isBin : IsBin op f
  hwf : (Term.node op [a, b] p).wf = true
  hty : (Term.node op [a, b] p).typeOf = some (.bv w)
  hpw : pw p = w
  wa : a.wf = true
  wb : b.wf = true
  ta : a.typeOf = some (.bv w)
  tb : b.typeOf = some (.bv w)

theorem allAre_two {ta tb : Option Ty} {t : Ty} : allAre [ta, tb] t = true ↔ ta = some t ∧ tb = some t := by
  simp [allAre]

theorem allAre_one {ta : Option Ty} {t : Ty} : allAre [ta] t = true ↔ ta = some t := by
  simp [allAre]

/-- inversion of a well-formed binary node -/
theorem bin_ctx {op : Op} {f} (hb : IsBin op f) (hsh : ∀ (p : Payload) (n : Nat), op.shapeOK p n = true → n = 2)
    {p : Payload} {args : List Term} {τ : Ty}
    (hwf : (Term.node op args p).wf = true) (hty : (Term.node op args p).typeOf = some τ) :
    ∃ a b w, args = [a, b] ∧ τ = .bv w ∧ Bin op f a b p w := by
  have hs := hsh _ _ (wf_shape hwf)
  match args, hs, hwf, hty with
  | [a, b], _, hwf, hty =>
    have hty0 := hty
    rw [typeOf_node, typeOfNode_bvSame op hb.1] at hty
    obtain ⟨w, ws, rfl⟩ : ∃ w ws, p = Payload.ints (w :: ws) := by
      cases p with
      | ints l =>
        cases l with
        | nil => cases hty
        | cons w ws => exact ⟨w, ws, rfl⟩
      | _ => cases hty
    simp only [List.map_cons, List.map_nil] at hty
    obtain ⟨hall, rfl⟩ := of_ite_some hty
    obtain ⟨ha, hb'⟩ := allAre_two.mp hall
    exact ⟨a, b, w, rfl, rfl, ⟨hb, hwf, hty0, rfl, wf_args hwf a (by simp), wf_args hwf b (by simp), ha, hb'⟩⟩

namespace Bin
variable {op : Op} {f : (w : Nat) → BitVec w → BitVec w → BitVec w} {a b : Term} {p : Payload} {w : Nat}

theorem constA (c : Bin op f a b p w) {v : Nat} (h : isBvConst a = some v) : a = Term.bvc v w ∧ v < 2 ^ w :=
  const_of h c.wa c.ta
theorem constB (c : Bin op f a b p w) {v : Nat} (h : isBvConst b = some v) : b = Term.bvc v w ∧ v < 2 ^ w :=
  const_of h c.wb c.tb

theorem ltA (c : Bin op f a b p w) {I : Interp} (hI : I.WF) : bvVal I a < 2 ^ w := (bvVal_spec c.wa c.ta hI).2
theorem ltB (c : Bin op f a b p w) {I : Interp} (hI : I.WF) : bvVal I b < 2 ^ w := (bvVal_spec c.wb c.tb hI).2

theorem widthA (c : Bin op f a b p w) : bvWidth a = w := bvWidth_of c.ta
theorem widthB (c : Bin op f a b p w) : bvWidth b = w := bvWidth_of c.tb

/-- value of the node -/
theorem eval (c : Bin op f a b p w) {I : Interp} (hI : I.WF) :
    eval I (.node op [a, b] p) = .bv w (spec2 f w (bvVal I a) (bvVal I b)) := by
  obtain ⟨_, h1, h2, h3, _, hev⟩ := c.isBin
  rw [eval_args2 I op a b p h1 h2 h3, hev, (bvVal_spec c.wa c.ta hI).1, (bvVal_spec c.wb c.tb hI).1]
  rfl

/-- a constant result -/
theorem const (c : Bin op f a b p w) (v : Nat)
    (h : ∀ I : Interp, I.WF → spec2 f w (bvVal I a) (bvVal I b) = v) :
    Res (.node op [a, b] p) (.bv w) (Term.bvc v w) := by
  refine Res.bvc ?_ (fun I hI => by rw [c.eval hI, h I hI])
  rw [← h I0 I0_wf]; exact spec2_lt _ _ _ _

/-- the first argument as result -/
theorem left (c : Bin op f a b p w)
    (h : ∀ I : Interp, I.WF → spec2 f w (bvVal I a) (bvVal I b) = bvVal I a) :
    Res (.node op [a, b] p) (.bv w) a := by
  obtain ⟨_, h1, h2, h3, _, _⟩ := c.isBin
  refine Res.arg h1 h2 h3 (by simp) c.wa c.ta (fun I hI _ => ?_)
  rw [c.eval hI, h I hI, (bvVal_spec c.wa c.ta hI).1]

/-- the second argument as result -/
theorem right (c : Bin op f a b p w)
    (h : ∀ I : Interp, I.WF → spec2 f w (bvVal I a) (bvVal I b) = bvVal I b) :
    Res (.node op [a, b] p) (.bv w) b := by
  obtain ⟨_, h1, h2, h3, _, _⟩ := c.isBin
  refine Res.arg h1 h2 h3 (by simp) c.wb c.tb (fun I hI _ => ?_)
  rw [c.eval hI, h I hI, (bvVal_spec c.wb c.tb hI).1]

/-- the node rebuilt by its constructor -/
theorem rebuild (c : Bin op f a b p w) : Res (.node op [a, b] p) (.bv w) (bvBin op a b) := by
  obtain ⟨hs, h1, h2, h3, hsh, hev⟩ := c.isBin
  unfold bvBin
  rw [c.widthA]
  refine Res.rebuild h1 h2 h3 c.hwf ?_ (hsh w) (fun I => by simp only [List.map_cons, List.map_nil]; rw [hev, hev])
  rw [typeOf_node, typeOfNode_bvSame op hs]
  simp only [List.map_cons, List.map_nil, c.ta, c.tb]
  rw [if_pos (allAre_two.mpr ⟨rfl, rfl⟩)]

end Bin

/-! ## unary operators of type `bv w → bv w` (`bvNot`, `bvNeg`) -/

def IsUn (op : Op) (f : (w : Nat) → BitVec w → BitVec w) : Prop :=
  op.isBvSame = true ∧ op ≠ .symbol ∧ op ≠ .function ∧ op.isQuantifier = false ∧
    (∀ n, op.shapeOK (.ints [n]) 1 = true) ∧
    ∀ (I : Interp) (p : Payload) (x : Val), evalOp I op p [x] = Sem.bv1 f x

structure Un (op : Op) (f : (w : Nat) → BitVec w → BitVec w) (a : Term) (p : Payload) (w : Nat) : Prop where
  isUn : IsUn op f
  hwf : (Term.node op [a] p).wf = true
  hty : (Term.node op [a] p).typeOf = some (.bv w)
  hpw : pw p = w
  wa : a.wf = true
  ta : a.typeOf = some (.bv w)

theorem un_ctx {op : Op} {f} (hb : IsUn op f) (hsh : ∀ (p : Payload) (n : Nat), op.shapeOK p n = true → n = 1)
    {p : Payload} {args : List Term} {τ : Ty}
    (hwf : (Term.node op args p).wf = true) (hty : (Term.node op args p).typeOf = some τ) :
    ∃ a w, args = [a] ∧ τ = .bv w ∧ Un op f a p w := by
  have hs := hsh _ _ (wf_shape hwf)
  match args, hs, hwf, hty with
  | [a], _, hwf, hty =>
    have hty0 := hty
    rw [typeOf_node, typeOfNode_bvSame op hb.1] at hty
    obtain ⟨w, ws, rfl⟩ : ∃ w ws, p = Payload.ints (w :: ws) := by
      cases p with
      | ints l =>
        cases l with
        | nil => cases hty
        | cons w ws => exact ⟨w, ws, rfl⟩
      | _ => cases hty
    simp only [List.map_cons, List.map_nil] at hty
    obtain ⟨hall, rfl⟩ := of_ite_some hty
    exact ⟨a, w, rfl, rfl, ⟨hb, hwf, hty0, rfl, wf_args hwf a (by simp), allAre_one.mp hall⟩⟩

namespace Un
variable {op : Op} {f : (w : Nat) → BitVec w → BitVec w} {a : Term} {p : Payload} {w : Nat}

theorem constA (c : Un op f a p w) {v : Nat} (h : isBvConst a = some v) : a = Term.bvc v w ∧ v < 2 ^ w :=
  const_of h c.wa c.ta

theorem eval (c : Un op f a p w) {I : Interp} (hI : I.WF) :
    eval I (.node op [a] p) = .bv w (spec1 f w (bvVal I a)) := by
  obtain ⟨_, h1, h2, h3, _, hev⟩ := c.isUn
  rw [eval_args1 I op a p h1 h2 h3, hev, (bvVal_spec c.wa c.ta hI).1]
  rfl

theorem const (c : Un op f a p w) (v : Nat) (h : ∀ I : Interp, I.WF → spec1 f w (bvVal I a) = v) :
    Res (.node op [a] p) (.bv w) (Term.bvc v w) := by
  refine Res.bvc ?_ (fun I hI => by rw [c.eval hI, h I hI])
  rw [← h I0 I0_wf]; exact spec1_lt _ _ _

theorem rebuild (c : Un op f a p w) : Res (.node op [a] p) (.bv w) (bvUn op a) := by
  obtain ⟨hs, h1, h2, h3, hsh, hev⟩ := c.isUn
  unfold bvUn
  rw [bvWidth_of c.ta]
  refine Res.rebuild h1 h2 h3 c.hwf ?_ (hsh w) (fun I => by simp only [List.map_cons, List.map_nil]; rw [hev, hev])
  rw [typeOf_node, typeOfNode_bvSame op hs]
  simp only [List.map_cons, List.map_nil, c.ta]
  rw [if_pos (allAre_one.mpr rfl)]

end Un

end PySMT.Simp.BVRules
