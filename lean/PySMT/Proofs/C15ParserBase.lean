import PySMT.Impl.ParserSession
/-!
# C15, parser objects — the journal of the execution cache (`bind`/`unbind`/`checkpoint`/`rollback`)

`Rel a b P`: state `b` was reached from state `a` by `bind`s and `unbind`s such that the entries `P` that were bound and
not yet unbound lie on top of the untouched entries of `a`, and the journal accounts for them name by name.
`rollback_of_rel`: from such a state, `rollback` (which only looks at the journal) gives back the keys of `a`.
-/
namespace PySMT.ParserSession
open PySMT.Parser

/-- number of entries of the name `n` -/
def cnt (n : String) (P : List (String × Val)) : Nat := (P.map (·.1)).count n

@[simp] theorem cnt_nil (n : String) : cnt n [] = 0 := rfl

theorem cnt_cons (n k : String) (v : Val) (P : List (String × Val)) :
    cnt n ((k, v) :: P) = cnt n P + (if k = n then 1 else 0) := by
  simp only [cnt, List.map_cons, List.count_cons, beq_iff_eq]

theorem cnt_append (n : String) (P Q : List (String × Val)) : cnt n (P ++ Q) = cnt n P + cnt n Q := by
  simp [cnt, List.count_append]

theorem cnt_reverse (n : String) (P : List (String × Val)) : cnt n P.reverse = cnt n P := by
  simp [cnt, List.map_reverse, List.count_reverse]

theorem cnt_pos_iff (n : String) (P : List (String × Val)) : 0 < cnt n P ↔ n ∈ P.map (·.1) := by
  simp only [cnt, List.count_pos_iff]

theorem eq_nil_of_cnt_zero (P : List (String × Val)) (h : ∀ n, cnt n P = 0) : P = [] := by
  cases P with
  | nil => rfl
  | cons e P =>
    have := h e.1
    rw [show e = (e.1, e.2) from rfl, cnt_cons] at this
    simp at this

/-! ## `unbind` on an association list -/

theorem unbind_cons_self (n : String) (v : Val) (K : List (String × Val)) : unbind n ((n, v) :: K) = K := by
  simp [unbind]

theorem unbind_cons_ne {n k : String} (h : k ≠ n) (v : Val) (K : List (String × Val)) :
    unbind n ((k, v) :: K) = (k, v) :: unbind n K := by
  simp [unbind, h]

theorem unbind_append_of_pos (n : String) (P K : List (String × Val)) (h : 0 < cnt n P) :
    unbind n (P ++ K) = unbind n P ++ K := by
  induction P with
  | nil => simp at h
  | cons e P ih =>
    obtain ⟨k, v⟩ := e
    by_cases hk : k = n
    · subst hk; simp [unbind]
    · rw [cnt_cons, if_neg hk] at h
      simp only [List.cons_append, unbind_cons_ne hk, ih h]

theorem cnt_unbind_self (n : String) (P : List (String × Val)) (h : 0 < cnt n P) :
    cnt n (unbind n P) + 1 = cnt n P := by
  induction P with
  | nil => simp at h
  | cons e P ih =>
    obtain ⟨k, v⟩ := e
    by_cases hk : k = n
    · subst hk; simp [unbind, cnt_cons]
    · rw [cnt_cons, if_neg hk] at h
      rw [unbind_cons_ne hk, cnt_cons, cnt_cons, if_neg hk]
      exact ih h

theorem cnt_unbind_ne {m n : String} (hmn : m ≠ n) (P : List (String × Val)) : cnt m (unbind n P) = cnt m P := by
  induction P with
  | nil => rfl
  | cons e P ih =>
    obtain ⟨k, v⟩ := e
    by_cases hk : k = n
    · subst hk
      rw [unbind_cons_self, cnt_cons, if_neg (fun h => hmn h.symm)]; rfl
    · rw [unbind_cons_ne hk, cnt_cons, cnt_cons, ih]

/-! ## `Rel` -/

structure Rel (a b : St) (P : List (String × Val)) : Prop where
  keys : b.keys = P ++ a.keys
  ia : b.intArith = a.intArith
  cnt : ∀ n, b.bound.count n + a.unbound.count n = a.bound.count n + b.unbound.count n + cnt n P

theorem Rel.refl (a : St) : Rel a a [] := ⟨rfl, rfl, fun _ => by simp⟩

theorem Rel.bind {a b : St} {P : List (String × Val)} (h : Rel a b P) (n : String) (v : Val) :
    Rel a (b.bind n v) ((n, v) :: P) := by
  refine ⟨by simp [St.bind, h.keys], h.ia, fun m => ?_⟩
  have := h.cnt m
  simp only [St.bind, List.count_cons, beq_iff_eq, cnt_cons]
  omega

theorem Rel.unbind {a b : St} {P : List (String × Val)} (h : Rel a b P) (n : String) (hn : 0 < ParserSession.cnt n P) :
    Rel a (b.unbind n) (Parser.unbind n P) := by
  refine ⟨by simp [St.unbind, h.keys, unbind_append_of_pos n P a.keys hn], h.ia, fun m => ?_⟩
  have := h.cnt m
  simp only [St.unbind, List.count_cons, beq_iff_eq]
  by_cases hm : n = m
  · subst hm
    have := cnt_unbind_self n P hn
    simp only [if_true]
    omega
  · rw [cnt_unbind_ne (fun h => hm h.symm), if_neg hm]
    omega

theorem Rel.trans {a b c : St} {P Q : List (String × Val)} (h1 : Rel a b P) (h2 : Rel b c Q) : Rel a c (Q ++ P) := by
  refine ⟨by rw [h2.keys, h1.keys, List.append_assoc], h2.ia.trans h1.ia, fun n => ?_⟩
  have := h1.cnt n
  have := h2.cnt n
  rw [cnt_append]
  omega

theorem Rel.setMgr {a b : St} {P : List (String × Val)} (h : Rel a b P) (σ : MgrSt) : Rel a (b.setMgr σ) P :=
  ⟨h.keys, h.ia, h.cnt⟩

theorem Rel.addAnnots {a b : St} {P : List (String × Val)} (h : Rel a b P) (t : Term) (ps : List (String × Option Sexp)) :
    Rel a (b.addAnnots t ps) P :=
  ⟨h.keys, h.ia, h.cnt⟩

/-- the journal at the start is irrelevant for what follows a checkpoint -/
theorem Rel.of_checkpoint {a b : St} {P : List (String × Val)} (h : Rel a.checkpoint b P) :
    b.keys = P ++ a.keys ∧ b.intArith = a.intArith ∧ ∀ n, b.bound.count n = b.unbound.count n + ParserSession.cnt n P := by
  refine ⟨h.keys, h.ia, fun n => ?_⟩
  have := h.cnt n
  simpa [St.checkpoint] using this

theorem Rel.bindAll {a b : St} {P : List (String × Val)} (h : Rel a b P) (bs : List (String × Val)) :
    Rel a (bindAllS bs b) (bs.reverse ++ P) := by
  induction bs generalizing b P with
  | nil => simpa [bindAllS] using h
  | cons e bs ih =>
    have := ih (h.bind e.1 e.2)
    simpa [bindAllS, List.reverse_cons, List.append_assoc] using this

/-- unbinding names each of which has (with multiplicity) an entry above the base: stays above the base, and exactly
those entries are accounted for -/
theorem Rel.unbindAll {a b : St} {P : List (String × Val)} (h : Rel a b P) (ns : List String)
    (hns : ∀ n, ns.count n ≤ ParserSession.cnt n P) :
    ∃ P', Rel a (unbindAllS ns b) P' ∧ ∀ n, ParserSession.cnt n P' + ns.count n = ParserSession.cnt n P := by
  induction ns generalizing b P with
  | nil => exact ⟨P, by simpa [unbindAllS] using h, fun n => by simp⟩
  | cons m ns ih =>
    have hm : 0 < ParserSession.cnt m P := by have := hns m; simp at this; omega
    have h1 := h.unbind m hm
    have hns' : ∀ n, ns.count n ≤ ParserSession.cnt n (Parser.unbind m P) := by
      intro n
      have := hns n
      by_cases hnm : n = m
      · subst hnm
        have := cnt_unbind_self n P hm
        simp at *; omega
      · rw [cnt_unbind_ne hnm]
        simp only [List.count_cons, beq_iff_eq] at this
        rw [if_neg (fun h => hnm h.symm)] at this
        simpa using this
    obtain ⟨P', hr, hc⟩ := ih h1 hns'
    refine ⟨P', by simpa [unbindAllS] using hr, fun n => ?_⟩
    have := hc n
    by_cases hnm : n = m
    · subst hnm
      have := cnt_unbind_self n P hm
      simp; omega
    · rw [cnt_unbind_ne hnm] at this
      simp only [List.count_cons, beq_iff_eq]
      rw [if_neg (fun h => hnm h.symm)]
      simpa using this

/-! ## `rollback` -/

theorem popN_cons_ne {n k : String} (hk : k ≠ n) (v : Val) (c : Nat) (X : List (String × Val)) :
    popN n c ((k, v) :: X) = (k, v) :: popN n c X := by
  induction c generalizing X with
  | zero => rfl
  | succ c ih => simp only [popN, unbind_cons_ne hk, ih]

/-- popping as many entries of `n` as `P` has removes exactly `P`'s -/
theorem popN_cnt (n : String) (P K : List (String × Val)) :
    popN n (cnt n P) (P ++ K) = P.filter (fun e => e.1 != n) ++ K := by
  induction P with
  | nil => simp [popN]
  | cons e P ih =>
    obtain ⟨k, v⟩ := e
    by_cases hk : k = n
    · subst hk
      rw [cnt_cons, if_pos rfl]
      simp only [popN, List.cons_append, unbind_cons_self, ih]
      simp
    · rw [cnt_cons, if_neg hk, Nat.add_zero, List.cons_append, popN_cons_ne hk, ih]
      simp [hk]

theorem cnt_filter_ne {m n : String} (hmn : m ≠ n) (P : List (String × Val)) :
    cnt m (P.filter (fun e => e.1 != n)) = cnt m P := by
  induction P with
  | nil => rfl
  | cons e P ih =>
    obtain ⟨k, v⟩ := e
    by_cases hk : k = n
    · subst hk
      simp only [List.filter_cons, bne_self_eq_false, Bool.false_eq_true, if_false, ih, cnt_cons,
        if_neg (fun h : k = m => hmn h.symm), Nat.add_zero]
    · have : ((k, v).1 != n) = true := by simpa using hk
      simp only [List.filter_cons, this, if_true, cnt_cons, ih]

/-- the loop of `rollback` over distinct names, with counts that are those of `P` -/
theorem foldl_popN (K : List (String × Val)) (c : String → Nat) :
    ∀ (L : List String) (P : List (String × Val)), L.Nodup → (∀ m ∈ L, c m = cnt m P) →
      L.foldl (fun ks m => popN m (c m) ks) (P ++ K) = P.filter (fun e => !L.contains e.1) ++ K := by
  intro L
  induction L with
  | nil =>
    intro P _ _
    simp only [List.foldl_nil, List.contains_nil, Bool.not_false]
    rw [List.filter_eq_self.mpr (fun _ _ => rfl)]
  | cons n L ih =>
    intro P hnd hc
    obtain ⟨hn, hnd'⟩ := List.nodup_cons.mp hnd
    rw [List.foldl_cons, hc n (List.mem_cons_self), popN_cnt, ih _ hnd']
    · congr 1
      rw [List.filter_filter]
      apply List.filter_congr
      intro e _
      by_cases he : e.1 = n
      · simp [he]
      · simp [he, Bool.and_comm]
    · intro m hm
      have hmn : m ≠ n := fun h => hn (h ▸ hm)
      rw [hc m (List.mem_cons_of_mem _ hm), cnt_filter_ne hmn]

theorem nodup_reverse' {α : Type} (l : List α) (h : l.Nodup) : l.reverse.Nodup := by
  unfold List.Nodup at *
  rw [List.pairwise_reverse]
  exact h.imp (fun h => h.symm)

theorem mem_dedupLast (m : String) (l : List String) : m ∈ dedupLast l ↔ m ∈ l := by
  induction l with
  | nil => simp [dedupLast]
  | cons n l ih =>
    simp only [dedupLast]
    split
    · next h =>
      rw [ih]
      simp only [List.mem_cons]
      constructor
      · exact Or.inr
      · rintro (rfl | h')
        · simpa using h
        · exact h'
    · simp [ih]

theorem nodup_dedupLast (l : List String) : (dedupLast l).Nodup := by
  induction l with
  | nil => simp [dedupLast]
  | cons n l ih =>
    simp only [dedupLast]
    split
    · exact ih
    · next h =>
      refine List.nodup_cons.mpr ⟨?_, ih⟩
      rw [mem_dedupLast]
      simpa using h

/-- **`rollback` undoes what the journal records.** -/
theorem rollback_of_rel {a b : St} {P : List (String × Val)} (h : Rel a.checkpoint b P) :
    b.rollback.keys = a.keys ∧ b.rollback.intArith = a.intArith ∧ b.rollback.bound = [] ∧ b.rollback.unbound = [] ∧
      b.rollback.mgr = b.mgr ∧ b.rollback.annots = b.annots := by
  obtain ⟨hk, hia, hc⟩ := h.of_checkpoint
  refine ⟨?_, hia, rfl, rfl, rfl, rfl⟩
  have hpc : ∀ m, pendingCount b m = cnt m P := fun m => by simp [pendingCount, hc m]
  show (journalNames b.bound).foldl (fun ks n => popN n (pendingCount b n) ks) b.keys = a.keys
  rw [hk, foldl_popN a.keys (pendingCount b) _ P]
  · suffices hnil : P.filter (fun e => !(journalNames b.bound).contains e.1) = [] by rw [hnil]; rfl
    rw [List.filter_eq_nil_iff]
    intro e he
    have hpos : 0 < cnt e.1 P := (cnt_pos_iff _ _).mpr (List.mem_map_of_mem he)
    have hb : e.1 ∈ b.bound := by
      have := hc e.1
      exact List.count_pos_iff.mp (by omega)
    simp [journalNames, mem_dedupLast, hb]
  · exact nodup_reverse' _ (nodup_dedupLast _)
  · intro m _; exact hpc m

/-- `rollback` never pops a stack that is empty (`keys[name].pop()` cannot raise) -/
theorem rollback_no_underflow {a b : St} {P : List (String × Val)} (h : Rel a.checkpoint b P) (n : String) :
    pendingCount b n ≤ cnt n b.keys := by
  obtain ⟨hk, _, hc⟩ := h.of_checkpoint
  rw [hk, cnt_append]
  simp [pendingCount, hc n]

end PySMT.ParserSession
