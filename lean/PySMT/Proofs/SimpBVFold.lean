import PySMT.Proofs.SimpBV2
import PySMT.Proofs.SimpBV3
import PySMT.Proofs.SimpBV4
import PySMT.Proofs.SimpBV5
import PySMT.Proofs.SimpFoldDefs
/-!
# Fold completeness of the bit-vector family: every `walk_bv_*` maps constants to a constant
-/
namespace PySMT.Simp.BVRules
open PySMT PySMT.Build PySMT.Simp

/-- a well-formed constant node of type `bv w` is a bit-vector constant -/
theorem const_bv {t : Term} {w : Nat} (hwf : t.wf = true) (hc : IsConst t) (hty : t.typeOf = some (.bv w)) :
    ∃ v, t = Term.bvc v w := by
  cases t with
  | node op args p =>
    have hs := wf_shape hwf
    have hnil : ∀ {l : List Term}, (l.length == 0) = true → l = [] := by
      intro l h; simpa using h
    simp only [IsConst, Term.op] at hc
    rw [typeOf_node] at hty
    cases op <;> simp only [Op.isConstant, Bool.false_eq_true] at hc <;> cases p <;>
      first
      | (cases hs; done)
      | (have := hnil hs; subst this; cases hty; done)
      | (simp only [Op.shapeOK, Bool.and_eq_true] at hs
         have := hnil hs.1; subst this
         cases hty
         exact ⟨_, rfl⟩)

theorem isConstant_bvc (v w : Nat) : isConstant (Term.bvc v w) = true := by
  rw [Term.bvc, isConstant]
  · rfl
  · intro h; cases h

theorem isConst_bvc (v w : Nat) : IsConst (Term.bvc v w) := rfl

/-- both arguments of a binary same-width operator are constants -/
theorem bin_consts {op : Op} {f} {a b : Term} {p : Payload} {w : Nat} (c : Bin op f a b p w)
    (hc : ∀ x ∈ [a, b], IsConst x) : ∃ va vb, a = Term.bvc va w ∧ b = Term.bvc vb w := by
  obtain ⟨va, ha⟩ := const_bv c.wa (hc a (by simp)) c.ta
  obtain ⟨vb, hb⟩ := const_bv c.wb (hc b (by simp)) c.tb
  exact ⟨va, vb, ha, hb⟩

/-- close `IsConst` of a rule applied to constants: unfold, recognise the constants, split -/
local macro "bvfold" : tactic =>
  `(tactic| (repeat' split) <;> first | exact isConst_bvc _ _ | rfl | (simp_all; done))

theorem walkBvAnd_fold : FoldOK .bvAnd walkBvAnd := by
  refine ⟨fun p args τ hwf hty _ hc I _ => ?_⟩
  obtain ⟨a, b, w, rfl, rfl, c⟩ := bin_ctx isBin_and (shape2 fun _ _ => rfl) hwf hty
  obtain ⟨va, vb, rfl, rfl⟩ := bin_consts c hc
  show IsConst (walkBvAnd p [Term.bvc va w, Term.bvc vb w])
  simp only [walkBvAnd, isBvConst_bvc, bv_]
  bvfold

theorem walkBvOr_fold : FoldOK .bvOr walkBvOr := by
  refine ⟨fun p args τ hwf hty _ hc I _ => ?_⟩
  obtain ⟨a, b, w, rfl, rfl, c⟩ := bin_ctx isBin_or (shape2 fun _ _ => rfl) hwf hty
  obtain ⟨va, vb, rfl, rfl⟩ := bin_consts c hc
  show IsConst (walkBvOr p [Term.bvc va w, Term.bvc vb w])
  simp only [walkBvOr, isBvConst_bvc, isConstant_bvc, bv_]
  bvfold

theorem walkBvXor_fold : FoldOK .bvXor walkBvXor := by
  refine ⟨fun p args τ hwf hty _ hc I _ => ?_⟩
  obtain ⟨a, b, w, rfl, rfl, c⟩ := bin_ctx isBin_xor (shape2 fun _ _ => rfl) hwf hty
  obtain ⟨va, vb, rfl, rfl⟩ := bin_consts c hc
  exact isConst_bvc _ _

theorem walkBvAdd_fold : FoldOK .bvAdd walkBvAdd := by
  refine ⟨fun p args τ hwf hty _ hc I _ => ?_⟩
  obtain ⟨a, b, w, rfl, rfl, c⟩ := bin_ctx isBin_add (shape2 fun _ _ => rfl) hwf hty
  obtain ⟨va, vb, rfl, rfl⟩ := bin_consts c hc
  show IsConst (walkBvAdd p [Term.bvc va w, Term.bvc vb w])
  simp only [walkBvAdd, isBvConst_bvc, bv_]
  bvfold

theorem walkBvMul_fold : FoldOK .bvMul walkBvMul := by
  refine ⟨fun p args τ hwf hty _ hc I _ => ?_⟩
  obtain ⟨a, b, w, rfl, rfl, c⟩ := bin_ctx isBin_mul (shape2 fun _ _ => rfl) hwf hty
  obtain ⟨va, vb, rfl, rfl⟩ := bin_consts c hc
  show IsConst (walkBvMul p [Term.bvc va w, Term.bvc vb w])
  simp only [walkBvMul, isBvConst_bvc, bv_]
  bvfold

theorem walkBvSub_fold : FoldOK .bvSub walkBvSub := by
  refine ⟨fun p args τ hwf hty _ hc I _ => ?_⟩
  obtain ⟨a, b, w, rfl, rfl, c⟩ := bin_ctx isBin_sub (shape2 fun _ _ => rfl) hwf hty
  obtain ⟨va, vb, rfl, rfl⟩ := bin_consts c hc
  show IsConst (walkBvSub p [Term.bvc va w, Term.bvc vb w])
  simp only [walkBvSub, isBvConst_bvc, bv_]
  by_cases h0 : vb = 0
  · simp only [h0, if_true]; exact isConst_bvc _ _
  · simp only [h0, if_false]; exact isConst_bvc _ _

theorem walkBvUdiv_fold : FoldOK .bvUdiv walkBvUdiv := by
  refine ⟨fun p args τ hwf hty _ hc I _ => ?_⟩
  obtain ⟨a, b, w, rfl, rfl, c⟩ := bin_ctx isBin_udiv (shape2 fun _ _ => rfl) hwf hty
  obtain ⟨va, vb, rfl, rfl⟩ := bin_consts c hc
  show IsConst (walkBvUdiv p [Term.bvc va w, Term.bvc vb w])
  simp only [walkBvUdiv, isBvConst_bvc, bv_]
  bvfold

theorem walkBvUrem_fold : FoldOK .bvUrem walkBvUrem := by
  refine ⟨fun p args τ hwf hty _ hc I _ => ?_⟩
  obtain ⟨a, b, w, rfl, rfl, c⟩ := bin_ctx isBin_urem (shape2 fun _ _ => rfl) hwf hty
  obtain ⟨va, vb, rfl, rfl⟩ := bin_consts c hc
  show IsConst (walkBvUrem p [Term.bvc va w, Term.bvc vb w])
  simp only [walkBvUrem, isBvConst_bvc, bv_]
  bvfold

theorem walkBvLshl_fold : FoldOK .bvLshl walkBvLshl := by
  refine ⟨fun p args τ hwf hty _ hc I _ => ?_⟩
  obtain ⟨a, b, w, rfl, rfl, c⟩ := bin_ctx isBin_lshl (shape2 fun _ _ => rfl) hwf hty
  obtain ⟨va, vb, rfl, rfl⟩ := bin_consts c hc
  show IsConst (walkBvLshl p [Term.bvc va w, Term.bvc vb w])
  simp only [walkBvLshl, isBvConst_bvc, bv_]
  bvfold

theorem walkBvLshr_fold : FoldOK .bvLshr walkBvLshr := by
  refine ⟨fun p args τ hwf hty _ hc I _ => ?_⟩
  obtain ⟨a, b, w, rfl, rfl, c⟩ := bin_ctx isBin_lshr (shape2 fun _ _ => rfl) hwf hty
  obtain ⟨va, vb, rfl, rfl⟩ := bin_consts c hc
  show IsConst (walkBvLshr p [Term.bvc va w, Term.bvc vb w])
  simp only [walkBvLshr, isBvConst_bvc, bv_]
  bvfold

theorem walkBvNot_fold : FoldOK .bvNot walkBvNot := by
  refine ⟨fun p args τ hwf hty _ hc I _ => ?_⟩
  obtain ⟨a, w, rfl, rfl, c⟩ := un_ctx isUn_not (shape1 fun _ _ => rfl) hwf hty
  obtain ⟨va, rfl⟩ := const_bv c.wa (hc a (by simp)) c.ta
  exact isConst_bvc _ _

theorem walkBvNeg_fold : FoldOK .bvNeg walkBvNeg := by
  refine ⟨fun p args τ hwf hty _ hc I _ => ?_⟩
  obtain ⟨a, w, rfl, rfl, c⟩ := un_ctx isUn_neg (shape1 fun _ _ => rfl) hwf hty
  obtain ⟨va, rfl⟩ := const_bv c.wa (hc a (by simp)) c.ta
  exact isConst_bvc _ _

/-- both arguments of a comparison are constants -/
theorem rel_consts {op : Op} {g} {a b : Term} {p : Payload} {w : Nat} (c : Rel op g a b p w)
    (hc : ∀ x ∈ [a, b], IsConst x) : ∃ va vb, a = Term.bvc va w ∧ b = Term.bvc vb w := by
  obtain ⟨va, ha⟩ := const_bv c.wa (hc a (by simp)) c.ta
  obtain ⟨vb, hb⟩ := const_bv c.wb (hc b (by simp)) c.tb
  exact ⟨va, vb, ha, hb⟩

theorem isConst_boolT (b : Bool) : IsConst (Term.bool b) := rfl

local macro "relfold" : tactic =>
  `(tactic| (repeat' split) <;> first | exact isConst_boolT _ | rfl | (simp_all; done))

theorem walkBvUlt_fold : FoldOK .bvUlt walkBvUlt := by
  refine ⟨fun p args τ hwf hty _ hc I _ => ?_⟩
  obtain ⟨a, b, w, rfl, rfl, c⟩ := rel_ctx isRel_ult hwf hty
  obtain ⟨va, vb, rfl, rfl⟩ := rel_consts c hc
  show IsConst (walkBvUlt p [Term.bvc va w, Term.bvc vb w])
  simp only [walkBvUlt, isBvConst_bvc, bool_]
  relfold

theorem walkBvUle_fold : FoldOK .bvUle walkBvUle := by
  refine ⟨fun p args τ hwf hty _ hc I _ => ?_⟩
  obtain ⟨a, b, w, rfl, rfl, c⟩ := rel_ctx isRel_ule hwf hty
  obtain ⟨va, vb, rfl, rfl⟩ := rel_consts c hc
  show IsConst (walkBvUle p [Term.bvc va w, Term.bvc vb w])
  simp only [walkBvUle, isBvConst_bvc, bool_]
  relfold

theorem walkBvSlt_fold : FoldOK .bvSlt walkBvSlt := by
  refine ⟨fun p args τ hwf hty _ hc I _ => ?_⟩
  obtain ⟨a, b, w, rfl, rfl, c⟩ := rel_ctx isRel_slt hwf hty
  obtain ⟨va, vb, rfl, rfl⟩ := rel_consts c hc
  exact isConst_boolT _

theorem walkBvSle_fold : FoldOK .bvSle walkBvSle := by
  refine ⟨fun p args τ hwf hty _ hc I _ => ?_⟩
  obtain ⟨a, b, w, rfl, rfl, c⟩ := rel_ctx isRel_sle hwf hty
  obtain ⟨va, vb, rfl, rfl⟩ := rel_consts c hc
  exact isConst_boolT _

theorem walkBvComp_fold : FoldOK .bvComp walkBvComp := by
  refine ⟨fun p args τ hwf hty _ hc I _ => ?_⟩
  have hs := wf_shape hwf
  simp only [Op.shapeOK, beq_iff_eq] at hs
  match args, hs, hwf, hty, hc with
  | [a, b], _, hwf, hty, hc =>
    rw [typeOf_node] at hty
    obtain ⟨w, hts, rfl⟩ := typeOfNode_bvComp hty
    simp only [List.map_cons, List.map_nil, List.cons.injEq, and_true] at hts
    obtain ⟨va, rfl⟩ := const_bv (wf_args hwf a (by simp)) (hc a (by simp)) hts.1
    obtain ⟨vb, rfl⟩ := const_bv (wf_args hwf b (by simp)) (hc b (by simp)) hts.2
    show IsConst (walkBvComp p [Term.bvc va w, Term.bvc vb w])
    simp only [walkBvComp, isBvConst_bvc, bv_]
    bvfold

theorem walkBvConcat_fold : FoldOK .bvConcat walkBvConcat := by
  refine ⟨fun p args τ hwf hty _ hc I _ => ?_⟩
  rw [typeOf_node] at hty
  obtain ⟨l, r, hts, rfl⟩ := typeOfNode_bvConcat hty
  obtain ⟨a, b, rfl, ta, tb⟩ := map_typeOf_two hts
  obtain ⟨va, rfl⟩ := const_bv (wf_args hwf a (by simp)) (hc a (by simp)) ta
  obtain ⟨vb, rfl⟩ := const_bv (wf_args hwf b (by simp)) (hc b (by simp)) tb
  exact isConst_bvc _ _

/-- the argument of a unary node is a constant -/
theorem un_const {a : Term} {w : Nat} {op : Op} {p : Payload} (hwf : (Term.node op [a] p).wf = true)
    (ta : a.typeOf = some (.bv w)) (hc : ∀ x ∈ [a], IsConst x) : ∃ v, a = Term.bvc v w :=
  const_bv (wf_args hwf a (by simp)) (hc a (by simp)) ta

theorem walkBvExtract_fold : FoldOK .bvExtract walkBvExtract := by
  refine ⟨fun p args τ hwf hty _ hc I _ => ?_⟩
  rw [typeOf_node] at hty
  obtain ⟨wp, lo, hi, base, rfl, hts, rfl, hsum⟩ := typeOfNode_bvExtract hty
  obtain ⟨a, rfl, ta⟩ := map_typeOf_one hts
  obtain ⟨v, rfl⟩ := un_const hwf ta hc
  exact isConst_bvc _ _

theorem walkBvRor_fold : FoldOK .bvRor walkBvRor := by
  refine ⟨fun p args τ hwf hty _ hc I _ => ?_⟩
  obtain ⟨w, k, a, rfl, rfl, rfl, ta, hk⟩ := rot_inv (Or.inr rfl) hty
  obtain ⟨v, rfl⟩ := un_const hwf ta hc
  exact isConst_bvc _ _

theorem walkBvRol_fold : FoldOK .bvRol walkBvRol := by
  refine ⟨fun p args τ hwf hty _ hc I _ => ?_⟩
  obtain ⟨w, k, a, rfl, rfl, rfl, ta, hk⟩ := rot_inv (Or.inl rfl) hty
  obtain ⟨v, rfl⟩ := un_const hwf ta hc
  exact isConst_bvc _ _

theorem walkBvZext_fold : FoldOK .bvZext { rule := walkBvZext, guard := extGuard } := by
  refine ⟨fun p args τ hwf hty hg hc I _ => ?_⟩
  obtain ⟨k, wa, a, rfl, rfl, rfl, ta⟩ := ext_inv (Or.inl rfl) hty hg
  obtain ⟨v, rfl⟩ := un_const hwf ta hc
  exact isConst_bvc _ _

theorem walkBvSext_fold : FoldOK .bvSext { rule := walkBvSext, guard := extGuard } := by
  refine ⟨fun p args τ hwf hty hg hc I _ => ?_⟩
  obtain ⟨k, wa, a, rfl, rfl, rfl, ta⟩ := ext_inv (Or.inr rfl) hty hg
  obtain ⟨v, rfl⟩ := un_const hwf ta hc
  exact isConst_bvc _ _

theorem walkBvToNatural_fold : FoldOK .bvToNatural walkBvToNatural := by
  refine ⟨fun p args τ hwf hty _ hc I _ => ?_⟩
  have hs := wf_shape hwf
  simp only [Op.shapeOK, beq_iff_eq] at hs
  match args, hs, hwf, hty, hc with
  | [a], _, hwf, hty, hc =>
    rw [typeOf_node] at hty
    obtain ⟨rfl, w, r, hts⟩ := typeOfNode_bvToNatural hty
    simp only [List.map_cons, List.map_nil, List.cons.injEq] at hts
    obtain ⟨v, rfl⟩ := un_const hwf hts.1 hc
    rfl

theorem walkBvSdiv_fold : FoldOK .bvSdiv walkBvSdiv := by
  refine ⟨fun p args τ hwf hty _ hc I _ => ?_⟩
  obtain ⟨a, b, w, rfl, rfl, c⟩ := bin_ctx isBin_sdiv (shape2 fun _ _ => rfl) hwf hty
  obtain ⟨va, vb, rfl, rfl⟩ := bin_consts c hc
  show IsConst (walkBvSdiv p [Term.bvc va w, Term.bvc vb w])
  rw [walkBvSdiv_const]; exact isConst_bvc _ _

theorem walkBvSrem_fold : FoldOK .bvSrem walkBvSrem := by
  refine ⟨fun p args τ hwf hty _ hc I _ => ?_⟩
  obtain ⟨a, b, w, rfl, rfl, c⟩ := bin_ctx isBin_srem (shape2 fun _ _ => rfl) hwf hty
  obtain ⟨va, vb, rfl, rfl⟩ := bin_consts c hc
  show IsConst (walkBvSrem p [Term.bvc va w, Term.bvc vb w])
  rw [walkBvSrem_const]; exact isConst_bvc _ _

theorem walkBvAshr_fold : FoldOK .bvAshr walkBvAshr := by
  refine ⟨fun p args τ hwf hty _ hc I _ => ?_⟩
  obtain ⟨a, b, w, rfl, rfl, c⟩ := bin_ctx isBin_ashr (shape2 fun _ _ => rfl) hwf hty
  obtain ⟨va, vb, rfl, rfl⟩ := bin_consts c hc
  show IsConst (walkBvAshr p [Term.bvc va w, Term.bvc vb w])
  rw [walkBvAshr_const p va vb w c.hpw]; exact isConst_bvc _ _

end PySMT.Simp.BVRules
