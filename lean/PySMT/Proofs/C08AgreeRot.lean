import PySMT.Proofs.C08AgreeFrag
/-!
# C08/C09 agreement: the side condition for `(_ rotate_left k)` / `(_ rotate_right k)`

pySMT's checker refuses a rotation by more than the width of the operand; the standard does not (`rotate_left k` is a
rotation by `k mod m`). `RotOK env sc s` (decidable) says that in the text `s`, read by the standard in the scope `sc`,
every rotation amount is at most the width of its operand. It follows the scopes of `let` and of the binders exactly as
the standard reader does. A text without rotations satisfies it trivially.
-/
namespace PySMT.Parser.Agree
open PySMT PySMT.Parser PySMT.Std PySMT.Sexp

def isRot (f : String) : Bool := f == "rotate_left" || f == "rotate_right"

/-- the head `(_ rotate_x k)` applied to `args`: `k` is at most the width of the operand -/
def rotHeadOK (env : SEnv) (sc : List Binding) (hd args : List Sexp) : Bool :=
  match hd, args with
  | [.atom u, .atom f, .atom k], [x] =>
    if u == "_" && isRot f then
      (match rd env sc x, numeral? k with
       | .ok (_, .bv m), some kk => decide (kk ≤ m)
       | _, _ => true)
    else true
  | _, _ => true

mutual
def RotOK (env : SEnv) : List Binding → Sexp → Bool
  | _, .atom _ => true
  | _, .str _ => true
  | _, .list [] => true
  | sc, .list (.atom hd :: args) =>
    if hd == "let" then rotLet env sc args
    else if hd == "forall" || hd == "exists" then rotQuant env sc args
    else RotOKL env sc args
  | sc, .list (.list hd :: args) => rotHeadOK env sc hd args && RotOKL env sc args
  | _, .list (.str _ :: _) => true
def RotOKL (env : SEnv) : List Binding → List Sexp → Bool
  | _, [] => true
  | sc, s :: r => RotOK env sc s && RotOKL env sc r
def rotLet (env : SEnv) : List Binding → List Sexp → Bool
  | sc, [.list bs, body] =>
    rotBinds env sc bs &&
      (match rdBindings env sc bs with
       | .ok new => RotOK env (new ++ sc) body
       | .error _ => true)
  | _, _ => true
def rotBinds (env : SEnv) : List Binding → List Sexp → Bool
  | _, [] => true
  | sc, b :: rest => rotBind env sc b && rotBinds env sc rest
def rotBind (env : SEnv) : List Binding → Sexp → Bool
  | sc, .list [.atom _, e] => RotOK env sc e
  | _, _ => true
def rotQuant (env : SEnv) : List Binding → List Sexp → Bool
  | sc, [.list vs, body] =>
    (match rdSortedVars env vs with
     | .ok syms => RotOK env (syms.reverse.map Binding.var ++ sc) body
     | .error _ => true)
  | _, _ => true
end

theorem RotOK_app (env : SEnv) (sc : List Binding) (hd : String) (args : List Sexp) (h1 : (hd == "let") = false)
    (h2 : (hd == "forall" || hd == "exists") = false) :
    RotOK env sc (.list (.atom hd :: args)) = RotOKL env sc args := by
  rw [RotOK]; simp only [h1, h2, Bool.false_eq_true, if_false]

theorem RotOK_let (env : SEnv) (sc : List Binding) (args : List Sexp) :
    RotOK env sc (.list (.atom "let" :: args)) = rotLet env sc args := by
  rw [RotOK]; simp only [beq_self_eq_true, if_true]

theorem RotOK_quant (env : SEnv) (sc : List Binding) (q : String) (hq : q = "forall" ∨ q = "exists") (args : List Sexp) :
    RotOK env sc (.list (.atom q :: args)) = rotQuant env sc args := by
  rw [RotOK]
  rcases hq with rfl | rfl <;> simp (config := { decide := true }) only [if_false, if_true]

theorem RotOK_head (env : SEnv) (sc : List Binding) (hd args : List Sexp) :
    RotOK env sc (.list (.list hd :: args)) = (rotHeadOK env sc hd args && RotOKL env sc args) := by
  rw [RotOK]

theorem RotOKL_cons (env : SEnv) (sc : List Binding) (s : Sexp) (r : List Sexp) :
    RotOKL env sc (s :: r) = (RotOK env sc s && RotOKL env sc r) := by rw [RotOKL]

theorem rotLet_eq (env : SEnv) (sc : List Binding) (bs : List Sexp) (body : Sexp) :
    rotLet env sc [.list bs, body] =
      (rotBinds env sc bs &&
        (match rdBindings env sc bs with
         | .ok new => RotOK env (new ++ sc) body
         | .error _ => true)) := by rw [rotLet]

theorem rotBinds_cons (env : SEnv) (sc : List Binding) (x : String) (e : Sexp) (rest : List Sexp) :
    rotBinds env sc (.list [.atom x, e] :: rest) = (RotOK env sc e && rotBinds env sc rest) := by
  rw [rotBinds, rotBind]

theorem rotQuant_eq (env : SEnv) (sc : List Binding) (vs : List Sexp) (body : Sexp) :
    rotQuant env sc [.list vs, body] =
      (match rdSortedVars env vs with
       | .ok syms => RotOK env (syms.reverse.map Binding.var ++ sc) body
       | .error _ => true) := by rw [rotQuant]

end PySMT.Parser.Agree
