import PySMT.Proofs.C05Id
/-!
# C05 — function interpretations (`interp_lemma`)

`handlerOf false ι` (the environment's default `MGSubstituter` instantiates the bodies) satisfies
the three hypotheses of `substG_sem` when the interpretations are well-formed (`IMapOK`).
-/
namespace PySMT.Subst
open PySMT.Build PySMT.SubstSpec

/-! ## `dict(zip(formals, actuals))` for distinct formals -/

theorem sym_injective : ∀ {a b : Sym}, Term.sym a = Term.sym b → a = b := by
  intro a b e
  simp only [Term.sym, Term.node.injEq, Payload.sym.injEq, true_and] at e
  exact e

theorem zip_sym_toTMap : ∀ (formals : List Sym) (as : List Term),
    (formals.map Term.sym).zip as = SMap.toTMap (formals.zip as)
  | [], _ => rfl
  | _ :: _, [] => rfl
  | s :: ss, a :: as => by
    simp only [List.map_cons, List.zip_cons_cons, SMap.toTMap]
    congr 1
    exact zip_sym_toTMap ss as

theorem mem_zip_keys {α β} : ∀ (l : List α) (r : List β) (k : α), k ∈ (l.zip r).map Prod.fst → k ∈ l
  | [], _, _, h => by simp at h
  | _ :: _, [], _, h => by simp at h
  | a :: l, b :: r, k, h => by
    simp only [List.zip_cons_cons, List.map_cons, List.mem_cons] at h ⊢
    rcases h with h | h
    · exact .inl h
    · exact .inr (mem_zip_keys l r k h)

theorem nodup_zip_keys : ∀ (formals : List Sym) (as : List Term), formals.Nodup →
    (((formals.map Term.sym).zip as).map Prod.fst).Nodup
  | [], _, _ => by simp
  | _ :: _, [], _ => by simp
  | s :: ss, a :: as, h => by
    simp only [List.nodup_cons] at h
    simp only [List.map_cons, List.zip_cons_cons, List.nodup_cons]
    refine ⟨?_, nodup_zip_keys ss as h.2⟩
    intro hm
    have := mem_zip_keys _ _ _ hm
    simp only [List.mem_map] at this
    obtain ⟨s', hs', e⟩ := this
    exact h.1 (sym_injective e ▸ hs')

theorem interpret_eq (envMs : Bool) (fi : FunInterp) (as : List Term) (hnd : fi.formals.Nodup) :
    interpret envMs fi as = substG envMs noInterp (SMap.toTMap (fi.formals.zip as)) fi.body := by
  unfold interpret
  rw [pyDict_nodup _ (nodup_zip_keys _ _ hnd), zip_sym_toTMap]

/-! ## quantifier-free terms have nothing to capture -/

theorem isQF_node {op : Op} {args : List Term} {p : Payload} (h : (Term.node op args p).isQF = true) :
    op.isQuantifier = false ∧ ∀ a ∈ args, a.isQF = true := by
  unfold Term.isQF at h
  rw [Term.subterms] at h
  simp only [List.all_cons, Bool.and_eq_true, Bool.not_eq_true', Term.op, List.all_eq_true, List.mem_flatten,
    List.mem_map] at h
  refine ⟨h.1, fun a ha => ?_⟩
  unfold Term.isQF
  simp only [List.all_eq_true, Bool.not_eq_true']
  intro s hs
  exact h.2 s ⟨a.subterms, ⟨a, ha, rfl⟩, hs⟩

theorem NoCapture_of_qf (σ : SMap) : (t : Term) → t.isQF = true → NoCapture σ t = true
  | .node op args p, h => by
    obtain ⟨hq, hch⟩ := isQF_node h
    rw [NoCapture_nq σ args p hq]
    simp only [List.all_eq_true, List.mem_map, id]
    rintro _ ⟨a, ha, rfl⟩
    exact NoCapture_of_qf σ a (hch a ha)

/-! ## well-formed interpretations -/

/-- a function interpretation `f(formals) = body` that the interpretation lemma covers: well-formed,
normal, closed, quantifier-free body of the return type; distinct formal parameters of the parameter types -/
structure FiOK (f : Sym) (fi : FunInterp) : Prop where
  wf     : fi.body.wf = true
  norm   : normal fi.body = true
  arr    : ConstKeys fi.body = true
  ty     : fi.body.typeOf = some f.ret
  sig    : fi.formals.map (·.ret) = f.params
  vars   : ∀ s ∈ fi.formals, s.params = []
  nodup  : fi.formals.Nodup
  closed : ∀ y ∈ fi.body.fv, y ∈ fi.formals
  nofn   : fi.body.fnames = []
  qf     : fi.body.isQF = true

def IMapOK (ι : IMap) : Prop := ∀ f fi, ι.get f = some fi → FiOK f fi

theorem zip_types : ∀ (formals : List Sym) (as : List Term),
    as.map Term.typeOf = (formals.map (·.ret)).map some → ∀ kv ∈ formals.zip as, kv.2.typeOf = some kv.1.ret
  | [], _, _, _, h => by simp at h
  | _ :: _, [], _, _, h => by simp at h
  | s :: ss, a :: as, hty, kv, h => by
    simp only [List.map_cons, List.cons.injEq] at hty
    simp only [List.zip_cons_cons, List.mem_cons] at h
    rcases h with rfl | h
    · exact hty.1
    · exact zip_types ss as hty.2 kv h

theorem smapOK_zip {f : Sym} {fi : FunInterp} (hfi : FiOK f fi) {as : List Term}
    (hwf : ∀ a ∈ as, a.wf = true) (hty : as.map Term.typeOf = f.params.map some) :
    SMapOK (fi.formals.zip as) := by
  intro kv hkv
  have h1 := List.of_mem_zip hkv
  exact ⟨hfi.vars _ h1.1, hwf _ h1.2, zip_types _ _ (by rw [hfi.sig]; exact hty) kv hkv⟩

theorem handlerOf_typed (envMs : Bool) {ι : IMap} (hι : IMapOK ι) : HandlerTyped (handlerOf envMs ι) := by
  intro f as r hr hwt hty
  unfold handlerOf at hr
  cases hg : ι.get f with
  | none => rw [hg] at hr; cases hr
  | some fi =>
    rw [hg] at hr
    simp only [Option.map_some, Option.some.injEq] at hr
    subst hr
    have hfi := hι f fi hg
    rw [interpret_eq envMs fi as hfi.nodup]
    have hσ : TyMap (SMap.toTMap (fi.formals.zip as)) := by
      intro kv hkv
      simp only [SMap.toTMap, List.mem_map] at hkv
      obtain ⟨q, hq, rfl⟩ := hkv
      have h1 := List.of_mem_zip hq
      refine ⟨hwt _ h1.2, ?_⟩
      rw [zip_types _ _ (by rw [hfi.sig]; exact hty) q hq]
      exact (typeOf_sym_of_ok (hfi.vars _ h1.1)).symm
    have := substG_type envMs noInterp_typed fi.body _ hσ (Term.wf_wt _ hfi.wf) hfi.norm
    exact ⟨this.1, by rw [this.2]; exact hfi.ty⟩

theorem handlerOf_wf (envMs : Bool) {ι : IMap} (hι : IMapOK ι) : HandlerWf (handlerOf envMs ι) := by
  intro f as r hr hwf hty
  unfold handlerOf at hr
  cases hg : ι.get f with
  | none => rw [hg] at hr; cases hr
  | some fi =>
    rw [hg] at hr
    simp only [Option.map_some, Option.some.injEq] at hr
    subst hr
    have hfi := hι f fi hg
    rw [interpret_eq envMs fi as hfi.nodup]
    exact substG_wf envMs noInterp_typed noInterp_wf fi.body _ (smapOK_zip hfi hwf hty).wfMap hfi.wf hfi.norm

theorem find_defsOf : ∀ (ι : IMap) (f : Sym),
    ((defsOf ι).find? (fun fd => fd.1 == f)).map (·.2) = (ι.get f).map (fun fi => (⟨fi.formals, fi.body⟩ : Def))
  | [], _ => rfl
  | (g, fi) :: rest, f => by
    unfold defsOf
    by_cases hg : g = f
    · subst hg; simp [IMap.get]
    · have : (g == f) = false := by simp [hg]
      simp only [List.map_cons, List.find?, this, IMap.get, hg, if_false]
      exact find_defsOf rest f

theorem get_mem_defs : ∀ {ι : IMap} {fd : Sym × Def}, fd ∈ defsOf ι →
    ∃ g fi, (g, fi) ∈ ι ∧ fd = (g, ⟨fi.formals, fi.body⟩) := by
  intro ι fd h
  simp only [defsOf, List.mem_map] at h
  obtain ⟨q, hq, rfl⟩ := h
  exact ⟨q.1, q.2, hq, rfl⟩

/-- every entry of the map satisfies `FiOK` (also the shadowed ones) -/
def IMapOKAll (ι : IMap) : Prop := ∀ gf ∈ ι, FiOK gf.1 gf.2

theorem IMapOKAll.ok {ι : IMap} (h : IMapOKAll ι) : IMapOK ι := by
  intro f fi hg
  have : (f, fi) ∈ ι := by
    induction ι with
    | nil => cases hg
    | cons q rest ih =>
      obtain ⟨g, fi'⟩ := q
      unfold IMap.get at hg
      by_cases hgf : g = f
      · subst hgf; simp only [if_true, Option.some.injEq] at hg; subst hg; simp
      · simp only [hgf, if_false] at hg
        exact List.mem_cons_of_mem _ (ih (fun gf hm => h gf (List.mem_cons_of_mem _ hm)) hg)
  exact h _ this

theorem defsClosed_of {ι : IMap} (hι : IMapOKAll ι) : DefsClosed (defsOf ι) := by
  intro fd hfd
  obtain ⟨g, fi, hm, rfl⟩ := get_mem_defs hfd
  have := hι _ hm
  exact ⟨this.closed, this.nofn⟩

/-- the value of the instantiated body: binding the formals to the values of the actuals -/
theorem updSyms_zip_bindMany (J K : Interp) : ∀ (formals : List Sym) (as : List Term), formals.Nodup →
    formals.length = as.length → ∀ y ∈ formals,
      (match SMap.get (formals.zip as) y with | some u => eval J u | none => J.sym y) =
        (K.bindMany (formals.zip (as.map (eval J)))).sym y
  | [], _, _, _, _, h => by cases h
  | s :: ss, [], _, hl, _, _ => by simp at hl
  | s :: ss, a :: as, hnd, hl, y, hy => by
    simp only [List.nodup_cons] at hnd
    simp only [List.zip_cons_cons, List.map_cons, SMap.get, Interp.bindMany]
    by_cases hsy : s = y
    · subst hsy
      simp only [if_true]
      rw [bindMany_sym_not_mem]
      · simp [Interp.bind]
      · intro hm
        exact hnd.1 (mem_zip_keys _ _ _ hm)
    · simp only [hsy, if_false]
      have hy' : y ∈ ss := by
        simp only [List.mem_cons] at hy
        rcases hy with h | h
        · exact absurd h.symm hsy
        · exact h
      exact updSyms_zip_bindMany J _ ss as hnd.2 (by simpa using hl) y hy'

/-- under an `MSSubstituter` default the instantiation of a body is most-specific: it is safe when no
formal parameter is of sort Bool (then no actual argument `Not(b)` has a formal parameter as `b`) -/
def NoBoolFormals (ι : IMap) : Prop := ∀ gf ∈ ι, ∀ s ∈ gf.2.formals, s.ret ≠ .bool

theorem get_mem_imap : ∀ {ι : IMap} {f : Sym} {fi : FunInterp}, ι.get f = some fi → (f, fi) ∈ ι
  | (g, fi') :: rest, f, fi, hg => by
    unfold IMap.get at hg
    by_cases hgf : g = f
    · subst hgf; simp only [if_true, Option.some.injEq] at hg; subst hg; simp
    · simp only [hgf, if_false] at hg
      exact List.mem_cons_of_mem _ (get_mem_imap hg)

theorem msSafe_zip {formals : List Sym} {as : List Term} (hnb : ∀ s ∈ formals, s.ret ≠ .bool)
    (hwf : ∀ a ∈ as, a.wf = true) : MSSafe (formals.zip as) := by
  intro kv hkv b pl e
  by_cases hb : ∃ y, b = Term.sym y
  · obtain ⟨y, rfl⟩ := hb
    rw [lookup_toTMap_sym]
    cases hg : SMap.get (formals.zip as) y with
    | none => rfl
    | some u =>
      exfalso
      have hy : y ∈ formals := (List.of_mem_zip (get_mem hg)).1
      have hnwf : (Term.node .not [Term.sym y] pl).wf = true := by rw [← e]; exact hwf _ (List.of_mem_zip hkv).2
      have h2 := Build.wt_tyNode (Term.wf_wt _ hnwf)
      simp only [C05T.tyNode, List.map_cons, List.map_nil] at h2
      have hty : Build.tyOf (Term.sym y) = .bool :=
        Build.allAre_cons_some (x := Build.tyOf (Term.sym y)) (rest := []) (t := .bool) (by split at h2 <;> simp_all)
      have hywf : (Term.sym y).wf = true := (Term.wf_node.mp hnwf).1 _ (by simp)
      have h3 := Build.typeOf_of_tyOf (Term.wf_wt _ hywf) hty
      have hw := Term.wt_typeOf (op := .symbol) (args := []) (p := .sym y) (Term.wf_wt _ hywf)
      obtain ⟨_, s, hs, hpar⟩ := typeOfNode_symbol hw
      have hys : y = s := by simpa using hs
      subst hys
      rw [typeOf_sym_of_ok hpar] at h3
      exact hnb y hy (Option.some.inj h3)
  · exact lookup_toTMap_ne _ _ (fun x ex => hb ⟨x, ex⟩)

theorem hsem_handlerOf (envMs : Bool) {ι : IMap} (hι : IMapOKAll ι) (henv : envMs = true → NoBoolFormals ι) :
    HSem (handlerOf envMs ι) (defsOf ι) := by
  constructor
  · intro f as h
    rw [find_defsOf]
    unfold handlerOf at h
    cases hg : ι.get f with
    | none => rfl
    | some fi => rw [hg] at h; cases h
  · intro f as r J hJ hr hwf hty
    unfold handlerOf at hr
    cases hg : ι.get f with
    | none => rw [hg] at hr; cases hr
    | some fi =>
      rw [hg] at hr
      simp only [Option.map_some, Option.some.injEq] at hr
      subst hr
      have hfi := hι.ok f fi hg
      have hlen : fi.formals.length = as.length := by
        have h1 := congrArg List.length hty
        have h2 := congrArg List.length hfi.sig
        simp only [List.length_map] at h1 h2
        omega
      rw [interpret_eq envMs fi as hfi.nodup]
      rw [subst_sem envMs fi.body (fi.formals.zip as) J hJ hfi.wf hfi.norm hfi.arr (smapOK_zip hfi hwf hty)
        (NoCapture_of_qf _ _ hfi.qf)
        (fun e => msSafe_zip (henv e (f, fi) (get_mem_imap hg)) hwf)]
      simp only [updFns, find_defsOf, hg, Option.map_some, List.length_map, hlen, if_true]
      apply coincidence_gen
      refine ⟨?_, ?_, ?_, ?_, ?_⟩
      · intro y hy
        exact updSyms_zip_bindMany J J fi.formals as hfi.nodup hlen y (hfi.closed y hy)
      · rw [hfi.nofn]; intro s hs; cases hs
      · rw [bindMany_dom]; rfl
      · rw [bindMany_div0r]; rfl
      · rw [bindMany_div0i]; rfl

/-- **Interpretation lemma** (together with a symbol-keyed substitution): the value of the result is
the value of the original with the replaced symbols updated and every interpreted function symbol
read as its body. `MGSubstituter`; either environment default. -/
theorem subst_interp_sem (envMs : Bool) {ι : IMap} (hι : IMapOKAll ι) (henv : envMs = true → NoBoolFormals ι)
    (t : Term) (σ : SMap) (I : Interp) (hI : I.WF)
    (hwf : t.wf = true) (hn : normal t = true) (ha : ConstKeys t = true) (hσ : SMapOK σ)
    (hnc : NoCapture σ t = true) :
    eval I (substG false (handlerOf envMs ι) σ.toTMap t) = eval (upd I σ (defsOf ι)) t :=
  substG_sem false (defsClosed_of hι) (handlerOf_typed envMs hι.ok) (handlerOf_wf envMs hι.ok)
    (hsem_handlerOf envMs hι henv) (fun e => by cases e) t σ I hI hwf hn ha hσ hnc (fun e => by cases e)

/-- with the empty map the two strategies compute the same term -/
theorem substG_nil_ms (h : FnHandler) : (t : Term) → substG true h [] t = substG false h [] t
  | .node op args p => by
    have hb : bodyMap ([] : TMap) op p = [] := by
      unfold bodyMap; split <;> rfl
    have ih : args.map (substG true h []) = args.map (substG false h []) :=
      List.map_congr_left (fun a _ => substG_nil_ms h a)
    rw [substG, substG, hb, ih]
    simp only [lookup, if_true, Bool.false_eq_true, if_false]

theorem NoCapture_nil : (t : Term) → NoCapture [] t = true
  | .node op args p => by
    have ih : ∀ a ∈ args, NoCapture [] a = true := fun a _ => NoCapture_nil a
    rw [NoCapture.eq_def]
    simp only
    split
    · next vs _ =>
      have : SMap.drop [] vs = ([] : SMap) := rfl
      simp only [this, List.all_nil, Bool.true_and, List.all_eq_true, List.mem_map, id]
      rintro _ ⟨a, ha, rfl⟩
      exact ih a ha
    · simp only [List.all_eq_true, List.mem_map, id]
      rintro _ ⟨a, ha, rfl⟩
      exact ih a ha

/-- the interpretation lemma for `MSSubstituter` (no substitution map) -/
theorem subst_interp_sem_ms (envMs : Bool) {ι : IMap} (hι : IMapOKAll ι) (henv : envMs = true → NoBoolFormals ι)
    (t : Term) (I : Interp) (hI : I.WF) (hwf : t.wf = true) (hn : normal t = true) (ha : ConstKeys t = true) :
    eval I (substG true (handlerOf envMs ι) [] t) = eval (updFns I (defsOf ι)) t := by
  rw [substG_nil_ms]
  have hnc : NoCapture [] t = true := NoCapture_nil t
  exact subst_interp_sem envMs hι henv t [] I hI hwf hn ha (fun _ h => by cases h) hnc

end PySMT.Subst
