import PySMT.Impl.Parser
import PySMT.Spec.SmtlibText
/-!
# C08: the regenerated operator table against the standard reader

For every entry of `Gen.ParserOps.table` (the dict literal `self.interpreted` of `parser.py`) the parser model and the
standard reader `Std.applyTheory` are run on *symbolic sample arguments* of every sort the symbol accepts (declared
constants, so that no constructor normalisation fires); both must produce the very same term. A token mapped to another
constructor (`bvsdiv ↦ BVSRem`), to swapped arguments (`bvugt ↦ BVULT` unswapped), or a renamed manager method breaks the
`decide`. Explicit exclusions: `knownNonStd` (tokens that are not SMT-LIB: known findings / legacy spellings) and
`semanticOnly` (same meaning, different term: checked by S on every run).
-/
namespace PySMT.Parser.Table
open PySMT.Gen.ParserOps PySMT.Std

abbrev TT := Term × Ty

def v (n : String) (t : Ty) : TT := (Term.var n t, t)

def p := v "p" .bool
def q := v "q" .bool
def r := v "r" .bool
def x := v "x" .int
def y := v "y" .int
def z := v "z" .int
def u := v "u" .real
def w := v "w" .real
def a := v "a" (.bv 8)
def b := v "b" (.bv 8)
def c := v "c" (.bv 4)
def s := v "s" .str
def t := v "t" .str
def m := v "m" (.array .int .int)

/-- sample argument lists for a token -/
def samples (name : String) : List (List TT) :=
  if name == "not" then [[p]]
  else if ["and", "or"].contains name then [[p, q], [p, q, r]]
  else if ["=>", "xor"].contains name then [[p, q]]
  else if name == "ite" then [[p, q, r], [p, x, y], [p, a, b], [p, u, w]]
  else if name == "=" then [[p, q], [x, y], [u, w], [a, b], [s, t], [m, m]]
  else if name == "distinct" then [[x, y], [p, q], [x, y, z], [a, b]]
  else if ["+", "*"].contains name then [[x, y], [x, y, z], [u, w]]
  else if name == "-" then [[x, y], [u, w]]
  else if name == "/" then [[u, w]]
  else if ["<", "<=", ">", ">="].contains name then [[x, y], [u, w]]
  else if name == "to_real" then [[x]]
  else if ["bvnot", "bvneg", "bv2nat"].contains name then [[a], [c]]
  else if ["bvand", "bvor", "bvxor", "bvadd", "bvsub", "bvmul", "bvudiv", "bvurem", "bvsdiv", "bvsrem", "bvshl", "bvlshr",
           "bvashr", "bvnand", "bvnor", "bvxnor", "bvcomp", "bvult", "bvule", "bvugt", "bvuge", "bvslt", "bvsle", "bvsgt",
           "bvsge"].contains name then [[a, b]]
  else if name == "concat" then [[a, c], [c, a]]
  else if name == "select" then [[m, x]]
  else if name == "store" then [[m, x, y]]
  else if name == "str.len" then [[s]]
  else if name == "str.++" then [[s, t], [s, t, s]]
  else if ["str.contains", "str.prefixof", "str.suffixof"].contains name then [[s, t]]
  else if name == "str.at" then [[s, x]]
  else if name == "str.indexof" then [[s, t, x]]
  else if name == "str.replace" then [[s, t, s]]
  else if name == "str.substr" then [[s, x, y]]
  else []

/-- tokens of the table that SMT-LIB does not have (F11-style spellings, `pow`, the legacy `<->`) -/
def knownNonStd : List String := ["pow", "<->", "str.to.int", "int.to.str"]

/-- same meaning, different term (pySMT's own encoding of `bvsmod`): compared semantically by S -/
def semanticOnly : List String := ["bvsmod"]

def handlerTokens : List String := ["let", "!", "exists", "forall", "_", "as"]

def agree (f : Fn) (name : String) (args : List TT) : Bool :=
  match applyFn f (args.map (fun a => Val.term a.1)), applyTheory name args with
  | .ok (.term t), .ok (t', ty) => t == t' && t.typeOf == some ty
  | _, _ => false

def checkEntry (e : String × Entry) : Bool :=
  match fnOfEntry e.2 with
  | none => handlerTokens.contains e.1
  | some f => !(samples e.1).isEmpty && (samples e.1).all (agree f e.1)

def excluded (name : String) : Bool := knownNonStd.contains name || semanticOnly.contains name

/-- The constructor the standard prescribes for each theory symbol, written from the SMT-LIB theory files and the
meaning of the manager's constructors (C06): `mgr X` = apply `FormulaManager.X` as is, `fixReal X` = the same with the
Reals_Ints sugar (an integer literal may stand for a real one), `special` = unary/binary minus, constant-folding `/`,
`=` that is `iff` on Bool. -/
def expected : List (String × Entry) := [
  ("not", .mgr "Not"), ("and", .mgr "And"), ("or", .mgr "Or"), ("xor", .mgr "Xor"), ("=>", .mgr "Implies"),
  ("ite", .fixReal "Ite"), ("=", .special "_equals_or_iff"), ("distinct", .fixReal "AllDifferent"),
  ("+", .fixReal "Plus"), ("-", .special "_minus_or_uminus"), ("*", .fixReal "Times"), ("/", .special "_division"),
  ("<", .fixReal "LT"), ("<=", .fixReal "LE"), (">", .fixReal "GT"), (">=", .fixReal "GE"), ("to_real", .mgr "ToReal"),
  ("concat", .mgr "BVConcat"), ("bvnot", .mgr "BVNot"), ("bvneg", .mgr "BVNeg"), ("bvand", .mgr "BVAnd"),
  ("bvor", .mgr "BVOr"), ("bvxor", .mgr "BVXor"), ("bvadd", .mgr "BVAdd"), ("bvsub", .mgr "BVSub"),
  ("bvmul", .mgr "BVMul"), ("bvudiv", .mgr "BVUDiv"), ("bvurem", .mgr "BVURem"), ("bvshl", .mgr "BVLShl"),
  ("bvlshr", .mgr "BVLShr"), ("bvult", .mgr "BVULT"),
  ("bvnand", .mgr "BVNand"), ("bvnor", .mgr "BVNor"), ("bvxnor", .mgr "BVXnor"), ("bvcomp", .mgr "BVComp"),
  ("bvsdiv", .mgr "BVSDiv"), ("bvsrem", .mgr "BVSRem"), ("bvsmod", .mgr "BVSMod"), ("bvashr", .mgr "BVAShr"),
  ("bvule", .mgr "BVULE"), ("bvugt", .mgr "BVUGT"), ("bvuge", .mgr "BVUGE"), ("bvslt", .mgr "BVSLT"),
  ("bvsle", .mgr "BVSLE"), ("bvsgt", .mgr "BVSGT"), ("bvsge", .mgr "BVSGE"), ("bv2nat", .mgr "BVToNatural"),
  ("str.len", .mgr "StrLength"), ("str.++", .mgr "StrConcat"), ("str.at", .mgr "StrCharAt"),
  ("str.contains", .mgr "StrContains"), ("str.indexof", .mgr "StrIndexOf"), ("str.replace", .mgr "StrReplace"),
  ("str.substr", .mgr "StrSubstr"), ("str.prefixof", .mgr "StrPrefixOf"), ("str.suffixof", .mgr "StrSuffixOf"),
  ("select", .mgr "Select"), ("store", .mgr "Store"),
  ("let", .handler "_enter_let"), ("!", .handler "_enter_annotation"), ("exists", .handler "_enter_quantifier"),
  ("forall", .handler "_enter_quantifier"), ("_", .handler "_smtlib_underscore"), ("as", .handler "_enter_smtlib_as")]

def expectedOf (name : String) : Option Entry := (expected.find? (fun e => e.1 == name)).map (·.2)

/-- every token of the regenerated table is bound to the constructor the standard prescribes (minus the explicit,
known exclusions `knownNonStd`) -/
theorem table_std :
    table.all (fun e => knownNonStd.contains e.1 || expectedOf e.1 == some e.2) = true := by decide

/-- every expected token is a theory symbol or reserved word of the standard reader, and every sampled one is read by
`Std.applyTheory` (so `expected` cannot name something the standard does not have) -/
theorem expected_std :
    expected.all (fun e => theorySymbols.contains e.1 || handlerTokens.contains e.1) = true := by decide

/-- the entries whose symbolic samples are *not* read to the very same term by the model and by `Std.applyTheory`
(evaluated by `#guard` at every build: must be `[]`; `Term.typeOf` is defined by well-founded recursion, which the
kernel does not unfold, so this table-wide agreement is checked by evaluation, not by `decide`) -/
def disagreeing : List String :=
  (table.filter (fun e => !(excluded e.1 || checkEntry e))).map (·.1)

-- build-time evaluation (compiled code, not a kernel proof): no entry of the regenerated table disagrees
#guard disagreeing.isEmpty

/-- the exclusions are real: these tokens are not theory symbols of the standard reader -/
theorem knownNonStd_not_std :
    knownNonStd.all (fun n => !(theorySymbols.contains n)) = true := by decide

/-- no token is excluded silently: every exclusion is in the table -/
theorem exclusions_in_table :
    (knownNonStd ++ semanticOnly).all (fun n => table.any (fun e => e.1 == n)) = true := by decide

/-- the handled commands are exactly the modelled ones plus the OMT extension and the two unimplemented ones -/
theorem commands_covered :
    commands.all (fun e =>
      ["set-logic", "set-info", "set-option", "get-info", "get-option", "echo", "push", "pop", "declare-sort",
       "define-sort", "declare-fun", "declare-const", "define-fun", "assert", "get-value", "check-sat-assuming",
       "define-fun-rec", "define-funs-rec"].contains e.1 || noArgCommands.contains e.1 || omtCommands.contains e.1)
      = true := by decide

end PySMT.Parser.Table
