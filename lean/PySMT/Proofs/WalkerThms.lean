import PySMT.Proofs.WalkerWalk

/-! The theorems on `walk` that the property files C14, C15, C20 cite. -/

namespace PySMT.Walker
set_option linter.unusedSectionVars false
set_option linter.unusedSimpArgs false

section
variable {M N R E : Type} [DecidableEq N] [MemoLike M N R] [LawfulMemo M N R]

/-- the walker is idle and its memo is correct and closed under children -/
structure Idle (g : Graph N) (d : N → Bool) (f0 : N → List R → Except E R) (s : WState M N) : Prop where
  closed : Closed g d f0 s.memo
  stack : s.stack = []

/-- `V` lists (at least) the nodes below `n` -/
def Covers (g : Graph N) (d : N → Bool) (n : N) (V : List N) : Prop := ∀ x, Desc g d n x → x ∈ V

theorem idle_init (g : Graph N) (d : N → Bool) (f0 : N → List R → Except E R) :
    Idle g d f0 (WState.init : WState M N) := ⟨closed_empty g d f0, rfl⟩

theorem desc_memo (g : Graph N) (d : N → Bool) (m : M) (hd : DownClosed g d m) (n x : N)
    (h : Desc g d n x) (hn : (look m n).isSome) : (look m x).isSome := by
  induction h with
  | refl n => exact hn
  | step n c x hc _ ih => exact ih (hd n hn c hc)

theorem walk_idle (g : Graph N) (d : N → Bool) (f : List N → N → List R → Except E R) (f0 : N → List R → Except E R)
    (hf : Refines f f0) (inval shortcut : Bool) (fuel : Nat) (n : N) (s : WState M N) (hi : Idle g d f0 s) :
    Idle g d f0 (walk g d f inval shortcut fuel n s).2 :=
  let h := walk_post g d f f0 hf inval shortcut fuel n s hi.closed hi.stack
  ⟨h.2, h.1⟩

theorem fuel_ok (g : Graph N) (d : N → Bool) (n : N) (m : M) (V vis : List N) (hV : Covers g d n V)
    (vnd : vis.Nodup) (vfr : ∀ x ∈ vis, look m x = none ∧ Desc g d n x) : cost g vis ≤ cost g V :=
  cost_le g vis V vnd (fun x hx => hV x (vfr x hx).2)

/-- **walk_correct**: from an idle walker, with enough iteration budget, `walk` returns exactly the outcome of the
    recursive specification (the value, or the error of the first failing callback in the walker's order). -/
theorem walk_correct (g : Graph N) (d : N → Bool) (f0 : N → List R → Except E R) (inval shortcut : Bool)
    (fuel : Nat) (n : N) (s : WState M N) (hi : Idle g d f0 s) (V : List N) (hV : Covers g d n V)
    (hfuel : 2 * cost g V + 2 ≤ fuel) :
    (walk g d (fun _ => f0) inval shortcut fuel n s).1 = ofSpec (spec g d f0 n) := by
  cases h : (if shortcut then look s.memo n else none) with
  | some r =>
    have : walk g d (fun _ => f0) inval shortcut fuel n s = (.ok r, s) := by unfold walk; rw [h]
    rw [this]
    cases shortcut
    · simp at h
    · simp at h; rw [hi.closed.ok n r h]; rfl
  | none =>
    rw [walk_miss g d _ inval shortcut fuel n s hi.stack h]
    obtain ⟨j, new, vis, nd, fr, vnd, vfr, b, o⟩ := walk_run g d f0 n s hi.closed
    have hj : j ≤ fuel := by have := fuel_ok g d n s.memo V vis hV vnd vfr; omega
    rcases o with ⟨r, m', p', hsp, _, hit, _, hl, _, _⟩ | ⟨e, s', hsp, hit, _⟩
    · rw [iter_mono_run hit rfl fuel hj, hsp]
      simp [finish, hl, ofSpec]
    · rw [iter_mono_fail hit fuel hj, hsp]
      simp [finish, ofSpec]

/-- **walk_memo_indep** (C14): the outcome of a walk does not depend on the memo the walker starts with, i.e. on
    which other formulas were walked before. -/
theorem walk_memo_indep (g : Graph N) (d : N → Bool) (f0 : N → List R → Except E R) (inval shortcut : Bool)
    (fuel : Nat) (n : N) (s1 s2 : WState M N) (h1 : Idle g d f0 s1) (h2 : Idle g d f0 s2) (V : List N)
    (hV : Covers g d n V) (hfuel : 2 * cost g V + 2 ≤ fuel) :
    (walk g d (fun _ => f0) inval shortcut fuel n s1).1 = (walk g d (fun _ => f0) inval shortcut fuel n s2).1 := by
  rw [walk_correct g d f0 inval shortcut fuel n s1 h1 V hV hfuel,
      walk_correct g d f0 inval shortcut fuel n s2 h2 V hV hfuel]

/-- **repeat_same** (C14): repeating a call gives the same outcome; when the memo is kept and keyed by the formula,
    the second call does no work at all (it returns the memoised object). -/
theorem repeat_same (g : Graph N) (d : N → Bool) (f0 : N → List R → Except E R) (inval shortcut : Bool)
    (fuel : Nat) (n : N) (s : WState M N) (hi : Idle g d f0 s) (V : List N) (hV : Covers g d n V)
    (hfuel : 2 * cost g V + 2 ≤ fuel) :
    let r1 := walk g d (fun _ => f0) inval shortcut fuel n s
    let r2 := walk g d (fun _ => f0) inval shortcut fuel n r1.2
    r2.1 = r1.1 ∧ (inval = false → shortcut = true → (∃ r, r1.1 = .ok r) → r2.2 = r1.2) := by
  intro r1 r2
  have hi1 : Idle g d f0 r1.2 := walk_idle g d _ f0 (refines_pure f0) inval shortcut fuel n s hi
  refine ⟨?_, ?_⟩
  · show (walk g d (fun _ => f0) inval shortcut fuel n r1.2).1 = (walk g d (fun _ => f0) inval shortcut fuel n s).1
    rw [walk_correct g d f0 inval shortcut fuel n r1.2 hi1 V hV hfuel,
        walk_correct g d f0 inval shortcut fuel n s hi V hV hfuel]
  · intro hinv hsc ⟨r, hr⟩
    subst hinv; subst hsc
    -- the first call left `n` memoised
    have hmem : ∃ r', look r1.2.memo n = some r' := by
      cases h : look s.memo n with
      | some r' =>
        have : r1 = (.ok r', s) := walk_hit g d _ false fuel n s r' h
        rw [this]; exact ⟨r', h⟩
      | none =>
        have hw : r1 = finish false n (iter g d (fun _ => f0) fuel (root n s)) :=
          walk_miss g d _ false true fuel n s hi.stack (by simp [h])
        have hr' : (finish false n (iter g d (fun _ => f0) fuel (root n s))).1 = WOut.ok r := by rw [← hw]; exact hr
        rw [hw, finish_state]
        unfold finish at hr'
        cases hit : iter g d (fun _ => f0) fuel (root n s) with
        | fail e s2 => rw [hit] at hr'; cases hr'
        | run s2 =>
          rw [hit] at hr'
          simp only [] at hr'
          cases hst : s2.stack with
          | cons _ _ => rw [hst] at hr'; cases hr'
          | nil =>
            rw [hst] at hr'; simp only [] at hr'
            cases hl : look s2.memo n with
            | none => rw [hl] at hr'; cases hr'
            | some r' => exact ⟨r', by simp [Res.state, cleanup, hl]⟩
    obtain ⟨r', hr'⟩ := hmem
    show (walk g d (fun _ => f0) false true fuel n r1.2).2 = r1.2
    rw [walk_hit g d _ false fuel n r1.2 r' hr']

/-- **calls_eq_distinct** (C20): a successful walk invokes the callback exactly once on every node below `n` that was
    not memoised before, and on nothing else (`trace` lists the invocations). -/
theorem calls_eq_distinct (g : Graph N) (d : N → Bool) (f0 : N → List R → Except E R) (inval shortcut : Bool)
    (fuel : Nat) (n : N) (s : WState M N) (hi : Idle g d f0 s) (V : List N) (hV : Covers g d n V)
    (hfuel : 2 * cost g V + 2 ≤ fuel) (r : R) (hok : spec g d f0 n = .ok r) :
    ∃ new, (walk g d (fun _ => f0) inval shortcut fuel n s).2.trace = new ++ s.trace ∧ new.Nodup ∧
      (∀ x, x ∈ new ↔ (Desc g d n x ∧ look s.memo x = none)) ∧
      (walk g d (fun _ => f0) inval shortcut fuel n s).2.calls = s.calls + new.length := by
  cases h : (if shortcut then look s.memo n else none) with
  | some r' =>
    have : walk g d (fun _ => f0) inval shortcut fuel n s = (.ok r', s) := by unfold walk; rw [h]
    rw [this]
    refine ⟨[], rfl, List.nodup_nil, ?_, rfl⟩
    intro x
    simp only [List.not_mem_nil, false_iff, not_and]
    intro hdx hx
    have hn : (look s.memo n).isSome := by
      cases shortcut
      · simp at h
      · simp at h; simp [h]
    have := desc_memo g d s.memo hi.closed.down n x hdx hn
    rw [hx] at this; cases this
  | none =>
    rw [walk_miss g d _ inval shortcut fuel n s hi.stack h, finish_state]
    obtain ⟨j, new, vis, nd, fr, vnd, vfr, b, o⟩ := walk_run g d f0 n s hi.closed
    have hj : j ≤ fuel := by have := fuel_ok g d n s.memo V vis hV vnd vfr; omega
    rcases o with ⟨r', m', p', hsp, _, hit, _, hl, hcl, dom⟩ | ⟨e, s', hsp, _, _⟩
    · rw [iter_mono_run hit rfl fuel hj]
      refine ⟨new, by simp [Res.state, cleanup], nd, ?_, by simp [Res.state, cleanup, WState.calls]; omega⟩
      intro x
      constructor
      · intro hx; exact ⟨(fr x hx).2, (fr x hx).1⟩
      · rintro ⟨hdx, hx⟩
        have := desc_memo g d m' hcl.down n x hdx (by simp [hl])
        rcases (dom x).mp this with h' | h'
        · rw [hx] at h'; cases h'
        · exact h'
    · rw [hsp] at hok; cases hok

/-- **steps_le_2E** (C20): whatever the outcome, a walk performs at most `2·E + 2` loop iterations and `2·E + 2`
    pushes, `E` = number of edges leaving the nodes below `n` (any duplicate-free or not list `V` covering them). -/
theorem steps_le_2E (g : Graph N) (d : N → Bool) (f0 : N → List R → Except E R) (inval shortcut : Bool)
    (fuel : Nat) (n : N) (s : WState M N) (hi : Idle g d f0 s) (V : List N) (hV : Covers g d n V)
    (hfuel : 2 * cost g V + 2 ≤ fuel) :
    (walk g d (fun _ => f0) inval shortcut fuel n s).2.iters ≤ s.iters + (2 * cost g V + 2) ∧
    (walk g d (fun _ => f0) inval shortcut fuel n s).2.pushes ≤ s.pushes + (2 * cost g V + 2) := by
  cases h : (if shortcut then look s.memo n else none) with
  | some r' =>
    have : walk g d (fun _ => f0) inval shortcut fuel n s = (.ok r', s) := by unfold walk; rw [h]
    rw [this]; exact ⟨Nat.le_add_right _ _, Nat.le_add_right _ _⟩
  | none =>
    rw [walk_miss g d _ inval shortcut fuel n s hi.stack h, finish_state]
    obtain ⟨j, new, vis, nd, fr, vnd, vfr, b, o⟩ := walk_run g d f0 n s hi.closed
    have hc := fuel_ok g d n s.memo V vis hV vnd vfr
    have hj : j ≤ fuel := by omega
    rcases o with ⟨r', m', p', hsp, hv, hit, hp, _, _, _⟩ | ⟨e, s', hsp, hit, hp⟩
    · subst hv
      rw [iter_mono_run hit rfl fuel hj]
      simp only [Res.state, cleanup]
      exact ⟨by omega, by omega⟩
    · rw [iter_mono_fail hit fuel hj]
      simp only [Res.state, cleanup]
      have := (iter_inv g d _ f0 (refines_pure f0) j (root n s) hi.closed (stackOK_root d n)).2.2.2.2.1
      rw [hit] at this
      simp only [Res.state, root] at this
      exact ⟨by omega, by omega⟩

/-- **no_recursion** (C20): `walk` is the iteration of `step` (`walk_miss`); the only storage that grows is the
    explicit work stack, and at every moment of the loop its length is at most `2·E + 2`. -/
theorem stack_bound (g : Graph N) (d : N → Bool) (f0 : N → List R → Except E R) (n : N) (s : WState M N)
    (hi : Idle g d f0 s) (V : List N) (hV : Covers g d n V) (i : Nat) :
    (iter g d (fun _ => f0) i (root n s)).state.stack.length ≤ 2 * cost g V + 2 := by
  obtain ⟨j, new, vis, nd, fr, vnd, vfr, b, o⟩ := walk_run g d f0 n s hi.closed
  have hc := fuel_ok g d n s.memo V vis hV vnd vfr
  have hinv := iter_inv g d _ f0 (refines_pure f0) i (root n s) hi.closed (stackOK_root d n)
  obtain ⟨_, _, hpot, _, _, hmono⟩ := hinv
  -- pushes after `i` iterations are bounded by the pushes of the whole run
  have hp : (iter g d (fun _ => f0) i (root n s)).state.pushes ≤ s.pushes + 2 + 2 * cost g vis := by
    rcases o with ⟨r', m', p', _, hv, hit, hp, _, _, _⟩ | ⟨e, s', _, hit, hp⟩
    · subst hv
      by_cases hij : i ≤ j
      · obtain ⟨c, rfl⟩ := Nat.exists_eq_add_of_le hij
        have := iter_pushes_mono g d _ f0 (refines_pure f0) i c (root n s) hi.closed (stackOK_root d n)
        rw [hit] at this
        have hle : (iter g d (fun _ => f0) i (root n s)).state.pushes ≤ p' := this
        omega
      · rw [iter_mono_run hit rfl i (by omega)]; simp only [Res.state]; omega
    · by_cases hij : i ≤ j
      · obtain ⟨c, rfl⟩ := Nat.exists_eq_add_of_le hij
        have := iter_pushes_mono g d _ f0 (refines_pure f0) i c (root n s) hi.closed (stackOK_root d n)
        rw [hit] at this
        have hle : (iter g d (fun _ => f0) i (root n s)).state.pushes ≤ s'.pushes := this
        omega
      · rw [iter_mono_fail hit i (by omega)]; simp only [Res.state]; omega
  have h1 : (root n s).stack.length = 1 := rfl
  have h2 : (root n s).pushes = s.pushes + 1 := rfl
  have h3 : (root n s).iters = s.iters := rfl
  omega

end
end PySMT.Walker
