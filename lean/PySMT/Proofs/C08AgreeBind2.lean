import PySMT.Proofs.C08AgreeBind
/-!
# C08/C09 agreement: the steps for quantifiers and `let`
-/
namespace PySMT.Parser.Agree
open PySMT PySMT.Parser PySMT.Std PySMT.Sexp

/-! ## quantifiers -/

theorem rdVal_quant (Γ : PEnv) (lone : Bool) (q : String) (hq : q = "forall" ∨ q = "exists") (rest : List Sexp) :
    rdVal Γ lone (.list (.atom q :: rest)) = rdQuantForm Γ (q == "forall") rest := by
  rcases hq with rfl | rfl
  · have hp : pyTok "forall" = "forall" := by decide
    have ht : tableLookup "forall" = some (.handler "_enter_quantifier") := by decide
    rw [rdVal]
    simp only [hp, ht]
    simp (config := { decide := true }) only [if_false, if_true]
  · have hp : pyTok "exists" = "exists" := by decide
    have ht : tableLookup "exists" = some (.handler "_enter_quantifier") := by decide
    rw [rdVal]
    simp only [hp, ht]
    simp (config := { decide := true }) only [if_false, if_true]

theorem rd_quant (env : SEnv) (sc : List Binding) (q : String) (hq : q = "forall" ∨ q = "exists") (rest : List Sexp) :
    rd env sc (.list (.atom q :: rest)) = rdQuant env sc (q == "forall") rest := by
  rcases hq with rfl | rfl
  · have e : ("forall" == "forall") = true := by decide
    rw [rd, e]; simp (config := { decide := true }) only [if_false, if_true]
  · have e : ("exists" == "forall") = false := by decide
    rw [rd, e]; simp (config := { decide := true }) only [if_false, if_true]

theorem agree_quant (env : SEnv) (ρ : List (String × Sym)) (q : String) (hq : q = "forall" ∨ q = "exists")
    (vs : List Sexp) (body : Sexp) (hv : fragVars env ρ vs = true) (hB : AgreeAt env ρ body) :
    AgreeAt env ρ (.list [.atom q, .list vs, body]) := by
  intro sc Γ lone hc hm hro u τ h
  rw [RotOK_quant env sc q hq, rotQuant_eq] at hro
  rw [rd_quant env sc q hq, rdQuant] at h
  cases hsv : rdSortedVars env vs with
  | error e => simp [hsv] at h
  | ok syms =>
    simp only [hsv] at h
    split at h
    · cases h
    · rename_i hne
      split at h
      · cases h
      · cases hb : rd env (syms.reverse.map Binding.var ++ sc) body with
        | error e => simp only [hb] at h; cases h
        | ok r =>
          obtain ⟨b, ty⟩ := r
          simp only [hb] at h
          split at h
          · rename_i hty
            have hty' : ty = .bool := by simpa using hty
            subst hty'
            simp only [Except.ok.injEq, Prod.mk.injEq] at h
            obtain ⟨rfl, rfl⟩ := h
            obtain ⟨Γ', hqb, hc', hm'⟩ := quantBinds_agree env ρ vs hv sc Γ [] hc hm syms hsv
            simp only [hsv] at hro
            obtain ⟨σ', hbody, hm'', htok⟩ := hB _ Γ' false hc' hm' hro b .bool hb
            have hvne : ∃ v vs', vs = v :: vs' := by
              cases vs with
              | nil => simp [rdSortedVars] at hsv; subst hsv; simp at hne
              | cons v vs' => exact ⟨v, vs', rfl⟩
            obtain ⟨v, vs', rfl⟩ := hvne
            have hop : (if (q == "forall") = true then Op.forall_ else Op.exists_) = .forall_ ∨
                (if (q == "forall") = true then Op.forall_ else Op.exists_) = .exists_ := by
              split
              · exact Or.inl rfl
              · exact Or.inr rfl
            generalize hopq : (if (q == "forall") = true then Op.forall_ else Op.exists_) = op at hop ⊢
            have hty : typeOfNode op (.qvars syms) ([mkNorm b].map Term.typeOf) = some .bool := by
              simp only [List.map_cons, List.map_nil, htok.ty]
              rcases hop with rfl | rfl <;> rfl
            have hn : mkNorm (.node op [b] (.qvars syms)) = .node op [mkNorm b] (.qvars syms) := by
              rw [mkNorm_plain _ _ _ (by rcases hop with rfl | rfl <;> decide) (by rcases hop with rfl | rfl <;> decide)
                (by rcases hop with rfl | rfl <;> decide)]; rfl
            rw [hn]
            refine ⟨σ', ?_, hm'', tok_node hty (wf1 htok.wf) (by rcases hop with rfl | rfl <;> rfl) nobw_bool⟩
            rw [rdVal_quant Γ lone q hq, rdQuantForm]
            simp only [List.nil_append, List.reverse_nil] at hqb
            simp only [hqb, hbody]
            have hemp : syms.isEmpty = false := by simpa using hne
            have hmk : (if (q == "forall") = true then Mk.ForAll else Mk.Exists) syms (mkNorm b) =
                .ok (.node op [mkNorm b] (.qvars syms)) := by
              rcases hq with rfl | rfl
              · have : op = .forall_ := by rw [← hopq]; rfl
                subst this
                simp only [beq_self_eq_true, if_true, Mk.ForAll, hemp, Bool.false_eq_true, if_false, create_ok hty]
              · have : op = .exists_ := by rw [← hopq]; rfl
                subst this
                have : ("exists" == "forall") = false := by decide
                simp only [this, Bool.false_eq_true, if_false, Mk.Exists, hemp, create_ok hty]
            rw [hmk]; rfl
          · cases h

end PySMT.Parser.Agree
