import PySMT.Proofs.C18Multi
/-!
# C18, part 6: more fuel never changes a finished run; termination of `boxed` and `lexicographic`
-/
namespace PySMT.Opt
open PySMT.OptSpec

section
variable {M : Type} {A : M → Prop} {val : Nat → M → Val} {obj : Nat → M → Int} {o : Oracle M}

/-- one iteration of the search loop: a final answer or the next state -/
def stepLoop (o : Oracle M) (obj : Nat → M → Int) (mx : Mixin) (strat : Strat) (g : Goal) (gi : Nat)
    (extra : List Constraint) (iv : Interval) (best : M) (s : Solver M) :
    Sum (Outcome M × Solver M) (Interval × M × Solver M) :=
  if iv.empty then .inl (.done best, s) else
  match cutBound strat g iv with
  | (_, none) => .inl (.castErr g.dom none, s)
  | (iv1, some b) =>
    if castOk g.dom b then
      match checkProgress o mx strat extra (some (.atom ⟨gi, g.dom, strictCmp g, b⟩)) s with
      | (some m, s1) => .inr (searchIsSat g iv1 (obj gi m), m, s1)
      | (none, s1) => .inr (searchIsUnsat g iv1, best, s1)
    else .inl (.castErr g.dom (some b), s)

theorem searchLoop_succ (mx : Mixin) (strat : Strat) (g : Goal) (gi : Nat) (extra : List Constraint)
    (n : Nat) (iv : Interval) (best : M) (s : Solver M) :
    searchLoop o obj mx strat g gi extra (n + 1) iv best s =
      match stepLoop o obj mx strat g gi extra iv best s with
      | .inl r => r
      | .inr (iv', b', s') => searchLoop o obj mx strat g gi extra n iv' b' s' := by
  rw [searchLoop]
  unfold stepLoop
  cases he : iv.empty
  · simp only [Bool.false_eq_true, if_false]
    cases hcb : cutBound strat g iv with
    | mk iv1 ob =>
    cases ob with
    | none => rfl
    | some b =>
      simp only
      cases hc : castOk g.dom b
      · simp only [Bool.false_eq_true, if_false]
      · simp only [if_true]
        cases hr : checkProgress o mx strat extra (some (.atom ⟨gi, g.dom, strictCmp g, b⟩)) s with
        | mk r s1 => cases r <;> rfl
  · simp only [if_true]

theorem searchLoop_mono (mx : Mixin) (strat : Strat) (g : Goal) (gi : Nat) (extra : List Constraint) :
    ∀ (n : Nat) (iv : Interval) (best : M) (s : Solver M),
      (searchLoop o obj mx strat g gi extra n iv best s).1 ≠ .fuel →
      searchLoop o obj mx strat g gi extra (n + 1) iv best s = searchLoop o obj mx strat g gi extra n iv best s := by
  intro n
  induction n with
  | zero => intro iv best s h; exact absurd rfl h
  | succ n ih =>
    intro iv best s h
    rw [searchLoop_succ] at h
    rw [searchLoop_succ, searchLoop_succ (n := n)]
    cases hs : stepLoop o obj mx strat g gi extra iv best s with
    | inl r => rfl
    | inr x =>
      obtain ⟨iv', b', s'⟩ := x
      rw [hs] at h
      exact ih iv' b' s' h

theorem optimize_mono (mx : Mixin) (strat : Strat) (g : Goal) (gi : Nat) (extra : List Constraint)
    (n : Nat) (s : Solver M) (h : (optimize o obj mx strat g gi extra n s).1 ≠ .fuel) :
    optimize o obj mx strat g gi extra (n + 1) s = optimize o obj mx strat g gi extra n s := by
  unfold optimize at h ⊢
  simp only at h ⊢
  split
  · rfl
  · split
    · rfl
    · split
      · rfl
      · rename_i m s1 hc
        simp only [*] at h
        have hne : (searchLoop o obj mx strat g gi extra n (searchIsSat g (Interval.init g) (obj gi m)) m s1).1 ≠ .fuel := by
          intro hf
          apply h
          cases hl : searchLoop o obj mx strat g gi extra n (searchIsSat g (Interval.init g) (obj gi m)) m s1 with
          | mk out s2 =>
          rw [hl] at hf
          simp only at hf
          subst hf
          rfl
        rw [searchLoop_mono mx strat g gi extra n _ m s1 hne]

/-- a fuel-indexed run that has finished at `N` and does not change with more fuel -/
def Stable {α : Type} (f : Nat → Outcome α × Solver M) (N : Nat) : Prop :=
  (f N).1 ≠ .fuel ∧ ∀ n, n ≥ N → f n = f N

theorem optimize_stable_of (mx : Mixin) (strat : Strat) (g : Goal) (gi : Nat) (extra : List Constraint)
    (s : Solver M) (N : Nat) (h : (optimize o obj mx strat g gi extra N s).1 ≠ .fuel) :
    Stable (fun n => optimize o obj mx strat g gi extra n s) N := by
  refine ⟨h, ?_⟩
  intro n hge
  obtain ⟨k, rfl⟩ : ∃ k, n = N + k := ⟨n - N, by omega⟩
  induction k with
  | zero => rfl
  | succ k ih =>
    have := ih (by omega)
    simp only at this ⊢
    rw [← Nat.add_assoc, optimize_mono mx strat g gi extra (N + k) s (by rw [this]; exact h), this]

/-- the optimum of goal `p` over `S` is attained whenever `S` is inhabited -/
def Attained (obj : Nat → M → Int) (S : M → Prop) (p : Nat × Goal) : Prop :=
  (∃ m, S m) → ∃ mo, ∀ m, S m → sg p.2 (obj p.1 mo) ≤ sg p.2 (obj p.1 m)

theorem attained_of {S : M → Prop} {p : Nat × Goal}
    (h : (∃ m, S m) → OptimumAttained (sense p.2.dir) S (obj p.1)) : Attained obj S p := by
  intro hex
  obtain ⟨c, ⟨mo, _, hc⟩, hopt⟩ := h hex
  exact ⟨mo, fun m hm => by rw [hc]; exact (sense_le p.2 _ _).1 (hopt m hm)⟩

theorem optimize_stable (hO : OracleSpec A val o) {g : Goal} {gi : Nat} (hsup : g.supported = true)
    (hG : GoalReads A val obj g gi)
    (mx : Mixin) (strat : Strat) (extra : List Constraint) (s : Solver M)
    (hatt : Attained obj (Feas A val s.stack (effExtra mx extra)) (gi, g)) :
    ∃ N, Stable (fun n => optimize o obj mx strat g gi extra n s) N := by
  obtain ⟨N, hN⟩ := optimize_terminates (gi := gi) hO hsup hG mx strat extra s hatt
  exact ⟨N, optimize_stable_of mx strat g gi extra s N (hN N (Nat.le_refl _))⟩

def boxedK (gi : Nat) (m : M) (c : Int) (r : Outcome (Option (List (Nat × M × Int))) × Solver M) :
    Outcome (Option (List (Nat × M × Int))) × Solver M :=
  match r with
  | (.done (some l), s2) => (.done (some ((gi, m, c) :: l)), s2)
  | r => r

def boxedF (gi : Nat) (run : Solver M → Outcome (Option (List (Nat × M × Int))) × Solver M)
    (r1 : Outcome (Option (M × Int)) × Solver M) : Outcome (Option (List (Nat × M × Int))) × Solver M :=
  match r1 with
  | (.done none, s1) => (.done none, s1)
  | (.done (some (m, c)), s1) => boxedK gi m c (run s1)
  | (e, s1) => (e.cast none, s1)

theorem boxed_cons (mx : Mixin) (strat : Strat) (n : Nat) (gi : Nat) (g : Goal) (rest : List (Nat × Goal))
    (s : Solver M) :
    boxed o obj mx strat n ((gi, g) :: rest) s =
      boxedF gi (boxed o obj mx strat n rest) (optimize o obj mx strat g gi [] n s) := by
  rw [boxed]
  cases h : optimize o obj mx strat g gi [] n s with
  | mk out s1 =>
  cases out with
  | done r =>
    cases r with
    | none => rfl
    | some mc =>
      obtain ⟨m, c⟩ := mc
      simp only [boxedF, boxedK]
      cases h2 : boxed o obj mx strat n rest s1 with
      | mk out2 s2 =>
      cases out2 with
      | done r2 => cases r2 <;> rfl
      | fuel => rfl
      | castErr d v => rfl
      | keyErr => rfl
      | emptyGoals => rfl
  | fuel => rfl
  | castErr d v => rfl
  | keyErr => rfl
  | emptyGoals => rfl

theorem boxedK_fuel (gi : Nat) (m : M) (c : Int) (r : Outcome (Option (List (Nat × M × Int))) × Solver M)
    (h : r.1 ≠ .fuel) : (boxedK gi m c r).1 ≠ .fuel := by
  obtain ⟨out, s2⟩ := r
  cases out with
  | done r2 => cases r2 <;> simp [boxedK]
  | fuel => exact absurd rfl h
  | castErr d v => simp [boxedK]
  | keyErr => simp [boxedK]
  | emptyGoals => simp [boxedK]

/-- `boxed_optimize` terminates when every goal's optimum is attained -/
theorem boxed_stable (hO : OracleSpec A val o) (mx : Mixin) (strat : Strat) :
    ∀ (goals : List (Nat × Goal)) (s : Solver M), GoalsOk A val obj goals →
      (∀ p ∈ goals, Attained obj (Feas A val s.stack []) p) →
      ∃ N, Stable (fun n => boxed o obj mx strat n goals s) N := by
  intro goals
  induction goals with
  | nil => intro s _ _; exact ⟨0, by simp [boxed], fun n _ => by simp [boxed]⟩
  | cons p rest ih =>
    intro s hok hatt
    obtain ⟨gi, g⟩ := p
    have hp := hok (gi, g) (by simp)
    obtain ⟨N1, hN1, hst1⟩ := optimize_stable (gi := gi) hO hp.1 hp.2 mx strat [] s (by
      rw [effExtra_nil]; exact hatt (gi, g) (by simp))
    have hspec := optimize_spec (gi := gi) hO hp.1 hp.2 mx strat [] N1 s
    rw [effExtra_nil] at hspec
    simp only at hN1 hst1
    cases hr : optimize o obj mx strat g gi [] N1 s with
    | mk out s1 =>
    rw [hr] at hspec hN1 hst1
    rcases hspec with hfu | ⟨res, hres, e1, _, _, _, _⟩
    · exact absurd hfu hN1
    · simp only at hres e1
      subst hres
      cases res with
      | none =>
        refine ⟨N1, ?_, ?_⟩
        · simp only [boxed_cons, hr, boxedF]; simp
        · intro n hge
          simp only [boxed_cons, hst1 n hge, hr, boxedF]
      | some mc =>
        obtain ⟨m, c⟩ := mc
        obtain ⟨N2, hN2, hst2⟩ := ih s1 (fun q hq => hok q (by simp [hq])) (by
          intro q hq; rw [e1]; exact hatt q (by simp [hq]))
        simp only at hN2 hst2
        refine ⟨max N1 N2, ?_, ?_⟩
        · simp only [boxed_cons, hst1 _ (Nat.le_max_left N1 N2), hst2 _ (Nat.le_max_right N1 N2), boxedF]
          exact boxedK_fuel gi m c _ hN2
        · intro n hge
          have h1 : n ≥ N1 := Nat.le_trans (Nat.le_max_left N1 N2) hge
          have h2 : n ≥ N2 := Nat.le_trans (Nat.le_max_right N1 N2) hge
          simp only [boxed_cons, hst1 n h1, hst2 n h2, hst1 _ (Nat.le_max_left N1 N2),
            hst2 _ (Nat.le_max_right N1 N2), boxedF]

/-! ### lexicographic -/

theorem Attained_congr {S S' : M → Prop} (h : ∀ m, S m ↔ S' m) (p : Nat × Goal) :
    Attained obj S p → Attained obj S' p := by
  intro ha ⟨m, hm⟩
  obtain ⟨mo, hmo⟩ := ha ⟨m, (h m).2 hm⟩
  exact ⟨mo, fun m' hm' => hmo m' ((h m').2 hm')⟩

theorem lexStep_stable (hO : OracleSpec A val o) {g : Goal} {gi : Nat} (hsup : g.supported = true)
    (hG : GoalReads A val obj g gi)
    (mx : Mixin) (strat : Strat) (cd : List Constraint) (s : Solver M)
    (hatt : Attained obj (Feas A val s.stack cd) (gi, g)) :
    ∃ N, Stable (fun n => lexStep o obj mx strat g gi cd n s) N := by
  cases mx with
  | sua => exact optimize_stable hO hsup hG .sua strat cd s hatt
  | incr =>
    obtain ⟨a1, _, _⟩ := addAll_props s.push cd
    obtain ⟨N, hN, hst⟩ := optimize_stable (gi := gi) hO hsup hG .incr strat [] (s.push.addAll cd) (by
      simp only [effExtra]
      have hst : (s.push.addAll cd).stack = s.stack ++ cd := by rw [a1]; rfl
      rw [hst]
      exact Attained_congr (fun m => (Feas_append (A := A) (val := val) s.stack cd m).symm) _ hatt)
    refine ⟨N, ?_, ?_⟩
    · simp only [lexStep]; exact hN
    · intro n hge
      simp only [lexStep]
      simp only at hst
      rw [hst n hge]

def lexF (gi : Nat) (gdom : Dom) (vals : List Int) (cd : List Constraint)
    (run : List Constraint → M → List Int → Solver M → Outcome (Option (M × List Int)) × Solver M)
    (r1 : Outcome (Option (M × Int)) × Solver M) : Outcome (Option (M × List Int)) × Solver M :=
  match r1 with
  | (.done none, s1) => (.done none, s1.pop)
  | (.done (some (m, v)), s1) => run (cd ++ [.eq gi gdom v]) m (vals ++ [v]) s1
  | (e, s1) => (e.cast none, s1)

theorem lexLoop_cons (mx : Mixin) (strat : Strat) (n : Nat) (gi : Nat) (g : Goal) (rest : List (Nat × Goal))
    (cd : List Constraint) (last : Option M) (vals : List Int) (s : Solver M) :
    lexLoop o obj mx strat n ((gi, g) :: rest) cd last vals s =
      lexF gi g.dom vals cd (fun cd' m vals' s1 => lexLoop o obj mx strat n rest cd' (some m) vals' s1)
        (lexStep o obj mx strat g gi cd n s) := by
  rw [lexLoop]
  cases h : lexStep o obj mx strat g gi cd n s with
  | mk out s1 =>
  cases out with
  | done r =>
    cases r with
    | none => rfl
    | some mc => obtain ⟨m, c⟩ := mc; rfl
  | fuel => rfl
  | castErr d v => rfl
  | keyErr => rfl
  | emptyGoals => rfl

/-- `lexicographic_optimize` terminates when the optimum of every goal is attained on every set of
    models that fixes the values of earlier goals -/
theorem lexLoop_stable (hO : OracleSpec A val o) (mx : Mixin) (strat : Strat) (base : List Constraint) :
    ∀ (goals : List (Nat × Goal)) (cd : List Constraint) (last : Option M) (vals : List Int) (s : Solver M),
      s.stack = base → GoalsOk A val obj goals →
      (∀ cd', ∀ p ∈ goals, Attained obj (Feas A val base cd') p) →
      ∃ N, Stable (fun n => lexLoop o obj mx strat n goals cd last vals s) N := by
  intro goals
  induction goals with
  | nil =>
    intro cd last vals s _ _ _
    cases last with
    | none => exact ⟨0, by simp [lexLoop], fun n _ => by simp [lexLoop]⟩
    | some m => exact ⟨0, by simp [lexLoop], fun n _ => by simp [lexLoop]⟩
  | cons p rest ih =>
    intro cd last vals s hbase hok hatt
    obtain ⟨gi, g⟩ := p
    have hp := hok (gi, g) (by simp)
    obtain ⟨N1, hN1, hst1⟩ := lexStep_stable (gi := gi) hO hp.1 hp.2 mx strat cd s (by
      rw [hbase]; exact hatt cd (gi, g) (by simp))
    have hspec := lexStep_spec (gi := gi) hO hp.1 hp.2 mx strat cd N1 s
    simp only at hN1 hst1
    cases hr : lexStep o obj mx strat g gi cd N1 s with
    | mk out s1 =>
    rw [hr] at hspec hN1 hst1
    rcases hspec with hfu | ⟨res, hres, e1, _, _, _, _⟩
    · exact absurd hfu hN1
    · simp only at hres e1
      subst hres
      cases res with
      | none =>
        refine ⟨N1, ?_, ?_⟩
        · simp only [lexLoop_cons, hr, lexF]; simp
        · intro n hge
          simp only [lexLoop_cons, hst1 n hge, hr, lexF]
      | some mc =>
        obtain ⟨m, v⟩ := mc
        obtain ⟨N2, hN2, hst2⟩ := ih (cd ++ [.eq gi g.dom v]) (some m) (vals ++ [v]) s1 (by rw [e1, hbase])
          (fun q hq => hok q (by simp [hq])) (fun cd' q hq => hatt cd' q (by simp [hq]))
        simp only at hN2 hst2
        refine ⟨max N1 N2, ?_, ?_⟩
        · simp only [lexLoop_cons, hst1 _ (Nat.le_max_left N1 N2), lexF, hst2 _ (Nat.le_max_right N1 N2)]
          exact hN2
        · intro n hge
          have h1 : n ≥ N1 := Nat.le_trans (Nat.le_max_left N1 N2) hge
          have h2 : n ≥ N2 := Nat.le_trans (Nat.le_max_right N1 N2) hge
          simp only [lexLoop_cons, hst1 n h1, hst2 n h2, hst1 _ (Nat.le_max_left N1 N2),
            hst2 _ (Nat.le_max_right N1 N2), lexF]

end
end PySMT.Opt
